(* gen/TransRbr.v (binlog_event_rbr.go: binlogEvent.TableMap and binlogEvent.Rows, translated by harness/cmd/gotrans)
   computes what the hand-written ev_table_map / ev_rows of Model/Rbr.v do.  The callees (readLenEncInt, metadataRead,
   newBitmap, Bitmap.Bit, Bitmap.BitCount, cellLength, HeaderSize, Type) are the constants of the other family files;
   their equivalence theorems (TransEquiv{Cell,Meta,Bitmap,Header,Events}.v) are reused here. *)
From Coq Require Import ZifyBool.
From GB Require Import Base.Prelude Base.GoSem Base.BytesLemmas Proofs.GoSemLemmas Proofs.TransTactics.
From GB Require Import Model.Header Model.Cell Model.Events Model.Rbr.
From GB Require Import Proofs.TransEquivCell Proofs.TransEquivMeta Proofs.TransEquivBitmap Proofs.TransEquivHeader
  Proofs.TransEquivEvents.
From GBGen Require Import Consts Structure TransCell TransMeta TransBitmap TransHeader TransEvents TransRbr.
Open Scope Z_scope.
Ltac Zify.zify_post_hook ::= Z.to_euclidean_division_equations.

(* ---- the hand-written records as the Go structs ---- *)
Definition TableMap_of (tm : table_map) : TableMap_r :=
  {| TableMap_Flags := tm_flags tm; TableMap_Database := tm_db tm; TableMap_Name := tm_name tm;
     TableMap_Types := tm_types tm; TableMap_CanBeNull := Bitmap_of (tm_can_be_null tm); TableMap_Metadata := tm_meta tm |}.

(* an image the event type does not have is `None` in the hand-written model and the zero value (nil slice) of the
   Go struct; the generated code does not distinguish a nil from an empty slice, so both become [] *)
Definition image_of (o : option bytes) : bytes := match o with Some s => s | None => [] end.
Definition Row_of (r : row) : Row_r :=
  {| Row_NullIdentifyColumns := Bitmap_of (r_null_ident r); Row_NullColumns := Bitmap_of (r_null_data r);
     Row_Identify := image_of (r_ident r); Row_Data := image_of (r_data r) |}.
Definition Rows_of (rs : rows) : Rows_r :=
  {| Rows_Flags := rs_flags rs; Rows_IdentifyColumns := Bitmap_of (rs_ident_cols rs);
     Rows_DataColumns := Bitmap_of (rs_data_cols rs); Rows_Rows := map Row_of (rs_rows rs) |}.

(* ---- general helpers ---- *)
Lemma res_sim_map_cases {A B} (x : res B) (y : res A) (f : A -> B) : res_sim x (res_map f y) ->
  (exists a, y = Ok a /\ x = Ok (f a)) \/ (exists e e', y = Err e /\ x = Err e') \/ (y = Panic /\ x = Panic).
Proof.
  destruct x as [b|e'|], y as [a|e|]; cbn [res_map res_sim]; intros H; try contradiction.
  - left. exists a. subst. auto.
  - right. left. eauto.
  - right. right. auto.
Qed.

Lemma res_sim_cases {A} (x y : res A) : res_sim x y ->
  (exists a, y = Ok a /\ x = Ok a) \/ (exists e e', y = Err e /\ x = Err e') \/ (y = Panic /\ x = Panic).
Proof.
  destruct x as [b|e'|], y as [a|e|]; cbn [res_sim]; intros H; try contradiction.
  - left. exists a. subst. auto.
  - right. left. eauto.
  - right. right. auto.
Qed.

Lemma if_ok_nat (c : bool) (a b : nat) :
  (if c then Ok (Z.of_nat a) else Ok (Z.of_nat b)) = Ok (Z.of_nat (if c then a else b)).
Proof. destruct c; reflexivity. Qed.

(* the position after the post-header: 4-byte or 6-byte table id *)
Lemma post_header_pos (hs : Z) : (if hs =? 6 then Ok 4 else Ok 6) = Ok (Z.of_nat (if hs =? 6 then 4%nat else 6%nat)).
Proof. destruct (hs =? 6); reflexivity. Qed.

Lemma read_lenenc_bounds d pos v np : wf_bytes d -> read_lenenc d pos = Ok (Some (v, np)) ->
  0 <= v < 2 ^ 64 /\ (pos < np <= length d)%nat.
Proof.
  intros W. unfold read_lenenc. destruct (Nat.leb_spec (length d) pos) as [L|L]; [discriminate|].
  destruct (at_ d pos) as [b| |] eqn:Eb; cbn [bind]; try discriminate.
  pose proof (at_byte _ _ _ W Eb) as Bb.
  destruct (b =? 252).
  { destruct (Nat.leb_spec (length d) (pos + 2)); [discriminate|].
    destruct (le_at d (pos + 1) 2) as [x| |] eqn:E; cbn [bind]; try discriminate. intros HH; inversion HH; subst.
    pose proof (le_at_bound _ _ _ _ W E). change (256 ^ Z.of_nat 2) with 65536 in *. change (2 ^ 64) with 18446744073709551616. lia. }
  destruct (b =? 253).
  { destruct (Nat.leb_spec (length d) (pos + 3)); [discriminate|].
    destruct (le_at d (pos + 1) 3) as [x| |] eqn:E; cbn [bind]; try discriminate. intros HH; inversion HH; subst.
    pose proof (le_at_bound _ _ _ _ W E). change (256 ^ Z.of_nat 3) with 16777216 in *. change (2 ^ 64) with 18446744073709551616. lia. }
  destruct (b =? 254).
  { destruct (Nat.leb_spec (length d) (pos + 8)); [discriminate|].
    destruct (le_at d (pos + 1) 8) as [x| |] eqn:E; cbn [bind]; try discriminate. intros HH; inversion HH; subst.
    pose proof (le_at_bound _ _ _ _ W E). change (256 ^ Z.of_nat 8) with 18446744073709551616 in *. change (2 ^ 64) with 18446744073709551616. lia. }
  intros HH; inversion HH; subst. change (2 ^ 64) with 18446744073709551616. lia.
Qed.

(* metadata_read moves forward and stays inside the data (or does not move) *)
Lemma metadata_read_pos d pos t v p : metadata_read d pos t = Ok (v, p) -> (pos <= p /\ (p <= length d \/ p = pos))%nat.
Proof.
  unfold metadata_read. destruct (in_case 0 t); [intros H; inversion H; lia|].
  destruct (in_case 1 t).
  { destruct (at_ d pos) eqn:E; cbn [bind]; try discriminate. apply at_lt in E. intros H; inversion H; lia. }
  destruct (in_case 2 t).
  { destruct (at_ d pos) eqn:E; cbn [bind]; try discriminate. destruct (at_ d (S pos)) eqn:E2; cbn [bind]; try discriminate.
    apply at_lt in E2. intros H; inversion H; lia. }
  destruct (in_case 3 t).
  { destruct (at_ d pos) eqn:E; cbn [bind]; try discriminate. destruct (at_ d (S pos)) eqn:E2; cbn [bind]; try discriminate.
    apply at_lt in E2. intros H; inversion H; lia. }
  discriminate.
Qed.

(* xs[i] = v on a slice under construction: the filled prefix, then zeros *)
Lemma list_upd_app pre x rest v : list_upd (pre ++ x :: rest) (length pre) v = Some (pre ++ v :: rest).
Proof. induction pre as [|y pre IH]; cbn [app length list_upd]; [reflexivity|]. rewrite IH. reflexivity. Qed.

Lemma go_upd_app pre x rest v : go_upd (pre ++ x :: rest) (Z.of_nat (length pre)) v = Ok (pre ++ v :: rest).
Proof.
  unfold go_upd. destruct (Z.of_nat (length pre) <? 0) eqn:E; [lia|]. rewrite Nat2Z.id, list_upd_app. reflexivity.
Qed.

(* data[pos : pos+l] with l from the data *)
Lemma go_slice_take d pos l : 0 <= l < 2 ^ 62 -> Z.of_nat pos < 2 ^ 62 ->
  go_slice d (Z.of_nat pos) (i64 (Z.of_nat pos + l)) = take d pos l.
Proof.
  intros Hl Hp. change (2 ^ 62) with 4611686018427387904 in *. rewrite i64_small by lia. unfold take, len.
  destruct (0 <=? l) eqn:E0; [|lia]. cbn [andb].
  rewrite (go_slice_Z d _ _ pos (Z.to_nat l)) by lia.
  destruct (Z.of_nat pos + l <=? Z.of_nat (length d)) eqn:E1; [reflexivity|].
  apply slice_panic. lia.
Qed.

(* ---- TableMap ---- *)
Ltac tm_fields :=
  cbn [TableMap_Flags TableMap_Database TableMap_Name TableMap_Types TableMap_CanBeNull TableMap_Metadata].

(* Premises: all guaranteed by Go's types except len ev < 2^62 (true of any real slice).  No discrepancy found. *)
Theorem binlogEvent_TableMap_equiv fuel ev f :
  wf_bytes ev -> hlen_byte f -> len ev < 2 ^ 62 -> (length ev < fuel)%nat ->
  res_sim (binlogEvent_TableMap_g fuel ev (Format_of f)) (res_map TableMap_of (ev_table_map f ev)).
Proof.
  intros W Hh Hl Hf. unfold len in Hl. pose proof Hl as Hl'. change (2 ^ 62) with 4611686018427387904 in Hl'.
  unfold binlogEvent_TableMap_g, ev_table_map, binlogEvent_Bytes_g. cbv zeta. cbn [bind].
  rewrite body_eq by apply Hh. destruct (body f ev) as [data| |] eqn:EB; cbn [bind res_map res_sim]; auto.
  pose proof (body_wf _ _ _ W EB) as WD.
  assert (LD : (length data <= length ev)%nat) by (unfold body in EB; apply slice_from_length in EB; lia).
  rewrite HeaderSize_eq. change K_eTableMapEvent with 19.
  destruct (header_size f 19) as [hs| |]; cbn [bind res_map res_sim]; auto.
  rewrite post_header_pos. cbn [bind]. set (p0 := if hs =? 6 then 4%nat else 6%nat).
  assert (Hp0 : (p0 <= 6)%nat) by (unfold p0; destruct (hs =? 6); lia). clearbody p0.
  tm_fields.
  (* flags *)
  rewrite (go_slice_le_bind data _ _ 2 _ p0) by (rewrite ?i64_small by lia; lia).
  destruct (le_at data p0 2) as [flags| |]; cbn [bind res_map res_sim]; auto.
  (* database *)
  rewrite (i64_small (Z.of_nat p0 + 2)) by lia. rewrite (go_idx_Z data _ (p0 + 2)) by lia.
  destruct (at_ data (p0 + 2)) as [l1| |] eqn:El1; cbn [bind res_map res_sim]; auto.
  pose proof (at_byte _ _ _ WD El1) as Bl1.
  rewrite (go_slice_Z data _ _ (p0 + 2 + 1) (Z.to_nat l1)) by (wrap_small; lia).
  destruct (slice data (p0 + 2 + 1) (Z.to_nat l1)) as [db| |]; cbn [bind res_map res_sim]; auto.
  (* table name *)
  set (p1 := (p0 + 2 + 1 + Z.to_nat l1 + 1)%nat).
  assert (Ep1 : i64 (Z.of_nat p0 + 2 + i64 (i64 (1 + l1) + 1)) = Z.of_nat p1) by (wrap_small; lia).
  rewrite Ep1. assert (Hp1 : (p1 <= 300)%nat) by lia. clearbody p1. clear Ep1.
  rewrite go_idx_nat.
  destruct (at_ data p1) as [l2| |] eqn:El2; cbn [bind res_map res_sim]; auto.
  pose proof (at_byte _ _ _ WD El2) as Bl2.
  rewrite (go_slice_Z data _ _ (p1 + 1) (Z.to_nat l2)) by (wrap_small; lia).
  destruct (slice data (p1 + 1) (Z.to_nat l2)) as [name| |]; cbn [bind res_map res_sim]; auto.
  set (p2 := (p1 + 1 + Z.to_nat l2 + 1)%nat).
  assert (Ep2 : i64 (Z.of_nat p1 + i64 (i64 (1 + l2) + 1)) = Z.of_nat p2) by (wrap_small; lia).
  rewrite Ep2. assert (Hp2 : (p2 <= 600)%nat) by lia. clearbody p2. clear Ep2.
  (* column count *)
  destruct (res_sim_map_cases _ _ _ (readLenEncInt_equiv data p2 WD ltac:(lia))) as [(r & Er & Eg)|[(e & e' & Er & Eg)|[Er Eg]]];
    rewrite Er, Eg; cbn [bind res_map res_sim]; auto.
  destruct r as [[cnt np]|]; cbn [lenenc_of negb]; [|exact I].
  destruct (read_lenenc_bounds _ _ _ _ WD Er) as [Bc Bn]. change (2 ^ 64) with 18446744073709551616 in Bc.
  unfold max_int32. destruct (cnt >? 2147483647) eqn:Ec; cbn [res_map res_sim]; auto.
  rewrite (i64_small cnt) by lia.
  rewrite go_slice_take by lia.
  destruct (take data np cnt) as [types| |] eqn:ET; cbn [bind res_map res_sim]; auto.
  assert (LT : length types = Z.to_nat cnt /\ (np + Z.to_nat cnt <= length data)%nat).
  { unfold take in ET. destruct ((0 <=? cnt) && (Z.of_nat np + cnt <=? len data)) eqn:E; [|discriminate].
    unfold len in E. split; [eapply slice_length; exact ET|lia]. }
  destruct LT as [LT LN].
  set (cc := Z.to_nat cnt) in *. assert (Ecc : cnt = Z.of_nat cc) by lia. rewrite Ecc in *. clearbody cc. clear Ecc Bc Ec.
  rewrite (i64_small (Z.of_nat np + Z.of_nat cc)) by lia.
  replace (Z.of_nat np + Z.of_nat cc) with (Z.of_nat (np + cc)) by lia.
  (* metadata length *)
  destruct (res_sim_map_cases _ _ _ (readLenEncInt_equiv data (np + cc) WD ltac:(lia))) as [(r & Er2 & Eg2)|[(e & e' & Er2 & Eg2)|[Er2 Eg2]]];
    rewrite Er2, Eg2; cbn [bind res_map res_sim]; auto.
  destruct r as [[ml np2]|]; cbn [lenenc_of negb]; [|exact I].
  destruct (read_lenenc_bounds _ _ _ _ WD Er2) as [Bm Bn2]. change (2 ^ 64) with 18446744073709551616 in Bm.
  destruct (ml >? 2147483647) eqn:Em; cbn [res_map res_sim]; auto.
  rewrite (i64_small ml) by lia. rewrite (i64_small (Z.of_nat np2 + ml)) by lia.
  unfold go_make. destruct (Z.of_nat cc <? 0) eqn:E0; [lia|]. cbn [bind]. rewrite Nat2Z.id. tm_fields.
  (* the loop over the columns *)
  lazymatch goal with |- res_sim (?L fuel ?R _ 0) _ => set (loop := L) end.
  set (fin := fun (r : list Z * nat) =>
     let (metas, pend) := r in
     if negb (Z.of_nat pend =? Z.of_nat np2 + ml) then Err EMetaEnd
     else do (cbn, _) <- new_bitmap data pend cc;
          Ok {| tm_flags := flags; tm_db := db; tm_name := name; tm_types := types; tm_can_be_null := cbn; tm_meta := metas |}).
  assert (Hloop : forall rest pre acc pos fl, types = pre ++ rest -> length acc = length pre -> (length rest < fl)%nat ->
            (pos <= length data)%nat ->
            res_sim (loop fl {| TableMap_Flags := flags; TableMap_Database := db; TableMap_Name := name; TableMap_Types := types;
                                TableMap_CanBeNull := {| Bitmap_data := []; Bitmap_count := 0 |};
                                TableMap_Metadata := rev acc ++ repeat 0 (length rest) |}
                          (Z.of_nat pos) (Z.of_nat (length pre)))
                    (res_map TableMap_of (bind (read_metas rest data pos acc) fin))).
  { induction rest as [|t rest IH]; intros pre acc pos fl Ht Ha Hfl Hpos; (destruct fl as [|fl]; [cbn [length] in Hfl; lia|]);
      unfold loop; cbv beta iota zeta; fold loop; tm_fields; cbn [read_metas bind].
    - assert (Hc : length pre = cc) by (rewrite <- LT, Ht, app_nil_r; reflexivity).
      rewrite Hc. destruct (Z.of_nat cc <? Z.of_nat cc) eqn:E; [lia|].
      unfold fin. destruct (negb (Z.of_nat pos =? Z.of_nat np2 + ml)); cbn [res_map res_sim]; auto.
      destruct (res_sim_map_cases _ _ _ (newBitmap_equiv data pos cc ltac:(lia) ltac:(lia))) as [(r & Eb & Egb)|[(e & e' & Eb & Egb)|[Eb Egb]]];
        rewrite Eb, Egb; cbn [bind res_map res_sim]; auto.
      destruct r as [bm pe]. unfold Bitmap_pos_of. cbn [fst snd res_map res_sim TableMap_of]. tm_fields.
      cbn [tm_flags tm_db tm_name tm_types tm_can_be_null tm_meta repeat length].
      rewrite app_nil_r, rev_append_rev, app_nil_r. reflexivity.
    - assert (Hc : (length pre < cc)%nat) by (rewrite <- LT, Ht, app_length; cbn [length]; lia).
      destruct (Z.of_nat (length pre) <? Z.of_nat cc) eqn:E; [|lia].
      rewrite go_idx_nat. rewrite Ht at 1. rewrite at_app_mid. cbn [bind].
      destruct (res_sim_map_cases _ _ _ (metadataRead_equiv data pos t ltac:(lia))) as [(r & Em' & Egm)|[(e & e' & Em' & Egm)|[Em' Egm]]];
        rewrite Em', Egm; cbn [bind res_map res_sim]; auto.
      destruct r as [m p]. unfold pos_of. cbn [fst snd length repeat].
      replace (length pre) with (length (rev acc)) at 1 by (rewrite rev_length; exact Ha).
      rewrite go_upd_app. cbn [bind].
      destruct (metadata_read_pos _ _ _ _ _ Em') as [Pp1 Pp2].
      rewrite (i64_small (Z.of_nat (length pre) + 1)) by lia.
      replace (Z.of_nat (length pre) + 1) with (Z.of_nat (length (pre ++ [t]))) by (rewrite app_length; cbn [length]; lia).
      replace (rev acc ++ m :: repeat 0 (length rest)) with (rev (m :: acc) ++ repeat 0 (length rest))
        by (cbn [rev]; rewrite <- app_assoc; reflexivity).
      apply IH; [rewrite <- app_assoc; exact Ht | rewrite app_length; cbn [length]; lia | cbn [length] in Hfl; lia | lia]. }
  specialize (Hloop types [] [] np2 fuel eq_refl eq_refl ltac:(lia) ltac:(lia)).
  cbn [rev app length Z.of_nat] in Hloop. rewrite LT in Hloop.
  unfold fin in Hloop.
  destruct (read_metas types data np2 []) as [[metas pend]| |]; cbn [bind] in Hloop |- *; exact Hloop.
Qed.

Print Assumptions binlogEvent_TableMap_equiv.

(* ---- Rows ---- *)
(* the length of a cell: never negative, at most 4 + 2^32 - 1 (a long blob); the lengths that do not depend on the
   data are small, and the others cannot be computed at a position outside the data *)
Lemma le_at_beyond d pos n : (length d <= pos)%nat -> (0 < n)%nat -> le_at d pos n = Panic.
Proof. intros H Hn. unfold le_at. rewrite slice_panic by lia. reflexivity. Qed.

Lemma dig2_range i v : dig2 i = Ok v -> 0 <= i <= 9.
Proof.
  unfold dig2. destruct (0 <=? i) eqn:E; [|discriminate].
  destruct (nth_error dig2bytes (Z.to_nat i)) as [x|] eqn:N; [|discriminate]. intros _.
  assert (L : (Z.to_nat i < length dig2bytes)%nat) by (apply nth_error_Some; congruence).
  change (length dig2bytes) with 10%nat in L. lia.
Qed.

Definition max_cell : Z := 4294967299.

Lemma cell_length_bounds d pos typ meta :
  wf_bytes d -> 0 <= meta < 65536 ->
  match cell_length d pos typ meta with
  | Ok l => 0 <= l <= max_cell /\ ((length d <= pos)%nat -> l <= 65536)
  | _ => True
  end.
Proof.
  intros W Hm. unfold max_cell, cell_length. unfold_types.
  split_ifs.
  all: try exact I.
  all: try (split; [lia|intros _; lia]).
  all: unfold decimal_size, blob_len, band, shr in *; change (2 ^ 8) with 256 in *; rewrite ?land_255 in *.
  all: try (destruct (Nat.le_gt_cases (length d) pos) as [LP|LP];
            [ first [rewrite le_at_beyond by lia | rewrite at_panic by lia]; exact I |]).
  all: try (match goal with W : wf_bytes ?dd |- context [le_at ?dd ?pp ?n] =>
              destruct (le_at dd pp n) as [l| |] eqn:EL; cbn [bind]; try exact I;
              pose proof (le_at_bound _ _ _ _ W EL) as BL end).
  all: try (match goal with W : wf_bytes ?dd |- context [at_ ?dd ?pp] =>
              destruct (at_ dd pp) as [l| |] eqn:EL; cbn [bind]; try exact I;
              pose proof (at_byte _ _ _ W EL) as BL end).
  all: try (change (256 ^ Z.of_nat 2) with 65536 in *; split; [lia|intros; lia]).
  all: try (unfold u16; split; [lia|intros; lia]).
  (* decimal *)
  all: try (match goal with |- context [dig2 ?x] => destruct (dig2 x) as [v1| |] eqn:D1; cbn [bind]; try exact I end;
            match goal with |- context [dig2 ?x] => destruct (dig2 x) as [v2| |] eqn:D2; cbn [bind]; try exact I end;
            pose proof (dig2_bound _ _ D1); pose proof (dig2_bound _ _ D2);
            pose proof (dig2_range _ _ D1); pose proof (dig2_range _ _ D2); split; [lia|intros; lia]).
  (* blobs *)
  destruct ((1 <=? meta) && (meta <=? 4)) eqn:EM; [|exact I].
  destruct (Nat.le_gt_cases (length d) pos) as [LP|LP]; [rewrite le_at_beyond by lia; exact I|].
  destruct (le_at d pos (Z.to_nat meta)) as [l| |] eqn:EL; cbn [bind]; try exact I.
  pose proof (le_at_bound _ _ _ _ W EL) as BL. rewrite Z2Nat.id in BL by lia.
  assert (C : meta = 1 \/ meta = 2 \/ meta = 3 \/ meta = 4) by lia.
  destruct C as [->|[->|[->| ->]]]; [change (256 ^ 1) with 256 in BL|change (256 ^ 2) with 65536 in BL|
    change (256 ^ 3) with 16777216 in BL|change (256 ^ 4) with 4294967296 in BL]; split; try lia; intros; lia.
Qed.

(* outside the data the length of a cell does not depend on the position *)
Lemma cell_length_beyond d p p' typ meta : (length d <= p)%nat -> (length d <= p')%nat ->
  cell_length d p typ meta = cell_length d p' typ meta.
Proof.
  intros H H'. unfold cell_length, blob_len.
  rewrite !(le_at_beyond d p 2), !(le_at_beyond d p' 2), !(at_panic d p), !(at_panic d p') by lia.
  destruct ((1 <=? meta) && (meta <=? 4)) eqn:EM; [|reflexivity].
  rewrite (le_at_beyond d p), (le_at_beyond d p') by lia. reflexivity.
Qed.

(* ---- the loop over the columns of one image (three copies in the generated code) ----
   `loop` is any function with the one-step equations of the generated loop; K is what the generated code does
   after the loop (with the fuel that is left and the final position). *)
Definition col_body {R} (loop : nat -> Z -> Z -> Z -> res R) (K : nat -> Z -> res R)
    (cc : nat) (cols nulls : bitmap) (tm : table_map) (d : bytes) (f : nat) (vi pos c : Z) : res R :=
  if c <? Z.of_nat cc then
    do t <- Bitmap_Bit_g (Bitmap_of cols) c;
    if negb t then loop f vi pos (i64 (c + 1))
    else
      do t' <- Bitmap_Bit_g (Bitmap_of nulls) vi;
      if t' then loop f (i64 (vi + 1)) pos (i64 (c + 1))
      else
        do ty <- go_idx (tm_types tm) c; do me <- go_idx (tm_meta tm) c; do l <- cellLength_g d pos ty me;
        loop f (i64 (vi + 1)) (i64 (pos + l)) (i64 (c + 1))
  else K f pos.

Definition meta_ok (tm : table_map) : Prop := Forall (fun m => 0 <= m < 65536) (tm_meta tm).

Section ColLoop.
  Context {R : Type}.
  Variable loop : nat -> Z -> Z -> Z -> res R.
  Variable K : nat -> Z -> res R.
  Variables (cc : nat) (cols nulls : bitmap) (tm : table_map) (d : bytes).
  Hypothesis loop_O : forall vi pos c, loop O vi pos c = Err EOutOfFuel.
  Hypothesis loop_S : forall f vi pos c, loop (S f) vi pos c = col_body loop K cc cols nulls tm d f vi pos c.
  Hypothesis W : wf_bytes d.
  Hypothesis WT : wf_bytes (tm_types tm).
  Hypothesis WM : meta_ok tm.
  Hypothesis HL : len d < 2 ^ 61.
  Hypothesis Hcc : Z.of_nat cc < 2 ^ 31.

  (* the Go position and the position of the hand-written model (which clamps every step to len d + 1): equal
     inside the data, both outside otherwise *)
  Definition pos_rel (c : nat) (zp : Z) (p : nat) : Prop :=
    (zp = Z.of_nat p /\ (p <= length d)%nat) \/
    (len d < zp <= len d + max_cell + 65536 * Z.of_nat c /\ (length d < p)%nat).

  Definition col_post (r : res nat) (n fl : nat) (x : res R) : Prop :=
    match r with
    | Ok p2 => ((n < fl)%nat -> exists zp2, pos_rel cc zp2 p2 /\ x = K (fl - n - 1) zp2) /\
               ((fl <= n)%nat -> x = Err EOutOfFuel)
    | Err _ => exists e, x = Err e
    | Panic => (n < fl)%nat -> x = Panic
    end.

  Lemma col_post_S r n fl x : col_post r n fl x -> col_post r (S n) (S fl) x.
  Proof.
    destruct r as [p2|e|]; cbn [col_post]; [|auto|intros H L; apply H; lia].
    intros [H1 H2]. split; [|intros L; apply H2; lia].
    intros L. replace (S fl - S n - 1)%nat with (fl - n - 1)%nat by lia. apply H1. lia.
  Qed.

  Lemma col_post_O r n x : x = Err EOutOfFuel -> col_post r n 0 x.
  Proof.
    intros ->. destruct r as [p2|e|]; cbn [col_post]; [|eauto|intros L; lia].
    split; [intros L; lia|reflexivity].
  Qed.

  Lemma pos_rel_mono c c' zp p : (c <= c')%nat -> pos_rel c zp p -> pos_rel c' zp p.
  Proof. unfold pos_rel. intros L [H|[H1 H2]]; [left; exact H|right; split; [lia|exact H2]]. Qed.

  Lemma col_loop_spec : forall n c vi pos zp fl,
    (c + n = cc)%nat -> (vi <= c)%nat -> pos_rel c zp pos ->
    col_post (skip_image n tm cols nulls d c vi pos) n fl (loop fl (Z.of_nat vi) zp (Z.of_nat c)).
  Proof.
    unfold len in HL. change (2 ^ 61) with 2305843009213693952 in HL. change (2 ^ 31) with 2147483648 in Hcc.
    induction n as [|n IH]; intros c vi pos zp fl Hc Hvi Hrel.
    - destruct fl as [|f]; [apply col_post_O, loop_O|].
      cbn [skip_image col_post]. rewrite loop_S. unfold col_body.
      destruct (Z.of_nat c <? Z.of_nat cc) eqn:E; [lia|].
      split; [|intros L; lia]. intros _. exists zp. split; [|f_equal; lia].
      replace cc with c by lia. exact Hrel.
    - destruct fl as [|f]; [apply col_post_O, loop_O|].
      apply col_post_S. rewrite loop_S. unfold col_body.
      destruct (Z.of_nat c <? Z.of_nat cc) eqn:E; [|lia]. cbn [skip_image].
      rewrite (i64_small (Z.of_nat c + 1)), (i64_small (Z.of_nat vi + 1)) by lia.
      replace (Z.of_nat c + 1) with (Z.of_nat (S c)) by lia. replace (Z.of_nat vi + 1) with (Z.of_nat (S vi)) by lia.
      destruct (res_sim_cases _ _ (Bitmap_Bit_equiv cols c ltac:(change (2 ^ 62) with 4611686018427387904; lia)))
        as [(pr & Em & Eg)|[(e & e' & Em & Eg)|[Em Eg]]]; rewrite Em, Eg; cbn [bind col_post]; eauto.
      destruct pr; cbn [negb].
      2: { apply IH; [lia|lia|]. apply (pos_rel_mono c); [lia|exact Hrel]. }
      destruct (res_sim_cases _ _ (Bitmap_Bit_equiv nulls vi ltac:(change (2 ^ 62) with 4611686018427387904; lia)))
        as [(nu & Em2 & Eg2)|[(e & e' & Em2 & Eg2)|[Em2 Eg2]]]; rewrite Em2, Eg2; cbn [bind col_post]; eauto.
      destruct nu.
      { apply IH; [lia|lia|]. apply (pos_rel_mono c); [lia|exact Hrel]. }
      rewrite !go_idx_nat.
      destruct (at_ (tm_types tm) c) as [ty| |] eqn:Ety; cbn [bind col_post]; eauto.
      pose proof (at_byte _ _ _ WT Ety) as Bty.
      unfold at_. destruct (nth_error (tm_meta tm) c) as [me|] eqn:Eme; cbn [bind col_post]; eauto.
      assert (Bme : 0 <= me < 65536).
      { apply nth_error_In in Eme. unfold meta_ok in WM. rewrite Forall_forall in WM. apply (WM _ Eme). }
      pose proof (cell_length_bounds d pos ty me W Bme) as CB. unfold max_cell in *.
      destruct Hrel as [[Hz Hp]|[Hz Hp]].
      + subst zp.
        destruct (res_sim_cases _ _ (cellLength_equiv d pos ty me W Bty Bme ltac:(change (2 ^ 62) with 4611686018427387904; lia)))
          as [(l & Em3 & Eg3)|[(e & e' & Em3 & Eg3)|[Em3 Eg3]]]; rewrite Em3, Eg3 in *; cbn [bind col_post]; eauto.
        destruct CB as [CB _]. destruct (l <? 0) eqn:El; [lia|].
        rewrite (i64_small (Z.of_nat pos + l)) by lia.
        apply IH; [lia|lia|]. unfold pos_rel, len, max_cell.
        destruct (Z_le_gt_dec (Z.of_nat pos + l) (Z.of_nat (length d))) as [Le|Gt]; [left|right]; lia.
      + unfold len, max_cell in Hz. assert (Hzp : zp = Z.of_nat (Z.to_nat zp)) by lia.
        pose proof (cellLength_equiv d (Z.to_nat zp) ty me W Bty Bme ltac:(change (2 ^ 62) with 4611686018427387904; lia)) as CE.
        rewrite <- Hzp in CE. rewrite (cell_length_beyond d (Z.to_nat zp) pos) in CE by lia.
        destruct (res_sim_cases _ _ CE)
          as [(l & Em3 & Eg3)|[(e & e' & Em3 & Eg3)|[Em3 Eg3]]]; rewrite Em3, Eg3 in *; cbn [bind col_post]; eauto.
        destruct CB as [CB CB2]. specialize (CB2 ltac:(lia)). destruct (l <? 0) eqn:El; [lia|].
        rewrite (i64_small (zp + l)) by lia.
        apply IH; [lia|lia|]. unfold pos_rel, len, max_cell. right. lia.
  Qed.
End ColLoop.

(* ... followed by the slice data[startPos:pos] of the image *)
Definition image_tail (cc : nat) (cols nulls : bitmap) (tm : table_map) (d : bytes) (sp : nat) : res (bytes * nat) :=
  do p2 <- skip_image cc tm cols nulls d 0 0 sp;
  if (p2 <? sp)%nat then Panic else do s <- slice d sp (p2 - sp); Ok (s, p2).

Lemma read_image_tail tm cols cc np d pos :
  read_image tm cols cc np d pos =
  do (nulls, p) <- new_bitmap d pos np; do (s, p2) <- image_tail cc cols nulls tm d p; Ok (nulls, s, p2).
Proof.
  unfold read_image, image_tail. destruct (new_bitmap d pos np) as [[nulls p]| |]; cbn [bind]; try reflexivity.
  destruct (skip_image cc tm cols nulls d 0 0 p) as [p2| |]; cbn [bind]; try reflexivity.
  destruct (p2 <? p)%nat; [reflexivity|]. destruct (slice d p (p2 - p)); reflexivity.
Qed.

Section ImageLoop.
  Context {R : Type}.
  Variable il : nat -> Z -> Z -> Z -> res R.
  Variable C : nat -> Z -> bytes -> res R.
  Variables (cc : nat) (cols nulls : bitmap) (tm : table_map) (d : bytes) (sp : nat).
  Hypothesis il_O : forall vi pos c, il O vi pos c = Err EOutOfFuel.
  Hypothesis il_S : forall f vi pos c, il (S f) vi pos c =
    col_body il (fun f zp => bind (go_slice d (Z.of_nat sp) zp) (C f zp)) cc cols nulls tm d f vi pos c.
  Hypothesis W : wf_bytes d.
  Hypothesis WT : wf_bytes (tm_types tm).
  Hypothesis WM : meta_ok tm.
  Hypothesis HL : len d < 2 ^ 61.
  Hypothesis Hcc : Z.of_nat cc < 2 ^ 31.
  Hypothesis Hsp : (sp <= length d)%nat.

  Definition img_post (r : res (bytes * nat)) (fl : nat) (x : res R) : Prop :=
    match r with
    | Ok (s, p2) => ((cc < fl)%nat -> x = C (fl - cc - 1) (Z.of_nat p2) s) /\ ((fl <= cc)%nat -> x = Err EOutOfFuel) /\
                    (sp <= p2 <= length d)%nat
    | Err _ => exists e, x = Err e
    | Panic => (cc < fl)%nat -> x = Panic
    end.

  Lemma image_loop_spec fl : img_post (image_tail cc cols nulls tm d sp) fl (il fl 0 (Z.of_nat sp) 0).
  Proof.
    pose proof (col_loop_spec il _ cc cols nulls tm d il_O il_S W WT WM HL Hcc cc 0%nat 0%nat sp (Z.of_nat sp) fl
                  eq_refl (le_n 0) (or_introl (conj eq_refl Hsp))) as H.
    cbn [Z.of_nat] in H. unfold image_tail.
    destruct (skip_image cc tm cols nulls d 0 0 sp) as [p2|e|]; cbn [bind col_post img_post] in *; [|exact H|exact H].
    destruct H as [H1 H2]. unfold len in *.
    destruct (Nat.ltb_spec p2 sp) as [Lt|Ge]; cbn [img_post].
    { intros L. destruct (H1 L) as (zp2 & [[Ez Hp]|[Ez Hp]] & ->); [|lia]. rewrite go_slice_bad by lia. reflexivity. }
    destruct (slice_cases d sp (p2 - sp)) as [(s & Es & Ls & Lb)|[Es Lb]]; rewrite Es; cbn [bind img_post].
    - split; [|split; [exact H2|lia]]. intros L. destruct (H1 L) as (zp2 & [[Ez Hp]|[Ez Hp]] & ->); [|lia].
      subst zp2. rewrite (go_slice_Z d _ _ sp (p2 - sp)) by lia. rewrite Es. reflexivity.
    - intros L. destruct (H1 L) as (zp2 & [[Ez Hp]|[Ez Hp]] & ->); [lia|].
      unfold len in Ez. rewrite (go_slice_Z d _ _ sp (Z.to_nat zp2 - sp)) by lia. rewrite slice_panic by lia. reflexivity.
  Qed.
End ImageLoop.

(* one row of the hand-written read_rows *)
Definition row_step (tm : table_map) (hi hd : bool) (icols dcols : bitmap) (ncols ni nd : nat) (d : bytes) (pos : nat)
  : res (row * nat) :=
  do (r1, p1) <-
    (if hi then do (nb, s, p) <- read_image tm icols ncols ni d pos; Ok ((nb, Some s), p)
     else Ok ((bitmap_zero, None), pos));
  do (r2, p2) <-
    (if hd then do (nb, s, p) <- read_image tm dcols ncols nd d p1; Ok ((nb, Some s), p)
     else Ok ((bitmap_zero, None), p1));
  Ok ({| r_null_ident := fst r1; r_null_data := fst r2; r_ident := snd r1; r_data := snd r2 |}, p2).

Lemma read_rows_S k tm hi hd icols dcols ncols ni nd d pos acc :
  read_rows (S k) tm hi hd icols dcols ncols ni nd d pos acc =
  if (length d <=? pos)%nat then Ok (rev_append acc [])
  else do (r, p) <- row_step tm hi hd icols dcols ncols ni nd d pos;
       read_rows k tm hi hd icols dcols ncols ni nd d p (r :: acc).
Proof.
  cbn [read_rows]. unfold row_step. destruct (length d <=? pos)%nat; [reflexivity|].
  destruct (if hi then _ else _) as [[r1 p1]| |]; cbn [bind]; try reflexivity.
  destruct (if hd then _ else _) as [[r2 p2]| |]; cbn [bind]; reflexivity.
Qed.

(* the number of set bits is at most the number of bits *)
Lemma bit_count_from_le b : forall n i acc r, bit_count_from b i n acc = Ok r -> (r <= acc + n)%nat.
Proof.
  induction n as [|n IH]; intros i acc r H; cbn [bit_count_from] in H.
  - inversion H; lia.
  - destruct (bit b i) as [v| |]; cbn [bind] in H; try discriminate. apply IH in H. destruct v; lia.
Qed.

Lemma new_bitmap_ok d pos count b p : new_bitmap d pos count = Ok (b, p) ->
  bm_count b = count /\ (pos <= p <= length d)%nat /\ (count <= 8 * (p - pos))%nat /\ p = (pos + (count + 7) / 8)%nat.
Proof.
  unfold new_bitmap. cbv zeta.
  assert (Hbs : (count <= 8 * ((count + 7) / 8))%nat).
  { pose proof (Nat.div_mod (count + 7) 8 ltac:(lia)). pose proof (Nat.mod_upper_bound (count + 7) 8 ltac:(lia)). lia. }
  set (bs := ((count + 7) / 8)%nat) in *. clearbody bs.
  destruct (slice_cases d pos bs) as [(s & Es & Ls & Lb)|[Es Lb]]; rewrite Es; cbn [bind]; [|discriminate].
  intros H; injection H as <- <-. cbn [bm_count]. lia.
Qed.

Lemma newBitmap_g_panic d np cc : Z.of_nat np < 2 ^ 62 -> Z.of_nat cc < 2 ^ 62 -> (length d < np + (cc + 7) / 8)%nat ->
  newBitmap_g d (Z.of_nat np) (Z.of_nat cc) = Panic.
Proof.
  intros Hn Hc L. pose proof (newBitmap_equiv d np cc Hn Hc) as H. unfold new_bitmap in H. cbv zeta in H.
  rewrite slice_panic in H by exact L. cbn [bind res_map] in H.
  destruct (newBitmap_g d (Z.of_nat np) (Z.of_nat cc)); cbn [res_sim] in H; try contradiction. reflexivity.
Qed.

Lemma bit_count_le b n : bit_count b = Ok n -> (n <= bm_count b)%nat.
Proof. unfold bit_count. intros H. apply bit_count_from_le in H. lia. Qed.

(* the column bitmap of the event and the number of its set bits *)
Definition cols_model (d : bytes) (np cc : nat) : res (bitmap * nat * nat) :=
  do (b, p) <- new_bitmap d np cc; do n <- bit_count b; Ok (b, n, p).

Lemma cols_bitmap_equiv {B} (mk : Bitmap_r -> Z -> Z -> B) fuel d np cc :
  Z.of_nat (length d) < 2 ^ 61 -> (np <= length d)%nat -> Z.of_nat cc < 2 ^ 31 -> (8 * length d < fuel)%nat ->
  res_sim (do (t1, t2) <- newBitmap_g d (Z.of_nat np) (Z.of_nat cc); do t3 <- Bitmap_BitCount_g fuel t1; Ok (mk t1 t2 t3))
          (res_map (fun '(b, n, p) => mk (Bitmap_of b) (Z.of_nat p) (Z.of_nat n)) (cols_model d np cc)) /\
  (forall b n p, cols_model d np cc = Ok (b, n, p) -> (n <= cc /\ np <= p <= length d /\ cc <= 8 * length d /\ bm_count b = cc)%nat).
Proof.
  intros HL Hn Hc Hf. unfold cols_model. change (2 ^ 61) with 2305843009213693952 in HL. change (2 ^ 31) with 2147483648 in Hc.
  destruct (res_sim_map_cases _ _ _ (newBitmap_equiv d np cc ltac:(change (2 ^ 62) with 4611686018427387904; lia)
                                        ltac:(change (2 ^ 62) with 4611686018427387904; lia)))
    as [(r & Em & Eg)|[(e & e' & Em & Eg)|[Em Eg]]]; rewrite Em, Eg; cbn [bind res_map res_sim]; [|split; [exact I|discriminate]..].
  destruct r as [b p]. unfold Bitmap_pos_of. cbn [fst snd].
  destruct (new_bitmap_ok _ _ _ _ _ Em) as (Cb & Pp & Cp & _).
  destruct (res_sim_map_cases _ _ _ (Bitmap_BitCount_equiv fuel b ltac:(change (2 ^ 62) with 4611686018427387904; lia) ltac:(lia)))
    as [(n & Em2 & Eg2)|[(e & e' & Em2 & Eg2)|[Em2 Eg2]]]; rewrite Em2, Eg2; cbn [bind res_map res_sim]; [|split; [exact I|discriminate]..].
  split; [reflexivity|]. intros b' n' p' HH. injection HH as <- <- <-. apply bit_count_le in Em2. lia.
Qed.

(* the accumulated result of the rows loop; appending a row *)
Definition rows_acc (flags : Z) (ic dc : bitmap) (acc : list row) : Rows_r :=
  {| Rows_Flags := flags; Rows_IdentifyColumns := Bitmap_of ic; Rows_DataColumns := Bitmap_of dc;
     Rows_Rows := map Row_of (rev acc) |}.

Lemma rows_acc_cons flags ic dc acc rw :
  {| Rows_Flags := Rows_Flags (rows_acc flags ic dc acc);
     Rows_IdentifyColumns := Rows_IdentifyColumns (rows_acc flags ic dc acc);
     Rows_DataColumns := Rows_DataColumns (rows_acc flags ic dc acc);
     Rows_Rows := Rows_Rows (rows_acc flags ic dc acc) ++ [Row_of rw] |} = rows_acc flags ic dc (rw :: acc).
Proof. unfold rows_acc. cbn [Rows_Flags Rows_IdentifyColumns Rows_DataColumns Rows_Rows rev]. rewrite map_app. reflexivity. Qed.

(* what one iteration of the generated rows loop (x) does, against one row of the hand-written model (r): with
   `need` fuel for the column loops it continues with the next iteration; with less it may run out of fuel *)
Definition row_post (next : row -> nat -> res Rows_r) (r : res (row * nat)) (need fl : nat) (x : res Rows_r) : Prop :=
  match r with
  | Ok (rw, p') => (x = next rw p' \/ exists e, x = Err e) /\ ((need <= fl)%nat -> x = next rw p')
  | Err _ => exists e, x = Err e
  | Panic => (need <= fl)%nat -> x = Panic
  end.

Lemma row_post_nofuel next r need fl e : (fl < need)%nat -> row_post next r need fl (Err e).
Proof.
  intros L. destruct r as [[rw p']|c|]; cbn [row_post]; [|eauto|intros; lia].
  split; [right; eauto|intros; lia].
Qed.

Lemma image_tail_bounds cc cols nulls tm d sp s q : image_tail cc cols nulls tm d sp = Ok (s, q) -> (sp <= q <= length d)%nat.
Proof.
  unfold image_tail. destruct (skip_image cc tm cols nulls d 0 0 sp) as [p2| |]; cbn [bind]; try discriminate.
  destruct (Nat.ltb_spec p2 sp); [discriminate|].
  destruct (slice_cases d sp (p2 - sp)) as [(s' & Es & Ls & Lb)|[Es Lb]]; rewrite Es; cbn [bind]; [|discriminate].
  intros HH; injection HH as <- <-. lia.
Qed.

Lemma read_image_bounds tm cols cc np d pos nb s p : read_image tm cols cc np d pos = Ok (nb, s, p) -> (pos <= p <= length d)%nat.
Proof.
  rewrite read_image_tail. destruct (new_bitmap d pos np) as [[nulls q]| |] eqn:En; cbn [bind]; try discriminate.
  destruct (image_tail cc cols nulls tm d q) as [[s' q2]| |] eqn:Ei; cbn [bind]; try discriminate.
  intros HH; injection HH as <- <- <-. apply new_bitmap_ok in En. apply image_tail_bounds in Ei. lia.
Qed.

Lemma row_step_bounds tm hi hd ic dc cc ni nd d pos rw p' :
  hi || hd = true -> row_step tm hi hd ic dc cc ni nd d pos = Ok (rw, p') -> (pos <= p' <= length d)%nat.
Proof.
  intros HR. unfold row_step.
  destruct hi.
  - destruct (read_image tm ic cc ni d pos) as [[[nb s] p]| |] eqn:E1; cbn [bind]; try discriminate.
    apply read_image_bounds in E1. destruct hd.
    + destruct (read_image tm dc cc nd d p) as [[[nb2 s2] q]| |] eqn:E2; cbn [bind]; try discriminate.
      apply read_image_bounds in E2. intros HH; injection HH as <- <-. lia.
    + cbn [bind]. intros HH; injection HH as <- <-. lia.
  - destruct hd; [|discriminate HR]. cbn [bind].
    destruct (read_image tm dc cc nd d pos) as [[[nb2 s2] q]| |] eqn:E2; cbn [bind]; try discriminate.
    apply read_image_bounds in E2. intros HH; injection HH as <- <-. lia.
Qed.

(* row_step with the two images spelt out *)
Lemma row_step_TT tm ic dc cc ni nd d pos :
  row_step tm true true ic dc cc ni nd d pos =
  do (n1, p) <- new_bitmap d pos ni; do (s1, q1) <- image_tail cc ic n1 tm d p;
  do (n2, p') <- new_bitmap d q1 nd; do (s2, q2) <- image_tail cc dc n2 tm d p';
  Ok ({| r_null_ident := n1; r_null_data := n2; r_ident := Some s1; r_data := Some s2 |}, q2).
Proof.
  unfold row_step. rewrite read_image_tail.
  destruct (new_bitmap d pos ni) as [[n1 p]| |]; cbn [bind]; try reflexivity.
  destruct (image_tail cc ic n1 tm d p) as [[s1 q1]| |]; cbn [bind]; try reflexivity.
  rewrite read_image_tail.
  destruct (new_bitmap d q1 nd) as [[n2 p']| |]; cbn [bind]; try reflexivity.
  destruct (image_tail cc dc n2 tm d p') as [[s2 q2]| |]; cbn [bind]; reflexivity.
Qed.
Lemma row_step_TF tm ic dc cc ni nd d pos :
  row_step tm true false ic dc cc ni nd d pos =
  do (n1, p) <- new_bitmap d pos ni; do (s1, q1) <- image_tail cc ic n1 tm d p;
  Ok ({| r_null_ident := n1; r_null_data := bitmap_zero; r_ident := Some s1; r_data := None |}, q1).
Proof.
  unfold row_step. rewrite read_image_tail.
  destruct (new_bitmap d pos ni) as [[n1 p]| |]; cbn [bind]; try reflexivity.
  destruct (image_tail cc ic n1 tm d p) as [[s1 q1]| |]; cbn [bind]; reflexivity.
Qed.
Lemma row_step_FT tm ic dc cc ni nd d pos :
  row_step tm false true ic dc cc ni nd d pos =
  do (n2, p') <- new_bitmap d pos nd; do (s2, q2) <- image_tail cc dc n2 tm d p';
  Ok ({| r_null_ident := bitmap_zero; r_null_data := n2; r_ident := None; r_data := Some s2 |}, q2).
Proof.
  unfold row_step. cbn [bind]. rewrite read_image_tail.
  destruct (new_bitmap d pos nd) as [[n2 p']| |]; cbn [bind]; try reflexivity.
  destruct (image_tail cc dc n2 tm d p') as [[s2 q2]| |]; cbn [bind]; reflexivity.
Qed.

Ltac bnd62 := change (2 ^ 62) with 4611686018427387904; lia.

(* one image of one row: the null bitmap, the loop over the columns and the slice, on both sides *)
Ltac image_step WD WT WM HLd Hcc31 :=
  lazymatch goal with
  | |- row_post _ (bind (new_bitmap ?d ?pos ?n) _) _ _ _ =>
    let r := fresh "r" in let Em := fresh "Em" in let Eg := fresh "Eg" in let e := fresh "e" in let e' := fresh "e'" in
    destruct (res_sim_map_cases _ _ _ (newBitmap_equiv d pos n ltac:(bnd62) ltac:(bnd62)))
      as [(r & Em & Eg)|[(e & e' & Em & Eg)|[Em Eg]]];
    rewrite Em, Eg; cbn [bind row_post]; [|eauto|intros _; reflexivity];
    let nulls := fresh "nulls" in let sp := fresh "sp" in let Psp := fresh "Psp" in
    destruct r as [nulls sp]; unfold Bitmap_pos_of; cbn [fst snd bind];
    destruct (new_bitmap_ok _ _ _ _ _ Em) as (_ & Psp & _ & _); clear Em Eg
  end;
  lazymatch goal with
  | |- row_post _ (bind (image_tail ?cc ?cols ?nulls ?tm ?d ?sp) _) ?need ?fl (?L ?fl' 0 _ 0) =>
    let il := fresh "il" in let C := fresh "C" in let HS := fresh "HS" in let HI := fresh "HI" in
    let HI1 := fresh "HI1" in let HI2 := fresh "HI2" in let HI3 := fresh "HI3" in
    let s := fresh "s" in let q := fresh "q" in let Lf := fresh "Lf" in let ee := fresh "ee" in let Ei := fresh "Ei" in
    set (il := L);
    evar (C : nat -> Z -> bytes -> res Rows_r);
    assert (HS : forall f vi p c, il (S f) vi p c =
                 col_body il (fun f zp => bind (go_slice d (Z.of_nat sp) zp) (C f zp)) cc cols nulls tm d f vi p c)
      by (intros; unfold C; reflexivity);
    pose proof (image_loop_spec il C cc cols nulls tm d sp (fun _ _ _ => eq_refl) HS WD WT WM HLd Hcc31 ltac:(lia) fl') as HI;
    destruct (image_tail cc cols nulls tm d sp) as [[s q]| |] eqn:Ei; cbn [bind img_post] in HI |- *;
    [ destruct HI as (HI1 & HI2 & HI3); destruct (le_lt_dec fl' cc) as [Lf|Lf];
      [ rewrite (HI2 Lf); apply row_post_nofuel; lia
      | rewrite (HI1 Lf); subst C; cbv beta; clear HI1 HI2 HS; clear il; clear Ei ]
    | cbn [row_post]; destruct HI as [ee HI]; rewrite HI; eauto
    | cbn [row_post]; let Ln := fresh "Ln" in intros Ln; apply HI; lia ]
  end.

(* the event types with rows *)
Definition is_rows_type (typ : Z) : bool := has_identify typ || has_data typ.
Definition rows_event (ev : bytes) : Prop := forall typ, ev_type ev = Ok typ -> is_rows_type typ = true.

Ltac rows_fields := cbn [Rows_Flags Rows_IdentifyColumns Rows_DataColumns Rows_Rows].
Ltac row_fields := cbn [Row_NullIdentifyColumns Row_NullColumns Row_Identify Row_Data].

(* Premises.  Guaranteed by Go's types: wf_bytes ev ([]byte), hlen_byte f (HeaderLength is a byte), wf_bytes (tm_types tm)
   ([]byte), meta_ok tm ([]uint16).  Not guaranteed by the types: len ev < 2^61 (any real slice; it keeps the unclamped
   Go position `pos += l` of a row, at most len + 2^32+3 + 2^31 * 2^16, inside an int64 and inside the domain of
   cellLength_equiv) and rows_event ev (the type byte is one of the six rows event types; see
   binlogEvent_Rows_differs below).  Fuel: the bit-count loops need the column count (at most 8 per data byte), a row
   needs twice the column count plus 2, and there are at most len data rows that consume a byte. *)
Theorem binlogEvent_Rows_equiv fuel ev f tm :
  wf_bytes ev -> hlen_byte f -> len ev < 2 ^ 61 -> wf_bytes (tm_types tm) -> meta_ok tm ->
  rows_event ev -> (17 * length ev + 2 < fuel)%nat ->
  res_sim (binlogEvent_Rows_g fuel ev (Format_of f) (TableMap_of tm)) (res_map Rows_of (ev_rows f tm ev)).
Proof.
  intros W Hh Hl WT WM HR Hf. unfold len in Hl. pose proof Hl as Hl'. change (2 ^ 61) with 2305843009213693952 in Hl'.
  unfold binlogEvent_Rows_g, ev_rows. cbv zeta. row_fields.
  rewrite Type_eq. destruct (ev_type ev) as [typ| |] eqn:ETy; cbn [bind res_map res_sim]; auto.
  specialize (HR typ ETy). unfold is_rows_type in HR.
  change ((((typ =? 24) || (typ =? 31)) || (typ =? 25)) || (typ =? 32)) with (has_identify typ).
  change ((((typ =? 23) || (typ =? 30)) || (typ =? 24)) || (typ =? 31)) with (has_data typ).
  change (((typ =? 30) || (typ =? 31)) || (typ =? 32)) with (is_v2 typ).
  set (hi := has_identify typ) in *. set (hd := has_data typ) in *. clearbody hi hd.
  unfold binlogEvent_Bytes_g. cbn [bind].
  rewrite body_eq by apply Hh. destruct (body f ev) as [data| |] eqn:EB; cbn [bind res_map res_sim]; auto.
  pose proof (body_wf _ _ _ W EB) as WD.
  assert (LD : (length data <= length ev)%nat) by (unfold body in EB; apply slice_from_length in EB; lia).
  rewrite HeaderSize_eq.
  destruct (header_size f typ) as [hs| |]; cbn [bind res_map res_sim]; auto.
  rewrite post_header_pos. cbn [bind]. set (p0 := if hs =? 6 then 4%nat else 6%nat).
  assert (Hp0 : (p0 <= 6)%nat) by (unfold p0; destruct (hs =? 6); lia). clearbody p0.
  rows_fields.
  rewrite (go_slice_le_bind data _ _ 2 _ p0) by (rewrite ?i64_small by lia; lia).
  destruct (le_at data p0 2) as [flags| |]; cbn [bind res_map res_sim]; auto.
  rewrite (i64_small (Z.of_nat p0 + 2)) by lia.
  (* version 2: the extra data *)
  set (mv2 := if is_v2 typ then do e <- le_at data (p0 + 2) 2; Ok (p0 + 2 + Z.to_nat e)%nat else Ok (p0 + 2)%nat).
  lazymatch goal with |- res_sim (bind ?G _) _ => assert (Hv2 : G = res_map Z.of_nat mv2 /\ forall pa, mv2 = Ok pa -> Z.of_nat pa <= 70000) end.
  { unfold mv2. destruct (is_v2 typ); [|split; [cbn [res_map]; f_equal; lia|intros pa HH; inversion HH; lia]].
    rewrite (go_slice_le_bind data _ _ 2 _ (p0 + 2)) by (rewrite ?i64_small by lia; lia).
    destruct (le_at data (p0 + 2) 2) as [e| |] eqn:Ee; cbn [bind res_map]; [|split; [reflexivity|discriminate]..].
    pose proof (le_at_bound2 _ _ _ WD Ee) as Be. split; [rewrite i64_small by lia; f_equal; lia|].
    intros pa HH; inversion HH; lia. }
  destruct Hv2 as [-> Hpa]. destruct mv2 as [pa| |]; cbn [bind res_map res_sim]; auto.
  specialize (Hpa pa eq_refl).
  (* column count *)
  destruct (res_sim_map_cases _ _ _ (readLenEncInt_equiv data pa WD ltac:(change (2 ^ 62) with 4611686018427387904; lia)))
    as [(r & Er & Eg)|[(e & e' & Er & Eg)|[Er Eg]]];
    rewrite Er, Eg; cbn [bind res_map res_sim]; auto.
  destruct r as [[cnt np]|]; cbn [lenenc_of negb]; [|exact I].
  destruct (read_lenenc_bounds _ _ _ _ WD Er) as [Bc Bn]. change (2 ^ 64) with 18446744073709551616 in Bc.
  unfold max_int32. destruct (cnt >? 2147483647) eqn:Ec; cbn [res_map res_sim]; auto.
  rewrite (i64_small cnt) by lia.
  set (cc := Z.to_nat cnt). assert (Ecc : cnt = Z.of_nat cc) by lia. rewrite Ecc in *. clearbody cc. clear Ecc Bc.
  unfold len.
  (* a column count that does not fit in the data: both panic on the first bitmap *)
  destruct (Z.of_nat cc >? 8 * (Z.of_nat (length data) + 1)) eqn:Ebig.
  { assert (HP : forall q, (np <= q)%nat -> Z.of_nat q < 2 ^ 62 -> newBitmap_g data (Z.of_nat q) (Z.of_nat cc) = Panic).
    { intros q Lq Hq. apply newBitmap_g_panic; [exact Hq|change (2 ^ 62) with 4611686018427387904; lia|].
      pose proof (Nat.div_mod (cc + 7) 8 ltac:(lia)). pose proof (Nat.mod_upper_bound (cc + 7) 8 ltac:(lia)). lia. }
    cbn [res_map]. destruct hi; [rewrite HP by (change (2 ^ 62) with 4611686018427387904; lia); exact I|].
    destruct hd; [|discriminate HR]. cbn [bind]. rewrite HP by (change (2 ^ 62) with 4611686018427387904; lia). exact I. }
  assert (Hcc31 : Z.of_nat cc < 2 ^ 31) by (change (2 ^ 31) with 2147483648; lia).
  assert (HLd : Z.of_nat (length data) < 2 ^ 61) by (change (2 ^ 61) with 2305843009213693952; lia).
  (* the identify-columns bitmap *)
  lazymatch goal with |- res_sim _ (res_map _ (bind ?M _)) => set (M1 := M) end.
  lazymatch goal with |- res_sim (bind ?G _) _ =>
    assert (H1 : res_sim G (res_map (fun '(b, n, p) =>
                   ({| Rows_Flags := flags; Rows_IdentifyColumns := Bitmap_of b;
                       Rows_DataColumns := {| Bitmap_data := []; Bitmap_count := 0 |}; Rows_Rows := [] |},
                    Z.of_nat p, Z.of_nat n)) M1) /\
                 forall b n p, M1 = Ok (b, n, p) ->
                   (n <= cc /\ np <= p <= length data)%nat /\ (hi = true -> (cc <= 8 * length data)%nat)) end.
  { unfold M1. destruct hi.
    - destruct (cols_bitmap_equiv (fun t1 t2 t3 => ({| Rows_Flags := flags; Rows_IdentifyColumns := t1;
                       Rows_DataColumns := {| Bitmap_data := []; Bitmap_count := 0 |}; Rows_Rows := [] |}, t2, t3))
                  fuel data np cc HLd ltac:(lia) Hcc31 ltac:(lia)) as [S F].
      split; [exact S|]. intros b n p HH. specialize (F b n p HH). split; [lia|intros _; lia].
    - split; [reflexivity|]. intros b n p HH. injection HH as <- <- <-. split; [lia|discriminate]. }
  destruct H1 as [S1 F1].
  destruct (res_sim_map_cases _ _ _ S1) as [(r & Em & Egm)|[(e & e' & Em & Egm)|[Em Egm]]];
    rewrite Em, Egm; cbn [bind res_map res_sim]; auto.
  destruct r as [[ic ni] p1]. specialize (F1 ic ni p1 Em). destruct F1 as [(Hni & Hp1a & Hp1b) Hcc1]. clear S1 Em Egm M1.
  rows_fields.
  (* the data-columns bitmap *)
  lazymatch goal with |- res_sim _ (res_map _ (bind ?M _)) => set (M2 := M) end.
  lazymatch goal with |- res_sim (bind ?G _) _ =>
    assert (H2 : res_sim G (res_map (fun '(b, n, p) =>
                   ({| Rows_Flags := flags; Rows_IdentifyColumns := Bitmap_of ic;
                       Rows_DataColumns := Bitmap_of b; Rows_Rows := [] |},
                    Z.of_nat p, Z.of_nat n)) M2) /\
                 forall b n p, M2 = Ok (b, n, p) ->
                   (n <= cc /\ p1 <= p <= length data)%nat /\ (hd = true -> (cc <= 8 * length data)%nat)) end.
  { unfold M2. destruct hd.
    - destruct (cols_bitmap_equiv (fun t1 t2 t3 => ({| Rows_Flags := flags; Rows_IdentifyColumns := Bitmap_of ic;
                       Rows_DataColumns := t1; Rows_Rows := [] |}, t2, t3))
                  fuel data p1 cc HLd ltac:(lia) Hcc31 ltac:(lia)) as [S F].
      split; [exact S|]. intros b n p HH. specialize (F b n p HH). split; [lia|intros _; lia].
    - split; [reflexivity|]. intros b n p HH. injection HH as <- <- <-. split; [lia|discriminate]. }
  destruct H2 as [S2 F2].
  destruct (res_sim_map_cases _ _ _ S2) as [(r & Em & Egm)|[(e & e' & Em & Egm)|[Em Egm]]];
    rewrite Em, Egm; cbn [bind res_map res_sim]; auto.
  destruct r as [[dc nd] p2]. specialize (F2 dc nd p2 Em). destruct F2 as [(Hnd & Hp2a & Hp2b) Hcc2]. clear S2 Em Egm M2.
  assert (Hcc8 : (cc <= 8 * length data)%nat) by (destruct hi; [apply Hcc1; reflexivity|destruct hd; [apply Hcc2; reflexivity|discriminate HR]]).
  clear Hcc1 Hcc2.
  (* the loop over the rows *)
  lazymatch goal with |- res_sim (?L fuel _ _) _ => set (loop := L) end.
  change {| Rows_Flags := flags; Rows_IdentifyColumns := Bitmap_of ic; Rows_DataColumns := Bitmap_of dc; Rows_Rows := [] |}
    with (rows_acc flags ic dc []).
  assert (Hrow : forall fl pos acc, (pos < length data)%nat ->
            row_post (fun rw p' => loop fl (Z.of_nat p') (rows_acc flags ic dc (rw :: acc)))
                     (row_step tm hi hd ic dc cc ni nd data pos) (2 * cc + 2) fl
                     (loop (S fl) (Z.of_nat pos) (rows_acc flags ic dc acc))).
  { intros fl pos acc Hpos. unfold loop at 2. cbv beta iota zeta. fold loop.
    destruct (Z.of_nat pos <? Z.of_nat (length data)) eqn:Elt; [|lia].
    destruct hi, hd; [| | |discriminate HR].
    - rewrite row_step_TT.
      image_step WD WT WM HLd Hcc31.
      image_step WD WT WM HLd Hcc31.
      cbn [row_post]. rewrite <- rows_acc_cons. split; [left; reflexivity|intros _; reflexivity].
    - rewrite row_step_TF.
      image_step WD WT WM HLd Hcc31.
      cbn [row_post]. rewrite <- rows_acc_cons. split; [left; reflexivity|intros _; reflexivity].
    - rewrite row_step_FT.
      image_step WD WT WM HLd Hcc31.
      cbn [row_post]. rewrite <- rows_acc_cons. split; [left; reflexivity|intros _; reflexivity]. }
  (* a row that consumes no byte: the Go loop does not terminate; both sides run out of fuel *)
  assert (Hstuck_m : forall pos rw, row_step tm hi hd ic dc cc ni nd data pos = Ok (rw, pos) -> (pos < length data)%nat ->
            forall k acc, read_rows k tm hi hd ic dc cc ni nd data pos acc = Err EOutOfFuel).
  { intros pos rw ES Hpos. induction k as [|k IH]; intros acc; [reflexivity|].
    rewrite read_rows_S. destruct (Nat.leb_spec (length data) pos); [lia|]. rewrite ES. cbn [bind]. apply IH. }
  assert (Hstuck_g : forall pos rw, row_step tm hi hd ic dc cc ni nd data pos = Ok (rw, pos) -> (pos < length data)%nat ->
            forall fl acc, exists e, loop fl (Z.of_nat pos) (rows_acc flags ic dc acc) = Err e).
  { intros pos rw ES Hpos. induction fl as [|fl IH]; intros acc; [eexists; reflexivity|].
    pose proof (Hrow fl pos acc Hpos) as HRw. rewrite ES in HRw. cbn [row_post] in HRw.
    destruct HRw as [[E|[e E]] _]; rewrite E; [apply IH|eauto]. }
  assert (Houter : forall k fl pos acc, (pos <= length data)%nat -> (length data - pos < k)%nat ->
            (length data - pos + 2 * cc + 2 < fl)%nat ->
            res_sim (loop fl (Z.of_nat pos) (rows_acc flags ic dc acc))
                    (res_map (fun rs => Rows_of {| rs_flags := flags; rs_ident_cols := ic; rs_data_cols := dc; rs_rows := rs |})
                             (read_rows k tm hi hd ic dc cc ni nd data pos acc))).
  { induction k as [|k IH]; intros fl pos acc Hpos Hk Hfl; [lia|]. destruct fl as [|fl]; [lia|].
    rewrite read_rows_S. destruct (Nat.leb_spec (length data) pos) as [Lp|Lp].
    - unfold loop. cbv beta iota zeta. destruct (Z.of_nat pos <? Z.of_nat (length data)) eqn:Elt; [lia|].
      cbn [res_map res_sim]. unfold Rows_of, rows_acc. cbn [rs_flags rs_ident_cols rs_data_cols rs_rows].
      rewrite rev_append_rev, app_nil_r. reflexivity.
    - pose proof (Hrow fl pos acc Lp) as HRw.
      destruct (row_step tm hi hd ic dc cc ni nd data pos) as [[rw p']| |] eqn:ES; cbn [row_post bind res_map res_sim] in *.
      + destruct HRw as [_ HB]. rewrite HB by lia.
        destruct (row_step_bounds _ _ _ _ _ _ _ _ _ _ _ _ HR ES) as [B1 B2].
        destruct (Nat.eq_dec p' pos) as [->|Np].
        * rewrite (Hstuck_m pos rw ES Lp). destruct (Hstuck_g pos rw ES Lp fl (rw :: acc)) as [e ->]. exact I.
        * apply IH; lia.
      + destruct HRw as [e ->]. exact I.
      + rewrite HRw by lia. exact I. }
  specialize (Houter (S (length data)) fuel p2 [] Hp2b ltac:(lia) ltac:(lia)).
  destruct (read_rows (S (length data)) tm hi hd ic dc cc ni nd data p2 []) as [rs| |]; cbn [bind res_map] in *; exact Houter.
Qed.

Print Assumptions col_loop_spec.
Print Assumptions image_loop_spec.
Print Assumptions binlogEvent_Rows_equiv.

(* ---- witnesses ---- *)
Definition wit_f : format := {| f_version := 4; f_server := []; f_hlen := 19; f_alg := 0; f_sizes := repeat 8 40 |}.
Definition wit_tm : table_map :=
  {| tm_flags := 1; tm_db := [100]; tm_name := [116]; tm_types := [15; 3];
     tm_can_be_null := {| bm_data := [3]; bm_count := 2 |}; tm_meta := [300; 0] |}.
Definition wit_hdr (typ : Z) : bytes := [0; 0; 0; 0; typ] ++ repeat 0 14.

(* the two theorems are not vacuous: a table map with a VARCHAR(300) and an INT column, and a v2 write-rows event
   with two rows (the second with a NULL) for it *)
Definition wit_tm_ev : bytes := wit_hdr 19 ++ [1; 0; 0; 0; 0; 0; 1; 0; 1; 100; 0; 1; 116; 0; 2; 15; 3; 2; 44; 1; 3].
Example binlogEvent_TableMap_witness :
  binlogEvent_TableMap_g 100 wit_tm_ev (Format_of wit_f) = Ok (TableMap_of wit_tm) /\ ev_table_map wit_f wit_tm_ev = Ok wit_tm.
Proof. split; vm_compute; reflexivity. Qed.

Definition wit_rows_ev : bytes :=
  wit_hdr 30 ++ [1; 0; 0; 0; 0; 0; 1; 0; 2; 0; 2; 3; 0; 2; 0; 65; 66; 7; 0; 0; 0; 2; 1; 0; 67].
Example binlogEvent_Rows_witness :
  exists rs, ev_rows wit_f wit_tm wit_rows_ev = Ok rs /\ length (rs_rows rs) = 2%nat /\
             binlogEvent_Rows_g 1000 wit_rows_ev (Format_of wit_f) (TableMap_of wit_tm) = Ok (Rows_of rs).
Proof. eexists. split; [vm_compute; reflexivity|]. split; vm_compute; reflexivity. Qed.

(* DISCREPANCY 1 (premise rows_event): the hand-written ev_rows panics when the column count exceeds 8 * (len data + 1)
   BEFORE it looks at the event type; the Go code reads a column bitmap (and panics) only for the six rows event
   types.  For any other type (here 19, a table map event) with a large count and nothing after it, Go returns an
   empty Rows value and no error; the hand-written model panics.  Every other premise of the theorem holds. *)
Definition nr_ev : bytes := wit_hdr 19 ++ [0; 0; 0; 0; 0; 0; 1; 0; 252; 255; 255].
Example binlogEvent_Rows_differs :
  wf_bytes nr_ev /\ hlen_byte wit_f /\ wf_bytes (tm_types wit_tm) /\ meta_ok wit_tm /\ (17 * length nr_ev + 2 < 1000)%nat /\
  ~ rows_event nr_ev /\
  binlogEvent_Rows_g 1000 nr_ev (Format_of wit_f) (TableMap_of wit_tm) =
    Ok {| Rows_Flags := 1; Rows_IdentifyColumns := {| Bitmap_data := []; Bitmap_count := 0 |};
          Rows_DataColumns := {| Bitmap_data := []; Bitmap_count := 0 |}; Rows_Rows := [] |} /\
  ev_rows wit_f wit_tm nr_ev = Panic.
Proof.
  split; [apply wf_bytesb_ok; vm_compute; reflexivity|]. split; [unfold hlen_byte; cbn [wit_f f_hlen]; lia|].
  split; [apply wf_bytesb_ok; vm_compute; reflexivity|].
  split; [unfold meta_ok; cbn [wit_tm tm_meta]; repeat constructor; lia|].
  split; [vm_compute; lia|].
  split; [intros H; specialize (H 19 eq_refl); vm_compute in H; discriminate|].
  split; vm_compute; reflexivity.
Qed.

(* the fuel bound `length ev < fuel` is not enough (the bit-count loops run once per column, 8 per bitmap byte):
   200 columns, none present, no rows *)
Definition fuel_ev : bytes := wit_hdr 30 ++ [0; 0; 0; 0; 0; 0; 1; 0; 2; 0; 200] ++ repeat 0 25.
Example binlogEvent_Rows_fuel_differs :
  length fuel_ev = 55%nat /\ rows_event fuel_ev /\
  binlogEvent_Rows_g 56 fuel_ev (Format_of wit_f) (TableMap_of wit_tm) = Err EOutOfFuel /\
  exists rs, ev_rows wit_f wit_tm fuel_ev = Ok rs /\
             binlogEvent_Rows_g 1000 fuel_ev (Format_of wit_f) (TableMap_of wit_tm) = Ok (Rows_of rs).
Proof.
  split; [reflexivity|]. split; [intros typ H; vm_compute in H; injection H as <-; reflexivity|].
  split; [vm_compute; reflexivity|]. eexists. split; vm_compute; reflexivity.
Qed.

(* a column count of zero: every row is empty, the Go loop `for pos < len(data)` never ends; the hand-written model
   and the generated code (for every fuel) report that they ran out of fuel *)
Definition stuck_ev : bytes := wit_hdr 30 ++ [0; 0; 0; 0; 0; 0; 1; 0; 2; 0; 0; 9].
Example binlogEvent_Rows_nonterminating :
  ev_rows wit_f wit_tm stuck_ev = Err EOutOfFuel /\
  binlogEvent_Rows_g 1000 stuck_ev (Format_of wit_f) (TableMap_of wit_tm) = Err EOutOfFuel.
Proof. split; vm_compute; reflexivity. Qed.

Print Assumptions binlogEvent_TableMap_witness.
Print Assumptions binlogEvent_Rows_witness.
Print Assumptions binlogEvent_Rows_differs.
Print Assumptions binlogEvent_Rows_fuel_differs.
Print Assumptions binlogEvent_Rows_nonterminating.
