(* The JSON layer of C20: the text encoding/json writes for a tree is read
   back by the independent RFC 8259 reader as the UTF-8-sanitised tree. *)
From GB Require Import Base.Prelude Base.DecText Base.Utf8 Spec.JsonTree.
From Coq Require Import String.
Open Scope Z_scope.

(* ---------- strings ---------- *)

Lemma prepend_prepend p q o : prepend p (prepend q o) = prepend (p ++ q) o.
Proof. destruct o as [[s r]|]; cbn [prepend]; [rewrite app_assoc|]; reflexivity. Qed.

Lemma ps_quote r : parse_string (34 :: r) = Some ([], r).
Proof. reflexivity. Qed.

Lemma ps_plain c r : 32 <= c -> c <> 34 -> c <> 92 ->
  parse_string (c :: r) = prepend [c] (parse_string r).
Proof.
  intros H1 H2 H3. cbn [parse_string].
  apply Z.eqb_neq in H2, H3. rewrite H2, H3.
  destruct (Z.ltb_spec c 32); [lia|]. reflexivity.
Qed.

Lemma ps_plain_list bs r : Forall (fun b => 128 <= b <= 255) bs ->
  parse_string (bs ++ r) = prepend bs (parse_string r).
Proof.
  induction 1 as [|b bs Hb Hbs IH]; cbn [app].
  - destruct (parse_string r) as [[s t]|]; reflexivity.
  - rewrite ps_plain by lia. rewrite IH, prepend_prepend. reflexivity.
Qed.

Lemma ps_simple e x r : simple_escape e = Some x -> e <> 117 ->
  parse_string (92 :: e :: r) = prepend [x] (parse_string r).
Proof.
  intros H1 H2. cbn [parse_string].
  change (92 =? 34) with false. change (92 =? 92) with true. cbv iota.
  apply Z.eqb_neq in H2. rewrite H2, H1. reflexivity.
Qed.

Lemma ps_u h1 h2 h3 h4 u r : hex4 h1 h2 h3 h4 = Some u -> is_surrogate u = false ->
  parse_string (92 :: 117 :: h1 :: h2 :: h3 :: h4 :: r) = prepend (utf8_enc u) (parse_string r).
Proof.
  intros H1 H2. cbn [parse_string].
  change (92 =? 34) with false. change (92 =? 92) with true. change (117 =? 117) with true. cbv iota.
  rewrite H1, H2. reflexivity.
Qed.

Lemma hexval_hexlow n : 0 <= n < 16 -> hexval (hexlow n) = Some n.
Proof.
  intros H. unfold hexlow, hexval.
  destruct (Z.ltb_spec n 10).
  - destruct (Z.leb_spec 48 (48 + n)); [|lia]. destruct (Z.leb_spec (48 + n) 57); [|lia].
    cbn [andb]. f_equal. lia.
  - destruct (Z.leb_spec 48 (87 + n)); [|lia]. destruct (Z.leb_spec (87 + n) 57); [lia|].
    cbn [andb]. destruct (Z.leb_spec 97 (87 + n)); [|lia]. destruct (Z.leb_spec (87 + n) 102); [|lia].
    cbn [andb]. f_equal. lia.
Qed.

Lemma hex4_u00 c : 0 <= c < 256 -> hex4 48 48 (hexlow (c / 16)) (hexlow (c mod 16)) = Some c.
Proof.
  intros H. unfold hex4. change (hexval 48) with (Some 0).
  rewrite !hexval_hexlow.
  - f_equal. pose proof (Z_div_mod_eq_full c 16). lia.
  - apply Z.mod_pos_bound. lia.
  - split; [apply Z.div_pos; lia | apply Z.div_lt_upper_bound; lia].
Qed.

Lemma ps_u00 c r : 0 <= c < 128 -> parse_string (u00 c ++ r) = prepend [c] (parse_string r).
Proof.
  intros H. unfold u00. cbn [app]. rewrite (ps_u _ _ _ _ c).
  - unfold utf8_enc. destruct (Z.ltb_spec c 128); [reflexivity | lia].
  - apply hex4_u00. lia.
  - unfold is_surrogate. destruct (Z.leb_spec 55296 c); [lia | reflexivity].
Qed.

Definition chunk_ok (ch : chunk) : Prop :=
  match ch with Good bs c => good_enc bs c | Bad _ => True end.

(* one decoding step of the writer is undone by the reader *)
Lemma ps_chunk ch r : chunk_ok ch ->
  parse_string (chunk_esc ch ++ r) = prepend (chunk_san ch) (parse_string r).
Proof.
  destruct ch as [bs c|b]; cbn [chunk_ok chunk_esc chunk_san]; intros G.
  - destruct (Z.ltb_spec c 128) as [Hc|Hc].
    + destruct (good_enc_ascii _ _ G Hc) as [-> H0].
      destruct (Z.eqb_spec c 34) as [->|N34]; [reflexivity|].
      destruct (Z.eqb_spec c 92) as [->|N92]; [reflexivity|]. cbn [orb].
      destruct (Z.eqb_spec c 8) as [->|N8]; [reflexivity|].
      destruct (Z.eqb_spec c 12) as [->|N12]; [reflexivity|].
      destruct (Z.eqb_spec c 10) as [->|N10]; [reflexivity|].
      destruct (Z.eqb_spec c 13) as [->|N13]; [reflexivity|].
      destruct (Z.eqb_spec c 9) as [->|N9]; [reflexivity|].
      destruct ((c <? 32) || (c =? 60) || (c =? 62) || (c =? 38)) eqn:E.
      * apply ps_u00. lia.
      * apply orb_false_iff in E as [E E38]. apply orb_false_iff in E as [E E62].
        apply orb_false_iff in E as [E32 E60]. apply Z.ltb_ge in E32.
        cbn [app]. apply ps_plain; auto.
    + destruct (Z.eqb_spec c 8232) as [E1|N1].
      { rewrite (good_enc_2028 _ _ G) by lia. subst c. reflexivity. }
      destruct (Z.eqb_spec c 8233) as [E2|N2].
      { rewrite (good_enc_2028 _ _ G) by lia. subst c. reflexivity. }
      apply ps_plain_list. apply (good_enc_high _ _ G). lia.
  - reflexivity.
Qed.

Lemma escape_nil : escape [] = [].
Proof. reflexivity. Qed.

Lemma escape_good bs c t : good_enc bs c -> escape (bs ++ t) = chunk_esc (Good bs c) ++ escape t.
Proof. intros G. unfold escape. rewrite (utf8_chunks_app_good _ _ _ G). reflexivity. Qed.

Lemma escape_bad b r : decode_rune (b :: r) = None -> escape (b :: r) = chunk_esc (Bad b) ++ escape r.
Proof. intros E. unfold escape. rewrite (utf8_chunks_bad _ _ E). reflexivity. Qed.

(* string round trip: what the writer puts between the quotes reads back as the sanitised string *)
Lemma parse_string_escape s rest : parse_string (escape s ++ 34 :: rest) = Some (sanitize s, rest).
Proof.
  induction s as [|bs c t G IH|b r E IH] using utf8_ind.
  - reflexivity.
  - rewrite (escape_good _ _ _ G), <- app_assoc, (ps_chunk (Good bs c)) by exact G.
    rewrite IH, (sanitize_good _ _ _ G). reflexivity.
  - rewrite (escape_bad _ _ E), <- app_assoc, (ps_chunk (Bad b)) by exact I.
    rewrite IH, (sanitize_bad _ _ E). reflexivity.
Qed.

(* ---------- numbers ---------- *)

Lemma is_digitb_spec c : is_digitb c = true <-> is_digit c.
Proof. unfold is_digitb, is_digit. rewrite andb_true_iff, !Z.leb_le. tauto. Qed.

(* what may follow a number: nothing, or a character that cannot continue it *)
Definition num_end (rest : bytes) : Prop :=
  match rest with
  | [] => True
  | c :: _ => is_digitb c = false /\ c <> 46 /\ c <> 101 /\ c <> 69
  end.

Lemma span_digits_app ds rest : Forall is_digit ds -> num_end rest ->
  span_digits (ds ++ rest) = (ds, rest).
Proof.
  intros Hd He. induction Hd as [|d ds Hd Hds IH]; cbn [app].
  - destruct rest as [|c r]; [reflexivity|]. cbn [span_digits]. destruct He as [-> _]. reflexivity.
  - cbn [span_digits]. apply is_digitb_spec in Hd. rewrite Hd, IH. reflexivity.
Qed.

(* the part of parse_number after the optional minus sign *)
Definition pn_tail (neg : bool) (s1 : bytes) : option (Z * bytes) :=
  let '(ds, rest) := span_digits s1 in
  match ds with
  | [] => None
  | d0 :: dr =>
    if (d0 =? 48) && negb (match dr with [] => true | _ => false end) then None
    else
      let ok := match rest with
                | c :: _ => negb ((c =? 46) || (c =? 101) || (c =? 69))
                | [] => true
                end in
      if ok then Some (if neg then - dec_val ds else dec_val ds, rest) else None
  end.

Lemma parse_number_minus r : parse_number (45 :: r) = pn_tail true r.
Proof. reflexivity. Qed.

Lemma parse_number_plain c r : c <> 45 -> parse_number (c :: r) = pn_tail false (c :: r).
Proof. intros H. unfold parse_number. apply Z.eqb_neq in H. rewrite H. reflexivity. Qed.

Lemma pn_tail_digs neg z rest : 0 <= z -> num_end rest ->
  pn_tail neg (digs z ++ rest) = Some (if neg then - z else z, rest).
Proof.
  intros Hz He. unfold pn_tail.
  pose proof (digs_digits z Hz) as Hd. pose proof (digs_val z Hz) as Hv.
  rewrite (span_digits_app _ _ Hd He).
  destruct (digs z) as [|d0 dr] eqn:Ed; [exfalso; exact (digs_nonempty z Ed)|].
  assert (Hlead : (d0 =? 48) && negb match dr with [] => true | _ :: _ => false end = false).
  { destruct (Z.eq_dec z 0) as [->|Nz].
    - rewrite digs_zero in Ed. injection Ed as <- <-. reflexivity.
    - destruct (digs_head z ltac:(lia)) as (c & r & Ec & Hc). rewrite Ed in Ec. injection Ec as -> ->.
      destruct (Z.eqb_spec c 48); [lia | reflexivity]. }
  rewrite Hlead.
  destruct rest as [|c r]; cbn [negb]; [rewrite Hv; reflexivity|].
  destruct He as (_ & N1 & N2 & N3).
  apply Z.eqb_neq in N1, N2, N3. rewrite N1, N2, N3. cbn [orb negb]. rewrite Hv. reflexivity.
Qed.

Lemma digs_hd z : 0 <= z -> exists d r, digs z = d :: r /\ 48 <= d <= 57.
Proof.
  intros Hz. pose proof (digs_digits z Hz) as Hd.
  destruct (digs z) as [|d r] eqn:E; [exfalso; exact (digs_nonempty z E)|].
  exists d, r. split; auto. inversion Hd; auto.
Qed.

(* number round trip *)
Lemma parse_number_digs_Z z rest : num_end rest ->
  parse_number (digs_Z z ++ rest) = Some (z, rest).
Proof.
  intros He. unfold digs_Z. destruct (Z.ltb_spec z 0) as [Hn|Hn].
  - cbn [app]. rewrite parse_number_minus, pn_tail_digs by (auto; lia). f_equal. f_equal. lia.
  - destruct (digs_hd z Hn) as (d & r & E & Hd).
    pose proof (pn_tail_digs false z rest Hn He) as H. rewrite E in *. cbn [app] in *.
    rewrite parse_number_plain by lia. exact H.
Qed.

(* ---------- trees ---------- *)

Lemma jvalue_ind' (P : jvalue -> Prop) :
  P JNull -> (forall b, P (JBool b)) -> (forall z, P (JNum z)) -> (forall s, P (JStr s)) ->
  (forall l, Forall P l -> P (JArr l)) ->
  (forall l, Forall (fun kv => P (snd kv)) l -> P (JObj l)) ->
  forall j, P j.
Proof.
  intros Hn Hb Hz Hs Ha Ho. fix IH 1. intros [ | b | z | s | l | l].
  - exact Hn.
  - apply Hb.
  - apply Hz.
  - apply Hs.
  - apply Ha. exact ((fix go (l : list jvalue) : Forall P l :=
                        match l with [] => Forall_nil P | x :: r => Forall_cons x (IH x) (go r) end) l).
  - apply Ho. exact ((fix go (l : list (bytes * jvalue)) : Forall (fun kv => P (snd kv)) l :=
                        match l with
                        | [] => Forall_nil _
                        | kv :: r => Forall_cons kv (IH (snd kv)) (go r)
                        end) l).
Qed.

(* fuel the reader needs for a tree *)
Fixpoint jsize (j : jvalue) : nat :=
  match j with
  | JArr l => S (list_sum (map (fun x => S (jsize x)) l))
  | JObj l => S (list_sum (map (fun kv => S (jsize (snd kv))) l))
  | _ => 1%nat
  end.

(* first character of a rendered value: not white space, not a closing bracket *)
Definition hd_ok (s : bytes) : Prop :=
  match s with c :: _ => is_ws c = false /\ c <> 93 /\ c <> 125 | [] => False end.

Lemma is_ws_false c : c <> 32 -> c <> 9 -> c <> 10 -> c <> 13 -> is_ws c = false.
Proof.
  intros H1 H2 H3 H4. unfold is_ws. apply Z.eqb_neq in H1, H2, H3, H4. rewrite H1, H2, H3, H4. reflexivity.
Qed.

Lemma render_hd j : hd_ok (render_json j).
Proof.
  destruct j as [ | [|] | z | s | l | l].
  - cbv. repeat split; discriminate.
  - cbv. repeat split; discriminate.
  - cbv. repeat split; discriminate.
  - cbn [render_json]. unfold digs_Z. destruct (z <? 0) eqn:E.
    + cbv [hd_ok]. repeat split; discriminate.
    + apply Z.ltb_ge in E. destruct (digs_hd z E) as (d & r & -> & Hd). cbv [hd_ok].
      split; [apply is_ws_false; lia | lia].
  - cbn [render_json quote hd_ok]. repeat split; discriminate.
  - cbn [render_json hd_ok]. repeat split; discriminate.
  - cbn [render_json hd_ok]. repeat split; discriminate.
Qed.

Lemma skip_ws_hd s r : hd_ok s -> skip_ws (s ++ r) = s ++ r.
Proof. destruct s as [|c t]; [intros []|]. intros (H & _). cbn [app skip_ws]. rewrite H. reflexivity. Qed.

Lemma skip_ws_nonws c r : is_ws c = false -> skip_ws (c :: r) = c :: r.
Proof. intros H. cbn [skip_ws]. rewrite H. reflexivity. Qed.

(* unfolding of the reader on each kind of first character *)
Lemma pv_null f rest : parse_value (S f) (str "null" ++ rest) = Some (JNull, rest).
Proof. reflexivity. Qed.
Lemma pv_true f rest : parse_value (S f) (str "true" ++ rest) = Some (JBool true, rest).
Proof. reflexivity. Qed.
Lemma pv_false f rest : parse_value (S f) (str "false" ++ rest) = Some (JBool false, rest).
Proof. reflexivity. Qed.

Lemma pv_str f r : parse_value (S f) (34 :: r) =
  match parse_string r with Some (x, t) => Some (JStr x, t) | None => None end.
Proof. reflexivity. Qed.

Lemma pv_num f c r : c = 45 \/ 48 <= c <= 57 ->
  parse_value (S f) (c :: r) = match parse_number (c :: r) with Some (z, t) => Some (JNum z, t) | None => None end.
Proof.
  intros H. cbn [parse_value]. rewrite skip_ws_nonws by (apply is_ws_false; lia).
  destruct (Z.eqb_spec c 110); [lia|]. destruct (Z.eqb_spec c 116); [lia|].
  destruct (Z.eqb_spec c 102); [lia|]. destruct (Z.eqb_spec c 34); [lia|].
  destruct (Z.eqb_spec c 91); [lia|]. destruct (Z.eqb_spec c 123); [lia|]. reflexivity.
Qed.

Lemma pv_arr_empty f rest : parse_value (S f) (91 :: 93 :: rest) = Some (JArr [], rest).
Proof. reflexivity. Qed.

Lemma pv_arr f s r : hd_ok s ->
  parse_value (S f) (91 :: s ++ r) =
  match parse_elems f (s ++ r) with Some (l, u) => Some (JArr l, u) | None => None end.
Proof.
  intros H. cbn [parse_value]. rewrite skip_ws_nonws by reflexivity.
  change (91 =? 110) with false. change (91 =? 116) with false. change (91 =? 102) with false.
  change (91 =? 34) with false. change (91 =? 91) with true. cbv iota.
  rewrite (skip_ws_hd _ _ H). destruct s as [|c t]; [destruct H|]. destruct H as (_ & N & _).
  cbn [app]. apply Z.eqb_neq in N. rewrite N. reflexivity.
Qed.

Lemma pv_obj_empty f rest : parse_value (S f) (123 :: 125 :: rest) = Some (JObj [], rest).
Proof. reflexivity. Qed.

Lemma pv_obj f s r : hd_ok s ->
  parse_value (S f) (123 :: s ++ r) =
  match parse_members f (s ++ r) with Some (l, u) => Some (JObj l, u) | None => None end.
Proof.
  intros H. cbn [parse_value]. rewrite skip_ws_nonws by reflexivity.
  change (123 =? 110) with false. change (123 =? 116) with false. change (123 =? 102) with false.
  change (123 =? 34) with false. change (123 =? 91) with false. change (123 =? 123) with true. cbv iota.
  rewrite (skip_ws_hd _ _ H). destruct s as [|c t]; [destruct H|]. destruct H as (_ & _ & N).
  cbn [app]. apply Z.eqb_neq in N. rewrite N. reflexivity.
Qed.

Lemma sep_concat_cons2 a b r : sep_concat (a :: b :: r) = a ++ 44 :: sep_concat (b :: r).
Proof. reflexivity. Qed.

Lemma num_end_sep c r : c = 44 \/ c = 93 \/ c = 125 -> num_end (c :: r).
Proof. intros [->| [->| ->]]; cbv; repeat split; discriminate. Qed.

Definition reads_back (j : jvalue) : Prop :=
  forall fuel rest, (jsize j < fuel)%nat -> num_end rest ->
  parse_value fuel (render_json j ++ rest) = Some (sanitize_j j, rest).

Lemma parse_elems_ok x l : Forall reads_back (x :: l) ->
  forall fuel rest, (list_sum (map (fun y => S (jsize y)) (x :: l)) < fuel)%nat ->
  parse_elems fuel (sep_concat (map render_json (x :: l)) ++ 93 :: rest) = Some (map sanitize_j (x :: l), rest).
Proof.
  revert x. induction l as [|y l IH]; intros x HF fuel rest Hfuel.
  - inversion HF as [|? ? Hx _]; subst. destruct fuel as [|f]; [cbn in Hfuel; lia|].
    cbn [map sep_concat list_sum fold_right] in *. cbn [parse_elems].
    rewrite (Hx f (93 :: rest)) by (try apply num_end_sep; auto; lia).
    reflexivity.
  - inversion HF as [|? ? Hx HF']; subst. destruct fuel as [|f]; [cbn in Hfuel; lia|].
    cbn [map]. rewrite sep_concat_cons2, <- app_assoc. cbn [app parse_elems].
    cbn [map list_sum fold_right] in Hfuel.
    rewrite (Hx f) by (try apply num_end_sep; auto; lia).
    rewrite skip_ws_nonws by reflexivity. change (44 =? 44) with true. cbv iota.
    change (render_json y :: map render_json l) with (map render_json (y :: l)).
    rewrite (IH y HF' f rest) by (cbn [map list_sum fold_right] in *; lia). reflexivity.
Qed.

Lemma parse_members_ok kv l : Forall (fun kv => reads_back (snd kv)) (kv :: l) ->
  forall fuel rest, (list_sum (map (fun kv => S (jsize (snd kv))) (kv :: l)) < fuel)%nat ->
  parse_members fuel (sep_concat (map (fun kv => quote (fst kv) ++ 58 :: render_json (snd kv)) (kv :: l)) ++ 125 :: rest)
  = Some (map (fun kv => (sanitize (fst kv), sanitize_j (snd kv))) (kv :: l), rest).
Proof.
  revert kv. induction l as [|kv' l IH]; intros [k v] HF fuel rest Hfuel.
  - inversion HF as [|? ? Hx _]; subst. cbn [snd] in Hx. destruct fuel as [|f]; [cbn in Hfuel; lia|].
    cbn [map sep_concat list_sum fold_right fst snd] in *. unfold quote. cbn [app parse_members].
    rewrite skip_ws_nonws by reflexivity. change (34 =? 34) with true. cbv iota.
    rewrite <- !app_assoc. cbn [app]. rewrite parse_string_escape.
    rewrite skip_ws_nonws by reflexivity. change (58 =? 58) with true. cbv iota.
    rewrite (Hx f (125 :: rest)) by (try apply num_end_sep; auto; lia).
    reflexivity.
  - inversion HF as [|? ? Hx HF']; subst. cbn [snd] in Hx. destruct fuel as [|f]; [cbn in Hfuel; lia|].
    cbn [map]. rewrite sep_concat_cons2, <- app_assoc. cbn [fst snd]. unfold quote at 1. cbn [app parse_members].
    rewrite skip_ws_nonws by reflexivity. change (34 =? 34) with true. cbv iota.
    rewrite <- !app_assoc. cbn [app]. rewrite parse_string_escape.
    rewrite skip_ws_nonws by reflexivity. change (58 =? 58) with true. cbv iota.
    cbn [map list_sum fold_right snd] in Hfuel.
    rewrite (Hx f) by (try apply num_end_sep; auto; lia).
    rewrite skip_ws_nonws by reflexivity. change (44 =? 44) with true. cbv iota.
    match goal with |- context [parse_members f ?s] =>
      change s with (sep_concat (map (fun kv => quote (fst kv) ++ 58 :: render_json (snd kv)) (kv' :: l)) ++ 125 :: rest) end.
    rewrite (IH kv' HF' f rest) by (cbn [map list_sum fold_right] in *; lia). reflexivity.
Qed.

(* the key lemma: rendered trees read back as their sanitised form, with any continuation *)
Lemma parse_value_render j : reads_back j.
Proof.
  induction j as [ | b | z | s | l IH | l IH] using jvalue_ind'; intros fuel rest Hfuel He;
    (destruct fuel as [|f]; [cbn in Hfuel; lia|]).
  - apply pv_null.
  - destruct b; [apply pv_true | apply pv_false].
  - cbn [render_json sanitize_j].
    assert (H : exists c r, digs_Z z = c :: r /\ (c = 45 \/ 48 <= c <= 57)).
    { unfold digs_Z. destruct (z <? 0) eqn:E; [eauto|].
      apply Z.ltb_ge in E. destruct (digs_hd z E) as (d & r & -> & Hd). eauto. }
    destruct H as (c & r & E & Hc). pose proof (parse_number_digs_Z z rest He) as Hn.
    rewrite E in *. cbn [app] in *. rewrite (pv_num _ _ _ Hc), Hn. reflexivity.
  - cbn [render_json sanitize_j]. unfold quote. cbn [app]. rewrite pv_str, <- app_assoc. cbn [app].
    rewrite parse_string_escape. reflexivity.
  - cbn [render_json sanitize_j]. destruct l as [|x l].
    + apply pv_arr_empty.
    + cbn [app]. rewrite <- app_assoc. cbn [app].
      assert (Hh : hd_ok (sep_concat (map render_json (x :: l)))).
      { cbn [map]. pose proof (render_hd x) as Hx. destruct l; [exact Hx|].
        cbn [map]. rewrite sep_concat_cons2. destruct (render_json x); [destruct Hx | exact Hx]. }
      rewrite (pv_arr _ _ _ Hh). cbn [jsize] in Hfuel.
      rewrite (parse_elems_ok x l IH) by lia. reflexivity.
  - cbn [render_json sanitize_j]. destruct l as [|kv l].
    + apply pv_obj_empty.
    + cbn [app]. rewrite <- app_assoc. cbn [app].
      assert (Hh : hd_ok (sep_concat (map (fun kv => quote (fst kv) ++ 58 :: render_json (snd kv)) (kv :: l)))).
      { cbn [map]. destruct l; [|cbn [map]; rewrite sep_concat_cons2];
          unfold quote; cbn [app sep_concat hd_ok]; repeat split; discriminate. }
      rewrite (pv_obj _ _ _ Hh). cbn [jsize] in Hfuel.
      rewrite (parse_members_ok kv l IH) by lia. reflexivity.
Qed.

(* ---------- the fuel of parse_json is sufficient ---------- *)

Lemma sum_le_sep {X} (f : X -> nat) (g : X -> bytes) l :
  Forall (fun x => (f x <= List.length (g x))%nat) l ->
  (list_sum (map (fun x => S (f x)) l) <= List.length (sep_concat (map g l)) + 1)%nat.
Proof.
  induction 1 as [|x l Hx Hl IH]; [cbn; lia|].
  destruct l as [|y l].
  - cbn [map sep_concat list_sum fold_right]. lia.
  - cbn [map]. rewrite sep_concat_cons2, app_length. cbn [List.length list_sum fold_right map] in *. lia.
Qed.

Lemma digs_Z_nonempty z : (1 <= List.length (digs_Z z))%nat.
Proof.
  unfold digs_Z. destruct (z <? 0); [cbn [List.length]; lia|].
  pose proof (digs_nonempty z). destruct (digs z); [congruence | cbn [List.length]; lia].
Qed.

Lemma jsize_le_render j : (jsize j <= List.length (render_json j))%nat.
Proof.
  induction j as [ | b | z | s | l IH | l IH] using jvalue_ind'.
  - cbn. lia.
  - destruct b; cbn; lia.
  - apply digs_Z_nonempty.
  - cbn [jsize render_json quote List.length]. lia.
  - cbn [jsize render_json List.length]. rewrite app_length. cbn [List.length].
    pose proof (sum_le_sep jsize render_json l IH). lia.
  - cbn [jsize render_json List.length]. rewrite app_length. cbn [List.length].
    pose proof (sum_le_sep (fun kv => jsize (snd kv)) (fun kv => quote (fst kv) ++ 58 :: render_json (snd kv)) l) as H.
    assert (HF : Forall (fun x : bytes * jvalue => Nat.le (jsize (snd x)) (List.length (quote (fst x) ++ 58 :: render_json (snd x)))) l).
    { eapply Forall_impl; [|exact IH]. intros [k v] Hv. cbn [fst snd] in *. unfold Nat.le. rewrite app_length. cbn [List.length]. lia. }
    specialize (H HF). cbv beta in H. apply le_n_S. exact H.
Qed.

(* ---------- the rendered text is valid UTF-8 ---------- *)

Lemma hexlow_ascii n : 0 <= n < 16 -> 0 <= hexlow n <= 127.
Proof. intros H. unfold hexlow. destruct (n <? 10); lia. Qed.

Lemma chunk_esc_valid ch : chunk_ok ch -> valid_utf8 (chunk_esc ch) = true.
Proof.
  destruct ch as [bs c|b]; cbn [chunk_ok chunk_esc]; intros G; [|reflexivity].
  destruct (Z.ltb_spec c 128) as [Hc|Hc].
  - destruct (good_enc_ascii _ _ G Hc) as [-> H0].
    destruct ((c =? 34) || (c =? 92)); [apply valid_ascii; repeat constructor; lia|].
    destruct (c =? 8); [reflexivity|]. destruct (c =? 12); [reflexivity|].
    destruct (c =? 10); [reflexivity|]. destruct (c =? 13); [reflexivity|].
    destruct (c =? 9); [reflexivity|].
    destruct ((c <? 32) || (c =? 60) || (c =? 62) || (c =? 38)).
    + apply valid_ascii. unfold u00.
      assert (0 <= c / 16 < 16) by (split; [apply Z.div_pos; lia | apply Z.div_lt_upper_bound; lia]).
      assert (0 <= c mod 16 < 16) by (apply Z.mod_pos_bound; lia).
      pose proof (hexlow_ascii _ H). pose proof (hexlow_ascii _ H1).
      repeat constructor; lia.
    + apply valid_ascii. repeat constructor; lia.
  - destruct (c =? 8232); [reflexivity|]. destruct (c =? 8233); [reflexivity|].
    exact (valid_good_enc _ _ G).
Qed.

Lemma escape_valid s : valid_utf8 (escape s) = true.
Proof.
  induction s as [|bs c t G IH|b r E IH] using utf8_ind.
  - reflexivity.
  - rewrite (escape_good _ _ _ G). apply valid_app; [apply (chunk_esc_valid (Good bs c)); exact G | exact IH].
  - rewrite (escape_bad _ _ E). apply valid_app; [reflexivity | exact IH].
Qed.

Lemma quote_valid s : valid_utf8 (quote s) = true.
Proof.
  unfold quote. rewrite valid_ascii_cons by lia. apply valid_app; [apply escape_valid | reflexivity].
Qed.

Lemma digs_Z_valid z : valid_utf8 (digs_Z z) = true.
Proof.
  apply valid_ascii. unfold digs_Z. destruct (Z.ltb_spec z 0).
  - constructor; [lia|]. eapply Forall_impl; [|apply (digs_digits (- z)); lia]. unfold is_digit. intros; lia.
  - eapply Forall_impl; [|apply (digs_digits z); lia]. unfold is_digit. intros; lia.
Qed.

Lemma sep_concat_valid ls : Forall (fun x => valid_utf8 x = true) ls -> valid_utf8 (sep_concat ls) = true.
Proof.
  induction 1 as [|x l Hx Hl IH]; [reflexivity|].
  destruct l as [|y l]; [exact Hx|].
  rewrite sep_concat_cons2. apply valid_app; [exact Hx|]. rewrite valid_ascii_cons by lia. exact IH.
Qed.

Lemma render_valid j : valid_utf8 (render_json j) = true.
Proof.
  induction j as [ | b | z | s | l IH | l IH] using jvalue_ind'.
  - reflexivity.
  - destruct b; reflexivity.
  - apply digs_Z_valid.
  - apply quote_valid.
  - cbn [render_json]. rewrite valid_ascii_cons by lia. apply valid_app; [|reflexivity].
    apply sep_concat_valid. apply Forall_map. exact IH.
  - cbn [render_json]. rewrite valid_ascii_cons by lia. apply valid_app; [|reflexivity].
    apply sep_concat_valid. apply Forall_map. eapply Forall_impl; [|exact IH].
    intros [k v] Hv. cbn [fst snd] in *. apply valid_app; [apply quote_valid|].
    rewrite valid_ascii_cons by lia. exact Hv.
Qed.

(* ---------- main theorems of the JSON layer ---------- *)

Theorem parse_render j : parse_json (render_json j) = Some (sanitize_j j).
Proof.
  unfold parse_json. rewrite render_valid. unfold parse_json_bytes.
  pose proof (parse_value_render j (S (List.length (render_json j))) []) as H.
  rewrite app_nil_r in H. rewrite H; [reflexivity | | exact I].
  pose proof (jsize_le_render j). lia.
Qed.

Lemma map_id_Forall {X} (f : X -> X) l : Forall (fun x => f x = x) l -> map f l = l.
Proof. induction 1 as [|x l Hx Hl IH]; cbn [map]; congruence. Qed.

(* sanitising is the identity on trees whose strings are valid UTF-8 *)
Theorem sanitize_j_valid j : valid_j j = true -> sanitize_j j = j.
Proof.
  unfold valid_j.
  induction j as [ | b | z | s | l IH | l IH] using jvalue_ind'; cbn [all_strings sanitize_j]; intros V; try reflexivity.
  - rewrite sanitize_valid_id; auto.
  - f_equal. apply map_id_Forall. rewrite forallb_forall in V. rewrite Forall_forall in *. intros x Hx. apply IH; auto.
  - f_equal. apply map_id_Forall. rewrite forallb_forall in V. rewrite Forall_forall in *. intros [k v] Hx.
    specialize (V _ Hx). specialize (IH _ Hx). cbn [fst snd] in *. apply andb_true_iff in V as [V1 V2].
    rewrite sanitize_valid_id, IH; auto.
Qed.

(* what is read back is always a tree of valid UTF-8 strings *)
Theorem sanitize_j_is_valid j : valid_j (sanitize_j j) = true.
Proof.
  unfold valid_j.
  induction j as [ | b | z | s | l IH | l IH] using jvalue_ind'; cbn [all_strings sanitize_j]; try reflexivity.
  - apply sanitize_is_valid.
  - rewrite forallb_forall. intros y Hy. apply in_map_iff in Hy as (x & <- & Hx).
    rewrite Forall_forall in IH. auto.
  - rewrite forallb_forall. intros y Hy. apply in_map_iff in Hy as ([k v] & <- & Hx).
    rewrite Forall_forall in IH. specialize (IH _ Hx). cbn [fst snd] in *.
    rewrite sanitize_is_valid, IH. reflexivity.
Qed.
