(* Shared lemmas for the cell proofs. *)
From GB Require Import Base.Prelude Base.BytesLemmas Base.DecText Base.GoFmt Model.Cell Spec.Values.
From GBGen Require Import Consts.
Open Scope Z_scope.

Lemma le_at_mid pre enc rest n :
  n = length enc -> le_at (pre ++ enc ++ rest) (length pre) n = Ok (le_dec enc).
Proof. intros ->. unfold le_at. rewrite slice_app_mid by reflexivity. reflexivity. Qed.

Lemma be_at_mid pre enc rest n :
  n = length enc -> be_at (pre ++ enc ++ rest) (length pre) n = Ok (be_dec enc).
Proof. intros ->. unfold be_at. rewrite slice_app_mid by reflexivity. reflexivity. Qed.

Lemma at_mid pre b rest : at_ (pre ++ (b :: rest)) (length pre) = Ok b.
Proof. apply at_app_mid. Qed.

Lemma len_app {A} (a b : list A) : len (a ++ b) = len a + len b.
Proof. unfold len. rewrite app_length. lia. Qed.

Lemma len_le_enc n v : len (le_enc n v) = Z.of_nat n.
Proof. unfold len. rewrite le_enc_length. reflexivity. Qed.

Lemma len_be_enc n v : len (be_enc n v) = Z.of_nat n.
Proof. unfold len. rewrite be_enc_length. reflexivity. Qed.

Lemma len_nonneg {A} (l : list A) : 0 <= len l.
Proof. unfold len. lia. Qed.

(* take of an encoded payload that sits at a known offset *)
Lemma take_mid pre mid rest l :
  l = len mid -> take (pre ++ mid ++ rest) (length pre) l = Ok mid.
Proof.
  intros ->. unfold take.
  rewrite !len_app.
  assert (H : (0 <=? len mid) && (Z.of_nat (length pre) + len mid <=? len pre + (len mid + len rest)) = true).
  { apply andb_true_iff. split; apply Z.leb_le; unfold len; lia. }
  rewrite H. unfold len. rewrite Nat2Z.id. apply slice_app_mid. reflexivity.
Qed.

Lemma take_mid2 pre hd mid rest l :
  l = len mid -> take (pre ++ (hd ++ mid) ++ rest) (length pre + length hd) l = Ok mid.
Proof.
  intros H. replace (pre ++ (hd ++ mid) ++ rest) with ((pre ++ hd) ++ mid ++ rest)
    by (rewrite <- !app_assoc; reflexivity).
  rewrite <- app_length. apply take_mid. exact H.
Qed.

(* bit 7 of a byte-sized quotient *)
Lemma land128_sweep : forallb (fun b => Z.eqb (Z.land b 128) (if 128 <=? b then 128 else 0))
                              (map Z.of_nat (seq 0 256)) = true.
Proof. vm_compute. reflexivity. Qed.

Lemma land128 b : 0 <= b < 256 -> Z.land b 128 = if 128 <=? b then 128 else 0.
Proof.
  intros H. pose proof land128_sweep as S. rewrite forallb_forall in S.
  specialize (S b). apply Z.eqb_eq. apply S.
  apply in_map_iff. exists (Z.to_nat b). split; [lia|]. apply in_seq. lia.
Qed.

Lemma le_at_mid2 pre hd mid rest n :
  n = length hd -> le_at (pre ++ (hd ++ mid) ++ rest) (length pre) n = Ok (le_dec hd).
Proof.
  intros H. replace (pre ++ (hd ++ mid) ++ rest) with (pre ++ hd ++ (mid ++ rest))
    by (rewrite <- !app_assoc; reflexivity).
  apply le_at_mid. exact H.
Qed.

Lemma at_mid2 pre b mid rest : at_ (pre ++ ([b] ++ mid) ++ rest) (length pre) = Ok b.
Proof. cbn [app]. apply at_app_mid. Qed.

Lemma land255 x : 0 <= x -> Z.land x 255 = x mod 256.
Proof. intros H. change 255 with (Z.ones 8). rewrite Z.land_ones by lia. reflexivity. Qed.

Section CellOk.
Variable ffmt : Z -> Z -> bytes.
Variable tz : Z -> Z.
Variable efmt : Z -> bytes.
Variable jsonp : bytes -> res bytes.

(* the cell lemma: value decoder and length rule agree with the encoder and the canonical text *)
Definition cell_ok (ty : coltype) (uns : bool) (v : value) : Prop :=
  forall pre rest,
    cell_bytes ffmt tz jsonp (pre ++ enc_cell ty v ++ rest) (length pre) (code_of ty) (meta_of ty) uns
      = Ok (Some (text ffmt tz efmt ty uns v), len (enc_cell ty v))
    /\ cell_length (pre ++ enc_cell ty v ++ rest) (length pre) (code_of ty) (meta_of ty)
      = Ok (len (enc_cell ty v)).
End CellOk.
