(* The cell lemma per column-type family, packaged so that row-level theorems are
   parametric in it: a theorem about a table needs cell_family_ok for the types of its
   columns only.  proved_families discharges it for every family except DECIMAL and JSON
   (proved separately). *)
From GB Require Import Base.Prelude Model.Cell Spec.Values.
From GB Require Import Proofs.CellCommon Proofs.CellInt Proofs.CellSimple Proofs.CellTemporal.
Open Scope Z_scope.

Section Families.
Variable ffmt : Z -> Z -> bytes.
Variable tz : Z -> Z.
Variable efmt : Z -> bytes.
Variable jsonp : bytes -> res bytes.

Definition cell_family_ok (ty : coltype) : Prop :=
  forall uns v, wf_type ty = true -> wf_value ty uns v = true -> cell_ok ffmt tz efmt jsonp ty uns v.

Definition not_decimal_or_json (ty : coltype) : bool :=
  match ty with TNewDecimal _ _ | TJson _ => false | _ => true end.

Hypothesis tz_bounded : forall v, -86400 <= tz v <= 86400.

Theorem proved_families ty : not_decimal_or_json ty = true -> cell_family_ok ty.
Proof.
  intros Hnd uns v Ht Hv.
  destruct ty; try discriminate Hnd; destruct v; try discriminate Hv.
  - apply int_ok; [reflexivity|exact Hv].
  - apply int_ok; [reflexivity|exact Hv].
  - apply int_ok; [reflexivity|exact Hv].
  - apply int_ok; [reflexivity|exact Hv].
  - apply int_ok; [reflexivity|exact Hv].
  - apply float_ok; exact Hv.
  - apply double_ok; exact Hv.
  - apply year_ok; exact Hv.
  - apply bit_ok; assumption.
  - apply enum_ok; assumption.
  - apply set_ok; assumption.
  - apply date_ok; exact Hv.
  - apply time_ok; exact Hv.
  - apply datetime_ok; exact Hv.
  - apply timestamp_ok; [exact tz_bounded|exact Hv].
  - apply timestamp2_ok; [exact tz_bounded|assumption|assumption].
  - apply datetime2_ok; assumption.
  - apply time2_ok; assumption.
  - apply varchar_ok; assumption.
  - apply char_ok; assumption.
  - apply blob_ok; assumption.
  - apply geometry_ok; assumption.
Qed.
End Families.
