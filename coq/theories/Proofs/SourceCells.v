(* From the Go source to the specification, for cells: the translated Go function CellBytes (gen/TransCellBytes.v,
   regenerated from /repo on every run) applied to a row buffer that holds the encoding of a well-formed value of a
   well-formed column type returns the canonical text of that value and the number of bytes the encoding occupies.
   Composition of CellBytes_equiv / the per-family ties (generated code = model, for all inputs) with cell_ok_all (model on
   the encoder's output = specification text).  The model function disappears from the statement: it is a theorem about
   the translation of the code and the specification encoders only. *)
From Coq Require Import ZifyBool.
From GB Require Import Base.Prelude Base.GoSem Base.DecText Base.BytesLemmas Model.Cell Model.Json Spec.ColTypes Spec.Values Spec.EncJson.
From GB Require Import Proofs.CellCommon Proofs.CellAll Proofs.TransEquivCellBytesDefs Proofs.TransEquivCellBytesTies.
From GB Require Import Proofs.TransEquivCellBytes Proofs.TransEquivCell Proofs.LengthAgree.
From GBGen Require Import Consts TransCellBytes TransCell.
Open Scope Z_scope.

(* the packed CHAR metadata of every declared length 0..1023 is a uint16 *)
Fixpoint sweep_char (n : nat) (m : Z) : bool :=
  match n with
  | O => true
  | S k => let v := (Z.lxor 254 (Z.land m 768 / 16)) * 256 + Z.land m 255 in (0 <=? v) && (v <? 65536) && sweep_char k (m + 1)
  end.
Lemma sweep_char_spec n : forall m x, sweep_char n m = true -> m <= x < m + Z.of_nat n ->
  0 <= (Z.lxor 254 (Z.land x 768 / 16)) * 256 + Z.land x 255 < 65536.
Proof.
  induction n as [|k IH]; intros m x H Hx; [lia|].
  cbn [sweep_char] in H. cbv zeta in H. apply andb_true_iff in H as [H1 H2]. apply andb_true_iff in H1 as [A B].
  destruct (Z.eq_dec x m) as [->|Ne]; [lia|]. apply (IH (m + 1)); [exact H2|lia].
Qed.
Lemma sweep_char_all : sweep_char 1024 0 = true.
Proof. vm_compute. reflexivity. Qed.

Lemma meta_of_range ty : wf_type ty = true -> 0 <= meta_of ty < 65536.
Proof.
  destruct ty; cbn [wf_type meta_of]; intros H.
  all: try lia.
  all: try (match goal with |- context [Z.lxor 254 _] => apply (sweep_char_spec 1024 0 _ sweep_char_all); lia end).
  all: match goal with |- context [?n / 8] =>
         assert (1 <= n <= 64) by lia;
         assert (0 <= n / 8 <= 8) by (split; [apply Z.div_pos; lia | apply Z.div_le_upper_bound; lia]);
         pose proof (Z.mod_pos_bound n 8 ltac:(lia)); lia end.
Qed.

Section Source.
Variable ffmt : Z -> Z -> bytes.
Variable tz : Z -> Z.
Variable efmt : Z -> bytes.
Variable jsonp : bytes -> res bytes.

Theorem CellBytes_decodes_encoded_on ks fuel ty uns v pre rest :
  tie_on ffmt tz jsonp ks -> In (code_of ty) ks -> (forall i : Z, -86400 <= tz i <= 86400) ->
  jsonp_for efmt jsonp ty -> wf_type ty = true -> wf_value ty uns v = true -> (1000 <= fuel)%nat ->
  wf_bytes (pre ++ enc_cell ty v ++ rest) -> Z.of_nat (length pre) < 2 ^ 62 ->
  CellBytes_g ffmt (print_timestamp tz) jsonp fuel (pre ++ enc_cell ty v ++ rest) (Z.of_nat (length pre)) (code_of ty) (meta_of ty) uns
    = Ok (text ffmt tz efmt ty uns v, len (enc_cell ty v)).
Proof.
  intros T Hin Htz Hj Ht Hv Hf W Hp.
  pose proof (T fuel (pre ++ enc_cell ty v ++ rest) (length pre) (code_of ty) (meta_of ty) uns Hin Hf W (meta_of_range ty Ht) Hp) as S.
  destruct (cell_ok_all ffmt tz efmt Htz jsonp ty uns v Hj Ht Hv pre rest) as [E _].
  rewrite E in S. cbn [flat] in S.
  assert (L : (length pre <= length (pre ++ enc_cell ty v ++ rest))%nat) by (rewrite app_length; lia).
  specialize (S L).
  destruct (CellBytes_g _ _ _ _ _ _ _ _ _) as [a| |]; cbn [res_sim] in S; try contradiction. subst a. reflexivity.
Qed.
End Source.

(* The length rule and the value decoder of the Go code agree, for ALL row data, positions, type codes and metadata:
   whenever the translated CellBytes returns a value it reports the size the translated cellLength computes for that cell
   (the clause of C09 "the per-type length rule and the per-type value decoder always agree on the size of a cell", about
   the translations of both Go functions; the hand-written model only occurs in the proof).  The side condition is the
   one of length_value_agree: fractional-seconds metadata 7 of TIMESTAMP2 / DATETIME2 (never written by MySQL). *)
Theorem source_length_value_agree ffmt tz jsonp fuel d pos typ meta uns t l :
  (1000 <= fuel)%nat -> wf_bytes d -> 0 <= typ < 256 -> 0 <= meta < 65536 -> Z.of_nat pos < 2 ^ 62 -> (pos <= length d)%nat ->
  (typ = K_TypeTimestamp2 \/ typ = K_TypeDateTime2 -> 0 <= meta <= 6) ->
  CellBytes_g ffmt (print_timestamp tz) jsonp fuel d (Z.of_nat pos) typ meta uns = Ok (t, l) ->
  cellLength_g d (Z.of_nat pos) typ meta = Ok l.
Proof.
  intros Hf W Ht Hm Hp Hle Hfsp E.
  pose proof (CellBytes_equiv ffmt tz jsonp fuel d pos typ meta uns Hf W Hm Hp Hle) as S. rewrite E in S.
  destruct (cell_bytes ffmt tz jsonp d pos typ meta uns) as [[o l']| |] eqn:CB.
  2, 3: cbn [flat res_sim] in S; contradiction.
  assert (l' = l) by (destruct o; cbn [flat res_sim] in S; inversion S; reflexivity). subst l'.
  pose proof (length_value_agree ffmt tz jsonp d pos typ meta uns o l CB Hfsp) as L.
  pose proof (cellLength_equiv d pos typ meta W Ht Hm Hp) as S2. rewrite L in S2.
  destruct (cellLength_g d (Z.of_nat pos) typ meta) as [a| |]; cbn [res_sim] in S2; try contradiction. subst a. reflexivity.
Qed.
