(* C02 / C03 / C04: theorems about the state-machine half (astep) of the streamer model. *)
From GB Require Import Base.Prelude Model.Events Model.Rbr Model.Streamer Spec.Units.
From GBGen Require Import Consts.
Open Scope Z_scope.

Section Run.
Variable verdict : nat -> bool.
Notation astep := (astep verdict).

Fixpoint arun (st : sst) (l : list aevent) : sst * option cause :=
  match l with
  | [] => (st, None)
  | a :: r => match astep st a with
              | (st', None) => arun st' r
              | (st', Some c) => (st', Some c)
              end
  end.

Lemma arun_app st l1 l2 :
  arun st (l1 ++ l2) = match arun st l1 with (st', None) => arun st' l2 | r => r end.
Proof.
  revert st; induction l1 as [|a l1 IH]; intros st; cbn [app arun]; [reflexivity|].
  destruct (astep st a) as [st' [c|]]; [reflexivity | apply IH].
Qed.

(* the part of the state the transaction logic reads and writes *)
Definition view (st : sst) := (s_pos st, s_tran st, s_auto st, s_calls st, s_out st).
Definition boundary (st : sst) : Prop := s_tran st = None /\ s_auto st = true.

Definition accepted (st : sst) : list tx := map fst (filter snd (rev (s_out st))).
Definition delivered (st : sst) : list tx := map fst (rev (s_out st)).

(* ---- quiet events are invisible ---- *)
Lemma astep_quiet st a : quiet a = true -> view (fst (astep st a)) = view st /\ snd (astep st a) = None.
Proof. destruct a; cbn; intros H; try discriminate; split; reflexivity. Qed.

Lemma astep_view st st' a :
  view st = view st' -> quiet a = false ->
  view (fst (astep st a)) = view (fst (astep st' a)) /\ snd (astep st a) = snd (astep st' a).
Proof.
  unfold view. intros V Q.
  destruct st as [p f tb tr au ca ou], st' as [p' f' tb' tr' au' ca' ou'].
  cbn [s_pos s_tran s_auto s_calls s_out] in V. inversion V; subst.
  destruct a; try discriminate Q; unfold Streamer.astep, commit_at, with_tran;
    cbn [s_pos s_tran s_auto s_calls s_out s_fmt s_tables fst snd];
    repeat match goal with |- context [if ?b then _ else _] => destruct b end; split; reflexivity.
Qed.

Theorem ignorables_invisible l : forall st st',
  view st = view st' ->
  view (fst (arun st l)) = view (fst (arun st' (filter (fun a => negb (quiet a)) l))) /\
  snd (arun st l) = snd (arun st' (filter (fun a => negb (quiet a)) l)).
Proof.
  induction l as [|a l IH]; intros st st' V; cbn [arun filter]; [auto|].
  destruct (quiet a) eqn:Q; cbn [negb].
  - destruct (astep_quiet st a Q) as [H1 H2].
    destruct (astep st a) as [s1 c1]; cbn [fst snd] in *. subst c1. apply IH. congruence.
  - cbn [arun]. destruct (astep_view st st' a V Q) as [H1 H2].
    destruct (astep st a) as [s1 c1], (astep st' a) as [s2 c2]; cbn [fst snd] in *. subst c2.
    destruct c1; [cbn [fst snd]; auto | apply IH; auto].
Qed.

End Run.

(* ---- every call accepted: grouping, delivery only at commit ---- *)
Section AllAccept.
Variable verdict : nat -> bool.
Hypothesis all_accept : forall k, verdict k = true.
Notation astep := (astep verdict).
Notation arun := (arun verdict).

Lemma commit_at_ok st nx ts :
  commit_at verdict st nx ts =
  ({| s_pos := at_off (s_pos st) nx; s_fmt := s_fmt st; s_tables := s_tables st; s_tran := None; s_auto := true;
      s_calls := S (s_calls st);
      s_out := ({| t_now := s_pos st; t_next := at_off (s_pos st) nx; t_ts := ts; t_events := tran_list (s_tran st) |}, true) :: s_out st |},
   None).
Proof. unfold commit_at. rewrite all_accept. reflexivity. Qed.

(* buffering statements inside BEGIN ... *)
Lemma run_stmts ss : forall st acc,
  s_tran st = Some acc -> s_auto st = false ->
  exists st', arun st (map stmt_event ss) = (st', None) /\
              s_tran st' = Some (rev (map st_ev ss) ++ acc) /\ s_auto st' = false /\
              s_pos st' = s_pos st /\ s_out st' = s_out st /\ s_calls st' = s_calls st /\
              s_fmt st' = s_fmt st /\ s_tables st' = s_tables st.
Proof.
  induction ss as [|s ss IH]; intros st acc Ht Ha.
  - exists st. cbn. repeat split; auto.
  - cbn [map arun stmt_event astep]. rewrite Ha.
    destruct (IH (with_tran st (append_tran (s_tran st) (st_ev s))) (st_ev s :: acc)) as (st' & R & T & A & P & O & C & F & B).
    { cbn. rewrite Ht. reflexivity. } { exact Ha. }
    exists st'. split; [exact R|]. cbn [map rev]. rewrite <- app_assoc. cbn [app].
    repeat split; auto.
Qed.

Lemma rev_append_rev {A} (l : list A) : rev_append l [] = rev l.
Proof. rewrite rev_append_rev. apply app_nil_r. Qed.

(* one whole unit from a boundary state *)
Lemma run_unit st u :
  boundary st ->
  exists st', arun st (events_of u) = (st', None) /\ boundary st' /\
              s_pos st' = snd (spec_unit (s_pos st) u) /\
              s_out st' = rev (map (fun t => (t, true)) (fst (spec_unit (s_pos st) u))) ++ s_out st /\
              s_fmt st' = s_fmt st /\ s_tables st' = s_tables st.
Proof.
  intros [Bt Ba]. destruct u as [ss nx ts | ss nx ts | s | name off]; cbn [events_of].
  - (* UTx *)
    cbn [arun astep].
    set (st1 := {| s_pos := s_pos st; s_fmt := s_fmt st; s_tables := s_tables st; s_tran := Some []; s_auto := false;
                   s_calls := s_calls st; s_out := s_out st |}).
    destruct (run_stmts ss st1 [] eq_refl eq_refl) as (st2 & R & T & A & P & O & C & F & B).
    rewrite arun_app, R. cbn [arun astep]. rewrite commit_at_ok.
    eexists. split; [reflexivity|]. unfold boundary. cbn [s_tran s_auto s_pos s_out s_fmt s_tables spec_unit fst snd map rev app].
    rewrite P, O, T, F, B. cbn [s_pos s_out st1 s_fmt s_tables]. rewrite app_nil_r.
    unfold tran_list. rewrite rev_append_rev, rev_involutive. repeat split; reflexivity.
  - (* URolled *)
    cbn [arun astep].
    set (st1 := {| s_pos := s_pos st; s_fmt := s_fmt st; s_tables := s_tables st; s_tran := Some []; s_auto := false;
                   s_calls := s_calls st; s_out := s_out st |}).
    destruct (run_stmts ss st1 [] eq_refl eq_refl) as (st2 & R & T & A & P & O & C & F & B).
    rewrite arun_app, R. cbn [arun astep]. rewrite commit_at_ok.
    eexists. split; [reflexivity|]. unfold boundary. cbn [s_tran s_auto s_pos s_out s_fmt s_tables spec_unit fst snd map rev app with_tran tran_list].
    rewrite P, O, F, B. cbn [s_pos s_out st1 s_fmt s_tables]. repeat split; reflexivity.
  - (* UAuto *)
    cbn [arun astep stmt_event]. rewrite Ba. rewrite commit_at_ok.
    eexists. split; [reflexivity|]. unfold boundary.
    cbn [s_tran s_auto s_pos s_out s_fmt s_tables spec_unit fst snd map rev app with_tran append_tran tran_list]. rewrite Bt.
    cbn [rev_append]. repeat split; reflexivity.
  - (* URotate *)
    cbn [arun astep]. eexists. split; [reflexivity|]. unfold boundary.
    cbn [s_tran s_auto s_pos s_out s_fmt s_tables spec_unit fst snd map rev app]. repeat split; auto.
Qed.

Lemma spec_run_app p us1 us2 :
  spec_run p (us1 ++ us2) =
  (fst (spec_run p us1) ++ fst (spec_run (snd (spec_run p us1)) us2), snd (spec_run (snd (spec_run p us1)) us2)).
Proof.
  revert p; induction us1 as [|u us1 IH]; intros p; cbn [app spec_run fst snd].
  - destruct (spec_run p us2); reflexivity.
  - destruct (spec_unit p u) as [t1 p1]. rewrite IH.
    destruct (spec_run p1 us1) as [t2 p2]. cbn [fst snd]. rewrite app_assoc. reflexivity.
Qed.

(* grouping: a sequence of whole units delivers exactly one transaction per committing unit, in order *)
Theorem grouping us : forall st,
  boundary st ->
  exists st', arun st (events us) = (st', None) /\ boundary st' /\
              s_pos st' = snd (spec_run (s_pos st) us) /\
              s_out st' = rev (map (fun t => (t, true)) (fst (spec_run (s_pos st) us))) ++ s_out st.
Proof.
  induction us as [|u us IH]; intros st B.
  - exists st. cbn. auto.
  - unfold events. cbn [flat_map]. fold (events us).
    destruct (run_unit st u B) as (s1 & R1 & B1 & P1 & O1 & _).
    rewrite arun_app, R1.
    destruct (IH s1 B1) as (s2 & R2 & B2 & P2 & O2).
    exists s2. split; [exact R2|]. split; [exact B2|].
    cbn [spec_run]. destruct (spec_unit (s_pos st) u) as [t1 p1] eqn:E1. cbn [fst snd] in *.
    rewrite P1 in *. destruct (spec_run p1 us) as [t2 p2]. cbn [fst snd] in *.
    split; [exact P2|]. rewrite O2, O1, map_app, rev_app_distr, app_assoc. reflexivity.
Qed.

Lemma firstn_map_comm {A B} (f : A -> B) n : forall l, firstn n (map f l) = map f (firstn n l).
Proof. induction n as [|n IH]; intros [|x l]; cbn [firstn map]; auto. f_equal. apply IH. Qed.

(* a proper prefix of one unit's events delivers nothing *)
Lemma run_unit_prefix st u k :
  boundary st -> (k < length (events_of u))%nat ->
  exists st', arun st (firstn k (events_of u)) = (st', None) /\ s_out st' = s_out st /\ s_pos st' = s_pos st.
Proof.
  intros [Bt Ba] Hk. destruct u as [ss nx ts | ss nx ts | s | name off]; cbn [events_of] in *.
  - destruct k as [|k]; [exists st; cbn; auto|].
    cbn [firstn arun astep].
    set (st1 := {| s_pos := s_pos st; s_fmt := s_fmt st; s_tables := s_tables st; s_tran := Some []; s_auto := false;
                   s_calls := s_calls st; s_out := s_out st |}).
    cbn [length] in Hk. rewrite app_length, map_length in Hk. cbn [length] in Hk.
    assert (Hk' : (k <= length ss)%nat) by lia.
    rewrite firstn_app, map_length. replace (k - length ss)%nat with 0%nat by lia. cbn [firstn]. rewrite app_nil_r.
    rewrite firstn_map_comm.
    destruct (run_stmts (firstn k ss) st1 [] eq_refl eq_refl) as (st2 & R & T & A & P & O & C & F & B).
    exists st2. split; [exact R|]. split; [rewrite O|rewrite P]; reflexivity.
  - destruct k as [|k]; [exists st; cbn; auto|].
    cbn [firstn arun astep].
    set (st1 := {| s_pos := s_pos st; s_fmt := s_fmt st; s_tables := s_tables st; s_tran := Some []; s_auto := false;
                   s_calls := s_calls st; s_out := s_out st |}).
    cbn [length] in Hk. rewrite app_length, map_length in Hk. cbn [length] in Hk.
    assert (Hk' : (k <= length ss)%nat) by lia.
    rewrite firstn_app, map_length. replace (k - length ss)%nat with 0%nat by lia. cbn [firstn]. rewrite app_nil_r.
    rewrite firstn_map_comm.
    destruct (run_stmts (firstn k ss) st1 [] eq_refl eq_refl) as (st2 & R & T & A & P & O & C & F & B).
    exists st2. split; [exact R|]. split; [rewrite O|rewrite P]; reflexivity.
  - cbn [length] in Hk. replace k with 0%nat by lia. exists st. cbn. auto.
  - cbn [length] in Hk. replace k with 0%nat by lia. exists st. cbn. auto.
Qed.

(* delivery only at commit: cut the event sequence anywhere *)
Theorem only_at_commit us : forall st k,
  boundary st ->
  exists st', arun st (firstn k (events us)) = (st', None) /\
              s_out st' = rev (map (fun t => (t, true)) (fst (spec_run (s_pos st) (units_within k us)))) ++ s_out st.
Proof.
  induction us as [|u us IH]; intros st k B.
  - exists st. cbn. rewrite firstn_nil. cbn. auto.
  - unfold events. cbn [flat_map units_within]. fold (events us).
    rewrite firstn_app.
    destruct (Nat.leb_spec (length (events_of u)) k) as [Hle|Hlt].
    + rewrite firstn_all2 by lia.
      destruct (run_unit st u B) as (s1 & R1 & B1 & P1 & O1 & _).
      rewrite arun_app, R1.
      destruct (IH s1 (k - length (events_of u))%nat B1) as (s2 & R2 & O2).
      exists s2. split; [exact R2|].
      cbn [spec_run]. destruct (spec_unit (s_pos st) u) as [t1 p1] eqn:E1. cbn [fst snd] in *.
      rewrite P1 in *. destruct (spec_run p1 _) as [t2 p2]. cbn [fst snd] in *.
      rewrite O2, O1, map_app, rev_app_distr, app_assoc. reflexivity.
    + replace (k - length (events_of u))%nat with 0%nat by lia. cbn [firstn]. rewrite app_nil_r.
      destruct (run_unit_prefix st u k B Hlt) as (s1 & R1 & O1 & _).
      exists s1. split; [exact R1|]. cbn. exact O1.
Qed.

End AllAccept.

(* ---- arbitrary handler verdicts: what an attempt accepts and where it stops (C04) ---- *)
Section AnyVerdict.
Variable verdict : nat -> bool.
Notation runv := (arun verdict).

Definition acc_of (o : list (tx * bool)) : list tx := map fst (filter snd (rev o)).

Lemma acc_of_true t o : acc_of ((t, true) :: o) = acc_of o ++ [t].
Proof. unfold acc_of. cbn [rev]. rewrite filter_app, map_app. reflexivity. Qed.
Lemma acc_of_false t o : acc_of ((t, false) :: o) = acc_of o.
Proof. unfold acc_of. cbn [rev]. rewrite filter_app, map_app. cbn. apply app_nil_r. Qed.

Lemma run_stmts_v ss : forall st acc,
  s_tran st = Some acc -> s_auto st = false ->
  exists st', runv st (map stmt_event ss) = (st', None) /\
              s_tran st' = Some (rev (map st_ev ss) ++ acc) /\ s_auto st' = false /\
              s_pos st' = s_pos st /\ s_out st' = s_out st /\ s_calls st' = s_calls st.
Proof.
  induction ss as [|s ss IH]; intros st acc Ht Ha.
  - exists st. cbn. repeat split; auto.
  - cbn [map runv stmt_event astep]. rewrite Ha.
    destruct (IH (with_tran st (append_tran (s_tran st) (st_ev s))) (st_ev s :: acc)) as (st' & R & T & A & P & O & C).
    { cbn. rewrite Ht. reflexivity. } { exact Ha. }
    exists st'. split; [exact R|]. cbn [map rev]. rewrite <- app_assoc. cbn [app]. repeat split; auto.
Qed.

(* the commit closure under an arbitrary verdict *)
Lemma commit_at_cases st nx ts :
  let t := {| t_now := s_pos st; t_next := at_off (s_pos st) nx; t_ts := ts; t_events := tran_list (s_tran st) |} in
  (verdict (s_calls st) = true /\
   commit_at verdict st nx ts =
   ({| s_pos := at_off (s_pos st) nx; s_fmt := s_fmt st; s_tables := s_tables st; s_tran := None; s_auto := true;
       s_calls := S (s_calls st); s_out := (t, true) :: s_out st |}, None))
  \/ (verdict (s_calls st) = false /\
      commit_at verdict st nx ts =
      ({| s_pos := s_pos st; s_fmt := s_fmt st; s_tables := s_tables st; s_tran := s_tran st; s_auto := s_auto st;
          s_calls := S (s_calls st); s_out := (t, false) :: s_out st |}, Some CHandler)).
Proof. unfold commit_at. destruct (verdict (s_calls st)); [left|right]; split; reflexivity. Qed.

(* one whole unit: either accepted (as specified) or refused (stop, position and accepted list unchanged) *)
Lemma run_unit_v st u :
  boundary st ->
  (exists st', runv st (events_of u) = (st', None) /\ boundary st' /\
               s_pos st' = snd (spec_unit (s_pos st) u) /\
               acc_of (s_out st') = acc_of (s_out st) ++ fst (spec_unit (s_pos st) u))
  \/ (exists st', runv st (events_of u) = (st', Some CHandler) /\
                  s_pos st' = s_pos st /\ acc_of (s_out st') = acc_of (s_out st)).
Proof.
  intros [Bt Ba]. destruct u as [ss nx ts | ss nx ts | s | name off]; cbn [events_of].
  - cbn [arun astep].
    set (st1 := {| s_pos := s_pos st; s_fmt := s_fmt st; s_tables := s_tables st; s_tran := Some []; s_auto := false;
                   s_calls := s_calls st; s_out := s_out st |}).
    destruct (run_stmts_v ss st1 [] eq_refl eq_refl) as (st2 & R & T & A & P & O & C).
    rewrite arun_app, R. cbn [arun astep].
    destruct (commit_at_cases st2 nx ts) as [[V E]|[V E]]; rewrite E.
    + left. eexists. split; [reflexivity|]. unfold boundary.
      cbn [s_tran s_auto s_pos s_out spec_unit fst snd]. rewrite P, O, T. cbn [s_pos s_out st1].
      rewrite acc_of_true, app_nil_r. unfold tran_list. rewrite rev_append_rev, rev_involutive. repeat split; reflexivity.
    + right. eexists. split; [reflexivity|]. cbn [s_pos s_out]. rewrite P, O. cbn [s_pos s_out st1].
      rewrite acc_of_false. split; reflexivity.
  - cbn [arun astep].
    set (st1 := {| s_pos := s_pos st; s_fmt := s_fmt st; s_tables := s_tables st; s_tran := Some []; s_auto := false;
                   s_calls := s_calls st; s_out := s_out st |}).
    destruct (run_stmts_v ss st1 [] eq_refl eq_refl) as (st2 & R & T & A & P & O & C).
    rewrite arun_app, R. cbn [arun astep].
    destruct (commit_at_cases (with_tran st2 None) nx ts) as [[V E]|[V E]]; rewrite E.
    + left. eexists. split; [reflexivity|]. unfold boundary.
      cbn [s_tran s_auto s_pos s_out spec_unit fst snd with_tran tran_list]. rewrite P, O. cbn [s_pos s_out st1].
      rewrite acc_of_true. repeat split; reflexivity.
    + right. eexists. split; [reflexivity|]. cbn [s_pos s_out with_tran]. rewrite P, O. cbn [s_pos s_out st1].
      rewrite acc_of_false. split; reflexivity.
  - cbn [arun astep stmt_event]. rewrite Ba.
    destruct (commit_at_cases (with_tran st (append_tran (s_tran st) (st_ev s))) (st_next s) (st_ts s)) as [[V E]|[V E]]; rewrite E.
    + left. eexists. split; [reflexivity|]. unfold boundary.
      cbn [s_tran s_auto s_pos s_out spec_unit fst snd with_tran append_tran tran_list]. rewrite Bt.
      rewrite acc_of_true. cbn [rev_append]. repeat split; reflexivity.
    + right. eexists. split; [reflexivity|]. cbn [s_pos s_out with_tran]. rewrite acc_of_false. split; reflexivity.
  - left. cbn [arun astep]. eexists. split; [reflexivity|]. unfold boundary.
    cbn [s_tran s_auto s_pos s_out spec_unit fst snd]. rewrite app_nil_r. repeat split; auto.
Qed.

Lemma run_unit_prefix_v st u k :
  boundary st -> (k < length (events_of u))%nat ->
  exists st', runv st (firstn k (events_of u)) = (st', None) /\ s_out st' = s_out st /\ s_pos st' = s_pos st.
Proof.
  intros [Bt Ba] Hk. destruct u as [ss nx ts | ss nx ts | s | name off]; cbn [events_of] in *.
  - destruct k as [|k]; [exists st; cbn; auto|].
    cbn [firstn arun astep].
    set (st1 := {| s_pos := s_pos st; s_fmt := s_fmt st; s_tables := s_tables st; s_tran := Some []; s_auto := false;
                   s_calls := s_calls st; s_out := s_out st |}).
    cbn [length] in Hk. rewrite app_length, map_length in Hk. cbn [length] in Hk.
    rewrite firstn_app, map_length. replace (k - length ss)%nat with 0%nat by lia. cbn [firstn]. rewrite app_nil_r.
    rewrite firstn_map_comm.
    destruct (run_stmts_v (firstn k ss) st1 [] eq_refl eq_refl) as (st2 & R & T & A & P & O & C).
    exists st2. split; [exact R|]. split; [rewrite O|rewrite P]; reflexivity.
  - destruct k as [|k]; [exists st; cbn; auto|].
    cbn [firstn arun astep].
    set (st1 := {| s_pos := s_pos st; s_fmt := s_fmt st; s_tables := s_tables st; s_tran := Some []; s_auto := false;
                   s_calls := s_calls st; s_out := s_out st |}).
    cbn [length] in Hk. rewrite app_length, map_length in Hk. cbn [length] in Hk.
    rewrite firstn_app, map_length. replace (k - length ss)%nat with 0%nat by lia. cbn [firstn]. rewrite app_nil_r.
    rewrite firstn_map_comm.
    destruct (run_stmts_v (firstn k ss) st1 [] eq_refl eq_refl) as (st2 & R & T & A & P & O & C).
    exists st2. split; [exact R|]. split; [rewrite O|rewrite P]; reflexivity.
  - cbn [length] in Hk. replace k with 0%nat by lia. exists st. cbn. auto.
  - cbn [length] in Hk. replace k with 0%nat by lia. exists st. cbn. auto.
Qed.

(* an event that makes the loop return with an error leaves the state untouched *)
Lemma run_stop st c : runv st [AStop c] = (st, Some c).
Proof. reflexivity. Qed.

(* Whatever ends an attempt - the stream being cut after any event (connection loss, EOF, ERR, cancellation),
   a handler refusal, or an event that makes the loop return an error (injected after any event) - the position
   kept is the boundary after the last unit whose transaction was accepted, and exactly the transactions of
   those first m units were accepted. *)
Theorem attempt_boundary us : forall st k tail,
  boundary st -> (tail = [] \/ exists c, tail = [AStop c]) ->
  exists m st' c, runv st (firstn k (events us) ++ tail) = (st', c) /\ (m <= length us)%nat /\
    acc_of (s_out st') = acc_of (s_out st) ++ fst (spec_run (s_pos st) (firstn m us)) /\
    s_pos st' = snd (spec_run (s_pos st) (firstn m us)).
Proof.
  induction us as [|u us IH]; intros st k tail B Ht.
  - exists 0%nat. cbn [events flat_map]. rewrite firstn_nil. cbn [app firstn spec_run fst snd length].
    destruct Ht as [->|[c ->]].
    + exists st, None. cbn. rewrite app_nil_r. repeat split; auto.
    + exists st, (Some c). cbn. rewrite app_nil_r. repeat split; auto.
  - unfold events. cbn [flat_map]. fold (events us). rewrite firstn_app.
    destruct (Nat.leb_spec (length (events_of u)) k) as [Hle|Hlt].
    + rewrite firstn_all2 by lia. rewrite <- app_assoc.
      destruct (run_unit_v st u B) as [(s1 & R1 & B1 & P1 & A1)|(s1 & R1 & P1 & A1)].
      * rewrite arun_app, R1.
        destruct (IH s1 (k - length (events_of u))%nat tail B1 Ht) as (m & s2 & c & R2 & Hm & A2 & P2).
        exists (S m), s2, c. split; [exact R2|]. split; [cbn [length]; lia|].
        cbn [firstn spec_run]. destruct (spec_unit (s_pos st) u) as [t1 p1]. cbn [fst snd] in *.
        rewrite P1 in *. destruct (spec_run p1 (firstn m us)) as [t2 p2]. cbn [fst snd] in *.
        split; [rewrite A2, A1, app_assoc; reflexivity | exact P2].
      * rewrite arun_app, R1. exists 0%nat, s1, (Some CHandler).
        split; [reflexivity|]. split; [lia|]. cbn [firstn spec_run fst snd]. rewrite app_nil_r. auto.
    + replace (k - length (events_of u))%nat with 0%nat by lia. cbn [firstn]. rewrite app_nil_r.
      destruct (run_unit_prefix_v st u k B Hlt) as (s1 & R1 & O1 & P1).
      rewrite arun_app, R1. exists 0%nat. cbn [firstn spec_run fst snd]. rewrite app_nil_r.
      destruct Ht as [->|[c ->]].
      * exists s1, None. cbn. rewrite O1. repeat split; auto; lia.
      * exists s1, (Some c). cbn. rewrite O1. repeat split; auto; lia.
Qed.

End AnyVerdict.

(* ---- sequences of attempts (C04): every transaction accepted exactly once, in order ---- *)
(* accs is the list of accepted-transaction lists of successive attempts on one streamer.  Each failing attempt
   starts at the stored position q, is served the remaining units rem (the master serves what follows q), stops as
   described by attempt_boundary after accepting the transactions of m units, and stores the boundary position;
   the last attempt runs to the end. *)
Inductive attempts : position -> list unit -> list (list tx) -> Prop :=
| attempts_last q rem : attempts q rem [fst (spec_run q rem)]
| attempts_fail q rem m accs :
    (m <= length rem)%nat ->
    attempts (snd (spec_run q (firstn m rem))) (skipn m rem) accs ->
    attempts q rem (fst (spec_run q (firstn m rem)) :: accs).

Theorem exactly_once q rem accs : attempts q rem accs -> concat accs = fst (spec_run q rem).
Proof.
  induction 1 as [q rem | q rem m accs Hm H IH]; cbn [concat].
  - apply app_nil_r.
  - rewrite IH. transitivity (fst (spec_run q (firstn m rem ++ skipn m rem))).
    + rewrite spec_run_app. reflexivity.
    + rewrite firstn_skipn. reflexivity.
Qed.

(* ---- C03: labels chain, and every end label is an exact resume point ---- *)
Lemma spec_unit_labels p u t : In t (fst (spec_unit p u)) ->
  t_now t = p /\ t_next t = snd (spec_unit p u) /\ p_file (t_next t) = p_file p.
Proof.
  destruct u; cbn; intros H; try (destruct H as [<-|[]]; repeat split; reflexivity); destruct H.
Qed.

(* the transaction of unit u (if it has one) starts where the units before it end - the previous transaction's end
   label, or the target of an intervening rotation, or the initial position - and ends at its commit event's label *)
Theorem labels_chain p us1 u us2 t :
  In t (fst (spec_unit (snd (spec_run p us1)) u)) ->
  In t (fst (spec_run p (us1 ++ u :: us2))) /\
  t_now t = snd (spec_run p us1) /\
  t_next t = snd (spec_run p (us1 ++ [u])).
Proof.
  intros Hin. split.
  - rewrite spec_run_app. cbn [fst spec_run]. apply in_or_app. right.
    destruct (spec_unit (snd (spec_run p us1)) u) as [t1 p1] eqn:E. cbn [fst] in Hin.
    destruct (spec_run p1 us2). cbn [fst]. apply in_or_app. left. exact Hin.
  - destruct (spec_unit_labels _ _ _ Hin) as (H1 & H2 & _). split; [exact H1|].
    rewrite H2, spec_run_app. cbn [snd spec_run].
    destruct (spec_unit (snd (spec_run p us1)) u). reflexivity.
Qed.

Section Resume.
Variable verdict : nat -> bool.
Hypothesis all_accept : forall k, verdict k = true.

(* A new stream started at the position reached after us1 (in particular at the end label of any delivered
   transaction), to which the master sends its prologue (fake rotate: ignored before the format description; the
   format description) and then the remaining units, delivers exactly the remaining transactions with identical
   contents and labels. *)
Theorem resume_exact p us1 us2 f :
  let q := snd (spec_run p us1) in
  exists st', arun verdict (init_state q) (ANop :: AFormat f :: events us2) = (st', None) /\
              delivered st' = fst (spec_run q us2) /\
              fst (spec_run p (us1 ++ us2)) = fst (spec_run p us1) ++ fst (spec_run q us2).
Proof.
  intros q. cbn [arun astep].
  set (s0 := {| s_pos := s_pos (init_state q); s_fmt := f; s_tables := s_tables (init_state q);
                s_tran := s_tran (init_state q); s_auto := s_auto (init_state q);
                s_calls := s_calls (init_state q); s_out := s_out (init_state q) |}).
  destruct (grouping verdict all_accept us2 s0) as (st' & R & B & P & O).
  { split; reflexivity. }
  exists st'. split; [exact R|]. split.
  - unfold delivered. rewrite O. cbn [s_out s0 init_state s_pos]. rewrite app_nil_r, rev_involutive, map_map. cbn [fst].
    apply map_id.
  - rewrite spec_run_app. reflexivity.
Qed.
End Resume.
