(* Per-family ties of CellBytes: for the type codes of one family the translated Go function CellBytes_g (dispatcher and
   case) returns what Model.Cell.cell_bytes returns.  Each statement depends only on the case proofs of its family, so a
   change to the DECIMAL case of the Go code leaves the integer, string and temporal ties (and the properties restating
   them) standing.  CellBytes_equiv (TransEquivCellBytes.v) is the statement for all type codes at once. *)
From Coq Require Import ZifyBool.
From GB Require Import Base.Prelude Base.GoSem Base.DecText Base.GoFmt Base.BytesLemmas Proofs.GoSemLemmas Proofs.TransTactics.
From GB Require Import Model.Cell Proofs.TransEquivCellBytesDefs.
From GB Require Import Proofs.TransEquivCellBytesInt Proofs.TransEquivCellBytesStr Proofs.TransEquivCellBytesTemporal
                       Proofs.TransEquivCellBytesDecimal.
From GBGen Require Import Consts TransCellBytes.
Open Scope Z_scope.

Section Ties.
Variable ffmt : Z -> Z -> bytes.
Variable tz : Z -> Z.
Variable jsonp : bytes -> res bytes.

Definition tie_on (ks : list Z) : Prop :=
  forall fuel d pos typ meta uns,
    In typ ks -> (1000 <= fuel)%nat -> wf_bytes d -> 0 <= meta < 65536 -> Z.of_nat pos < 2 ^ 62 -> (pos <= length d)%nat ->
    res_sim (CellBytes_g ffmt (print_timestamp tz) jsonp fuel d (Z.of_nat pos) typ meta uns)
            (flat (cell_bytes ffmt tz jsonp d pos typ meta uns)).

Ltac at_code := unfold CellBytes_g; cbn [Z.eqb Pos.eqb orb].
Ltac by_case L := apply L; try assumption; cbn [In]; try lia; auto.

(* TINY, SHORT, INT24, LONG, LONGLONG, YEAR, FLOAT, DOUBLE, BIT, ENUM, SET, and ENUM / SET stored as a string *)
Theorem CellBytes_tie_numeric : tie_on [1; 2; 9; 3; 8; 13; 4; 5; 16; 247; 248; 254].
Proof.
  intros fuel d pos typ meta uns Hin Hf W Hm Hp Hle. cbn [In] in Hin.
  repeat (destruct Hin as [<-|Hin]); try contradiction; at_code.
  - by_case (CellBytes_TypeTiny_ok ffmt tz jsonp).
  - by_case (CellBytes_TypeShort_ok ffmt tz jsonp).
  - by_case (CellBytes_TypeInt24_ok ffmt tz jsonp).
  - by_case (CellBytes_TypeLong_ok ffmt tz jsonp).
  - by_case (CellBytes_TypeLongLong_ok ffmt tz jsonp).
  - by_case (CellBytes_TypeYear_ok ffmt tz jsonp).
  - by_case (CellBytes_TypeFloat_ok ffmt tz jsonp).
  - by_case (CellBytes_TypeDouble_ok ffmt tz jsonp).
  - by_case (CellBytes_TypeBit_ok ffmt tz jsonp).
  - by_case (CellBytes_TypeEnum_ok ffmt tz jsonp).
  - by_case (CellBytes_TypeSet_ok ffmt tz jsonp).
  - by_case (CellBytes_TypeString_ok ffmt tz jsonp fuel Hf).
Qed.

(* VARCHAR / VAR_STRING, CHAR / BINARY (STRING), the BLOB family and JSON (through the oracle jsonp), GEOMETRY *)
Theorem CellBytes_tie_strings : tie_on [15; 253; 254; 245; 249; 250; 251; 252; 255].
Proof.
  intros fuel d pos typ meta uns Hin Hf W Hm Hp Hle. cbn [In] in Hin.
  repeat (destruct Hin as [<-|Hin]); try contradiction; at_code.
  - by_case (CellBytes_TypeVarchar_ok ffmt tz jsonp).
  - by_case (CellBytes_TypeVarchar_ok ffmt tz jsonp).
  - by_case (CellBytes_TypeString_ok ffmt tz jsonp fuel Hf).
  - by_case (CellBytes_TypeJSON_ok ffmt tz jsonp).
  - by_case (CellBytes_TypeJSON_ok ffmt tz jsonp).
  - by_case (CellBytes_TypeJSON_ok ffmt tz jsonp).
  - by_case (CellBytes_TypeJSON_ok ffmt tz jsonp).
  - by_case (CellBytes_TypeJSON_ok ffmt tz jsonp).
  - by_case (CellBytes_TypeGeometry_ok ffmt tz jsonp).
Qed.

(* TIMESTAMP, DATE / NEWDATE, TIME, DATETIME and the 5.6.4 encodings TIMESTAMP2, DATETIME2, TIME2 *)
Theorem CellBytes_tie_temporal : tie_on [7; 10; 14; 11; 12; 17; 18; 19].
Proof.
  intros fuel d pos typ meta uns Hin Hf W Hm Hp Hle. cbn [In] in Hin.
  repeat (destruct Hin as [<-|Hin]); try contradiction; at_code.
  - by_case (CellBytes_TypeTimestamp_ok ffmt tz jsonp).
  - by_case (CellBytes_TypeDate_ok ffmt tz jsonp).
  - by_case (CellBytes_TypeDate_ok ffmt tz jsonp).
  - by_case (CellBytes_TypeTime_ok ffmt tz jsonp).
  - by_case (CellBytes_TypeDateTime_ok ffmt tz jsonp).
  - by_case (CellBytes_TypeTimestamp2_ok ffmt tz jsonp).
  - by_case (CellBytes_TypeDateTime2_ok ffmt tz jsonp).
  - by_case (CellBytes_TypeTime2_ok ffmt tz jsonp).
Qed.

(* NEWDECIMAL *)
Theorem CellBytes_tie_decimal : tie_on [246].
Proof.
  intros fuel d pos typ meta uns Hin Hf W Hm Hp Hle. cbn [In] in Hin.
  repeat (destruct Hin as [<-|Hin]); try contradiction; at_code.
  by_case (CellBytes_TypeNewDecimal_ok ffmt tz jsonp fuel Hf).
Qed.
End Ties.
