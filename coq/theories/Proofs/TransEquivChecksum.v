(* gen/TransChecksum.v (binlog_event_mysql56.go: mysql56BinlogEvent.StripChecksum, IsGTID, translated by
   harness/cmd/gotrans; the wrapper struct mysql56BinlogEvent and the interface BinlogEvent are represented by the bytes
   they wrap) computes what the hand-written Model/Events.v does. *)
From Coq Require Import ZifyBool.
From GB Require Import Base.Prelude Base.GoSem Base.BytesLemmas Proofs.GoSemLemmas Proofs.TransTactics.
From GB Require Import Model.Header Model.Events Proofs.TransEquivHeader Proofs.TransEquivEvents.
From GBGen Require Import Consts TransHeader TransEvents TransChecksum.
Open Scope Z_scope.

(* StripChecksum returns the stripped event AND the checksum bytes; the hand-written model keeps the event only *)
Definition strip_checksum56_pair (f : format) (ev : bytes) : res (bytes * bytes) :=
  let a := f_alg f in
  if (a =? K_BinlogChecksumAlgOff) || (a =? K_BinlogChecksumAlgUndef) then Ok (ev, [])
  else if a =? K_BinlogChecksumAlgCRC32 then
    if (length ev <? 4)%nat then Panic else Ok (firstn (length ev - 4) ev, skipn (length ev - 4) ev)
  else Err EChecksumAlg.

Lemma strip_pair_fst f ev : res_map fst (strip_checksum56_pair f ev) = strip_checksum56 f ev.
Proof.
  unfold strip_checksum56_pair, strip_checksum56. cbv zeta.
  destruct ((f_alg f =? K_BinlogChecksumAlgOff) || (f_alg f =? K_BinlogChecksumAlgUndef)); [reflexivity|].
  destruct (f_alg f =? K_BinlogChecksumAlgCRC32); [|reflexivity].
  destruct (length ev <? 4)%nat; reflexivity.
Qed.

Lemma strip_pair_parts f ev e c : strip_checksum56_pair f ev = Ok (e, c) -> ev = e ++ c.
Proof.
  unfold strip_checksum56_pair. cbv zeta.
  destruct ((f_alg f =? K_BinlogChecksumAlgOff) || (f_alg f =? K_BinlogChecksumAlgUndef)).
  - intros [= <- <-]. now rewrite app_nil_r.
  - destruct (f_alg f =? K_BinlogChecksumAlgCRC32); [|discriminate].
    destruct (length ev <? 4)%nat; [discriminate|]. intros [= <- <-]. symmetry. apply firstn_skipn.
Qed.

Theorem mysql56BinlogEvent_StripChecksum_equiv f ev :
  len_ok ev ->
  res_sim (mysql56BinlogEvent_StripChecksum_g ev (Format_of f)) (strip_checksum56_pair f ev).
Proof.
  intro L. unfold mysql56BinlogEvent_StripChecksum_g, strip_checksum56_pair. cbv zeta.
  cbn [Format_of BinlogFormat_ChecksumAlgorithm].
  change K_BinlogChecksumAlgOff with 0. change K_BinlogChecksumAlgUndef with 255. change K_BinlogChecksumAlgCRC32 with 1.
  destruct ((f_alg f =? 0) || (f_alg f =? 255)); [reflexivity|].
  destruct (f_alg f =? 1); [|exact I].
  unfold binlogEvent_Bytes_g. cbn [bind].
  unfold len_ok, len in L. unfold len.
  rewrite i64_small by lia.
  unfold go_slice_to, go_slice, go_slice_from, slice, slice_from.
  destruct (Nat.ltb_spec (length ev) 4) as [S|S].
  - replace (Z.of_nat (length ev) - 4 <? 0) with true by lia. exact I.
  - replace (Z.of_nat (length ev) - 4 <? 0) with false by lia. cbn [bind].
    replace (Z.to_nat (Z.of_nat (length ev) - 4)) with (length ev - 4)%nat by lia.
    replace ((length ev - 4 <=? length ev)%nat) with true by (symmetry; apply Nat.leb_le; lia).
    cbn [bind orb]. replace (Z.of_nat (length ev) - 4 <? 0) with false by lia.
    replace (Z.to_nat (Z.of_nat (length ev) - 4 - 0)) with (length ev - 4)%nat by lia.
    cbn [Z.to_nat Nat.add skipn].
    replace ((length ev - 4 <=? length ev)%nat) with true by (symmetry; apply Nat.leb_le; lia).
    reflexivity.
Qed.

(* the event the streamer goes on with *)
Corollary mysql56BinlogEvent_StripChecksum_event f ev :
  len_ok ev ->
  res_sim (res_map fst (mysql56BinlogEvent_StripChecksum_g ev (Format_of f))) (strip_checksum56 f ev).
Proof.
  intro L. pose proof (mysql56BinlogEvent_StripChecksum_equiv f ev L) as H. rewrite <- strip_pair_fst.
  destruct (mysql56BinlogEvent_StripChecksum_g ev (Format_of f)) as [[a b]| |],
           (strip_checksum56_pair f ev) as [[a' b']| |]; cbn in *; try contradiction; try exact I.
  now inversion H.
Qed.

Theorem mysql56BinlogEvent_IsGTID_equiv ev : res_sim (mysql56BinlogEvent_IsGTID_g ev) (is_type K_eGTIDEvent ev).
Proof. unfold mysql56BinlogEvent_IsGTID_g. apply res_sim_eq; unfold is_type; rewrite <- Type_eq; reflexivity. Qed.
