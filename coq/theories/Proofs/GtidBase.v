(* Basic facts shared by the C18 / C19 proofs: byte order, sorted association lists,
   lookup / map_set, denotation of interval lists, boolean reflections of the
   specification predicates. *)
From GB Require Import Base.Prelude Base.BytesLemmas Model.Gtid Spec.GtidSpec.
Open Scope Z_scope.

(* ---------- bytes_eqb / bytes_compare / lex_lt ---------- *)
Lemma bytes_eqb_refl a : bytes_eqb a a = true.
Proof. apply bytes_eqb_eq. reflexivity. Qed.

Lemma bytes_eqb_neq a b : a <> b -> bytes_eqb a b = false.
Proof. intros H. destruct (bytes_eqb a b) eqn:E; [apply bytes_eqb_eq in E; contradiction|reflexivity]. Qed.

Lemma bytes_eqb_sym a b : bytes_eqb a b = bytes_eqb b a.
Proof.
  destruct (bytes_eqb a b) eqn:E.
  - apply bytes_eqb_eq in E. subst. symmetry. apply bytes_eqb_refl.
  - symmetry. apply bytes_eqb_neq. intros ->. rewrite bytes_eqb_refl in E. discriminate.
Qed.

Lemma bytes_compare_eq a : forall b, bytes_compare a b = Eq <-> a = b.
Proof.
  induction a as [|x a IH]; intros [|y b]; cbn [bytes_compare]; split; intro H;
    try reflexivity; try discriminate.
  - destruct (Z.compare_spec x y); try discriminate. subst. f_equal. apply IH. exact H.
  - inversion H; subst. rewrite Z.compare_refl. apply IH. reflexivity.
Qed.

Lemma bytes_compare_lt a : forall b, bytes_compare a b = Lt <-> lex_lt a b.
Proof.
  induction a as [|x a IH]; intros [|y b]; cbn [bytes_compare lex_lt]; split; intro H;
    try reflexivity; try discriminate; try contradiction; try exact I.
  - destruct (Z.compare_spec x y); try discriminate; [right; split; [assumption|apply IH; exact H] | left; assumption].
  - destruct H as [H|[H1 H2]].
    + apply Z.compare_lt_iff in H. rewrite H. reflexivity.
    + subst. rewrite Z.compare_refl. apply IH. exact H2.
Qed.

Lemma bytes_compare_gt a : forall b, bytes_compare a b = Gt <-> lex_lt b a.
Proof.
  induction a as [|x a IH]; intros [|y b]; cbn [bytes_compare lex_lt]; split; intro H;
    try reflexivity; try discriminate; try contradiction; try exact I.
  - destruct (Z.compare_spec x y); try discriminate; [right; split; [congruence|apply IH; exact H] | left; assumption].
  - destruct H as [H|[H1 H2]].
    + apply Z.compare_gt_iff in H. rewrite H. reflexivity.
    + subst. rewrite Z.compare_refl. apply IH. exact H2.
Qed.

Lemma lex_lt_irrefl a : ~ lex_lt a a.
Proof. induction a as [|x a IH]; cbn [lex_lt]; [tauto|]. intros [H|[_ H]]; [lia|auto]. Qed.

Lemma lex_lt_trans a : forall b c, lex_lt a b -> lex_lt b c -> lex_lt a c.
Proof.
  induction a as [|x a IH]; intros [|y b] [|z c]; cbn [lex_lt]; try tauto.
  intros [H1|[E1 H1]] [H2|[E2 H2]]; try (left; lia).
  right. split; [lia|]. eapply IH; eauto.
Qed.

Lemma lex_lt_neq a b : lex_lt a b -> a <> b.
Proof. intros H ->. exact (lex_lt_irrefl _ H). Qed.

Lemma lex_trichotomy a b : lex_lt a b \/ a = b \/ lex_lt b a.
Proof.
  destruct (bytes_compare a b) eqn:E.
  - right; left. apply bytes_compare_eq. exact E.
  - left. apply bytes_compare_lt. exact E.
  - right; right. apply bytes_compare_gt. exact E.
Qed.

Lemma lex_ltb_ok a : forall b, lex_ltb a b = true <-> lex_lt a b.
Proof.
  induction a as [|x a IH]; intros [|y b]; cbn [lex_ltb lex_lt]; try (split; [discriminate|tauto]); try tauto.
  rewrite orb_true_iff, andb_true_iff, IH, Z.ltb_lt, Z.eqb_eq. tauto.
Qed.

(* ---------- sorted association lists ---------- *)
Definition keys_above (k : sid) (s : gset) : Prop := Forall (fun e => lex_lt k (fst e)) s.

Lemma keys_sorted_cons e r : keys_sorted (e :: r) <-> keys_above (fst e) r /\ keys_sorted r.
Proof.
  revert e. induction r as [|f r IH]; intros e.
  - cbn [keys_sorted]. split; [intros _; split; [constructor|exact I] | tauto].
  - split.
    + intros [H1 H2]. split; [|exact H2]. constructor; [exact H1|].
      apply IH in H2 as [H3 _]. unfold keys_above in *.
      eapply Forall_impl; [|exact H3]. intros g Hg. eapply lex_lt_trans; eauto.
    + intros [H1 H2]. split; [inversion H1; assumption | exact H2].
Qed.

Lemma keys_above_notin k s l : keys_above k s -> ~ In (k, l) s.
Proof.
  intros H Hin. unfold keys_above in H. rewrite Forall_forall in H.
  specialize (H _ Hin). exact (lex_lt_irrefl _ H).
Qed.

Lemma lookup_above k s : keys_above k s -> lookup k s = [].
Proof.
  induction 1 as [|[k' v] r Hk Hr IH]; [reflexivity|].
  cbn [lookup]. cbn [fst] in Hk. rewrite bytes_eqb_neq by (apply lex_lt_neq; exact Hk). exact IH.
Qed.

Lemma lookup_in_or_nil k s : lookup k s = [] \/ In (k, lookup k s) s.
Proof.
  induction s as [|[k' v] r IH]; [left; reflexivity|].
  cbn [lookup]. destruct (bytes_eqb k k') eqn:E.
  - apply bytes_eqb_eq in E. subst. right. left. reflexivity.
  - destruct IH as [IH|IH]; [left; exact IH | right; right; exact IH].
Qed.

Lemma lookup_in k l s : keys_sorted s -> In (k, l) s -> lookup k s = l.
Proof.
  induction s as [|[k' v] r IH]; intros Hs Hin; [contradiction|].
  apply keys_sorted_cons in Hs as [Ha Hs]. cbn [fst] in Ha.
  cbn [lookup]. destruct Hin as [E|Hin].
  - inversion E; subst. rewrite bytes_eqb_refl. reflexivity.
  - destruct (bytes_eqb k k') eqn:E.
    + apply bytes_eqb_eq in E. subst. exfalso. exact (keys_above_notin _ _ _ Ha Hin).
    + apply IH; assumption.
Qed.

Lemma lookup_notin k s : (forall l, ~ In (k, l) s) -> lookup k s = [].
Proof.
  intros H. destruct (lookup_in_or_nil k s) as [E|E]; [exact E|]. exfalso. exact (H _ E).
Qed.

Lemma keys_sorted_NoDup s : keys_sorted s -> NoDup s.
Proof.
  induction s as [|[k v] r IH]; intros H; [constructor|].
  apply keys_sorted_cons in H as [Ha Hs]. constructor; [|apply IH; exact Hs].
  apply keys_above_notin. exact Ha.
Qed.

(* ---------- denotation ---------- *)
Lemma den_ivs_nil n : ~ den_ivs [] n.
Proof. intros (a & b & H & _). contradiction. Qed.

Lemma den_ivs_cons a b r n : den_ivs ((a, b) :: r) n <-> a <= n <= b \/ den_ivs r n.
Proof.
  unfold den_ivs. split.
  - intros (c & d & [E|H] & Hn); [inversion E; subst; left; exact Hn | right; eauto].
  - intros [H|(c & d & H & Hn)]; [exists a, b; split; [left; reflexivity|exact H] | exists c, d; split; [right; exact H|exact Hn]].
Qed.

Lemma den_ivs_app l1 l2 n : den_ivs (l1 ++ l2) n <-> den_ivs l1 n \/ den_ivs l2 n.
Proof.
  unfold den_ivs. split.
  - intros (a & b & H & Hn). apply in_app_or in H as [H|H]; [left|right]; eauto.
  - intros [(a & b & H & Hn)|(a & b & H & Hn)]; exists a, b; (split; [apply in_or_app; auto|exact Hn]).
Qed.

Lemma den_nil u n : ~ den [] u n.
Proof. intros (l & H & _). contradiction. Qed.

Lemma den_lookup s u n : keys_sorted s -> (den s u n <-> den_ivs (lookup u s) n).
Proof.
  intros Hs. split.
  - intros (l & Hin & Hd). rewrite (lookup_in _ _ _ Hs Hin). exact Hd.
  - intros Hd. destruct (lookup_in_or_nil u s) as [E|E].
    + rewrite E in Hd. exfalso. exact (den_ivs_nil _ Hd).
    + exists (lookup u s). split; assumption.
Qed.

Lemma den_cons k v r u n :
  den ((k, v) :: r) u n <-> (u = k /\ den_ivs v n) \/ den r u n.
Proof.
  unfold den. split.
  - intros (l & [E|H] & Hd); [inversion E; subst; left; split; [reflexivity|exact Hd] | right; eauto].
  - intros [[-> Hd]|(l & H & Hd)]; [exists v; split; [left; reflexivity|exact Hd] | exists l; split; [right; exact H|exact Hd]].
Qed.

Lemma den_above k s n : keys_above k s -> ~ den s k n.
Proof. intros Ha (l & Hin & _). exact (keys_above_notin _ _ _ Ha Hin). Qed.

(* ---------- interval lists ---------- *)
Lemma ivs_ok_weaken l : forall lo lo', ivs_ok lo l -> lo' <= lo -> ivs_ok lo' l.
Proof. destruct l as [|[a b] r]; cbn [ivs_ok]; intros; [exact I|]. intuition lia. Qed.

Lemma ivs_ok_in l : forall lo a b, ivs_ok lo l -> In (a, b) l -> lo < a /\ a <= b /\ b < 2 ^ 63.
Proof.
  induction l as [|[c d] r IH]; intros lo a b H Hin; [contradiction|].
  cbn [ivs_ok] in H. destruct H as (H1 & H2 & H3 & H4).
  destruct Hin as [E|Hin]; [inversion E; subst; lia|].
  specialize (IH _ _ _ H4 Hin). lia.
Qed.

Lemma ivs_ok_lb l lo n : ivs_ok lo l -> den_ivs l n -> lo < n.
Proof. intros H (a & b & Hin & Hn). pose proof (ivs_ok_in _ _ _ _ H Hin). lia. Qed.

Lemma ivs_ok_suffix pre : forall lo l, ivs_ok lo (pre ++ l) -> exists lo', lo <= lo' /\ ivs_ok lo' l.
Proof.
  induction pre as [|[a b] pre IH]; intros lo l H; cbn [app] in H.
  - exists lo. split; [lia|exact H].
  - cbn [ivs_ok] in H. destruct H as (H1 & H2 & H3 & H4).
    destruct (IH _ _ H4) as (lo' & Hl & Hok). exists lo'. split; [lia|exact Hok].
Qed.

(* two intervals of a canonical list are equal or separated by a gap *)
Lemma ivs_ok_sep l : forall lo a b c d, ivs_ok lo l -> In (a, b) l -> In (c, d) l ->
  (a, b) = (c, d) \/ b + 1 < c \/ d + 1 < a.
Proof.
  induction l as [|[x y] r IH]; intros lo a b c d H H1 H2; [contradiction|].
  cbn [ivs_ok] in H. destruct H as (Ha & Hb & Hc & Hr).
  destruct H1 as [E1|H1]; destruct H2 as [E2|H2].
  - left. congruence.
  - inversion E1; subst. pose proof (ivs_ok_in _ _ _ _ Hr H2). right; left; lia.
  - inversion E2; subst. pose proof (ivs_ok_in _ _ _ _ Hr H1). right; right; lia.
  - eapply IH; eauto.
Qed.

(* ---------- boolean reflections ---------- *)
Lemma ivs_okb_ok l : forall lo, ivs_okb lo l = true <-> ivs_ok lo l.
Proof.
  induction l as [|[a b] r IH]; intros lo; cbn [ivs_okb ivs_ok]; [tauto|].
  rewrite !andb_true_iff, IH. rewrite Z.ltb_lt, Z.leb_le, Z.ltb_lt. tauto.
Qed.

Lemma wf_sidb_ok u : wf_sidb u = true <-> wf_sid u.
Proof.
  unfold wf_sidb, wf_sid. rewrite andb_true_iff, Nat.eqb_eq, wf_bytesb_ok. tauto.
Qed.

Lemma entry_okb_ok e : entry_okb e = true <-> entry_ok e.
Proof.
  unfold entry_okb, entry_ok. rewrite !andb_true_iff, wf_sidb_ok, ivs_okb_ok, negb_true_iff, Nat.eqb_neq.
  destruct (snd e); cbn [length]; intuition (try discriminate; try lia).
Qed.

Lemma keys_sortedb_ok s : keys_sortedb s = true <-> keys_sorted s.
Proof.
  induction s as [|e r IH]; cbn [keys_sortedb keys_sorted]; [tauto|].
  rewrite andb_true_iff, IH. destruct r as [|e' r']; [intuition|]. rewrite lex_ltb_ok. tauto.
Qed.

Lemma canonb_ok s : canonb s = true <-> canon s.
Proof.
  unfold canonb, canon. rewrite andb_true_iff, keys_sortedb_ok, forallb_forall, Forall_forall.
  split; intros [H1 H2]; (split; [exact H1|]); intros x Hx; apply entry_okb_ok; auto.
Qed.

Lemma den_ivsb_ok l n : den_ivsb l n = true <-> den_ivs l n.
Proof.
  unfold den_ivsb, den_ivs. rewrite existsb_exists. split.
  - intros ([a b] & Hin & H). exists a, b. cbn [fst snd] in H. split; [exact Hin|lia].
  - intros (a & b & Hin & H). exists (a, b). cbn [fst snd]. split; [exact Hin|lia].
Qed.

Lemma denb_ok s u n : denb s u n = true <-> den s u n.
Proof.
  unfold denb, den. rewrite existsb_exists. split.
  - intros ([k l] & Hin & H). cbn [fst snd] in H. apply andb_true_iff in H as [H1 H2].
    apply bytes_eqb_eq in H1. subst. exists l. split; [exact Hin|apply den_ivsb_ok; exact H2].
  - intros (l & Hin & H). exists (u, l). cbn [fst snd]. split; [exact Hin|].
    rewrite bytes_eqb_refl. apply den_ivsb_ok. exact H.
Qed.

(* ---------- canonical sets ---------- *)
Lemma canon_sorted s : canon s -> keys_sorted s.
Proof. intros [H _]. exact H. Qed.

Lemma canon_entry s k l : canon s -> In (k, l) s -> wf_sid k /\ l <> [] /\ ivs_ok 0 l.
Proof. intros [_ H] Hin. rewrite Forall_forall in H. exact (H _ Hin). Qed.

Lemma canon_lookup s k : canon s -> ivs_ok 0 (lookup k s).
Proof.
  intros H. destruct (lookup_in_or_nil k s) as [E|E].
  - rewrite E. exact I.
  - apply (canon_entry _ _ _ H E).
Qed.

Lemma canon_tail e r : canon (e :: r) -> canon r.
Proof.
  intros [H1 H2]. apply keys_sorted_cons in H1 as [_ H1]. inversion H2; subst. split; assumption.
Qed.

Lemma canon_nil : canon [].
Proof. split; [exact I|constructor]. Qed.
