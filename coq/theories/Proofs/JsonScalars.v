(* C14, first stage: every scalar (literals, integers, double, string and the
   opaque temporal / decimal values) is printed from its serialisation as the
   specification renders it. *)
From GB Require Import Base.Prelude Base.DecText Base.GoFmt Base.BytesLemmas.
From GB Require Import Model.Cell Model.Json Spec.Values Spec.EncJson Proofs.FmtPad Proofs.JsonVarlen.
From GBGen Require Import Consts.
From Coq Require Import String.
Open Scope Z_scope.

(* ---------- booleans of wf_docb ---------- *)
Ltac boolprops :=
  repeat match goal with
  | H : _ && _ = true |- _ => apply andb_true_iff in H; destruct H
  | H : in_range _ _ _ = true |- _ => unfold in_range in H
  | H : (_ <=? _) = true |- _ => apply Z.leb_le in H
  | H : (_ <? _) = true |- _ => apply Z.ltb_lt in H
  | H : (_ =? _) = true |- _ => apply Z.eqb_eq in H
  end.

(* ---------- bytes ---------- *)
Lemma len_app {A} (a b : list A) : len (a ++ b) = len a + len b.
Proof. unfold len. rewrite app_length. lia. Qed.

Lemma len_cons {A} (x : A) l : len (x :: l) = 1 + len l.
Proof. unfold len. cbn [List.length]. lia. Qed.

Lemma len_nil {A} : len (@nil A) = 0.
Proof. reflexivity. Qed.

Lemma len_nonneg {A} (l : list A) : 0 <= len l.
Proof. unfold len. lia. Qed.

Lemma len_le_enc n v : len (le_enc n v) = Z.of_nat n.
Proof. unfold len. rewrite le_enc_length. reflexivity. Qed.

Lemma le_dec_enc_mod n : forall v, le_dec (le_enc n v) = v mod 256 ^ Z.of_nat n.
Proof.
  induction n as [|n IH]; intros v.
  - cbn [le_enc le_dec]. change (256 ^ Z.of_nat 0) with 1. rewrite Z.mod_1_r. reflexivity.
  - cbn [le_enc le_dec]. rewrite IH, Nat2Z.inj_succ, Z.pow_succ_r by lia.
    assert (0 < 256 ^ Z.of_nat n) by (apply Z.pow_pos_nonneg; lia).
    rewrite Z.rem_mul_r by lia. reflexivity.
Qed.

Lemma slice0 X T n : n = List.length X -> slice (X ++ T) 0 n = Ok X.
Proof. intros ->. apply (slice_app_mid [] X T). reflexivity. Qed.

Lemma slice_mid A X T : slice (A ++ X ++ T) (List.length A) (List.length X) = Ok X.
Proof. apply slice_app_mid. reflexivity. Qed.

Lemma sliceZ_mid A X T : sliceZ (A ++ X ++ T) (len A) (len X) = Ok X.
Proof.
  unfold sliceZ. rewrite !len_app.
  pose proof (len_nonneg A). pose proof (len_nonneg X). pose proof (len_nonneg T).
  destruct (Z.leb_spec 0 (len A)); [|lia]. destruct (Z.leb_spec 0 (len X)); [|lia].
  destruct (Z.leb_spec (len A + len X) (len A + (len X + len T))); [|lia].
  cbn [andb]. unfold len. rewrite !Nat2Z.id. apply slice_mid.
Qed.

Lemma slice_fromZ_mid A T : slice_fromZ (A ++ T) (len A) = Ok T.
Proof.
  unfold slice_fromZ. rewrite len_app.
  pose proof (len_nonneg A). pose proof (len_nonneg T).
  destruct (Z.leb_spec 0 (len A)); [|lia].
  destruct (Z.leb_spec (len A) (len A + len T)); [|lia].
  cbn [andb]. unfold len, slice_from. rewrite Nat2Z.id, app_length.
  destruct (Nat.leb_spec (List.length A) (List.length A + List.length T)); [|lia].
  rewrite skipn_app_exact. reflexivity.
Qed.

(* ---------- fixed-width integers ---------- *)
Lemma mod_wrap z N : 0 < N -> - N <= z < 0 -> z mod N = z + N.
Proof. intros HN Hz. symmetry. apply (Z.mod_unique z N (-1)); lia. Qed.

Lemma i16_ok z : - 2 ^ 15 <= z < 2 ^ 15 -> i16 (z mod 2 ^ 16) = z.
Proof.
  intros H. unfold i16, sx, u16. change 65536 with (2 ^ 16). rewrite Z.mod_mod by lia.
  change (2 ^ (16 - 1)) with (2 ^ 15).
  destruct (Z_lt_le_dec z 0).
  - rewrite mod_wrap by lia. destruct (Z.ltb_spec (z + 2 ^ 16) (2 ^ 15)); lia.
  - rewrite Z.mod_small by lia. destruct (Z.ltb_spec z (2 ^ 15)); lia.
Qed.

Lemma i32_ok z : - 2 ^ 31 <= z < 2 ^ 31 -> i32 (z mod 2 ^ 32) = z.
Proof.
  intros H. unfold i32, sx, u32. change 4294967296 with (2 ^ 32). rewrite Z.mod_mod by lia.
  change (2 ^ (32 - 1)) with (2 ^ 31).
  destruct (Z_lt_le_dec z 0).
  - rewrite mod_wrap by lia. destruct (Z.ltb_spec (z + 2 ^ 32) (2 ^ 31)); lia.
  - rewrite Z.mod_small by lia. destruct (Z.ltb_spec z (2 ^ 31)); lia.
Qed.

Lemma i64_ok z : - 2 ^ 63 <= z < 2 ^ 63 -> i64 (z mod 2 ^ 64) = z.
Proof.
  intros H. unfold i64, sx, u64. change 18446744073709551616 with (2 ^ 64). rewrite Z.mod_mod by lia.
  change (2 ^ (64 - 1)) with (2 ^ 63).
  destruct (Z_lt_le_dec z 0).
  - rewrite mod_wrap by lia. destruct (Z.ltb_spec (z + 2 ^ 64) (2 ^ 63)); lia.
  - rewrite Z.mod_small by lia. destruct (Z.ltb_spec z (2 ^ 63)); lia.
Qed.

Lemma mod_mod_16_32 z : (z mod 2 ^ 32) mod 2 ^ 16 = z mod 2 ^ 16.
Proof.
  symmetry. apply Znumtheory.Zmod_div_mod; try lia. exists (2 ^ 16). reflexivity.
Qed.

(* Go's %0Nd against the specification's pad0: Proofs/FmtPad.v *)
Lemma fmt_0d_hour h : 0 <= h < 1000 -> fmt_0d 2 h = text_hour h.
Proof.
  intros H. unfold text_hour. destruct (Z.ltb_spec h 100).
  - apply fmt_0d_pad0; [lia|]. change (10 ^ Z.of_nat 2) with 100. lia.
  - unfold fmt_0d. destruct (Z.ltb_spec h 0); [lia|]. unfold lpad.
    assert (E : pad0 3 h = digs h).
    { apply pad0_digs; [lia|]. change (10 ^ Z.of_nat (3 - 1)) with 100. change (10 ^ Z.of_nat 3) with 1000. lia. }
    assert (L : List.length (digs h) = 3%nat) by (rewrite <- E; apply pad0_length).
    rewrite L. reflexivity.
Qed.

Lemma fmt_date_text y m d :
  0 <= y < 10000 -> 0 <= m < 100 -> 0 <= d < 100 -> fmt_date y m d = text_date y m d.
Proof.
  intros Hy Hm Hd. unfold fmt_date, text_date.
  rewrite (fmt_0d_pad0 4 y), (fmt_0d_pad0 2 m), (fmt_0d_pad0 2 d); try lia; auto.
Qed.

Lemma fmt_clock_text h m s :
  0 <= h < 100 -> 0 <= m < 100 -> 0 <= s < 100 -> fmt_clock h m s = text_clock h m s.
Proof.
  intros Hh Hm Hs. unfold fmt_clock, text_clock.
  rewrite (fmt_0d_pad0 2 h), (fmt_0d_pad0 2 m), (fmt_0d_pad0 2 s); try lia; auto.
Qed.

(* ---------- masks are remainders ---------- *)
Lemma band_ones x k : 0 <= k -> band x (2 ^ k - 1) = x mod 2 ^ k.
Proof. intros Hk. unfold band. rewrite <- Z.land_ones by lia. rewrite Z.ones_equiv. reflexivity. Qed.

Lemma band_31 x : band x 31 = x mod 32. Proof. apply (band_ones x 5). lia. Qed.
Lemma band_63 x : band x 63 = x mod 64. Proof. apply (band_ones x 6). lia. Qed.
Lemma band_1023 x : band x 1023 = x mod 1024. Proof. apply (band_ones x 10). lia. Qed.
Lemma band_131071 x : band x 131071 = x mod 131072. Proof. apply (band_ones x 17). lia. Qed.
Lemma band_16777215 x : band x 16777215 = x mod 16777216. Proof. apply (band_ones x 24). lia. Qed.

Lemma shr_24 x : shr x 24 = x / 16777216. Proof. reflexivity. Qed.
Lemma shr_22 x : shr x 22 = x / 4194304. Proof. reflexivity. Qed.
Lemma shr_17 x : shr x 17 = x / 131072. Proof. reflexivity. Qed.
Lemma shr_12 x : shr x 12 = x / 4096. Proof. reflexivity. Qed.
Lemma shr_6 x : shr x 6 = x / 64. Proof. reflexivity. Qed.

Ltac unmask := rewrite ?band_31, ?band_63, ?band_1023, ?band_131071, ?band_16777215,
                       ?shr_24, ?shr_22, ?shr_17, ?shr_12, ?shr_6.

(* quotient and remainder of a packed pair *)
Lemma div_pack a b k : 0 <= b < k -> (a * k + b) / k = a.
Proof. intros H. symmetry. apply (Z.div_unique_pos _ _ a b); lia. Qed.
Lemma mod_pack a b k : 0 <= b < k -> (a * k + b) mod k = b.
Proof. intros H. symmetry. apply (Z.mod_unique_pos _ _ a b); lia. Qed.

(* fields of the packed DATETIME *)
Lemma datetime_fields y m d h mi s us :
  0 <= y < 10000 -> 0 <= m < 13 -> 0 <= d < 32 -> 0 <= h < 32 -> 0 <= mi < 64 -> 0 <= s < 64 ->
  0 <= us < 16777216 ->
  let raw := pack_datetime y m d h mi s us in
  let v := raw / 16777216 in
  0 <= raw < 2 ^ 63 /\
  (v / 4194304) mod 131072 / 13 = y /\ ((v / 4194304) mod 131072) mod 13 = m /\
  (v / 131072) mod 32 = d /\ (v / 4096) mod 32 = h /\ (v / 64) mod 64 = mi /\ v mod 64 = s /\
  raw mod 16777216 = us.
Proof.
  intros Hy Hm Hd Hh Hmi Hs Hus raw v.
  assert (Ev : v = ((y * 13 + m) * 32 + d) * 131072 + (h * 4096 + mi * 64 + s)).
  { unfold v, raw, pack_datetime. apply div_pack. lia. }
  assert (Eym : v / 4194304 = y * 13 + m).
  { rewrite Ev. replace (((y * 13 + m) * 32 + d) * 131072 + (h * 4096 + mi * 64 + s))
      with ((y * 13 + m) * 4194304 + (d * 131072 + (h * 4096 + mi * 64 + s))) by ring.
    apply div_pack. lia. }
  assert (Eymd : v / 131072 = (y * 13 + m) * 32 + d).
  { rewrite Ev. apply div_pack. lia. }
  assert (Eh : v / 4096 = (((y * 13 + m) * 32 + d) * 32 + h)).
  { rewrite Ev. replace (((y * 13 + m) * 32 + d) * 131072 + (h * 4096 + mi * 64 + s))
      with ((((y * 13 + m) * 32 + d) * 32 + h) * 4096 + (mi * 64 + s)) by ring.
    apply div_pack. lia. }
  assert (Emi : v / 64 = ((((y * 13 + m) * 32 + d) * 32 + h) * 64 + mi)).
  { rewrite Ev. replace (((y * 13 + m) * 32 + d) * 131072 + (h * 4096 + mi * 64 + s))
      with (((((y * 13 + m) * 32 + d) * 32 + h) * 64 + mi) * 64 + s) by ring.
    apply div_pack. lia. }
  repeat split.
  - unfold raw, pack_datetime. lia.
  - unfold raw, pack_datetime. change (2 ^ 63) with 9223372036854775808. lia.
  - rewrite Eym. rewrite (Z.mod_small (y * 13 + m) 131072) by lia. apply div_pack. lia.
  - rewrite Eym. rewrite (Z.mod_small (y * 13 + m) 131072) by lia. apply mod_pack. lia.
  - rewrite Eymd. apply mod_pack. lia.
  - rewrite Eh. apply mod_pack. lia.
  - rewrite Emi. apply mod_pack. lia.
  - rewrite Ev. replace (((y * 13 + m) * 32 + d) * 131072 + (h * 4096 + mi * 64 + s))
      with (((((y * 13 + m) * 32 + d) * 32 + h) * 64 + mi) * 64 + s) by ring.
    apply mod_pack. lia.
  - unfold raw, pack_datetime. apply mod_pack. lia.
Qed.

(* fields of the packed TIME magnitude *)
Lemma time_fields h mi s us :
  0 <= h < 1024 -> 0 <= mi < 64 -> 0 <= s < 64 -> 0 <= us < 16777216 ->
  let raw := (h * 4096 + mi * 64 + s) * 16777216 + us in
  let v := raw / 16777216 in
  0 <= raw < 2 ^ 62 /\
  (v / 4096) mod 1024 = h /\ (v / 64) mod 64 = mi /\ v mod 64 = s /\ raw mod 16777216 = us.
Proof.
  intros Hh Hmi Hs Hus raw v.
  assert (Ev : v = h * 4096 + mi * 64 + s) by (unfold v, raw; apply div_pack; lia).
  repeat split.
  - unfold raw. lia.
  - unfold raw. change (2 ^ 62) with 4611686018427387904. lia.
  - rewrite Ev. replace (h * 4096 + mi * 64 + s) with (h * 4096 + (mi * 64 + s)) by ring.
    rewrite div_pack by lia. apply Z.mod_small. lia.
  - rewrite Ev. replace (h * 4096 + mi * 64 + s) with ((h * 64 + mi) * 64 + s) by ring.
    rewrite div_pack by lia. apply mod_pack. lia.
  - rewrite Ev. replace (h * 4096 + mi * 64 + s) with ((h * 64 + mi) * 64 + s) by ring.
    apply mod_pack. lia.
  - unfold raw. apply mod_pack. lia.
Qed.

Lemma le8_u64 v : 0 <= v < 2 ^ 64 -> u64 (le_dec (le_enc 8 v)) = v.
Proof.
  intros H. rewrite le_dec_enc_mod. change (256 ^ Z.of_nat 8) with (2 ^ 64).
  unfold u64. change 18446744073709551616 with (2 ^ 64). rewrite Z.mod_mod by lia.
  apply Z.mod_small. lia.
Qed.

(* the DECIMAL cell lemma (C11's statement), used for opaque decimals *)
Definition decimal_cell_spec : Prop :=
  forall p s neg ip fp pre rest,
    wf_type (TNewDecimal p s) = true ->
    wf_value (TNewDecimal p s) false (VDecimal neg ip fp) = true ->
    decode_decimal (pre ++ enc_decimal p s neg ip fp ++ rest) (List.length pre) (p * 256 + s)
    = Ok (Some (text_decimal neg ip fp), len (enc_decimal p s neg ip fp)).

Definition is_scalar (d : jdoc) : Prop :=
  match d with JObj _ _ | JArr _ _ => False | _ => True end.

Section Scalars.
Variable efmt : Z -> bytes.
Hypothesis decimal_ok : decimal_cell_spec.

(* what the printer must produce for a value at top level / nested *)
Definition render_gen (top : bool) (d : jdoc) : bytes :=
  if top then render_top efmt d else render efmt d.

Lemma print_date_ok y m d top :
  0 <= y < 10000 -> 0 <= m < 13 -> 0 <= d < 32 ->
  print_date (le_enc 8 (pack_datetime y m d 0 0 0 0)) top
  = cast_json top (str "CAST('" ++ text_date y m d ++ str "' AS DATE)").
Proof.
  intros Hy Hm Hd.
  destruct (datetime_fields y m d 0 0 0 0) as (Hr & Fy & Fm & Fd & _); try lia.
  cbv zeta in Hr, Fy, Fm, Fd.
  unfold print_date. rewrite le8_u64 by (assert (2 ^ 63 < 2 ^ 64) by (vm_compute; reflexivity); lia).
  cbv zeta. unmask. rewrite Fy, Fm, Fd. rewrite fmt_date_text by lia. reflexivity.
Qed.

Lemma print_datetime_ok y m d h mi s us top :
  0 <= y < 10000 -> 0 <= m < 13 -> 0 <= d < 32 -> 0 <= h < 24 -> 0 <= mi < 60 -> 0 <= s < 60 ->
  0 <= us < 1000000 ->
  print_datetime (le_enc 8 (pack_datetime y m d h mi s us)) top
  = cast_json top (str "CAST('" ++ text_date y m d ++ [32] ++ text_clock h mi s ++ text_micro us ++
                   str "' AS DATETIME(6))").
Proof.
  intros Hy Hm Hd Hh Hmi Hs Hus.
  destruct (datetime_fields y m d h mi s us) as (Hr & Fy & Fm & Fd & Fh & Fmi & Fs & Fus); try lia.
  cbv zeta in Hr, Fy, Fm, Fd, Fh, Fmi, Fs, Fus.
  unfold print_datetime. rewrite le8_u64 by (assert (2 ^ 63 < 2 ^ 64) by (vm_compute; reflexivity); lia).
  cbv zeta. unmask. rewrite Fy, Fm, Fd, Fh, Fmi, Fs, Fus.
  rewrite fmt_date_text, fmt_clock_text by lia. unfold text_micro.
  rewrite (fmt_0d_pad0 6 us) by (try lia; change (10 ^ Z.of_nat 6) with 1000000; lia).
  reflexivity.
Qed.

Lemma print_time_ok neg h mi s us top :
  0 <= h < 839 -> 0 <= mi < 60 -> 0 <= s < 60 -> 0 <= us < 1000000 ->
  (neg = true -> 0 < h + mi + s + us) ->
  print_time (le_enc 8 (pack_time neg h mi s us mod 2 ^ 64)) top
  = cast_json top (str "CAST('" ++ (if neg then [45] else []) ++ text_hour h ++ [58] ++ pad0 2 mi ++ [58] ++
                   pad0 2 s ++ text_micro us ++ str "' AS TIME(6))").
Proof.
  intros Hh Hmi Hs Hus Hneg.
  destruct (time_fields h mi s us) as (Hr & Fh & Fmi & Fs & Fus); try lia.
  cbv zeta in Hr, Fh, Fmi, Fs, Fus.
  set (mag := (h * 4096 + mi * 64 + s) * 16777216 + us) in *.
  assert (H62 : 2 ^ 62 < 2 ^ 63) by (vm_compute; reflexivity).
  unfold print_time.
  rewrite le_dec_enc_mod. change (256 ^ Z.of_nat 8) with (2 ^ 64). rewrite Z.mod_mod by lia.
  assert (Hraw : (let raw0 := i64 (pack_time neg h mi s us mod 2 ^ 64) in
                  ((raw0 <? 0) = neg) /\ (if raw0 <? 0 then i64 (- raw0) else raw0) = mag)).
  { cbv zeta. unfold pack_time. fold mag. destruct neg.
    - assert (0 < mag) by (specialize (Hneg eq_refl); unfold mag; lia).
      rewrite i64_ok by lia. destruct (Z.ltb_spec (- mag) 0); [|lia].
      split; [reflexivity|]. replace (- - mag) with mag by lia. apply i64_small. lia.
    - rewrite i64_ok by lia. destruct (Z.ltb_spec mag 0); [lia|]. split; reflexivity. }
  cbv zeta in Hraw. destruct Hraw as [Hn Hm].
  cbv zeta. rewrite Hm, Hn. unmask. rewrite Fh, Fmi, Fs, Fus.
  unfold fmt_clock. rewrite fmt_0d_hour by lia.
  rewrite (fmt_0d_pad0 2 mi), (fmt_0d_pad0 2 s) by (try lia; change (10 ^ Z.of_nat 2) with 100; lia).
  unfold text_micro.
  rewrite (fmt_0d_pad0 6 us) by (try lia; change (10 ^ Z.of_nat 6) with 1000000; lia).
  rewrite <- !app_assoc. reflexivity.
Qed.

(* strings *)
Lemma print_string_ok s rest top :
  0 <= len s < 2 ^ 32 ->
  print_string (enc_varlen (len s) ++ s ++ rest) top
  = Ok (if top then str "'""" ++ s ++ str """'" else 39 :: s ++ [39]).
Proof.
  intros Hs. unfold print_string.
  pose proof (varlen_roundtrip (len s) [] (s ++ rest) ltac:(lia)) as Hv.
  cbn [app List.length Nat.add] in Hv. rewrite Hv. cbn [bind].
  change (Z.of_nat (List.length (enc_varlen (len s)))) with (len (enc_varlen (len s))).
  rewrite sliceZ_mid. reflexivity.
Qed.

(* the common prefix of printJSONOpaque *)
Lemma opaque_reads ft payload rest :
  0 <= len payload < 2 ^ 32 ->
  let d := opaque ft payload ++ rest in
  let pos := S (List.length (enc_varlen (len payload))) in
  at_ d 0 = Ok ft /\ read_varlen d 1 = Ok (len payload, pos) /\
  sliceZ d (Z.of_nat pos) (len payload) = Ok payload /\
  slice d pos (List.length payload) = Ok payload /\
  slice_from d pos = Ok (payload ++ rest).
Proof.
  intros Hp d pos. unfold d, pos, opaque.
  repeat split.
  - pose proof (varlen_roundtrip (len payload) [ft] (payload ++ rest) ltac:(lia)) as Hv.
    cbn [app List.length Nat.add] in Hv. cbn [app]. rewrite <- app_assoc. exact Hv.
  - set (A := ft :: enc_varlen (len payload)).
    replace ((ft :: enc_varlen (len payload) ++ payload) ++ rest) with (A ++ payload ++ rest)
      by (unfold A; cbn [app]; rewrite <- app_assoc; reflexivity).
    change (Z.of_nat (S (List.length (enc_varlen (len payload))))) with (len A).
    apply sliceZ_mid.
  - set (A := ft :: enc_varlen (len payload)).
    replace ((ft :: enc_varlen (len payload) ++ payload) ++ rest) with (A ++ payload ++ rest)
      by (unfold A; cbn [app]; rewrite <- app_assoc; reflexivity).
    change (S (List.length (enc_varlen (len payload)))) with (List.length A).
    apply slice_mid.
  - set (A := ft :: enc_varlen (len payload)).
    replace ((ft :: enc_varlen (len payload) ++ payload) ++ rest) with (A ++ payload ++ rest)
      by (unfold A; cbn [app]; rewrite <- app_assoc; reflexivity).
    change (S (List.length (enc_varlen (len payload)))) with (List.length A).
    unfold slice_from. rewrite app_length.
    destruct (Nat.leb_spec (List.length A) (List.length A + List.length (payload ++ rest))); [|lia].
    rewrite skipn_app_exact. reflexivity.
Qed.

Lemma len8 v : len (le_enc 8 v) = 8.
Proof. rewrite len_le_enc. reflexivity. Qed.

Lemma print_opaque_date y m d rest top :
  0 <= y < 10000 -> 0 <= m < 13 -> 0 <= d < 32 ->
  print_opaque (body (JDate y m d) ++ rest) top = Ok (render_gen top (JDate y m d)).
Proof.
  intros Hy Hm Hd. cbn [body].
  set (payload := le_enc 8 (pack_datetime y m d 0 0 0 0)).
  assert (Hl : len payload = 8) by apply len8.
  destruct (opaque_reads 10 payload rest) as (H0 & H1 & H2 & H3 & _); [rewrite Hl; lia|].
  cbv zeta in H0, H1, H2, H3.
  unfold print_opaque. rewrite H0. cbn [bind]. rewrite H1. cbn [bind].
  change ((10 =? K_TypeDate) || (10 =? K_TypeTime) || (10 =? K_TypeDateTime)) with true. cbv iota.
  rewrite H2. cbn [bind].
  replace 8%nat with (List.length payload) by (unfold payload; apply le_enc_length).
  rewrite H3. cbn [bind]. change (10 =? K_TypeDate) with true. cbv iota.
  unfold payload. rewrite print_date_ok by lia.
  unfold render_gen, cast_json. destruct top; reflexivity.
Qed.

Lemma print_opaque_time neg h mi s us rest top :
  0 <= h < 839 -> 0 <= mi < 60 -> 0 <= s < 60 -> 0 <= us < 1000000 ->
  (neg = true -> 0 < h + mi + s + us) ->
  print_opaque (body (JTime neg h mi s us) ++ rest) top = Ok (render_gen top (JTime neg h mi s us)).
Proof.
  intros Hh Hmi Hs Hus Hneg. cbn [body].
  set (payload := le_enc 8 (pack_time neg h mi s us mod 2 ^ 64)).
  assert (Hl : len payload = 8) by apply len8.
  destruct (opaque_reads 11 payload rest) as (H0 & H1 & H2 & H3 & _); [rewrite Hl; lia|].
  cbv zeta in H0, H1, H2, H3.
  unfold print_opaque. rewrite H0. cbn [bind]. rewrite H1. cbn [bind].
  change ((11 =? K_TypeDate) || (11 =? K_TypeTime) || (11 =? K_TypeDateTime)) with true. cbv iota.
  rewrite H2. cbn [bind].
  replace 8%nat with (List.length payload) by (unfold payload; apply le_enc_length).
  rewrite H3. cbn [bind]. change (11 =? K_TypeDate) with false. change (11 =? K_TypeTime) with true. cbv iota.
  unfold payload. rewrite print_time_ok by (auto; lia).
  unfold render_gen, cast_json. destruct top; reflexivity.
Qed.

Lemma print_opaque_datetime y m d h mi s us rest top :
  0 <= y < 10000 -> 0 <= m < 13 -> 0 <= d < 32 -> 0 <= h < 24 -> 0 <= mi < 60 -> 0 <= s < 60 ->
  0 <= us < 1000000 ->
  print_opaque (body (JDateTime y m d h mi s us) ++ rest) top
  = Ok (render_gen top (JDateTime y m d h mi s us)).
Proof.
  intros Hy Hm Hd Hh Hmi Hs Hus. cbn [body].
  set (payload := le_enc 8 (pack_datetime y m d h mi s us)).
  assert (Hl : len payload = 8) by apply len8.
  destruct (opaque_reads 12 payload rest) as (H0 & H1 & H2 & H3 & _); [rewrite Hl; lia|].
  cbv zeta in H0, H1, H2, H3.
  unfold print_opaque. rewrite H0. cbn [bind]. rewrite H1. cbn [bind].
  change ((12 =? K_TypeDate) || (12 =? K_TypeTime) || (12 =? K_TypeDateTime)) with true. cbv iota.
  rewrite H2. cbn [bind].
  replace 8%nat with (List.length payload) by (unfold payload; apply le_enc_length).
  rewrite H3. cbn [bind]. change (12 =? K_TypeDate) with false. change (12 =? K_TypeTime) with false. cbv iota.
  unfold payload. rewrite print_datetime_ok by lia.
  unfold render_gen, cast_json. destruct top; reflexivity.
Qed.

Lemma dec_len_bound p s neg ip fp :
  wf_type (TNewDecimal p s) = true -> 0 <= len (enc_decimal p s neg ip fp) <= 64.
Proof.
  intros Hty. split; [apply len_nonneg|].
  assert (Hraw : len (enc_decimal_raw p s ip fp) <= 64).
  { unfold enc_decimal_raw. cbn [wf_type] in Hty. boolprops.
    assert (Hg : forall n l, List.length (groups9 n l) = (4 * n)%nat).
    { induction n as [|n IH]; intros l; cbn [groups9]; [reflexivity|].
      rewrite app_length, be_enc_length, IH. lia. }
    unfold len. rewrite !app_length, !be_enc_length, !Hg.
    assert (Hd2 : forall k, 0 <= k < 9 -> 0 <= dig2bytes_spec k <= 4).
    { intros k Hk. unfold dig2bytes_spec.
      destruct k as [|q|q]; try lia. do 4 (destruct q as [q|q|]; try lia). }
    pose proof (Hd2 ((p - s) mod 9) ltac:(apply Z.mod_pos_bound; lia)).
    pose proof (Hd2 (s mod 9) ltac:(apply Z.mod_pos_bound; lia)).
    assert ((p - s) / 9 < 8) by (apply Z.div_lt_upper_bound; lia).
    assert (0 <= (p - s) / 9) by (apply Z.div_pos; lia).
    assert (s / 9 < 4) by (apply Z.div_lt_upper_bound; lia).
    assert (0 <= s / 9) by (apply Z.div_pos; lia).
    lia. }
  unfold enc_decimal. destruct (enc_decimal_raw p s ip fp) as [|b0 r] eqn:E.
  - rewrite len_nil. lia.
  - destruct neg; [unfold len in *; cbn [List.length] in *; rewrite map_length|];
      unfold len in *; cbn [List.length] in *; lia.
Qed.

Lemma print_opaque_decimal p s neg ip fp rest top :
  wf_type (TNewDecimal p s) = true ->
  wf_value (TNewDecimal p s) false (VDecimal neg ip fp) = true ->
  print_opaque (body (JDecimal p s neg ip fp) ++ rest) top
  = Ok (render_gen top (JDecimal p s neg ip fp)).
Proof.
  intros Hty Hval. cbn [body].
  set (enc := enc_decimal p s neg ip fp).
  set (payload := p :: s :: enc).
  pose proof (dec_len_bound p s neg ip fp Hty) as Hel. fold enc in Hel.
  assert (Hl : len payload = 2 + len enc) by (unfold payload; rewrite !len_cons; lia).
  destruct (opaque_reads 246 payload rest) as (H0 & H1 & H2 & _ & H4).
  { rewrite Hl. assert (66 < 2 ^ 32) by (vm_compute; reflexivity). lia. }
  cbv zeta in H0, H1, H2, H4.
  unfold print_opaque. rewrite H0. cbn [bind]. rewrite H1. cbn [bind].
  change ((246 =? K_TypeDate) || (246 =? K_TypeTime) || (246 =? K_TypeDateTime)) with false. cbv iota.
  change (246 =? K_TypeNewDecimal) with true. cbv iota.
  rewrite H2. cbn [bind]. rewrite H4. cbn [bind].
  unfold print_decimal, payload. cbn [at_ nth_error bind].
  pose proof Hty as Hty'. cbn [wf_type] in Hty'. boolprops.
  assert (Hmeta : u16 (u16 (p * 256) + s) = p * 256 + s).
  { unfold u16. rewrite (Z.mod_small (p * 256)) by lia. apply Z.mod_small. lia. }
  rewrite Hmeta.
  change ((p :: s :: enc) ++ rest) with ([p; s] ++ enc ++ rest).
  change 2%nat with (List.length [p; s]).
  unfold enc. rewrite (decimal_ok p s neg ip fp [p; s] rest Hty Hval).
  rewrite !fmt_d_nonneg by lia.
  unfold render_gen, cast_json. destruct top; cbn [render render_top]; rewrite <- ?app_assoc; reflexivity.
Qed.

(* ---------- the value switch on scalars ---------- *)
Lemma vd_literal rec d top : value_dispatch efmt rec 4 d top = (do b <- at_ d 0; print_literal b top).
Proof. reflexivity. Qed.
Lemma vd_int16 rec d top : value_dispatch efmt rec 5 d top = (do s <- slice d 0 2; Ok (print_int16 s top)).
Proof. reflexivity. Qed.
Lemma vd_uint16 rec d top : value_dispatch efmt rec 6 d top = (do s <- slice d 0 2; Ok (print_uint16 s top)).
Proof. reflexivity. Qed.
Lemma vd_int32 rec d top : value_dispatch efmt rec 7 d top = (do s <- slice d 0 4; Ok (print_int32 s top)).
Proof. reflexivity. Qed.
Lemma vd_uint32 rec d top : value_dispatch efmt rec 8 d top = (do s <- slice d 0 4; Ok (print_uint32 s top)).
Proof. reflexivity. Qed.
Lemma vd_int64 rec d top : value_dispatch efmt rec 9 d top = (do s <- slice d 0 8; Ok (print_int64 s top)).
Proof. reflexivity. Qed.
Lemma vd_uint64 rec d top : value_dispatch efmt rec 10 d top = (do s <- slice d 0 8; Ok (print_uint64 s top)).
Proof. reflexivity. Qed.
Lemma vd_double rec d top : value_dispatch efmt rec 11 d top = (do s <- slice d 0 8; Ok (print_double efmt s top)).
Proof. reflexivity. Qed.
Lemma vd_string rec d top : value_dispatch efmt rec 12 d top = print_string d top.
Proof. reflexivity. Qed.
Lemma vd_opaque rec d top : value_dispatch efmt rec 15 d top = print_opaque d top.
Proof. reflexivity. Qed.

Lemma q_render top s : q top s = if top then 39 :: s ++ [39] else s.
Proof. reflexivity. Qed.

(* integers as read back from their n-byte little-endian form *)
Lemma int_readback n z X :
  X = le_enc n (z mod 256 ^ Z.of_nat n) -> le_dec X = z mod 256 ^ Z.of_nat n.
Proof.
  intros ->. rewrite le_dec_enc_mod. apply Z.mod_mod.
  assert (0 < 256 ^ Z.of_nat n) by (apply Z.pow_pos_nonneg; lia). lia.
Qed.

Theorem scalar_ok rec d rest top :
  is_scalar d -> wf_doc d ->
  value_dispatch efmt rec (tag d) (body d ++ rest) top = Ok (render_gen top d).
Proof.
  intros Hsc Hwf. unfold wf_doc in Hwf.
  destruct d; cbn [is_scalar] in Hsc; try contradiction; cbn [tag]; cbn [wf_docb] in Hwf.
  - (* null *) rewrite vd_literal. cbn [body app at_ nth_error bind]. unfold render_gen. destruct top; reflexivity.
  - rewrite vd_literal. cbn [body app at_ nth_error bind]. unfold render_gen. destruct top; reflexivity.
  - rewrite vd_literal. cbn [body app at_ nth_error bind]. unfold render_gen. destruct top; reflexivity.
  - (* int16 *) boolprops. rewrite vd_int16. cbn [body].
    rewrite slice0 by (rewrite le_enc_length; reflexivity). cbn [bind].
    unfold print_int16. rewrite (int_readback 2 z) by reflexivity.
    change (256 ^ Z.of_nat 2) with (2 ^ 16). rewrite i16_ok by lia.
    unfold render_gen. destruct top; reflexivity.
  - (* uint16 *) boolprops. rewrite vd_uint16. cbn [body].
    rewrite slice0 by (rewrite le_enc_length; reflexivity). cbn [bind].
    unfold print_uint16. rewrite (int_readback 2 z) by reflexivity.
    change (256 ^ Z.of_nat 2) with (2 ^ 16). unfold u16. change 65536 with (2 ^ 16).
    rewrite Z.mod_mod by lia. rewrite Z.mod_small by lia.
    unfold render_gen. destruct top; reflexivity.
  - (* int32 *) boolprops. rewrite vd_int32. cbn [body].
    rewrite slice0 by (rewrite le_enc_length; reflexivity). cbn [bind].
    unfold print_int32. rewrite (int_readback 4 z) by reflexivity.
    change (256 ^ Z.of_nat 4) with (2 ^ 32). rewrite i32_ok by lia.
    unfold render_gen. destruct top; reflexivity.
  - (* uint32 *) boolprops. rewrite vd_uint32. cbn [body].
    rewrite slice0 by (rewrite le_enc_length; reflexivity). cbn [bind].
    unfold print_uint32. rewrite (int_readback 4 z) by reflexivity.
    change (256 ^ Z.of_nat 4) with (2 ^ 32). unfold u32. change 4294967296 with (2 ^ 32).
    rewrite Z.mod_mod by lia. rewrite Z.mod_small by lia.
    unfold render_gen. destruct top; reflexivity.
  - (* int64 *) boolprops. rewrite vd_int64. cbn [body].
    rewrite slice0 by (rewrite le_enc_length; reflexivity). cbn [bind].
    unfold print_int64. rewrite (int_readback 8 z) by reflexivity.
    change (256 ^ Z.of_nat 8) with (2 ^ 64). rewrite i64_ok by lia.
    unfold render_gen. destruct top; reflexivity.
  - (* uint64 *) boolprops. rewrite vd_uint64. cbn [body].
    rewrite slice0 by (rewrite le_enc_length; reflexivity). cbn [bind].
    unfold print_uint64. rewrite (int_readback 8 z) by reflexivity.
    change (256 ^ Z.of_nat 8) with (2 ^ 64). unfold u64. change 18446744073709551616 with (2 ^ 64).
    rewrite Z.mod_mod by lia. rewrite Z.mod_small by lia.
    unfold render_gen. destruct top; reflexivity.
  - (* double *) boolprops. rewrite vd_double. cbn [body].
    rewrite slice0 by (rewrite le_enc_length; reflexivity). cbn [bind].
    unfold print_double. rewrite le8_u64 by lia.
    unfold render_gen. destruct top; reflexivity.
  - (* string *) boolprops. rewrite vd_string. cbn [body]. rewrite <- app_assoc.
    rewrite print_string_ok by (pose proof (len_nonneg s); lia).
    unfold render_gen. destruct top; reflexivity.
  - (* date *) boolprops. rewrite vd_opaque. apply print_opaque_date; lia.
  - (* time *) boolprops. rewrite vd_opaque. apply print_opaque_time; try lia.
    intros ->. cbn [negb orb] in *. boolprops. lia.
  - (* datetime *) boolprops. rewrite vd_opaque. apply print_opaque_datetime; lia.
  - (* decimal *) boolprops. rewrite vd_opaque. apply print_opaque_decimal; assumption.
Qed.

End Scalars.
