(* C09: one row image.  The length walk of Rows (skip_image / read_image) advances exactly
   over the encoded cells, and the column-by-column decoder of the streamer
   (image_columns / image_of = get{Values,Identifies}FromRow) consumes the image exactly and
   yields the expected cell for every column. *)
From GB Require Import Base.Prelude Base.BytesLemmas Model.Header Model.Events Model.Cell Model.Rbr Model.Streamer.
From GB Require Import Spec.EncHeader Spec.Values Spec.EncEvent Spec.Expect.
From GB Require Import Proofs.CellCommon Proofs.BitmapProofs Proofs.EventFrame.
From GBGen Require Import Consts.
From Coq Require Import ZifyBool ZifyNat.
Open Scope Z_scope.
Ltac Zify.zify_post_hook ::= Z.div_mod_to_equations.

(* ---------- presence / NULL bit lists ---------- *)
Definition is_present (cv : cellv) : bool := match cv with CAbsent => false | _ => true end.
Definition null_bit (cv : cellv) : list bool :=
  match cv with CAbsent => [] | CNull => [true] | CVal _ => [false] end.

Lemma present_bits_app a b : present_bits (a ++ b) = present_bits a ++ present_bits b.
Proof. apply map_app. Qed.

Lemma null_bits_app a b : null_bits (a ++ b) = null_bits a ++ null_bits b.
Proof. apply flat_map_app. Qed.

Lemma present_bits_length img : length (present_bits img) = length img.
Proof. apply map_length. Qed.

Lemma null_bits_count img : length (null_bits img) = count_true (present_bits img).
Proof.
  unfold count_true. induction img as [|cv img IH]; [reflexivity|].
  unfold null_bits, present_bits in *. cbn [flat_map map filter]. rewrite app_length, IH.
  destruct cv; reflexivity.
Qed.

Lemma bit_present pad imgA cv imgB :
  bit (expect_bitmap pad (present_bits (imgA ++ cv :: imgB))) (length imgA) = Ok (is_present cv).
Proof.
  rewrite bitmap_bit_ok by (rewrite present_bits_length, app_length; cbn [length]; lia).
  rewrite present_bits_app. rewrite app_nth2 by (rewrite present_bits_length; lia).
  rewrite present_bits_length, Nat.sub_diag. reflexivity.
Qed.

Lemma bit_null pad imgA cv imgB b : null_bit cv = [b] ->
  bit (expect_bitmap pad (null_bits (imgA ++ cv :: imgB))) (length (null_bits imgA)) = Ok b.
Proof.
  intros Hb.
  assert (E : null_bits (imgA ++ cv :: imgB) = null_bits imgA ++ b :: null_bits imgB).
  { rewrite null_bits_app. f_equal. unfold null_bits at 1. cbn [flat_map].
    change (match cv with CAbsent => [] | CNull => [true] | CVal _ => [false] end) with (null_bit cv).
    rewrite Hb. reflexivity. }
  rewrite E. rewrite bitmap_bit_ok by (rewrite app_length; cbn [length]; lia).
  rewrite app_nth2 by lia. rewrite Nat.sub_diag. reflexivity.
Qed.

Lemma null_bits_snoc imgA cv : length (null_bits (imgA ++ [cv])) = (length (null_bits imgA) + length (null_bit cv))%nat.
Proof.
  rewrite null_bits_app, app_length. f_equal. unfold null_bits. cbn [flat_map]. rewrite app_nil_r.
  destruct cv; reflexivity.
Qed.

Lemma Forall2_len {A B} (R : A -> B -> Prop) l1 l2 : Forall2 R l1 l2 -> length l1 = length l2.
Proof. induction 1; cbn [length]; congruence. Qed.

Lemma snoc_assoc {A} (a : list A) x b : a ++ x :: b = (a ++ [x]) ++ b.
Proof. rewrite <- app_assoc. reflexivity. Qed.

Lemma nth_error_mid {A} (a : list A) x b : nth_error (a ++ x :: b) (length a) = Some x.
Proof. rewrite nth_error_app2 by lia. rewrite Nat.sub_diag. reflexivity. Qed.

(* ---------- the length walk ---------- *)
(* what the walk needs from a present non-NULL cell: the length rule gives the encoded size *)
Definition len_fine (ty : coltype) (cv : cellv) : Prop :=
  match cv with
  | CVal v => forall pre rest,
      cell_length (pre ++ enc_cell ty v ++ rest) (length pre) (code_of ty) (meta_of ty) = Ok (len (enc_cell ty v))
  | _ => True
  end.

Section Walk.
Variables pc pn : Z.     (* padding patterns of the presence bitmap and of the NULL bitmap: arbitrary *)
Variable tm : table_map.
Variable tys : list coltype.
Variable img : list cellv.
Hypothesis Htypes : tm_types tm = map code_of tys.
Hypothesis Hmeta : tm_meta tm = map meta_of tys.

Lemma skip_image_suffix tysB imgB : Forall2 len_fine tysB imgB ->
  forall tysA imgA pre rest,
  tys = tysA ++ tysB -> img = imgA ++ imgB -> length tysA = length imgA ->
  skip_image (length tysB) tm (expect_bitmap pc (present_bits img)) (expect_bitmap pn (null_bits img))
             (pre ++ image_cells tysB imgB ++ rest) (length tysA) (length (null_bits imgA)) (length pre)
  = Ok (length pre + length (image_cells tysB imgB))%nat.
Proof.
  induction 1 as [|ty cv tysB imgB Hf HF IH]; intros tysA imgA pre rest Et Ei El.
  - cbn [length skip_image image_cells]. f_equal. lia.
  - cbn [length skip_image].
    rewrite Ei at 1. rewrite El, bit_present. cbn [bind].
    assert (Et' : tys = (tysA ++ [ty]) ++ tysB) by (rewrite <- snoc_assoc; exact Et).
    assert (Ei' : img = (imgA ++ [cv]) ++ imgB) by (rewrite <- snoc_assoc; exact Ei).
    assert (El' : length (tysA ++ [ty]) = length (imgA ++ [cv])) by (rewrite !app_length; cbn [length]; lia).
    assert (ES : S (length imgA) = length (tysA ++ [ty])) by (rewrite app_length; cbn [length]; lia).
    destruct cv as [| |v]; cbn [is_present negb image_cells].
    + (* absent *)
      rewrite ES. specialize (IH (tysA ++ [ty]) (imgA ++ [CAbsent]) pre rest Et' Ei' El').
      rewrite null_bits_snoc in IH. cbn [null_bit length] in IH. rewrite Nat.add_0_r in IH. exact IH.
    + (* NULL *)
      rewrite Ei at 1. rewrite (bit_null pn imgA CNull imgB true eq_refl). cbn [bind].
      rewrite ES. specialize (IH (tysA ++ [ty]) (imgA ++ [CNull]) pre rest Et' Ei' El').
      rewrite null_bits_snoc in IH. cbn [null_bit length] in IH. rewrite Nat.add_1_r in IH. exact IH.
    + (* value *)
      rewrite Ei at 1. rewrite (bit_null pn imgA (CVal v) imgB false eq_refl). cbn [bind].
      rewrite Htypes, Hmeta, Et, !map_app. cbn [map]. rewrite <- El.
      replace (length tysA) with (length (map code_of tysA)) at 1 by apply map_length.
      rewrite at_mid. cbn [bind].
      replace (length tysA) with (length (map meta_of tysA)) at 1 by apply map_length.
      rewrite nth_error_mid.
      rewrite <- app_assoc. cbn [len_fine] in Hf. rewrite Hf. cbn [bind].
      pose proof (len_nonneg (enc_cell ty v)) as L0.
      destruct (Z.ltb_spec (len (enc_cell ty v)) 0) as [L|_]; [lia|].
      assert (EP : (length pre + Z.to_nat (Z.min (len (enc_cell ty v))
                      (len (pre ++ enc_cell ty v ++ image_cells tysB imgB ++ rest) + 1)))%nat
                   = length (pre ++ enc_cell ty v)).
      { rewrite !len_app. rewrite app_length. unfold len in *. lia. }
      rewrite EP. rewrite El, ES.
      specialize (IH (tysA ++ [ty]) (imgA ++ [CVal v]) (pre ++ enc_cell ty v) rest Et' Ei' El').
      rewrite null_bits_snoc in IH. cbn [null_bit length] in IH. rewrite Nat.add_1_r in IH.
      rewrite <- app_assoc in IH. rewrite IH. rewrite !app_length. f_equal. lia.
Qed.

Hypothesis Hfine : Forall2 len_fine tys img.

Lemma skip_image_ok pre rest :
  skip_image (length tys) tm (expect_bitmap pc (present_bits img)) (expect_bitmap pn (null_bits img))
             (pre ++ image_cells tys img ++ rest) 0 0 (length pre)
  = Ok (length pre + length (image_cells tys img))%nat.
Proof. exact (skip_image_suffix tys img Hfine [] [] pre rest eq_refl eq_refl eq_refl). Qed.

(* one image of a rows event: NULL bitmap, then the cells *)
Lemma read_image_ok pre rest :
  read_image tm (expect_bitmap pc (present_bits img)) (length tys) (count_true (present_bits img))
             (pre ++ enc_image pn tys img ++ rest) (length pre)
  = Ok (expect_bitmap pn (null_bits img), image_cells tys img, (length pre + length (enc_image pn tys img))%nat).
Proof.
  unfold read_image, enc_image. rewrite <- null_bits_count.
  rewrite <- app_assoc. rewrite new_bitmap_ok. cbn [bind].
  rewrite <- (pack_bits_pad_length pn).
  rewrite app_assoc, <- app_length. rewrite skip_image_ok. cbn [bind].
  set (P := length (pre ++ pack_bits_pad pn (null_bits img))).
  destruct (Nat.ltb_spec (P + length (image_cells tys img)) P) as [L|_]; [lia|].
  replace (P + length (image_cells tys img) - P)%nat with (length (image_cells tys img)) by lia.
  subst P. rewrite slice_app_mid by reflexivity. cbn [bind].
  rewrite !app_length. do 2 f_equal. lia.
Qed.
End Walk.

(* ---------- the column-by-column decoder of the streamer ---------- *)
Section Decode.
Variables pc pn : Z.     (* padding patterns of the presence bitmap and of the NULL bitmap: arbitrary *)
Variable ffmt : Z -> Z -> bytes.
Variable tz : Z -> Z.
Variable efmt : Z -> bytes.
Variable jsonp : bytes -> res bytes.

(* a column as the streamer sees it: the mapper's name and signedness, the table map's type *)
Definition colspec := (bytes * (coltype * bool))%type.
Definition cs_name (s : colspec) : bytes := fst s.
Definition cs_type (s : colspec) : coltype := fst (snd s).
Definition cs_uns (s : colspec) : bool := snd (snd s).

Definition val_fine (s : colspec) (cv : cellv) : Prop :=
  match cv with CVal v => cell_ok ffmt tz efmt jsonp (cs_type s) (cs_uns s) v | _ => True end.

(* expected delivered column: name from the mapper by ordinal, then Spec.EncEvent.expect_cell *)
Definition expect_column (s : colspec) (cv : cellv) : column :=
  let '(code, absent, data) := expect_cell ffmt tz efmt (cs_type s) (cs_uns s) cv in
  {| c_field := cs_name s; c_type := code; c_empty := absent; c_data := data |}.

Definition expect_columns (specs : list colspec) (img : list cellv) : rowdata :=
  map (fun p => expect_column (fst p) (snd p)) (combine specs img).

Variable tm : table_map.
Variable specs : list colspec.
Variable img : list cellv.
Let tys := map cs_type specs.
Let tcols := map (fun s => (cs_name s, cs_uns s)) specs.
Hypothesis Htypes : tm_types tm = map code_of tys.
Hypothesis Hmeta : tm_meta tm = map meta_of tys.

Lemma image_columns_suffix specsB imgB : Forall2 val_fine specsB imgB ->
  forall specsA imgA pre rest acc,
  specs = specsA ++ specsB -> img = imgA ++ imgB -> length specsA = length imgA ->
  image_columns ffmt tz jsonp (length specsB) tm tcols
                (expect_bitmap pc (present_bits img)) (expect_bitmap pn (null_bits img))
                (pre ++ image_cells (map cs_type specsB) imgB ++ rest)
                (length specsA) (length (null_bits imgA)) (length pre) acc
  = Ok (Some (rev acc ++ expect_columns specsB imgB)).
Proof.
  induction 1 as [|s cv specsB imgB Hf HF IH]; intros specsA imgA pre rest acc Es Ei El.
  - cbn [length image_columns]. rewrite rev_append_rev. reflexivity.
  - cbn [length image_columns].
    assert (Es' : specs = (specsA ++ [s]) ++ specsB) by (rewrite <- snoc_assoc; exact Es).
    assert (Ei' : img = (imgA ++ [cv]) ++ imgB) by (rewrite <- snoc_assoc; exact Ei).
    assert (El' : length (specsA ++ [s]) = length (imgA ++ [cv])) by (rewrite !app_length; cbn [length]; lia).
    assert (ES : S (length specsA) = length (specsA ++ [s])) by (rewrite app_length; cbn [length]; lia).
    (* the mapper's column, the table map's type and metadata *)
    assert (Hn : nth_error tcols (length specsA) = Some (cs_name s, cs_uns s)).
    { unfold tcols. rewrite Es, map_app. cbn [map].
      replace (length specsA) with (length (map (fun s0 => (cs_name s0, cs_uns s0)) specsA)) by apply map_length.
      apply nth_error_mid. }
    assert (Ht : at_ (tm_types tm) (length specsA) = Ok (code_of (cs_type s))).
    { rewrite Htypes. unfold tys. rewrite Es, !map_app. cbn [map].
      replace (length specsA) with (length (map code_of (map cs_type specsA))) by (rewrite !map_length; reflexivity).
      apply at_mid. }
    assert (Hm : nth_error (tm_meta tm) (length specsA) = Some (meta_of (cs_type s))).
    { rewrite Hmeta. unfold tys. rewrite Es, !map_app. cbn [map].
      replace (length specsA) with (length (map meta_of (map cs_type specsA))) by (rewrite !map_length; reflexivity).
      apply nth_error_mid. }
    rewrite Hn, Ht. cbn [bind].
    rewrite Ei at 1. rewrite El, bit_present. cbn [bind].
    unfold expect_columns. cbn [combine map]. fold (expect_columns specsB imgB).
    destruct cv as [| |v]; cbn [is_present negb image_cells map].
    + rewrite <- El, ES.
      specialize (IH (specsA ++ [s]) (imgA ++ [CAbsent]) pre rest
                     ({| c_field := cs_name s; c_type := code_of (cs_type s); c_empty := true; c_data := None |} :: acc)
                     Es' Ei' El').
      rewrite null_bits_snoc in IH. cbn [null_bit length] in IH. rewrite Nat.add_0_r in IH.
      rewrite IH. cbn [rev]. rewrite <- app_assoc. reflexivity.
    + rewrite Ei at 1. rewrite (bit_null pn imgA CNull imgB true eq_refl). cbn [bind].
      rewrite <- El, ES.
      specialize (IH (specsA ++ [s]) (imgA ++ [CNull]) pre rest
                     ({| c_field := cs_name s; c_type := code_of (cs_type s); c_empty := false; c_data := None |} :: acc)
                     Es' Ei' El').
      rewrite null_bits_snoc in IH. cbn [null_bit length] in IH. rewrite Nat.add_1_r in IH.
      rewrite IH. cbn [rev]. rewrite <- app_assoc. reflexivity.
    + rewrite Ei at 1. rewrite (bit_null pn imgA (CVal v) imgB false eq_refl). cbn [bind].
      rewrite <- El. rewrite Hm.
      rewrite <- app_assoc. cbn [val_fine] in Hf.
      destruct (Hf pre (image_cells (map cs_type specsB) imgB ++ rest)) as [Hv _]. rewrite Hv.
      pose proof (len_nonneg (enc_cell (cs_type s) v)) as L0.
      destruct (Z.ltb_spec (len (enc_cell (cs_type s) v)) 0) as [L|_]; [lia|].
      assert (EP : (length pre + Z.to_nat (Z.min (len (enc_cell (cs_type s) v))
                      (len (pre ++ enc_cell (cs_type s) v ++ image_cells (map cs_type specsB) imgB ++ rest) + 1)))%nat
                   = length (pre ++ enc_cell (cs_type s) v)).
      { rewrite !len_app. rewrite app_length. unfold len in *. lia. }
      rewrite EP. rewrite ES.
      specialize (IH (specsA ++ [s]) (imgA ++ [CVal v]) (pre ++ enc_cell (cs_type s) v) rest
                     ({| c_field := cs_name s; c_type := code_of (cs_type s); c_empty := false;
                         c_data := Some (text ffmt tz efmt (cs_type s) (cs_uns s) v) |} :: acc)
                     Es' Ei' El').
      rewrite null_bits_snoc in IH. cbn [null_bit length] in IH. rewrite Nat.add_1_r in IH.
      rewrite <- app_assoc in IH. rewrite IH. cbn [rev]. rewrite <- app_assoc. reflexivity.
Qed.

Hypothesis Hfine : Forall2 val_fine specs img.

(* get{Values,Identifies}FromRow on the image the master wrote, followed by ANY bytes: every column
   gets its expected cell; nothing after the image's last byte influences the result *)
Theorem image_of_ok ti rest :
  ti_cols ti = tcols ->
  image_of ffmt tz jsonp tm ti (expect_bitmap pc (present_bits img)) (expect_bitmap pn (null_bits img))
           (Some (image_cells tys img ++ rest))
  = Ok (Some (expect_columns specs img)).
Proof.
  intros Hti. unfold image_of. rewrite Hti.
  assert (Hl : length specs = length img) by (eapply Forall2_len; exact Hfine).
  change (bm_count (expect_bitmap pc (present_bits img))) with (length (present_bits img)).
  rewrite present_bits_length. unfold tcols. rewrite map_length, <- Hl, Nat.eqb_refl. cbn [negb].
  exact (image_columns_suffix specs img Hfine [] [] [] rest [] eq_refl eq_refl eq_refl).
Qed.
End Decode.

(* a mapper whose column count differs from the bitmap's is rejected, whatever the image *)
Theorem image_of_mismatch ffmt tz jsonp tm ti present nulls d :
  bm_count present <> length (ti_cols ti) ->
  image_of ffmt tz jsonp tm ti present nulls d = Ok None.
Proof.
  intros H. unfold image_of. destruct (Nat.eqb_spec (bm_count present) (length (ti_cols ti))); [contradiction|reflexivity].
Qed.
