(* gen/TransJsonRead.v (binlog_event_json.go: readOffsetOrSize, readVariableLength, translated by harness/cmd/gotrans)
   computes what the hand-written read_off / read_varlen of Model/Json.v do. *)
From Coq Require Import ZifyBool.
From GB Require Import Base.Prelude Base.GoSem Base.BytesLemmas Proofs.GoSemLemmas Proofs.TransTactics.
From GB Require Import Model.Json.
From GBGen Require Import TransJsonRead.
Open Scope Z_scope.

Definition val_pos (r : Z * nat) : Z * Z := (fst r, Z.of_nat (snd r)).

Lemma le_at_4 d p :
  le_at d p 4 = do a <- at_ d p; do b <- at_ d (S p); do c <- at_ d (S (S p)); do e <- at_ d (S (S (S p)));
                Ok (a + 256 * (b + 256 * (c + 256 * e))).
Proof.
  rewrite le_at_S. destruct (at_ d p); cbn [bind]; try reflexivity.
  rewrite le_at_S. destruct (at_ d (S p)); cbn [bind]; try reflexivity.
  rewrite le_at_2. destruct (at_ d (S (S p))); cbn [bind]; try reflexivity.
  destruct (at_ d (S (S (S p)))); cbn [bind]; reflexivity.
Qed.

Lemma shl_byte b k : 0 <= b < 256 -> 0 <= k <= 24 -> go_shl i64 b k = b * 2 ^ k.
Proof.
  intros Hb Hk. unfold go_shl. apply i64_small.
  assert (0 < 2 ^ k <= 2 ^ 24) by (split; [apply Z.pow_pos_nonneg; lia | apply Z.pow_le_mono_r; lia]).
  change (2 ^ 24) with 16777216 in *. nia.
Qed.

(* ---- readOffsetOrSize ---- *)
Theorem readOffsetOrSize_equiv d pos large :
  wf_bytes d -> Z.of_nat pos < 2 ^ 62 ->
  res_sim (readOffsetOrSize_g d (Z.of_nat pos) large) (res_map val_pos (read_off d pos large)).
Proof.
  intros W Hp. change (2 ^ 62) with 4611686018427387904 in *.
  unfold readOffsetOrSize_g, read_off. destruct large.
  - rewrite le_at_4. rewrite !(i64_small (Z.of_nat pos + _)) by lia.
    rewrite (go_idx_Z d (Z.of_nat pos) pos) by lia.
    rewrite (go_idx_Z d (Z.of_nat pos + 1) (S pos)) by lia.
    rewrite (go_idx_Z d (Z.of_nat pos + 2) (S (S pos))) by lia.
    rewrite (go_idx_Z d (Z.of_nat pos + 3) (S (S (S pos)))) by lia.
    destruct (at_ d pos) as [a| |] eqn:Ea; cbn [bind res_map]; try exact I.
    destruct (at_ d (S pos)) as [b| |] eqn:Eb; cbn [bind res_map]; try exact I.
    destruct (at_ d (S (S pos))) as [c| |] eqn:Ec; cbn [bind res_map]; try exact I.
    destruct (at_ d (S (S (S pos)))) as [e| |] eqn:Ee; cbn [bind res_map]; try exact I.
    pose proof (at_byte _ _ _ W Ea). pose proof (at_byte _ _ _ W Eb).
    pose proof (at_byte _ _ _ W Ec). pose proof (at_byte _ _ _ W Ee).
    rewrite !shl_byte by lia. change (2 ^ 8) with 256. change (2 ^ 16) with 65536. change (2 ^ 24) with 16777216.
    rewrite (i64_small (a + b * 256)) by lia. rewrite (i64_small (a + b * 256 + c * 65536)) by lia.
    rewrite (i64_small (a + b * 256 + c * 65536 + e * 16777216)) by lia.
    unfold val_pos. cbn [res_sim fst snd]. f_equal; lia.
  - rewrite le_at_2. rewrite !(i64_small (Z.of_nat pos + _)) by lia.
    rewrite (go_idx_Z d (Z.of_nat pos) pos) by lia.
    rewrite (go_idx_Z d (Z.of_nat pos + 1) (S pos)) by lia.
    destruct (at_ d pos) as [a| |] eqn:Ea; cbn [bind res_map]; try exact I.
    destruct (at_ d (S pos)) as [b| |] eqn:Eb; cbn [bind res_map]; try exact I.
    pose proof (at_byte _ _ _ W Ea). pose proof (at_byte _ _ _ W Eb).
    rewrite !shl_byte by lia. change (2 ^ 8) with 256. rewrite (i64_small (a + b * 256)) by lia.
    unfold val_pos. cbn [res_sim fst snd]. f_equal; lia.
Qed.

(* ---- readVariableLength: the loop reads one byte per turn; fuel > number of bytes left ---- *)
Lemma i64_0 : i64 0 = 0. Proof. reflexivity. Qed.

Lemma shl_ge_64 x n : 64 <= n -> go_shl i64 x n = 0.
Proof.
  intro H. unfold go_shl, i64, u64. replace n with (64 + (n - 64)) by lia. rewrite Z.pow_add_r by lia.
  change (2 ^ 64) with 18446744073709551616.
  replace (x * (18446744073709551616 * 2 ^ (n - 64))) with ((x * 2 ^ (n - 64)) * 18446744073709551616) by ring.
  rewrite Z.mod_mul by lia. reflexivity.
Qed.

Lemma shl_term bb sh :
  0 <= sh -> go_shl i64 (Z.land bb 127) sh = (if sh <? 64 then i64 (Z.shiftl (Z.land bb 127) sh) else 0).
Proof.
  intro H. destruct (Z.ltb_spec sh 64) as [L|G].
  - unfold go_shl. rewrite Z.shiftl_mul_pow2 by lia. reflexivity.
  - apply shl_ge_64. lia.
Qed.

Lemma skipn_at d p : forall bb, at_ d p = Ok bb -> skipn p d = bb :: skipn (S p) d.
Proof.
  revert p. induction d as [|x d IH]; intros p bb H.
  - unfold at_ in H. destruct p; discriminate.
  - destruct p as [|p].
    + unfold at_ in H. cbn in H. inversion H. reflexivity.
    + cbn [skipn]. apply IH. exact H.
Qed.

Lemma skipn_panic d p : at_ d p = Panic -> skipn p d = [].
Proof.
  intro H. destruct (at_cases d p) as [(b & E & _)|[_ L]]; [congruence|]. apply skipn_all2. exact L.
Qed.

Theorem readVariableLength_equiv fuel d pos :
  Z.of_nat (length d) < 2 ^ 62 -> (length d < fuel)%nat ->
  res_sim (readVariableLength_g fuel d (Z.of_nat pos)) (res_map val_pos (read_varlen d pos)).
Proof.
  intros Hd Hf. change (2 ^ 62) with 4611686018427387904 in *.
  unfold readVariableLength_g, read_varlen. cbv zeta.
  lazymatch goal with |- res_sim (?L fuel 0 (Z.of_nat pos) 0 0) _ => set (loop := L) end.
  assert (Hloop : forall fl p bb0 acc idx, (length d - p < fl)%nat ->
            res_sim (loop fl bb0 (Z.of_nat p) acc idx) (res_map val_pos (read_varlen_go (skipn p d) acc idx p))).
  { induction fl as [|fl IH]; intros p bb0 acc idx Hfl; [lia|].
    unfold loop; cbv beta iota zeta; fold loop.
    rewrite (go_idx_Z d (Z.of_nat p) p) by reflexivity.
    destruct (at_cases d p) as [(bb & E & L)|[E L]]; rewrite E; cbn [bind].
    - rewrite (skipn_at d p bb E). cbn [read_varlen_go]. cbv zeta.
      rewrite (i64_small (Z.of_nat p + 1)) by lia.
      replace (Z.of_nat p + 1) with (Z.of_nat (S p)) by lia.
      assert (Hsh : 0 <= u8 (7 * idx)) by (unfold u8; apply Z.mod_pos_bound; lia).
      rewrite (shl_term bb (u8 (7 * idx)) Hsh).
      replace (i8 bb >=? 0) with (0 <=? i8 bb) by (destruct (Z.leb_spec 0 (i8 bb)), (Z.geb_spec (i8 bb) 0); try reflexivity; lia).
      destruct (0 <=? i8 bb).
      + cbn [res_map]. unfold val_pos. cbn [res_sim fst snd]. reflexivity.
      + apply IH. lia.
    - rewrite (skipn_panic d p E). exact I. }
  apply Hloop. lia.
Qed.

Print Assumptions readOffsetOrSize_equiv.
Print Assumptions readVariableLength_equiv.
