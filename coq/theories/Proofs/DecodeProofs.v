(* C01, decoding layer: what `decode` (the byte-reading half of the parseEvents loop body) returns for each
   kind of wire event of Spec/Binlog.v, under the format description the master announced.  Assembles the
   per-event theorems of C16 (headers, control events), C15 (table maps), C09 (rows events, images) and the
   cell lemmas (through rows_roundtrip_tm / image_consumed and cell_ok_all). *)
From Coq Require Import String.
From GB Require Import Base.Prelude Base.BytesLemmas Model.Header Model.Events Model.Cell Model.Json Model.Rbr Model.Streamer.
From GB Require Import Spec.EncHeader Spec.Values Spec.EncEvent Spec.Expect Spec.EventSpec Spec.Units Spec.Binlog.
From GB Require Import Proofs.EventProofs Proofs.EventFrame Proofs.TableMapProofs Proofs.ImageProofs Proofs.RowsProofs
                       Proofs.RowsAll Proofs.CellAll Proofs.StreamProofs Proofs.StreamProofs2.
From GBGen Require Import Consts.
From Coq Require Import ZifyBool.
Open Scope Z_scope.

(* ------------------------------------------------------------------ *)
(* 0. the frame of an event built by enc_ev                            *)

Lemma frame_stripped c h body crc : frame c h body crc = enc_ev_stripped c h body.
Proof. unfold frame, enc_ev_stripped. rewrite len_crc_bytes. reflexivity. Qed.

Lemma wf_hdr_of t w : 0 <= t < 256 -> wf_whdr w -> wf_hdr (hdr_of t w).
Proof. intros Ht (A & B & C & D). unfold wf_hdr, hdr_of. cbn. auto. Qed.

(* everything the loop reads from the header, before and after the checksum is cut off *)
Lemma ev_facts c v h body crc :
  wf_cfg c = true -> wf_hdr h -> len (enc_ev c h body crc) < 2 ^ 32 ->
  is_valid (enc_ev c h body crc) = Ok true /\
  ev_type (enc_ev c h body crc) = Ok (h_type h) /\
  strip_checksum56 (expect_format c v) (enc_ev c h body crc) = Ok (frame c h body crc) /\
  ev_type (frame c h body crc) = Ok (h_type h) /\
  ev_next_position (frame c h body crc) = Ok (h_next h) /\
  ev_timestamp (frame c h body crc) = Ok (h_ts h).
Proof.
  intros Wc Wh Hl.
  destruct (header_fields_ev c h body crc Wc Wh Hl) as (_ & T0 & _ & _ & _ & _ & V).
  pose proof (wf_cfg_inv c Wc) as (Hhl & _ & _).
  rewrite len_enc_ev in Hl by lia.
  destruct (header_fields_stripped c h body Wc Wh Hl) as (Ts & T & _ & Nx & _ & _ & _).
  rewrite frame_stripped.
  repeat split; auto. rewrite strip_enc_ev, frame_stripped. reflexivity.
Qed.

Lemma format_nonzero c v : format_is_zero (expect_format c v) = false.
Proof. reflexivity. Qed.

(* evaluate comparisons between closed integers *)
Ltac eqb_closed :=
  repeat match goal with
  | |- context [Z.eqb ?a ?b] =>
    let v := eval vm_compute in (Z.eqb a b) in
    match v with true => idtac | false => idtac end;
    change (Z.eqb a b) with v
  end.

Section Decode.
Variable ffmt : Z -> Z -> bytes.
Variable tz : Z -> Z.
Variable efmt : Z -> bytes.
Variable jsonp : bytes -> res bytes.
Variable mp : mapper.
Notation decode := (decode ffmt tz jsonp mp).

(* ------------------------------------------------------------------ *)
(* 1. shapes: decode on an event whose header reads are known           *)

Section Shapes.
Variables (f : format) (tables : list (Z * (table_map * tinfo))) (ev0 ev : bytes) (typ : Z).
Hypothesis Hv : is_valid ev0 = Ok true.
Hypothesis Ht0 : ev_type ev0 = Ok typ.
Hypothesis Hz : format_is_zero f = false.
Hypothesis Hs : strip_checksum56 f ev0 = Ok ev.
Hypothesis Ht : ev_type ev = Ok typ.

Ltac open_decode :=
  unfold Streamer.decode; rewrite Hv; cbn [lift negb]; rewrite Ht0; cbn [lift].

Lemma decode_xid_shape nx ts :
  typ = K_eXIDEvent -> ev_next_position ev = Ok nx -> ev_timestamp ev = Ok ts ->
  decode f tables ev0 = ACommit nx ts.
Proof.
  intros -> Hn Hts. revert Ht0 Ht. intros Ht0' Ht'. unfold Streamer.decode. rewrite Hv. cbn [lift negb]. rewrite Ht0'. cbn [lift].
  eqb_closed. cbv iota. rewrite Hz, Hs, Ht'. cbn [lift]. eqb_closed. cbv iota. rewrite Hn, Hts. reflexivity.
Qed.

Lemma decode_rotate_shape name off :
  typ = K_eRotateEvent -> ev_rotate f ev = Ok (name, off) ->
  decode f tables ev0 = ARotate name off.
Proof.
  intros -> Hr. revert Ht0 Ht. intros Ht0' Ht'. unfold Streamer.decode. rewrite Hv. cbn [lift negb]. rewrite Ht0'. cbn [lift].
  eqb_closed. cbv iota. rewrite Hz, Hs, Ht'. cbn [lift]. eqb_closed. cbv iota. rewrite Hr. reflexivity.
Qed.

Lemma decode_query_shape q nx ts :
  typ = K_eQueryEvent -> ev_query f ev = Ok q -> ev_next_position ev = Ok nx -> ev_timestamp ev = Ok ts ->
  decode f tables ev0 =
    let cat := category (q_sql q) in
    let sev := {| se_type := cat; se_table := ([], []); se_query := q; se_ts := ts; se_values := []; se_ids := [] |} in
    if in_stmt_case 0 cat then ABegin
    else if in_stmt_case 1 cat || in_stmt_case 2 cat then AStmt sev nx ts
    else if in_stmt_case 3 cat then ARollback nx ts
    else if in_stmt_case 4 cat then ACommit nx ts
    else ANop.
Proof.
  intros -> Hq Hn Hts. revert Ht0 Ht. intros Ht0' Ht'. unfold Streamer.decode. rewrite Hv. cbn [lift negb]. rewrite Ht0'. cbn [lift].
  eqb_closed. cbv iota. rewrite Hz, Hs, Ht'. cbn [lift]. eqb_closed. cbv iota. rewrite Hq, Hts, Hn. cbn [lift]. reflexivity.
Qed.

(* every type the dispatch does not name *)
Lemma rows_kind_ignorable : ignorable_type typ = true -> rows_kind typ = None.
Proof.
  unfold ignorable_type, handled_types. cbn [existsb]. intros H. unfold rows_kind.
  change K_eWriteRowsEventV1 with 23. change K_eWriteRowsEventV2 with 30.
  change K_eUpdateRowsEventV1 with 24. change K_eUpdateRowsEventV2 with 31.
  change K_eDeleteRowsEventV1 with 25. change K_eDeleteRowsEventV2 with 32.
  destruct (Z.eqb_spec typ 23); [lia|]. destruct (Z.eqb_spec typ 30); [lia|].
  destruct (Z.eqb_spec typ 24); [lia|]. destruct (Z.eqb_spec typ 31); [lia|].
  destruct (Z.eqb_spec typ 25); [lia|]. destruct (Z.eqb_spec typ 32); [lia|]. reflexivity.
Qed.

Lemma decode_ignorable_shape :
  ignorable_type typ = true -> decode f tables ev0 = ANop.
Proof.
  intros Hi. pose proof (rows_kind_ignorable Hi) as Hrk.
  unfold ignorable_type, handled_types in Hi. cbn [existsb] in Hi.
  assert (E15 : (typ =? K_eFormatDescriptionEvent) = false) by (change K_eFormatDescriptionEvent with 15; lia).
  assert (E16 : (typ =? K_eXIDEvent) = false) by (change K_eXIDEvent with 16; lia).
  assert (E4 : (typ =? K_eRotateEvent) = false) by (change K_eRotateEvent with 4; lia).
  assert (E2 : (typ =? K_eQueryEvent) = false) by (change K_eQueryEvent with 2; lia).
  assert (E19 : (typ =? K_eTableMapEvent) = false) by (change K_eTableMapEvent with 19; lia).
  assert (E13 : (typ =? K_eRandEvent) = false) by (change K_eRandEvent with 13; lia).
  assert (E5 : (typ =? K_eIntVarEvent) = false) by (change K_eIntVarEvent with 5; lia).
  assert (E29 : (typ =? K_eRowsQueryEvent) = false) by (change K_eRowsQueryEvent with 29; lia).
  open_decode. rewrite E15, Hz, Hs, Ht. cbn [lift]. rewrite E16, E4, E2, E19, Hrk, E13, E5, E29.
  destruct (typ =? K_ePreviousGTIDsEvent); [reflexivity|]. destruct (typ =? K_eGTIDEvent); reflexivity.
Qed.

Lemma decode_rows_shape kind id tm ti rs ts nx ids vals :
  In typ [23; 24; 25; 30; 31; 32] -> rows_kind typ = Some kind ->
  ev_table_id f ev = Ok id -> lookup_table id tables = Some (tm, ti) -> ev_rows f tm ev = Ok rs ->
  ev_timestamp ev = Ok ts ->
  rows_images ffmt tz jsonp tm ti rs (negb (kind =? K_StatementInsert)) (negb (kind =? K_StatementDelete))
              (rs_rows rs) [] [] = Ok (Some (ids, vals)) ->
  ev_next_position ev = Ok nx ->
  decode f tables ev0 =
    AStmt {| se_type := kind; se_table := ti_name ti; se_query := zero_query; se_ts := ts;
             se_values := vals; se_ids := ids |} nx ts.
Proof.
  intros Hin Hrk Hid Hl Hr Hts Hri Hn.
  assert (E15 : (typ =? K_eFormatDescriptionEvent) = false) by (change K_eFormatDescriptionEvent with 15; cbn [In] in Hin; lia).
  assert (E16 : (typ =? K_eXIDEvent) = false) by (change K_eXIDEvent with 16; cbn [In] in Hin; lia).
  assert (E4 : (typ =? K_eRotateEvent) = false) by (change K_eRotateEvent with 4; cbn [In] in Hin; lia).
  assert (E2 : (typ =? K_eQueryEvent) = false) by (change K_eQueryEvent with 2; cbn [In] in Hin; lia).
  assert (E19 : (typ =? K_eTableMapEvent) = false) by (change K_eTableMapEvent with 19; cbn [In] in Hin; lia).
  open_decode. rewrite E15, Hz, Hs, Ht. cbn [lift]. rewrite E16, E4, E2, E19, Hrk, Hid. cbn [lift].
  rewrite Hl, Hr, Hts. cbn [lift]. rewrite Hri. cbn [lift]. rewrite Hn. reflexivity.
Qed.

End Shapes.

(* ------------------------------------------------------------------ *)
(* 2. keywords                                                         *)

Lemma fold_case_lower s : fold_case s = map lower s.
Proof. reflexivity. Qed.

Lemma keywords_table : keywords = statementPrefixes.
Proof. reflexivity. Qed.

Lemma assoc_in w : forall tbl code, assoc w tbl = code -> code <> 0 -> In (w, code) tbl.
Proof.
  induction tbl as [|[k x] tbl IH]; intros code H Hn; cbn [assoc] in H; [congruence|].
  destruct (bytes_eqb k w) eqn:E.
  - apply bytes_eqb_eq in E. subst. left. reflexivity.
  - right. apply IH; assumption.
Qed.

Lemma category_kw kw tail :
  (forall x, In x kw -> x <> 32) -> (tail = [] \/ exists r, tail = 32 :: r) -> kw_code kw <> 0 ->
  category (kw ++ tail) = kw_code kw.
Proof.
  intros Hs Ht Hn.
  assert (Hin : In (fold_case kw, kw_code kw) statementPrefixes).
  { rewrite <- keywords_table. apply assoc_in; [reflexivity|exact Hn]. }
  destruct Ht as [-> | [r ->]].
  - rewrite app_nil_r. apply (casing (fold_case kw) (kw_code kw) kw [] Hin (eq_sym (fold_case_lower kw)) Hs).
  - apply (casing (fold_case kw) (kw_code kw) kw r Hin (eq_sym (fold_case_lower kw)) Hs).
Qed.

Lemma first_token_word s : first_token s = first_word s.
Proof. induction s as [|x s IH]; cbn [first_token first_word]; [reflexivity|]. rewrite IH. reflexivity. Qed.

Lemma assoc_lookup w : forall tbl, lookup_prefix w tbl = assoc w tbl.
Proof. induction tbl as [|[k x] tbl IH]; cbn [lookup_prefix assoc]; [reflexivity|]. rewrite IH. reflexivity. Qed.

(* the category of any statement text is the code of its first word *)
Lemma category_first_token sql : category sql = kw_code (first_token sql).
Proof. unfold category, kw_code. rewrite assoc_lookup, <- first_token_word. reflexivity. Qed.

(* ------------------------------------------------------------------ *)
(* 3. the wire events of Spec/Binlog.v                                  *)

Section Wire.
Variables (c : cfg) (v : bytes) (tables : list (Z * (table_map * tinfo))).
Hypothesis Wc : wf_cfg c = true.
Notation f := (expect_format c v).

(* XID: commit with the event's end position and timestamp *)
Lemma decode_wxid h xid crc :
  wf_whdr h -> fits c (WXid h xid crc) ->
  decode f tables (wire c (WXid h xid crc)) = ACommit (w_next h) (w_ts h).
Proof.
  intros Wh Hf. unfold fits in Hf. cbn [wire wtype whead wbody wcrc] in *.
  destruct (ev_facts c v _ _ _ Wc (wf_hdr_of 16 h ltac:(lia) Wh) Hf) as (V & T0 & S & T & N & Ts).
  eapply decode_xid_shape; eauto; try reflexivity.
Qed.

(* rotate: the new file name and position (read through an int64 cast) *)
Lemma decode_wrotate h name pos crc :
  wf_whdr h -> fits c (WRotate h name pos crc) -> 0 <= pos < 2 ^ 64 ->
  decode f tables (wire c (WRotate h name pos crc)) = ARotate name (expect_rotate_pos pos).
Proof.
  intros Wh Hf Hp. unfold fits in Hf. cbn [wire wtype whead wbody wcrc] in *.
  destruct (ev_facts c v _ _ _ Wc (wf_hdr_of 4 h ltac:(lia) Wh) Hf) as (V & T0 & S & T & N & Ts).
  pose proof (rotate_roundtrip c (hdr_of 4 h) v pos name crc Wc Hp) as R. rewrite S in R. cbn [bind] in R.
  eapply decode_rotate_shape; eauto; try reflexivity.
Qed.

(* the fake rotate that precedes the first format description is skipped *)
Lemma decode_fake_rotate h name pos crc :
  wf_whdr h -> fits c (WRotate h name pos crc) ->
  decode format_zero tables (wire c (WRotate h name pos crc)) = ANop.
Proof.
  intros Wh Hf. unfold fits in Hf. cbn [wire wtype whead wbody wcrc] in *.
  destruct (ev_facts c v _ _ _ Wc (wf_hdr_of 4 h ltac:(lia) Wh) Hf) as (V & T0 & _).
  unfold Streamer.decode. rewrite V. cbn [lift negb]. rewrite T0. cbn [lift hdr_of h_type]. reflexivity.
Qed.

(* any type the dispatch does not name: nothing happens *)
Lemma decode_ignorable_ev h typ body crc :
  wf_whdr h -> ignorable_type typ = true -> len (enc_ev c (hdr_of typ h) body crc) < 2 ^ 32 ->
  decode f tables (enc_ev c (hdr_of typ h) body crc) = ANop.
Proof.
  intros Wh Hi Hf.
  assert (Hr : 0 <= typ < 256) by (unfold ignorable_type in Hi; lia).
  destruct (ev_facts c v _ _ _ Wc (wf_hdr_of typ h Hr Wh) Hf) as (V & T0 & S & T & N & Ts).
  eapply decode_ignorable_shape; eauto; try reflexivity.
Qed.

(* format description: whatever the current format is *)
Lemma decode_wformat f0 h ver crc :
  wf_whdr h -> wf_version ver ->
  decode f0 tables (wire c (WFormat h ver crc)) = AFormat (expect_format c ver).
Proof.
  intros Wh [Hl Hz]. cbn [wire].
  pose proof (wf_cfg_inv c Wc) as (Hhl & Hns & _).
  assert (E : ev_format (enc_format c (hdr_of 15 h) ver crc) = Ok (expect_format c ver)) by (apply format_roundtrip; assumption).
  unfold enc_format in *.
  match goal with |- context [enc_header_len ?hh ?t ++ ?d] => set (data := d) in * end.
  assert (Ld : len data = 62 + c_nsizes c).
  { subst data. rewrite !len_app, !len_le_enc, !len_cons, !len_nil. unfold len at 1 3. rewrite pad_right_length, crc_tail_length.
    rewrite sizes_table_length by lia. lia. }
  destruct (header_any (hdr_of 15 h) (19 + len data) data (wf_hdr_of 15 h ltac:(lia) Wh) eq_refl ltac:(lia))
    as (_ & T0 & _ & _ & _ & _ & V).
  unfold Streamer.decode. rewrite V. cbn [lift negb]. rewrite T0. cbn [lift hdr_of h_type].
  eqb_closed. cbv iota. rewrite E. reflexivity.
Qed.

(* query events: by the class of the keyword, whatever its letter case *)
Lemma decode_wquery class q :
  wf_query c class q -> kw_code (wq_kw q) <> 0 ->
  decode f tables (wire c (wq_event q)) =
    let cat := kw_code (wq_kw q) in
    if in_stmt_case 0 cat then ABegin
    else if in_stmt_case 1 cat || in_stmt_case 2 cat then AStmt (query_sevent q) (w_next (wq_h q)) (w_ts (wq_h q))
    else if in_stmt_case 3 cat then ARollback (w_next (wq_h q)) (w_ts (wq_h q))
    else if in_stmt_case 4 cat then ACommit (w_next (wq_h q)) (w_ts (wq_h q))
    else ANop.
Proof.
  intros (Wh & Hf & Hlo & Hqf & Hsp & Htl & _) Hn. unfold fits in Hf. unfold wq_event in *.
  cbn [wire wtype whead wbody wcrc] in *.
  destruct (ev_facts c v _ _ _ Wc (wf_hdr_of 2 _ ltac:(lia) Wh) Hf) as (V & T0 & S & T & N & Ts).
  pose proof (query_roundtrip c (hdr_of 2 (wq_h q)) v (wq_thread q) (wq_exec q) (wq_err q) (wq_vars q) (wq_db q)
                (wq_sql q) (wq_crc q) Wc Hlo Hqf) as R.
  rewrite S in R. cbn [bind] in R.
  rewrite (decode_query_shape _ _ _ _ _ V T0 (format_nonzero c v) S T _ _ _ eq_refl R N Ts).
  cbn [q_sql]. unfold wq_sql at 1 2 3 4 5 6 7. rewrite (category_kw _ _ Hsp Htl Hn). reflexivity.
Qed.

(* a statement of unknown kind is skipped *)
Lemma decode_wquery_unknown h thread exec err vars db sql crc :
  wf_whdr h -> fits c (WQuery h thread exec err vars db sql crc) ->
  legal_order vars = true -> query_fits vars db = true -> kw_code (first_token sql) = 0 ->
  decode f tables (wire c (WQuery h thread exec err vars db sql crc)) = ANop.
Proof.
  intros Wh Hf Hlo Hqf Hk. unfold fits in Hf. cbn [wire wtype whead wbody wcrc] in *.
  destruct (ev_facts c v _ _ _ Wc (wf_hdr_of 2 _ ltac:(lia) Wh) Hf) as (V & T0 & S & T & N & Ts).
  pose proof (query_roundtrip c (hdr_of 2 h) v thread exec err vars db sql crc Wc Hlo Hqf) as R.
  rewrite S in R. cbn [bind] in R.
  rewrite (decode_query_shape _ _ _ _ _ V T0 (format_nonzero c v) S T _ _ _ eq_refl R N Ts).
  cbn [q_sql]. rewrite category_first_token, Hk. reflexivity.
Qed.

Lemma decode_wquery_begin q :
  wf_query c is_begin q -> decode f tables (wire c (wq_event q)) = ABegin.
Proof.
  intros W. pose proof W as (_ & _ & _ & _ & _ & _ & Hc). unfold is_begin in Hc.
  assert (E : kw_code (wq_kw q) = 1) by lia.
  rewrite (decode_wquery _ _ W) by lia. rewrite E. reflexivity.
Qed.

Lemma decode_wquery_commit q :
  wf_query c is_commit q -> decode f tables (wire c (wq_event q)) = ACommit (w_next (wq_h q)) (w_ts (wq_h q)).
Proof.
  intros W. pose proof W as (_ & _ & _ & _ & _ & _ & Hc). unfold is_commit in Hc.
  assert (E : kw_code (wq_kw q) = 2) by lia.
  rewrite (decode_wquery _ _ W) by lia. rewrite E. reflexivity.
Qed.

Lemma decode_wquery_rollback q :
  wf_query c is_rollback q -> decode f tables (wire c (wq_event q)) = ARollback (w_next (wq_h q)) (w_ts (wq_h q)).
Proof.
  intros W. pose proof W as (_ & _ & _ & _ & _ & _ & Hc). unfold is_rollback in Hc.
  assert (E : kw_code (wq_kw q) = 3) by lia.
  rewrite (decode_wquery _ _ W) by lia. rewrite E. reflexivity.
Qed.

Lemma decode_wquery_stmt q :
  wf_query c is_stmt q ->
  decode f tables (wire c (wq_event q)) = AStmt (query_sevent q) (w_next (wq_h q)) (w_ts (wq_h q)).
Proof.
  intros W. pose proof W as (_ & _ & _ & _ & _ & _ & Hc). unfold is_stmt, is_dml, is_ddl in Hc.
  assert (E : 4 <= kw_code (wq_kw q) <= 12) by lia.
  rewrite (decode_wquery _ _ W) by lia. cbv zeta.
  assert (D : kw_code (wq_kw q) = 4 \/ kw_code (wq_kw q) = 5 \/ kw_code (wq_kw q) = 6 \/ kw_code (wq_kw q) = 7 \/
              kw_code (wq_kw q) = 8 \/ kw_code (wq_kw q) = 9 \/ kw_code (wq_kw q) = 10 \/ kw_code (wq_kw q) = 11 \/
              kw_code (wq_kw q) = 12) by lia.
  destruct D as [D|[D|[D|[D|[D|[D|[D|[D|D]]]]]]]]; rewrite D; reflexivity.
Qed.

End Wire.

(* ------------------------------------------------------------------ *)
(* 4. the columns as the consumer sees them                            *)

Lemma specs_gen : forall (l1 : list (coltype * bool)) (l2 : list (bytes * bool)),
  length l2 = length l1 ->
  let sp := map (fun p : (coltype * bool) * (bytes * bool) => (fst (snd p), (fst (fst p), snd (snd p)))) (combine l1 l2) in
  map cs_type sp = map fst l1 /\ map (fun s => (cs_name s, cs_uns s)) sp = l2 /\ length sp = length l1.
Proof.
  induction l1 as [|[ty nl] l1 IH]; intros [|[nm u] l2] L; try discriminate L; cbn [combine map length].
  - auto.
  - destruct (IH l2 ltac:(cbn [length] in L; lia)) as (A & B & C). cbv zeta in A, B, C.
    repeat split.
    + cbn [cs_type fst snd]. f_equal. exact A.
    + cbn [cs_name cs_uns fst snd]. f_equal. exact B.
    + f_equal. exact C.
Qed.

(* every column type with valid parameters has its cell lemma (cell_ok_all); for JSON columns the printer is the
   model of printJSONData with the specification's 'E' formatting oracle (C14) *)
Lemma wf_cols_family cols :
  (forall v, -86400 <= tz v <= 86400) -> jsonp = print_json efmt ->
  Forall (fun p => wf_type (fst p) = true) cols -> family_cols ffmt tz efmt jsonp cols.
Proof. intros Htz Hj H. apply wf_cols_family_gen; [exact Htz|exact H|right; exact Hj]. Qed.

Section Specs.
Variables (t : table_def) (ti : tinfo).
Hypothesis Hlen : length (ti_cols ti) = length (td_cols t).
Let specs := specs_of t ti.

Lemma specs_types : map cs_type specs = map fst (td_cols t).
Proof. apply (specs_gen (td_cols t) (ti_cols ti) Hlen). Qed.
Lemma specs_names : map (fun s => (cs_name s, cs_uns s)) specs = ti_cols ti.
Proof. apply (specs_gen (td_cols t) (ti_cols ti) Hlen). Qed.
Lemma specs_length : length specs = length (td_cols t).
Proof. apply (specs_gen (td_cols t) (ti_cols ti) Hlen). Qed.
Lemma specs_cols_types : map fst (specs_cols specs) = map fst (td_cols t).
Proof. unfold specs_cols. rewrite map_map. exact specs_types. Qed.

Lemma specs_wf_types :
  Forall (fun p => wf_type (fst p) = true) (td_cols t) -> Forall (fun p => wf_type (fst p) = true) (specs_cols specs).
Proof.
  intros H. apply (Forall_map fst (fun ty => wf_type ty = true)).
  rewrite specs_cols_types. apply Forall_map. exact H.
Qed.

Lemma specs_tm_types pt : tm_types (expect_table_map pt t) = map (fun s => code_of (cs_type s)) specs.
Proof. cbn [expect_table_map tm_types]. rewrite <- (map_map cs_type code_of), specs_types, map_map. reflexivity. Qed.
Lemma specs_tm_meta pt : tm_meta (expect_table_map pt t) = map (fun s => meta_of (cs_type s)) specs.
Proof. cbn [expect_table_map tm_meta]. rewrite <- (map_map cs_type meta_of), specs_types, map_map. reflexivity. Qed.
End Specs.

(* ------------------------------------------------------------------ *)
(* 5. all the images of a rows event                                   *)

Section RowsImages.
Variables pc pn : Z.     (* padding patterns of the presence bitmaps and of the NULL bitmaps: arbitrary *)
Variables (tm : table_map) (ti : tinfo) (specs : list colspec).
Let cols := specs_cols specs.
Let tys := map cs_type specs.
Hypothesis Hfam : family_cols ffmt tz efmt jsonp cols.
Hypothesis Htypes : tm_types tm = map (fun s => code_of (cs_type s)) specs.
Hypothesis Hmeta : tm_meta tm = map (fun s => meta_of (cs_type s)) specs.
Hypothesis Hti : ti_cols ti = map (fun s => (cs_name s, cs_uns s)) specs.
Variables (rs : rows) (wi wv : bool) (ipres dpres : list bool) (kind : Z).
Hypothesis Hi : wi = true -> rs_ident_cols rs = expect_bitmap pc ipres.
Hypothesis Hd : wv = true -> rs_data_cols rs = expect_bitmap pc dpres.

Definition img_ok (pres : list bool) (o : option (list cellv)) : Prop :=
  exists img, o = Some img /\ present_bits img = pres /\ wf_image cols pres img = true.
Definition pair_ok (p : rpair) : Prop := (wi = true -> img_ok ipres (fst p)) /\ (wv = true -> img_ok dpres (snd p)).

Definition side_cols (o : option (list cellv)) : rowdata :=
  match o with Some img => expect_columns ffmt tz efmt specs img | None => [] end.

Lemma image_side pres bm o :
  img_ok pres o -> bm = expect_bitmap pc pres ->
  image_of ffmt tz jsonp tm ti bm
           (match o with Some img => expect_bitmap pn (null_bits img) | None => bitmap_zero end)
           (option_map (image_cells tys) o) = Ok (Some (side_cols o)).
Proof.
  intros (img & -> & Hp & W) ->. cbn [option_map side_cols]. subst pres.
  rewrite <- (app_nil_r (image_cells tys img)).
  apply image_consumed; assumption.
Qed.

Lemma rows_images_pairs ps : Forall pair_ok ps -> forall ids vals,
  rows_images ffmt tz jsonp tm ti rs wi wv (map (fun p => expect_row pn tys kind (fst p) (snd p)) ps) ids vals =
  Ok (Some (rev ids ++ (if wi then map (fun p => side_cols (fst p)) ps else []),
            rev vals ++ (if wv then map (fun p => side_cols (snd p)) ps else []))).
Proof.
  induction 1 as [|p ps [Pi Pd] _ IH]; intros ids vals.
  - cbn [map rows_images]. rewrite !rev_append_rev. destruct wi, wv; rewrite ?app_nil_r; reflexivity.
  - cbn [map rows_images]. cbn [expect_row r_null_ident r_ident r_null_data r_data].
    assert (Ei : (if wi then image_of ffmt tz jsonp tm ti (rs_ident_cols rs)
                       match fst p with Some img => expect_bitmap pn (null_bits img) | None => bitmap_zero end
                       (option_map (image_cells tys) (fst p)) else Ok (Some []))
                 = Ok (Some (if wi then side_cols (fst p) else []))).
    { destruct wi; [|reflexivity]. apply (image_side ipres); auto. }
    assert (Ed : (if wv then image_of ffmt tz jsonp tm ti (rs_data_cols rs)
                       match snd p with Some img => expect_bitmap pn (null_bits img) | None => bitmap_zero end
                       (option_map (image_cells tys) (snd p)) else Ok (Some []))
                 = Ok (Some (if wv then side_cols (snd p) else []))).
    { destruct wv; [|reflexivity]. apply (image_side dpres); auto. }
    rewrite Ei. cbn [bind]. rewrite Ed. cbn [bind]. rewrite IH.
    destruct wi, wv; cbn [rev]; rewrite <- ?app_assoc; reflexivity.
Qed.
End RowsImages.

(* ------------------------------------------------------------------ *)
(* 6. table maps and rows events on the wire                           *)

(* every cached entry carries the mapper's answer for the table it names *)
Definition cache_ok (tables : list (Z * (table_map * tinfo))) : Prop :=
  forall id tm ti, lookup_table id tables = Some (tm, ti) -> mp (tm_db tm) (tm_name tm) = Some ti.

Lemma cache_ok_nil : cache_ok [].
Proof. intros id tm ti H. discriminate H. Qed.

Lemma cache_ok_update tables id tm ti :
  cache_ok tables -> mp (tm_db tm) (tm_name tm) = Some ti -> cache_ok (update_table id (tm, ti) tables).
Proof.
  intros Hc Hm id' tm' ti' H. destruct (Z.eq_dec id id') as [<-|Hne].
  - rewrite lookup_update_same in H. inversion H; subst. exact Hm.
  - rewrite lookup_update_other in H by exact Hne. eapply Hc; eauto.
Qed.

Lemma table_info_agree pt tables t ti :
  cache_ok tables -> mp (td_db t) (td_name t) = Some ti -> length (ti_cols ti) = length (td_cols t) ->
  table_info_for mp tables (td_id t) (expect_table_map pt t) = ATable (td_id t) (expect_table_map pt t) ti.
Proof.
  intros Hc Hm Hl. unfold table_info_for.
  assert (New : match mp (tm_db (expect_table_map pt t)) (tm_name (expect_table_map pt t)) with
                | Some ti0 => if negb (Nat.eqb (length (ti_cols ti0)) (bm_count (tm_can_be_null (expect_table_map pt t))))
                              then AStop CMismatch else ATable (td_id t) (expect_table_map pt t) ti0
                | None => AStop CMapper end = ATable (td_id t) (expect_table_map pt t) ti).
  { cbn [expect_table_map tm_db tm_name tm_can_be_null expect_bitmap bm_count]. rewrite Hm, map_length, Hl, Nat.eqb_refl. reflexivity. }
  destruct (lookup_table (td_id t) tables) as [[old ti0]|] eqn:E; [|exact New].
  destruct (bytes_eqb (tm_db old) (tm_db (expect_table_map pt t)) && bytes_eqb (tm_name old) (tm_name (expect_table_map pt t))) eqn:B; [|exact New].
  apply andb_true_iff in B as [B1 B2]. apply bytes_eqb_eq in B1, B2. cbn [expect_table_map tm_db tm_name] in B1, B2.
  pose proof (Hc _ _ _ E) as H0. rewrite B1, B2, Hm in H0. inversion H0. reflexivity.
Qed.

Section Wire2.
Variables (c : cfg) (v : bytes) (tables : list (Z * (table_map * tinfo))).
Hypothesis Wc : wf_cfg c = true.
Notation f := (expect_format c v).

Lemma decode_wtablemap h t crc :
  wf_whdr h -> fits c (WTableMap h t crc) -> wf_table_def c t ->
  decode f tables (wire c (WTableMap h t crc)) = table_info_for mp tables (td_id t) (expect_table_map (c_pad_tm c) t).
Proof.
  intros Wh Hf Wt. unfold fits in Hf. cbn [wire wtype whead wbody wcrc] in *.
  destruct (ev_facts c v _ _ _ Wc (wf_hdr_of 19 h ltac:(lia) Wh) Hf) as (V & T0 & S & T & N & Ts).
  pose proof (tablemap_roundtrip c v (hdr_of 19 h) t crc Wc Wt) as R1. rewrite S in R1. cbn [bind] in R1.
  pose proof (tablemap_table_id c v (hdr_of 19 h) t crc Wc Wt eq_refl) as R2. rewrite S in R2. cbn [bind] in R2.
  eapply decode_table_map; eauto; reflexivity.
Qed.

Hypothesis tz_bounded : forall v, -86400 <= tz v <= 86400.
Hypothesis jsonp_model : jsonp = print_json efmt.      (* needed for JSON values only (wf_cols_family) *)

Lemma rows_type_in c0 kind : kind = 0 \/ kind = 1 \/ kind = 2 ->
  In (rows_type c0 kind) [23; 24; 25; 30; 31; 32] /\ rows_kind (rows_type c0 kind) = Some (4 + kind).
Proof.
  intros [-> | [-> | ->]]; unfold rows_type; destruct (c_v2 c0); cbn [In]; split; try reflexivity; lia.
Qed.

Lemma rows_images_wire pt t ti hr r :
  Forall (fun p => wf_type (fst p) = true) (td_cols t) -> length (ti_cols ti) = length (td_cols t) ->
  wf_rows_def (specs_cols (specs_of t ti)) r -> tinfo_of mp t = ti ->
  let rs := expect_rows c (map cs_type (specs_of t ti)) r in
  rows_images ffmt tz jsonp (expect_table_map pt t) ti rs
              (negb (4 + rd_kind r =? K_StatementInsert)) (negb (4 + rd_kind r =? K_StatementDelete)) (rs_rows rs) [] []
  = Ok (Some (se_ids (rows_sevent ffmt tz efmt mp t hr r), se_values (rows_sevent ffmt tz efmt mp t hr r))).
Proof.
  intros Hnj Hl (Hk & Hfl & Hex & Hn & Hb & Ha) Hti rs.
  set (specs := specs_of t ti) in *. set (cols := specs_cols specs) in *.
  assert (Lc : length (map cs_type specs) = length cols) by (unfold cols, specs_cols; rewrite !map_length; reflexivity).
  pose proof (wf_cols_family _ tz_bounded jsonp_model (specs_wf_types t ti Hl Hnj)) as Hnj'. fold specs in Hnj'. fold cols in Hnj'.
  pose proof (specs_tm_types t ti Hl pt) as Ht. pose proof (specs_tm_meta t ti Hl pt) as Hm. fold specs in Ht, Hm.
  pose proof (eq_sym (specs_names t ti Hl)) as Hn'. fold specs in Hn'.
  subst rs. unfold rows_sevent. rewrite Hti. fold specs. cbn [se_ids se_values expect_rows rs_rows rs_ident_cols rs_data_cols].
  rewrite expect_row_list_pairs by exact Hk.
  set (ipres := first_present (rd_before r) (length cols)).
  set (dpres := first_present (rd_after r) (length cols)).
  assert (Side : forall l img, wf_images cols l -> In img l -> img_ok specs (first_present l (length cols)) (Some img)).
  { intros l img W Hin. pose proof (first_present_length cols l W) as FL.
    unfold wf_images in W. rewrite Forall_forall in W. specialize (W img Hin).
    destruct (wf_image_parts _ _ _ W FL) as (_ & P & _ & _).
    exists img. auto. }
  set (rs := expect_rows c (map cs_type specs) r).
  assert (Hi : negb (4 + rd_kind r =? K_StatementInsert) = true -> rs_ident_cols rs = expect_bitmap (c_pad_cols c) ipres).
  { intros H. subst rs ipres. cbn [expect_rows rs_ident_cols]. rewrite Lc.
    destruct (Z.eqb_spec (rd_kind r) 0) as [E|E]; [|reflexivity]. rewrite E in H. discriminate H. }
  assert (Hd : negb (4 + rd_kind r =? K_StatementDelete) = true -> rs_data_cols rs = expect_bitmap (c_pad_cols c) dpres).
  { intros H. subst rs dpres. cbn [expect_rows rs_data_cols]. rewrite Lc.
    destruct (Z.eqb_spec (rd_kind r) 2) as [E|E]; [|reflexivity]. rewrite E in H. discriminate H. }
  rewrite (rows_images_pairs (c_pad_cols c) (c_pad_null c) (expect_table_map pt t) ti specs Hnj' Ht Hm Hn' rs _ _ ipres dpres (rd_kind r) Hi Hd).
  - cbn [rev app]. unfold before_images, after_images, row_pairs.
    destruct Hk as [K|[K|K]]; rewrite K; cbn [Z.add Z.eqb Pos.eqb negb K_StatementInsert K_StatementDelete Pos.add Pos.succ];
      rewrite ?map_map; cbn [fst snd side_cols]; reflexivity.
  - apply Forall_forall. intros p Hp. unfold row_pairs in Hp.
    destruct Hk as [K|[K|K]]; rewrite K in *; apply in_map_iff in Hp as (x & <- & Hx); split; cbn [fst snd]; intros W;
      try discriminate W.
    + apply (Side (rd_after r)); [apply Ha; lia|exact Hx].
    + apply (Side (rd_before r)); [apply Hb; lia|]. destruct x as [x y]. eapply in_combine_l; exact Hx.
    + apply (Side (rd_after r)); [apply Ha; lia|]. destruct x as [x y]. eapply in_combine_r; exact Hx.
    + apply (Side (rd_before r)); [apply Hb; lia|exact Hx].
Qed.

(* rows events: the table map cached for the id, every image rendered column by column *)
Lemma decode_wrows h pt t ti r crc :
  wf_whdr h -> fits c (WRows h (map fst (td_cols t)) r crc) -> wf_table_def c t ->
  length (ti_cols ti) = length (td_cols t) -> tinfo_of mp t = ti -> rd_id r = td_id t ->
  wf_rows_def (specs_cols (specs_of t ti)) r ->
  lookup_table (td_id t) tables = Some (expect_table_map pt t, ti) ->
  decode f tables (wire c (WRows h (map fst (td_cols t)) r crc)) =
    AStmt (rows_sevent ffmt tz efmt mp t h r) (w_next h) (w_ts h).
Proof.
  intros Wh Hf Wt Hl Hti Hid Wr Hlk. unfold fits in Hf.
  pose proof Wt as (_ & _ & _ & _ & _ & _ & Hnj).
  pose proof Wr as (Hk & _).
  pose proof (specs_cols_types t ti Hl) as E.
  assert (E2 : map fst (specs_cols (specs_of t ti)) = map cs_type (specs_of t ti)) by (unfold specs_cols; rewrite map_map; reflexivity).
  destruct (rows_type_facts c (rd_kind r) Hk) as (_ & _ & _ & Hr).
  destruct (rows_type_in c (rd_kind r) Hk) as (Hin & Hrk).
  cbn [wire wtype whead wbody wcrc] in *. rewrite <- E in *.
  destruct (ev_facts c v _ _ _ Wc (wf_hdr_of (rows_type c (rd_kind r)) h ltac:(lia) Wh) Hf) as (V & T0 & S & T & N & Ts).
  pose proof (rows_roundtrip_tm ffmt tz efmt jsonp c v (hdr_of (rows_type c (rd_kind r)) h) _ pt t r crc Wc
                (wf_cols_family _ tz_bounded jsonp_model (specs_wf_types t ti Hl Hnj)) Wr (eq_sym E) eq_refl) as R1.
  rewrite S in R1. cbn [bind] in R1.
  destruct Wt as (Hidr & _).
  pose proof (rows_table_id c v (hdr_of (rows_type c (rd_kind r)) h) (map fst (specs_cols (specs_of t ti))) r crc Wc Hk
                ltac:(rewrite Hid; exact Hidr) eq_refl) as R2.
  rewrite S in R2. cbn [bind] in R2. rewrite Hid in R2.
  pose proof (rows_images_wire pt t ti h r Hnj Hl Wr Hti) as R3. cbv zeta in R3. rewrite <- E2 in R3.
  rewrite (decode_rows_shape _ _ _ _ _ V T0 (format_nonzero c v) S T _ _ _ _ _ _ _ _ _ Hin Hrk R2 Hlk R1 Ts R3 N).
  cbn [hdr_of h_ts h_next]. f_equal. unfold rows_sevent. rewrite Hti. reflexivity.
Qed.

End Wire2.

End Decode.
