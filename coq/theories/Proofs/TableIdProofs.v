(* TableID with byte-typed positions (Model/Events.v ev_table_id) is the plain 4- / 6-byte little-endian read
   for every header length up to 250. *)
From Coq Require Import ZifyBool.
From GB Require Import Base.Prelude Base.BytesLemmas Base.GoSem Proofs.GoSemLemmas Proofs.TransTactics Model.Header Model.Events Spec.EncEvent.
Open Scope Z_scope.

Lemma ev_table_id_lin_eq f ev : 0 <= f_hlen f <= 250 -> ev_table_id f ev = ev_table_id_lin f ev.
Proof.
  intros H. unfold ev_table_id, ev_table_id_lin.
  destruct (ev_type ev) as [typ| |]; cbn [bind]; try reflexivity.
  destruct (header_size f typ) as [hs| |]; cbn [bind]; try reflexivity.
  destruct (hs =? 6).
  - destruct (256 <=? f_hlen f + 4) eqn:E; [lia|reflexivity].
  - rewrite !u8_small by lia. rewrite le_at_at_le0 by lia. cbn [at_le].
    set (p := Z.to_nat (f_hlen f)).
    replace (Z.to_nat (f_hlen f + 0)) with (p + 0)%nat by lia.
    replace (Z.to_nat (f_hlen f + 1)) with (p + 1)%nat by lia.
    replace (Z.to_nat (f_hlen f + 2)) with (p + 2)%nat by lia.
    replace (Z.to_nat (f_hlen f + 3)) with (p + 3)%nat by lia.
    replace (Z.to_nat (f_hlen f + 4)) with (p + 4)%nat by lia.
    replace (Z.to_nat (f_hlen f + 5)) with (p + 5)%nat by lia.
    repeat (match goal with |- context [at_ ?d ?q] => destruct (at_ d q) as [?b| |] end; cbn [bind]; try reflexivity).
Qed.

Lemma wf_cfg_hlen c : wf_cfg c = true -> 19 <= c_hlen c <= 250.
Proof.
  unfold wf_cfg. intros H.
  repeat match goal with H : _ && _ = true |- _ => apply andb_true_iff in H as [H ?] end.
  repeat match goal with H : (_ <=? _) = true |- _ => apply Z.leb_le in H end. lia.
Qed.
