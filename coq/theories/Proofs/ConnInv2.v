(* ConnInv2.v — the invariant behind C06: which reason the reader recorded, what the first Error() call
   returned, and how both relate to the caller's cancellation. *)
From GB Require Import Base.Prelude Model.Conn Proofs.ConnInv.
Open Scope nat_scope.

Definition pnil (s : state) : bool :=
  match ps s with PReturning RNil | PDeferClose RNil | PReturned RNil => true | _ => false end.

(* the first case of the filter as the first Error() call evaluated it:
   s.ctx.Err() == Canceled [&& !s.endedUncancelled after the K2 repair] *)
Definition filter_ctx (c : cfg) (s : state) : bool :=
  (canc_at_err s || (d9_wrong c && fix_d9 c)) && negb (fix_k2 c && ended_uncancelled s).

Definition Inv2 (c : cfg) (s : state) : Prop :=
  (rreason s = Some RCancel -> cancelled s = true \/ dcancelled s = true) /\
  (cancelled s = true -> canc_pre_ret s = false -> stream_returned s = true) /\
  (canc_pre_ret s = true -> cancelled s = true) /\
  (pnil s = true -> canc_pre_ret s = true \/ (rd s = RDone /\ rreason s <> Some RCancel)) /\
  (forall e, first_res s = Some e ->
     if s_chan s then exists r, rreason s = Some r /\ e = efilter (filter_ctx c s) r else e = ENil) /\
  (first_res s <> None -> canc_pre_ret s = true -> canc_at_err s = true) /\
  (canc_at_err s = true -> cancelled s = true) /\
  (cause s = Some CClosed -> evclosed s = true).

Lemma Inv2_init c : Inv2 c init.
Proof. unfold Inv2; cbn; intuition (try congruence; try discriminate). Qed.

Lemma Inv2_step c s l s' : Inv1 c s -> Inv2 c s -> step c s l = Some s' -> Inv2 c s'.
Proof.
  intros (HR & HP & HM) H2 H.
  destruct s; unfold rd_inv, ps_inv, misc_inv, Inv2, pnil, stream_returned, filter_ctx, efirst_case, ectx_err in *;
    cbn in HR, HP, HM, H2.
  destruct H2 as (A1 & A2 & A3 & A4 & A5 & A6 & A7 & A8).
  destruct l; cbn in H; break_step H; inversion H; subst; clear H; cbn in *;
    repeat apply conj; try assumption.
  all: intros; unfold rctx_done, ectx_err in *; cbn in *;
    repeat match goal with A : forall e, ?f = Some e -> _, E : ?f = Some _ |- _ => specialize (A _ E) end;
    rewrite ?orb_true_iff in *.
  all: try solve [fin_fast].
  all: try solve [destruct rd; fin_fast].
  all: try solve [destruct ps; fin_fast].
  all: try solve [destruct rd; fin].
  all: try solve [destruct ps; fin].
  all: try solve [destruct canc_pre_ret; destruct rd; fin].
  destruct HM as (_ & HM & _). specialize (HM eq_refl).
  inversion H; subst e; clear H.
  destruct ps; norm; try discriminate.
  destruct rd; norm; try discriminate;
    repeat match goal with H0 : _ :: _ = [_] |- _ => inversion H0; clear H0; subst end;
    eexists; split; eauto.
Qed.

Lemma reach_Inv2 c tr s : reach c tr s -> Inv2 c s.
Proof.
  induction 1; [apply Inv2_init | eapply Inv2_step; eauto]. eapply reach_Inv1; eauto.
Qed.

Lemma reachable_Inv2 c s : reachable c s -> Inv2 c s.
Proof. intros [tr H]; eapply reach_Inv2; eauto. Qed.
