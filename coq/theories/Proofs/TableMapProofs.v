(* C15 (a): a table-map event decodes to exactly the schema the master logged. *)
From GB Require Import Proofs.TableIdProofs Base.Prelude Base.BytesLemmas Model.Header Model.Events Model.Cell Model.Rbr.
From GB Require Import Spec.EncHeader Spec.Values Spec.EncEvent Spec.Expect.
From GB Require Import Proofs.CellCommon Proofs.BitmapProofs Proofs.EventFrame.
From GBGen Require Import Consts.
From Coq Require Import ZifyBool ZifyNat.
Open Scope Z_scope.
Ltac Zify.zify_post_hook ::= Z.div_mod_to_equations.

Definition col_metas (cols : list (coltype * bool)) : bytes := flat_map (fun p => meta_bytes (fst p)) cols.
Definition col_codes (cols : list (coltype * bool)) : bytes := map (fun p => code_of (fst p)) cols.

(* Well-formed table definition.  The two upper bounds are the decoder's own limits
   (ErrTooLarge above MaxInt32 for the column count and the metadata length); MySQL
   allows at most 4096 columns. *)
Definition wf_table_def (c : cfg) (t : table_def) : Prop :=
  0 <= td_id t < (if c_tid4 c then 2 ^ 32 else 2 ^ 48) /\
  0 <= td_flags t < 65536 /\
  len (td_db t) <= 255 /\ len (td_name t) <= 255 /\
  len (td_cols t) <= 2147483647 /\
  len (col_metas (td_cols t)) <= 2147483647 /\
  Forall (fun p => wf_type (fst p) = true) (td_cols t).

Lemma col_metas_length_le cols : (length (col_metas cols) <= 2 * length cols)%nat.
Proof.
  induction cols as [|p r IH]; [cbn; lia|].
  unfold col_metas in *. cbn [flat_map length]. rewrite app_length.
  pose proof (meta_bytes_length_le (fst p)). lia.
Qed.

(* the part of TableMap after the body and the post-header length have been fetched *)
Definition tm_parse (data : bytes) (pos : nat) : res table_map :=
  do flags <- le_at data pos 2;
  let pos := (pos + 2)%nat in
  do l <- at_ data pos;
  do db <- slice data (pos + 1) (Z.to_nat l);
  let pos := (pos + 1 + Z.to_nat l + 1)%nat in
  do l <- at_ data pos;
  do name <- slice data (pos + 1) (Z.to_nat l);
  let pos := (pos + 1 + Z.to_nat l + 1)%nat in
  do r <- read_lenenc data pos;
  match r with
  | None => Err ETooSmall
  | Some (cnt, npos) =>
    if cnt >? max_int32 then Err ETooLarge
    else
      do types <- take data npos cnt;
      let pos := (npos + Z.to_nat cnt)%nat in
      do r2 <- read_lenenc data pos;
      match r2 with
      | None => Err ETooSmall
      | Some (ml, npos2) =>
        if ml >? max_int32 then Err ETooLarge
        else
          do (metas, pend) <- read_metas types data npos2 [];
          if negb (Z.of_nat pend =? Z.of_nat npos2 + ml) then Err EMetaEnd
          else
            do (cbn, _) <- new_bitmap data pend (Z.to_nat cnt);
            Ok {| tm_flags := flags; tm_db := db; tm_name := name; tm_types := types;
                  tm_can_be_null := cbn; tm_meta := metas |}
      end
  end.

Lemma ev_table_map_unfold f ev :
  ev_table_map f ev =
  do data <- body f ev; do hs <- header_size f K_eTableMapEvent;
  tm_parse data (if hs =? 6 then 4%nat else 6%nat).
Proof. reflexivity. Qed.

Lemma read_metas_ok cols : forall pre rest acc,
  Forall (fun p => wf_type (fst p) = true) cols ->
  read_metas (col_codes cols) (pre ++ col_metas cols ++ rest) (length pre) acc
    = Ok (rev acc ++ map (fun p => meta_of (fst p)) cols, (length pre + length (col_metas cols))%nat).
Proof.
  induction cols as [|p r IH]; intros pre rest acc W.
  - cbn [col_codes map read_metas col_metas flat_map length]. rewrite rev_append_rev, !app_nil_r.
    do 2 f_equal. lia.
  - inversion W as [|? ? Wp Wr]; subst.
    unfold col_codes, col_metas in *. cbn [map flat_map read_metas].
    rewrite <- app_assoc. rewrite metadata_read_ok by exact Wp. cbn [bind].
    rewrite app_assoc. rewrite <- app_length. rewrite IH by exact Wr.
    rewrite !app_length. cbn [rev]. rewrite <- app_assoc. cbn [app].
    do 2 f_equal. lia.
Qed.

Lemma read_metas_seg d pre cols rest pos :
  d = pre ++ col_metas cols ++ rest -> pos = length pre ->
  Forall (fun p => wf_type (fst p) = true) cols ->
  read_metas (col_codes cols) d pos []
    = Ok (map (fun p => meta_of (fst p)) cols, (pos + length (col_metas cols))%nat).
Proof. intros -> -> W. rewrite read_metas_ok by exact W. reflexivity. Qed.

Section TMParse.
Variables (pad : Z) (tid : bytes) (flags : Z) (db nm : bytes) (cols : list (coltype * bool)) (opt : bytes).
Hypothesis Hflags : 0 <= flags < 65536.
Hypothesis Hcols : len cols <= 2147483647.
Hypothesis Hmetas : len (col_metas cols) <= 2147483647.
Hypothesis Hwf : Forall (fun p => wf_type (fst p) = true) cols.

Let data : bytes :=
  tid ++ le_enc 2 flags ++ [len db] ++ db ++ [0] ++ [len nm] ++ nm ++ [0] ++
  enc_lenenc (len cols) ++ col_codes cols ++ enc_lenenc (len (col_metas cols)) ++ col_metas cols ++
  pack_bits_pad pad (map snd cols) ++ opt.

Ltac seg := subst data; rewrite <- ?app_assoc; reflexivity.
Ltac lens := rewrite ?app_length, ?le_enc_length, ?enc_lenenc_length, ?map_length; cbn [length]; unfold len; lia.

Lemma tm_parse_ok :
  tm_parse data (length tid) =
  Ok {| tm_flags := flags; tm_db := db; tm_name := nm; tm_types := col_codes cols;
        tm_can_be_null := expect_bitmap pad (map snd cols);
        tm_meta := map (fun p => meta_of (fst p)) cols |}.
Proof.
  unfold tm_parse.
  erewrite (le_at_seg data tid (le_enc 2 flags)); [|seg|reflexivity|lens]. cbn [bind].
  rewrite le_dec_enc by (change (256 ^ Z.of_nat 2) with 65536; lia).
  erewrite (at_seg data (tid ++ le_enc 2 flags) (len db)); [|seg|lens]. cbn [bind].
  erewrite (slice_seg data (tid ++ le_enc 2 flags ++ [len db]) db); [|seg|lens|lens]. cbn [bind].
  erewrite (at_seg data (tid ++ le_enc 2 flags ++ [len db] ++ db ++ [0]) (len nm)); [|seg|lens]. cbn [bind].
  erewrite (slice_seg data (tid ++ le_enc 2 flags ++ [len db] ++ db ++ [0] ++ [len nm]) nm); [|seg|lens|lens]. cbn [bind].
  set (P7 := tid ++ le_enc 2 flags ++ [len db] ++ db ++ [0] ++ [len nm] ++ nm ++ [0]).
  erewrite (read_lenenc_seg data P7 (len cols)); [|subst P7; seg|subst P7; lens|pose proof (len_nonneg cols); lia].
  cbn [bind]. unfold max_int32.
  destruct (Z.gtb_spec (len cols) 2147483647) as [G|_]; [lia|].
  set (q8 := (_ + lenenc_size (len cols))%nat).
  assert (Q8 : q8 = length (P7 ++ enc_lenenc (len cols))) by (subst q8 P7; lens).
  erewrite (take_seg data (P7 ++ enc_lenenc (len cols)) (col_codes cols)); [|subst P7; seg|exact Q8|unfold col_codes, len; rewrite map_length; reflexivity].
  cbn [bind].
  set (P9 := P7 ++ enc_lenenc (len cols) ++ col_codes cols).
  assert (Q9 : (q8 + Z.to_nat (len cols))%nat = length P9).
  { rewrite Q8. subst P9. unfold col_codes. lens. }
  erewrite (read_lenenc_seg data P9 (len (col_metas cols))); [|subst P9 P7; seg|exact Q9|pose proof (len_nonneg (col_metas cols)); lia].
  cbn [bind].
  destruct (Z.gtb_spec (len (col_metas cols)) 2147483647) as [G|_]; [lia|].
  set (P10 := P9 ++ enc_lenenc (len (col_metas cols))).
  assert (Q10 : (q8 + Z.to_nat (len cols) + lenenc_size (len (col_metas cols)))%nat = length P10).
  { rewrite Q9. subst P10. lens. }
  erewrite (read_metas_seg data P10 cols); [|subst P10 P9 P7; seg|exact Q10|exact Hwf].
  cbn [bind].
  match goal with |- context [negb ?b] => replace b with true by (symmetry; apply Z.eqb_eq; unfold len; lia) end.
  cbn [negb].
  erewrite (new_bitmap_seg pad data (P10 ++ col_metas cols) (map snd cols));
    [|subst P10 P9 P7; seg|rewrite Q10; lens|rewrite map_length; unfold len; lia].
  cbn [bind]. reflexivity.
Qed.
End TMParse.

Lemma post_header_tm c : post_header c 19 = if c_tid4 c then 6 else 8.
Proof. reflexivity. Qed.

Lemma expect_table_map_eq pad t :
  expect_table_map pad t =
  {| tm_flags := td_flags t; tm_db := td_db t; tm_name := td_name t; tm_types := col_codes (td_cols t);
     tm_can_be_null := expect_bitmap pad (map snd (td_cols t));
     tm_meta := map (fun p => meta_of (fst p)) (td_cols t) |}.
Proof. reflexivity. Qed.

(* TableMap on the event the master wrote (any header length, checksum on or off, 4- or 6-byte
   table id, any padding pattern in the unused bits of the NULL bitmap, any optional metadata after it) *)
Theorem tablemap_roundtrip c v h t crc :
  wf_cfg c = true -> wf_table_def c t ->
  (do ev <- strip_checksum56 (expect_format c v) (enc_ev c h (enc_table_map_body c t) crc);
   ev_table_map (expect_format c v) ev) = Ok (expect_table_map (c_pad_tm c) t).
Proof.
  intros Wc (Hid & Hfl & Hdb & Hnm & Hn & Hm & Hty).
  rewrite strip_enc_ev. cbn [bind]. rewrite ev_table_map_unfold.
  rewrite body_frame by exact Wc. cbn [bind].
  rewrite header_size_ok by (auto; unfold K_eTableMapEvent; lia). cbn [bind].
  change K_eTableMapEvent with 19. rewrite post_header_tm.
  rewrite expect_table_map_eq.
  replace (if (if c_tid4 c then 6 else 8) =? 6 then 4%nat else 6%nat) with (length (enc_table_id c (td_id t)))
    by (rewrite enc_table_id_length; destruct (c_tid4 c); reflexivity).
  unfold enc_table_map_body. fold (col_metas (td_cols t)). fold (col_codes (td_cols t)).
  apply tm_parse_ok; auto; lia.
Qed.

Theorem tablemap_table_id c v h t crc :
  wf_cfg c = true -> wf_table_def c t -> h_type h = 19 ->
  (do ev <- strip_checksum56 (expect_format c v) (enc_ev c h (enc_table_map_body c t) crc);
   ev_table_id (expect_format c v) ev) = Ok (td_id t).
Proof.
  intros Wc (Hid & _) Hh.
  rewrite strip_enc_ev. cbn [bind].
  rewrite ev_table_id_lin_eq by (cbn [expect_format f_hlen]; pose proof (wf_cfg_hlen c Wc); lia). unfold ev_table_id_lin.
  rewrite ev_type_frame, Hh. cbn [bind].
  rewrite header_size_ok by (auto; lia). cbn [bind]. rewrite post_header_tm.
  unfold enc_table_map_body, enc_table_id. cbn [expect_format f_hlen].
  destruct (c_tid4 c); cbn [Z.eqb Pos.eqb].
  - rewrite le_at_frame_body by (auto; rewrite le_enc_length; reflexivity).
    rewrite le_dec_enc by (change (256 ^ Z.of_nat 4) with (2 ^ 32); lia). reflexivity.
  - rewrite le_at_frame_body by (auto; rewrite le_enc_length; reflexivity).
    rewrite le_dec_enc by (change (256 ^ Z.of_nat 6) with (2 ^ 48); lia). reflexivity.
Qed.
