From GB Require Import Base.Prelude Base.BytesLemmas Model.Header Spec.EncHeader.
From GBGen Require Import Consts.
Open Scope Z_scope.

(* the generated offsets are the documented v4 header layout *)
Lemma gen_header_layout :
  (lits_IsValid, lits_Type, lits_Flags, lits_Timestamp, lits_ServerID, lits_Length, lits_NextPosition)
  = ([19; 19], [4], [17; 19], [-1; 4], [5; 9], [9; 13], [13; 17]).
Proof. reflexivity. Qed.

Lemma ev_length_eq ev : ev_length ev = le_at ev 9 4.
Proof. reflexivity. Qed.

Lemma le_at_ok d p n : (p + n <= length d)%nat -> le_at d p n = Ok (le_dec (firstn n (skipn p d))).
Proof. intros H. unfold le_at. rewrite slice_ok by auto. reflexivity. Qed.

(* IsValid never panics *)
Lemma is_valid_total ev : exists b, is_valid ev = Ok b.
Proof.
  unfold is_valid. change hdr_min with 19. change hdr_min2 with 19.
  destruct (len ev <? 19) eqn:E; [eauto|].
  apply Z.ltb_ge in E. unfold len in E.
  rewrite ev_length_eq, le_at_ok by lia. cbn [bind].
  destruct (_ || _); eauto.
Qed.

(* exact characterisation of the accepted buffers *)
Theorem is_valid_exact ev :
  wf_bytes ev -> len ev < 2 ^ 32 ->
  (is_valid ev = Ok true <->
   19 <= len ev /\ le_dec (firstn 4 (skipn 9 ev)) = len ev).
Proof.
  intros Hwf Hlen. unfold is_valid. change hdr_min with 19. change hdr_min2 with 19.
  destruct (len ev <? 19) eqn:E.
  - apply Z.ltb_lt in E. split; [discriminate | lia].
  - apply Z.ltb_ge in E. pose proof E as E'. unfold len in E'.
    rewrite ev_length_eq, le_at_ok by lia. cbn [bind].
    unfold u32. rewrite (Z.mod_small (len ev)) by (unfold len in *; lia).
    set (L := le_dec _).
    destruct (Z.ltb_spec L 19); destruct (Z.eqb_spec L (len ev)); cbn [orb negb];
      split; intro HH; try discriminate; try reflexivity; try lia; destruct HH; try lia.
Qed.

(* for buffers of any length, including >= 2^32 (the uint32 wrap is explicit) *)
Theorem is_valid_exact_wrap ev :
  wf_bytes ev ->
  (is_valid ev = Ok true <->
   19 <= len ev /\ 19 <= le_dec (firstn 4 (skipn 9 ev)) /\
   le_dec (firstn 4 (skipn 9 ev)) = len ev mod 2 ^ 32).
Proof.
  intros Hwf. unfold is_valid. change hdr_min with 19. change hdr_min2 with 19.
  destruct (len ev <? 19) eqn:E.
  - apply Z.ltb_lt in E. split; [discriminate | lia].
  - apply Z.ltb_ge in E. pose proof E as E'. unfold len in E'.
    rewrite ev_length_eq, le_at_ok by lia. cbn [bind]. unfold u32.
    change 4294967296 with (2 ^ 32).
    set (L := le_dec _). set (M := len ev mod 2 ^ 32).
    destruct (Z.ltb_spec L 19); destruct (Z.eqb_spec L M); cbn [orb negb];
      split; intro HH; try discriminate; try reflexivity; try lia; destruct HH as (?&?&?); try lia.
Qed.

(* every header accessor succeeds on an accepted buffer *)
Theorem accessors_total ev :
  is_valid ev = Ok true ->
  (exists a, ev_type ev = Ok a) /\ (exists a, ev_flags ev = Ok a) /\
  (exists a, ev_timestamp ev = Ok a) /\ (exists a, ev_server_id ev = Ok a) /\
  (exists a, ev_length ev = Ok a) /\ (exists a, ev_next_position ev = Ok a).
Proof.
  unfold is_valid. change hdr_min with 19.
  destruct (len ev <? 19) eqn:E; [discriminate|]. intros _.
  apply Z.ltb_ge in E. unfold len in E.
  repeat split.
  - destruct (at_ok ev 4 ltac:(lia)) as (b & Hb & _). exists b. exact Hb.
  - eexists. unfold ev_flags. change (lit lits_Flags 0) with 17%nat.
    change (lit lits_Flags 1 - 17)%nat with 2%nat. apply le_at_ok. lia.
  - eexists. unfold ev_timestamp. change (lit lits_Timestamp 1) with 4%nat. apply le_at_ok. lia.
  - eexists. unfold ev_server_id. change (lit lits_ServerID 0) with 5%nat.
    change (lit lits_ServerID 1 - 5)%nat with 4%nat. apply le_at_ok. lia.
  - eexists. rewrite ev_length_eq. apply le_at_ok. lia.
  - eexists. unfold ev_next_position. change (lit lits_NextPosition 0) with 13%nat.
    change (lit lits_NextPosition 1 - 13)%nat with 4%nat. apply le_at_ok. lia.
Qed.

Corollary is_valid_spec ev :
  wf_bytes ev -> len ev < 2 ^ 32 -> is_valid ev = Ok (spec_is_valid ev).
Proof.
  intros Hwf Hlen. pose proof (is_valid_exact ev Hwf Hlen) as H.
  destruct (is_valid_total ev) as [b Hb]. rewrite Hb. f_equal.
  unfold spec_is_valid.
  destruct b.
  - apply H in Hb as [H1 H2]. symmetry. apply andb_true_iff. split; [apply Z.leb_le; auto | apply Z.eqb_eq; auto].
  - destruct ((19 <=? len ev) && _) eqn:E; auto.
    apply andb_true_iff in E as [E1 E2]. apply Z.leb_le in E1. apply Z.eqb_eq in E2.
    assert (is_valid ev = Ok true) by (apply H; auto). congruence.
Qed.
