(* The frame of an encoded event: checksum stripping, body extraction, type byte and
   post-header length lookup, for events built by Spec.EncEvent.enc_ev under the
   format description expect_format.  Shared by C09 and C15. *)
From GB Require Import Base.Prelude Base.BytesLemmas Model.Header Model.Events Model.Cell Model.Rbr.
From GB Require Import Spec.EncHeader Spec.Values Spec.EncEvent Spec.Expect Proofs.CellCommon Proofs.BitmapProofs.
From GBGen Require Import Consts.
From Coq Require Import ZifyBool ZifyNat.
Open Scope Z_scope.
Ltac Zify.zify_post_hook ::= Z.div_mod_to_equations.

(* the event as the decoders see it, after the checksum has been removed *)
Definition frame (c : cfg) (h : hdr) (body crc : bytes) : bytes :=
  enc_header_len h (c_hlen c + len body + len (crc_bytes c crc)) ++ repeat 0 (Z.to_nat (c_hlen c - 19)) ++ body.

Lemma enc_header_len_length h total : length (enc_header_len h total) = 19%nat.
Proof. unfold enc_header_len. rewrite !app_length, !le_enc_length. reflexivity. Qed.

Lemma pad_right_length n : forall l, length (pad_right n l) = n.
Proof. induction n as [|n IH]; intros l; [reflexivity|]. destruct l; cbn [pad_right length]; rewrite IH; reflexivity. Qed.

Lemma crc_bytes_length c crc : length (crc_bytes c crc) = if c_crc c then 4%nat else 0%nat.
Proof.
  unfold crc_bytes. destruct (c_crc c); [|reflexivity].
  rewrite firstn_length, pad_right_length. reflexivity.
Qed.

Lemma enc_ev_frame c h body crc : enc_ev c h body crc = frame c h body crc ++ crc_bytes c crc.
Proof. unfold enc_ev, frame. rewrite <- !app_assoc. reflexivity. Qed.

(* StripChecksum (MySQL 5.6 flavour) removes exactly the checksum the master appended *)
Lemma strip_enc_ev c v h body crc :
  strip_checksum56 (expect_format c v) (enc_ev c h body crc) = Ok (frame c h body crc).
Proof.
  rewrite enc_ev_frame. unfold strip_checksum56, expect_format, alg_of. cbn [f_alg].
  pose proof (crc_bytes_length c crc) as L. unfold crc_bytes in *.
  destruct (c_crc c).
  - cbn [Z.eqb Pos.eqb orb K_BinlogChecksumAlgOff K_BinlogChecksumAlgUndef K_BinlogChecksumAlgCRC32].
    rewrite app_length, L.
    destruct (Nat.ltb_spec (length (frame c h body crc) + 4) 4); [lia|].
    replace (length (frame c h body crc) + 4 - 4)%nat with (length (frame c h body crc)) by lia.
    rewrite firstn_app_exact. reflexivity.
  - cbn [Z.eqb orb K_BinlogChecksumAlgOff]. rewrite app_nil_r. reflexivity.
Qed.

Lemma frame_split c h body crc : wf_cfg c = true ->
  exists pre, frame c h body crc = pre ++ body /\ length pre = Z.to_nat (c_hlen c).
Proof.
  intros W. unfold wf_cfg in W.
  exists (enc_header_len h (c_hlen c + len body + len (crc_bytes c crc)) ++ repeat 0 (Z.to_nat (c_hlen c - 19))).
  split; [unfold frame; rewrite <- app_assoc; reflexivity|].
  rewrite app_length, enc_header_len_length, repeat_length. lia.
Qed.

Lemma body_frame c v h bd crc : wf_cfg c = true ->
  body (expect_format c v) (frame c h bd crc) = Ok bd.
Proof.
  intros W. destruct (frame_split c h bd crc W) as (pre & E & L). rewrite E.
  unfold body, slice_from, expect_format. cbn [f_hlen]. rewrite <- L.
  rewrite app_length. destruct (Nat.leb_spec (length pre) (length pre + length bd)); [|lia].
  rewrite skipn_app_exact. reflexivity.
Qed.

Lemma ev_type_frame c h bd crc : ev_type (frame c h bd crc) = Ok (h_type h).
Proof.
  unfold ev_type. change (lit lits_Type 0) with 4%nat. unfold frame, enc_header_len.
  rewrite <- !app_assoc.
  replace 4%nat with (length (le_enc 4 (h_ts h))) by apply le_enc_length.
  cbn [app]. apply at_mid.
Qed.

(* reading at the start of the body through the whole event (TableID reads ev[hlen:...]) *)
Lemma le_at_frame_body c h x rest crc n : wf_cfg c = true -> n = length x ->
  le_at (frame c h (x ++ rest) crc) (Z.to_nat (c_hlen c)) n = Ok (le_dec x).
Proof.
  intros W Hn. destruct (frame_split c h (x ++ rest) crc W) as (pre & E & L). rewrite E, <- L.
  apply le_at_mid. exact Hn.
Qed.

(* the post-header length table *)
Lemma sizes_from_nth c n : forall t k, (k < n)%nat ->
  nth_error (sizes_from c t n) k = Some (post_header c (t + Z.of_nat k)).
Proof.
  induction n as [|n IH]; intros t k H; [lia|].
  cbn [sizes_from]. destruct k.
  - cbn [nth_error]. f_equal. f_equal. lia.
  - cbn [nth_error]. rewrite IH by lia. do 2 f_equal. lia.
Qed.

Lemma header_size_ok c v typ : wf_cfg c = true -> 1 <= typ <= 35 ->
  header_size (expect_format c v) typ = Ok (post_header c typ).
Proof.
  intros W Ht. unfold wf_cfg in W. unfold header_size, expect_format, at_, sizes_table. cbn [f_sizes].
  unfold u8. rewrite Z.mod_small by lia.
  rewrite sizes_from_nth by lia. do 2 f_equal. lia.
Qed.

Lemma enc_table_id_length c id : length (enc_table_id c id) = if c_tid4 c then 4%nat else 6%nat.
Proof. unfold enc_table_id. destruct (c_tid4 c); apply le_enc_length. Qed.

(* access by segment: the data is pre ++ x ++ rest and the position is the length of pre *)
Lemma le_at_seg d pre x rest pos n :
  d = pre ++ x ++ rest -> pos = length pre -> n = length x -> le_at d pos n = Ok (le_dec x).
Proof. intros -> -> ->. apply le_at_mid. reflexivity. Qed.

Lemma at_seg d pre b rest pos : d = pre ++ b :: rest -> pos = length pre -> at_ d pos = Ok b.
Proof. intros -> ->. apply at_mid. Qed.

Lemma slice_seg d pre x rest pos n :
  d = pre ++ x ++ rest -> pos = length pre -> n = length x -> slice d pos n = Ok x.
Proof. intros -> -> ->. apply slice_app_mid. reflexivity. Qed.

Lemma take_seg d pre x rest pos l :
  d = pre ++ x ++ rest -> pos = length pre -> l = len x -> take d pos l = Ok x.
Proof. intros -> -> ->. apply take_mid. reflexivity. Qed.

Lemma read_lenenc_seg d pre n rest pos :
  d = pre ++ enc_lenenc n ++ rest -> pos = length pre -> 0 <= n < 2 ^ 64 ->
  read_lenenc d pos = Ok (Some (n, (pos + lenenc_size n)%nat)).
Proof. intros -> -> H. rewrite read_lenenc_ok by exact H. rewrite enc_lenenc_length. reflexivity. Qed.

Lemma new_bitmap_seg pad d pre bits rest pos n :
  d = pre ++ pack_bits_pad pad bits ++ rest -> pos = length pre -> n = length bits ->
  new_bitmap d pos n = Ok (expect_bitmap pad bits, (pos + (n + 7) / 8)%nat).
Proof. intros -> -> ->. apply new_bitmap_ok. Qed.
