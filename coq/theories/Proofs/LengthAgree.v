(* C09, third clause: the per-type length rule (cellLength) and the per-type
   value decoder (CellBytes) agree on the size of a cell, for ALL data. *)
From GB Require Import Base.Prelude Base.BytesLemmas Base.DecText Base.GoFmt Model.Cell.
From GBGen Require Import Consts.
From Coq Require Import ZifyBool.
Open Scope Z_scope.
Ltac Zify.zify_post_hook ::= Z.div_mod_to_equations.

(* The only metadata on which the two functions really differ: fractional-seconds
   precision above 6 for TIMESTAMP2 / DATETIME2 (CellBytes then reads no fractional
   bytes at all, cellLength still counts (meta+1)/2 of them).  MySQL never writes
   such metadata (fsp is 0..6). *)
Definition valid_meta (typ meta : Z) : Prop :=
  typ = K_TypeTimestamp2 \/ typ = K_TypeDateTime2 -> 0 <= meta <= 6.

Section Agree.
Variable ffmt : Z -> Z -> bytes.
Variable tz : Z -> Z.
Variable jsonp : bytes -> res bytes.

Ltac binv H :=
  match type of H with
  | bind ?e _ = Ok _ => let E := fresh "E" in destruct e eqn:E; cbn [bind] in H; [|discriminate H|discriminate H]
  end.

Lemma frac_suffix_len d p m fr n : frac_suffix d p m = Ok (fr, n) -> 0 <= m <= 6 -> n = (m + 1) / 2.
Proof.
  intros H Hm. unfold frac_suffix in H.
  assert (m = 0 \/ m = 1 \/ m = 2 \/ m = 3 \/ m = 4 \/ m = 5 \/ m = 6) as C by lia.
  destruct C as [-> | [-> | [-> | [-> | [-> | [-> | ->]]]]]]; cbn [Z.eqb Pos.eqb orb] in H;
    try binv H; inversion H; reflexivity.
Qed.

Lemma decode_enum_len d p m v l : decode_enum d p m = Ok (v, l) -> l = band m 255.
Proof.
  unfold decode_enum. intros H.
  destruct (band m 255 =? 1) eqn:E1.
  - apply Z.eqb_eq in E1. binv H. inversion H. lia.
  - destruct (band m 255 =? 2) eqn:E2; [|discriminate].
    apply Z.eqb_eq in E2. binv H. inversion H. lia.
Qed.

Lemma decode_lenpfx_len d p two v l : decode_lenpfx d p two = Ok (v, l) ->
  (if two then do l <- le_at d p 2; Ok (l + 2) else do l <- at_ d p; Ok (l + 1)) = Ok l.
Proof.
  unfold decode_lenpfx. intros H. destruct two; binv H; binv H; inversion H; reflexivity.
Qed.

Lemma decode_decimal_len d p m v l : decode_decimal d p m = Ok (v, l) ->
  (do (_, _, _, _, _, l) <- decimal_size m; Ok l) = Ok l.
Proof.
  unfold decode_decimal. intros H.
  destruct (decimal_size m) as [[[[[[a b] c] e] s] l0]| |]; cbn [bind] in *; try discriminate.
  binv H. destruct a0 as [|b0 rest]; [discriminate|].
  binv H. binv H.
  destruct (0 <? a1); binv H; destruct a2 as [[t2 f2] p2];
    (destruct (s =? 0); [inversion H; reflexivity|]);
    binv H; destruct a2 as [t5 p5]; binv H;
    (destruct (a2 =? 0); [inversion H; reflexivity|]);
    binv H; inversion H; reflexivity.
Qed.

Ltac subst_typ E :=
  repeat match type of E with
  | (_ || _) = true => apply orb_true_iff in E; destruct E as [E|E]
  end; apply Z.eqb_eq in E; subst.

Theorem length_value_agree d p typ meta uns v l :
  cell_bytes ffmt tz jsonp d p typ meta uns = Ok (v, l) -> valid_meta typ meta ->
  cell_length d p typ meta = Ok l.
Proof.
  intros H V. unfold cell_bytes in H.
  repeat match type of H with
  | (if ?c then _ else _) = Ok _ =>
    match c with
    | context [typ] => let T := fresh "T" in destruct c eqn:T; [subst_typ T | ]
    end
  end.
  all: try discriminate H.
  all: try (binv H; inversion H; reflexivity).
  - (* INT24 *) binv H. destruct (_ && _); inversion H; reflexivity.
  - (* VARCHAR *) apply decode_lenpfx_len in H. exact H.
  - apply decode_lenpfx_len in H. exact H.
  - (* TIMESTAMP2 *) binv H. binv H. destruct a0 as [fr n]. inversion H; subst.
    apply frac_suffix_len in E0; [|apply V; auto]. subst n. reflexivity.
  - (* DATETIME2 *) binv H. binv H. destruct a0 as [fr n]. inversion H; subst.
    apply frac_suffix_len in E0; [|apply V; auto]. subst n. reflexivity.
  - (* TIME2 *) binv H. binv H. destruct a0 as [hms fr]. inversion H; subst. reflexivity.
  - (* NEWDECIMAL *) apply decode_decimal_len in H. exact H.
  - (* ENUM *) apply decode_enum_len in H. subst l. reflexivity.
  - (* JSON *) binv H. binv H. change (cell_length d p K_TypeJSON meta) with (do l <- blob_len d p meta; Ok (meta + l)).
    rewrite E. cbn [bind]. cbn [K_TypeJSON Z.eqb Pos.eqb] in H.
    destruct (jsonp a0); inversion H. f_equal. lia.
  - binv H. binv H. change (cell_length d p K_TypeTinyBlob meta) with (do l <- blob_len d p meta; Ok (meta + l)).
    rewrite E. cbn [bind]. inversion H. f_equal. lia.
  - binv H. binv H. change (cell_length d p K_TypeMediumBlob meta) with (do l <- blob_len d p meta; Ok (meta + l)).
    rewrite E. cbn [bind]. inversion H. f_equal. lia.
  - binv H. binv H. change (cell_length d p K_TypeLongBlob meta) with (do l <- blob_len d p meta; Ok (meta + l)).
    rewrite E. cbn [bind]. inversion H. f_equal. lia.
  - binv H. binv H. change (cell_length d p K_TypeBlob meta) with (do l <- blob_len d p meta; Ok (meta + l)).
    rewrite E. cbn [bind]. inversion H. f_equal. lia.
  - (* STRING *)
    change (cell_length d p K_TypeString meta) with
      (let t := shr meta 8 in
       if (t =? K_TypeEnum) || (t =? K_TypeSet) then Ok (band meta 255)
       else if string_max meta >? 255 then do l <- le_at d p 2; Ok (l + 2)
       else do l <- at_ d p; Ok (l + 1)).
    cbv zeta. destruct (shr meta 8 =? K_TypeEnum) eqn:TE; cbn [orb].
    + apply decode_enum_len in H. subst l. reflexivity.
    + destruct (shr meta 8 =? K_TypeSet) eqn:TS.
      * binv H. inversion H. reflexivity.
      * apply decode_lenpfx_len in H. exact H.
  - (* GEOMETRY *) binv H. binv H. change (cell_length d p K_TypeGeometry meta) with (do l <- blob_len d p meta; Ok (meta + l)).
    rewrite E. cbn [bind]. inversion H. f_equal. lia.
Qed.

(* outside valid_meta the two functions really differ (recorded; not reachable from a MySQL table map) *)
Lemma length_value_differ_fsp7 :
  exists d v l l', cell_bytes ffmt tz jsonp d 0 K_TypeTimestamp2 7 false = Ok (v, l) /\ 
    cell_length d 0 K_TypeTimestamp2 7 = Ok l' /\ l <> l'.
Proof.
  exists [0; 0; 0; 0], (Some (print_timestamp tz 0 ++ [])), 4, 8.
  repeat split; try reflexivity. lia.
Qed.
End Agree.
