(* Go's integer formatting verbs (Base.GoFmt: the model) against the
   specification's digit strings (Base.DecText). *)
From GB Require Import Base.Prelude Base.DecText Base.GoFmt.
Open Scope Z_scope.

Lemma pad0_zero k : pad0 k 0 = repeat 48 k.
Proof.
  induction k as [|k IH]; [reflexivity|].
  rewrite pad0_S. change (0 / 10) with 0. change (48 + 0 mod 10) with 48.
  rewrite IH. symmetry. apply repeat_cons.
Qed.

Lemma digs_length_step n : 10 <= n -> List.length (digs n) = S (List.length (digs (n / 10))).
Proof. intros H. rewrite digs_step by auto. rewrite app_length. cbn [List.length]. lia. Qed.

Lemma pad0_lpad k : forall n, 0 <= n < 10 ^ Z.of_nat (S k) ->
  pad0 (S k) n = repeat 48 (S k - List.length (digs n)) ++ digs n.
Proof.
  induction k as [|k IH]; intros n Hn.
  - change (10 ^ Z.of_nat 1) with 10 in Hn. rewrite digs_small by lia.
    unfold pad0. cbn [pad0_acc List.length Nat.sub repeat app]. rewrite Z.mod_small by lia. reflexivity.
  - destruct (Z_lt_le_dec n 10) as [Hs|Hb].
    + rewrite pad0_S. rewrite Z.div_small by lia. rewrite Z.mod_small by lia.
      rewrite pad0_zero, digs_small by lia. cbn [List.length].
      replace (S (S k) - 1)%nat with (S k) by lia. reflexivity.
    + rewrite pad0_S. rewrite IH.
      * rewrite (digs_length_step n) by lia. rewrite (digs_step n) by lia.
        replace (S (S k) - S (List.length (digs (n / 10))))%nat
          with (S k - List.length (digs (n / 10)))%nat by lia.
        rewrite app_assoc. reflexivity.
      * rewrite (Nat2Z.inj_succ (S k)), Z.pow_succ_r in Hn by lia.
        split; [apply Z.div_pos; lia | apply Z.div_lt_upper_bound; lia].
Qed.

Lemma fmt_0d_pad0 w v : (0 < w)%nat -> 0 <= v < 10 ^ Z.of_nat w -> fmt_0d w v = pad0 w v.
Proof.
  intros Hw Hv. destruct w as [|k]; [lia|].
  unfold fmt_0d. destruct (Z.ltb_spec v 0); [lia|].
  unfold lpad. symmetry. apply pad0_lpad. exact Hv.
Qed.

Lemma fmt_d_nonneg v : 0 <= v -> fmt_d v = digs v.
Proof. intros H. unfold fmt_d, digs_Z. destruct (Z.ltb_spec v 0); [lia|reflexivity]. Qed.

