(* Per-case equivalences for gen/TransCellBytes.v, family Decimal: see TransEquivCellBytesDefs.v (case_ok) and
   TransEquivCellBytes.v (CellBytes_equiv). *)
From Coq Require Import ZifyBool.
From GB Require Import Base.Prelude Base.GoSem Base.DecText Base.GoFmt Base.BytesLemmas Proofs.GoSemLemmas Proofs.TransTactics.
From GB Require Import Model.Cell Proofs.TransEquivCellBytesDefs.
From GBGen Require Import Consts TransCellBytes.
Open Scope Z_scope.
Ltac Zify.zify_post_hook ::= Z.to_euclidean_division_equations.

(* ------------------------------------------------------------------------------------------------------------------
   The generated definition, cut into its pieces.  A loop counts as a branch that leaves, so the text after
   `if isNegative {...}` occurs twice in CellBytes_TypeNewDecimal_g; both occurrences are g_cont below (g_unfold, by
   conversion). *)
Section Pieces.
Variable v_d : bytes.
Variables v_intg0 v_intg0x v_scale v_frac0 v_frac0x v_l : Z.

Definition g_frac_tail (v_txt : bytes) (v_pos : Z) : res (bytes * Z) :=
  do t118 <- go_idx tab_dig2bytes v_frac0x;
  if (t118 =? 0) then (
  Ok (v_txt, v_l)
  ) else (
  if (t118 =? 1) then (
  do t119 <- go_idx v_d v_pos; let v_val := t119 in

  do v_txt <- (if (v_frac0x =? 1) then (
  let v_txt := (v_txt ++ ((fmt_0d 1 v_val))) in
  Ok v_txt
  ) else (
  let v_txt := (v_txt ++ ((fmt_0d 2 v_val))) in
  Ok v_txt
  ));
  Ok (v_txt, v_l)
  ) else (
  if (t118 =? 2) then (
  do t120 <- go_idx v_d v_pos; do t121 <- go_idx v_d (i64 (v_pos + 1)); let v_val := (u32 ((go_shl u32 t120 8) + t121)) in

  do v_txt <- (if (v_frac0x =? 3) then (
  let v_txt := (v_txt ++ ((fmt_0d 3 v_val))) in
  Ok v_txt
  ) else (
  let v_txt := (v_txt ++ ((fmt_0d 4 v_val))) in
  Ok v_txt
  ));
  Ok (v_txt, v_l)
  ) else (
  if (t118 =? 3) then (
  do t122 <- go_idx v_d v_pos; do t123 <- go_idx v_d (i64 (v_pos + 1)); do t124 <- go_idx v_d (i64 (v_pos + 2)); let v_val := (u32 ((u32 ((go_shl u32 t122 16) + (go_shl u32 t123 8))) + t124)) in

  do v_txt <- (if (v_frac0x =? 5) then (
  let v_txt := (v_txt ++ ((fmt_0d 5 v_val))) in
  Ok v_txt
  ) else (
  let v_txt := (v_txt ++ ((fmt_0d 6 v_val))) in
  Ok v_txt
  ));
  Ok (v_txt, v_l)
  ) else (
  if (t118 =? 4) then (
  do t125 <- go_idx v_d v_pos; do t126 <- go_idx v_d (i64 (v_pos + 1)); do t127 <- go_idx v_d (i64 (v_pos + 2)); do t128 <- go_idx v_d (i64 (v_pos + 3)); let v_val := (u32 ((u32 ((u32 ((go_shl u32 t125 24) + (go_shl u32 t126 16))) + (go_shl u32 t127 8))) + t128)) in

  do v_txt <- (if (v_frac0x =? 7) then (
  let v_txt := (v_txt ++ ((fmt_0d 7 v_val))) in
  Ok v_txt
  ) else (
  let v_txt := (v_txt ++ ((fmt_0d 8 v_val))) in
  Ok v_txt
  ));
  Ok (v_txt, v_l)
  ) else (
  Ok (v_txt, v_l)))))).

Definition g_frac_loop : nat -> Z -> bytes -> Z -> Z -> res (bytes * Z) :=
  (fix loop115 (fuel3 : nat) (v_val : Z) (v_txt : bytes) (v_pos : Z) (v_i : Z) {struct fuel3} : res (bytes * Z) :=
  match fuel3 with O => Err EOutOfFuel | S fuel3p =>

  if (v_i <? v_frac0) then (
  do t117 <- go_slice v_d v_pos (i64 (v_pos + 4)); do t116 <- go_be t117 4; let v_val := t116 in
  let v_txt := (v_txt ++ ((fmt_0d 9 v_val))) in
  let v_pos := (i64 (v_pos + 4)) in
  let v_i := (i64 (v_i + 1)) in
  loop115 fuel3p v_val v_txt v_pos v_i
  ) else (
  g_frac_tail v_txt v_pos
  ) end).

Definition g_int_exit (fuel2p : nat) (v_val : Z) (v_txt : bytes) (v_flag : bool) (v_pos : Z) : res (bytes * Z) :=
  do v_txt <- (if (negb v_flag) then (
  let v_txt := (v_txt ++ [48]) in
  Ok v_txt
  ) else (
  Ok v_txt
  ));

  if (v_scale =? 0) then (
  Ok (v_txt, v_l)
  ) else (
  let v_txt := (v_txt ++ [46]) in
  let v_i := 0 in
  g_frac_loop fuel2p v_val v_txt v_pos v_i).

Definition g_int_loop : nat -> Z -> bytes -> bool -> Z -> Z -> res (bytes * Z) :=
  (fix loop112 (fuel2 : nat) (v_val : Z) (v_txt : bytes) (v_flag : bool) (v_pos : Z) (v_i : Z) {struct fuel2} : res (bytes * Z) :=
  match fuel2 with O => Err EOutOfFuel | S fuel2p =>

  if (v_i <? v_intg0) then (
  do t114 <- go_slice v_d v_pos (i64 (v_pos + 4)); do t113 <- go_be t114 4; let v_val := t113 in

  do (v_txt, v_flag) <- (if v_flag then (
  let v_txt := (v_txt ++ ((fmt_0d 9 v_val))) in
  Ok (v_txt, v_flag)
  ) else (

  do (v_txt, v_flag) <- (if (v_val >? 0) then (
  let v_txt := (v_txt ++ ((fmt_d v_val))) in
  let v_flag := true in
  Ok (v_txt, v_flag)
  ) else (
  Ok (v_txt, v_flag)
  ));
  Ok (v_txt, v_flag)
  ));
  let v_pos := (i64 (v_pos + 4)) in
  let v_i := (i64 (v_i + 1)) in
  loop112 fuel2p v_val v_txt v_flag v_pos v_i
  ) else (
  g_int_exit fuel2p v_val v_txt v_flag v_pos
  ) end).

Definition g_lead_sw (v_val t100 : Z) : res Z :=
  (
  if (t100 =? 0) then (
  Ok v_val
  ) else (
  if (t100 =? 1) then (
  do t101 <- go_idx v_d 0; let v_val := t101 in
  Ok v_val
  ) else (
  if (t100 =? 2) then (
  do t102 <- go_idx v_d 0; do t103 <- go_idx v_d 1; let v_val := (u32 ((go_shl u32 t102 8) + t103)) in
  Ok v_val
  ) else (
  if (t100 =? 3) then (
  do t104 <- go_idx v_d 0; do t105 <- go_idx v_d 1; do t106 <- go_idx v_d 2; let v_val := (u32 ((u32 ((go_shl u32 t104 16) + (go_shl u32 t105 8))) + t106)) in
  Ok v_val
  ) else (
  if (t100 =? 4) then (
  do t107 <- go_idx v_d 0; do t108 <- go_idx v_d 1; do t109 <- go_idx v_d 2; do t110 <- go_idx v_d 3; let v_val := (u32 ((u32 ((u32 ((go_shl u32 t107 24) + (go_shl u32 t108 16))) + (go_shl u32 t109 8))) + t110)) in
  Ok v_val
  ) else (
  Ok v_val)))))).

Definition g_cont (fuel1p : nat) (v_txt : bytes) : res (bytes * Z) :=
  let v_val := 0 in
  do t100 <- go_idx tab_dig2bytes v_intg0x;
  do v_val <- g_lead_sw v_val t100;
  do t111 <- go_idx tab_dig2bytes v_intg0x; let v_pos := t111 in
  let v_flag := false in

  do (v_flag, v_txt) <- (if (v_val >? 0) then (
  let v_flag := true in
  let v_txt := (v_txt ++ (fmt_d v_val)) in
  Ok (v_flag, v_txt)
  ) else (
  Ok (v_flag, v_txt)
  ));
  let v_i := 0 in
  g_int_loop fuel1p v_val v_txt v_flag v_pos v_i.
End Pieces.

(* for i := range d { d[i] ^= 0xFF }, then K *)
Definition g_neg_loop (K : nat -> bytes -> res (bytes * Z)) (v_range96 : bytes) : nat -> bytes -> Z -> res (bytes * Z) :=
  (fix loop97 (fuel1 : nat) (v_d : bytes) (v_i : Z) {struct fuel1} : res (bytes * Z) :=
  match fuel1 with O => Err EOutOfFuel | S fuel1p =>

  if (v_i <? (len v_range96)) then (
  do t98 <- go_idx v_d v_i; do t99 <- go_upd v_d v_i (Z.lxor t98 255); let v_d := t99 in
  let v_i := (i64 (v_i + 1)) in
  loop97 fuel1p v_d v_i
  ) else (
  K fuel1p v_d
  ) end).

Lemma g_unfold fuel v_data v_pos v_typ v_metadata v_isUnSignedInt :
  CellBytes_TypeNewDecimal_g fuel v_data v_pos v_typ v_metadata v_isUnSignedInt =
  let v_precision := (go_shr v_metadata 8) in
  let v_scale := (Z.land v_metadata 255) in
  let v_intg := (i64 (v_precision - v_scale)) in
  let v_intg0 := (i64 (Z.quot v_intg 9)) in
  let v_intg0x := (i64 (v_intg - (i64 (v_intg0 * 9)))) in
  let v_frac0 := (i64 (Z.quot v_scale 9)) in
  let v_frac0x := (i64 (v_scale - (i64 (v_frac0 * 9)))) in
  do t89 <- go_idx tab_dig2bytes v_intg0x; do t90 <- go_idx tab_dig2bytes v_frac0x; let v_l := (i64 ((i64 ((i64 ((i64 (v_intg0 * 4)) + t89)) + (i64 (v_frac0 * 4)))) + t90)) in
  do t91 <- go_make v_l; let v_d := t91 in
  do t92 <- go_slice v_data v_pos (i64 (v_pos + v_l)); let v_d := (go_copy v_d t92) in
  do t93 <- go_idx v_d 0; let v_isNegative := ((Z.land t93 128) =? 0) in
  do t94 <- go_idx v_d 0; do t95 <- go_upd v_d 0 (Z.lxor t94 128); let v_d := t95 in
  if v_isNegative then
    g_neg_loop (fun f d' => g_cont d' v_intg0 v_intg0x v_scale v_frac0 v_frac0x v_l f ([] ++ [45])) v_d fuel v_d 0
  else g_cont v_d v_intg0 v_intg0x v_scale v_frac0 v_frac0x v_l fuel [].
Proof. reflexivity. Qed.

(* ------------------------------------------------------------------------------------------------------------------
   General facts *)
Lemma lxor_byte_sweep :
  sweep16 (fun b => (0 <=? Z.lxor b 255) && (Z.lxor b 255 <? 256) && ((0 <=? Z.lxor b 128) && (Z.lxor b 128 <? 256)))
          (Z.to_nat 256) 0 = true.
Proof. vm_compute. reflexivity. Qed.
Lemma lxor_byte b : 0 <= b < 256 -> 0 <= Z.lxor b 255 < 256 /\ 0 <= Z.lxor b 128 < 256.
Proof.
  intros H. pose proof (sweep16_spec _ _ _ lxor_byte_sweep b ltac:(lia)) as S. cbn [Z.add] in S.
  apply andb_true_iff in S as [A B]. apply andb_true_iff in A as [A1 A2]. apply andb_true_iff in B as [B1 B2]. lia.
Qed.

Lemma wf_map_lxor l : wf_bytes l -> wf_bytes (map (fun b => Z.lxor b 255) l).
Proof.
  unfold wf_bytes. intros W. induction W as [|x l Hx W IH]; cbn [map]; constructor; [|exact IH].
  unfold is_byte in *. apply lxor_byte. exact Hx.
Qed.

Lemma go_idx_dig2 i : go_idx tab_dig2bytes i = dig2 i.
Proof.
  unfold go_idx, dig2, at_. change tab_dig2bytes with dig2bytes.
  destruct (i <? 0) eqn:E1; destruct (0 <=? i) eqn:E2; try lia; reflexivity.
Qed.

Lemma dig2_vals :
  dig2 0 = Ok 0 /\ dig2 1 = Ok 1 /\ dig2 2 = Ok 1 /\ dig2 3 = Ok 2 /\ dig2 4 = Ok 2 /\ dig2 5 = Ok 3 /\ dig2 6 = Ok 3 /\
  dig2 7 = Ok 4 /\ dig2 8 = Ok 4.
Proof. repeat split; reflexivity. Qed.
Lemma dig2_neg x : x < 0 -> dig2 x = Panic.
Proof. intros H. unfold dig2. destruct (0 <=? x) eqn:E; [lia|reflexivity]. Qed.
Lemma dig2_small x v : 0 <= x <= 8 -> dig2 x = Ok v -> 0 <= v <= 4.
Proof.
  intros H D. assert (C : x = 0 \/ x = 1 \/ x = 2 \/ x = 3 \/ x = 4 \/ x = 5 \/ x = 6 \/ x = 7 \/ x = 8) by lia.
  destruct dig2_vals as (D0 & D1 & D2 & D3 & D4 & D5 & D6 & D7 & D8).
  repeat (destruct C as [C|C]; [subst x; rewrite ?D0, ?D1, ?D2, ?D3, ?D4, ?D5, ?D6, ?D7, ?D8 in D; inversion D; lia|]).
  subst x; rewrite D8 in D; inversion D; lia.
Qed.

Lemma flat_bind {A} (x : res A) (k : A -> res (option bytes * Z)) : flat (bind x k) = bind x (fun a => flat (k a)).
Proof. destruct x; reflexivity. Qed.

(* big-endian read as nested single-byte reads at p+k, p+k+1, ... *)
Fixpoint at_be (d : bytes) (p k : nat) (acc : Z) (n : nat) : res Z :=
  match n with O => Ok acc | S m => do a <- at_ d (p + k); at_be d p (S k) (acc * 256 + a) m end.

Lemma slice_be_acc n : forall d p k acc, (0 < n)%nat ->
  (do s <- slice d (p + k) n; Ok (be_dec_acc acc s)) = at_be d p k acc n.
Proof.
  induction n as [|n IH]; intros d p k acc Hn; [lia|].
  rewrite slice_S. cbn [at_be]. destruct (at_cases d (p + k)) as [(b & E & L)|[E L]]; rewrite E; cbn [bind]; [|reflexivity].
  replace (S (p + k)) with (p + S k)%nat by lia.
  destruct n as [|n].
  - rewrite slice_0 by lia. reflexivity.
  - rewrite <- IH by lia. destruct (slice d (p + S k) (S n)); reflexivity.
Qed.

Lemma be_at_at_be d p n : (0 < n)%nat -> be_at d p n = at_be d p 0 0 n.
Proof. intros H. rewrite <- slice_be_acc by exact H. rewrite Nat.add_0_r. reflexivity. Qed.

Lemma be_at_0_0 d : be_at d 0 0 = Ok 0.
Proof. reflexivity. Qed.

(* binary.BigEndian.Uint32(d[a:a+4]) followed by any continuation *)
Lemma go_slice_be_bind {B} d a b (k : Z -> res B) a' : a = Z.of_nat a' -> b = Z.of_nat a' + 4 ->
  (do s <- go_slice d a b; do v <- go_be s 4; k v) = (do v <- be_at d a' 4; k v).
Proof.
  intros -> ->. change 4 with (Z.of_nat 4). rewrite go_slice_nat. unfold be_at.
  destruct (slice d a' 4) as [s| |] eqn:E; cbn [bind]; try reflexivity.
  unfold go_be. pose proof (slice_length _ _ _ _ E) as L. rewrite L. cbn [Nat.leb]. rewrite <- L, firstn_all. reflexivity.
Qed.

Lemma list_upd_app_mid pre b suf v : list_upd (pre ++ b :: suf) (length pre) v = Some (pre ++ v :: suf).
Proof. induction pre as [|x pre IH]; cbn [app length list_upd]; [reflexivity|]. rewrite IH. reflexivity. Qed.

Lemma go_copy_fresh n src : length src = n -> go_copy (repeat 0 n) src = src.
Proof.
  intros H. unfold go_copy. rewrite repeat_length. rewrite <- H, firstn_all.
  rewrite skipn_all2 by (rewrite repeat_length; lia). apply app_nil_r.
Qed.

Lemma take_slice d pos l : 0 <= l -> take d pos l = slice d pos (Z.to_nat l).
Proof.
  intros H. unfold take. destruct (0 <=? l) eqn:E; [|lia]. cbn [andb].
  destruct (Z.of_nat pos + l <=? len d) eqn:E2; [reflexivity|]. symmetry. apply slice_panic. unfold len in E2. lia.
Qed.

(* ------------------------------------------------------------------------------------------------------------------
   The sign loop *)
Lemma g_neg_loop_S K range fuel d i :
  g_neg_loop K range (S fuel) d i =
  if i <? len range then
    (do t98 <- go_idx d i; do t99 <- go_upd d i (Z.lxor t98 255); g_neg_loop K range fuel t99 (i64 (i + 1)))
  else K fuel d.
Proof. reflexivity. Qed.

Lemma neg_loop_ok K range : len range < 2 ^ 62 -> forall suf pre f, length range = length (pre ++ suf) ->
  g_neg_loop K range (S (length suf + f)) (pre ++ suf) (Z.of_nat (length pre)) =
  K f (pre ++ map (fun b => Z.lxor b 255) suf).
Proof.
  intros Hr. change (2 ^ 62) with 4611686018427387904 in Hr. unfold len in Hr.
  induction suf as [|b suf IH]; intros pre f Hl; rewrite g_neg_loop_S; unfold len; rewrite Hl, app_length in *; cbn [length] in *.
  - destruct (Z.of_nat (length pre) <? Z.of_nat (length pre + 0)) eqn:E; [lia|]. reflexivity.
  - destruct (Z.of_nat (length pre) <? Z.of_nat (length pre + S (length suf))) eqn:E; [|lia].
    rewrite go_idx_nat, at_app_mid. cbn [bind]. unfold go_upd.
    destruct (Z.of_nat (length pre) <? 0) eqn:E0; [lia|]. rewrite Nat2Z.id, list_upd_app_mid. cbn [bind].
    rewrite i64_small by lia.
    replace (Z.of_nat (length pre) + 1) with (Z.of_nat (length (pre ++ [Z.lxor b 255]))) by (rewrite app_length; cbn [length]; lia).
    replace (pre ++ Z.lxor b 255 :: suf) with ((pre ++ [Z.lxor b 255]) ++ suf) by (rewrite <- app_assoc; reflexivity).
    cbn [Nat.add]. rewrite IH.
    + rewrite <- app_assoc. reflexivity.
    + rewrite !app_length. cbn [length]. lia.
Qed.

(* ------------------------------------------------------------------------------------------------------------------
   The text after the sign handling, for any byte list d *)
Section Cont.
Variable d : bytes.
Variables intg0 intg0x scale frac0 frac0x l : Z.
Hypothesis W : wf_bytes d.

(* the model, cut the same way *)
Definition m_frac_tail (txt5 : bytes) (p5 : nat) : res (option bytes * Z) :=
  do fb <- dig2 frac0x;
  if fb =? 0 then Ok (Some txt5, l)
  else
    do v <- be_at d p5 (Z.to_nat fb);
    Ok (Some (txt5 ++ fmt_0d (Z.to_nat frac0x) v), l).
Definition m_frac_n (n : nat) (txt4 : bytes) (p2 : nat) : res (option bytes * Z) :=
  do (txt5, p5) <- dec_frac_groups n d p2 txt4; m_frac_tail txt5 p5.
Definition m_after_int (txt2 : bytes) (flag2 : bool) (p2 : nat) : res (option bytes * Z) :=
  let txt3 := if flag2 then txt2 else txt2 ++ [48] in
  if scale =? 0 then Ok (Some txt3, l)
  else
    let txt4 := txt3 ++ [46] in
    m_frac_n (Z.to_nat frac0) txt4 p2.
Definition m_int_n (n : nat) (txt1 : bytes) (flag1 : bool) (p : nat) : res (option bytes * Z) :=
  do (txt2, flag2, p2) <- dec_int_groups n d p txt1 flag1; m_after_int txt2 flag2 p2.
Definition m_cont (txt0 : bytes) : res (option bytes * Z) :=
  do nb <- dig2 intg0x;
  do v0 <- be_at d 0 (Z.to_nat nb);
  let '(txt1, flag1) := if 0 <? v0 then (txt0 ++ fmt_d v0, true) else (txt0, false) in
  m_int_n (Z.to_nat intg0) txt1 flag1 (Z.to_nat nb).

Lemma m_frac_n_S n txt p :
  m_frac_n (S n) txt p = do v <- be_at d p 4; m_frac_n n (txt ++ fmt_0d 9 v) (p + 4).
Proof. unfold m_frac_n. cbn [dec_frac_groups]. destruct (be_at d p 4); reflexivity. Qed.

Lemma m_int_n_S n txt flag p :
  m_int_n (S n) txt flag p =
  do v <- be_at d p 4;
  if flag then m_int_n n (txt ++ fmt_0d 9 v) true (p + 4)
  else if 0 <? v then m_int_n n (txt ++ fmt_d v) true (p + 4)
  else m_int_n n txt false (p + 4).
Proof.
  unfold m_int_n. cbn [dec_int_groups]. destruct (be_at d p 4) as [v| |]; cbn [bind]; try reflexivity.
  destruct flag; [reflexivity|]. destruct (0 <? v); reflexivity.
Qed.

Hypothesis Hfx : 0 <= frac0x <= 8.

(* the leftover fraction digits *)
Lemma frac_tail_ok txt p : Z.of_nat p < 2 ^ 62 ->
  res_sim (g_frac_tail d frac0x l txt (Z.of_nat p)) (flat (m_frac_tail txt p)).
Proof.
  intros Hp. unfold g_frac_tail, m_frac_tail. rewrite go_idx_dig2.
  assert (C : frac0x = 0 \/ frac0x = 1 \/ frac0x = 2 \/ frac0x = 3 \/ frac0x = 4 \/ frac0x = 5 \/ frac0x = 6 \/ frac0x = 7 \/
              frac0x = 8) by lia.
  clear Hfx.
  destruct dig2_vals as (D0 & D1 & D2 & D3 & D4 & D5 & D6 & D7 & D8).
  repeat (destruct C as [C|C]; [rewrite C; rewrite ?D0, ?D1, ?D2, ?D3, ?D4, ?D5, ?D6, ?D7, ?D8 | ]).
  9: rewrite C; rewrite D8.
  all: cbn [bind Z.eqb Pos.eqb]; cbv zeta.
  all: try (cbn [flat res_sim]; reflexivity).
  all: rewrite ?go_idx_nat; rewrite ?idx_off by (assumption || (cbn; lia)).
  all: to_nat_consts; rewrite be_at_at_be by lia; cbn [at_be]; rewrite ?Nat.add_0_r.
  all: repeat case_at W.
  all: cbn [bind flat res_sim]; try exact I.
  all: f_equal; f_equal; f_equal; shl_arith; lia.
Qed.

(* the full 9-digit fraction groups *)
Lemma g_frac_loop_S fuel val txt pos i :
  g_frac_loop d frac0 frac0x l (S fuel) val txt pos i =
  if i <? frac0 then
    (do t117 <- go_slice d pos (i64 (pos + 4)); do t116 <- go_be t117 4;
     g_frac_loop d frac0 frac0x l fuel t116 (txt ++ fmt_0d 9 t116) (i64 (pos + 4)) (i64 (i + 1)))
  else g_frac_tail d frac0x l txt pos.
Proof. reflexivity. Qed.

Hypothesis Hf0 : frac0 <= 1000.

Lemma frac_loop_ok : forall n fuel val txt p i,
  0 <= i -> n = Z.to_nat (frac0 - i) -> (n < fuel)%nat -> Z.of_nat p + 4 * Z.of_nat n < 2 ^ 61 ->
  res_sim (g_frac_loop d frac0 frac0x l fuel val txt (Z.of_nat p) i) (flat (m_frac_n n txt p)).
Proof.
  change (2 ^ 61) with 2305843009213693952.
  induction n as [|n IH]; intros fuel val txt p i Hi Hn Hfu Hp; (destruct fuel as [|fuel]; [lia|]); rewrite g_frac_loop_S.
  - destruct (i <? frac0) eqn:E; [lia|]. unfold m_frac_n. cbn [dec_frac_groups bind].
    apply frac_tail_ok. change (2 ^ 62) with 4611686018427387904. lia.
  - destruct (i <? frac0) eqn:E; [|lia].
    rewrite (i64_small (Z.of_nat p + 4)) by lia. rewrite (i64_small (i + 1)) by lia.
    rewrite (go_slice_be_bind d _ _ _ p eq_refl eq_refl). rewrite m_frac_n_S, flat_bind.
    destruct (be_at d p 4) as [v| |]; cbn [bind res_sim]; try exact I.
    replace (Z.of_nat p + 4) with (Z.of_nat (p + 4)) by lia. apply IH; lia.
Qed.

(* after the integer groups *)
Lemma int_exit_ok fuel val txt flag p :
  (Z.to_nat frac0 < fuel)%nat -> Z.of_nat p + 4 * Z.of_nat (Z.to_nat frac0) < 2 ^ 61 ->
  res_sim (g_int_exit d scale frac0 frac0x l fuel val txt flag (Z.of_nat p)) (flat (m_after_int txt flag p)).
Proof.
  intros Hfu Hp. unfold g_int_exit, m_after_int. cbv zeta.
  destruct flag; cbn [negb bind]; (destruct (scale =? 0); [cbn [flat res_sim]; reflexivity|]).
  all: apply frac_loop_ok; try lia; f_equal; lia.
Qed.

(* the full 9-digit integer groups *)
Lemma g_int_loop_S fuel val txt flag pos i :
  g_int_loop d intg0 scale frac0 frac0x l (S fuel) val txt flag pos i =
  if i <? intg0 then
    (do t114 <- go_slice d pos (i64 (pos + 4)); do t113 <- go_be t114 4;
     do (v_txt, v_flag) <- (if flag then Ok (txt ++ fmt_0d 9 t113, flag)
                            else do (v_txt, v_flag) <- (if t113 >? 0 then Ok (txt ++ fmt_d t113, true) else Ok (txt, flag));
                                 Ok (v_txt, v_flag));
     g_int_loop d intg0 scale frac0 frac0x l fuel t113 v_txt v_flag (i64 (pos + 4)) (i64 (i + 1)))
  else g_int_exit d scale frac0 frac0x l fuel val txt flag pos.
Proof. reflexivity. Qed.

Hypothesis Hi0 : intg0 <= 1000.

Lemma int_loop_ok : forall n fuel val txt flag p i,
  0 <= i -> n = Z.to_nat (intg0 - i) -> (n + Z.to_nat frac0 + 1 < fuel)%nat ->
  Z.of_nat p + 4 * Z.of_nat n + 4 * Z.of_nat (Z.to_nat frac0) < 2 ^ 61 ->
  res_sim (g_int_loop d intg0 scale frac0 frac0x l fuel val txt flag (Z.of_nat p) i) (flat (m_int_n n txt flag p)).
Proof.
  change (2 ^ 61) with 2305843009213693952.
  induction n as [|n IH]; intros fuel val txt flag p i Hi Hn Hfu Hp; (destruct fuel as [|fuel]; [lia|]); rewrite g_int_loop_S.
  - destruct (i <? intg0) eqn:E; [lia|]. unfold m_int_n. cbn [dec_int_groups bind].
    apply int_exit_ok; [lia|]. change (2 ^ 61) with 2305843009213693952. lia.
  - destruct (i <? intg0) eqn:E; [|lia].
    rewrite (i64_small (Z.of_nat p + 4)) by lia. rewrite (i64_small (i + 1)) by lia.
    rewrite (go_slice_be_bind d _ _ _ p eq_refl eq_refl). rewrite m_int_n_S, flat_bind.
    destruct (be_at d p 4) as [v| |]; cbn [bind res_sim]; try exact I.
    replace (Z.of_nat p + 4) with (Z.of_nat (p + 4)) by lia. rewrite Z.gtb_ltb.
    destruct flag; [|destruct (0 <? v)]; cbn [bind]; apply IH; lia.
Qed.

(* the leftover integer digits *)
Lemma lead_ok nb : 0 <= nb <= 4 -> g_lead_sw d 0 nb = be_at d 0 (Z.to_nat nb).
Proof.
  intros H. assert (C : nb = 0 \/ nb = 1 \/ nb = 2 \/ nb = 3 \/ nb = 4) by lia.
  unfold g_lead_sw.
  destruct C as [C|[C|[C|[C|C]]]]; subst nb; cbn [Z.eqb Pos.eqb]; cbv zeta.
  1: reflexivity.
  all: change 1 with (Z.of_nat 1); change 2 with (Z.of_nat 2); change 3 with (Z.of_nat 3); change 0 with (Z.of_nat 0).
  all: rewrite ?go_idx_nat.
  all: change (Z.of_nat 1) with 1; change (Z.of_nat 2) with 2; change (Z.of_nat 3) with 3; change (Z.of_nat 0) with 0.
  all: to_nat_consts; rewrite be_at_at_be by lia; cbn [at_be Nat.add].
  all: repeat case_at W.
  all: try reflexivity.
  all: f_equal; shl_arith; lia.
Qed.

Hypothesis Hix : intg0x <= 8.

Lemma cont_ok fuel txt : (Z.to_nat intg0 + Z.to_nat frac0 + 10 < fuel)%nat ->
  res_sim (g_cont d intg0 intg0x scale frac0 frac0x l fuel txt) (flat (m_cont txt)).
Proof.
  intros Hfu. unfold g_cont, m_cont. cbv zeta. rewrite !go_idx_dig2.
  destruct (Z_lt_dec intg0x 0) as [N|N]; [rewrite (dig2_neg _ N); exact I|].
  destruct (dig2 intg0x) as [nb| |] eqn:D; cbn [bind flat res_sim]; try exact I.
  pose proof (dig2_small intg0x nb ltac:(lia) D) as Hnb.
  rewrite (lead_ok nb Hnb), flat_bind.
  destruct (be_at d 0 (Z.to_nat nb)) as [v0| |]; cbn [bind res_sim]; try exact I.
  rewrite Z.gtb_ltb.
  remember (Z.to_nat nb) as pn eqn:Epn. assert (Hn : nb = Z.of_nat pn) by lia. rewrite Hn.
  destruct (0 <? v0); cbn [bind]; apply int_loop_ok; try lia.
  all: try (f_equal; lia).
  all: change (2 ^ 61) with 2305843009213693952; lia.
Qed.

End Cont.

Lemma decode_unfold data pos meta :
  decode_decimal data pos meta =
  do (intg0, intg0x, frac0, frac0x, scale, l) <- decimal_size meta;
  do raw <- take data pos l;
  match raw with
  | [] => Panic
  | b0 :: rest =>
    let isneg := band b0 128 =? 0 in
    let d1 := Z.lxor b0 128 :: rest in
    m_cont (if isneg then map (fun b => Z.lxor b 255) d1 else d1) intg0 intg0x scale frac0 frac0x l
           (if isneg then [45] else [])
  end.
Proof. reflexivity. Qed.

Section Cases.
Variable ffmt : Z -> Z -> bytes.
Variable tz : Z -> Z.
Variable jsonp : bytes -> res bytes.

Lemma CellBytes_TypeNewDecimal_ok : case_ok_fuel ffmt tz jsonp CellBytes_TypeNewDecimal_g [246].
Proof.
  intros fuel Hfuel d pos typ meta uns W Hin Hm Hp. cbn [In] in Hin. destruct Hin as [<-|[]].
  change (cell_bytes ffmt tz jsonp d pos 246 meta uns) with (decode_decimal d pos meta).
  rewrite g_unfold, decode_unfold. unfold decimal_size, shr, band, go_shr. change (2 ^ 8) with 256.
  change (2 ^ 62) with 4611686018427387904 in Hp.
  rewrite land_255.
  set (P := meta / 256). set (Sc := meta mod 256).
  assert (HP : 0 <= P <= 255) by (subst P; lia). assert (HS : 0 <= Sc <= 255) by (subst Sc; lia).
  clearbody P Sc. cbv zeta.
  rewrite (i64_small (P - Sc)) by lia.
  set (intg := P - Sc). assert (Hintg : -255 <= intg <= 255) by (subst intg; lia). clearbody intg.
  rewrite (i64_small (Z.quot intg 9)) by lia.
  rewrite (i64_small (Z.quot Sc 9)) by lia.
  set (intg0 := Z.quot intg 9). set (frac0 := Z.quot Sc 9).
  assert (Hi0 : -29 <= intg0 <= 29 /\ -8 <= intg - intg0 * 9 <= 8) by (subst intg0; lia).
  assert (Hf0 : 0 <= frac0 <= 29 /\ 0 <= Sc - frac0 * 9 <= 8) by (subst frac0; lia).
  clearbody intg0 frac0.
  rewrite (i64_small (intg0 * 9)) by lia. rewrite (i64_small (frac0 * 9)) by lia.
  rewrite (i64_small (intg - intg0 * 9)) by lia. rewrite (i64_small (Sc - frac0 * 9)) by lia.
  set (intg0x := intg - intg0 * 9) in *. set (frac0x := Sc - frac0 * 9) in *. clearbody intg0x frac0x.
  rewrite !go_idx_dig2.
  destruct Hi0 as [Hi0 Hix]. destruct Hf0 as [Hf0 Hfx].
  destruct (Z_lt_dec intg0x 0) as [N|N]; [rewrite (dig2_neg _ N); exact I|].
  destruct (dig2 intg0x) as [a| |] eqn:Da; cbn [bind flat res_sim]; try exact I.
  destruct (dig2 frac0x) as [b| |] eqn:Db; cbn [bind flat res_sim]; try exact I.
  assert (Hix' : 0 <= intg0x <= 8) by lia. pose proof (dig2_small _ _ Hix' Da) as Ha. pose proof (dig2_small _ _ Hfx Db) as Hb.
  rewrite (i64_small (intg0 * 4)) by lia. rewrite (i64_small (frac0 * 4)) by lia.
  rewrite (i64_small (intg0 * 4 + a)) by lia. rewrite (i64_small (intg0 * 4 + a + frac0 * 4)) by lia.
  rewrite (i64_small (intg0 * 4 + a + frac0 * 4 + b)) by lia.
  set (l := intg0 * 4 + a + frac0 * 4 + b). assert (Hl : l <= 240) by (subst l; lia). clearbody l.
  unfold go_make. destruct (l <? 0) eqn:El.
  { cbn [bind]. unfold take. destruct (0 <=? l) eqn:E0; [lia|]. exact I. }
  cbn [bind]. rewrite take_slice by lia. rewrite (i64_small (Z.of_nat pos + l)) by lia.
  rewrite (go_slice_Z d _ _ pos (Z.to_nat l) eq_refl) by lia.
  destruct (slice_cases d pos (Z.to_nat l)) as [(raw & Er & Lr & _)|[Er _]]; rewrite Er; cbn [bind flat res_sim]; [|exact I].
  rewrite (go_copy_fresh _ _ Lr).
  pose proof (slice_wf _ _ _ _ W Er) as Wr.
  destruct raw as [|b0 rest]; [exact I|].
  change (go_idx (b0 :: rest) 0) with (@Ok Z b0). cbn [bind].
  change (go_upd (b0 :: rest) 0 (Z.lxor b0 128)) with (@Ok (list Z) (Z.lxor b0 128 :: rest)). cbn [bind].
  assert (W1 : wf_bytes (Z.lxor b0 128 :: rest)).
  { unfold wf_bytes in *. inversion Wr; subst. constructor; [|assumption]. unfold is_byte in *. apply lxor_byte. assumption. }
  set (d1 := Z.lxor b0 128 :: rest) in *.
  assert (L1 : length d1 = Z.to_nat l) by exact Lr. clearbody d1.
  destruct (Z.land b0 128 =? 0).
  - replace fuel with (S (length d1 + (fuel - S (length d1))))%nat by lia.
    rewrite (neg_loop_ok _ d1 ltac:(unfold len; lia) d1 [] _ eq_refl). cbn [app].
    apply cont_ok; try lia. apply wf_map_lxor. exact W1.
  - apply cont_ok; try lia. exact W1.
Qed.

End Cases.
