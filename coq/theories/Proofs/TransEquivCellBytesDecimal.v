(* Per-case equivalences for gen/TransCellBytes.v, family Decimal: see TransEquivCellBytesDefs.v (case_ok) and
   TransEquivCellBytes.v (CellBytes_equiv). *)
From Coq Require Import ZifyBool.
From GB Require Import Base.Prelude Base.GoSem Base.DecText Base.GoFmt Base.BytesLemmas Proofs.GoSemLemmas Proofs.TransTactics.
From GB Require Import Model.Cell Proofs.TransEquivCellBytesDefs.
From GBGen Require Import Consts TransCellBytes.
Open Scope Z_scope.

Section Cases.
Variable ffmt : Z -> Z -> bytes.
Variable tz : Z -> Z.
Variable jsonp : bytes -> res bytes.

Lemma CellBytes_TypeNewDecimal_ok : case_ok_fuel ffmt tz jsonp CellBytes_TypeNewDecimal_g [246].
Proof.
  (* TODO *)
Admitted.

End Cases.
