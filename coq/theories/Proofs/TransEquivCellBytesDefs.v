(* gen/TransCellBytes.v is CellBytes of replication/binlog_event_rbr.go, translated on every run by harness/cmd/gotrans, one
   definition per case of its switch (CellBytes_<first case constant>_g) and a dispatcher CellBytes_g.  Its oracles are
   the library / environment behaviour the hand-written model is parametric in as well:
     ext_ffmt N bits          strconv.AppendFloat(nil, f, 'f', -1, N) of the float with that bit pattern   (Model.Cell: ffmt)
     ext_printTimestamp v     printTimestamp(v) (time.Unix(v,0).Local(), formatted)                        (print_timestamp tz)
     ext_printJSONData blob   printJSONData(blob)                                                         (jsonp)
   This file fixes the shape of the per-case statements (case_ok); TransEquivCellBytes{Int,Str,Temporal,Decimal}.v prove
   them, TransEquivCellBytes.v assembles CellBytes_equiv: for every input the translated Go function returns what
   Model.Cell.cell_bytes returns (value text and consumed length; the same outcome class on errors and panics). *)
From Coq Require Import ZifyBool.
From GB Require Import Base.Prelude Base.GoSem Base.DecText Base.GoFmt Base.BytesLemmas Proofs.GoSemLemmas Proofs.TransTactics.
From GB Require Import Model.Cell.
From GBGen Require Import Consts TransCellBytes.
Open Scope Z_scope.

(* Go's ([]byte, int) against the model's (option bytes, Z): a nil slice and an empty one are both `no bytes` here; the
   model never returns None (NULL is decided by the NULL bitmap, before CellBytes is called) *)
Definition flat (r : res (option bytes * Z)) : res (bytes * Z) :=
  match r with
  | Ok (Some t, l) => Ok (t, l)
  | Ok (None, l) => Ok ([], l)
  | Err e => Err e
  | Panic => Panic
  end.

Section CaseOk.
Variable ffmt : Z -> Z -> bytes.
Variable tz : Z -> Z.
Variable jsonp : bytes -> res bytes.

(* one case of the switch computes what the model computes for the type codes of that case *)
Definition case_ok (g : bytes -> Z -> Z -> Z -> bool -> res (bytes * Z)) (ks : list Z) : Prop :=
  forall d pos typ meta uns,
    wf_bytes d -> In typ ks -> 0 <= meta < 65536 -> Z.of_nat pos < 2 ^ 62 ->
    res_sim (g d (Z.of_nat pos) typ meta uns) (flat (cell_bytes ffmt tz jsonp d pos typ meta uns)).

(* the cases that contain a loop take fuel; 1000 iterations always suffice (lengths come from one metadata byte) *)
Definition case_ok_fuel (g : nat -> bytes -> Z -> Z -> Z -> bool -> res (bytes * Z)) (ks : list Z) : Prop :=
  forall fuel, (1000 <= fuel)%nat -> case_ok (g fuel) ks.
End CaseOk.
