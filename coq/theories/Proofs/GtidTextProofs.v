(* C19, part 1: text forms of SIDs and single GTIDs (both flavors), the flavor-tagged
   encoding, MariaDB sets (text, containment, one position per domain, purity). *)
From GB Require Import Base.Prelude Base.DecText Base.BytesLemmas Base.GoText.
From GB Require Import Model.Gtid Spec.GtidSpec Proofs.GoTextProofs Proofs.GtidBase.
From GBGen Require Import Consts.
Open Scope Z_scope.

(* ---------- characters ---------- *)
Definition sidchar (c : Z) : Prop := is_hexchar c \/ c = 45.       (* hex digit or '-' *)
Definition numchar (c : Z) : Prop := is_digit c \/ c = 45.         (* digit or '-' *)

Lemma digit_hexchar c : is_digit c -> is_hexchar c.
Proof. unfold is_digit, is_hexchar. lia. Qed.

Lemma Forall_weaken {A} (P Q : A -> Prop) l : (forall a, P a -> Q a) -> Forall P l -> Forall Q l.
Proof. intros H HF. eapply Forall_impl; eauto. Qed.

Lemma sub_wf x a n : wf_bytes x -> wf_bytes (sub x a n).
Proof. intros H. unfold sub. apply wf_firstn. apply wf_skipn. exact H. Qed.

Lemma sid_string_chars x : wf_bytes x -> Forall sidchar (sid_string x).
Proof.
  intros H. unfold sid_string.
  assert (Hh : forall a n, Forall sidchar (hex_encode (sub x a n))).
  { intros a n. eapply Forall_weaken; [|apply hex_encode_chars; apply sub_wf; exact H]. intros c Hc. left. exact Hc. }
  assert (Hd : Forall sidchar [45]) by (constructor; [right; reflexivity|constructor]).
  repeat (apply Forall_app; split); auto.
Qed.

(* ---------- SID text ---------- *)
Theorem sid_text x : wf_sid x -> parse_sid (sid_string x) = Ok x.
Proof.
  intros [Hlen Hwf].
  do 16 (destruct x as [|? x]; [discriminate Hlen|]). destruct x; [|discriminate Hlen].
  unfold parse_sid, sid_string, sub, is_dash_at.
  cbn [firstn skipn hex_encode app length Nat.eqb nth_error negb orb Z.eqb Pos.eqb].
  exact (hex_decode_encode _ Hwf).
Qed.

Lemma sid_string_nonempty x : sid_string x <> [].
Proof.
  unfold sid_string. intros E. apply app_eq_nil in E as [_ E]. discriminate E.
Qed.

(* ---------- MySQL 5.6 GTID text ---------- *)
Definition wf_g56 (g : g56) : Prop := wf_sid (g_sid g) /\ - 2 ^ 63 <= g_seq g < 2 ^ 63.

Lemma sidchar_not_colon c : sidchar c -> c <> 58.
Proof. unfold sidchar, is_hexchar. lia. Qed.
Lemma numchar_not_colon c : numchar c -> c <> 58.
Proof. unfold numchar, is_digit. lia. Qed.

Theorem g56_text g : wf_g56 g -> parse_g56 (g56_string g) = Ok g.
Proof.
  intros [Hs Hn]. destruct g as [x n]. cbn [g_sid g_seq] in *.
  unfold parse_g56, g56_string. cbn [g_sid g_seq app].
  rewrite split_on_app by (eapply Forall_weaken; [apply sidchar_not_colon | apply sid_string_chars; apply Hs]).
  rewrite split_on_nosep by (eapply Forall_weaken; [apply numchar_not_colon | apply format_int_chars]).
  rewrite (sid_text x Hs). cbn [bind].
  rewrite parse_int_format by lia. reflexivity.
Qed.

(* ---------- MariaDB GTID text ---------- *)
Definition wf_mgtid (g : mgtid) : Prop :=
  0 <= m_dom g < 2 ^ 32 /\ 0 <= m_srv g < 2 ^ 32 /\ 0 <= m_seq g < 2 ^ 64.

Lemma digit_not_dash c : is_digit c -> c <> 45.
Proof. unfold is_digit. lia. Qed.
Lemma digit_not_comma c : is_digit c -> c <> 44.
Proof. unfold is_digit. lia. Qed.

Theorem mgtid_text g : wf_mgtid g -> parse_mgtid (mgtid_string g) = Ok g.
Proof.
  intros (Hd & Hs & Hq). destruct g as [d sv q]. cbn [m_dom m_srv m_seq] in *.
  unfold parse_mgtid, mgtid_string. cbn [m_dom m_srv m_seq app].
  rewrite split_on_app by (eapply Forall_weaken; [apply digit_not_dash | apply format_uint_digits; lia]).
  rewrite split_on_app by (eapply Forall_weaken; [apply digit_not_dash | apply format_uint_digits; lia]).
  rewrite split_on_nosep by (eapply Forall_weaken; [apply digit_not_dash | apply format_uint_digits; lia]).
  rewrite !parse_uint_format by lia. reflexivity.
Qed.

Lemma mgtid_string_chars g : wf_mgtid g -> Forall numchar (mgtid_string g).
Proof.
  intros (Hd & Hs & Hq). unfold mgtid_string.
  assert (Hn : forall n, 0 <= n -> Forall numchar (format_uint n)).
  { intros n Hn. eapply Forall_weaken; [|apply format_uint_digits; exact Hn]. intros c Hc. left. exact Hc. }
  assert (Hdash : Forall numchar [45]) by (constructor; [right; reflexivity|constructor]).
  repeat (apply Forall_app; split); auto; apply Hn; lia.
Qed.

(* ---------- flavor-tagged encoding ---------- *)
Definition wf_gtid (g : gtid) : Prop :=
  match g with G56 x => wf_g56 x | GMaria m => wf_mgtid m end.

(* facts about the generated flavor names: non-empty, no '/', distinct *)
Lemma flavor_names_ok :
  (forallb (fun c => negb (c =? 47)) K_mysql56FlavorID && forallb (fun c => negb (c =? 47)) K_mariadbFlavorID
   && negb (Nat.eqb (length K_mysql56FlavorID) 0) && negb (Nat.eqb (length K_mariadbFlavorID) 0)
   && negb (bytes_eqb K_mariadbFlavorID K_mysql56FlavorID)) = true.
Proof. reflexivity. Qed.

Lemma no_slash_forall l : forallb (fun c => negb (c =? 47)) l = true -> Forall (fun c => c <> 47) l.
Proof.
  intros H. rewrite forallb_forall in H. apply Forall_forall. intros c Hc E.
  specialize (H c Hc). subst c. discriminate H.
Qed.

Theorem gtid_encode_decode g : wf_gtid g -> decode_gtid (encode_gtid (Some g)) = Ok (Some g).
Proof.
  intros Hg. pose proof flavor_names_ok as F.
  repeat (apply andb_true_iff in F as [F ?]).
  unfold decode_gtid, encode_gtid.
  assert (Hne : forall f t, f <> [] -> exists c r, f ++ [47] ++ t = c :: r).
  { intros f t Hf. destruct f as [|c r]; [contradiction|]. exists c, (r ++ [47] ++ t). reflexivity. }
  destruct g as [x|m]; cbn [gtid_flavor gtid_string].
  - destruct (Hne K_mysql56FlavorID (g56_string x)) as (c & r & E).
    { intros E. rewrite E in *. discriminate. }
    rewrite E. rewrite <- E. cbn [app].
    rewrite splitn2_app by (apply no_slash_forall; assumption).
    unfold parse_gtid. rewrite bytes_eqb_refl. rewrite (g56_text x Hg). reflexivity.
  - destruct (Hne K_mariadbFlavorID (mgtid_string m)) as (c & r & E).
    { intros E. rewrite E in *. discriminate. }
    rewrite E. rewrite <- E. cbn [app].
    rewrite splitn2_app by (apply no_slash_forall; assumption).
    unfold parse_gtid.
    replace (bytes_eqb K_mariadbFlavorID K_mysql56FlavorID) with false
      by (symmetry; apply negb_true_iff; assumption).
    rewrite bytes_eqb_refl. rewrite (mgtid_text m Hg). reflexivity.
Qed.

Theorem gtid_encode_decode_nil : decode_gtid (encode_gtid None) = Ok None.
Proof. reflexivity. Qed.

(* ---------- join / split of printed members ---------- *)
Lemma split_join sep (l : list bytes) :
  l <> [] -> Forall (Forall (fun c => c <> sep)) l -> split_on sep (join [sep] l) = l.
Proof.
  induction l as [|x r IH]; intros Hne Hall; [contradiction|].
  inversion Hall as [|? ? Hx Hr]; subst.
  destruct r as [|y r'].
  - cbn [join]. apply split_on_nosep. exact Hx.
  - rewrite join_cons. cbn [app]. rewrite split_on_app by exact Hx.
    f_equal. apply IH; [discriminate|exact Hr].
Qed.

(* ---------- MariaDB set text ---------- *)
Lemma numchar_not_comma c : numchar c -> c <> 44.
Proof. unfold numchar, is_digit. lia. Qed.

Lemma parse_mgtids_map s : Forall wf_mgtid s -> parse_mgtids (map mgtid_string s) = Ok s.
Proof.
  induction 1 as [|g r Hg Hr IH]; [reflexivity|].
  cbn [map parse_mgtids]. rewrite (mgtid_text g Hg). cbn [bind]. rewrite IH. reflexivity.
Qed.

Theorem mset_text (s : mset) : s <> [] -> Forall wf_mgtid s -> parse_mset (mset_string s) = Ok s.
Proof.
  intros Hne Hall. unfold parse_mset, mset_string.
  rewrite split_join.
  - apply parse_mgtids_map. exact Hall.
  - destruct s; [contradiction|discriminate].
  - apply Forall_forall. intros t Ht. apply in_map_iff in Ht as (g & <- & Hg).
    rewrite Forall_forall in Hall.
    eapply Forall_weaken; [apply numchar_not_comma | apply mgtid_string_chars; apply Hall; exact Hg].
Qed.

(* the empty MariaDB set prints as "" and that text is rejected: the text form has no empty set *)
Lemma mset_text_empty : mset_string [] = [] /\ parse_mset [] = Err EOther.
Proof. split; reflexivity. Qed.

(* ---------- MariaDB set operations ---------- *)
Lemma maria_add_pinned_result s g : fst (maria_add_pinned s g) = maria_add_result s g.
Proof.
  induction s as [|h r IH]; [reflexivity|].
  cbn [maria_add_pinned maria_add_result].
  destruct (m_dom g =? m_dom h); [destruct (m_seq g >? m_seq h); reflexivity|].
  destruct (maria_add_pinned r g) as [res rcv]. cbn [fst] in *. rewrite IH. reflexivity.
Qed.

Lemma maria_add_result_domains s g :
  map m_dom (maria_add_result s g) =
  if existsb (fun h => m_dom g =? m_dom h) s then map m_dom s else map m_dom s ++ [m_dom g].
Proof.
  induction s as [|h r IH]; [reflexivity|].
  cbn [maria_add_result existsb map].
  destruct (Z.eqb_spec (m_dom g) (m_dom h)) as [E|NE]; cbn [orb].
  - destruct (m_seq g >? m_seq h); cbn [map]; [rewrite E|]; reflexivity.
  - cbn [map]. rewrite IH. destruct (existsb _ r); reflexivity.
Qed.

Lemma NoDup_app_snoc_fresh {A} (l : list A) x : NoDup l -> ~ In x l -> NoDup (l ++ [x]).
Proof.
  induction 1 as [|a l Ha Hl IH]; intros Hx; cbn [app].
  - constructor; [intros []|constructor].
  - constructor.
    + intros Hin. apply in_app_or in Hin as [Hin|[E|[]]]; [contradiction|]. subst. apply Hx. left. reflexivity.
    + apply IH. intros Hin. apply Hx. right. exact Hin.
Qed.

Theorem maria_one_per_domain_result s g :
  NoDup (map m_dom s) -> NoDup (map m_dom (maria_add_result s g)).
Proof.
  intros H. rewrite maria_add_result_domains.
  destruct (existsb (fun h => m_dom g =? m_dom h) s) eqn:E; [exact H|].
  apply NoDup_app_snoc_fresh; [exact H|].
  intros Hin. apply in_map_iff in Hin as (h & Eh & Hh).
  assert (existsb (fun h => m_dom g =? m_dom h) s = true).
  { apply existsb_exists. exists h. split; [exact Hh|]. apply Z.eqb_eq. symmetry. exact Eh. }
  congruence.
Qed.

(* the statement of "one position per domain is preserved", for any AddGTID behaviour *)
Definition maria_one_per_domain_stmt (add : mset -> mgtid -> mset * mset) : Prop :=
  forall s g, NoDup (map m_dom s) -> NoDup (map m_dom (fst (add s g))).

Theorem maria_one_per_domain_fixed : maria_one_per_domain_stmt maria_add_fixed.
Proof. intros s g H. cbn [maria_add_fixed fst]. apply maria_one_per_domain_result. exact H. Qed.

Theorem maria_one_per_domain_pinned : maria_one_per_domain_stmt maria_add_pinned.
Proof. intros s g H. rewrite maria_add_pinned_result. apply maria_one_per_domain_result. exact H. Qed.

(* ContainsGTID: some position of the GTID's domain has a sequence number >= the GTID's.
   With one position per domain this is exact; in general the first position of the domain decides. *)
Theorem maria_contains_spec s g :
  NoDup (map m_dom s) ->
  (maria_contains_gtid s g = true <-> exists h, In h s /\ m_dom h = m_dom g /\ m_seq g <= m_seq h).
Proof.
  induction s as [|h r IH]; intros Hnd.
  - cbn [maria_contains_gtid]. split; [discriminate | intros (h & [] & _)].
  - cbn [map] in Hnd. inversion Hnd as [|? ? Hnotin Hnd']; subst.
    cbn [maria_contains_gtid]. destruct (Z.eqb_spec (m_dom h) (m_dom g)) as [E|NE].
    + split.
      * intros Hge. exists h. split; [left; reflexivity|]. split; [exact E|lia].
      * intros (h' & [E'|Hin] & Hd & Hq); [subst h'; lia|].
        exfalso. apply Hnotin. apply in_map_iff. exists h'. split; [congruence|exact Hin].
    + rewrite (IH Hnd'). split.
      * intros (h' & Hin & Hd & Hq). exists h'. split; [right; exact Hin|split; assumption].
      * intros (h' & [E'|Hin] & Hd & Hq); [subst h'; contradiction|]. exists h'. split; [exact Hin|split; assumption].
Qed.

(* the same in terms of the specification's covering relation on (domain, server, sequence) triples *)
Definition mpos_of (h : mgtid) : mpos := (m_dom h, m_srv h, m_seq h).

Theorem maria_contains_covers s g :
  NoDup (map m_dom s) ->
  (maria_contains_gtid s g = true <-> maria_covers (map mpos_of s) (m_dom g) (m_seq g)).
Proof.
  intros H. rewrite (maria_contains_spec s g H). unfold maria_covers. split.
  - intros (h & Hin & Hd & Hq). exists (mpos_of h). split; [apply in_map; exact Hin|]. split; assumption.
  - intros (p & Hin & Hd & Hq). apply in_map_iff in Hin as (h & <- & Hin). exists h. split; [exact Hin|]. split; assumption.
Qed.

Lemma maria_coversb_ok l d q : maria_coversb l d q = true <-> maria_covers l d q.
Proof.
  unfold maria_coversb, maria_covers. rewrite existsb_exists. split.
  - intros (h & Hin & H). apply andb_true_iff in H as [H1 H2]. exists h. split; [exact Hin|]. split; lia.
  - intros (h & Hin & H1 & H2). exists h. split; [exact Hin|]. apply andb_true_iff. split; lia.
Qed.

(* after AddGTID the set covers the added GTID; positions of other domains are untouched *)
Theorem maria_add_covers s g : maria_contains_gtid (maria_add_result s g) g = true.
Proof.
  induction s as [|h r IH].
  - cbn [maria_add_result maria_contains_gtid]. rewrite Z.eqb_refl. lia.
  - cbn [maria_add_result]. destruct (Z.eqb_spec (m_dom g) (m_dom h)) as [E|NE].
    + destruct (Z.gtb_spec (m_seq g) (m_seq h)); cbn [maria_contains_gtid].
      * rewrite Z.eqb_refl. lia.
      * destruct (Z.eqb_spec (m_dom h) (m_dom g)); [lia|congruence].
    + cbn [maria_contains_gtid]. destruct (Z.eqb_spec (m_dom h) (m_dom g)); [congruence|exact IH].
Qed.

Theorem maria_add_other_domains s g h :
  m_dom h <> m_dom g -> (In h (maria_add_result s g) <-> In h s).
Proof.
  intros Hne. induction s as [|x r IH].
  - cbn [maria_add_result In]. split; [intros [E|[]]; subst; contradiction | intros []].
  - cbn [maria_add_result]. destruct (Z.eqb_spec (m_dom g) (m_dom x)) as [E|NE].
    + destruct (m_seq g >? m_seq x); cbn [In]; [|tauto].
      split; (intros [E'|Hin]; [subst h; exfalso; congruence | right; exact Hin]).
    + cbn [In]. rewrite IH. tauto.
Qed.

(* ---------- purity of MariadbGTIDSet.AddGTID ---------- *)
Definition maria_add_pure_stmt (add : mset -> mgtid -> mset * mset) : Prop :=
  forall s g, snd (add s g) = s.

Theorem maria_add_pure_fixed : maria_add_pure_stmt maria_add_fixed.
Proof. intros s g. reflexivity. Qed.

(* D6: the pinned tree writes into the receiver: {1-1-5}.AddGTID(1-2-9) leaves the receiver as {1-2-9} *)
Theorem maria_add_pure_pinned_refuted : ~ maria_add_pure_stmt maria_add_pinned.
Proof.
  intros H.
  specialize (H [{| m_dom := 1; m_srv := 1; m_seq := 5 |}] {| m_dom := 1; m_srv := 2; m_seq := 9 |}).
  vm_compute in H. discriminate H.
Qed.

Theorem maria_add_pinned_witness :
  maria_add_pinned [{| m_dom := 1; m_srv := 1; m_seq := 5 |}] {| m_dom := 1; m_srv := 2; m_seq := 9 |}
  = ([{| m_dom := 1; m_srv := 2; m_seq := 9 |}], [{| m_dom := 1; m_srv := 2; m_seq := 9 |}]).
Proof. vm_compute. reflexivity. Qed.

(* the receiver changes exactly when a position of the same domain is replaced *)
Theorem maria_add_pinned_receiver s g :
  snd (maria_add_pinned s g) =
  if existsb (fun h => m_dom g =? m_dom h) s then maria_add_result s g else s.
Proof.
  induction s as [|h r IH]; [reflexivity|].
  cbn [maria_add_pinned maria_add_result existsb].
  destruct (Z.eqb_spec (m_dom g) (m_dom h)) as [E|NE]; cbn [orb].
  - destruct (m_seq g >? m_seq h); reflexivity.
  - destruct (maria_add_pinned r g) as [res rcv]. cbn [snd] in *. rewrite IH.
    destruct (existsb _ r); reflexivity.
Qed.

(* ---------- the behaviour selected by the switch Model.Gtid.maria_add ---------- *)
Lemma maria_add_fst s g : fst (maria_add s g) = maria_add_result s g.
Proof. unfold maria_add. first [reflexivity | apply maria_add_pinned_result]. Qed.

Theorem maria_one_per_domain : maria_one_per_domain_stmt maria_add.
Proof. intros s g H. rewrite maria_add_fst. apply maria_one_per_domain_result. exact H. Qed.

Theorem maria_add_covers_switch s g : maria_contains_gtid (fst (maria_add s g)) g = true.
Proof. rewrite maria_add_fst. apply maria_add_covers. Qed.

Theorem maria_add_other_domains_switch s g h :
  m_dom h <> m_dom g -> (In h (fst (maria_add s g)) <-> In h s).
Proof. rewrite maria_add_fst. apply maria_add_other_domains. Qed.

(* Purity of the selected behaviour.  This is provable only for the repaired AddGTID: with
   `maria_add := maria_add_pinned` the proof below fails (see maria_add_pure_pinned_refuted). *)
Theorem maria_add_pure : maria_add_pure_stmt maria_add.
Proof. exact maria_add_pure_fixed. Qed.
