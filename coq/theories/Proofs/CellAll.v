(* The cell lemma for every supported (non-JSON) column type, and DECIMAL in cell_ok form. *)
From GB Require Import Base.Prelude Base.DecText Model.Cell Spec.Values.
From GB Require Import Proofs.CellCommon Proofs.CellInt Proofs.CellSimple Proofs.CellTemporal Proofs.DecimalText Proofs.CellDecimal.
Open Scope Z_scope.

Section All.
Variable ffmt : Z -> Z -> bytes.
Variable tz : Z -> Z.
Variable jsonp : bytes -> res bytes.
Hypothesis tz_bounded : forall v, -86400 <= tz v <= 86400.
Notation cell_ok := (cell_ok ffmt tz jsonp).

Theorem decimal_ok p s uns neg ip fp :
  wf_type (TNewDecimal p s) = true -> wf_value (TNewDecimal p s) uns (VDecimal neg ip fp) = true ->
  cell_ok (TNewDecimal p s) uns (VDecimal neg ip fp).
Proof.
  intros Ht Hv pre rest. cbn [enc_cell code_of meta_of text].
  assert (Hv' : wf_value (TNewDecimal p s) false (VDecimal neg ip fp) = true) by exact Hv.
  split.
  - change (cell_bytes ffmt tz jsonp ?d ?q 246 ?m uns) with (decode_decimal d q m).
    apply decimal_decode_ok; assumption.
  - apply (decimal_length_ok p s neg ip fp pre rest Ht).
Qed.

Definition not_json (ty : coltype) : bool := match ty with TJson _ => false | _ => true end.

(* every non-JSON type: the value decoder returns the canonical text and the consumed size, and the length rule agrees *)
Theorem cell_ok_all ty uns v :
  not_json ty = true -> wf_type ty = true -> wf_value ty uns v = true -> cell_ok ty uns v.
Proof.
  intros Hj Ht Hv.
  destruct ty; try discriminate Hj;
    destruct v; try (cbn [wf_value] in Hv; discriminate Hv).
  - apply int_ok; auto.
  - apply int_ok; auto.
  - apply int_ok; auto.
  - apply int_ok; auto.
  - apply int_ok; auto.
  - apply float_ok; auto.
  - apply double_ok; auto.
  - apply year_ok; auto.
  - apply bit_ok; auto.
  - apply enum_ok; auto.
  - apply set_ok; auto.
  - apply decimal_ok; auto.
  - apply date_ok; auto.
  - apply time_ok; auto.
  - apply datetime_ok; auto.
  - apply timestamp_ok; auto.
  - apply timestamp2_ok; auto.
  - apply datetime2_ok; auto.
  - apply time2_ok; auto.
  - apply varchar_ok; auto.
  - apply char_ok; auto.
  - apply blob_ok; auto.
  - apply geometry_ok; auto.
Qed.

End All.

(* the canonical DECIMAL text: optional '-', integer digits without leading zeros (a single 0 when there are none),
   and exactly the s fraction digits after a '.', denoting the same integer and fraction digit values *)
Theorem decimal_text_canonical neg ip fp :
  digit_vals ip -> digit_vals fp ->
  text_decimal neg ip fp = (if neg then [45] else []) ++ int_text ip ++ frac_text fp /\
  Forall is_digit (int_text ip) /\ int_text ip <> [] /\
  (strip0 ip = [] /\ int_text ip = [48] \/
   exists c t, strip0 ip = c :: t /\ c <> 0 /\ int_text ip = digit_chars (c :: t)) /\
  digits_val (strip0 ip) = digits_val ip /\
  (fp = [] /\ frac_text fp = [] \/ fp <> [] /\ frac_text fp = 46 :: digit_chars fp /\ length (digit_chars fp) = length fp).
Proof.
  intros Hi Hf. split; [apply text_decimal_eq|].
  destruct (int_text_digits ip Hi) as [D N]. split; [exact D|]. split; [exact N|].
  split.
  - unfold int_text. destruct (strip0_decomp ip) as (k & E & [Z0|(c & t & Es & Hc)]).
    + left. rewrite Z0. auto.
    + right. exists c, t. rewrite Es. auto.
  - split; [symmetry; apply digits_val_strip|].
    destruct fp as [|x fp]; [left; auto|]. right. split; [discriminate|]. split; [reflexivity|].
    unfold digit_chars. apply map_length.
Qed.

Theorem decimal_text_nonempty neg ip fp : digit_vals ip -> text_decimal neg ip fp <> [].
Proof.
  intros Hi. rewrite text_decimal_eq. destruct (int_text_digits ip Hi) as [_ N].
  destruct neg; [discriminate|]. cbn [app]. destruct (int_text ip); [contradiction | discriminate].
Qed.
