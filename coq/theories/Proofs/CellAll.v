(* The cell lemma for every column type (JSON from C14_json_cell), and DECIMAL in cell_ok form. *)
From GB Require Import Base.Prelude Base.DecText Model.Cell Model.Json Spec.Values Spec.EncJson.
From GB Require Import Proofs.CellCommon Proofs.CellInt Proofs.CellSimple Proofs.CellTemporal Proofs.DecimalText Proofs.CellDecimal
                       Proofs.JsonCell.
From Coq Require Import ZifyBool.
Open Scope Z_scope.

Section All.
Variable ffmt : Z -> Z -> bytes.
Variable tz : Z -> Z.
Variable efmt : Z -> bytes.
Variable jsonp : bytes -> res bytes.
Hypothesis tz_bounded : forall v, -86400 <= tz v <= 86400.
Notation cell_ok := (cell_ok ffmt tz efmt jsonp).

Theorem decimal_ok p s uns neg ip fp :
  wf_type (TNewDecimal p s) = true -> wf_value (TNewDecimal p s) uns (VDecimal neg ip fp) = true ->
  cell_ok (TNewDecimal p s) uns (VDecimal neg ip fp).
Proof.
  intros Ht Hv pre rest. cbn [enc_cell code_of meta_of text].
  assert (Hv' : wf_value (TNewDecimal p s) false (VDecimal neg ip fp) = true) by exact Hv.
  split.
  - change (cell_bytes ffmt tz jsonp ?d ?q 246 ?m uns) with (decode_decimal d q m).
    apply decimal_decode_ok; assumption.
  - apply (decimal_length_ok p s neg ip fp pre rest Ht).
Qed.

End All.

Definition not_json (ty : coltype) : bool := match ty with TJson _ => false | _ => true end.

Section AllTypes.
Variable ffmt : Z -> Z -> bytes.
Variable tz : Z -> Z.
Variable efmt : Z -> bytes.
Hypothesis tz_bounded : forall v, -86400 <= tz v <= 86400.

(* a JSON cell: lb length bytes, then the binary document; the printer is the model of printJSONData with the
   same 'E' formatting oracle as the specification's rendering (C14_json_cell) *)
Theorem json_ok lb uns d :
  wf_type (TJson lb) = true -> wf_value (TJson lb) uns (VJson d) = true ->
  cell_ok ffmt tz efmt (print_json efmt) (TJson lb) uns (VJson d).
Proof.
  intros Ht Hwf pre rest. cbn [wf_type wf_value] in *. cbn [enc_cell code_of meta_of text].
  apply andb_true_iff in Hwf as [Hd Hfit].
  assert (Hlb : 1 <= lb <= 4) by lia.
  assert (Hl : 0 <= len (ser d) < 256 ^ lb) by (pose proof (len_nonneg (ser d)); lia).
  rewrite len_app, len_le_enc, Z2Nat.id by lia.
  split.
  - rewrite <- app_assoc. apply (json_cell_all ffmt tz efmt d pre rest lb uns Hd Hlb). lia.
  - destruct (blob_payload_ok ffmt tz efmt (print_json efmt) pre (ser d) rest lb Hlb Hl) as [B1 _].
    change (cell_length ?dd ?p 245 ?m) with (do l <- blob_len dd p m; Ok (m + l)).
    rewrite B1. reflexivity.
Qed.

(* the JSON printer oracle matters for JSON columns only: there it is the model of printJSONData *)
Definition jsonp_for (jsonp : bytes -> res bytes) (ty : coltype) : Prop :=
  not_json ty = true \/ jsonp = print_json efmt.

(* every column type: the value decoder returns the canonical text and the consumed size, and the length rule agrees *)
Theorem cell_ok_all jsonp ty uns v :
  jsonp_for jsonp ty -> wf_type ty = true -> wf_value ty uns v = true -> cell_ok ffmt tz efmt jsonp ty uns v.
Proof.
  intros Hj Ht Hv.
  destruct ty; destruct v; try (cbn [wf_value] in Hv; discriminate Hv).
  - apply int_ok; auto.
  - apply int_ok; auto.
  - apply int_ok; auto.
  - apply int_ok; auto.
  - apply int_ok; auto.
  - apply float_ok; auto.
  - apply double_ok; auto.
  - apply year_ok; auto.
  - apply bit_ok; auto.
  - apply enum_ok; auto.
  - apply set_ok; auto.
  - apply decimal_ok; auto.
  - apply date_ok; auto.
  - apply time_ok; auto.
  - apply datetime_ok; auto.
  - apply timestamp_ok; auto.
  - apply timestamp2_ok; auto.
  - apply datetime2_ok; auto.
  - apply time2_ok; auto.
  - apply varchar_ok; auto.
  - apply char_ok; auto.
  - apply blob_ok; auto.
  - apply geometry_ok; auto.
  - destruct Hj as [Hj | ->]; [discriminate Hj|]. apply json_ok; auto.
Qed.

End AllTypes.

(* the canonical DECIMAL text: optional '-', integer digits without leading zeros (a single 0 when there are none),
   and exactly the s fraction digits after a '.', denoting the same integer and fraction digit values *)
Theorem decimal_text_canonical neg ip fp :
  digit_vals ip -> digit_vals fp ->
  text_decimal neg ip fp = (if neg then [45] else []) ++ int_text ip ++ frac_text fp /\
  Forall is_digit (int_text ip) /\ int_text ip <> [] /\
  (strip0 ip = [] /\ int_text ip = [48] \/
   exists c t, strip0 ip = c :: t /\ c <> 0 /\ int_text ip = digit_chars (c :: t)) /\
  digits_val (strip0 ip) = digits_val ip /\
  (fp = [] /\ frac_text fp = [] \/ fp <> [] /\ frac_text fp = 46 :: digit_chars fp /\ length (digit_chars fp) = length fp).
Proof.
  intros Hi Hf. split; [apply text_decimal_eq|].
  destruct (int_text_digits ip Hi) as [D N]. split; [exact D|]. split; [exact N|].
  split.
  - unfold int_text. destruct (strip0_decomp ip) as (k & E & [Z0|(c & t & Es & Hc)]).
    + left. rewrite Z0. auto.
    + right. exists c, t. rewrite Es. auto.
  - split; [symmetry; apply digits_val_strip|].
    destruct fp as [|x fp]; [left; auto|]. right. split; [discriminate|]. split; [reflexivity|].
    unfold digit_chars. apply map_length.
Qed.

Theorem decimal_text_nonempty neg ip fp : digit_vals ip -> text_decimal neg ip fp <> [].
Proof.
  intros Hi. rewrite text_decimal_eq. destruct (int_text_digits ip Hi) as [_ N].
  destruct neg; [discriminate|]. cbn [app]. destruct (int_text ip); [contradiction | discriminate].
Qed.
