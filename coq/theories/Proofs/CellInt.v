(* C10: integer columns of every width decode to the decimal text of their exact value. *)
From GB Require Import Base.Prelude Base.BytesLemmas Base.DecText Base.GoFmt Model.Cell Spec.Values Proofs.CellCommon.
From GBGen Require Import Consts.
From Coq Require Import ZifyBool.
Open Scope Z_scope.
Ltac Zify.zify_post_hook ::= Z.div_mod_to_equations.

Section Ints.
Variable ffmt : Z -> Z -> bytes.
Variable tz : Z -> Z.
Variable jsonp : bytes -> res bytes.

Definition is_int_type (ty : coltype) : bool :=
  match ty with TTiny | TShort | TInt24 | TLong | TLongLong => true | _ => false end.

Lemma sx_of_mod bits z :
  0 < bits -> - 2 ^ (bits - 1) <= z < 2 ^ (bits - 1) -> sx bits (z mod 2 ^ bits) = z.
Proof.
  intros Hb Hz. unfold sx.
  assert (H2 : 2 ^ bits = 2 * 2 ^ (bits - 1)).
  { replace bits with (Z.succ (bits - 1)) at 1 by lia. rewrite Z.pow_succ_r by lia. reflexivity. }
  assert (Hp : 0 < 2 ^ (bits - 1)) by (apply Z.pow_pos_nonneg; lia).
  destruct (Z_lt_ge_dec z 0) as [Hn|Hn].
  - assert (E : z mod 2 ^ bits = z + 2 ^ bits).
    { symmetry. apply Z.mod_unique with (q := -1); lia. }
    rewrite E. destruct (z + 2 ^ bits <? 2 ^ (bits - 1)) eqn:C; [apply Z.ltb_lt in C; lia | lia].
  - rewrite Z.mod_small by lia.
    destruct (z <? 2 ^ (bits - 1)) eqn:C; [reflexivity | apply Z.ltb_ge in C; lia].
Qed.

Theorem int_text ty uns z pre rest :
  is_int_type ty = true -> wf_value ty uns (VInt z) = true ->
  cell_bytes ffmt tz jsonp (pre ++ enc_cell ty (VInt z) ++ rest) (length pre) (code_of ty) (meta_of ty) uns
    = Ok (Some (digs_Z z), int_width ty)
  /\ cell_length (pre ++ enc_cell ty (VInt z) ++ rest) (length pre) (code_of ty) (meta_of ty)
    = Ok (int_width ty).
Proof.
  intros Hty Hwf. split; [|destruct ty; try discriminate; reflexivity].
  destruct ty; try discriminate; cbn [enc_cell int_width code_of meta_of] in *.
  - (* tiny *)
    change (cell_bytes ffmt tz jsonp ?d ?p 1 0 uns) with
      (do b <- at_ d p; Ok (Some (fmt_d (if uns then b else i8 b)), 1)).
    replace (le_enc (Z.to_nat 1) (z mod 256 ^ 1)) with [(z mod 256) mod 256] by reflexivity. cbn [app].
    rewrite at_mid. cbn [bind]. unfold fmt_d.
    cbn [wf_value int_width] in Hwf. change (256 ^ 1) with 256 in *. rewrite Z.mod_mod by lia.
    destruct uns; do 4 f_equal.
    + rewrite Z.mod_small by lia. reflexivity.
    + unfold i8, u8. rewrite Z.mod_mod by lia. apply (sx_of_mod 8); lia.
  - (* short *)
    change (cell_bytes ffmt tz jsonp ?d ?p 2 0 uns) with
      (do v <- le_at d p 2; Ok (Some (fmt_d (if uns then v else i16 v)), 2)).
    rewrite le_at_mid by (rewrite le_enc_length; reflexivity). cbn [bind].
    cbn [wf_value int_width] in Hwf. change (256 ^ 2) with 65536 in *.
    rewrite le_dec_enc by (change (256 ^ Z.of_nat (Z.to_nat 2)) with 65536; apply Z.mod_pos_bound; lia).
    unfold fmt_d. destruct uns; do 4 f_equal.
    + rewrite Z.mod_small by lia. reflexivity.
    + unfold i16, u16. rewrite Z.mod_mod by lia. apply (sx_of_mod 16); lia.
  - (* int24 *)
    change (cell_bytes ffmt tz jsonp ?d ?p 9 0 uns) with
      (do v <- le_at d p 3;
       if negb uns && (0 <? band (shr v 16) 128) then Ok (Some (fmt_d (i32 (v + 255 * 2 ^ 24))), 3)
       else Ok (Some (fmt_d v), 3)).
    rewrite le_at_mid by (rewrite le_enc_length; reflexivity). cbn [bind].
    cbn [wf_value int_width] in Hwf. change (256 ^ 3) with 16777216 in *.
    rewrite le_dec_enc by (change (256 ^ Z.of_nat (Z.to_nat 3)) with 16777216; apply Z.mod_pos_bound; lia).
    set (v := z mod 16777216).
    assert (Hv : 0 <= v < 16777216) by (apply Z.mod_pos_bound; lia).
    unfold band, shr. change (2 ^ 16) with 65536.
    rewrite land128 by (split; [apply Z.div_pos; lia | apply Z.div_lt_upper_bound; lia]).
    unfold fmt_d. destruct uns; cbn [negb andb].
    + do 4 f_equal. unfold v. apply Z.mod_small. lia.
    + destruct (128 <=? v / 65536) eqn:C.
      * change (0 <? 128) with true. cbv iota. do 4 f_equal.
        apply Z.leb_le in C. assert (8388608 <= v) by lia.
        unfold i32, u32, sx. change (2 ^ 24) with 16777216. change (2 ^ (32 - 1)) with 2147483648. change (2 ^ 32) with 4294967296.
        rewrite Z.mod_small by lia.
        destruct (v + 255 * 16777216 <? 2147483648) eqn:D; [apply Z.ltb_lt in D; lia|].
        unfold v in *. lia.
      * change (0 <? 0) with false. cbv iota. do 4 f_equal.
        apply Z.leb_gt in C. unfold v in *. lia.
  - (* long *)
    change (cell_bytes ffmt tz jsonp ?d ?p 3 0 uns) with
      (do v <- le_at d p 4; Ok (Some (fmt_d (if uns then v else i32 v)), 4)).
    rewrite le_at_mid by (rewrite le_enc_length; reflexivity). cbn [bind].
    cbn [wf_value int_width] in Hwf. change (256 ^ 4) with 4294967296 in *.
    rewrite le_dec_enc by (change (256 ^ Z.of_nat (Z.to_nat 4)) with 4294967296; apply Z.mod_pos_bound; lia).
    unfold fmt_d. destruct uns; do 4 f_equal.
    + rewrite Z.mod_small by lia. reflexivity.
    + unfold i32, u32. rewrite Z.mod_mod by lia. apply (sx_of_mod 32); lia.
  - (* longlong *)
    change (cell_bytes ffmt tz jsonp ?d ?p 8 0 uns) with
      (do v <- le_at d p 8; Ok (Some (fmt_d (if uns then v else i64 v)), 8)).
    rewrite le_at_mid by (rewrite le_enc_length; reflexivity). cbn [bind].
    cbn [wf_value int_width] in Hwf. change (256 ^ 8) with 18446744073709551616 in *.
    rewrite le_dec_enc by (change (256 ^ Z.of_nat (Z.to_nat 8)) with 18446744073709551616; apply Z.mod_pos_bound; lia).
    unfold fmt_d. destruct uns; do 4 f_equal.
    + rewrite Z.mod_small by lia. reflexivity.
    + unfold i64, u64. rewrite Z.mod_mod by lia. apply (sx_of_mod 64); lia.
Qed.

End Ints.
