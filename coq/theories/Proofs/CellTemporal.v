(* C12: temporal columns decode to MySQL's canonical text. *)
From Coq Require Import String.
From GB Require Import Base.Prelude Base.BytesLemmas Base.DecText Base.GoFmt Base.Calendar.
From GB Require Import Model.Cell Spec.Values Proofs.GoFmtLemmas Proofs.CellCommon.
From GBGen Require Import Consts.
From Coq Require Import ZifyBool.
Open Scope Z_scope.
Ltac Zify.zify_post_hook ::= Z.div_mod_to_equations.

Lemma be_at_mid2 pre hd mid rest n :
  n = length mid -> be_at (pre ++ (hd ++ mid) ++ rest) (length pre + length hd) n = Ok (be_dec mid).
Proof.
  intros H. replace (pre ++ (hd ++ mid) ++ rest) with ((pre ++ hd) ++ mid ++ rest)
    by (rewrite <- !app_assoc; reflexivity).
  rewrite <- app_length. apply be_at_mid. exact H.
Qed.

Lemma be_at_hd pre hd mid rest n :
  n = length hd -> be_at (pre ++ (hd ++ mid) ++ rest) (length pre) n = Ok (be_dec hd).
Proof.
  intros H. replace (pre ++ (hd ++ mid) ++ rest) with (pre ++ hd ++ (mid ++ rest))
    by (rewrite <- !app_assoc; reflexivity).
  apply be_at_mid. exact H.
Qed.

Lemma land_ones_15 x : 0 <= x -> Z.land x 15 = x mod 16.
Proof. intros H. change 15 with (Z.ones 4). rewrite Z.land_ones by lia. reflexivity. Qed.
Lemma land_ones_31 x : 0 <= x -> Z.land x 31 = x mod 32.
Proof. intros H. change 31 with (Z.ones 5). rewrite Z.land_ones by lia. reflexivity. Qed.

Lemma fmt_date_text y m d : 0 <= y <= 9999 -> 0 <= m < 100 -> 0 <= d < 100 -> fmt_date y m d = text_date y m d.
Proof.
  intros Hy Hm Hd. unfold fmt_date, text_date.
  rewrite !fmt_0d_pad0 by (try lia; cbn; lia). reflexivity.
Qed.

Lemma fmt_clock_text h mi s : 0 <= h < 100 -> 0 <= mi < 100 -> 0 <= s < 100 -> fmt_clock h mi s = text_clock h mi s.
Proof.
  intros Hh Hm Hs. unfold fmt_clock, text_clock.
  rewrite !fmt_0d_pad0 by (try lia; cbn; lia). reflexivity.
Qed.

Lemma fmt_clock_hour h mi s : 0 <= h < 1024 -> 0 <= mi < 100 -> 0 <= s < 100 ->
  fmt_clock h mi s = text_hour h ++ [58] ++ pad0 2 mi ++ [58] ++ pad0 2 s.
Proof.
  intros Hh Hm Hs. unfold fmt_clock, text_hour.
  rewrite fmt_hour by lia. rewrite !fmt_0d_pad0 by (try lia; cbn; lia). reflexivity.
Qed.

(* the fractional-seconds suffix shared by TIMESTAMP2 and DATETIME2 *)
Lemma frac_suffix_ok f fr pre hd rest :
  0 <= f <= 6 -> 0 <= fr < 10 ^ f ->
  frac_suffix (pre ++ (hd ++ enc_frac f fr) ++ rest) (length pre + length hd) f
    = Ok (text_frac f fr, frac_bytes f).
Proof.
  intros Hf Hfr.
  assert (f = 0 \/ f = 1 \/ f = 2 \/ f = 3 \/ f = 4 \/ f = 5 \/ f = 6) as C by lia.
  unfold frac_suffix, enc_frac, text_frac, frac_store, frac_bytes.
  destruct C as [-> | [-> | [-> | [-> | [-> | [-> | ->]]]]]]; cbn [Z.eqb Pos.eqb orb Z.odd]; cbv iota;
    change (10 ^ _) with 1 in Hfr || change (10 ^ 1) with 10 in Hfr || change (10 ^ 2) with 100 in Hfr ||
    change (10 ^ 3) with 1000 in Hfr || change (10 ^ 4) with 10000 in Hfr || change (10 ^ 5) with 100000 in Hfr ||
    change (10 ^ 6) with 1000000 in Hfr.
  - reflexivity.
  - change (Z.to_nat ((1 + 1) / 2)) with 1%nat.
    rewrite be_at_mid2 by (rewrite be_enc_length; reflexivity). cbn [bind].
    rewrite be_dec_enc by (change (256 ^ Z.of_nat 1) with 256; lia).
    replace (fr * 10 / 10) with fr by lia.
    rewrite fmt_0d_pad0 by (try lia; cbn; lia). reflexivity.
  - change (Z.to_nat ((2 + 1) / 2)) with 1%nat.
    rewrite be_at_mid2 by (rewrite be_enc_length; reflexivity). cbn [bind].
    rewrite be_dec_enc by (change (256 ^ Z.of_nat 1) with 256; lia).
    rewrite fmt_0d_pad0 by (try lia; cbn; lia). reflexivity.
  - change (Z.to_nat ((3 + 1) / 2)) with 2%nat.
    rewrite be_at_mid2 by (rewrite be_enc_length; reflexivity). cbn [bind].
    rewrite be_dec_enc by (change (256 ^ Z.of_nat 2) with 65536; lia).
    replace (fr * 10 / 10) with fr by lia.
    rewrite fmt_0d_pad0 by (try lia; cbn; lia). reflexivity.
  - change (Z.to_nat ((4 + 1) / 2)) with 2%nat.
    rewrite be_at_mid2 by (rewrite be_enc_length; reflexivity). cbn [bind].
    rewrite be_dec_enc by (change (256 ^ Z.of_nat 2) with 65536; lia).
    rewrite fmt_0d_pad0 by (try lia; cbn; lia). reflexivity.
  - change (Z.to_nat ((5 + 1) / 2)) with 3%nat.
    rewrite be_at_mid2 by (rewrite be_enc_length; reflexivity). cbn [bind].
    rewrite be_dec_enc by (change (256 ^ Z.of_nat 3) with 16777216; lia).
    replace (fr * 10 / 10) with fr by lia.
    rewrite fmt_0d_pad0 by (try lia; cbn; lia). reflexivity.
  - change (Z.to_nat ((6 + 1) / 2)) with 3%nat.
    rewrite be_at_mid2 by (rewrite be_enc_length; reflexivity). cbn [bind].
    rewrite be_dec_enc by (change (256 ^ Z.of_nat 3) with 16777216; lia).
    rewrite fmt_0d_pad0 by (try lia; cbn; lia). reflexivity.
Qed.

Lemma len_enc_frac f fr : 0 <= f <= 6 -> len (enc_frac f fr) = frac_bytes f.
Proof. intros H. unfold enc_frac. rewrite len_be_enc. unfold frac_bytes. lia. Qed.

Section Temporal.
Variable ffmt : Z -> Z -> bytes.
Variable tz : Z -> Z.
Variable efmt : Z -> bytes.
Variable jsonp : bytes -> res bytes.
Notation cell_ok := (cell_ok ffmt tz efmt jsonp).

Theorem date_ok nd uns y m d : wf_value (TDate nd) uns (VDate y m d) = true -> cell_ok (TDate nd) uns (VDate y m d).
Proof.
  intros Hwf pre rest. cbn [wf_value] in Hwf. cbn [enc_cell code_of meta_of text].
  rewrite len_le_enc. split; [|destruct nd; reflexivity].
  replace (cell_bytes ffmt tz jsonp (pre ++ le_enc 3 (d + 32 * m + 512 * y) ++ rest) (length pre) (if nd then 14 else 10) 0 uns)
    with (do v <- le_at (pre ++ le_enc 3 (d + 32 * m + 512 * y) ++ rest) (length pre) 3;
          Ok (Some (fmt_date (shr v 9) (band (shr v 5) 15) (band v 31)), 3))
    by (destruct nd; reflexivity).
  rewrite le_at_mid by (rewrite le_enc_length; reflexivity). cbn [bind].
  rewrite le_dec_enc by (change (256 ^ Z.of_nat 3) with 16777216; lia).
  unfold shr, band. change (2 ^ 9) with 512. change (2 ^ 5) with 32.
  rewrite land_ones_15 by (apply Z.div_pos; lia). rewrite land_ones_31 by lia.
  replace ((d + 32 * m + 512 * y) / 512) with y by lia.
  replace ((d + 32 * m + 512 * y) / 32 mod 16) with m by lia.
  replace ((d + 32 * m + 512 * y) mod 32) with d by lia.
  rewrite fmt_date_text by lia. reflexivity.
Qed.

Theorem time_ok uns neg h mi s fr : wf_value TTime uns (VTime neg h mi s fr) = true -> cell_ok TTime uns (VTime neg h mi s fr).
Proof.
  intros Hwf pre rest. cbn [wf_value] in Hwf. cbn [enc_cell code_of meta_of text].
  rewrite len_le_enc. split; [|reflexivity].
  change (cell_bytes ffmt tz jsonp ?d ?p 11 0 uns) with
    (do v <- le_at d p 3;
     let val := if 0 <? band (shr v 16) 128 then i32 (v + 255 * 2 ^ 24) else v in
     let a := Z.abs val in
     let txt := fmt_clock (Z.quot a 10000) (Z.quot (Z.rem a 10000) 100) (Z.rem a 100) in
     Ok (Some (if val <? 0 then 45 :: txt else txt), 3)).
  rewrite le_at_mid by (rewrite le_enc_length; reflexivity). cbn [bind].
  set (mag := h * 10000 + mi * 100 + s).
  assert (Hmag : 0 <= mag <= 8385959) by (unfold mag; lia).
  rewrite le_dec_enc by (change (256 ^ Z.of_nat 3) with 16777216; change (2 ^ 24) with 16777216; apply Z.mod_pos_bound; lia).
  change (2 ^ 24) with 16777216.
  set (v := (if neg then - mag else mag) mod 16777216).
  assert (Hv : 0 <= v < 16777216) by (apply Z.mod_pos_bound; lia).
  unfold band, shr. change (2 ^ 16) with 65536.
  rewrite land128 by (split; [apply Z.div_pos; lia | apply Z.div_lt_upper_bound; lia]).
  cbv zeta.
  assert (Hval : (if 0 <? (if 128 <=? v / 65536 then 128 else 0) then i32 (v + 255 * 16777216) else v)
                 = (if neg then - mag else mag)).
  { destruct neg.
    - assert (0 < mag) by (unfold mag; lia).
      assert (E : v = 16777216 - mag) by (unfold v; symmetry; apply Z.mod_unique with (q := -1); lia).
      destruct (128 <=? v / 65536) eqn:C; [|apply Z.leb_gt in C; lia].
      change (0 <? 128) with true. cbv iota.
      unfold i32, u32, sx. change (2 ^ (32 - 1)) with 2147483648. change (2 ^ 32) with 4294967296.
      rewrite Z.mod_small by lia.
      destruct (v + 255 * 16777216 <? 2147483648) eqn:D; [apply Z.ltb_lt in D; lia | lia].
    - assert (E : v = mag) by (unfold v; apply Z.mod_small; lia).
      destruct (128 <=? v / 65536) eqn:C; [apply Z.leb_le in C; lia|].
      change (0 <? 0) with false. cbv iota. exact E. }
  rewrite Hval.
  assert (Ha : Z.abs (if neg then - mag else mag) = mag) by (destruct neg; lia).
  rewrite Ha.
  rewrite !Z.rem_mod_nonneg by lia.
  rewrite !Z.quot_div_nonneg by (try lia; apply Z.mod_pos_bound; lia).
  replace (mag / 10000) with h by (unfold mag; lia).
  replace (mag mod 10000 / 100) with mi by (unfold mag; lia).
  replace (mag mod 100) with s by (unfold mag; lia).
  rewrite fmt_clock_hour by lia.
  destruct neg.
  - assert (0 < mag) by (unfold mag; lia).
    destruct (- mag <? 0) eqn:C; [reflexivity | apply Z.ltb_ge in C; lia].
  - destruct (mag <? 0) eqn:C; [apply Z.ltb_lt in C; lia | reflexivity].
Qed.

Theorem datetime_ok uns y m d h mi s fr :
  wf_value TDateTime uns (VDateTime y m d h mi s fr) = true -> cell_ok TDateTime uns (VDateTime y m d h mi s fr).
Proof.
  intros Hwf pre rest. cbn [wf_value] in Hwf. cbn [enc_cell code_of meta_of text].
  rewrite len_le_enc. split; [|reflexivity].
  change (cell_bytes ffmt tz jsonp ?dd ?p 12 0 uns) with
    (do v <- le_at dd p 8;
     let dt := v / 1000000 in
     let t := v mod 1000000 in
     Ok (Some (fmt_date (dt / 10000) (dt mod 10000 / 100) (dt mod 100) ++ [32] ++
               fmt_clock (t / 10000) (t mod 10000 / 100) (t mod 100)), 8)).
  rewrite le_at_mid by (rewrite le_enc_length; reflexivity). cbn [bind].
  set (V := ((y * 100 + m) * 100 + d) * 1000000 + (h * 100 + mi) * 100 + s).
  assert (HV : 0 <= V < 256 ^ Z.of_nat 8) by (change (256 ^ Z.of_nat 8) with 18446744073709551616; unfold V; lia).
  rewrite le_dec_enc by exact HV. cbv zeta.
  replace (V / 1000000) with ((y * 100 + m) * 100 + d) by (unfold V; lia).
  replace (V mod 1000000) with ((h * 100 + mi) * 100 + s) by (unfold V; lia).
  replace (((y * 100 + m) * 100 + d) / 10000) with y by lia.
  replace (((y * 100 + m) * 100 + d) mod 10000 / 100) with m by lia.
  replace (((y * 100 + m) * 100 + d) mod 100) with d by lia.
  replace (((h * 100 + mi) * 100 + s) / 10000) with h by lia.
  replace (((h * 100 + mi) * 100 + s) mod 10000 / 100) with mi by lia.
  replace (((h * 100 + mi) * 100 + s) mod 100) with s by lia.
  rewrite fmt_date_text, fmt_clock_text by lia. reflexivity.
Qed.

Theorem datetime2_ok f uns y m d h mi s fr :
  wf_type (TDateTime2 f) = true -> wf_value (TDateTime2 f) uns (VDateTime y m d h mi s fr) = true ->
  cell_ok (TDateTime2 f) uns (VDateTime y m d h mi s fr).
Proof.
  intros Ht Hwf pre rest. cbn [wf_type wf_value] in *. cbn [enc_cell code_of meta_of text].
  assert (Hf : 0 <= f <= 6) by lia. assert (Hfr : 0 <= fr < 10 ^ f) by lia.
  rewrite len_app, len_be_enc, len_enc_frac by auto.
  split; [|unfold frac_bytes; reflexivity].
  change (cell_bytes ffmt tz jsonp ?dd ?p 18 ?mm uns) with
    (do raw <- be_at dd p 5;
     let ymdhms := u64 (raw - 549755813888) in
     let ymd := shr ymdhms 17 in
     let ym := shr ymd 5 in
     let hms := ymdhms mod 131072 in
     do (fr, n) <- frac_suffix dd (p + 5) mm;
     Ok (Some (fmt_date (ym / 13) (ym mod 13) (ymd mod 32) ++ [32] ++
               fmt_clock (shr hms 12) (shr hms 6 mod 64) (hms mod 64) ++ fr), 5 + n)).
  set (V := (((((y * 13 + m) * 32 + d) * 32 + h) * 64 + mi) * 64 + s)).
  assert (HV : 0 <= V < 549755813888) by (unfold V; lia).
  replace (549755813888 + ((((y * 13 + m) * 32 + d) * 32 + h) * 64 + mi) * 64 + s) with (549755813888 + V)
    by (unfold V; ring).
  rewrite be_at_hd by (rewrite be_enc_length; reflexivity). cbn [bind].
  rewrite be_dec_enc by (change (256 ^ Z.of_nat 5) with 1099511627776; lia).
  replace (549755813888 + V - 549755813888) with V by lia.
  unfold u64. rewrite (Z.mod_small V) by lia. cbv zeta.
  replace (length pre + 5)%nat with (length pre + length (be_enc 5 (549755813888 + V)))%nat
    by (rewrite be_enc_length; reflexivity).
  rewrite frac_suffix_ok by auto. cbn [bind].
  unfold shr. change (2 ^ 17) with 131072. change (2 ^ 5) with 32. change (2 ^ 12) with 4096. change (2 ^ 6) with 64.
  replace (V / 131072) with ((y * 13 + m) * 32 + d) by (unfold V; lia).
  replace (V mod 131072) with ((h * 64 + mi) * 64 + s) by (unfold V; lia).
  replace (((y * 13 + m) * 32 + d) / 32) with (y * 13 + m) by lia.
  replace (((y * 13 + m) * 32 + d) mod 32) with d by lia.
  replace ((y * 13 + m) / 13) with y by lia.
  replace ((y * 13 + m) mod 13) with m by lia.
  replace (((h * 64 + mi) * 64 + s) / 4096) with h by lia.
  replace (((h * 64 + mi) * 64 + s) / 64 mod 64) with mi by lia.
  replace (((h * 64 + mi) * 64 + s) mod 64) with s by lia.
  rewrite fmt_date_text, fmt_clock_text by lia.
  cbn [app]. rewrite <- ?app_assoc. reflexivity.
Qed.


(* ---- TIME2: sign, borrow from the fractional part for negative values ---- *)
Lemma time2_go_ok (nb : nat) (M : Z) (digits : nat) (div10 : bool) fs hms (neg : bool) pre hd rest T :
  M = 256 ^ Z.of_nat nb -> 0 <= fs < M ->
  fmt_pd digits (if div10 then Z.quot fs 10 else fs) = T ->
  (do f0 <- be_at (pre ++ (hd ++ be_enc nb (if neg && negb (fs =? 0) then M - fs else fs)) ++ rest)
                  (length pre + length hd) nb;
   let '(hms', f') := if neg && negb (f0 =? 0)
                      then ((if neg && negb (fs =? 0) then hms + 1 else hms) - 1, M - f0)
                      else ((if neg && negb (fs =? 0) then hms + 1 else hms), f0) in
   Ok (hms', 46 :: fmt_pd digits (if div10 then Z.quot f' 10 else f')))
  = Ok (hms, 46 :: T).
Proof.
  intros HM Hfs HT.
  rewrite be_at_mid2 by (rewrite be_enc_length; reflexivity). cbn [bind].
  destruct (neg && negb (fs =? 0)) eqn:B.
  - apply andb_true_iff in B as [B1 B2]. subst neg.
    rewrite be_dec_enc by lia.
    replace (M - fs =? 0) with false by lia. cbn [andb negb].
    replace (M - (M - fs)) with fs by lia. replace (hms + 1 - 1) with hms by lia.
    rewrite HT. reflexivity.
  - rewrite be_dec_enc by lia. rewrite B. rewrite HT. reflexivity.
Qed.

Lemma time2_frac_ok f fr neg hms pre hd rest :
  0 <= f <= 6 -> 0 <= fr < 10 ^ f ->
  let fs := frac_store f fr in
  let nb := frac_bytes f in
  let borrow := neg && negb (fs =? 0) in
  time2_frac (pre ++ (hd ++ be_enc (Z.to_nat nb) (if borrow then 256 ^ nb - fs else fs)) ++ rest)
             (length pre + length hd) f neg (if borrow then hms + 1 else hms)
    = Ok (hms, text_frac f fr).
Proof.
  intros Hf Hfr.
  assert (f = 0 \/ f = 1 \/ f = 2 \/ f = 3 \/ f = 4 \/ f = 5 \/ f = 6) as C by lia.
  unfold time2_frac, text_frac, frac_store, frac_bytes.
  destruct C as [-> | [-> | [-> | [-> | [-> | [-> | ->]]]]]]; cbn [Z.eqb Pos.eqb Z.odd]; cbv iota zeta.
  - change (10 ^ 0) with 1 in Hfr. assert (fr = 0) by lia. subst. change (0 =? 0) with true. rewrite andb_false_r. reflexivity.
  - change (10 ^ 1) with 10 in Hfr. change (Z.to_nat ((1 + 1) / 2)) with 1%nat. change (256 ^ ((1 + 1) / 2)) with 256.
    apply (time2_go_ok 1 256 1 true); [reflexivity | lia |].
    rewrite Z.quot_div_nonneg by lia. replace (fr * 10 / 10) with fr by lia.
    apply fmt_pd_pad0; [lia | cbn; lia].
  - change (10 ^ 2) with 100 in Hfr. change (Z.to_nat ((2 + 1) / 2)) with 1%nat. change (256 ^ ((2 + 1) / 2)) with 256.
    apply (time2_go_ok 1 256 2 false); [reflexivity | lia |]. apply fmt_pd_pad0; [lia | cbn; lia].
  - change (10 ^ 3) with 1000 in Hfr. change (Z.to_nat ((3 + 1) / 2)) with 2%nat. change (256 ^ ((3 + 1) / 2)) with 65536.
    apply (time2_go_ok 2 65536 3 true); [reflexivity | lia |].
    rewrite Z.quot_div_nonneg by lia. replace (fr * 10 / 10) with fr by lia.
    apply fmt_pd_pad0; [lia | cbn; lia].
  - change (10 ^ 4) with 10000 in Hfr. change (Z.to_nat ((4 + 1) / 2)) with 2%nat. change (256 ^ ((4 + 1) / 2)) with 65536.
    apply (time2_go_ok 2 65536 4 false); [reflexivity | lia |]. apply fmt_pd_pad0; [lia | cbn; lia].
  - change (10 ^ 5) with 100000 in Hfr. change (Z.to_nat ((5 + 1) / 2)) with 3%nat. change (256 ^ ((5 + 1) / 2)) with 16777216.
    apply (time2_go_ok 3 16777216 5 true); [reflexivity | lia |].
    rewrite Z.quot_div_nonneg by lia. replace (fr * 10 / 10) with fr by lia.
    apply fmt_pd_pad0; [lia | cbn; lia].
  - change (10 ^ 6) with 1000000 in Hfr. change (Z.to_nat ((6 + 1) / 2)) with 3%nat. change (256 ^ ((6 + 1) / 2)) with 16777216.
    apply (time2_go_ok 3 16777216 6 false); [reflexivity | lia |]. apply fmt_pd_pad0; [lia | cbn; lia].
Qed.

Theorem time2_ok f uns neg h mi s fr :
  wf_type (TTime2 f) = true -> wf_value (TTime2 f) uns (VTime neg h mi s fr) = true ->
  cell_ok (TTime2 f) uns (VTime neg h mi s fr).
Proof.
  intros Ht Hwf pre rest. cbn [wf_type wf_value] in *. cbn [enc_cell code_of meta_of text].
  assert (Hf : 0 <= f <= 6) by lia. assert (Hfr : 0 <= fr < 10 ^ f) by lia.
  unfold enc_time2.
  set (hms := h * 4096 + mi * 64 + s).
  assert (Hhms : 0 <= hms <= 3436283) by (unfold hms; lia).
  set (fs := frac_store f fr). set (nb := frac_bytes f).
  assert (Hfs0 : (fs =? 0) = (fr =? 0)).
  { unfold fs, frac_store. destruct (Z.odd f); lia. }
  set (borrow := neg && negb (fs =? 0)).
  assert (Hpair : (if neg then (- hms - (if fs =? 0 then 0 else 1), if fs =? 0 then 0 else 256 ^ nb - fs) else (hms, fs))
                  = ((if neg then - hms - (if fs =? 0 then 0 else 1) else hms), (if borrow then 256 ^ nb - fs else fs))).
  { unfold borrow. destruct neg; destruct (fs =? 0) eqn:E; cbn [andb negb]; try reflexivity.
    f_equal. lia. }
  rewrite Hpair.
  set (ip := if neg then - hms - (if fs =? 0 then 0 else 1) else hms).
  assert (Hlen : len (be_enc 3 (8388608 + ip) ++ be_enc (Z.to_nat nb) (if borrow then 256 ^ nb - fs else fs)) = 3 + (f + 1) / 2).
  { rewrite len_app, !len_be_enc. unfold nb, frac_bytes. lia. }
  rewrite Hlen. split; [|reflexivity].
  change (cell_bytes ffmt tz jsonp ?dd ?p 19 ?mm uns) with
    (do raw <- be_at dd p 3;
     let hms0 := raw - 8388608 in
     let neg := hms0 <? 0 in
     let hms1 := Z.abs hms0 in
     do (hms, fr) <- time2_frac dd (p + 3) mm neg hms1;
     let txt := fmt_clock (shr hms 12 mod 1024) (shr hms 6 mod 64) (hms mod 64) ++ fr in
     Ok (Some (if neg then 45 :: txt else txt), 3 + (mm + 1) / 2)).
  assert (Hip : - 3436284 <= ip <= 3436283) by (unfold ip; destruct neg; destruct (fs =? 0); lia).
  rewrite be_at_hd by (rewrite be_enc_length; reflexivity). cbn [bind].
  rewrite be_dec_enc by (change (256 ^ Z.of_nat 3) with 16777216; lia).
  replace (8388608 + ip - 8388608) with ip by lia. cbv zeta.
  assert (Hneg : (ip <? 0) = neg).
  { unfold ip. destruct neg.
    - destruct (fs =? 0) eqn:E.
      + assert (fr = 0) by lia. assert (0 < hms) by (unfold hms; lia). lia.
      + lia.
    - lia. }
  assert (Habs : Z.abs ip = (if borrow then hms + 1 else hms)).
  { unfold ip, borrow. destruct neg; destruct (fs =? 0); cbn [andb negb]; lia. }
  rewrite Hneg, Habs.
  replace (length pre + 3)%nat with (length pre + length (be_enc 3 (8388608 + ip)))%nat
    by (rewrite be_enc_length; reflexivity).
  pose proof (time2_frac_ok f fr neg hms pre (be_enc 3 (8388608 + ip)) rest Hf Hfr) as TF.
  cbv zeta in TF. fold fs nb borrow in TF. rewrite TF. cbn [bind].
  unfold shr. change (2 ^ 12) with 4096. change (2 ^ 6) with 64.
  replace (hms / 4096 mod 1024) with h by (unfold hms; lia).
  replace (hms / 64 mod 64) with mi by (unfold hms; lia).
  replace (hms mod 64) with s by (unfold hms; lia).
  rewrite fmt_clock_hour by lia.
  destruct neg; cbn [app]; rewrite <- ?app_assoc; reflexivity.
Qed.

(* ---- TIMESTAMP: the instant rendered in the process's zone ---- *)
Definition civil_check (dz : Z) : bool :=
  let '(y, m, d) := civil_of_days dz in
  (0 <=? y) && (y <=? 9999) && (1 <=? m) && (m <=? 12) && (1 <=? d) && (d <=? 31) &&
  (days_of_civil y m d =? dz) && valid_civil y m d.

(* the sweep walks a Z counter (no unary number is converted per element: the independent checker has no VM and
   would need quadratic time for Z.of_nat over seq) *)
Fixpoint civil_sweep_from (fuel : nat) (dz : Z) : bool :=
  match fuel with O => true | S f => civil_check dz && civil_sweep_from f (dz + 1) end.

Lemma civil_sweep_from_spec fuel : forall dz, civil_sweep_from fuel dz = true ->
  forall k, 0 <= k < Z.of_nat fuel -> civil_check (dz + k) = true.
Proof.
  induction fuel as [|f IH]; intros dz H k Hk; [lia|].
  cbn [civil_sweep_from] in H. apply andb_true_iff in H as [H0 H1].
  destruct (Z.eq_dec k 0) as [->|Hn]; [rewrite Z.add_0_r; exact H0|].
  replace (dz + k) with (dz + 1 + (k - 1)) by lia. apply (IH _ H1). lia.
Qed.

Lemma civil_sweep : civil_sweep_from (Z.to_nat 49716) (-2) = true.
Proof. vm_compute. reflexivity. Qed.

Lemma civil_ok dz : -2 <= dz <= 49713 -> civil_check dz = true.
Proof.
  intros H. replace dz with (-2 + (dz + 2)) by lia.
  apply (civil_sweep_from_spec _ _ civil_sweep). lia.
Qed.

Hypothesis tz_bounded : forall v, -86400 <= tz v <= 86400.

Lemma print_timestamp_text v : 0 <= v < 2 ^ 32 -> print_timestamp tz v = text_timestamp tz v.
Proof.
  intros Hv. change (2 ^ 32) with 4294967296 in Hv. unfold print_timestamp, text_timestamp.
  destruct (v =? 0) eqn:E; [reflexivity|]. apply Z.eqb_neq in E.
  pose proof (tz_bounded v) as Htz.
  set (t := v + tz v).
  assert (Ht : -86400 <= t <= 4295053696) by (unfold t; lia).
  pose proof (civil_ok (t / 86400) ltac:(lia)) as C. unfold civil_check in C.
  destruct (civil_of_days (t / 86400)) as [[y m] d].
  rewrite fmt_date_text by lia.
  rewrite fmt_clock_text by lia. reflexivity.
Qed.

(* the calendar conversion used is a bijection on the reachable range: the printed date denotes the instant *)
Lemma civil_roundtrip dz : -2 <= dz <= 49713 ->
  let '(y, m, d) := civil_of_days dz in days_of_civil y m d = dz /\ valid_civil y m d = true.
Proof.
  intros H. pose proof (civil_ok dz H) as C. unfold civil_check in C.
  destruct (civil_of_days dz) as [[y m] d].
  apply andb_true_iff in C as [C V]. apply andb_true_iff in C as [_ E]. apply Z.eqb_eq in E. auto.
Qed.

Theorem timestamp_ok uns secs fr : wf_value TTimestamp uns (VTimestamp secs fr) = true -> cell_ok TTimestamp uns (VTimestamp secs fr).
Proof.
  intros Hwf pre rest. cbn [wf_value] in Hwf. cbn [enc_cell code_of meta_of text].
  rewrite len_le_enc. split; [|reflexivity].
  change (cell_bytes ffmt tz jsonp ?dd ?p 7 0 uns) with
    (do v <- le_at dd p 4; Ok (Some (print_timestamp tz v), 4)).
  rewrite le_at_mid by (rewrite le_enc_length; reflexivity). cbn [bind].
  rewrite le_dec_enc by (change (256 ^ Z.of_nat 4) with (2 ^ 32); lia).
  rewrite print_timestamp_text by lia. reflexivity.
Qed.

Theorem timestamp2_ok f uns secs fr :
  wf_type (TTimestamp2 f) = true -> wf_value (TTimestamp2 f) uns (VTimestamp secs fr) = true ->
  cell_ok (TTimestamp2 f) uns (VTimestamp secs fr).
Proof.
  intros Ht Hwf pre rest. cbn [wf_type wf_value] in *. cbn [enc_cell code_of meta_of text].
  assert (Hf : 0 <= f <= 6) by lia. assert (Hfr : 0 <= fr < 10 ^ f) by lia.
  rewrite len_app, len_be_enc, len_enc_frac by auto.
  split; [|unfold frac_bytes; reflexivity].
  change (cell_bytes ffmt tz jsonp ?dd ?p 17 ?mm uns) with
    (do sec <- be_at dd p 4;
     do (fr, n) <- frac_suffix dd (p + 4) mm;
     Ok (Some (print_timestamp tz sec ++ fr), 4 + n)).
  rewrite be_at_hd by (rewrite be_enc_length; reflexivity). cbn [bind].
  rewrite be_dec_enc by (change (256 ^ Z.of_nat 4) with (2 ^ 32); lia).
  replace (length pre + 4)%nat with (length pre + length (be_enc 4 secs))%nat
    by (rewrite be_enc_length; reflexivity).
  rewrite frac_suffix_ok by auto. cbn [bind].
  rewrite print_timestamp_text by lia. reflexivity.
Qed.


End Temporal.
