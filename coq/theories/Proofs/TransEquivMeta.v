(* gen/TransMeta.v (binlog_event_rbr.go: metadataLength, metadataTotalLength, metadataRead, readLenEncInt,
   translated by harness/cmd/gotrans) computes what the hand-written functions of Model/Rbr.v do. *)
From Coq Require Import ZifyBool.
From GB Require Import Base.Prelude Base.GoSem Base.BytesLemmas Proofs.GoSemLemmas Proofs.TransTactics.
From GB Require Import Model.Header Model.Events Model.Rbr.
From GBGen Require Import Consts TransMeta.
Open Scope Z_scope.
Ltac Zify.zify_post_hook ::= Z.to_euclidean_division_equations.

(* a (value, nat position) result of the hand-written model with the position as a Go int *)
Definition pos_of {A} (r : A * nat) : A * Z := (fst r, Z.of_nat (snd r)).

(* the four classes of the hand-written metadata_read (generated case lists of gen/Consts.v) as the
   disjunctions the translated switch tests *)
Ltac in_case_norm := unfold in_case; cbn [nth metadataRead_cases existsb]; rewrite ?orb_false_r, ?orb_assoc; reflexivity.
Lemma in_case0 typ : in_case 0 typ =
  (typ =? 0) || (typ =? 1) || (typ =? 2) || (typ =? 3) || (typ =? 6) || (typ =? 7) || (typ =? 8) || (typ =? 9) ||
  (typ =? 10) || (typ =? 11) || (typ =? 12) || (typ =? 13) || (typ =? 14).
Proof. in_case_norm. Qed.
Lemma in_case1 typ : in_case 1 typ =
  (typ =? 4) || (typ =? 5) || (typ =? 17) || (typ =? 18) || (typ =? 19) || (typ =? 245) || (typ =? 249) ||
  (typ =? 250) || (typ =? 251) || (typ =? 252) || (typ =? 255).
Proof. in_case_norm. Qed.
Lemma in_case2 typ : in_case 2 typ = (typ =? 246) || (typ =? 247) || (typ =? 248) || (typ =? 254).
Proof. in_case_norm. Qed.
Lemma in_case3 typ : in_case 3 typ = (typ =? 15) || (typ =? 16) || (typ =? 253).
Proof. in_case_norm. Qed.

(* ---- metadataRead ---- *)
Lemma u16_be a b : u16 (go_shl u16 a 8 + b) = u16 (a * 256 + b).
Proof. unfold go_shl, u16. change (2 ^ 8) with 256. apply Z.add_mod_idemp_l. lia. Qed.
Lemma u16_le a b : u16 (a + go_shl u16 b 8) = u16 (a + b * 256).
Proof. unfold go_shl, u16. change (2 ^ 8) with 256. apply Z.add_mod_idemp_r. lia. Qed.

Theorem metadataRead_equiv d pos typ :
  Z.of_nat pos < 2 ^ 62 ->
  res_sim (metadataRead_g d (Z.of_nat pos) typ) (res_map pos_of (metadata_read d pos typ)).
Proof.
  intros Hp. change (2 ^ 62) with 4611686018427387904 in Hp.
  unfold metadataRead_g, metadata_read. rewrite <- in_case0, <- in_case1, <- in_case2, <- in_case3.
  rewrite !go_idx_nat. rewrite !(i64_small (Z.of_nat pos + 1)), !(i64_small (Z.of_nat pos + 2)) by lia.
  replace (Z.of_nat pos + 1) with (Z.of_nat (S pos)) by lia. rewrite go_idx_nat.
  destruct (in_case 0 typ); [reflexivity|].
  destruct (in_case 1 typ).
  { destruct (at_ d pos); cbn [bind res_map res_sim]; auto. }
  destruct (in_case 2 typ).
  { destruct (at_ d pos); cbn [bind res_map res_sim]; auto.
    destruct (at_ d (S pos)); cbn [bind res_map res_sim]; auto. unfold pos_of; cbn [fst snd].
    rewrite u16_be. f_equal. lia. }
  destruct (in_case 3 typ).
  { destruct (at_ d pos); cbn [bind res_map res_sim]; auto.
    destruct (at_ d (S pos)); cbn [bind res_map res_sim]; auto. unfold pos_of; cbn [fst snd].
    rewrite u16_le. f_equal. lia. }
  exact I.
Qed.

(* ---- readLenEncInt: (value, new position, ok) against option (value * position) ---- *)
Definition lenenc_of (r : option (Z * nat)) : Z * Z * bool :=
  match r with Some (v, p) => (v, Z.of_nat p, true) | None => (0, 0, false) end.

Lemma triple_eq {A B C} (a a' : A) (b b' : B) (c : C) : a = a' -> b = b' -> (a, b, c) = (a', b', c).
Proof. intros -> ->. reflexivity. Qed.

Theorem readLenEncInt_equiv d pos :
  wf_bytes d -> Z.of_nat pos < 2 ^ 62 ->
  res_sim (readLenEncInt_g d (Z.of_nat pos)) (res_map lenenc_of (read_lenenc d pos)).
Proof.
  intros W Hp. pose proof Hp as Hp'. change (2 ^ 62) with 4611686018427387904 in Hp'.
  unfold readLenEncInt_g, read_lenenc, len.
  rewrite ?go_idx_nat; rewrite ?idx_off by (assumption || (cbn; lia)).
  rewrite !(i64_small (Z.of_nat pos + _)) by lia.
  change (Z.to_nat 1) with 1%nat; change (Z.to_nat 2) with 2%nat; change (Z.to_nat 3) with 3%nat;
    change (Z.to_nat 4) with 4%nat; change (Z.to_nat 5) with 5%nat; change (Z.to_nat 6) with 6%nat;
    change (Z.to_nat 7) with 7%nat; change (Z.to_nat 8) with 8%nat.
  rewrite !le_at_at_le by lia. cbn [at_le].
  destruct (Nat.leb_spec (length d) pos) as [L0|L0]; destruct (Z.of_nat pos >=? Z.of_nat (length d)) eqn:E0; try lia;
    [reflexivity|].
  case_at W; [|exact I].
  repeat match goal with
  | |- context [if (b =? ?k) then _ else _] => destruct (b =? k)
  end.
  all: repeat match goal with
  | |- context [(length ?dd <=? ?n)%nat] =>
    destruct (Nat.leb_spec (length dd) n);
    match goal with |- context [?x >=? Z.of_nat (length dd)] => destruct (x >=? Z.of_nat (length dd)) eqn:?; try lia end
  end.
  all: try reflexivity.
  all: repeat case_at W; try exact I.
  all: cbn [res_map res_sim lenenc_of]; apply triple_eq; [|lia].
  all: shl_arith; lia.
Qed.

(* ---- metadataLength, metadataTotalLength ----
   The hand-written model has no counterpart (the functions are used by the event writer only).  They are
   characterised through metadata_read: metadataLength is the number of bytes metadata_read consumes. *)
Definition meta_width (typ : Z) : option nat :=
  if in_case 0 typ then Some 0%nat
  else if in_case 1 typ then Some 1%nat
  else if in_case 2 typ || in_case 3 typ then Some 2%nat
  else None.

Definition width_res (w : option nat) : res Z := match w with Some n => Ok (Z.of_nat n) | None => Panic end.

Theorem metadataLength_equiv typ : metadataLength_g typ = width_res (meta_width typ).
Proof.
  unfold metadataLength_g, meta_width. rewrite <- in_case0, <- in_case1, <- in_case2, <- in_case3.
  destruct (in_case 0 typ), (in_case 1 typ), (in_case 2 typ), (in_case 3 typ); reflexivity.
Qed.

(* what meta_width says about the hand-written metadata_read: it consumes exactly that many bytes, panics when
   they are not there, and returns an error exactly for the types without a width (where metadataLength panics) *)
Theorem metadata_read_width d pos typ :
  match meta_width typ with
  | Some n => ((n = 0 \/ pos + n <= length d)%nat -> exists v, metadata_read d pos typ = Ok (v, (pos + n)%nat))
              /\ ((0 < n /\ length d < pos + n)%nat -> metadata_read d pos typ = Panic)
  | None => metadata_read d pos typ = Err EMetaType
  end.
Proof.
  unfold meta_width, metadata_read.
  destruct (in_case 0 typ).
  { split; [|intros; lia]. intros _. exists 0. rewrite Nat.add_0_r. reflexivity. }
  destruct (in_case 1 typ).
  { destruct (at_cases d pos) as [(a & Ea & La)|[Ea La]]; rewrite Ea; cbn [bind]; split; intros H; try lia.
    - exists a. f_equal. f_equal. lia.
    - reflexivity. }
  destruct (in_case 2 typ); cbn [orb].
  { destruct (at_cases d pos) as [(a & Ea & La)|[Ea La]]; rewrite Ea; cbn [bind].
    2: { split; intros H; [lia|reflexivity]. }
    destruct (at_cases d (S pos)) as [(b & Eb & Lb)|[Eb Lb]]; rewrite Eb; cbn [bind]; split; intros H; try lia.
    - eexists. reflexivity.
    - reflexivity. }
  destruct (in_case 3 typ).
  { destruct (at_cases d pos) as [(a & Ea & La)|[Ea La]]; rewrite Ea; cbn [bind].
    2: { split; intros H; [lia|reflexivity]. }
    destruct (at_cases d (S pos)) as [(b & Eb & Lb)|[Eb Lb]]; rewrite Eb; cbn [bind]; split; intros H; try lia.
    - eexists. reflexivity.
    - reflexivity. }
  reflexivity.
Qed.

Corollary metadataLength_consumed d pos typ v p :
  metadata_read d pos typ = Ok (v, p) -> (pos <= p)%nat /\ metadataLength_g typ = Ok (Z.of_nat (p - pos)).
Proof.
  intros H. rewrite metadataLength_equiv. pose proof (metadata_read_width d pos typ) as Wd.
  destruct (meta_width typ) as [n|]; [|congruence].
  destruct Wd as [W1 W2]. destruct (Nat.le_gt_cases (pos + n) (length d)) as [L|G].
  - destruct (W1 (or_intror L)) as (v' & E). rewrite E in H. inversion H; subst. split; [lia|]. cbn [width_res]. f_equal. lia.
  - destruct n as [|n]; [destruct (W1 (or_introl eq_refl)) as (v' & E); rewrite E in H; inversion H; subst;
                         split; [lia|]; cbn [width_res]; f_equal; lia|].
    rewrite (W2 ltac:(lia)) in H. discriminate.
Qed.

(* the sum of the widths; None when a type has none (the Go loop panics at the first such type) *)
Fixpoint total_width (types : bytes) : option nat :=
  match types with
  | [] => Some 0%nat
  | t :: r => match meta_width t, total_width r with Some a, Some b => Some (a + b)%nat | _, _ => None end
  end.

Lemma meta_width_le2 t n : meta_width t = Some n -> (n <= 2)%nat.
Proof.
  unfold meta_width. destruct (in_case 0 t); [intros H; inversion H; lia|].
  destruct (in_case 1 t); [intros H; inversion H; lia|].
  destruct (in_case 2 t || in_case 3 t); intros H; inversion H; lia.
Qed.

Lemma total_width_le types n : total_width types = Some n -> (n <= 2 * length types)%nat.
Proof.
  revert n; induction types as [|t r IH]; intros n H; cbn [total_width length] in *.
  - inversion H; lia.
  - destruct (meta_width t) as [a|] eqn:Ea; [|discriminate]. destruct (total_width r) as [b|]; [|discriminate].
    inversion H; subst. pose proof (meta_width_le2 _ _ Ea). pose proof (IH b eq_refl). lia.
Qed.

Theorem metadataTotalLength_equiv fuel types :
  len types < 2 ^ 62 -> (length types < fuel)%nat ->
  res_sim (metadataTotalLength_g fuel types) (width_res (total_width types)).
Proof.
  intros Hl Hf. unfold len in Hl. change (2 ^ 62) with 4611686018427387904 in Hl.
  unfold metadataTotalLength_g. cbv zeta.
  lazymatch goal with |- res_sim (?L fuel 0 0) _ => set (loop := L) end.
  assert (Hloop : forall rest pre acc fl, types = pre ++ rest -> (length rest < fl)%nat ->
            (acc <= 2 * length pre)%nat ->
            res_sim (loop fl (Z.of_nat acc) (Z.of_nat (length pre)))
                    (width_res (match total_width rest with Some n => Some (acc + n)%nat | None => None end))).
  { induction rest as [|t rest IH]; intros pre acc fl Ht Hfl Ha; (destruct fl as [|fl]; [cbn [length] in Hfl; lia|]);
      unfold loop; cbv beta iota zeta; fold loop; unfold len; cbn [total_width].
    - rewrite Ht, app_nil_r. destruct (Z.of_nat (length pre) <? Z.of_nat (length pre)) eqn:E; [lia|].
      cbn [width_res res_sim]. f_equal. lia.
    - assert (Hlen : length types = (length pre + S (length rest))%nat) by (rewrite Ht, app_length; reflexivity).
      destruct (Z.of_nat (length pre) <? Z.of_nat (length types)) eqn:E; [|lia].
      rewrite go_idx_nat. rewrite Ht at 1. rewrite at_app_mid. cbn [bind].
      rewrite metadataLength_equiv. destruct (meta_width t) as [a|] eqn:Ea; cbn [width_res bind]; [|exact I].
      pose proof (meta_width_le2 _ _ Ea) as Ha2.
      rewrite !i64_small by lia.
      replace (Z.of_nat acc + Z.of_nat a) with (Z.of_nat (acc + a)) by lia.
      replace (Z.of_nat (length pre) + 1) with (Z.of_nat (length (pre ++ [t]))) by (rewrite app_length; cbn [length]; lia).
      specialize (IH (pre ++ [t]) (acc + a)%nat fl).
      destruct (total_width rest) as [b|].
      + replace (acc + (a + b))%nat with (acc + a + b)%nat by lia.
        apply IH; [rewrite <- app_assoc; exact Ht | cbn [length] in Hfl; lia | rewrite app_length; cbn [length]; lia].
      + apply IH; [rewrite <- app_assoc; exact Ht | cbn [length] in Hfl; lia | rewrite app_length; cbn [length]; lia]. }
  specialize (Hloop types [] 0%nat fuel eq_refl Hf ltac:(cbn [length]; lia)).
  cbn [length Z.of_nat] in Hloop. destruct (total_width types); exact Hloop.
Qed.

(* the table-map model reads the metadata block with read_metas: when it succeeds from pos to p, the block is
   metadataTotalLength(types) = p - pos bytes long *)
Lemma read_metas_total_width types : forall d pos acc ms p,
  read_metas types d pos acc = Ok (ms, p) -> (pos <= p)%nat /\ total_width types = Some (p - pos)%nat.
Proof.
  induction types as [|t r IH]; intros d pos acc ms p H; cbn [read_metas total_width] in *.
  - inversion H; subst. split; [lia|]. f_equal. lia.
  - destruct (metadata_read d pos t) as [[m q]| |] eqn:E; cbn [bind] in H; try discriminate.
    destruct (metadataLength_consumed _ _ _ _ _ E) as [Lq Eq]. rewrite metadataLength_equiv in Eq.
    destruct (meta_width t) as [a|]; cbn [width_res] in Eq; [|discriminate].
    destruct (IH _ _ _ _ _ H) as [Lp Ep]. rewrite Ep. split; [lia|]. f_equal. inversion Eq. lia.
Qed.

Theorem metadataTotalLength_read_metas fuel types d pos acc ms p :
  len types < 2 ^ 62 -> (length types < fuel)%nat ->
  read_metas types d pos acc = Ok (ms, p) ->
  (pos <= p)%nat /\ metadataTotalLength_g fuel types = Ok (Z.of_nat (p - pos)).
Proof.
  intros Hl Hf H. destruct (read_metas_total_width _ _ _ _ _ _ H) as [L E]. split; [exact L|].
  pose proof (metadataTotalLength_equiv fuel types Hl Hf) as S. rewrite E in S. cbn [width_res] in S.
  destruct (metadataTotalLength_g fuel types); cbn [res_sim] in S; try contradiction. subst. reflexivity.
Qed.

Print Assumptions metadataRead_equiv.
Print Assumptions readLenEncInt_equiv.
Print Assumptions metadataLength_equiv.
Print Assumptions metadata_read_width.
Print Assumptions metadataLength_consumed.
Print Assumptions metadataTotalLength_equiv.
Print Assumptions metadataTotalLength_read_metas.
