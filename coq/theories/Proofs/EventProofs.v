(* C16: event headers and control events decode exactly, checksum or not. *)
From Coq Require Import ZifyBool.
From GB Require Import Base.Prelude Base.BytesLemmas Model.Header Model.Events
  Spec.EncHeader Spec.EncEvent Spec.Expect Spec.EventSpec Proofs.HeaderProofs Proofs.TableIdProofs.
From GBGen Require Import Consts.
Open Scope Z_scope.
Ltac Zify.zify_post_hook ::= Z.div_mod_to_equations.

(* ------------------------------------------------------------------ *)
(* positional reads                                                    *)

Lemma len_app {A} (a b : list A) : len (a ++ b) = len a + len b.
Proof. unfold len. rewrite app_length. lia. Qed.

Lemma len_le_enc n v : len (le_enc n v) = Z.of_nat n.
Proof. unfold len. rewrite le_enc_length. reflexivity. Qed.

Lemma len_cons {A} (x : A) l : len (x :: l) = 1 + len l.
Proof. unfold len. cbn [length]. lia. Qed.

Lemma to_nat_len {A} (l : list A) : Z.to_nat (len l) = length l.
Proof. unfold len. apply Nat2Z.id. Qed.

Lemma len_nil {A} : len (@nil A) = 0.
Proof. reflexivity. Qed.

Lemma len_repeat {A} (x : A) n : len (repeat x n) = Z.of_nat n.
Proof. unfold len. rewrite repeat_length. reflexivity. Qed.

Lemma slice_pre pre mid rest p n :
  length pre = p -> length mid = n -> slice (pre ++ mid ++ rest) p n = Ok mid.
Proof. intros <- <-. apply slice_app_mid. reflexivity. Qed.

Lemma le_at_pre pre enc rest p n :
  length pre = p -> length enc = n -> le_at (pre ++ enc ++ rest) p n = Ok (le_dec enc).
Proof. intros Hp Hn. unfold le_at. rewrite (slice_pre pre enc rest p n Hp Hn). reflexivity. Qed.

Lemma le_at_here enc rest n : length enc = n -> le_at (enc ++ rest) 0 n = Ok (le_dec enc).
Proof. intros H. apply (le_at_pre [] enc rest 0 n); [reflexivity|exact H]. Qed.

Lemma le_at_end pre enc p n :
  length pre = p -> length enc = n -> le_at (pre ++ enc) p n = Ok (le_dec enc).
Proof. intros Hp Hn. rewrite <- (app_nil_r enc) at 1. apply le_at_pre; assumption. Qed.

Lemma at_here b rest : at_ (b :: rest) 0 = Ok b.
Proof. reflexivity. Qed.

Lemma at_pre pre b rest p : length pre = p -> at_ (pre ++ b :: rest) p = Ok b.
Proof. intros <-. apply at_app_mid. Qed.

Lemma slice_from_pre pre rest p : length pre = p -> slice_from (pre ++ rest) p = Ok rest.
Proof.
  intros <-. unfold slice_from. rewrite app_length.
  destruct (Nat.leb_spec (length pre) (length pre + length rest)); [|lia].
  rewrite skipn_app_exact. reflexivity.
Qed.

Lemma slice_skip a d p n : slice (a ++ d) (length a + p) n = slice d p n.
Proof.
  unfold slice. rewrite app_length.
  replace (skipn (length a + p) (a ++ d)) with (skipn p d).
  2:{ clear n. induction a as [|x a IH]; [reflexivity | exact IH]. }
  destruct (Nat.leb_spec (length a + p + n) (length a + length d));
    destruct (Nat.leb_spec (p + n) (length d)); try reflexivity; lia.
Qed.

Lemma le_at_skip a d p n q : length a = q -> le_at (a ++ d) (q + p) n = le_at d p n.
Proof. intros <-. unfold le_at. rewrite slice_skip. reflexivity. Qed.

Lemma at_skip a d p q : length a = q -> at_ (a ++ d) (q + p) = at_ d p.
Proof.
  intros <-. unfold at_. rewrite nth_error_app2 by lia.
  replace (length a + p - length a)%nat with p by lia. reflexivity.
Qed.

Lemma pow256_4 : 256 ^ Z.of_nat 4 = 2 ^ 32. Proof. reflexivity. Qed.
Lemma pow256_2 : 256 ^ Z.of_nat 2 = 2 ^ 16. Proof. reflexivity. Qed.
Lemma pow256_8 : 256 ^ Z.of_nat 8 = 2 ^ 64. Proof. reflexivity. Qed.
Lemma pow256_6 : 256 ^ Z.of_nat 6 = 2 ^ 48. Proof. reflexivity. Qed.

Lemma le_rt4 v : 0 <= v < 2 ^ 32 -> le_dec (le_enc 4 v) = v.
Proof. intros H. apply le_dec_enc. rewrite pow256_4. exact H. Qed.
Lemma le_rt2 v : 0 <= v < 2 ^ 16 -> le_dec (le_enc 2 v) = v.
Proof. intros H. apply le_dec_enc. rewrite pow256_2. exact H. Qed.
Lemma le_rt8 v : 0 <= v < 2 ^ 64 -> le_dec (le_enc 8 v) = v.
Proof. intros H. apply le_dec_enc. rewrite pow256_8. exact H. Qed.
Lemma le_rt6 v : 0 <= v < 2 ^ 48 -> le_dec (le_enc 6 v) = v.
Proof. intros H. apply le_dec_enc. rewrite pow256_6. exact H. Qed.

(* ------------------------------------------------------------------ *)
(* 1. the common header                                                *)

Lemma enc_header_len_length h t : length (enc_header_len h t) = 19%nat.
Proof. unfold enc_header_len. rewrite !app_length, !le_enc_length. reflexivity. Qed.

Ltac hdr_split := unfold enc_header_len; rewrite <- ?app_assoc.
Ltac len_side := rewrite ?app_length, ?le_enc_length; reflexivity.

Section HeaderAny.
Variables (h : hdr) (t : Z) (rest : bytes).
Let ev := enc_header_len h t ++ rest.

Lemma hdr_timestamp_raw : ev_timestamp ev = Ok (le_dec (le_enc 4 (h_ts h))).
Proof.
  unfold ev_timestamp. change (lit lits_Timestamp 1) with 4%nat. subst ev. hdr_split.
  apply (le_at_pre [] (le_enc 4 (h_ts h))); len_side.
Qed.

Lemma hdr_type_raw : ev_type ev = Ok (h_type h).
Proof.
  unfold ev_type. change (lit lits_Type 0) with 4%nat. subst ev. hdr_split.
  cbn [app]. apply (at_pre (le_enc 4 (h_ts h))). len_side.
Qed.

Lemma hdr_server_id_raw : ev_server_id ev = Ok (le_dec (le_enc 4 (h_sid h))).
Proof.
  unfold ev_server_id. change (lit lits_ServerID 0) with 5%nat.
  change (lit lits_ServerID 1 - 5)%nat with 4%nat. subst ev. hdr_split.
  rewrite (app_assoc (le_enc 4 (h_ts h)) [h_type h]).
  apply le_at_pre; len_side.
Qed.

Lemma hdr_length_raw : ev_length ev = Ok (le_dec (le_enc 4 t)).
Proof.
  rewrite ev_length_eq. subst ev. hdr_split.
  rewrite (app_assoc (le_enc 4 (h_ts h)) [h_type h]).
  rewrite (app_assoc (_ ++ [h_type h]) (le_enc 4 (h_sid h))).
  apply le_at_pre; len_side.
Qed.

Lemma hdr_next_raw : ev_next_position ev = Ok (le_dec (le_enc 4 (h_next h))).
Proof.
  unfold ev_next_position. change (lit lits_NextPosition 0) with 13%nat.
  change (lit lits_NextPosition 1 - 13)%nat with 4%nat. subst ev. hdr_split.
  rewrite (app_assoc (le_enc 4 (h_ts h)) [h_type h]).
  rewrite (app_assoc (_ ++ [h_type h]) (le_enc 4 (h_sid h))).
  rewrite (app_assoc (_ ++ le_enc 4 (h_sid h)) (le_enc 4 t)).
  apply le_at_pre; len_side.
Qed.

Lemma hdr_flags_raw : ev_flags ev = Ok (le_dec (le_enc 2 (h_flags h))).
Proof.
  unfold ev_flags. change (lit lits_Flags 0) with 17%nat.
  change (lit lits_Flags 1 - 17)%nat with 2%nat. subst ev. hdr_split.
  rewrite (app_assoc (le_enc 4 (h_ts h)) [h_type h]).
  rewrite (app_assoc (_ ++ [h_type h]) (le_enc 4 (h_sid h))).
  rewrite (app_assoc (_ ++ le_enc 4 (h_sid h)) (le_enc 4 t)).
  rewrite (app_assoc (_ ++ le_enc 4 t) (le_enc 4 (h_next h))).
  apply le_at_pre; len_side.
Qed.
End HeaderAny.

(* the five fields that do not depend on the length field *)
Definition header_view (ev : bytes) :=
  (ev_type ev, ev_flags ev, ev_timestamp ev, ev_server_id ev, ev_next_position ev).

Lemma header_view_any h t rest :
  header_view (enc_header_len h t ++ rest) =
  (Ok (h_type h), Ok (le_dec (le_enc 2 (h_flags h))), Ok (le_dec (le_enc 4 (h_ts h))),
   Ok (le_dec (le_enc 4 (h_sid h))), Ok (le_dec (le_enc 4 (h_next h)))).
Proof.
  unfold header_view.
  rewrite hdr_type_raw, hdr_flags_raw, hdr_timestamp_raw, hdr_server_id_raw, hdr_next_raw. reflexivity.
Qed.

Lemma header_any h t rest :
  wf_hdr h -> t = 19 + len rest -> t < 2 ^ 32 ->
  let ev := enc_header_len h t ++ rest in
  ev_timestamp ev = Ok (h_ts h) /\ ev_type ev = Ok (h_type h) /\ ev_server_id ev = Ok (h_sid h) /\
  ev_next_position ev = Ok (h_next h) /\ ev_flags ev = Ok (h_flags h) /\
  ev_length ev = Ok (len ev) /\ is_valid ev = Ok true.
Proof.
  intros (Hts & Hty & Hsid & Hnx & Hfl) Ht Hlt ev.
  assert (Hlen : len ev = t).
  { subst ev. rewrite len_app. unfold len at 1. rewrite enc_header_len_length. lia. }
  assert (Ht0 : 0 <= t < 2 ^ 32) by (pose proof (Zle_0_nat (length rest)); unfold len in Ht; lia).
  assert (HL : ev_length ev = Ok (len ev)).
  { subst ev. rewrite hdr_length_raw, le_rt4 by exact Ht0. rewrite Hlen. reflexivity. }
  subst ev.
  rewrite hdr_timestamp_raw, hdr_type_raw, hdr_server_id_raw, hdr_next_raw, hdr_flags_raw.
  rewrite !le_rt4, le_rt2 by assumption.
  repeat (split; [reflexivity|]). split; [exact HL|].
  unfold is_valid. rewrite HL. cbn [bind]. change hdr_min with 19. change hdr_min2 with 19.
  unfold u32. change 4294967296 with (2 ^ 32). rewrite Hlen.
  rewrite (Z.mod_small t) by lia.
  destruct (Z.ltb_spec t 19); [unfold len in Ht; lia|].
  rewrite Z.eqb_refl. reflexivity.
Qed.

Theorem header_fields h body :
  wf_hdr h -> len (enc_event h body) < 2 ^ 32 ->
  let ev := enc_event h body in
  ev_timestamp ev = Ok (h_ts h) /\ ev_type ev = Ok (h_type h) /\ ev_server_id ev = Ok (h_sid h) /\
  ev_next_position ev = Ok (h_next h) /\ ev_flags ev = Ok (h_flags h) /\
  ev_length ev = Ok (len ev) /\ is_valid ev = Ok true.
Proof.
  intros Hh Hlt. unfold enc_event in *.
  apply header_any; [exact Hh|reflexivity|].
  rewrite len_app in Hlt. unfold len in Hlt at 1. rewrite enc_header_len_length in Hlt. lia.
Qed.

(* ------------------------------------------------------------------ *)
(* events with a configurable header length and an optional checksum   *)

Lemma wf_cfg_inv c :
  wf_cfg c = true ->
  19 <= c_hlen c <= 250 /\ 35 <= c_nsizes c <= 255 /\ (c_tid4 c = true -> c_v2 c = false).
Proof.
  unfold wf_cfg. intros H.
  destruct (c_tid4 c), (c_v2 c); cbn [negb orb andb] in H; repeat split; try lia; auto; discriminate.
Qed.

Lemma pad_right_length n : forall l, length (pad_right n l) = n.
Proof. induction n as [|n IH]; intros [|x l]; cbn [pad_right length]; auto. Qed.

Lemma crc_tail_length crc : length (firstn 4 (pad_right 4 crc)) = 4%nat.
Proof. rewrite firstn_length, pad_right_length. reflexivity. Qed.

Lemma len_crc_bytes c crc : len (crc_bytes c crc) = if c_crc c then 4 else 0.
Proof. unfold crc_bytes, len. destruct (c_crc c); [rewrite crc_tail_length|]; reflexivity. Qed.

Lemma core_prefix_length c h t :
  19 <= c_hlen c ->
  length (enc_header_len h t ++ repeat 0 (Z.to_nat (c_hlen c - 19))) = Z.to_nat (c_hlen c).
Proof. intros H. rewrite app_length, enc_header_len_length, repeat_length. lia. Qed.

Lemma len_enc_ev c h body crc :
  19 <= c_hlen c -> len (enc_ev c h body crc) = c_hlen c + len body + (if c_crc c then 4 else 0).
Proof.
  intros H. unfold enc_ev. rewrite !len_app, len_repeat, len_crc_bytes.
  unfold len at 1. rewrite enc_header_len_length. lia.
Qed.

Lemma len_enc_ev_stripped c h body :
  19 <= c_hlen c -> len (enc_ev_stripped c h body) = c_hlen c + len body.
Proof.
  intros H. unfold enc_ev_stripped. rewrite !len_app, len_repeat.
  unfold len at 1. rewrite enc_header_len_length. lia.
Qed.

Lemma cut_tail (a tail : bytes) :
  length tail = 4%nat ->
  (if (length (a ++ tail) <? 4)%nat then @Panic bytes
   else Ok (firstn (length (a ++ tail) - 4) (a ++ tail))) = Ok a.
Proof.
  intros H. rewrite app_length, H.
  destruct (Nat.ltb_spec (length a + 4) 4); [lia|].
  replace (length a + 4 - 4)%nat with (length a) by lia.
  rewrite firstn_app_exact. reflexivity.
Qed.

Lemma enc_ev_crc_shape c h body crc :
  c_crc c = true ->
  enc_ev c h body crc = enc_ev_stripped c h body ++ firstn 4 (pad_right 4 crc).
Proof.
  intros Hc. unfold enc_ev, enc_ev_stripped. rewrite len_crc_bytes. unfold crc_bytes. rewrite Hc.
  rewrite <- !app_assoc. reflexivity.
Qed.

Lemma enc_ev_nocrc_shape c h body crc :
  c_crc c = false -> enc_ev c h body crc = enc_ev_stripped c h body.
Proof.
  intros Hc. unfold enc_ev, enc_ev_stripped. rewrite len_crc_bytes. unfold crc_bytes. rewrite Hc.
  rewrite app_nil_r. reflexivity.
Qed.

(* applying the announced algorithm removes exactly the checksum *)
Lemma strip56_enc_ev c h v body crc :
  strip_checksum56 (expect_format c v) (enc_ev c h body crc) = Ok (enc_ev_stripped c h body).
Proof.
  unfold strip_checksum56. cbn [f_alg expect_format]. unfold alg_of.
  destruct (c_crc c) eqn:Hc.
  - change ((1 =? K_BinlogChecksumAlgOff) || (1 =? K_BinlogChecksumAlgUndef)) with false.
    change (1 =? K_BinlogChecksumAlgCRC32) with true. cbv iota.
    rewrite enc_ev_crc_shape by exact Hc. apply cut_tail. apply crc_tail_length.
  - change ((0 =? K_BinlogChecksumAlgOff) || (0 =? K_BinlogChecksumAlgUndef)) with true. cbv iota.
    rewrite enc_ev_nocrc_shape by exact Hc. reflexivity.
Qed.

Lemma strip_maria_enc_ev c h v body crc :
  strip_checksum_maria (expect_format c v) (enc_ev c h body crc) = Ok (enc_ev_stripped c h body).
Proof.
  unfold strip_checksum_maria. cbn [f_alg expect_format]. unfold alg_of.
  destruct (c_crc c) eqn:Hc.
  - change ((1 =? K_BinlogChecksumAlgOff) || (1 =? K_BinlogChecksumAlgUndef)) with false. cbv iota.
    rewrite enc_ev_crc_shape by exact Hc. apply cut_tail. apply crc_tail_length.
  - change ((0 =? K_BinlogChecksumAlgOff) || (0 =? K_BinlogChecksumAlgUndef)) with true. cbv iota.
    rewrite enc_ev_nocrc_shape by exact Hc. reflexivity.
Qed.

(* the body parsers see exactly the body *)
Lemma body_core f c h t b :
  19 <= c_hlen c -> f_hlen f = c_hlen c ->
  body f (enc_header_len h t ++ repeat 0 (Z.to_nat (c_hlen c - 19)) ++ b) = Ok b.
Proof.
  intros H Hf. unfold body. rewrite Hf, app_assoc.
  apply slice_from_pre. apply core_prefix_length. exact H.
Qed.

Lemma body_stripped f c h b :
  19 <= c_hlen c -> f_hlen f = c_hlen c -> body f (enc_ev_stripped c h b) = Ok b.
Proof. intros H Hf. unfold enc_ev_stripped. apply body_core; assumption. Qed.

(* header of an event with checksum / longer header *)
Theorem header_fields_ev c h body crc :
  wf_cfg c = true -> wf_hdr h -> len (enc_ev c h body crc) < 2 ^ 32 ->
  let ev := enc_ev c h body crc in
  ev_timestamp ev = Ok (h_ts h) /\ ev_type ev = Ok (h_type h) /\ ev_server_id ev = Ok (h_sid h) /\
  ev_next_position ev = Ok (h_next h) /\ ev_flags ev = Ok (h_flags h) /\
  ev_length ev = Ok (len ev) /\ is_valid ev = Ok true.
Proof.
  intros Hc Hh Hlt. apply wf_cfg_inv in Hc as (Hhl & _ & _).
  rewrite len_enc_ev in Hlt by lia.
  unfold enc_ev. apply header_any; [exact Hh| |].
  - rewrite !len_app, len_repeat. lia.
  - rewrite len_crc_bytes. exact Hlt.
Qed.

(* the stripped event keeps the five fields; its length field still counts the checksum,
   so it is no longer a valid event when a checksum was present *)
Theorem header_fields_stripped c h body :
  wf_cfg c = true -> wf_hdr h -> c_hlen c + len body + (if c_crc c then 4 else 0) < 2 ^ 32 ->
  let ev := enc_ev_stripped c h body in
  ev_timestamp ev = Ok (h_ts h) /\ ev_type ev = Ok (h_type h) /\ ev_server_id ev = Ok (h_sid h) /\
  ev_next_position ev = Ok (h_next h) /\ ev_flags ev = Ok (h_flags h) /\
  ev_length ev = Ok (len ev + (if c_crc c then 4 else 0)) /\
  is_valid ev = Ok (negb (c_crc c)).
Proof.
  intros Hc (Hts & Hty & Hsid & Hnx & Hfl) Hlt ev. apply wf_cfg_inv in Hc as (Hhl & _ & _).
  assert (Hlen : len ev = c_hlen c + len body) by (apply len_enc_ev_stripped; lia).
  pose proof (Zle_0_nat (length body)) as Hb. fold (len body) in Hb.
  assert (HL : ev_length ev = Ok (len ev + (if c_crc c then 4 else 0))).
  { subst ev. unfold enc_ev_stripped at 1. rewrite hdr_length_raw, le_rt4 by (destruct (c_crc c); lia).
    rewrite Hlen. reflexivity. }
  subst ev. unfold enc_ev_stripped at 1 2 3 4 5.
  rewrite hdr_timestamp_raw, hdr_type_raw, hdr_server_id_raw, hdr_next_raw, hdr_flags_raw.
  rewrite !le_rt4, le_rt2 by assumption.
  repeat (split; [reflexivity|]). split; [exact HL|].
  unfold is_valid. rewrite HL. cbn [bind]. change hdr_min with 19. change hdr_min2 with 19.
  unfold u32. change 4294967296 with (2 ^ 32). rewrite Hlen.
  rewrite (Z.mod_small (c_hlen c + len body)) by (destruct (c_crc c); lia).
  destruct (Z.ltb_spec (c_hlen c + len body) 19); [lia|].
  destruct (c_crc c); cbn [negb].
  - destruct (Z.ltb_spec (c_hlen c + len body + 4) 19); [lia|].
    destruct (Z.eqb_spec (c_hlen c + len body + 4) (c_hlen c + len body)); [lia|]. reflexivity.
  - rewrite Z.add_0_r. destruct (Z.ltb_spec (c_hlen c + len body) 19); [lia|].
    rewrite Z.eqb_refl. reflexivity.
Qed.

(* ------------------------------------------------------------------ *)
(* 3. rotate, intvar, rand                                             *)

Lemma i64_expect p : 0 <= p < 2 ^ 64 -> i64 p = expect_rotate_pos p.
Proof.
  intros H. unfold i64, sx, u64, expect_rotate_pos.
  change 18446744073709551616 with (2 ^ 64). rewrite Z.mod_small by exact H.
  change (2 ^ (64 - 1)) with (2 ^ 63). reflexivity.
Qed.

Lemma rotate_body_ok f c h pos name :
  19 <= c_hlen c -> f_hlen f = c_hlen c -> 0 <= pos < 2 ^ 64 ->
  ev_rotate f (enc_ev_stripped c h (enc_rotate_body pos name)) = Ok (name, expect_rotate_pos pos).
Proof.
  intros H Hf Hp. unfold ev_rotate. rewrite body_stripped by assumption. cbn [bind].
  unfold enc_rotate_body. rewrite app_length, le_enc_length.
  destruct (Nat.ltb_spec (8 + length name) 8); [lia|].
  rewrite (le_at_here (le_enc 8 pos) name 8) by len_side. cbn [bind].
  rewrite (slice_from_pre (le_enc 8 pos) name 8) by len_side. cbn [bind].
  rewrite le_rt8 by exact Hp. rewrite i64_expect by exact Hp. reflexivity.
Qed.

Theorem rotate_roundtrip c h v pos name crc :
  wf_cfg c = true -> 0 <= pos < 2 ^ 64 ->
  (do e <- strip_checksum56 (expect_format c v) (enc_ev c h (enc_rotate_body pos name) crc);
   ev_rotate (expect_format c v) e) = Ok (name, expect_rotate_pos pos).
Proof.
  intros Hc Hp. apply wf_cfg_inv in Hc as (Hhl & _ & _).
  rewrite strip56_enc_ev. cbn [bind]. apply rotate_body_ok; [lia|reflexivity|exact Hp].
Qed.

Lemma expect_rotate_pos_small p : p < 2 ^ 63 -> expect_rotate_pos p = p.
Proof. intros H. unfold expect_rotate_pos. destruct (Z.ltb_spec p (2 ^ 63)); lia. Qed.

Lemma expect_rotate_pos_big p : 2 ^ 63 <= p -> expect_rotate_pos p = p - 2 ^ 64.
Proof. intros H. unfold expect_rotate_pos. destruct (Z.ltb_spec p (2 ^ 63)); lia. Qed.

Lemma intvar_body_ok f c h t val :
  19 <= c_hlen c -> f_hlen f = c_hlen c -> t = 1 \/ t = 2 -> 0 <= val < 2 ^ 64 ->
  ev_intvar f (enc_ev_stripped c h (enc_intvar_body t val)) = Ok (t, val).
Proof.
  intros H Hf Ht Hv. unfold ev_intvar. rewrite body_stripped by assumption. cbn [bind].
  unfold enc_intvar_body. change (at_ ([t] ++ le_enc 8 val) 0) with (Ok t). cbn [bind].
  change K_IntVarLastInsertID with 1. change K_IntVarInsertID with 2.
  assert (E : negb (t =? 1) && negb (t =? 2) = false) by (destruct Ht; subst t; reflexivity).
  rewrite E.
  rewrite (le_at_end [t] (le_enc 8 val) 1 8) by len_side. cbn [bind].
  rewrite le_rt8 by exact Hv. reflexivity.
Qed.

Lemma intvar_body_bad f c h t val :
  19 <= c_hlen c -> f_hlen f = c_hlen c -> t <> 1 -> t <> 2 ->
  ev_intvar f (enc_ev_stripped c h (enc_intvar_body t val)) = Err EIntVarId.
Proof.
  intros H Hf H1 H2. unfold ev_intvar. rewrite body_stripped by assumption. cbn [bind].
  unfold enc_intvar_body. change (at_ ([t] ++ le_enc 8 val) 0) with (Ok t). cbn [bind].
  change K_IntVarLastInsertID with 1. change K_IntVarInsertID with 2.
  destruct (Z.eqb_spec t 1); [lia|]. destruct (Z.eqb_spec t 2); [lia|]. reflexivity.
Qed.

Theorem intvar_roundtrip c h v t val crc :
  wf_cfg c = true -> 0 <= val < 2 ^ 64 ->
  (do e <- strip_checksum56 (expect_format c v) (enc_ev c h (enc_intvar_body t val) crc);
   ev_intvar (expect_format c v) e) = if (t =? 1) || (t =? 2) then Ok (t, val) else Err EIntVarId.
Proof.
  intros Hc Hv. apply wf_cfg_inv in Hc as (Hhl & _ & _).
  rewrite strip56_enc_ev. cbn [bind].
  destruct (Z.eqb_spec t 1) as [E1|E1]; [|destruct (Z.eqb_spec t 2) as [E2|E2]]; cbn [orb].
  - apply intvar_body_ok; [lia|reflexivity|auto|exact Hv].
  - apply intvar_body_ok; [lia|reflexivity|auto|exact Hv].
  - apply intvar_body_bad; [lia|reflexivity|exact E1|exact E2].
Qed.

Lemma rand_body_ok f c h a b :
  19 <= c_hlen c -> f_hlen f = c_hlen c -> 0 <= a < 2 ^ 64 -> 0 <= b < 2 ^ 64 ->
  ev_rand f (enc_ev_stripped c h (enc_rand_body a b)) = Ok (a, b).
Proof.
  intros H Hf Ha Hb. unfold ev_rand. rewrite body_stripped by assumption. cbn [bind].
  unfold enc_rand_body.
  rewrite (le_at_here (le_enc 8 a) (le_enc 8 b) 8) by len_side. cbn [bind].
  rewrite (le_at_end (le_enc 8 a) (le_enc 8 b) 8 8) by len_side. cbn [bind].
  rewrite !le_rt8 by assumption. reflexivity.
Qed.

Theorem rand_roundtrip c h v a b crc :
  wf_cfg c = true -> 0 <= a < 2 ^ 64 -> 0 <= b < 2 ^ 64 ->
  (do e <- strip_checksum56 (expect_format c v) (enc_ev c h (enc_rand_body a b) crc);
   ev_rand (expect_format c v) e) = Ok (a, b).
Proof.
  intros Hc Ha Hb. apply wf_cfg_inv in Hc as (Hhl & _ & _).
  rewrite strip56_enc_ev. cbn [bind]. apply rand_body_ok; [lia|reflexivity|exact Ha|exact Hb].
Qed.

(* ------------------------------------------------------------------ *)
(* 2. the format description event                                     *)

Lemma pad_right_app n : forall l, (length l <= n)%nat -> pad_right n l = l ++ repeat 0 (n - length l).
Proof.
  induction n as [|n IH]; intros [|x l] H; cbn [pad_right length repeat app Nat.sub] in *; try reflexivity; try lia.
  - f_equal. rewrite (IH []) by (cbn [length]; lia). cbn [length app]. rewrite Nat.sub_0_r. reflexivity.
  - f_equal. apply IH. lia.
Qed.

Lemma repeat_snoc {A} (x : A) n : repeat x n ++ [x] = x :: repeat x n.
Proof. induction n as [|n IH]; cbn [repeat app]; [reflexivity|]. rewrite IH. reflexivity. Qed.

Lemma rev_repeat' {A} (x : A) n : rev (repeat x n) = repeat x n.
Proof. induction n as [|n IH]; cbn [repeat rev]; [reflexivity|]. rewrite IH. apply repeat_snoc. Qed.

Lemma strip_zeros_rev_repeat k l : strip_zeros_rev (repeat 0 k ++ l) = strip_zeros_rev l.
Proof. induction k as [|k IH]; cbn [repeat app strip_zeros_rev]; auto. Qed.

Lemma trim_rev_same l : trim_right0_rev l = strip_zeros_rev l.
Proof. induction l as [|x l IH]; [reflexivity|]. destruct x; cbn [trim_right0_rev strip_zeros_rev]; auto. Qed.

(* the model's right trim is the specification's denotation of the field *)
Lemma trim_right0_denoted l : trim_right0 l = denoted_version l.
Proof.
  unfold trim_right0, denoted_version. rewrite !rev_append_rev, !app_nil_r, trim_rev_same. reflexivity.
Qed.

Lemma denoted_pad v : (length v <= 50)%nat -> denoted_version (pad_right 50 v) = denoted_version v.
Proof.
  intros H. unfold denoted_version. rewrite pad_right_app by exact H.
  rewrite rev_app_distr, rev_repeat', strip_zeros_rev_repeat. reflexivity.
Qed.

Lemma denoted_ntz v : no_trailing_zero v = true -> denoted_version v = v.
Proof.
  unfold no_trailing_zero, denoted_version. intros H.
  rewrite <- (rev_involutive v) at 2.
  destruct (rev v) as [|x r]; [reflexivity|].
  destruct x; [discriminate| |]; reflexivity.
Qed.

(* a text with a trailing zero byte reads back shorter: unrepresentable *)
Lemma denoted_trailing_zero v : denoted_version (v ++ [0]) = denoted_version v.
Proof. unfold denoted_version. rewrite rev_app_distr. reflexivity. Qed.

Section FormatData.
Variables (A P T : bytes) (hl : Z) (sizes : bytes) (alg : Z) (tail : bytes).
Hypothesis HA : length A = 2%nat.
Hypothesis HP : length P = 50%nat.
Hypothesis HT : length T = 4%nat.
Let data := A ++ P ++ T ++ [hl] ++ sizes ++ [alg] ++ tail.

Lemma fd_len : length data = (58 + length sizes + length tail)%nat.
Proof. subst data. rewrite !app_length, HA, HP, HT. cbn [length]. lia. Qed.

Lemma fd_ver : le_at data 0 2 = Ok (le_dec A).
Proof. subst data. apply le_at_here. exact HA. Qed.

Lemma fd_server : slice data 2 50 = Ok P.
Proof. subst data. apply slice_pre; assumption. Qed.

Lemma fd_hl : at_ data 56 = Ok hl.
Proof.
  subst data. replace (A ++ P ++ T ++ [hl] ++ sizes ++ [alg] ++ tail)
    with ((A ++ P ++ T) ++ hl :: (sizes ++ [alg] ++ tail)) by (rewrite <- !app_assoc; reflexivity).
  apply at_pre. rewrite !app_length, HA, HP, HT. reflexivity.
Qed.

Lemma fd_alg : at_ data (57 + length sizes) = Ok alg.
Proof.
  subst data. replace (A ++ P ++ T ++ [hl] ++ sizes ++ [alg] ++ tail)
    with ((A ++ P ++ T ++ [hl] ++ sizes) ++ alg :: tail) by (rewrite <- !app_assoc; reflexivity).
  apply at_pre. rewrite !app_length, HA, HP, HT. cbn [length]. lia.
Qed.

Lemma fd_sizes : slice data 57 (length sizes) = Ok sizes.
Proof.
  subst data. replace (A ++ P ++ T ++ [hl] ++ sizes ++ [alg] ++ tail)
    with ((A ++ P ++ T ++ [hl]) ++ sizes ++ ([alg] ++ tail)) by (rewrite <- !app_assoc; reflexivity).
  apply slice_pre; [|reflexivity]. rewrite !app_length, HA, HP, HT. reflexivity.
Qed.
End FormatData.

(* any header length >= 19, any size table (in particular 27..255 entries), any algorithm byte *)
Theorem format_roundtrip_gen h version hlen sizes alg crc :
  len version <= 50 -> 19 <= hlen ->
  ev_format (enc_format_gen h version hlen sizes alg crc) =
  Ok {| f_version := 4; f_server := denoted_version version; f_hlen := hlen; f_alg := alg; f_sizes := sizes |}.
Proof.
  intros Hv Hh. unfold len in Hv. unfold ev_format, enc_format_gen.
  match goal with |- context [enc_header_len h ?t ++ ?d] => set (data := d) end.
  rewrite (slice_from_pre _ data 19) by apply enc_header_len_length. cbn [bind].
  assert (HP : length (pad_right 50 version) = 50%nat) by apply pad_right_length.
  assert (HA : length (le_enc 2 4) = 2%nat) by reflexivity.
  assert (HT : length (le_enc 4 (h_ts h)) = 4%nat) by apply le_enc_length.
  subst data.
  rewrite (fd_len _ _ _ hlen sizes alg _ HA HP HT), crc_tail_length.
  rewrite (fd_ver _ _ _ hlen sizes alg _ HA). cbn [bind].
  change (le_dec (le_enc 2 4)) with 4. change (negb (4 =? 4)) with false. cbv iota.
  rewrite (fd_server _ _ _ hlen sizes alg _ HA HP). cbn [bind].
  rewrite (fd_hl _ _ _ hlen sizes alg _ HA HP HT). cbn [bind].
  destruct (Z.ltb_spec hlen 19); [lia|].
  destruct (Nat.ltb_spec (58 + length sizes + 4) 5); [lia|].
  replace (58 + length sizes + 4 - 5)%nat with (57 + length sizes)%nat by lia.
  rewrite (fd_alg _ _ _ hlen sizes alg _ HA HP HT). cbn [bind].
  destruct (Nat.ltb_spec (57 + length sizes) 57); [lia|].
  replace (57 + length sizes - 57)%nat with (length sizes) by lia.
  rewrite (fd_sizes _ _ _ hlen sizes alg _ HA HP HT). cbn [bind].
  rewrite trim_right0_denoted, denoted_pad by lia. reflexivity.
Qed.

Lemma enc_format_instance c h version crc :
  enc_format c h version crc = enc_format_gen h version (c_hlen c) (sizes_table c) (alg_of c) crc.
Proof. reflexivity. Qed.

Lemma sizes_from_length c n : forall t, length (sizes_from c t n) = n.
Proof. induction n as [|n IH]; intros t; cbn [sizes_from length]; auto. Qed.

Lemma sizes_table_length c : 0 <= c_nsizes c -> len (sizes_table c) = c_nsizes c.
Proof. intros H. unfold sizes_table, len. rewrite sizes_from_length. lia. Qed.

Theorem format_roundtrip c h version crc :
  wf_cfg c = true -> len version <= 50 -> no_trailing_zero version = true ->
  ev_format (enc_format c h version crc) = Ok (expect_format c version).
Proof.
  intros Hc Hv Hz. apply wf_cfg_inv in Hc as (Hhl & _ & _).
  rewrite enc_format_instance, format_roundtrip_gen by lia.
  rewrite denoted_ntz by exact Hz. reflexivity.
Qed.

(* arbitrary table: 27..255 entries (the bound is not even needed) *)
Theorem format_roundtrip_table h version hlen sizes alg crc :
  27 <= len sizes <= 255 -> len version <= 50 -> no_trailing_zero version = true -> 19 <= hlen <= 255 ->
  ev_format (enc_format_gen h version hlen sizes alg crc) =
  Ok {| f_version := 4; f_server := version; f_hlen := hlen; f_alg := alg; f_sizes := sizes |}.
Proof.
  intros _ Hv Hz Hh. rewrite format_roundtrip_gen by lia. rewrite denoted_ntz by exact Hz. reflexivity.
Qed.

(* a header length below 19 is refused *)
Lemma format_short_header h version hlen sizes alg crc :
  len version <= 50 -> hlen < 19 ->
  ev_format (enc_format_gen h version hlen sizes alg crc) = Err EHeaderLength.
Proof.
  intros Hv Hh. unfold len in Hv. unfold ev_format, enc_format_gen.
  match goal with |- context [enc_header_len h ?t ++ ?d] => set (data := d) end.
  rewrite (slice_from_pre _ data 19) by apply enc_header_len_length. cbn [bind].
  assert (HP : length (pad_right 50 version) = 50%nat) by apply pad_right_length.
  assert (HA : length (le_enc 2 4) = 2%nat) by reflexivity.
  assert (HT : length (le_enc 4 (h_ts h)) = 4%nat) by apply le_enc_length.
  subst data.
  rewrite (fd_ver _ _ _ hlen sizes alg _ HA). cbn [bind].
  change (le_dec (le_enc 2 4)) with 4. change (negb (4 =? 4)) with false. cbv iota.
  rewrite (fd_server _ _ _ hlen sizes alg _ HA HP). cbn [bind].
  rewrite (fd_hl _ _ _ hlen sizes alg _ HA HP HT). cbn [bind].
  destruct (Z.ltb_spec hlen 19); [reflexivity|lia].
Qed.

(* ------------------------------------------------------------------ *)
(* 4. query events                                                     *)

(* evaluate comparisons between closed integers *)
Ltac eqb_closed :=
  repeat match goal with
  | |- context [Z.eqb ?a ?b] =>
    let v := eval vm_compute in (Z.eqb a b) in
    match v with true => idtac | false => idtac end;
    change (Z.eqb a b) with v
  end.

Lemma vars_bytes_cons v vars : vars_bytes (v :: vars) = (fst v :: snd v) ++ vars_bytes vars.
Proof. reflexivity. Qed.

Lemma vars_bytes_count vars : (length vars <= length (vars_bytes vars))%nat.
Proof.
  induction vars as [|v vars IH]; [cbn; lia|].
  rewrite vars_bytes_cons, app_length. cbn [length]. lia.
Qed.

Lemma charset_of_6 a b c d e f :
  charset_of [a; b; c; d; e; f] = (le_dec [a; b], le_dec [c; d], le_dec [e; f]).
Proof. reflexivity. Qed.

(* the scanner, on variables in ANY order: it walks over the codes it can size and stops at the first other code *)
Lemma scan_vars_spec : forall vars fuel pre cs,
  forallb var_shape_ok vars = true -> (length vars < fuel)%nat ->
  scan_vars fuel (pre ++ vars_bytes vars) (length pre) cs = Ok (charset_scan vars cs).
Proof.
  induction vars as [|[c p] vars IH]; intros fuel pre cs Hs Hf.
  - destruct fuel as [|k]; [cbn [length] in Hf; lia|].
    cbn [scan_vars vars_bytes flat_map charset_scan]. rewrite app_nil_r, Nat.leb_refl. reflexivity.
  - destruct fuel as [|k]; [cbn [length] in Hf; lia|].
    cbn [forallb] in Hs. apply andb_true_iff in Hs as [Hsh Hs]. cbn [length] in Hf.
    rewrite vars_bytes_cons. cbn [fst snd charset_scan]. set (V := vars_bytes vars).
    assert (Hnext : forall pos cs', pos = length (pre ++ c :: p) ->
              scan_vars k (pre ++ (c :: p) ++ V) pos cs' = Ok (charset_scan vars cs')).
    { intros pos cs' ->. rewrite app_assoc. apply IH; [exact Hs | lia]. }
    assert (Hlen : length (pre ++ (c :: p) ++ V) = (length pre + S (length p) + length V)%nat).
    { rewrite !app_length. cbn [length]. lia. }
    cbn [scan_vars]. rewrite Hlen.
    destruct (Nat.leb_spec (length pre + S (length p) + length V) (length pre)) as [Hx|_]; [lia|].
    assert (Hc : at_ (pre ++ (c :: p) ++ V) (length pre) = Ok c) by (cbn [app]; apply at_pre; reflexivity).
    rewrite Hc. cbn [bind]. clear Hc.
    revert Hsh. unfold var_shape_ok, sized_code. cbn [fst snd].
    change K_QFlags2Code with 0. change K_QAutoIncrement with 3. change K_QSQLModeCode with 1.
    change K_QCatalog with 2. change K_QCatalogNZCode with 6. change K_QCharsetCode with 4.
    destruct (Z.eqb_spec c 0) as [->|N0].
    { eqb_closed. cbn [orb]. cbv iota. intros Hsh. apply Nat.eqb_eq in Hsh.
      apply Hnext. rewrite app_length. cbn [length]. lia. }
    destruct (Z.eqb_spec c 3) as [->|N3].
    { eqb_closed. cbn [orb]. cbv iota. intros Hsh. apply Nat.eqb_eq in Hsh.
      apply Hnext. rewrite app_length. cbn [length]. lia. }
    cbn [orb]. cbv iota.
    destruct (Z.eqb_spec c 1) as [->|N1].
    { eqb_closed. cbn [orb]. cbv iota. intros Hsh. apply Nat.eqb_eq in Hsh.
      apply Hnext. rewrite app_length. cbn [length]. lia. }
    cbn [orb]. cbv iota.
    destruct (Z.eqb_spec c 4) as [->|N4].
    { eqb_closed. cbn [orb]. cbv iota. intros Hsh. apply Nat.eqb_eq in Hsh.
      destruct p as [|a [|b [|c1 [|d [|e [|f [|g p]]]]]]]; try discriminate Hsh. clear Hsh.
      cbn [length].
      destruct (Nat.ltb_spec (length pre + 7 + length V) (S (length pre) + 6)) as [Hx|_]; [lia|].
      assert (H1 : le_at (pre ++ [4; a; b; c1; d; e; f] ++ V) (S (length pre)) 2 = Ok (le_dec [a; b])).
      { replace (pre ++ [4; a; b; c1; d; e; f] ++ V) with ((pre ++ [4]) ++ [a; b] ++ ([c1; d; e; f] ++ V))
          by (rewrite <- app_assoc; reflexivity).
        apply le_at_pre; [|reflexivity]. rewrite app_length. cbn [length]. lia. }
      assert (H2 : le_at (pre ++ [4; a; b; c1; d; e; f] ++ V) (S (length pre) + 2) 2 = Ok (le_dec [c1; d])).
      { replace (pre ++ [4; a; b; c1; d; e; f] ++ V) with ((pre ++ [4; a; b]) ++ [c1; d] ++ ([e; f] ++ V))
          by (rewrite <- app_assoc; reflexivity).
        apply le_at_pre; [|reflexivity]. rewrite app_length. cbn [length]. lia. }
      assert (H3 : le_at (pre ++ [4; a; b; c1; d; e; f] ++ V) (S (length pre) + 4) 2 = Ok (le_dec [e; f])).
      { replace (pre ++ [4; a; b; c1; d; e; f] ++ V) with ((pre ++ [4; a; b; c1; d]) ++ [e; f] ++ V)
          by (rewrite <- app_assoc; reflexivity).
        apply le_at_pre; [|reflexivity]. rewrite app_length. cbn [length]. lia. }
      rewrite H1. cbn [bind]. rewrite H2. cbn [bind]. rewrite H3. cbn [bind].
      rewrite charset_of_6. apply Hnext. rewrite app_length. cbn [length]. lia. }
    cbn [orb]. cbv iota.
    destruct (Z.eqb_spec c 2) as [->|N2].
    { eqb_closed. cbn [orb]. cbv iota. intros Hsh.
      destruct p as [|l r]; [discriminate Hsh|].
      apply andb_true_iff in Hsh as [Hl Hr]. apply Z.leb_le in Hl. apply Z.eqb_eq in Hr. unfold len in Hr.
      cbn [length].
      destruct (Nat.ltb_spec (length pre + S (S (length r)) + length V) (S (length pre) + 1)) as [Hx|_]; [lia|].
      assert (H1 : at_ (pre ++ (2 :: l :: r) ++ V) (S (length pre)) = Ok l).
      { replace (pre ++ (2 :: l :: r) ++ V) with ((pre ++ [2]) ++ l :: (r ++ V))
          by (rewrite <- app_assoc; reflexivity).
        apply at_pre. rewrite app_length. cbn [length]. lia. }
      rewrite H1. cbn [bind]. apply Hnext. rewrite app_length. cbn [length]. lia. }
    cbn [orb]. cbv iota.
    destruct (Z.eqb_spec c 6) as [->|N6].
    { eqb_closed. cbn [orb]. cbv iota. intros Hsh.
      destruct p as [|l r]; [discriminate Hsh|].
      apply andb_true_iff in Hsh as [Hl Hr]. apply Z.leb_le in Hl. apply Z.eqb_eq in Hr. unfold len in Hr.
      cbn [length].
      destruct (Nat.ltb_spec (length pre + S (S (length r)) + length V) (S (length pre) + 1)) as [Hx|_]; [lia|].
      assert (H1 : at_ (pre ++ (6 :: l :: r) ++ V) (S (length pre)) = Ok l).
      { replace (pre ++ (6 :: l :: r) ++ V) with ((pre ++ [6]) ++ l :: (r ++ V))
          by (rewrite <- app_assoc; reflexivity).
        apply at_pre. rewrite app_length. cbn [length]. lia. }
      rewrite H1. cbn [bind]. apply Hnext. rewrite app_length. cbn [length]. lia. }
    cbn [orb]. cbv iota. intros _. reflexivity.
Qed.

Lemma scan_vars_top vars :
  forallb var_shape_ok vars = true ->
  scan_vars (S (length (vars_bytes vars))) (vars_bytes vars) 0 None = Ok (charset_scan vars None).
Proof.
  intros Hs. apply (scan_vars_spec vars (S (length (vars_bytes vars))) [] None Hs).
  pose proof (vars_bytes_count vars). lia.
Qed.

Section QueryData.
Variables (A B : bytes) (dbl : Z) (E L vs db : bytes) (z : Z) (sql : bytes).
Hypothesis HA : length A = 4%nat.
Hypothesis HB : length B = 4%nat.
Hypothesis HE : length E = 2%nat.
Hypothesis HL : length L = 2%nat.
Let data := A ++ B ++ [dbl] ++ E ++ L ++ vs ++ db ++ [z] ++ sql.

Lemma qd_len : length data = (13 + length vs + length db + 1 + length sql)%nat.
Proof. subst data. rewrite !app_length, HA, HB, HE, HL. cbn [length]. lia. Qed.

Lemma qd_dbl : at_ data 8 = Ok dbl.
Proof.
  subst data. replace (A ++ B ++ [dbl] ++ E ++ L ++ vs ++ db ++ [z] ++ sql)
    with ((A ++ B) ++ dbl :: (E ++ L ++ vs ++ db ++ [z] ++ sql)) by (rewrite <- !app_assoc; reflexivity).
  apply at_pre. rewrite app_length, HA, HB. reflexivity.
Qed.

Lemma qd_varslen : le_at data 11 2 = Ok (le_dec L).
Proof.
  subst data. replace (A ++ B ++ [dbl] ++ E ++ L ++ vs ++ db ++ [z] ++ sql)
    with ((A ++ B ++ [dbl] ++ E) ++ L ++ (vs ++ db ++ [z] ++ sql)) by (rewrite <- !app_assoc; reflexivity).
  apply le_at_pre; [|exact HL]. rewrite !app_length, HA, HB, HE. reflexivity.
Qed.

Lemma qd_vars : slice data 13 (length vs) = Ok vs.
Proof.
  subst data. replace (A ++ B ++ [dbl] ++ E ++ L ++ vs ++ db ++ [z] ++ sql)
    with ((A ++ B ++ [dbl] ++ E ++ L) ++ vs ++ (db ++ [z] ++ sql)) by (rewrite <- !app_assoc; reflexivity).
  apply slice_pre; [|reflexivity]. rewrite !app_length, HA, HB, HE, HL. reflexivity.
Qed.

Lemma qd_db : slice data (13 + length vs) (length db) = Ok db.
Proof.
  subst data. replace (A ++ B ++ [dbl] ++ E ++ L ++ vs ++ db ++ [z] ++ sql)
    with ((A ++ B ++ [dbl] ++ E ++ L ++ vs) ++ db ++ ([z] ++ sql)) by (rewrite <- !app_assoc; reflexivity).
  apply slice_pre; [|reflexivity]. rewrite !app_length, HA, HB, HE, HL. cbn [length]. lia.
Qed.

Lemma qd_sql : slice_from data (13 + length vs + length db + 1) = Ok sql.
Proof.
  subst data. replace (A ++ B ++ [dbl] ++ E ++ L ++ vs ++ db ++ [z] ++ sql)
    with ((A ++ B ++ [dbl] ++ E ++ L ++ vs ++ db ++ [z]) ++ sql) by (rewrite <- !app_assoc; reflexivity).
  apply slice_from_pre. rewrite !app_length, HA, HB, HE, HL. cbn [length]. lia.
Qed.
End QueryData.

Lemma query_body_ok f c h thread exec err vars db sql :
  19 <= c_hlen c -> f_hlen f = c_hlen c ->
  forallb var_shape_ok vars = true -> len (vars_bytes vars) < 65536 ->
  ev_query f (enc_ev_stripped c h (enc_query_body thread exec err vars db sql)) =
  Ok {| q_db := db; q_sql := sql; q_charset := charset_scan vars None |}.
Proof.
  intros H Hf Hs Hv. unfold ev_query. rewrite body_stripped by assumption. cbn [bind].
  unfold enc_query_body. cbv zeta. fold (vars_bytes vars). set (vs := vars_bytes vars) in *.
  assert (HA : length (le_enc 4 thread) = 4%nat) by apply le_enc_length.
  assert (HB : length (le_enc 4 exec) = 4%nat) by apply le_enc_length.
  assert (HE : length (le_enc 2 err) = 2%nat) by apply le_enc_length.
  assert (HL : length (le_enc 2 (len vs)) = 2%nat) by apply le_enc_length.
  rewrite (qd_dbl _ _ (len db) _ _ vs db 0 sql HA HB). cbn [bind].
  rewrite (qd_varslen _ _ (len db) _ _ vs db 0 sql HA HB HE HL). cbn [bind].
  rewrite le_rt2 by (pose proof (Zle_0_nat (length vs)); unfold len in *; lia).
  rewrite !to_nat_len.
  rewrite (qd_len _ _ (len db) _ _ vs db 0 sql HA HB HE HL).
  destruct (Nat.ltb_spec (13 + length vs + length db + 1 + length sql) (13 + length vs + length db + 1)) as [Hx|_]; [lia|].
  rewrite (qd_db _ _ (len db) _ _ vs db 0 sql HA HB HE HL). cbn [bind].
  rewrite (qd_sql _ _ (len db) _ _ vs db 0 sql HA HB HE HL). cbn [bind].
  rewrite (qd_vars _ _ (len db) _ _ vs db 0 sql HA HB HE HL). cbn [bind].
  subst vs. rewrite scan_vars_top by exact Hs. reflexivity.
Qed.

(* variables in emission order: the scanner meets code 4 before any code it cannot size *)
Lemma charset_scan_no4 (vars : list (Z * bytes)) cs :
  (forall v, In v vars -> fst v <> 4) -> charset_scan vars cs = cs.
Proof.
  revert cs. induction vars as [|v vars IH]; intros cs H; cbn [charset_scan]; [reflexivity|].
  destruct (sized_code (fst v)); [|reflexivity].
  destruct (Z.eqb_spec (fst v) 4) as [E|_]; [exfalso; apply (H v); [left; reflexivity|exact E]|].
  apply IH. intros w Hw. apply H. right. exact Hw.
Qed.

Lemma ranks_no4 : forall (vars : list (Z * bytes)) lo,
  4 <= lo -> ranks_increasing lo (map fst vars) = true -> forall v, In v vars -> fst v <> 4.
Proof.
  induction vars as [|w vars IH]; intros lo Hlo Hr v Hin; [destruct Hin|].
  cbn [map ranks_increasing] in Hr. apply andb_true_iff in Hr as [H1 H2]. apply Z.ltb_lt in H1.
  destruct Hin as [<-|Hin].
  - intros E. rewrite E in H1. change (var_rank 4) with 4 in H1. lia.
  - apply (IH (var_rank (fst w))); [lia|exact H2|exact Hin].
Qed.

Lemma find4_none (vars : list (Z * bytes)) : (forall v, In v vars -> fst v <> 4) -> find (fun v : Z * bytes => fst v =? 4) vars = None.
Proof.
  induction vars as [|w vars IH]; intros H; cbn [find]; [reflexivity|].
  destruct (Z.eqb_spec (fst w) 4) as [E|_]; [exfalso; apply (H w); [left; reflexivity|exact E]|].
  apply IH. intros v Hv. apply H. right. exact Hv.
Qed.

Lemma charset_scan_legal : forall vars lo,
  forallb (fun v => (0 <=? fst v) && (fst v <=? 255)) vars = true ->
  ranks_increasing lo (map fst vars) = true ->
  charset_scan vars None = charset_in vars.
Proof.
  induction vars as [|w vars IH]; intros lo Hb Hr; [reflexivity|].
  cbn [forallb] in Hb. apply andb_true_iff in Hb as [Hw Hb].
  cbn [map ranks_increasing] in Hr. apply andb_true_iff in Hr as [H1 H2]. apply Z.ltb_lt in H1.
  unfold charset_in. cbn [charset_scan find].
  destruct (Z.eqb_spec (fst w) 4) as [E|N4].
  - rewrite E. change (sized_code 4) with true. cbv iota.
    apply charset_scan_no4. apply (ranks_no4 vars (var_rank (fst w))); [rewrite E; change (var_rank 4) with 4; lia|exact H2].
  - destruct (sized_code (fst w)) eqn:Es.
    + apply (IH (var_rank (fst w))); assumption.
    + symmetry. rewrite find4_none; [reflexivity|].
      apply (ranks_no4 vars (var_rank (fst w))); [|exact H2].
      unfold sized_code in Es. unfold var_rank. destruct (Z.eqb_spec (fst w) 6); lia.
Qed.

Lemma legal_order_inv vars :
  legal_order vars = true ->
  forallb var_shape_ok vars = true /\ charset_scan vars None = charset_in vars.
Proof.
  unfold legal_order. intros H. apply andb_true_iff in H as [H H3]. apply andb_true_iff in H as [H1 H2].
  split; [exact H3|]. apply (charset_scan_legal vars (-1)); assumption.
Qed.

(* for status variables in any order *)
Theorem query_roundtrip_scan c h v thread exec err vars db sql crc :
  wf_cfg c = true -> forallb var_shape_ok vars = true -> query_fits vars db = true ->
  (do e <- strip_checksum56 (expect_format c v) (enc_ev c h (enc_query_body thread exec err vars db sql) crc);
   ev_query (expect_format c v) e) =
  Ok {| q_db := db; q_sql := sql; q_charset := charset_scan vars None |}.
Proof.
  intros Hc Hs Hq. apply wf_cfg_inv in Hc as (Hhl & _ & _).
  unfold query_fits in Hq. apply andb_true_iff in Hq as [Hq _]. apply Z.ltb_lt in Hq.
  rewrite strip56_enc_ev. cbn [bind]. apply query_body_ok; [lia|reflexivity|exact Hs|exact Hq].
Qed.

Theorem query_roundtrip c h v thread exec err vars db sql crc :
  wf_cfg c = true -> legal_order vars = true -> query_fits vars db = true ->
  (do e <- strip_checksum56 (expect_format c v) (enc_ev c h (enc_query_body thread exec err vars db sql) crc);
   ev_query (expect_format c v) e) =
  Ok {| q_db := db; q_sql := sql; q_charset := charset_in vars |}.
Proof.
  intros Hc Hl Hq. apply legal_order_inv in Hl as [Hs He].
  rewrite query_roundtrip_scan by assumption. rewrite He. reflexivity.
Qed.

(* ------------------------------------------------------------------ *)
(* 6. table ids                                                        *)

Lemma sizes_from_nth c : forall n t i,
  (i < n)%nat -> nth_error (sizes_from c t n) i = Some (post_header c (t + Z.of_nat i)).
Proof.
  induction n as [|n IH]; intros t i Hi; [lia|].
  destruct i as [|i]; cbn [sizes_from nth_error].
  - rewrite Z.add_0_r. reflexivity.
  - rewrite IH by lia. f_equal. f_equal. lia.
Qed.

Lemma header_size_expect c v t :
  1 <= t <= c_nsizes c -> c_nsizes c <= 255 ->
  header_size (expect_format c v) t = Ok (post_header c t).
Proof.
  intros Ht Hn. unfold header_size, at_. cbn [f_sizes expect_format]. unfold sizes_table, u8.
  rewrite Z.mod_small by lia. rewrite sizes_from_nth by lia.
  f_equal. f_equal. lia.
Qed.

Lemma post_header_tid c t :
  wf_cfg c = true -> is_tid_type c t = true -> (post_header c t =? 6) = c_tid4 c.
Proof.
  intros Hc Ht. apply wf_cfg_inv in Hc as (_ & _ & Hx).
  unfold is_tid_type, rows_type in Ht. unfold post_header.
  destruct (c_tid4 c) eqn:E4; [rewrite (Hx eq_refl) in *|]; [|destruct (c_v2 c)];
    destruct (Z.eqb_spec t 19); try reflexivity;
    destruct (Z.leb_spec 23 t); destruct (Z.leb_spec t 25); cbn [andb orb] in *; try reflexivity; try lia;
    destruct (Z.leb_spec 30 t); destruct (Z.leb_spec t 32); cbn [andb orb] in *; try reflexivity; try lia.
Qed.

(* the header-size table says 6 for table-map events exactly when table ids have 4 bytes *)
Lemma header_size_19 c v :
  wf_cfg c = true ->
  header_size (expect_format c v) 19 = Ok (if c_tid4 c then 6 else 8).
Proof.
  intros Hc. apply wf_cfg_inv in Hc as (_ & Hn & _).
  rewrite header_size_expect by lia. reflexivity.
Qed.

Lemma le_at_skip0 a d n q : length a = q -> le_at (a ++ d) q n = le_at d 0 n.
Proof. intros H. rewrite <- (Nat.add_0_r q) at 1. apply le_at_skip. exact H. Qed.

Lemma table_id_body_ok c h v id rest :
  wf_cfg c = true -> is_tid_type c (h_type h) = true -> tid_fits c id = true ->
  ev_table_id (expect_format c v) (enc_ev_stripped c h (enc_table_id c id ++ rest)) = Ok id.
Proof.
  intros Hc Ht Hid. pose proof (post_header_tid c (h_type h) Hc Ht) as Hp6.
  pose proof Hc as Hc'. apply wf_cfg_inv in Hc' as (Hhl & Hn & _).
  rewrite ev_table_id_lin_eq by (cbn [expect_format f_hlen]; lia).
  unfold ev_table_id_lin, enc_ev_stripped. rewrite hdr_type_raw. cbn [bind].
  rewrite header_size_expect.
  2:{ unfold is_tid_type, rows_type in Ht. destruct (c_v2 c); lia. }
  2:{ lia. }
  cbn [bind]. rewrite Hp6. cbn [f_hlen expect_format].
  rewrite app_assoc.
  unfold tid_fits in Hid. unfold enc_table_id.
  destruct (c_tid4 c).
  - rewrite le_at_skip0 by (apply core_prefix_length; lia).
    rewrite le_at_here by apply le_enc_length. rewrite le_rt4 by lia. reflexivity.
  - rewrite le_at_skip0 by (apply core_prefix_length; lia).
    rewrite le_at_here by apply le_enc_length. rewrite le_rt6 by lia. reflexivity.
Qed.

Theorem table_id_roundtrip c h v id rest crc :
  wf_cfg c = true -> is_tid_type c (h_type h) = true -> tid_fits c id = true ->
  (do e <- strip_checksum56 (expect_format c v) (enc_ev c h (enc_table_id c id ++ rest) crc);
   ev_table_id (expect_format c v) e) = Ok id.
Proof.
  intros Hc Ht Hid. rewrite strip56_enc_ev. cbn [bind]. apply table_id_body_ok; assumption.
Qed.

(* ------------------------------------------------------------------ *)
(* 5. the checksum is transparent                                      *)

Lemma decode_all_core f f' c h t t' b :
  19 <= c_hlen c <= 250 -> f_hlen f = c_hlen c -> f_hlen f' = c_hlen c -> f_sizes f = f_sizes f' ->
  decode_all f (enc_header_len h t ++ repeat 0 (Z.to_nat (c_hlen c - 19)) ++ b) =
  decode_all f' (enc_header_len h t' ++ repeat 0 (Z.to_nat (c_hlen c - 19)) ++ b).
Proof.
  intros H Hf Hf' Hs. unfold decode_all.
  unfold ev_rotate, ev_query, ev_intvar, ev_rand.
  rewrite !(body_core f c h), !(body_core f' c h) by (assumption || lia).
  fold (header_view (enc_header_len h t ++ repeat 0 (Z.to_nat (c_hlen c - 19)) ++ b)).
  fold (header_view (enc_header_len h t' ++ repeat 0 (Z.to_nat (c_hlen c - 19)) ++ b)).
  rewrite !header_view_any.
  f_equal. f_equal.
  rewrite !ev_table_id_lin_eq by lia.
  unfold ev_table_id_lin. rewrite !hdr_type_raw. cbn [bind].
  unfold header_size. rewrite Hs, Hf, Hf'.
  destruct (at_ (f_sizes f') _); cbn [bind]; try reflexivity.
  rewrite !(app_assoc (enc_header_len h _)).
  rewrite !le_at_skip0 by (apply core_prefix_length; lia). reflexivity.
Qed.

Lemma sizes_from_set_crc c b n : forall t, sizes_from (set_crc c b) t n = sizes_from c t n.
Proof. induction n as [|n IH]; intros t; cbn [sizes_from]; [reflexivity|]. rewrite IH. reflexivity. Qed.

(* the two configurations announce the same header length and the same size table *)
Lemma sizes_table_set_crc c b : sizes_table (set_crc c b) = sizes_table c.
Proof. unfold sizes_table. cbn [c_nsizes set_crc]. apply sizes_from_set_crc. Qed.

(* every decoder gives the same result on the stripped event as on the event a master without
   checksums would have written; holds for every body, also those the decoders reject *)
Theorem checksum_transparent c h v body crc crc0 :
  wf_cfg c = true ->
  strip_checksum56 (expect_format c v) (enc_ev c h body crc) = Ok (enc_ev_stripped c h body) /\
  strip_checksum_maria (expect_format c v) (enc_ev c h body crc) = Ok (enc_ev_stripped c h body) /\
  decode_all (expect_format c v) (enc_ev_stripped c h body) =
  decode_all (expect_format (set_crc c false) v) (enc_ev (set_crc c false) h body crc0).
Proof.
  intros Hc. apply wf_cfg_inv in Hc as (Hhl & _ & _).
  split; [apply strip56_enc_ev|]. split; [apply strip_maria_enc_ev|].
  rewrite (enc_ev_nocrc_shape (set_crc c false)) by reflexivity.
  unfold enc_ev_stripped. cbn [c_hlen c_crc set_crc].
  apply decode_all_core; [lia|reflexivity|reflexivity|].
  cbn [f_sizes expect_format]. symmetry. apply sizes_table_set_crc.
Qed.

(* the algorithm byte: off and undefined leave the event alone; CRC32 cuts 4 bytes;
   any other value is an error for MySQL 5.6 and "cut 4 bytes" for MariaDB *)
Theorem strip_alg_identity f ev :
  f_alg f = 0 \/ f_alg f = 255 ->
  strip_checksum56 f ev = Ok ev /\ strip_checksum_maria f ev = Ok ev.
Proof.
  intros H. unfold strip_checksum56, strip_checksum_maria.
  change K_BinlogChecksumAlgOff with 0. change K_BinlogChecksumAlgUndef with 255.
  destruct H as [-> | ->]; split; reflexivity.
Qed.

Theorem strip_alg_crc32 f ev :
  f_alg f = 1 -> strip_checksum56 f ev = cut4 ev /\ strip_checksum_maria f ev = cut4 ev.
Proof.
  intros H. unfold strip_checksum56, strip_checksum_maria. rewrite H. split; reflexivity.
Qed.

Theorem strip_alg_unknown f ev :
  f_alg f <> 0 -> f_alg f <> 1 -> f_alg f <> 255 ->
  strip_checksum56 f ev = Err EChecksumAlg /\ strip_checksum_maria f ev = cut4 ev.
Proof.
  intros H0 H1 H255. unfold strip_checksum56, strip_checksum_maria, cut4.
  change K_BinlogChecksumAlgOff with 0. change K_BinlogChecksumAlgUndef with 255.
  change K_BinlogChecksumAlgCRC32 with 1.
  destruct (Z.eqb_spec (f_alg f) 0); [lia|]. destruct (Z.eqb_spec (f_alg f) 255); [lia|].
  destruct (Z.eqb_spec (f_alg f) 1); [lia|]. split; reflexivity.
Qed.

(* ------------------------------------------------------------------ *)
(* corollaries in the form exposed by Props/C16.v                      *)

Theorem rotate_roundtrip_pos c h v pos name crc :
  wf_cfg c = true -> 0 <= pos < 2 ^ 63 ->
  (do e <- strip_checksum56 (expect_format c v) (enc_ev c h (enc_rotate_body pos name) crc);
   ev_rotate (expect_format c v) e) = Ok (name, pos).
Proof.
  intros Hc Hp. rewrite rotate_roundtrip by (auto; lia). rewrite expect_rotate_pos_small by lia. reflexivity.
Qed.

(* positions the master can write but int64 cannot hold come out negative *)
Theorem rotate_roundtrip_wrap c h v pos name crc :
  wf_cfg c = true -> 2 ^ 63 <= pos < 2 ^ 64 ->
  (do e <- strip_checksum56 (expect_format c v) (enc_ev c h (enc_rotate_body pos name) crc);
   ev_rotate (expect_format c v) e) = Ok (name, pos - 2 ^ 64).
Proof.
  intros Hc Hp. rewrite rotate_roundtrip by (auto; lia). rewrite expect_rotate_pos_big by lia. reflexivity.
Qed.

(* a version text ending in a zero byte reads back as the shorter text *)
Theorem format_trailing_zero h version hlen sizes alg crc :
  len version < 50 -> 19 <= hlen ->
  ev_format (enc_format_gen h (version ++ [0]) hlen sizes alg crc) =
  Ok {| f_version := 4; f_server := denoted_version version; f_hlen := hlen; f_alg := alg; f_sizes := sizes |}.
Proof.
  intros Hv Hh. rewrite format_roundtrip_gen; [|rewrite len_app; change (len [0]) with 1; lia|exact Hh].
  rewrite denoted_trailing_zero. reflexivity.
Qed.
