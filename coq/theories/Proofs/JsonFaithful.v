(* C14, main stage: the recursive printer is faithful on serialised documents
   of any depth and size.  Structure:
     - nested induction principle for jdoc
     - one value entry (inlined / out of line)            entry_step
     - the loop invariant
         data = A ++ val_entries w off cs ++ M ++ out_of_line cs ++ R
         length A = pos,  len (A ++ val_entries w off cs ++ M) = off
       for the array loop, the key table and the member loop
     - containers, then the induction over the document. *)
From GB Require Import Base.Prelude Base.DecText Base.GoFmt Base.BytesLemmas.
From GB Require Import Model.Cell Model.Json Spec.Values Spec.EncJson.
From GB Require Import Proofs.JsonVarlen Proofs.JsonScalars.
From GBGen Require Import Consts.
From Coq Require Import String.
Open Scope Z_scope.

(* ---------- induction over documents ---------- *)
Section JdocInd.
Variable P : jdoc -> Prop.
Hypothesis Hobj : forall l kvs, Forall (fun kv => P (snd kv)) kvs -> P (JObj l kvs).
Hypothesis Harr : forall l vs, Forall P vs -> P (JArr l vs).
Hypothesis Hsc : forall d, is_scalar d -> P d.

Fixpoint jdoc_ind_nested (d : jdoc) : P d :=
  match d as d0 return P d0 with
  | JObj l kvs =>
    Hobj l kvs
      ((fix go (kvs : list (bytes * jdoc)) : Forall (fun kv => P (snd kv)) kvs :=
          match kvs with
          | [] => Forall_nil _
          | kv :: r =>
            Forall_cons kv (match kv as kv0 return P (snd kv0) with (_, v) => jdoc_ind_nested v end) (go r)
          end) kvs)
  | JArr l vs =>
    Harr l vs
      ((fix go (vs : list jdoc) : Forall P vs :=
          match vs with
          | [] => Forall_nil _
          | v :: r => Forall_cons v (jdoc_ind_nested v) (go r)
          end) vs)
  | JNull => Hsc JNull I | JTrue => Hsc JTrue I | JFalse => Hsc JFalse I
  | JInt16 z => Hsc (JInt16 z) I | JUint16 z => Hsc (JUint16 z) I
  | JInt32 z => Hsc (JInt32 z) I | JUint32 z => Hsc (JUint32 z) I
  | JInt64 z => Hsc (JInt64 z) I | JUint64 z => Hsc (JUint64 z) I
  | JDouble b => Hsc (JDouble b) I
  | JStr s => Hsc (JStr s) I
  | JDate y m d => Hsc (JDate y m d) I
  | JTime n h mi s us => Hsc (JTime n h mi s us) I
  | JDateTime y m d h mi s us => Hsc (JDateTime y m d h mi s us) I
  | JDecimal p s n ip fp => Hsc (JDecimal p s n ip fp) I
  end.
End JdocInd.

(* ---------- list text ---------- *)
Fixpoint joined (first : bool) (ts : list bytes) : bytes :=
  match ts with
  | [] => []
  | t :: r => (if first then [] else [44]) ++ t ++ joined false r
  end.

Lemma joined_false_cons t r : joined false (t :: r) = [44] ++ joined true (t :: r).
Proof. reflexivity. Qed.

Lemma joined_sep ts : joined true ts = sep_by [44] ts.
Proof.
  induction ts as [|t r IH]; [reflexivity|].
  destruct r as [|t2 r'].
  - cbn [joined sep_by app]. apply app_nil_r.
  - change (joined true (t :: t2 :: r')) with (t ++ joined false (t2 :: r')).
    rewrite joined_false_cons, IH. reflexivity.
Qed.

Ltac napp := repeat (progress (rewrite <- ?app_assoc; cbn [app])).
Ltac lens := repeat (progress (rewrite ?len_app, ?len_cons, ?len_nil, ?len_le_enc in *)).

Definition child_of (large : bool) (v : jdoc) : child := (tag v, inline_val large v, body v).

Definition W (large : bool) : Z := Z.of_nat (wd large).

Lemma W_cases large : (large = true /\ W large = 4 /\ wd large = 4%nat) \/ (large = false /\ W large = 2 /\ wd large = 2%nat).
Proof. destruct large; [left|right]; repeat split. Qed.

Lemma W_pos large : 2 <= W large <= 4.
Proof. destruct large; cbn; lia. Qed.

Lemma esz_W large : Z.of_nat (esz large) = 1 + W large.
Proof. destruct large; reflexivity. Qed.

Lemma esz_wd large : esz large = S (wd large).
Proof. destruct large; reflexivity. Qed.

(* ---------- lengths of the tables ---------- *)
Lemma len_val_entries w : forall cs off, len (val_entries w off cs) = len cs * (1 + Z.of_nat w).
Proof.
  induction cs as [|[[t i] b] r IH]; intros off; [reflexivity|].
  destruct i as [x|]; cbn [val_entries]; lens; rewrite IH; lia.
Qed.

Lemma len_key_entries w : forall ks off, len (key_entries w off ks) = len ks * (Z.of_nat w + 2).
Proof.
  induction ks as [|k r IH]; intros off; [reflexivity|].
  cbn [key_entries]. lens. rewrite IH. change (Z.of_nat 2) with 2. lia.
Qed.

Lemma len_container large keys cs :
  len (container large keys cs) =
  2 * W large + len keys * (W large + 2) + len cs * (1 + W large) + len (List.concat keys) + len (out_of_line cs).
Proof.
  unfold container. lens. rewrite len_key_entries, len_val_entries. unfold W. lia.
Qed.

(* ---------- reading offsets ---------- *)
Lemma rd_off large A v T pos :
  pos = List.length A -> 0 <= v < 256 ^ W large ->
  read_off (A ++ le_enc (wd large) v ++ T) pos large = Ok (v, (pos + wd large)%nat).
Proof.
  intros -> Hv. unfold read_off, le_at.
  destruct large; cbn [wd] in *;
    (rewrite (slice_app_mid A _ T) by (rewrite le_enc_length; reflexivity));
    cbn [bind]; rewrite le_dec_enc by exact Hv; reflexivity.
Qed.

Lemma slice_fromZ_at data P Q off : data = P ++ Q -> len P = off -> slice_fromZ data off = Ok Q.
Proof. intros -> <-. apply slice_fromZ_mid. Qed.

Lemma sliceZ_at data P X Q off n : data = P ++ X ++ Q -> len P = off -> len X = n -> sliceZ data off n = Ok X.
Proof. intros -> <- <-. apply sliceZ_mid. Qed.

(* ---------- the entry switch ---------- *)
Section Faithful.
Variable efmt : Z -> bytes.
Hypothesis decimal_ok : decimal_cell_spec.

Notation render := (render efmt).
Notation render_top := (render_top efmt).
Notation render_gen := (render_gen efmt).

Lemma ed_literal rec d p large :
  entry_dispatch rec d p large 4 = (do b <- at_ d p; print_literal b false).
Proof. reflexivity. Qed.
Lemma ed_int16 rec d p large :
  entry_dispatch rec d p large 5 = (do s <- slice d p 2; Ok (print_int16 s false)).
Proof. reflexivity. Qed.
Lemma ed_uint16 rec d p large :
  entry_dispatch rec d p large 6 = (do s <- slice d p 2; Ok (print_uint16 s false)).
Proof. reflexivity. Qed.
Lemma ed_int32 rec d p :
  entry_dispatch rec d p true 7 = (do s <- slice d p 4; Ok (print_int32 s false)).
Proof. reflexivity. Qed.
Lemma ed_uint32 rec d p :
  entry_dispatch rec d p true 8 = (do s <- slice d p 4; Ok (print_uint32 s false)).
Proof. reflexivity. Qed.

Lemma ed_default rec d p large typ :
  typ <> 4 -> typ <> 5 -> typ <> 6 -> (typ = 7 -> large = false) -> (typ = 8 -> large = false) ->
  entry_dispatch rec d p large typ =
  (do (offset, _) <- read_off d p large; do sub <- slice_fromZ d offset; rec typ sub).
Proof.
  intros H4 H5 H6 H7 H8. unfold entry_dispatch.
  change K_jsonTypeLiteral with 4. change K_jsonTypeInt16 with 5. change K_jsonTypeUint16 with 6.
  change K_jsonTypeInt32 with 7. change K_jsonTypeUint32 with 8.
  destruct (Z.eqb_spec typ 4); [contradiction|].
  destruct (Z.eqb_spec typ 5); [contradiction|].
  destruct (Z.eqb_spec typ 6); [contradiction|].
  destruct (Z.eqb_spec typ 7) as [E7|_]; destruct (Z.eqb_spec typ 8) as [E8|_];
    try (rewrite (H7 E7)); try (rewrite (H8 E8)); cbn [andb]; try reflexivity;
    destruct large; reflexivity.
Qed.

Lemma at_tag A t X : at_ (A ++ t :: X) (List.length A) = Ok t.
Proof. apply at_app_mid. Qed.

Lemma at_after_tag A t b X : at_ (A ++ t :: b :: X) (S (List.length A)) = Ok b.
Proof.
  replace (A ++ t :: b :: X) with ((A ++ [t]) ++ b :: X) by (rewrite <- app_assoc; reflexivity).
  replace (S (List.length A)) with (List.length (A ++ [t])) by (rewrite app_length; cbn [List.length]; lia).
  apply at_app_mid.
Qed.

Lemma slice_after_tag A t X T n :
  n = List.length X -> slice (A ++ t :: X ++ T) (S (List.length A)) n = Ok X.
Proof.
  intros ->.
  replace (A ++ t :: X ++ T) with ((A ++ [t]) ++ X ++ T) by (rewrite <- app_assoc; reflexivity).
  replace (S (List.length A)) with (List.length (A ++ [t])) by (rewrite app_length; cbn [List.length]; lia).
  apply slice_mid.
Qed.

Lemma le_enc_4_low2 v : exists X2, le_enc 4 v = le_enc 2 v ++ X2.
Proof. eexists. cbn [le_enc app]. reflexivity. Qed.

Lemma le_dec_low2 v : le_dec (le_enc 2 v) = v mod 2 ^ 16.
Proof. rewrite le_dec_enc_mod. reflexivity. Qed.

(* first two bytes of an inlined number *)
Lemma inline_low2 large x A T t :
  exists X2,
    A ++ t :: le_enc (wd large) (x mod 256 ^ W large) ++ T
    = A ++ t :: le_enc 2 (x mod 256 ^ W large) ++ X2 ++ T.
Proof.
  destruct large; cbn [wd].
  - destruct (le_enc_4_low2 (x mod 256 ^ W true)) as [X2 E]. exists X2. rewrite E, <- app_assoc. reflexivity.
  - exists []. reflexivity.
Qed.

Lemma mod_W_16 large x : (x mod 256 ^ W large) mod 2 ^ 16 = x mod 2 ^ 16.
Proof.
  destruct large.
  - change (256 ^ W true) with (2 ^ 32). apply mod_mod_16_32.
  - change (256 ^ W false) with (2 ^ 16). apply Z.mod_mod. lia.
Qed.

(* an inlined child *)
Lemma entry_inline rec large v x A T :
  wf_doc v -> inline_val large v = Some x ->
  print_entry rec (A ++ tag v :: le_enc (wd large) (x mod 256 ^ W large) ++ T) (List.length A) large
  = Ok (render v).
Proof.
  intros Hwf Hin. unfold wf_doc in Hwf. unfold print_entry. rewrite at_tag. cbn [bind].
  destruct v; cbn [inline_val] in Hin; try discriminate; cbn [tag wf_docb] in *.
  - (* null *) inversion Hin; subst x. rewrite ed_literal.
    destruct large; cbn [wd le_enc app]; rewrite at_after_tag; reflexivity.
  - inversion Hin; subst x. rewrite ed_literal.
    destruct large; cbn [wd le_enc app]; rewrite at_after_tag; reflexivity.
  - inversion Hin; subst x. rewrite ed_literal.
    destruct large; cbn [wd le_enc app]; rewrite at_after_tag; reflexivity.
  - (* int16 *) inversion Hin; subst x. boolprops. rewrite ed_int16.
    destruct (inline_low2 large z A T 5) as [X2 E]. rewrite E.
    rewrite slice_after_tag by (rewrite le_enc_length; reflexivity). cbn [bind].
    unfold print_int16. rewrite le_dec_low2, mod_W_16, i16_ok by lia. reflexivity.
  - (* uint16 *) inversion Hin; subst x. boolprops. rewrite ed_uint16.
    destruct (inline_low2 large z A T 6) as [X2 E]. rewrite E.
    rewrite slice_after_tag by (rewrite le_enc_length; reflexivity). cbn [bind].
    unfold print_uint16. rewrite le_dec_low2, mod_W_16. unfold u16. change 65536 with (2 ^ 16).
    rewrite Z.mod_mod by lia. rewrite Z.mod_small by lia. reflexivity.
  - (* int32, large *) destruct large; [|discriminate]. inversion Hin; subst x. boolprops.
    rewrite ed_int32. cbn [wd]. rewrite slice_after_tag by (rewrite le_enc_length; reflexivity). cbn [bind].
    unfold print_int32. rewrite (int_readback 4 z) by reflexivity.
    change (256 ^ Z.of_nat 4) with (2 ^ 32). rewrite i32_ok by lia. reflexivity.
  - (* uint32, large *) destruct large; [|discriminate]. inversion Hin; subst x. boolprops.
    rewrite ed_uint32. cbn [wd]. rewrite slice_after_tag by (rewrite le_enc_length; reflexivity). cbn [bind].
    unfold print_uint32. rewrite (int_readback 4 z) by reflexivity.
    change (256 ^ Z.of_nat 4) with (2 ^ 32). unfold u32. change 4294967296 with (2 ^ 32).
    rewrite Z.mod_mod by lia. rewrite Z.mod_small by lia. reflexivity.
Qed.

(* a child stored out of line *)
Lemma entry_ool rec large v A T off sub r :
  inline_val large v = None -> 0 <= off < 256 ^ W large ->
  slice_fromZ (A ++ tag v :: le_enc (wd large) off ++ T) off = Ok sub ->
  rec (tag v) sub = Ok r ->
  print_entry rec (A ++ tag v :: le_enc (wd large) off ++ T) (List.length A) large = Ok r.
Proof.
  intros Hin Hoff Hsub Hrec. unfold print_entry. rewrite at_tag. cbn [bind].
  rewrite ed_default.
  - replace (A ++ tag v :: le_enc (wd large) off ++ T) with ((A ++ [tag v]) ++ le_enc (wd large) off ++ T) in *
      by (rewrite <- app_assoc; reflexivity).
    rewrite (rd_off large (A ++ [tag v]) off T) by (try exact Hoff; rewrite app_length; cbn [List.length]; lia).
    cbn [bind]. rewrite Hsub. cbn [bind]. exact Hrec.
  - destruct v; destruct large; cbn in Hin |- *; try discriminate; try lia; destruct large0; lia.
  - destruct v; destruct large; cbn in Hin |- *; try discriminate; try lia; destruct large0; lia.
  - destruct v; destruct large; cbn in Hin |- *; try discriminate; try lia; destruct large0; lia.
  - destruct v; destruct large; cbn in Hin |- *; try discriminate; try (intros; lia); try reflexivity; destruct large0; intros; lia.
  - destruct v; destruct large; cbn in Hin |- *; try discriminate; try (intros; lia); try reflexivity; destruct large0; intros; lia.
Qed.

(* what the loops know about each child *)
Definition child_ok (rec : Z -> bytes -> res bytes) (v : jdoc) : Prop :=
  wf_doc v /\ forall rest, rec (tag v) (body v ++ rest) = Ok (render v).

(* the loop invariant *)
Definition inv (large : bool) (data A : bytes) (off : Z) (cs : list child) (M R : bytes) : Prop :=
  data = A ++ val_entries (wd large) off cs ++ M ++ out_of_line cs ++ R /\
  len (A ++ val_entries (wd large) off cs ++ M) = off /\
  off + len (out_of_line cs) < 256 ^ W large.

(* one iteration: the entry prints as rendered and the invariant moves on *)
Lemma entry_step rec large v cs A off M R data :
  child_ok rec v ->
  inv large data A off (child_of large v :: cs) M R ->
  print_entry rec data (List.length A) large = Ok (render v) /\
  exists A' off' M',
    inv large data A' off' cs M' R /\ List.length A' = (List.length A + esz large)%nat.
Proof.
  intros [Hwf Hrec] (Hd & Hlen & Hfit).
  unfold child_of in *. destruct (inline_val large v) as [x|] eqn:Hin.
  - (* inlined *)
    cbn [val_entries out_of_line] in *.
    split.
    + rewrite Hd. cbn [app]. rewrite <- app_assoc. fold (W large). apply entry_inline; assumption.
    + exists (A ++ tag v :: le_enc (wd large) (x mod 256 ^ Z.of_nat (wd large))), off, M.
      split; [split; [|split]|].
      * rewrite Hd. napp. reflexivity.
      * lens. rewrite !len_val_entries in *. lia.
      * exact Hfit.
      * rewrite app_length. cbn [List.length]. rewrite le_enc_length, esz_wd. lia.
  - (* out of line *)
    cbn [val_entries out_of_line] in *.
    assert (Hoff : 0 <= off < 256 ^ W large).
    { split; [rewrite <- Hlen; apply len_nonneg|].
      pose proof (len_nonneg (body v ++ out_of_line cs)). lia. }
    split.
    + rewrite Hd. cbn [app]. rewrite <- app_assoc.
      apply (entry_ool rec large v A _ off (body v ++ out_of_line cs ++ R)); try assumption.
      * apply (slice_fromZ_at _ (A ++ (tag v :: le_enc (wd large) off ++
                                           val_entries (wd large) (off + len (body v)) cs) ++ M));
          [napp; reflexivity | exact Hlen].
      * apply Hrec.
    + exists (A ++ tag v :: le_enc (wd large) off), (off + len (body v)), (M ++ body v).
      split; [split; [|split]|].
      * rewrite Hd. napp. reflexivity.
      * lens. rewrite !len_val_entries in *. lia.
      * lens. lia.
      * rewrite app_length. cbn [List.length]. rewrite le_enc_length, esz_wd. lia.
Qed.

(* ---------- the array loop ---------- *)
Lemma entries_ok rec large : forall vs data A off M R fuel pos first,
  Forall (child_ok rec) vs ->
  inv large data A off (map (child_of large) vs) M R ->
  pos = List.length A -> (List.length vs <= fuel)%nat ->
  print_entries rec data large fuel (len vs) pos first = Ok (joined first (map render vs)).
Proof.
  induction vs as [|v vs IH]; intros data A off M R fuel pos first Hall Hinv Hpos Hfuel.
  - destruct fuel; reflexivity.
  - destruct fuel as [|f]; [cbn [List.length] in Hfuel; lia|].
    inversion Hall as [|? ? Hv Hvs]; subst.
    cbn [map] in Hinv.
    destruct (entry_step rec large v _ A off M R data Hv Hinv) as (Hent & A' & off' & M' & Hinv' & HlenA').
    cbn [print_entries]. rewrite len_cons.
    destruct (Z.leb_spec (1 + len vs) 0) as [Hc|_]; [pose proof (len_nonneg vs); lia|].
    rewrite Hent. cbn [bind].
    replace (1 + len vs - 1) with (len vs) by lia.
    rewrite (IH data A' off' M' R f _ false Hvs Hinv') by (try (symmetry; exact HlenA'); cbn [List.length] in Hfuel; lia).
    cbn [bind map joined]. reflexivity.
Qed.

(* ---------- the member loop of objects ---------- *)
Definition member_text (kv : bytes * jdoc) : bytes := 39 :: fst kv ++ [39; 44] ++ render (snd kv).

Lemma members_ok rec large : forall kvs data A off M R pos first,
  Forall (child_ok rec) (map snd kvs) ->
  inv large data A off (map (child_of large) (map snd kvs)) M R ->
  pos = List.length A ->
  print_members rec data large (map fst kvs) pos first = Ok (joined first (map member_text kvs)).
Proof.
  induction kvs as [|[k v] kvs IH]; intros data A off M R pos first Hall Hinv Hpos.
  - reflexivity.
  - cbn [map fst snd] in *. inversion Hall as [|? ? Hv Hvs]; subst.
    destruct (entry_step rec large v _ A off M R data Hv Hinv) as (Hent & A' & off' & M' & Hinv' & HlenA').
    cbn [print_members]. rewrite Hent. cbn [bind].
    rewrite (IH data A' off' M' R _ false Hvs Hinv') by (symmetry; exact HlenA').
    cbn [bind map joined]. unfold member_text. cbn [fst snd]. napp. reflexivity.
Qed.

(* ---------- the key table ---------- *)
Lemma keys_ok large : forall ks data A off M R fuel pos,
  data = A ++ key_entries (wd large) off ks ++ M ++ List.concat ks ++ R ->
  len (A ++ key_entries (wd large) off ks ++ M) = off ->
  off + len (List.concat ks) < 256 ^ W large ->
  Forall (fun k => len k < 2 ^ 16) ks ->
  pos = List.length A -> (List.length ks <= fuel)%nat ->
  read_keys data large fuel (len ks) pos = Ok (ks, (pos + List.length ks * (wd large + 2))%nat).
Proof.
  induction ks as [|k ks IH]; intros data A off M R fuel pos Hd Hlen Hfit Hk Hpos Hfuel.
  - destruct fuel; cbn [read_keys len List.length Z.of_nat Z.leb Z.compare Nat.mul]; rewrite Nat.add_0_r; reflexivity.
  - destruct fuel as [|f]; [cbn [List.length] in Hfuel; lia|].
    inversion Hk as [|? ? Hk1 Hks]; subst.
    cbn [key_entries List.concat] in *.
    assert (Hoff : 0 <= off < 256 ^ W large).
    { split; [rewrite <- Hlen; apply len_nonneg|]. pose proof (len_nonneg (k ++ List.concat ks)). lia. }
    cbn [read_keys]. rewrite len_cons.
    destruct (Z.leb_spec (1 + len ks) 0) as [Hc|_]; [pose proof (len_nonneg ks); lia|].
    set (KE := key_entries (wd large) (off + len k) ks) in *.
    set (data := A ++ (le_enc (wd large) off ++ le_enc 2 (len k) ++ KE) ++ M ++ (k ++ List.concat ks) ++ R).
    assert (E1 : data = A ++ le_enc (wd large) off ++ (le_enc 2 (len k) ++ KE ++ M ++ k ++ List.concat ks ++ R))
      by (unfold data; napp; reflexivity).
    assert (E2 : data = (A ++ le_enc (wd large) off) ++ le_enc (wd false) (len k) ++
                        (KE ++ M ++ k ++ List.concat ks ++ R))
      by (unfold data; cbn [wd]; napp; reflexivity).
    set (A2 := A ++ le_enc (wd large) off ++ le_enc 2 (len k)).
    assert (E3 : data = (A2 ++ KE ++ M) ++ k ++ (List.concat ks ++ R))
      by (unfold data, A2; napp; reflexivity).
    assert (Hl2 : len (A2 ++ KE ++ M) = off).
    { unfold A2. lens. lia. }
    rewrite E1 at 1. rewrite (rd_off large A off _) by (try reflexivity; exact Hoff). cbn [bind].
    rewrite E2 at 1.
    rewrite (rd_off false (A ++ le_enc (wd large) off) (len k) _)
      by (try (rewrite app_length, le_enc_length; reflexivity);
          change (256 ^ W false) with (2 ^ 16); pose proof (len_nonneg k); lia).
    cbn [bind].
    rewrite (sliceZ_at data (A2 ++ KE ++ M) k (List.concat ks ++ R) off (len k) E3 Hl2 eq_refl).
    cbn [bind].
    replace (1 + len ks - 1) with (len ks) by lia.
    rewrite (IH data A2 (off + len k) (M ++ k) R f (List.length A + wd large + wd false)%nat).
    + cbn [bind]. f_equal. f_equal. cbn [wd List.length]. lia.
    + unfold data, A2, KE. napp. reflexivity.
    + unfold A2, KE in *. lens. lia.
    + lens. lia.
    + exact Hks.
    + unfold A2. rewrite !app_length, !le_enc_length. cbn [wd]. lia.
    + cbn [List.length] in Hfuel. lia.
Qed.

(* ---------- containers ---------- *)
Lemma body_arr large vs : body (JArr large vs) = container large [] (map (child_of large) vs).
Proof. reflexivity. Qed.

Lemma body_obj large kvs :
  body (JObj large kvs) = container large (map fst kvs) (map (child_of large) (map snd kvs)).
Proof. cbn [body]. rewrite map_map. reflexivity. Qed.

Lemma count_fits large keys cs :
  len (container large keys cs) < 256 ^ W large -> 0 <= len cs < 256 ^ W large.
Proof.
  intros H. rewrite len_container in H.
  pose proof (len_nonneg cs). pose proof (len_nonneg keys). pose proof (len_nonneg (List.concat keys)).
  pose proof (len_nonneg (out_of_line cs)). pose proof (W_pos large). split; [lia|]. nia.
Qed.

Lemma array_ok rec large vs rest :
  Forall (child_ok rec) vs ->
  len (body (JArr large vs)) < 256 ^ W large ->
  print_array rec (body (JArr large vs) ++ rest) large = Ok (render (JArr large vs)).
Proof.
  intros Hall Hfit. rewrite body_arr in *.
  set (keys := @nil bytes) in *.
  set (cs := map (child_of large) vs) in *.
  assert (Hn2 : len vs = len cs) by (unfold cs, len; rewrite !map_length; reflexivity).
  pose proof (count_fits large keys cs Hfit) as Hcnt.
  pose proof (len_container large keys cs) as Hlc.
  pose proof (len_nonneg (out_of_line cs)) as Hoo. pose proof (W_pos large) as HW.
  pose proof (len_nonneg rest) as Hrest.
  set (koff := 2 * W large + len keys * (W large + 2) + len cs * (1 + W large)).
  set (voff := koff + len (List.concat keys)).
  set (total := voff + len (out_of_line cs)).
  assert (Hk0 : len keys = 0) by reflexivity.
  assert (Hc0 : len (List.concat keys) = 0) by reflexivity.
  assert (Hdata : container large keys cs ++ rest =
                  (le_enc (wd large) (len cs) ++ le_enc (wd large) total) ++
                  val_entries (wd large) voff cs ++ [] ++ out_of_line cs ++ rest).
  { unfold container, total, voff, koff, W, keys. cbn [key_entries List.concat]. napp. reflexivity. }
  set (data := container large keys cs ++ rest) in *.
  assert (Hlen_data : len data = total + len rest) by (unfold data, total, voff, koff; lens; lia).
  assert (Htot : 0 <= total < 256 ^ W large) by (unfold total, voff, koff; nia).
  unfold print_array.
  replace data with ([] ++ le_enc (wd large) (len cs) ++ (le_enc (wd large) total ++
                     val_entries (wd large) voff cs ++ [] ++ out_of_line cs ++ rest)) at 1
    by (rewrite Hdata; napp; reflexivity).
  rewrite (rd_off large [] (len cs) _ 0) by (try reflexivity; exact Hcnt). cbn [bind Nat.add app].
  replace data with (le_enc (wd large) (len cs) ++ le_enc (wd large) total ++
                     (val_entries (wd large) voff cs ++ [] ++ out_of_line cs ++ rest)) at 1
    by (rewrite Hdata; napp; reflexivity).
  rewrite (rd_off large (le_enc (wd large) (len cs)) total _ (wd large))
    by (try exact Htot; rewrite le_enc_length; reflexivity).
  cbn [bind].
  destruct (Z.gtb_spec total (len data)) as [Hgt|_]; [lia|].
  set (A0 := le_enc (wd large) (len cs) ++ le_enc (wd large) total).
  assert (HlA0 : List.length A0 = (wd large + wd large)%nat)
    by (unfold A0; rewrite app_length, !le_enc_length; reflexivity).
  assert (Hinv : inv large data A0 voff cs [] rest).
  { split; [|split].
    - rewrite Hdata. reflexivity.
    - unfold A0. lens. rewrite len_val_entries. unfold voff, koff, W in *. lia.
    - fold total. lia. }
  rewrite <- Hn2.
  rewrite (entries_ok rec large vs data A0 voff [] rest _ _ true Hall Hinv).
  - cbn [bind]. rewrite joined_sep. reflexivity.
  - symmetry. exact HlA0.
  - assert (len vs <= len data).
    { rewrite Hlen_data. unfold total, voff, koff. pose proof (len_nonneg vs). nia. }
    unfold len in *. lia.
Qed.

Lemma object_ok rec large kvs rest :
  Forall (child_ok rec) (map snd kvs) ->
  Forall (fun k => len k < 2 ^ 16) (map fst kvs) ->
  len (body (JObj large kvs)) < 256 ^ W large ->
  print_object rec (body (JObj large kvs) ++ rest) large = Ok (render (JObj large kvs)).
Proof.
  intros Hall Hkeys Hfit. rewrite body_obj in *. unfold bytes in *.
  set (keys := map fst kvs) in *.
  set (cs := map (child_of large) (map snd kvs)) in *.
  assert (Hn : len keys = len cs) by (unfold keys, cs, len; rewrite !map_length; reflexivity).
  assert (Hn2 : len kvs = len cs) by (unfold cs, len; rewrite !map_length; reflexivity).
  pose proof (count_fits large keys cs Hfit) as Hcnt.
  pose proof (len_container large keys cs) as Hlc.
  pose proof (len_nonneg (out_of_line cs)) as Hoo. pose proof (W_pos large) as HW.
  pose proof (len_nonneg rest) as Hrest. pose proof (len_nonneg (List.concat keys)) as Hkc.
  unfold bytes in *.
  set (koff := 2 * W large + len keys * (W large + 2) + len cs * (1 + W large)).
  set (voff := koff + len (List.concat keys)).
  set (total := voff + len (out_of_line cs)).
  assert (Hdata : container large keys cs ++ rest =
                  (le_enc (wd large) (len cs) ++ le_enc (wd large) total) ++
                  key_entries (wd large) koff keys ++
                  val_entries (wd large) voff cs ++ List.concat keys ++ out_of_line cs ++ rest).
  { unfold container, total, voff, koff, W. napp. reflexivity. }
  set (data := container large keys cs ++ rest) in *.
  assert (Hlen_data : len data = total + len rest)
    by (unfold data, total, voff, koff; rewrite len_app, Hlc; ring).
  assert (Htot : 0 <= total < 256 ^ W large).
  { assert (Hfit' : len (container large keys cs) < 256 ^ W large) by exact Hfit.
    unfold total, voff, koff. rewrite Hlc in Hfit'. pose proof (len_nonneg keys). pose proof (len_nonneg cs).
    split; [|exact Hfit']. nia. }
  unfold print_object.
  replace data with ([] ++ le_enc (wd large) (len cs) ++ (le_enc (wd large) total ++
                     key_entries (wd large) koff keys ++
                     val_entries (wd large) voff cs ++ List.concat keys ++ out_of_line cs ++ rest)) at 1
    by (rewrite Hdata; napp; reflexivity).
  rewrite (rd_off large [] (len cs) _ 0) by (try reflexivity; exact Hcnt). cbn [bind Nat.add app].
  replace data with (le_enc (wd large) (len cs) ++ le_enc (wd large) total ++
                     (key_entries (wd large) koff keys ++
                      val_entries (wd large) voff cs ++ List.concat keys ++ out_of_line cs ++ rest)) at 1
    by (rewrite Hdata; napp; reflexivity).
  rewrite (rd_off large (le_enc (wd large) (len cs)) total _ (wd large))
    by (try exact Htot; rewrite le_enc_length; reflexivity).
  cbn [bind].
  destruct (Z.gtb_spec total (len data)) as [Hgt|_]; [lia|].
  (* key table *)
  set (A0 := le_enc (wd large) (len cs) ++ le_enc (wd large) total).
  assert (HlA0 : List.length A0 = (wd large + wd large)%nat)
    by (unfold A0; rewrite app_length, !le_enc_length; reflexivity).
  rewrite <- Hn.
  rewrite (keys_ok large keys data A0 koff (val_entries (wd large) voff cs) (out_of_line cs ++ rest)
                   _ (wd large + wd large)%nat).
  - cbn [bind].
    (* members *)
    set (A1 := A0 ++ key_entries (wd large) koff keys).
    assert (Hinv : inv large data A1 voff cs (List.concat keys) rest).
    { split; [|split].
      - rewrite Hdata. unfold A1, A0. napp. reflexivity.
      - unfold A1, A0. lens. rewrite len_key_entries, len_val_entries. unfold voff, koff, W, bytes in *. lia.
      - fold total. lia. }
    unfold keys at 1.
    rewrite (members_ok rec large kvs data A1 voff (List.concat keys) rest _ true Hall Hinv).
    + cbn [bind]. rewrite joined_sep. reflexivity.
    + unfold A1. rewrite app_length, HlA0.
      assert (List.length (key_entries (wd large) koff keys) = (List.length keys * (wd large + 2))%nat).
      { pose proof (len_key_entries (wd large) keys koff) as E. unfold len, bytes in *. lia. }
      unfold bytes in *. lia.
  - rewrite Hdata. unfold A0. napp. reflexivity.
  - unfold A0. lens. rewrite len_key_entries, len_val_entries. unfold koff, W, bytes in *. lia.
  - fold voff. unfold total in Htot. lia.
  - exact Hkeys.
  - symmetry. exact HlA0.
  - assert (len keys <= len data).
    { rewrite Hlen_data. unfold total, voff, koff. pose proof (len_nonneg keys). nia. }
    clear - H. unfold len, bytes in *. lia.
Qed.

(* ---------- depth ---------- *)
Lemma depth_in_arr v vs : In v vs -> (depth v <= fold_right (fun v a => Nat.max (depth v) a) O vs)%nat.
Proof.
  induction vs as [|x r IH]; intros Hin; [contradiction|].
  cbn [fold_right]. destruct Hin as [->|Hin]; [lia|]. specialize (IH Hin). lia.
Qed.

Lemma depth_in_obj (kv : bytes * jdoc) (kvs : list (bytes * jdoc)) :
  In kv kvs -> (depth (snd kv) <= fold_right (fun kv a => Nat.max (depth (snd kv)) a) O kvs)%nat.
Proof.
  induction kvs as [|x r IH]; intros Hin; [contradiction|].
  cbn [fold_right]. destruct Hin as [->|Hin]; [lia|]. specialize (IH Hin). lia.
Qed.

Lemma vd_obj rec d top (large : bool) :
  value_dispatch efmt rec (if large then 1 else 0) d top = print_object rec d large.
Proof. destruct large; reflexivity. Qed.
Lemma vd_arr rec d top (large : bool) :
  value_dispatch efmt rec (if large then 3 else 2) d top = print_array rec d large.
Proof. destruct large; reflexivity. Qed.

(* ---------- the induction ---------- *)
Theorem value_ok : forall d,
  wf_doc d -> forall fuel rest top, (depth d < fuel)%nat ->
  print_value efmt fuel (tag d) (body d ++ rest) top = Ok (render_gen top d).
Proof.
  induction d as [large kvs IH | large vs IH | d Hsc] using jdoc_ind_nested;
    intros Hwf fuel rest top Hfuel.
  - (* object *)
    destruct fuel as [|f]; [lia|]. cbn [print_value tag]. rewrite vd_obj.
    unfold wf_doc in Hwf. cbn [wf_docb] in Hwf. apply andb_true_iff in Hwf as [Hkvs Hfit].
    apply Z.ltb_lt in Hfit. rewrite forallb_forall in Hkvs.
    rewrite object_ok.
    + unfold render_gen. destruct top; reflexivity.
    + apply Forall_forall. intros v Hin. apply in_map_iff in Hin as (kv & <- & Hin).
      specialize (Hkvs kv Hin). apply andb_true_iff in Hkvs as [Hk Hv].
      rewrite Forall_forall in IH. split; [exact Hv|].
      intros rest'. apply (IH kv Hin Hv).
      pose proof (depth_in_obj kv kvs Hin). cbn [depth] in Hfuel. lia.
    + apply Forall_forall. intros k Hin. apply in_map_iff in Hin as (kv & <- & Hin).
      specialize (Hkvs kv Hin). apply andb_true_iff in Hkvs as [Hk Hv].
      apply andb_true_iff in Hk as [_ Hk]. apply Z.ltb_lt in Hk. exact Hk.
    + exact Hfit.
  - (* array *)
    destruct fuel as [|f]; [lia|]. cbn [print_value tag]. rewrite vd_arr.
    unfold wf_doc in Hwf. cbn [wf_docb] in Hwf. apply andb_true_iff in Hwf as [Hvs Hfit].
    apply Z.ltb_lt in Hfit. rewrite forallb_forall in Hvs.
    rewrite array_ok.
    + unfold render_gen. destruct top; reflexivity.
    + apply Forall_forall. intros v Hin. rewrite Forall_forall in IH.
      split; [exact (Hvs v Hin)|]. intros rest'. apply (IH v Hin (Hvs v Hin)).
      pose proof (depth_in_arr v vs Hin). cbn [depth] in Hfuel. lia.
    + exact Hfit.
  - (* scalars *)
    destruct fuel as [|f]; [lia|]. cbn [print_value]. apply scalar_ok; assumption.
Qed.

(* ---------- fuel ---------- *)
Lemma inlined_scalar large v x : inline_val large v = Some x -> depth v = O.
Proof. destruct v; cbn; try discriminate; reflexivity. Qed.

Lemma ool_length large : forall vs v,
  In v vs -> inline_val large v = None ->
  (List.length (body v) <= List.length (out_of_line (map (child_of large) vs)))%nat.
Proof.
  induction vs as [|x r IH]; intros v Hin Hnone; [contradiction|].
  cbn [map]. unfold child_of at 1. destruct Hin as [->|Hin].
  - rewrite Hnone. cbn [out_of_line]. rewrite app_length. lia.
  - specialize (IH v Hin Hnone). destruct (inline_val large x); cbn [out_of_line]; [|rewrite app_length]; lia.
Qed.

Lemma container_length large keys cs :
  (4 + List.length (out_of_line cs) <= List.length (container large keys cs))%nat.
Proof.
  unfold container. rewrite !app_length, !le_enc_length. destruct large; cbn [wd]; lia.
Qed.

Theorem depth_le_length : forall d, (depth d <= List.length (body d))%nat.
Proof.
  induction d as [large kvs IH | large vs IH | d Hsc] using jdoc_ind_nested.
  - rewrite body_obj. cbn [depth].
    pose proof (container_length large (map fst kvs) (map (child_of large) (map snd kvs))) as Hc.
    assert (Hmax : (fold_right (fun kv a => Nat.max (depth (snd kv)) a) O kvs
                    <= List.length (out_of_line (map (child_of large) (map snd kvs))))%nat).
    { assert (G : forall l, (forall kv, In kv l -> In kv kvs) ->
                   (fold_right (fun kv a => Nat.max (depth (snd kv)) a) O l
                    <= List.length (out_of_line (map (child_of large) (map snd kvs))))%nat).
      { induction l as [|kv l IHl]; intros Hsub; cbn [fold_right]; [lia|].
        assert (Hin : In kv kvs) by (apply Hsub; left; reflexivity).
        specialize (IHl (fun kv0 H0 => Hsub kv0 (or_intror H0))).
        rewrite Forall_forall in IH. specialize (IH kv Hin).
        destruct (inline_val large (snd kv)) as [x|] eqn:E.
        - rewrite (inlined_scalar large _ x E). lia.
        - pose proof (ool_length large (map snd kvs) (snd kv) (in_map snd kvs kv Hin) E). lia. }
      apply G. auto. }
    lia.
  - rewrite body_arr. cbn [depth].
    pose proof (container_length large [] (map (child_of large) vs)) as Hc.
    assert (Hmax : (fold_right (fun v a => Nat.max (depth v) a) O vs
                    <= List.length (out_of_line (map (child_of large) vs)))%nat).
    { assert (G : forall l, (forall v, In v l -> In v vs) ->
                   (fold_right (fun v a => Nat.max (depth v) a) O l
                    <= List.length (out_of_line (map (child_of large) vs)))%nat).
      { induction l as [|v l IHl]; intros Hsub; cbn [fold_right]; [lia|].
        assert (Hin : In v vs) by (apply Hsub; left; reflexivity).
        specialize (IHl (fun v0 H0 => Hsub v0 (or_intror H0))).
        rewrite Forall_forall in IH. specialize (IH v Hin).
        destruct (inline_val large v) as [x|] eqn:E.
        - rewrite (inlined_scalar large _ x E). lia.
        - pose proof (ool_length large vs v Hin E). lia. }
      apply G. auto. }
    lia.
  - destruct d; cbn [is_scalar] in Hsc; try contradiction; cbn [depth]; lia.
Qed.

(* ---------- the property ---------- *)
Theorem json_faithful_fuel d rest fuel :
  wf_doc d -> (depth d < fuel)%nat -> print_json_fuel efmt fuel (ser d ++ rest) = Ok (render_top d).
Proof.
  intros Hwf Hf. unfold ser. cbn [app print_json_fuel].
  apply (value_ok d Hwf fuel rest true Hf).
Qed.

Theorem json_faithful d rest :
  wf_doc d -> print_json efmt (ser d ++ rest) = Ok (render_top d).
Proof.
  intros Hwf. unfold print_json. apply json_faithful_fuel; [exact Hwf|].
  pose proof (depth_le_length d). unfold ser. cbn [app List.length]. rewrite app_length. lia.
Qed.

End Faithful.
