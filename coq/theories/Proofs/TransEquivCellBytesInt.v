(* Per-case equivalences for gen/TransCellBytes.v, family Int: see TransEquivCellBytesDefs.v (case_ok) and
   TransEquivCellBytes.v (CellBytes_equiv). *)
From Coq Require Import ZifyBool.
From GB Require Import Base.Prelude Base.GoSem Base.DecText Base.GoFmt Base.BytesLemmas Proofs.GoSemLemmas Proofs.TransTactics.
From GB Require Import Model.Cell Proofs.TransEquivCellBytesDefs.
From GBGen Require Import Consts TransCellBytes.
Open Scope Z_scope.

Section Cases.
Variable ffmt : Z -> Z -> bytes.
Variable tz : Z -> Z.
Variable jsonp : bytes -> res bytes.

Lemma CellBytes_TypeTiny_ok : case_ok ffmt tz jsonp CellBytes_TypeTiny_g [1].
Proof.
  (* TODO *)
Admitted.

Lemma CellBytes_TypeYear_ok : case_ok ffmt tz jsonp CellBytes_TypeYear_g [13].
Proof.
  (* TODO *)
Admitted.

Lemma CellBytes_TypeShort_ok : case_ok ffmt tz jsonp CellBytes_TypeShort_g [2].
Proof.
  (* TODO *)
Admitted.

Lemma CellBytes_TypeInt24_ok : case_ok ffmt tz jsonp CellBytes_TypeInt24_g [9].
Proof.
  (* TODO *)
Admitted.

Lemma CellBytes_TypeLong_ok : case_ok ffmt tz jsonp CellBytes_TypeLong_g [3].
Proof.
  (* TODO *)
Admitted.

Lemma CellBytes_TypeFloat_ok : case_ok ffmt tz jsonp (CellBytes_TypeFloat_g ffmt) [4].
Proof.
  (* TODO *)
Admitted.

Lemma CellBytes_TypeDouble_ok : case_ok ffmt tz jsonp (CellBytes_TypeDouble_g ffmt) [5].
Proof.
  (* TODO *)
Admitted.

Lemma CellBytes_TypeLongLong_ok : case_ok ffmt tz jsonp CellBytes_TypeLongLong_g [8].
Proof.
  (* TODO *)
Admitted.

Lemma CellBytes_TypeEnum_ok : case_ok ffmt tz jsonp CellBytes_TypeEnum_g [247].
Proof.
  (* TODO *)
Admitted.

Lemma CellBytes_TypeSet_ok : case_ok ffmt tz jsonp CellBytes_TypeSet_g [248].
Proof.
  (* TODO *)
Admitted.

Lemma CellBytes_TypeBit_ok : case_ok ffmt tz jsonp CellBytes_TypeBit_g [16].
Proof.
  (* TODO *)
Admitted.

Lemma CellBytes_TypeTimestamp_ok : case_ok ffmt tz jsonp (CellBytes_TypeTimestamp_g (print_timestamp tz)) [7].
Proof.
  (* TODO *)
Admitted.

End Cases.
