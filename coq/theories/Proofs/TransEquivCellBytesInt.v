(* Per-case equivalences for gen/TransCellBytes.v, family Int: see TransEquivCellBytesDefs.v (case_ok) and
   TransEquivCellBytes.v (CellBytes_equiv). *)
From Coq Require Import ZifyBool.
From GB Require Import Base.Prelude Base.GoSem Base.DecText Base.GoFmt Base.BytesLemmas Proofs.GoSemLemmas Proofs.TransTactics.
From GB Require Import Model.Cell Proofs.TransEquivCellBytesDefs.
From GBGen Require Import Consts TransCellBytes.
Open Scope Z_scope.
Ltac Zify.zify_post_hook ::= Z.to_euclidean_division_equations.

Ltac unfold_types :=
  cbv [K_TypeBit K_TypeBlob K_TypeDate K_TypeDateTime K_TypeDateTime2 K_TypeDecimal K_TypeDouble K_TypeEnum K_TypeFloat
       K_TypeGeometry K_TypeInt24 K_TypeJSON K_TypeLong K_TypeLongBlob K_TypeLongLong K_TypeMediumBlob K_TypeNewDate
       K_TypeNewDecimal K_TypeNull K_TypeSet K_TypeShort K_TypeString K_TypeTime K_TypeTime2 K_TypeTimestamp
       K_TypeTimestamp2 K_TypeTiny K_TypeTinyBlob K_TypeVarString K_TypeVarchar K_TypeYear] in *.

(* the model at a literal type code: decide the comparisons of its if-chain *)
Ltac model_at k :=
  unfold cell_bytes; unfold_types;
  repeat match goal with
  | |- context [k =? ?b] => let v := eval vm_compute in (k =? b) in change (k =? b) with v
  end;
  cbn [orb]; unfold decode_enum, band, shr.

(* binary.LittleEndian.UintN(data[pos:pos+k]) followed by any continuation *)
Lemma rd_le {B} d pos k n (f : Z -> res B) : Z.of_nat pos < 2 ^ 62 -> k = Z.of_nat n -> (n <= 8)%nat ->
  (do s <- go_slice d (Z.of_nat pos) (i64 (Z.of_nat pos + k)); do v <- go_le s n; f v) = (do v <- le_at d pos n; f v).
Proof.
  intros Hp -> Hn. change (2 ^ 62) with 4611686018427387904 in Hp. rewrite i64_small by lia.
  apply go_slice_le_bind; reflexivity.
Qed.

(* data[pos:pos+l] against take *)
Lemma rd_take d pos l : Z.of_nat pos < 2 ^ 62 -> 0 <= l < 2 ^ 61 ->
  go_slice d (Z.of_nat pos) (i64 (Z.of_nat pos + l)) = take d pos l.
Proof.
  intros Hp Hl. change (2 ^ 62) with 4611686018427387904 in Hp. change (2 ^ 61) with 2305843009213693952 in Hl.
  rewrite i64_small by lia. unfold take.
  rewrite (go_slice_Z d _ _ pos (Z.to_nat l)) by lia.
  destruct (slice_cases d pos (Z.to_nat l)) as [(s & E & _ & L)|[E L]]; unfold len.
  - destruct ((0 <=? l) && (Z.of_nat pos + l <=? Z.of_nat (length d))) eqn:C; [reflexivity|lia].
  - destruct ((0 <=? l) && (Z.of_nat pos + l <=? Z.of_nat (length d))) eqn:C; [lia|exact E].
Qed.

(* case split on the first fixed-width read of the goal: a value (with its bounds) or a panic *)
Ltac case_le W :=
  match goal with
  | |- context [le_at ?d ?p ?n] =>
    let v := fresh "v" in let E := fresh "Ev" in let B := fresh "Bv" in
    destruct (le_at d p n) as [v| |] eqn:E; cbn [bind flat];
    [pose proof (le_at_bound d p n v W E) as B; cbn in B| |]
  end.

(* start of every case: the type code is a literal, both sides unfolded, slice reads turned into le_at *)
Ltac case_start g k :=
  let d := fresh "d" in let pos := fresh "pos" in let typ := fresh "typ" in let meta := fresh "meta" in
  let uns := fresh "uns" in let W := fresh "W" in let Hin := fresh "Hin" in let Hm := fresh "Hm" in let Hp := fresh "Hp" in
  intros d pos typ meta uns W Hin Hm Hp; cbn [In] in Hin; destruct Hin as [<-|[]];
  unfold g; model_at k;
  repeat (rewrite rd_le by (assumption || reflexivity || lia));
  rewrite ?go_idx_nat.

(* the cases that read one fixed-width integer and format it *)
Ltac int_case g k :=
  case_start g k;
  match goal with W : wf_bytes _ |- _ =>
    try case_le W; try case_at W
  end;
  split_ifs; cbn [bind flat res_sim]; try exact I; try reflexivity; try (rewrite u64_small by lia; reflexivity).

(* MEDIUMINT: three bytes assembled at uint32 / uint64 without a wrap; the sign extension is the same sum *)
Lemma i32_u32 x : i32 (u32 x) = i32 x.
Proof. unfold i32, u32. rewrite Z.mod_mod by lia. reflexivity. Qed.
Lemma int24_u32 a b c : 0 <= a < 256 -> 0 <= b < 256 -> 0 <= c < 256 ->
  u32 (u32 (a + go_shl u32 b 8) + go_shl u32 c 16) = a + 256 * (b + 256 * (c + 256 * 0)).
Proof.
  intros Ha Hb Hc. unfold go_shl. pow_consts.
  rewrite (u32_small (b * 256)), (u32_small (c * 65536)), (u32_small (a + b * 256)), u32_small by lia. lia.
Qed.
Lemma int24_u64 a b c : 0 <= a < 256 -> 0 <= b < 256 -> 0 <= c < 256 ->
  u64 (u64 (a + go_shl u64 b 8) + go_shl u64 c 16) = a + 256 * (b + 256 * (c + 256 * 0)).
Proof.
  intros Ha Hb Hc. unfold go_shl. pow_consts.
  rewrite (u64_small (b * 256)), (u64_small (c * 65536)), (u64_small (a + b * 256)), u64_small by lia. lia.
Qed.
Lemma int24_hi a b c : 0 <= a < 256 -> 0 <= b < 256 -> 0 <= c < 256 ->
  (a + 256 * (b + 256 * (c + 256 * 0))) / 2 ^ 16 = c.
Proof. intros Ha Hb Hc. change (2 ^ 16) with 65536. lia. Qed.

Section Cases.
Variable ffmt : Z -> Z -> bytes.
Variable tz : Z -> Z.
Variable jsonp : bytes -> res bytes.

Lemma CellBytes_TypeTiny_ok : case_ok ffmt tz jsonp CellBytes_TypeTiny_g [1].
Proof. int_case CellBytes_TypeTiny_g 1. Qed.

Lemma CellBytes_TypeYear_ok : case_ok ffmt tz jsonp CellBytes_TypeYear_g [13].
Proof. int_case CellBytes_TypeYear_g 13. Qed.

Lemma CellBytes_TypeShort_ok : case_ok ffmt tz jsonp CellBytes_TypeShort_g [2].
Proof. int_case CellBytes_TypeShort_g 2. Qed.

Lemma CellBytes_TypeInt24_ok : case_ok ffmt tz jsonp CellBytes_TypeInt24_g [9].
Proof.
  case_start CellBytes_TypeInt24_g 9.
  rewrite ?idx_off by (assumption || (cbn; lia)). to_nat_consts.
  rewrite le_at_at_le0 by lia. cbn [at_le]. rewrite ?Nat.add_0_r.
  destruct uns; cbn [negb andb bind].
  all: repeat case_at W.
  all: rewrite ?int24_hi by assumption; rewrite ?Z.gtb_ltb.
  all: split_ifs; cbn [flat res_sim]; try exact I.
  all: rewrite ?i32_u32, ?int24_u32, ?int24_u64 by assumption; reflexivity.
Qed.

Lemma CellBytes_TypeLong_ok : case_ok ffmt tz jsonp CellBytes_TypeLong_g [3].
Proof. int_case CellBytes_TypeLong_g 3. Qed.

Lemma CellBytes_TypeFloat_ok : case_ok ffmt tz jsonp (CellBytes_TypeFloat_g ffmt) [4].
Proof. int_case CellBytes_TypeFloat_g 4. Qed.

Lemma CellBytes_TypeDouble_ok : case_ok ffmt tz jsonp (CellBytes_TypeDouble_g ffmt) [5].
Proof. int_case CellBytes_TypeDouble_g 5. Qed.

Lemma CellBytes_TypeLongLong_ok : case_ok ffmt tz jsonp CellBytes_TypeLongLong_g [8].
Proof. int_case CellBytes_TypeLongLong_g 8. Qed.

Lemma CellBytes_TypeEnum_ok : case_ok ffmt tz jsonp CellBytes_TypeEnum_g [247].
Proof. int_case CellBytes_TypeEnum_g 247. Qed.

Lemma CellBytes_TypeSet_ok : case_ok ffmt tz jsonp CellBytes_TypeSet_g [248].
Proof.
  case_start CellBytes_TypeSet_g 248. cbv zeta. rewrite land_255.
  rewrite rd_take by (try assumption; change (2 ^ 61) with 2305843009213693952; lia).
  destruct (take d pos (meta mod 256)); cbn [bind flat res_sim]; auto.
Qed.

Lemma CellBytes_TypeBit_ok : case_ok ffmt tz jsonp CellBytes_TypeBit_g [16].
Proof.
  case_start CellBytes_TypeBit_g 16. unfold go_shr. cbv zeta.
  set (n := u16 (u16 (meta / 2 ^ 8 * 8) + Z.land meta 255)).
  assert (Hn : 0 <= n < 65536) by (unfold n, u16; apply Z.mod_pos_bound; lia).
  clearbody n.
  rewrite (i64_small (n + 7)) by lia. rewrite Z.quot_div_nonneg by lia.
  assert (Hl : 0 <= (n + 7) / 8 < 65536) by lia.
  set (l := (n + 7) / 8) in *. clearbody l.
  rewrite (i64_small l) by lia.
  rewrite rd_take by (try assumption; change (2 ^ 61) with 2305843009213693952; lia).
  destruct (take d pos l); cbn [bind flat res_sim]; auto.
Qed.

Lemma CellBytes_TypeTimestamp_ok : case_ok ffmt tz jsonp (CellBytes_TypeTimestamp_g (print_timestamp tz)) [7].
Proof. int_case CellBytes_TypeTimestamp_g 7. Qed.

End Cases.
