(* Lemmas relating the Go library text models (Base/GoText.v) to the printers:
   split / cut on a separator that the pieces do not contain, TrimSpace on text without
   white space, ParseInt / ParseUint of printed numbers, hex decode of hex encode. *)
From GB Require Import Base.Prelude Base.DecText Base.BytesLemmas Base.GoText.
Open Scope Z_scope.

(* ---------- split ---------- *)
Lemma split_on_nonnil sep s : split_on sep s <> [].
Proof.
  destruct s as [|c r]; cbn [split_on]; [discriminate|].
  destruct (c =? sep); [discriminate|]. destruct (split_on sep r); discriminate.
Qed.

Lemma split_on_nosep sep s : Forall (fun c => c <> sep) s -> split_on sep s = [s].
Proof.
  induction 1 as [|c r Hc Hr IH]; [reflexivity|].
  cbn [split_on]. destruct (Z.eqb_spec c sep) as [E|_]; [contradiction|]. rewrite IH. reflexivity.
Qed.

Lemma split_on_app sep a b :
  Forall (fun c => c <> sep) a -> split_on sep (a ++ sep :: b) = a :: split_on sep b.
Proof.
  induction 1 as [|c r Hc Hr IH]; cbn [app split_on].
  - rewrite Z.eqb_refl. reflexivity.
  - destruct (Z.eqb_spec c sep) as [E|_]; [contradiction|]. rewrite IH. reflexivity.
Qed.

Lemma cut_at_app sep a b :
  Forall (fun c => c <> sep) a -> cut_at sep (a ++ sep :: b) = Some (a, b).
Proof.
  induction 1 as [|c r Hc Hr IH]; cbn [app cut_at].
  - rewrite Z.eqb_refl. reflexivity.
  - destruct (Z.eqb_spec c sep) as [E|_]; [contradiction|]. rewrite IH. reflexivity.
Qed.

Lemma splitn2_app sep a b :
  Forall (fun c => c <> sep) a -> splitn2 sep (a ++ sep :: b) = [a; b].
Proof. intros H. unfold splitn2. rewrite cut_at_app by exact H. reflexivity. Qed.

(* ---------- join ---------- *)
Lemma join_cons sep x y r : join sep (x :: y :: r) = x ++ sep ++ join sep (y :: r).
Proof. reflexivity. Qed.

(* ---------- TrimSpace ---------- *)
Lemma trim_left_id s : Forall (fun c => is_space c = false) s -> trim_left s = s.
Proof. destruct 1 as [|c r Hc Hr]; [reflexivity|]. cbn [trim_left]. rewrite Hc. reflexivity. Qed.

Lemma trim_space_id s : Forall (fun c => is_space c = false) s -> trim_space s = s.
Proof.
  intros H. unfold trim_space. rewrite (trim_left_id s H).
  rewrite trim_left_id by (apply Forall_rev; exact H). apply rev_involutive.
Qed.

(* ---------- numbers ---------- *)
Lemma is_digitb_ok c : is_digitb c = true <-> is_digit c.
Proof. unfold is_digitb, is_digit. lia. Qed.

Lemma all_digits_ok s : Forall is_digit s -> all_digits s = true.
Proof.
  intros H. unfold all_digits. apply forallb_forall. intros x Hx.
  apply is_digitb_ok. rewrite Forall_forall in H. auto.
Qed.

Lemma parse_uint_digs bits n : 0 <= n < 2 ^ bits -> parse_uint bits (digs n) = Ok n.
Proof.
  intros H. unfold parse_uint.
  destruct (digs n) as [|c r] eqn:E; [exfalso; exact (digs_nonempty n E)|].
  rewrite <- E. rewrite all_digits_ok by (apply digs_digits; lia).
  rewrite digs_val by lia. destruct (Z.ltb_spec n (2 ^ bits)); [reflexivity|lia].
Qed.

Lemma parse_uint_format bits n : 0 <= n < 2 ^ bits -> parse_uint bits (format_uint n) = Ok n.
Proof. apply parse_uint_digs. Qed.

Lemma parse_int_format bits z :
  1 <= bits -> - 2 ^ (bits - 1) <= z < 2 ^ (bits - 1) -> parse_int bits (format_int z) = Ok z.
Proof.
  intros Hb H. unfold format_int.
  destruct (Z.ltb_spec z 0) as [Hneg|Hpos].
  - (* negative *)
    unfold parse_int. rewrite Z.eqb_refl. cbn [orb].
    replace ((45 =? 43) || true) with true by reflexivity.
    destruct (digs (- z)) as [|c r] eqn:E; [exfalso; exact (digs_nonempty _ E)|].
    rewrite <- E. rewrite all_digits_ok by (apply digs_digits; lia).
    rewrite digs_val by lia.
    destruct (Z.leb_spec (- z) (2 ^ (bits - 1))); [f_equal; lia|lia].
  - (* non-negative: the first character is a digit, hence no sign *)
    unfold parse_int.
    destruct (digs z) as [|c r] eqn:E; [exfalso; exact (digs_nonempty _ E)|].
    assert (Hd : Forall is_digit (c :: r)) by (rewrite <- E; apply digs_digits; lia).
    assert (Hc : is_digit c) by (inversion Hd; assumption).
    unfold is_digit in Hc.
    destruct (Z.eqb_spec c 45) as [?|_]; [lia|].
    destruct (Z.eqb_spec c 43) as [?|_]; [lia|]. cbn [orb].
    rewrite all_digits_ok by exact Hd. rewrite <- E, digs_val by lia.
    destruct (Z.ltb_spec z (2 ^ (bits - 1))); [reflexivity|lia].
Qed.

(* characters of printed numbers *)
Lemma format_uint_digits n : 0 <= n -> Forall is_digit (format_uint n).
Proof. apply digs_digits. Qed.

Lemma format_int_chars z : Forall (fun c => is_digit c \/ c = 45) (format_int z).
Proof.
  unfold format_int. destruct (Z.ltb_spec z 0).
  - constructor; [right; reflexivity|].
    eapply Forall_impl; [|apply digs_digits; lia]. intros a Ha; left; exact Ha.
  - eapply Forall_impl; [|apply digs_digits; lia]. intros a Ha; left; exact Ha.
Qed.

Lemma format_int_nonneg_digits z : 0 <= z -> Forall is_digit (format_int z).
Proof.
  intros H. unfold format_int. destruct (Z.ltb_spec z 0); [lia|]. apply digs_digits; lia.
Qed.

(* ---------- hex ---------- *)
Definition is_hexchar (c : Z) : Prop := 48 <= c <= 57 \/ 97 <= c <= 102.

Lemma hexdigit_char n : 0 <= n < 16 -> is_hexchar (hexdigit n).
Proof. intros H. unfold hexdigit, is_hexchar. destruct (Z.ltb_spec n 10); lia. Qed.

Lemma from_hex_hexdigit n : 0 <= n < 16 -> from_hex_char (hexdigit n) = Some n.
Proof.
  intros H. unfold hexdigit, from_hex_char.
  destruct (Z.ltb_spec n 10) as [Hl|Hg].
  - replace ((48 <=? 48 + n) && (48 + n <=? 57)) with true by lia. f_equal. lia.
  - replace ((48 <=? 87 + n) && (87 + n <=? 57)) with false by lia.
    replace ((97 <=? 87 + n) && (87 + n <=? 102)) with true by lia. f_equal. lia.
Qed.

Lemma hex_encode_length b : length (hex_encode b) = (2 * length b)%nat.
Proof. induction b as [|x r IH]; cbn [hex_encode length]; lia. Qed.

Lemma hex_encode_app a b : hex_encode (a ++ b) = hex_encode a ++ hex_encode b.
Proof. induction a as [|x r IH]; cbn [hex_encode app]; [reflexivity|]. rewrite IH. reflexivity. Qed.

Lemma hex_encode_chars b : wf_bytes b -> Forall is_hexchar (hex_encode b).
Proof.
  induction 1 as [|x r Hx Hr IH]; cbn [hex_encode]; [constructor|].
  unfold is_byte in Hx.
  constructor; [apply hexdigit_char; split; [apply Z.div_pos; lia | apply Z.div_lt_upper_bound; lia]|].
  constructor; [apply hexdigit_char; apply Z.mod_pos_bound; lia | exact IH].
Qed.

Lemma hex_decode_encode b : wf_bytes b -> hex_decode (hex_encode b) = Ok b.
Proof.
  induction 1 as [|x r Hx Hr IH]; [reflexivity|].
  cbn [hex_encode hex_decode]. unfold is_byte in Hx.
  rewrite !from_hex_hexdigit.
  - rewrite IH. cbn [bind]. f_equal. f_equal.
    pose proof (Z_div_mod_eq_full x 16). lia.
  - apply Z.mod_pos_bound; lia.
  - split; [apply Z.div_pos; lia | apply Z.div_lt_upper_bound; lia].
Qed.
