(* Base definitions shared by the model, the specification and the proofs.
   Bytes are Z values in [0,256); positions and lengths are nat. *)
From Coq Require Export List ZArith Lia Bool Arith.
Export ListNotations.
Open Scope Z_scope.

Definition bytes := list Z.
Definition is_byte (b : Z) : Prop := 0 <= b < 256.
Definition wf_bytes (l : bytes) : Prop := Forall is_byte l.
Definition is_byteb (b : Z) : bool := (0 <=? b) && (b <? 256).
Definition wf_bytesb (l : bytes) : bool := forallb is_byteb l.

(* error classes: one constructor per family of `return ..., err` sites *)
Inductive errc :=
| EUnsupportedType | EBlobMeta | EEnumSize | EJson
| ETooSmall | ETooLarge | EMetaEnd | EMetaType
| EFormatVersion | EHeaderLength | ERotateShort | EQueryOverflow | EQueryVar
| EIntVarId | EChecksumAlg
| EOutOfFuel | EOther.

Inductive res (A : Type) :=
| Ok (a : A)
| Err (c : errc)
| Panic.
Arguments Ok {A} a.
Arguments Err {A} c.
Arguments Panic {A}.

Definition bind {A B} (r : res A) (f : A -> res B) : res B :=
  match r with Ok a => f a | Err c => Err c | Panic => Panic end.
Notation "'do' x <- e ; k" := (bind e (fun x => k))
  (at level 200, x pattern, e at level 100, k at level 200, right associativity).

Definition len {A} (l : list A) : Z := Z.of_nat (length l).

(* d[p] : panics when out of range *)
Definition at_ (d : bytes) (p : nat) : res Z :=
  match nth_error d p with Some b => Ok b | None => Panic end.

(* d[a:a+n] (Go slice with a computed upper bound); capacity is not modelled *)
Definition slice (d : bytes) (a n : nat) : res bytes :=
  if (a + n <=? length d)%nat then Ok (firstn n (skipn a d)) else Panic.

(* d[a:] *)
Definition slice_from (d : bytes) (a : nat) : res bytes :=
  if (a <=? length d)%nat then Ok (skipn a d) else Panic.

(* little / big endian *)
Fixpoint le_dec (l : bytes) : Z :=
  match l with [] => 0 | b :: r => b + 256 * le_dec r end.
Fixpoint be_dec_acc (acc : Z) (l : bytes) : Z :=
  match l with [] => acc | b :: r => be_dec_acc (acc * 256 + b) r end.
Definition be_dec (l : bytes) : Z := be_dec_acc 0 l.

Fixpoint le_enc (n : nat) (v : Z) : bytes :=
  match n with O => [] | S k => (v mod 256) :: le_enc k (v / 256) end.
Definition be_enc (n : nat) (v : Z) : bytes := rev (le_enc n v).

(* read n bytes little endian at p *)
Definition le_at (d : bytes) (p n : nat) : res Z :=
  do s <- slice d p n; Ok (le_dec s).
Definition be_at (d : bytes) (p n : nat) : res Z :=
  do s <- slice d p n; Ok (be_dec s).

(* Go fixed-width integer conversions *)
Definition u8 (x : Z) := x mod 256.
Definition u16 (x : Z) := x mod 65536.
Definition u32 (x : Z) := x mod 4294967296.
Definition u64 (x : Z) := x mod 18446744073709551616.
Definition sx (bits : Z) (x : Z) : Z :=           (* reinterpret unsigned as two's complement *)
  if x <? 2 ^ (bits - 1) then x else x - 2 ^ bits.
Definition i8 (x : Z) := sx 8 (u8 x).
Definition i16 (x : Z) := sx 16 (u16 x).
Definition i32 (x : Z) := sx 32 (u32 x).
Definition i64 (x : Z) := sx 64 (u64 x).

Definition nat_of (z : Z) : nat := Z.to_nat z.

(* ASCII helpers: strings are byte lists *)
From Coq Require Import String Ascii.
Fixpoint str (s : string) : bytes :=
  match s with
  | EmptyString => []
  | String c r => Z.of_nat (nat_of_ascii c) :: str r
  end.

Fixpoint bytes_eqb (a b : bytes) : bool :=
  match a, b with
  | [], [] => true
  | x :: a', y :: b' => (x =? y) && bytes_eqb a' b'
  | _, _ => false
  end.

Lemma bytes_eqb_eq a b : bytes_eqb a b = true <-> a = b.
Proof.
  revert b; induction a as [|x a IH]; intros [|y b]; simpl; split; intro H;
    try reflexivity; try discriminate.
  - apply andb_true_iff in H as [H1 H2]. apply Z.eqb_eq in H1. apply IH in H2. congruence.
  - inversion H; subst. rewrite Z.eqb_refl. simpl. apply IH. reflexivity.
Qed.
