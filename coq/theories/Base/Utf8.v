(* UTF-8 as Go's unicode/utf8 decodes it (DecodeRune): the decoder, the
   decomposition of a byte string into decoded chunks, the validity predicate,
   the sanitiser (every undecodable byte becomes U+FFFD, what encoding/json
   does to strings) and the encoder.  Lemmas are at the end of the file. *)
From GB Require Import Base.Prelude.
Open Scope Z_scope.

Definition in_rng (lo hi b : Z) : bool := (lo <=? b) && (b <=? hi).
Definition cont (b : Z) : bool := in_rng 128 191 b.

(* utf8.DecodeRune on the bytes at the front of [s]: [Some (rune, size)] for a
   well-formed encoding, [None] for Go's (RuneError, 1) (and for empty input).
   Accept ranges are those of unicode/utf8: E0 A0..BF, ED 80..9F (no
   surrogates), F0 90..BF, F4 80..8F (<= U+10FFFF); C0, C1, F5..FF and lone
   continuation bytes never start a rune; a truncated sequence is invalid. *)
Definition decode_rune (s : bytes) : option (Z * nat) :=
  match s with
  | [] => None
  | b0 :: r =>
    if in_rng 0 127 b0 then Some (b0, 1%nat)
    else if in_rng 194 223 b0 then
      match r with
      | b1 :: _ => if cont b1 then Some ((b0 - 192) * 64 + (b1 - 128), 2%nat) else None
      | _ => None
      end
    else if in_rng 224 239 b0 then
      match r with
      | b1 :: b2 :: _ =>
        if in_rng (if b0 =? 224 then 160 else 128) (if b0 =? 237 then 159 else 191) b1 && cont b2
        then Some ((b0 - 224) * 4096 + (b1 - 128) * 64 + (b2 - 128), 3%nat) else None
      | _ => None
      end
    else if in_rng 240 244 b0 then
      match r with
      | b1 :: b2 :: b3 :: _ =>
        if in_rng (if b0 =? 240 then 144 else 128) (if b0 =? 244 then 143 else 191) b1 && cont b2 && cont b3
        then Some ((b0 - 240) * 262144 + (b1 - 128) * 4096 + (b2 - 128) * 64 + (b3 - 128), 4%nat) else None
      | _ => None
      end
    else None
  end.

(* one step of a `for i < len(s) { c, size := DecodeRune(s[i:]) ... i += size }` loop *)
Inductive chunk :=
| Good (bs : bytes) (c : Z)      (* well-formed encoding [bs] of the rune [c] *)
| Bad (b : Z).                   (* a byte that does not start a well-formed encoding *)

Fixpoint chunks_fuel (fuel : nat) (s : bytes) : list chunk :=
  match fuel with
  | O => []
  | S f =>
    match s with
    | [] => []
    | b :: r =>
      match decode_rune s with
      | Some (c, n) => Good (firstn n s) c :: chunks_fuel f (skipn n s)
      | None => Bad b :: chunks_fuel f r
      end
    end
  end.

Definition utf8_chunks (s : bytes) : list chunk := chunks_fuel (length s) s.

Definition is_good (ch : chunk) : bool := match ch with Good _ _ => true | Bad _ => false end.

Definition valid_utf8 (s : bytes) : bool := forallb is_good (utf8_chunks s).

Definition fffd : bytes := [239; 191; 189].        (* U+FFFD in UTF-8 *)

Definition chunk_san (ch : chunk) : bytes := match ch with Good bs _ => bs | Bad _ => fffd end.

(* the string encoding/json writes/reads: invalid bytes replaced by U+FFFD *)
Definition sanitize (s : bytes) : bytes := flat_map chunk_san (utf8_chunks s).

(* utf8.EncodeRune for scalar values (surrogates are handled by callers) *)
Definition utf8_enc (c : Z) : bytes :=
  if c <? 128 then [c]
  else if c <? 2048 then [192 + c / 64; 128 + c mod 64]
  else if c <? 65536 then [224 + c / 4096; 128 + (c / 64) mod 64; 128 + c mod 64]
  else [240 + c / 262144; 128 + (c / 4096) mod 64; 128 + (c / 64) mod 64; 128 + c mod 64].

(* Unicode scalar values: code points that are not surrogates (the Unicode standard's definition) *)
Definition is_scalar (c : Z) : Prop := 0 <= c < 55296 \/ 57344 <= c <= 1114111.

(* ------------------------------------------------------------------ *)
(* Lemmas *)

Lemma in_rng_spec lo hi b : in_rng lo hi b = true <-> lo <= b <= hi.
Proof. unfold in_rng. rewrite andb_true_iff, !Z.leb_le. tauto. Qed.

Lemma in_rng_false lo hi b : in_rng lo hi b = false <-> (b < lo \/ hi < b).
Proof.
  unfold in_rng. rewrite andb_false_iff, !Z.leb_gt. tauto.
Qed.

(* shape of a successful decode *)
Definition good_enc (bs : bytes) (c : Z) : Prop :=
  match bs with
  | [b0] => 0 <= b0 <= 127 /\ c = b0
  | [b0; b1] => 194 <= b0 <= 223 /\ 128 <= b1 <= 191 /\ c = (b0 - 192) * 64 + (b1 - 128)
  | [b0; b1; b2] =>
    224 <= b0 <= 239 /\ (if b0 =? 224 then 160 else 128) <= b1 <= (if b0 =? 237 then 159 else 191) /\
    128 <= b2 <= 191 /\ c = (b0 - 224) * 4096 + (b1 - 128) * 64 + (b2 - 128)
  | [b0; b1; b2; b3] =>
    240 <= b0 <= 244 /\ (if b0 =? 240 then 144 else 128) <= b1 <= (if b0 =? 244 then 143 else 191) /\
    128 <= b2 <= 191 /\ 128 <= b3 <= 191 /\
    c = (b0 - 240) * 262144 + (b1 - 128) * 4096 + (b2 - 128) * 64 + (b3 - 128)
  | _ => False
  end.

Lemma decode_rune_some s c n :
  decode_rune s = Some (c, n) ->
  exists bs t, s = bs ++ t /\ length bs = n /\ good_enc bs c.
Proof.
  destruct s as [|b0 r]; [discriminate|]. unfold decode_rune.
  destruct (in_rng 0 127 b0) eqn:E0.
  { intros H; injection H as <- <-. exists [b0], r. apply in_rng_spec in E0. repeat split; auto; lia. }
  destruct (in_rng 194 223 b0) eqn:E1.
  { destruct r as [|b1 r]; [discriminate|]. destruct (cont b1) eqn:C1; [|discriminate].
    intros H; injection H as <- <-. exists [b0; b1], r.
    apply in_rng_spec in E1. apply in_rng_spec in C1. repeat split; auto; lia. }
  destruct (in_rng 224 239 b0) eqn:E2.
  { destruct r as [|b1 [|b2 r]]; try discriminate.
    match goal with |- context [if ?x then _ else _] => destruct x eqn:C end; [|discriminate].
    intros H; injection H as <- <-. exists [b0; b1; b2], r.
    apply andb_true_iff in C as [C1 C2].
    apply in_rng_spec in E2. apply in_rng_spec in C1. apply in_rng_spec in C2.
    repeat split; auto; lia. }
  destruct (in_rng 240 244 b0) eqn:E3; [|discriminate].
  destruct r as [|b1 [|b2 [|b3 r]]]; try discriminate.
  match goal with |- context [if ?x then _ else _] => destruct x eqn:C end; [|discriminate].
  intros H; injection H as <- <-. exists [b0; b1; b2; b3], r.
  apply andb_true_iff in C as [C C3]. apply andb_true_iff in C as [C1 C2].
  apply in_rng_spec in E3. apply in_rng_spec in C1. apply in_rng_spec in C2. apply in_rng_spec in C3.
  repeat split; auto; lia.
Qed.

(* conversely a well-formed encoding decodes, whatever follows it *)
Lemma decode_rune_good bs c t : good_enc bs c -> decode_rune (bs ++ t) = Some (c, length bs).
Proof.
  destruct bs as [|b0 [|b1 [|b2 [|b3 [|b4 bs]]]]]; cbn [good_enc]; try tauto.
  - intros [H ->]. cbn [app decode_rune length].
    replace (in_rng 0 127 b0) with true by (symmetry; apply in_rng_spec; lia). reflexivity.
  - intros (H0 & H1 & ->). cbn [app decode_rune length].
    replace (in_rng 0 127 b0) with false by (symmetry; apply in_rng_false; lia).
    replace (in_rng 194 223 b0) with true by (symmetry; apply in_rng_spec; lia).
    unfold cont. replace (in_rng 128 191 b1) with true by (symmetry; apply in_rng_spec; lia). reflexivity.
  - intros (H0 & H1 & H2 & ->). cbn [app decode_rune length].
    replace (in_rng 0 127 b0) with false by (symmetry; apply in_rng_false; lia).
    replace (in_rng 194 223 b0) with false by (symmetry; apply in_rng_false; lia).
    replace (in_rng 224 239 b0) with true by (symmetry; apply in_rng_spec; lia).
    unfold cont. replace (in_rng 128 191 b2) with true by (symmetry; apply in_rng_spec; lia).
    match goal with |- context [in_rng ?a ?b b1] =>
      replace (in_rng a b b1) with true by (symmetry; apply in_rng_spec; lia) end.
    reflexivity.
  - intros (H0 & H1 & H2 & H3 & ->). cbn [app decode_rune length].
    replace (in_rng 0 127 b0) with false by (symmetry; apply in_rng_false; lia).
    replace (in_rng 194 223 b0) with false by (symmetry; apply in_rng_false; lia).
    replace (in_rng 224 239 b0) with false by (symmetry; apply in_rng_false; lia).
    replace (in_rng 240 244 b0) with true by (symmetry; apply in_rng_spec; lia).
    unfold cont. replace (in_rng 128 191 b2) with true by (symmetry; apply in_rng_spec; lia).
    replace (in_rng 128 191 b3) with true by (symmetry; apply in_rng_spec; lia).
    match goal with |- context [in_rng ?a ?b b1] =>
      replace (in_rng a b b1) with true by (symmetry; apply in_rng_spec; lia) end.
    reflexivity.
Qed.

Lemma good_enc_length bs c : good_enc bs c -> (1 <= length bs <= 4)%nat.
Proof.
  destruct bs as [|b0 [|b1 [|b2 [|b3 [|b4 bs]]]]]; cbn [good_enc length]; try tauto; lia.
Qed.

Lemma good_enc_wf bs c : good_enc bs c -> wf_bytes bs.
Proof.
  destruct bs as [|b0 [|b1 [|b2 [|b3 [|b4 bs]]]]]; cbn [good_enc]; try tauto; intros H;
    repeat (apply Forall_cons; [unfold is_byte; try (destruct (Z.eqb_spec b0 224), (Z.eqb_spec b0 237)); try (destruct (Z.eqb_spec b0 240), (Z.eqb_spec b0 244)); lia|]);
    apply Forall_nil.
Qed.

(* an encoding of a non-ASCII rune consists of bytes >= 128 only; an ASCII rune is its own encoding *)
Lemma good_enc_ascii bs c : good_enc bs c -> c < 128 -> bs = [c] /\ 0 <= c.
Proof.
  destruct bs as [|b0 [|b1 [|b2 [|b3 [|b4 bs]]]]]; cbn [good_enc]; try tauto; intros H Hc.
  - destruct H as [H ->]. split; auto; lia.
  - lia.
  - destruct (Z.eqb_spec b0 224), (Z.eqb_spec b0 237); lia.
  - destruct (Z.eqb_spec b0 240), (Z.eqb_spec b0 244); lia.
Qed.

Lemma good_enc_high bs c : good_enc bs c -> 128 <= c -> Forall (fun b => 128 <= b <= 255) bs.
Proof.
  destruct bs as [|b0 [|b1 [|b2 [|b3 [|b4 bs]]]]]; cbn [good_enc]; try tauto; intros H Hc.
  - lia.
  - repeat (apply Forall_cons; [lia|]); apply Forall_nil.
  - repeat (apply Forall_cons; [destruct (Z.eqb_spec b0 224), (Z.eqb_spec b0 237); lia|]); apply Forall_nil.
  - repeat (apply Forall_cons; [destruct (Z.eqb_spec b0 240), (Z.eqb_spec b0 244); lia|]); apply Forall_nil.
Qed.

(* the two separators encoding/json escapes *)
Lemma good_enc_2028 bs c : good_enc bs c -> c = 8232 \/ c = 8233 -> bs = [226; 128; c - 8232 + 168].
Proof.
  destruct bs as [|b0 [|b1 [|b2 [|b3 [|b4 bs]]]]]; cbn [good_enc]; try tauto; intros H Hc.
  - lia.
  - lia.
  - destruct H as (H0 & H1 & H2 & ->).
    assert (b0 = 226) by (destruct (Z.eqb_spec b0 224), (Z.eqb_spec b0 237); lia). subst b0.
    change (226 =? 224) with false in H1. change (226 =? 237) with false in H1.
    assert (b1 = 128) by lia. subst b1. repeat f_equal. lia.
  - exfalso. destruct H as (H0 & H1 & H2 & H3 & ->).
    destruct (b0 =? 240) eqn:E; [apply Z.eqb_eq in E | apply Z.eqb_neq in E];
      destruct (b0 =? 244); lia.
Qed.

Lemma decode_rune_size s c n : decode_rune s = Some (c, n) -> (1 <= n <= length s)%nat.
Proof.
  intros H. apply decode_rune_some in H as (bs & t & -> & <- & G).
  apply good_enc_length in G. rewrite app_length. lia.
Qed.

Lemma chunks_fuel_enough f : forall g s, (length s <= f)%nat -> (length s <= g)%nat ->
  chunks_fuel f s = chunks_fuel g s.
Proof.
  induction f as [|f IH]; intros g s Hf Hg.
  - destruct s; [|cbn in Hf; lia]. destruct g; reflexivity.
  - destruct g as [|g]; [destruct s; [reflexivity | cbn in Hg; lia]|].
    cbn [chunks_fuel]. destruct s as [|b r]; [reflexivity|].
    destruct (decode_rune (b :: r)) as [[c n]|] eqn:E.
    + f_equal. pose proof (decode_rune_size _ _ _ E) as Hn.
      assert (length (skipn n (b :: r)) = length (b :: r) - n)%nat by apply skipn_length.
      apply IH; lia.
    + f_equal. cbn [length] in Hf, Hg. apply IH; lia.
Qed.

Lemma utf8_chunks_nil : utf8_chunks [] = [].
Proof. reflexivity. Qed.

Lemma utf8_chunks_good s c n : decode_rune s = Some (c, n) ->
  utf8_chunks s = Good (firstn n s) c :: utf8_chunks (skipn n s).
Proof.
  intros E. pose proof (decode_rune_size _ _ _ E) as Hn.
  destruct s as [|b r]; [discriminate|]. unfold utf8_chunks at 1. cbn [length chunks_fuel]. rewrite E.
  f_equal. unfold utf8_chunks.
  assert (length (skipn n (b :: r)) = length (b :: r) - n)%nat by apply skipn_length.
  cbn [length] in *. apply chunks_fuel_enough; lia.
Qed.

Lemma utf8_chunks_bad b r : decode_rune (b :: r) = None ->
  utf8_chunks (b :: r) = Bad b :: utf8_chunks r.
Proof. intros E. unfold utf8_chunks at 1. cbn [length chunks_fuel]. rewrite E. reflexivity. Qed.

(* a well-formed encoding at the front is the first chunk *)
Lemma utf8_chunks_app_good bs c t : good_enc bs c -> utf8_chunks (bs ++ t) = Good bs c :: utf8_chunks t.
Proof.
  intros G. rewrite (utf8_chunks_good _ c (length bs)) by (apply decode_rune_good; auto).
  rewrite firstn_app, Nat.sub_diag, firstn_all, skipn_app, Nat.sub_diag, skipn_all. cbn [firstn skipn app].
  rewrite app_nil_r. reflexivity.
Qed.

(* induction along the decoding loop *)
Lemma utf8_ind (P : bytes -> Prop) :
  P [] ->
  (forall bs c t, good_enc bs c -> P t -> P (bs ++ t)) ->
  (forall b r, decode_rune (b :: r) = None -> P r -> P (b :: r)) ->
  forall s, P s.
Proof.
  intros H0 Hg Hb s. remember (length s) as k eqn:Hk. revert s Hk.
  induction k as [k IH] using lt_wf_ind. intros s Hk.
  destruct s as [|b r]; [exact H0|].
  destruct (decode_rune (b :: r)) as [[c n]|] eqn:E.
  - apply decode_rune_some in E as (bs & t & Es & Hl & G). rewrite Es. apply (Hg bs c t); auto.
    apply (IH (length t)); auto. subst k. rewrite Es, app_length. apply good_enc_length in G. lia.
  - apply Hb; auto. apply (IH (length r)); auto. subst k. cbn. lia.
Qed.

Lemma sanitize_nil : sanitize [] = [].
Proof. reflexivity. Qed.

Lemma sanitize_good bs c t : good_enc bs c -> sanitize (bs ++ t) = bs ++ sanitize t.
Proof. intros G. unfold sanitize. rewrite (utf8_chunks_app_good _ _ _ G). reflexivity. Qed.

Lemma sanitize_bad b r : decode_rune (b :: r) = None -> sanitize (b :: r) = fffd ++ sanitize r.
Proof. intros E. unfold sanitize. rewrite (utf8_chunks_bad _ _ E). reflexivity. Qed.

Lemma valid_good bs c t : good_enc bs c -> valid_utf8 (bs ++ t) = valid_utf8 t.
Proof. intros G. unfold valid_utf8. rewrite (utf8_chunks_app_good _ _ _ G). reflexivity. Qed.

Lemma valid_bad b r : decode_rune (b :: r) = None -> valid_utf8 (b :: r) = false.
Proof. intros E. unfold valid_utf8. rewrite (utf8_chunks_bad _ _ E). reflexivity. Qed.

(* valid strings are left alone *)
Lemma sanitize_valid_id s : valid_utf8 s = true -> sanitize s = s.
Proof.
  induction s as [|bs c t G IH|b r E IH] using utf8_ind; intros V.
  - reflexivity.
  - rewrite (valid_good _ _ _ G) in V. rewrite (sanitize_good _ _ _ G), IH; auto.
  - rewrite (valid_bad _ _ E) in V. discriminate.
Qed.

Lemma good_fffd : good_enc fffd 65533.
Proof. cbn. repeat split; lia. Qed.

(* the sanitised string is valid *)
Lemma sanitize_is_valid s : valid_utf8 (sanitize s) = true.
Proof.
  induction s as [|bs c t G IH|b r E IH] using utf8_ind.
  - reflexivity.
  - rewrite (sanitize_good _ _ _ G), (valid_good _ _ _ G). exact IH.
  - rewrite (sanitize_bad _ _ E), (valid_good _ _ _ good_fffd). exact IH.
Qed.

Lemma sanitize_idem s : sanitize (sanitize s) = sanitize s.
Proof. apply sanitize_valid_id, sanitize_is_valid. Qed.

Lemma sanitize_wf s : wf_bytes s -> wf_bytes (sanitize s).
Proof.
  induction s as [|bs c t G IH|b r E IH] using utf8_ind; intros W.
  - constructor.
  - apply Forall_app in W as [W1 W2]. rewrite (sanitize_good _ _ _ G). apply Forall_app; split; [exact W1 | exact (IH W2)].
  - inversion W as [|x y Hx Hy]; subst. rewrite (sanitize_bad _ _ E). apply Forall_app; split; [|exact (IH Hy)].
    repeat constructor; unfold is_byte; lia.
Qed.

(* sanitising never empties a non-empty string, and never fills an empty one *)
Lemma sanitize_nil_iff s : sanitize s = [] <-> s = [].
Proof.
  split; [|intros ->; reflexivity].
  destruct s as [|b r]; auto. intros H. exfalso.
  destruct (decode_rune (b :: r)) as [[c n]|] eqn:E.
  - apply decode_rune_some in E as (bs & t & Es & Hl & G). rewrite Es, (sanitize_good _ _ _ G) in H.
    apply good_enc_length in G. destruct bs; [cbn in G; lia | discriminate].
  - rewrite (sanitize_bad _ _ E) in H. discriminate.
Qed.

(* validity of concatenations *)
Lemma valid_app a b : valid_utf8 a = true -> valid_utf8 b = true -> valid_utf8 (a ++ b) = true.
Proof.
  intros Va Vb. induction a as [|bs c t G IH|x r E IH] using utf8_ind.
  - exact Vb.
  - rewrite (valid_good _ _ _ G) in Va. rewrite <- app_assoc, (valid_good _ _ _ G). auto.
  - rewrite (valid_bad _ _ E) in Va. discriminate.
Qed.

Lemma valid_ascii_cons c s : 0 <= c <= 127 -> valid_utf8 (c :: s) = valid_utf8 s.
Proof. intros H. apply (valid_good [c] c s). cbn. split; auto. Qed.

Lemma valid_ascii s : Forall (fun c => 0 <= c <= 127) s -> valid_utf8 s = true.
Proof. induction 1 as [|c s Hc Hs IH]; [reflexivity|]. rewrite valid_ascii_cons; auto. Qed.

Lemma valid_good_enc bs c : good_enc bs c -> valid_utf8 bs = true.
Proof. intros G. rewrite <- (app_nil_r bs), (valid_good _ _ _ G). reflexivity. Qed.

(* ---- the decoder against the standard: it accepts exactly the encodings of scalar values ---- *)

Lemma utf8_enc_good c : is_scalar c -> good_enc (utf8_enc c) c.
Proof.
  intros H. unfold is_scalar in H. unfold utf8_enc.
  destruct (Z.ltb_spec c 128); [cbn [good_enc]; lia|].
  destruct (Z.ltb_spec c 2048).
  { cbn [good_enc]. Z.div_mod_to_equations. lia. }
  destruct (Z.ltb_spec c 65536).
  { cbn [good_enc].
    destruct (Z.eqb_spec (224 + c / 4096) 224); destruct (Z.eqb_spec (224 + c / 4096) 237);
      Z.div_mod_to_equations; lia. }
  cbn [good_enc].
  destruct (Z.eqb_spec (240 + c / 262144) 240); destruct (Z.eqb_spec (240 + c / 262144) 244);
    Z.div_mod_to_equations; lia.
Qed.

Lemma good_enc_unique bs c : good_enc bs c -> is_scalar c /\ bs = utf8_enc c.
Proof.
  destruct bs as [|b0 [|b1 [|b2 [|b3 [|b4 bs]]]]]; cbn [good_enc]; try tauto; intros H; unfold utf8_enc, is_scalar.
  - destruct H as [H ->]. destruct (Z.ltb_spec b0 128); [|lia]. split; [lia | reflexivity].
  - destruct H as (H0 & H1 & ->).
    destruct (Z.ltb_spec ((b0 - 192) * 64 + (b1 - 128)) 128); [lia|].
    destruct (Z.ltb_spec ((b0 - 192) * 64 + (b1 - 128)) 2048); [|lia].
    split; [lia|]. f_equal; [|f_equal]; Z.div_mod_to_equations; lia.
  - destruct H as (H0 & H1 & H2 & ->).
    set (c := (b0 - 224) * 4096 + (b1 - 128) * 64 + (b2 - 128)).
    assert (Hc : 2048 <= c < 65536 /\ (c < 55296 \/ 57344 <= c)).
    { unfold c. destruct (Z.eqb_spec b0 224), (Z.eqb_spec b0 237); lia. }
    destruct (Z.ltb_spec c 128); [lia|]. destruct (Z.ltb_spec c 2048); [lia|].
    destruct (Z.ltb_spec c 65536); [|lia].
    split; [lia|].
    assert (Hb1 : 128 <= b1 <= 191) by (destruct (Z.eqb_spec b0 224), (Z.eqb_spec b0 237); lia).
    assert (E1 : c / 4096 = b0 - 224) by (unfold c; Z.div_mod_to_equations; lia).
    assert (E2 : c / 64 = (b0 - 224) * 64 + (b1 - 128)) by (unfold c; Z.div_mod_to_equations; lia).
    assert (E3 : c mod 64 = b2 - 128) by (unfold c; Z.div_mod_to_equations; lia).
    rewrite E1, E2, E3.
    assert (E4 : ((b0 - 224) * 64 + (b1 - 128)) mod 64 = b1 - 128) by (Z.div_mod_to_equations; lia).
    rewrite E4. f_equal; [lia|]. f_equal; [lia|]. f_equal; lia.
  - destruct H as (H0 & H1 & H2 & H3 & ->).
    set (c := (b0 - 240) * 262144 + (b1 - 128) * 4096 + (b2 - 128) * 64 + (b3 - 128)).
    assert (Hc : 65536 <= c <= 1114111).
    { unfold c. destruct (Z.eqb_spec b0 240), (Z.eqb_spec b0 244); lia. }
    destruct (Z.ltb_spec c 128); [lia|]. destruct (Z.ltb_spec c 2048); [lia|].
    destruct (Z.ltb_spec c 65536); [lia|].
    split; [lia|].
    assert (Hb1 : 128 <= b1 <= 191) by (destruct (Z.eqb_spec b0 240), (Z.eqb_spec b0 244); lia).
    assert (E1 : c / 262144 = b0 - 240) by (unfold c; Z.div_mod_to_equations; lia).
    assert (E2 : c / 4096 = (b0 - 240) * 64 + (b1 - 128)) by (unfold c; Z.div_mod_to_equations; lia).
    assert (E3 : c / 64 = ((b0 - 240) * 64 + (b1 - 128)) * 64 + (b2 - 128)) by (unfold c; Z.div_mod_to_equations; lia).
    assert (E4 : c mod 64 = b3 - 128) by (unfold c; Z.div_mod_to_equations; lia).
    rewrite E1, E2, E3, E4.
    assert (E5 : ((b0 - 240) * 64 + (b1 - 128)) mod 64 = b1 - 128) by (Z.div_mod_to_equations; lia).
    assert (E6 : (((b0 - 240) * 64 + (b1 - 128)) * 64 + (b2 - 128)) mod 64 = b2 - 128) by (Z.div_mod_to_equations; lia).
    rewrite E5, E6. f_equal; [lia|]. f_equal; [lia|]. f_equal; [lia|]. f_equal; lia.
Qed.

Lemma decode_rune_exact s c n :
  decode_rune s = Some (c, n) <-> (is_scalar c /\ n = length (utf8_enc c) /\ exists t, s = utf8_enc c ++ t).
Proof.
  split.
  - intros H. apply decode_rune_some in H as (bs & t & -> & <- & G).
    apply good_enc_unique in G as [Hs ->]. eauto.
  - intros (Hs & -> & t & ->). apply decode_rune_good, utf8_enc_good, Hs.
Qed.

(* well-formed UTF-8 = a concatenation of encodings of scalar values *)
Lemma valid_utf8_exact s :
  valid_utf8 s = true <-> exists cs, Forall is_scalar cs /\ s = flat_map utf8_enc cs.
Proof.
  split.
  - induction s as [|bs c t G IH|b r E IH] using utf8_ind; intros V.
    + exists []. split; [constructor | reflexivity].
    + rewrite (valid_good _ _ _ G) in V. destruct (IH V) as (cs & Hcs & ->).
      apply good_enc_unique in G as [Hs ->]. exists (c :: cs). split; [constructor; auto | reflexivity].
    + rewrite (valid_bad _ _ E) in V. discriminate.
  - intros (cs & Hcs & ->). induction Hcs as [|c cs Hc Hcs IH]; [reflexivity|].
    cbn [flat_map]. rewrite (valid_good _ c _ (utf8_enc_good c Hc)). exact IH.
Qed.
