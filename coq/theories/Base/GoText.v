(* Small executable models of the Go library text functions used by the GTID
   code of /repo/replication: strings.Split / SplitN / TrimSpace / Join,
   strconv.ParseInt / ParseUint / FormatInt / FormatUint (base 10) and
   encoding/hex Encode / Decode.  Definitions only; the lemmas relating them to
   the printers are in Proofs/GoTextProofs.v.  Each of these models is itself
   compared with the Go library by the correspondence check (C19). *)
From GB Require Import Base.Prelude Base.DecText.
Open Scope Z_scope.

(* ---- strings.Split(s, sep) for a one-byte separator: always >= 1 part ---- *)
Fixpoint split_on (sep : Z) (s : bytes) : list bytes :=
  match s with
  | [] => [[]]
  | c :: r =>
    if c =? sep then [] :: split_on sep r
    else match split_on sep r with
         | h :: t => (c :: h) :: t
         | [] => [[c]]                      (* not reachable: split_on never returns [] *)
         end
  end.

(* ---- strings.SplitN(s, sep, 2): cut at the first separator ---- *)
Fixpoint cut_at (sep : Z) (s : bytes) : option (bytes * bytes) :=
  match s with
  | [] => None
  | c :: r =>
    if c =? sep then Some ([], r)
    else match cut_at sep r with
         | Some (a, b) => Some (c :: a, b)
         | None => None
         end
  end.
Definition splitn2 (sep : Z) (s : bytes) : list bytes :=
  match cut_at sep s with Some (a, b) => [a; b] | None => [s] end.

(* ---- strings.Join ---- *)
Fixpoint join (sep : bytes) (l : list bytes) : bytes :=
  match l with
  | [] => []
  | [x] => x
  | x :: r => x ++ sep ++ join sep r
  end.

(* ---- strings.TrimSpace, ASCII white space only ('\t' '\n' '\v' '\f' '\r' ' ').
   Go additionally trims Unicode spaces (U+0085, U+00A0, ...) when a byte >= 0x80
   is met at either end; the model is exact on strings whose first and last
   non-ASCII-space bytes are < 0x80 (the harness stays inside this domain). ---- *)
Definition is_space (c : Z) : bool := (c =? 32) || ((9 <=? c) && (c <=? 13)).
Fixpoint trim_left (s : bytes) : bytes :=
  match s with
  | [] => []
  | c :: r => if is_space c then trim_left r else s
  end.
Definition trim_space (s : bytes) : bytes := rev (trim_left (rev (trim_left s))).

(* ---- strconv.ParseUint(s, 10, bits): no sign, no underscore, no prefix; empty -> error;
   value >= 2^bits -> range error.  Unbounded accumulation is equivalent to Go's
   cutoff test because every overflow is an error. ---- *)
Definition all_digits (s : bytes) : bool := forallb is_digitb s.
Definition parse_uint (bits : Z) (s : bytes) : res Z :=
  match s with
  | [] => Err EOther
  | _ => if all_digits s
         then (let v := dec_val s in if v <? 2 ^ bits then Ok v else Err EOther)
         else Err EOther
  end.

(* ---- strconv.ParseInt(s, 10, bits): optional leading '+' or '-', then ParseUint;
   range  -2^(bits-1) .. 2^(bits-1)-1 ---- *)
Definition parse_int (bits : Z) (s : bytes) : res Z :=
  match s with
  | [] => Err EOther
  | c :: r =>
    let neg := c =? 45 in
    let body := if (c =? 43) || (c =? 45) then r else s in
    match body with
    | [] => Err EOther
    | _ =>
      if all_digits body then
        let v := dec_val body in
        let cutoff := 2 ^ (bits - 1) in
        if neg then (if v <=? cutoff then Ok (- v) else Err EOther)
        else (if v <? cutoff then Ok v else Err EOther)
      else Err EOther
    end
  end.

(* ---- strconv.FormatInt(v, 10), fmt %d ---- *)
Definition format_uint (n : Z) : bytes := digs n.
Definition format_int (z : Z) : bytes := if z <? 0 then 45 :: digs (- z) else digs z.

(* ---- encoding/hex ---- *)
Definition hexdigit (n : Z) : Z := if n <? 10 then 48 + n else 87 + n.     (* "0123456789abcdef" *)
Fixpoint hex_encode (b : bytes) : bytes :=
  match b with
  | [] => []
  | x :: r => hexdigit (x / 16) :: hexdigit (x mod 16) :: hex_encode r
  end.

Definition from_hex_char (c : Z) : option Z :=
  if (48 <=? c) && (c <=? 57) then Some (c - 48)
  else if (97 <=? c) && (c <=? 102) then Some (c - 87)
  else if (65 <=? c) && (c <=? 70) then Some (c - 55)
  else None.

(* hex.Decode: odd length or a non-hex byte is an error *)
Fixpoint hex_decode (h : bytes) : res bytes :=
  match h with
  | [] => Ok []
  | [_] => Err EOther
  | a :: b :: r =>
    match from_hex_char a, from_hex_char b with
    | Some x, Some y => do t <- hex_decode r; Ok (x * 16 + y :: t)
    | _, _ => Err EOther
    end
  end.
