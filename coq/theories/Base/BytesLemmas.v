(* Lemmas about byte lists, endian codecs and the slicing primitives. *)
From GB Require Import Base.Prelude.
Open Scope Z_scope.

Lemma le_enc_length n : forall v, length (le_enc n v) = n.
Proof. induction n as [|n IH]; intros v; cbn [le_enc length]; auto. Qed.

Lemma be_enc_length n v : length (be_enc n v) = n.
Proof. unfold be_enc. rewrite rev_length. apply le_enc_length. Qed.

Lemma le_enc_wf n : forall v, wf_bytes (le_enc n v).
Proof.
  induction n as [|n IH]; intros v; cbn [le_enc]; [constructor|].
  constructor; [|apply IH]. unfold is_byte. apply Z.mod_pos_bound. lia.
Qed.

Lemma be_enc_wf n v : wf_bytes (be_enc n v).
Proof. unfold be_enc, wf_bytes. apply Forall_rev. apply le_enc_wf. Qed.

Lemma le_dec_enc n : forall v, 0 <= v < 256 ^ Z.of_nat n -> le_dec (le_enc n v) = v.
Proof.
  induction n as [|n IH]; intros v H.
  - simpl in H. cbn [le_enc le_dec]. lia.
  - cbn [le_enc le_dec]. rewrite IH.
    + pose proof (Z_div_mod_eq_full v 256). lia.
    + rewrite Nat2Z.inj_succ, Z.pow_succ_r in H by lia.
      split; [apply Z.div_pos; lia | apply Z.div_lt_upper_bound; lia].
Qed.

Lemma le_dec_bound l : wf_bytes l -> 0 <= le_dec l < 256 ^ len l.
Proof.
  unfold len. induction 1 as [|b l Hb Hl IH].
  - simpl. lia.
  - cbn [le_dec length]. rewrite Nat2Z.inj_succ, Z.pow_succ_r by lia.
    unfold is_byte in Hb. nia.
Qed.

Lemma le_enc_dec l : wf_bytes l -> le_enc (length l) (le_dec l) = l.
Proof.
  induction 1 as [|b l Hb Hl IH]; [reflexivity|].
  cbn [le_dec length le_enc]. unfold is_byte in Hb. f_equal.
  - replace (b + 256 * le_dec l) with (b + le_dec l * 256) by ring.
    rewrite Z.mod_add by lia. apply Z.mod_small; lia.
  - replace (b + 256 * le_dec l) with (b + le_dec l * 256) by ring.
    rewrite Z.div_add by lia. rewrite Z.div_small by lia. rewrite Z.add_0_l. exact IH.
Qed.

Lemma be_dec_acc_app a l1 l2 : be_dec_acc a (l1 ++ l2) = be_dec_acc (be_dec_acc a l1) l2.
Proof. revert a; induction l1 as [|b l1 IH]; intros a; cbn [app be_dec_acc]; auto. Qed.

Lemma be_dec_acc_shift l : forall a, be_dec_acc a l = a * 256 ^ len l + be_dec_acc 0 l.
Proof.
  unfold len. induction l as [|b l IH]; intros a.
  - cbn. lia.
  - cbn [be_dec_acc length]. rewrite IH, (IH (0 * 256 + b)).
    rewrite Nat2Z.inj_succ, Z.pow_succ_r by lia. ring.
Qed.

Lemma be_dec_rev l : be_dec (rev l) = le_dec l.
Proof.
  unfold be_dec. induction l as [|b l IH]; [reflexivity|].
  cbn [rev le_dec]. rewrite be_dec_acc_app, IH. cbn [be_dec_acc]. lia.
Qed.

Lemma be_dec_enc n v : 0 <= v < 256 ^ Z.of_nat n -> be_dec (be_enc n v) = v.
Proof. intros H. unfold be_enc. rewrite be_dec_rev. apply le_dec_enc; auto. Qed.

Lemma be_dec_bound l : wf_bytes l -> 0 <= be_dec l < 256 ^ len l.
Proof.
  intros H. rewrite <- (rev_involutive l), be_dec_rev.
  replace (len (rev (rev l))) with (len (rev l)) by (unfold len; rewrite !rev_length; auto).
  apply le_dec_bound. apply Forall_rev. auto.
Qed.

Lemma be_dec_app l1 l2 : be_dec (l1 ++ l2) = be_dec l1 * 256 ^ len l2 + be_dec l2.
Proof. unfold be_dec. rewrite be_dec_acc_app, be_dec_acc_shift. reflexivity. Qed.

Lemma le_dec_app l1 l2 : le_dec (l1 ++ l2) = le_dec l1 + 256 ^ len l1 * le_dec l2.
Proof.
  unfold len. induction l1 as [|b l1 IH]; cbn [app le_dec length].
  - lia.
  - rewrite IH, Nat2Z.inj_succ, Z.pow_succ_r by lia. ring.
Qed.

(* slicing *)
Lemma wf_app l1 l2 : wf_bytes (l1 ++ l2) <-> wf_bytes l1 /\ wf_bytes l2.
Proof. apply Forall_app. Qed.

Lemma skipn_app_exact {A} (l1 l2 : list A) : skipn (length l1) (l1 ++ l2) = l2.
Proof. induction l1; simpl; auto. Qed.

Lemma firstn_app_exact {A} (l1 l2 : list A) : firstn (length l1) (l1 ++ l2) = l1.
Proof. induction l1; simpl; f_equal; auto. Qed.

Lemma slice_app_mid pre mid rest n :
  n = length mid -> slice (pre ++ mid ++ rest) (length pre) n = Ok mid.
Proof.
  intros ->. unfold slice. rewrite !app_length.
  destruct (Nat.leb_spec (length pre + length mid) (length pre + (length mid + length rest))); [|lia].
  rewrite skipn_app_exact, firstn_app_exact. reflexivity.
Qed.

Lemma slice_ok d a n : (a + n <= length d)%nat -> slice d a n = Ok (firstn n (skipn a d)).
Proof. intros H. unfold slice. destruct (Nat.leb_spec (a + n) (length d)); [reflexivity|lia]. Qed.

Lemma at_app_mid pre b rest : at_ (pre ++ b :: rest) (length pre) = Ok b.
Proof.
  unfold at_. rewrite nth_error_app2 by lia. rewrite Nat.sub_diag. reflexivity.
Qed.

Lemma at_ok d p : (p < length d)%nat -> exists b, at_ d p = Ok b /\ nth_error d p = Some b.
Proof.
  intros H. unfold at_. destruct (nth_error d p) eqn:E.
  - eauto.
  - apply nth_error_None in E. lia.
Qed.

Lemma wf_firstn n l : wf_bytes l -> wf_bytes (firstn n l).
Proof.
  intros H. rewrite <- (firstn_skipn n l) in H. apply Forall_app in H as [H _]. exact H.
Qed.

Lemma wf_skipn n l : wf_bytes l -> wf_bytes (skipn n l).
Proof.
  intros H. rewrite <- (firstn_skipn n l) in H. apply Forall_app in H as [_ H]. exact H.
Qed.

Lemma wf_bytesb_ok l : wf_bytesb l = true <-> wf_bytes l.
Proof.
  unfold wf_bytesb, wf_bytes. rewrite forallb_forall, Forall_forall.
  unfold is_byteb, is_byte. split; intros H x Hx; specialize (H x Hx); lia.
Qed.
