(* Decimal text: the semantic reading of digit strings (dec_val) and the
   canonical printers (digs, pad0) with their characterising lemmas. *)
From GB Require Import Base.Prelude.
Open Scope Z_scope.

Definition is_digit (c : Z) : Prop := 48 <= c <= 57.
Definition is_digitb (c : Z) : bool := (48 <=? c) && (c <=? 57).

(* value denoted by a digit string, most significant first *)
Fixpoint dec_val_acc (acc : Z) (l : bytes) : Z :=
  match l with [] => acc | c :: r => dec_val_acc (acc * 10 + (c - 48)) r end.
Definition dec_val (l : bytes) : Z := dec_val_acc 0 l.

Fixpoint digs_fuel (fuel : nat) (n : Z) (acc : bytes) : bytes :=
  match fuel with
  | O => acc
  | S f => if n <? 10 then (48 + n) :: acc
           else digs_fuel f (n / 10) ((48 + n mod 10) :: acc)
  end.

(* canonical decimal text of a non-negative number *)
Definition digs (n : Z) : bytes := digs_fuel (S (Z.to_nat (Z.log2 n))) n [].

(* canonical decimal text of an integer *)
Definition digs_Z (z : Z) : bytes := if z <? 0 then 45 :: digs (- z) else digs z.

(* exactly k digits, most significant first (n < 10^k expected) *)
Fixpoint pad0_acc (k : nat) (n : Z) (acc : bytes) : bytes :=
  match k with O => acc | S k' => pad0_acc k' (n / 10) ((48 + n mod 10) :: acc) end.
Definition pad0 (k : nat) (n : Z) : bytes := pad0_acc k n [].

(* ---------- lemmas ---------- *)

Lemma dec_val_acc_app a l1 l2 : dec_val_acc a (l1 ++ l2) = dec_val_acc (dec_val_acc a l1) l2.
Proof. revert a; induction l1 as [|c l1 IH]; intros a; simpl; auto. Qed.

Lemma dec_val_app l1 l2 : dec_val (l1 ++ l2) = dec_val_acc (dec_val l1) l2.
Proof. apply dec_val_acc_app. Qed.

Lemma dec_val_snoc l c : dec_val (l ++ [c]) = dec_val l * 10 + (c - 48).
Proof. rewrite dec_val_app. reflexivity. Qed.

Lemma digs_fuel_acc f : forall n acc, digs_fuel f n acc = digs_fuel f n [] ++ acc.
Proof.
  induction f as [|f IH]; intros n acc; cbn [digs_fuel app]; auto.
  destruct (n <? 10); cbn [app]; auto.
  rewrite (IH (n / 10) ((48 + n mod 10) :: acc)).
  rewrite (IH (n / 10) [48 + n mod 10]). rewrite <- app_assoc. reflexivity.
Qed.

Lemma digs_fuel_enough f : forall g n acc,
  0 <= n -> n < 2 ^ Z.of_nat f -> n < 2 ^ Z.of_nat g -> (0 < f)%nat -> (0 < g)%nat ->
  digs_fuel f n acc = digs_fuel g n acc.
Proof.
  induction f as [|f IH]; intros g n acc Hn Hf Hg Hpf Hpg; [lia|].
  destruct g as [|g]; [lia|]. cbn [digs_fuel].
  destruct (n <? 10) eqn:E; auto.
  apply Z.ltb_ge in E.
  assert (Hdiv: forall k, n < 2 ^ Z.of_nat (S k) -> n / 10 < 2 ^ Z.of_nat k).
  { intros k Hk. rewrite Nat2Z.inj_succ, Z.pow_succ_r in Hk by lia.
    apply Z.div_lt_upper_bound; lia. }
  assert (Hpos: forall k, 10 <= n -> n < 2 ^ Z.of_nat (S k) -> (0 < k)%nat).
  { intros k H1 H2. destruct k; [simpl in H2; lia | lia]. }
  apply IH; auto; try (apply Z.div_pos; lia); try (eapply Hpos; eauto; fail).
Qed.

Lemma log2_fuel n : 0 <= n -> n < 2 ^ Z.of_nat (S (Z.to_nat (Z.log2 n))).
Proof.
  intros Hn. rewrite Nat2Z.inj_succ, Z2Nat.id by apply Z.log2_nonneg.
  destruct (Z.eq_dec n 0) as [->|Hz]; [reflexivity|].
  apply Z.log2_spec. lia.
Qed.

Lemma digs_small n : 0 <= n < 10 -> digs n = [48 + n].
Proof.
  intros H. unfold digs. simpl. destruct (n <? 10) eqn:E; auto. apply Z.ltb_ge in E. lia.
Qed.

Lemma digs_step n : 10 <= n -> digs n = digs (n / 10) ++ [48 + n mod 10].
Proof.
  intros H. unfold digs at 1. simpl.
  destruct (n <? 10) eqn:E; [apply Z.ltb_lt in E; lia|].
  rewrite digs_fuel_acc. f_equal.
  assert (H0 : 0 <= n / 10) by (apply Z.div_pos; lia).
  unfold digs.
  pose proof (log2_fuel n ltac:(lia)) as Hn.
  pose proof (log2_fuel (n/10) H0) as Hd.
  assert (Hlog : 1 <= Z.log2 n).
  { change 1 with (Z.log2 2). apply Z.log2_le_mono. lia. }
  apply digs_fuel_enough; try lia.
  rewrite Nat2Z.inj_succ, Z.pow_succ_r in Hn by lia.
  apply Z.div_lt_upper_bound; lia.
Qed.

(* strong induction on decimal structure *)
Lemma dec_ind (P : Z -> Prop) :
  (forall n, 0 <= n < 10 -> P n) ->
  (forall n, 10 <= n -> P (n / 10) -> P n) ->
  forall n, 0 <= n -> P n.
Proof.
  intros Hs Hb n Hn. pattern n.
  apply (Zlt_0_ind (fun n => P n)); auto.
  intros x IH Hx. destruct (Z_lt_ge_dec x 10) as [Hl|Hg].
  - apply Hs; lia.
  - apply Hb; [lia|]. apply IH. split; [apply Z.div_pos; lia|].
    apply Z.div_lt_upper_bound; lia.
Qed.

Lemma digs_val n : 0 <= n -> dec_val (digs n) = n.
Proof.
  intros Hn; pattern n; apply dec_ind; auto; clear n Hn.
  - intros n H. rewrite digs_small by auto. unfold dec_val; cbn [dec_val_acc]. lia.
  - intros n H IH. rewrite digs_step by auto. rewrite dec_val_snoc, IH.
    pose proof (Z_div_mod_eq_full n 10). lia.
Qed.

Lemma digs_digits n : 0 <= n -> Forall is_digit (digs n).
Proof.
  intros Hn; pattern n; apply dec_ind; auto; clear n Hn.
  - intros n H. rewrite digs_small by auto. constructor; [unfold is_digit; lia|constructor].
  - intros n H IH. rewrite digs_step by auto. apply Forall_app; split; auto.
    constructor; [|constructor]. unfold is_digit.
    pose proof (Z.mod_pos_bound n 10 ltac:(lia)). lia.
Qed.

Lemma digs_nonempty n : digs n <> [].
Proof.
  unfold digs. simpl. destruct (n <? 10); [discriminate|].
  rewrite digs_fuel_acc. intro H. apply app_eq_nil in H as [_ H]. discriminate.
Qed.

(* no leading zero except for the number 0 itself *)
Lemma digs_head n : 0 < n -> exists c r, digs n = c :: r /\ 49 <= c <= 57.
Proof.
  intros Hn. assert (H0 : 0 <= n) by lia. revert Hn. pattern n; apply dec_ind; auto; clear n H0.
  - intros n H Hp. rewrite digs_small by auto. exists (48 + n), []. split; auto. lia.
  - intros n H IH _. rewrite digs_step by auto.
    destruct IH as (c & r & E & Hc).
    { apply Z.div_str_pos; lia. }
    rewrite E. exists c, (r ++ [48 + n mod 10]). split; auto.
Qed.

Lemma digs_zero : digs 0 = [48].
Proof. reflexivity. Qed.

Lemma pad0_acc_app k : forall n acc, pad0_acc k n acc = pad0_acc k n [] ++ acc.
Proof.
  induction k as [|k IH]; intros n acc; cbn [pad0_acc app]; auto.
  rewrite (IH (n / 10) ((48 + n mod 10) :: acc)), (IH (n / 10) [48 + n mod 10]).
  rewrite <- app_assoc. reflexivity.
Qed.

Lemma pad0_S k n : pad0 (S k) n = pad0 k (n / 10) ++ [48 + n mod 10].
Proof. unfold pad0. cbn [pad0_acc]. apply pad0_acc_app. Qed.

Lemma pad0_length k : forall n, length (pad0 k n) = k.
Proof.
  induction k as [|k IH]; intros n; [reflexivity|].
  rewrite pad0_S, app_length, IH. simpl. lia.
Qed.

Lemma pad0_val k : forall n, 0 <= n < 10 ^ Z.of_nat k -> dec_val (pad0 k n) = n.
Proof.
  induction k as [|k IH]; intros n H.
  - simpl in H. unfold pad0, dec_val; simpl. lia.
  - rewrite pad0_S, dec_val_snoc, IH.
    + pose proof (Z_div_mod_eq_full n 10). lia.
    + rewrite Nat2Z.inj_succ, Z.pow_succ_r in H by lia.
      split; [apply Z.div_pos; lia | apply Z.div_lt_upper_bound; lia].
Qed.

Lemma pad0_digits k : forall n, 0 <= n -> Forall is_digit (pad0 k n).
Proof.
  induction k as [|k IH]; intros n H; [constructor|].
  rewrite pad0_S. apply Forall_app; split.
  - apply IH. apply Z.div_pos; lia.
  - constructor; [|constructor]. unfold is_digit.
    pose proof (Z.mod_pos_bound n 10 ltac:(lia)). lia.
Qed.

(* digs of a number at least 10^(k-1) and below 10^k equals its k-digit padding *)
Lemma pad0_digs k : forall n, (0 < k)%nat -> 10 ^ Z.of_nat (k - 1) <= n < 10 ^ Z.of_nat k ->
  pad0 k n = digs n.
Proof.
  induction k as [|k IH]; intros n Hk H; [lia|].
  destruct k as [|k].
  - simpl in H. rewrite digs_small by lia. unfold pad0. simpl.
    rewrite Z.mod_small by lia. reflexivity.
  - rewrite pad0_S.
    replace (S (S k) - 1)%nat with (S k) in H by lia.
    assert (H10 : 10 <= n).
    { rewrite Nat2Z.inj_succ, Z.pow_succ_r in H by lia.
      assert (1 <= 10 ^ Z.of_nat k) by (apply Z.pow_le_mono_r with (b:=0) (c:=Z.of_nat k); lia). lia. }
    rewrite digs_step by auto. f_equal. apply IH; [lia|].
    replace (S k - 1)%nat with k by lia.
    rewrite !Nat2Z.inj_succ, !Z.pow_succ_r in H by lia.
    rewrite Nat2Z.inj_succ, Z.pow_succ_r by lia.
    split; [apply Z.div_le_lower_bound; lia | apply Z.div_lt_upper_bound; lia].
Qed.

(* the concatenation law used by grouped encodings (DECIMAL's 9-digit groups) *)
Lemma digs_concat k : forall a b, 0 < a -> 0 <= b < 10 ^ Z.of_nat k ->
  digs (a * 10 ^ Z.of_nat k + b) = digs a ++ pad0 k b.
Proof.
  induction k as [|k IH]; intros a b Ha Hb.
  - simpl in Hb. assert (b = 0) by lia. subst. simpl. unfold pad0. simpl.
    rewrite app_nil_r. f_equal. lia.
  - rewrite Nat2Z.inj_succ, Z.pow_succ_r in * by lia.
    set (P := 10 ^ Z.of_nat k) in *.
    assert (HP : 0 < P) by (apply Z.pow_pos_nonneg; lia).
    rewrite digs_step by nia.
    rewrite pad0_S, app_assoc. f_equal.
    + replace ((a * (10 * P) + b) / 10) with (a * P + b / 10).
      * apply IH; auto. split; [apply Z.div_pos; lia | apply Z.div_lt_upper_bound; lia].
      * replace (a * (10 * P) + b) with (b + (a * P) * 10) by ring.
        rewrite Z.div_add by lia. ring.
    + f_equal. f_equal.
      replace (a * (10 * P) + b) with (b + (a * P) * 10) by ring.
      apply Z.mod_add. lia.
Qed.

Lemma pad0_concat j k a b : 0 <= b < 10 ^ Z.of_nat k ->
  pad0 (j + k) (a * 10 ^ Z.of_nat k + b) = pad0 j a ++ pad0 k b.
Proof.
  revert a b; induction k as [|k IH]; intros a b Hb.
  - simpl in Hb. assert (b = 0) by lia. subst. rewrite Nat.add_0_r. simpl.
    unfold pad0 at 3. simpl. rewrite app_nil_r. f_equal. lia.
  - replace (j + S k)%nat with (S (j + k)) by lia.
    rewrite Nat2Z.inj_succ, Z.pow_succ_r in * by lia.
    set (P := 10 ^ Z.of_nat k) in *.
    assert (HP : 0 < P) by (apply Z.pow_pos_nonneg; lia).
    rewrite !pad0_S, app_assoc. f_equal.
    + replace ((a * (10 * P) + b) / 10) with (a * P + b / 10).
      * apply IH. split; [apply Z.div_pos; lia | apply Z.div_lt_upper_bound; lia].
      * replace (a * (10 * P) + b) with (b + (a * P) * 10) by ring.
        rewrite Z.div_add by lia. ring.
    + f_equal. f_equal.
      replace (a * (10 * P) + b) with (b + (a * P) * 10) by ring.
      apply Z.mod_add. lia.
Qed.
