(* Interchange values between the Go harness and the extracted model:
   one S-expression per line.  This is glue for the correspondence check;
   nothing here is used by a theorem. *)
From GB Require Import Base.Prelude Base.DecText.
From Coq Require Import String.
Open Scope Z_scope.

Inductive val := A (a : bytes) | L (l : list val).

Definition flush (atom : option bytes) (cur : list val) : list val :=
  match atom with Some a => A (rev_append a []) :: cur | None => cur end.

Fixpoint parse_go (inp : bytes) (atom : option bytes) (cur : list val)
         (stack : list (list val)) : option (list val) :=
  match inp with
  | [] => match stack with [] => Some (rev_append (flush atom cur) []) | _ => None end
  | c :: r =>
    if c =? 40 then parse_go r None [] (flush atom cur :: stack)
    else if c =? 41 then
      match stack with
      | [] => None
      | p :: st => parse_go r None (L (rev_append (flush atom cur) []) :: p) st
      end
    else if (c =? 32) || (c =? 10) || (c =? 9) || (c =? 13) then
      parse_go r None (flush atom cur) stack
    else parse_go r (Some (c :: match atom with Some a => a | None => [] end)) cur stack
  end.

Definition parse_line (inp : bytes) : option (list val) := parse_go inp None [] [].

Fixpoint print_acc (v : val) (acc : bytes) : bytes :=
  match v with
  | A a => a ++ acc
  | L l =>
    40 :: (fix go (l : list val) (acc : bytes) : bytes :=
             match l with
             | [] => acc
             | [x] => print_acc x acc
             | x :: r => print_acc x (32 :: go r acc)
             end) l (41 :: acc)
  end.
Definition print_val (v : val) : bytes := print_acc v [].

(* ---- atoms ---- *)
Definition hexdig (n : Z) : Z := if n <? 10 then 48 + n else 87 + n.
Fixpoint hex_of (b : bytes) : bytes :=
  match b with [] => [] | x :: r => hexdig (x / 16) :: hexdig (x mod 16) :: hex_of r end.
Definition unhexdig (c : Z) : option Z :=
  if (48 <=? c) && (c <=? 57) then Some (c - 48)
  else if (97 <=? c) && (c <=? 102) then Some (c - 87)
  else if (65 <=? c) && (c <=? 70) then Some (c - 55) else None.
Fixpoint unhex (h : bytes) : option bytes :=
  match h with
  | [] => Some []
  | a :: b :: r =>
    match unhexdig a, unhexdig b, unhex r with
    | Some x, Some y, Some t => Some (x * 16 + y :: t)
    | _, _, _ => None
    end
  | _ => None
  end.

Definition vsym (s : string) : val := A (str s).
Definition vint (z : Z) : val := A (digs_Z z).
Definition vnat (n : nat) : val := A (digs (Z.of_nat n)).
Definition vhex (b : bytes) : val := A (120 :: hex_of b).           (* x<hex> *)
Definition vbool (b : bool) : val := A (if b then [49] else [48]).
Definition vopt_hex (o : option bytes) : val :=
  match o with Some b => vhex b | None => vsym "nil"%string end.

Definition as_int (v : val) : option Z :=
  match v with
  | A (45 :: d) => if forallb is_digitb d && negb (Nat.eqb (List.length d) 0) then Some (- dec_val d) else None
  | A d => if forallb is_digitb d && negb (Nat.eqb (List.length d) 0) then Some (dec_val d) else None
  | _ => None
  end.
Definition as_nat (v : val) : option nat :=
  match as_int v with Some z => if 0 <=? z then Some (Z.to_nat z) else None | None => None end.
Definition as_hex (v : val) : option bytes :=
  match v with A (120 :: h) => unhex h | _ => None end.
Definition as_bool (v : val) : option bool :=
  match v with A [49] => Some true | A [48] => Some false | _ => None end.
Definition as_list (v : val) : option (list val) :=
  match v with L l => Some l | _ => None end.
Definition is_sym (s : string) (v : val) : bool :=
  match v with A a => bytes_eqb a (str s) | _ => false end.

Fixpoint map_opt {X Y} (f : X -> option Y) (l : list X) : option (list Y) :=
  match l with
  | [] => Some []
  | x :: r => match f x, map_opt f r with Some y, Some t => Some (y :: t) | _, _ => None end
  end.

Definition errc_name (c : errc) : string :=
  match c with
  | EUnsupportedType => "unsupported_type"%string | EBlobMeta => "blob_meta"%string | EEnumSize => "enum_size"%string
  | EJson => "json"%string | ETooSmall => "too_small"%string | ETooLarge => "too_large"%string
  | EMetaEnd => "meta_end"%string | EMetaType => "meta_type"%string
  | EFormatVersion => "format_version"%string | EHeaderLength => "header_length"%string
  | ERotateShort => "rotate_short"%string | EQueryOverflow => "query_overflow"%string | EQueryVar => "query_var"%string
  | EIntVarId => "intvar_id"%string | EChecksumAlg => "checksum_alg"%string
  | EOutOfFuel => "out_of_fuel"%string | EOther => "other"%string
  end.

Definition vres {X} (f : X -> list val) (r : res X) : val :=
  match r with
  | Ok a => L (vsym "ok"%string :: f a)
  | Err c => L [vsym "err"%string; vsym (errc_name c)]
  | Panic => L [vsym "panic"%string]
  end.
