(* Proleptic Gregorian calendar arithmetic (civil date <-> day number since 1970-01-01). *)
From GB Require Import Base.Prelude.
Open Scope Z_scope.

Definition civil_of_days (days : Z) : Z * Z * Z :=
  let z := days + 719468 in
  let era := z / 146097 in
  let doe := z - era * 146097 in
  let yoe := (doe - doe / 1460 + doe / 36524 - doe / 146096) / 365 in
  let y := yoe + era * 400 in
  let doy := doe - (365 * yoe + yoe / 4 - yoe / 100) in
  let mp := (5 * doy + 2) / 153 in
  let d := doy - (153 * mp + 2) / 5 + 1 in
  let m := if mp <? 10 then mp + 3 else mp - 9 in
  ((if m <=? 2 then y + 1 else y), m, d).

Definition days_of_civil (y m d : Z) : Z :=
  let y' := if m <=? 2 then y - 1 else y in
  let era := y' / 400 in
  let yoe := y' - era * 400 in
  let mp := if m >? 2 then m - 3 else m + 9 in
  let doy := (153 * mp + 2) / 5 + d - 1 in
  let doe := yoe * 365 + yoe / 4 - yoe / 100 + doy in
  era * 146097 + doe - 719468.

Definition is_leap (y : Z) : bool :=
  ((y mod 4 =? 0) && negb (y mod 100 =? 0)) || (y mod 400 =? 0).

Definition days_in_month (y m : Z) : Z :=
  if m =? 2 then (if is_leap y then 29 else 28)
  else if (m =? 4) || (m =? 6) || (m =? 9) || (m =? 11) then 30 else 31.

Definition valid_civil (y m d : Z) : bool :=
  (1 <=? m) && (m <=? 12) && (1 <=? d) && (d <=? days_in_month y m).
