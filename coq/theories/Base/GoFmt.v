(* Model of the Go formatting verbs the code uses on integers
   (fmt: %d %v %0Nd %Nd %.Nd; strconv.AppendInt/AppendUint base 10).
   The model is differentially checked against the implementation; the
   specification side uses DecText (digs, pad0) independently. *)
From GB Require Import Base.Prelude Base.DecText.
Open Scope Z_scope.

Definition lpad (c : Z) (w : nat) (s : bytes) : bytes := repeat c (w - length s) ++ s.

(* %d, %v, strconv.AppendInt / AppendUint *)
Definition fmt_d (v : Z) : bytes := digs_Z v.
(* %0Nd : sign first, then zero padding up to total width N *)
Definition fmt_0d (w : nat) (v : Z) : bytes :=
  if v <? 0 then 45 :: lpad 48 (w - 1) (digs (- v)) else lpad 48 w (digs v).
(* %Nd : space padding on the left up to width N *)
Definition fmt_sd (w : nat) (v : Z) : bytes := lpad 32 w (digs_Z v).
(* %.Nd : at least N digits *)
Definition fmt_pd (p : nat) (v : Z) : bytes :=
  if v <? 0 then 45 :: lpad 48 p (digs (- v)) else lpad 48 p (digs v).
