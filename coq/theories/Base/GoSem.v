(* Semantics of the Go operations the translator (harness/cmd/gotrans) emits.
   gen/Trans.v is generated from the Go sources of /repo and uses only these
   definitions and Prelude; Proofs/TransEquiv.v proves each generated function
   equal to the hand-written model function the property theorems are about.

   Conventions: Go integers are Z values kept inside the range of their static
   type by the wrap functions u8..u64 / i8..i64 of Prelude (int = int64);
   []byte and string are `bytes`; a Go run-time panic is the outcome `Panic`;
   a non-nil error result is `Err EOther` (the generated code does not model
   error values, only that an error is returned). *)
From GB Require Import Base.Prelude.
Open Scope Z_scope.

(* d[i] *)
Definition go_idx (d : bytes) (i : Z) : res Z :=
  if i <? 0 then Panic else at_ d (Z.to_nat i).

(* d[a:b], d[a:], d[:b]  (capacity = length) *)
Definition go_slice (d : bytes) (a b : Z) : res bytes :=
  if (a <? 0) || (b <? a) then Panic else slice d (Z.to_nat a) (Z.to_nat (b - a)).
Definition go_slice_from (d : bytes) (a : Z) : res bytes :=
  if a <? 0 then Panic else slice_from d (Z.to_nat a).
Definition go_slice_to (d : bytes) (b : Z) : res bytes := go_slice d 0 b.

(* binary.LittleEndian.UintN(b), binary.BigEndian.UintN(b): panic when b is shorter than N/8 bytes *)
Definition go_le (b : bytes) (n : nat) : res Z :=
  if (n <=? length b)%nat then Ok (le_dec (firstn n b)) else Panic.
Definition go_be (b : bytes) (n : nat) : res Z :=
  if (n <=? length b)%nat then Ok (be_dec (firstn n b)) else Panic.

(* x << n at a type with wrap function w; x >> n (arithmetic for signed, logical for unsigned: both floor) *)
Definition go_shl (w : Z -> Z) (x n : Z) : Z := w (x * 2 ^ n).
Definition go_shr (x n : Z) : Z := x / 2 ^ n.

(* x / y and x % y truncate toward zero and panic on a zero divisor *)
Definition go_quot (x y : Z) : res Z := if y =? 0 then Panic else Ok (Z.quot x y).
Definition go_rem (x y : Z) : res Z := if y =? 0 then Panic else Ok (Z.rem x y).

(* results agree up to the identity of the error *)
Definition res_sim {A} (x y : res A) : Prop :=
  match x, y with
  | Ok a, Ok b => a = b
  | Err _, Err _ => True
  | Panic, Panic => True
  | _, _ => False
  end.

(* bytes.TrimRight(s, cutset): drop the trailing bytes that occur in cutset *)
Fixpoint drop_while_in (cut : bytes) (l : bytes) : bytes :=
  match l with
  | c :: r => if existsb (Z.eqb c) cut then drop_while_in cut r else l
  | [] => []
  end.
Definition go_trim_right (s cut : bytes) : bytes := rev (drop_while_in cut (rev s)).

(* make([]T, n) of zeros; xs[i] = v *)
Definition go_make (n : Z) : res (list Z) := if n <? 0 then Panic else Ok (repeat 0 (Z.to_nat n)).
Fixpoint list_upd (l : list Z) (i : nat) (v : Z) : option (list Z) :=
  match l, i with
  | [], _ => None
  | _ :: r, O => Some (v :: r)
  | x :: r, S k => match list_upd r k v with Some r' => Some (x :: r') | None => None end
  end.
Definition go_upd (l : list Z) (i v : Z) : res (list Z) :=
  if i <? 0 then Panic else match list_upd l (Z.to_nat i) v with Some l' => Ok l' | None => Panic end.

(* copy(dst, src): the first min(len dst, len src) bytes of dst are replaced, its length is unchanged *)
Definition go_copy (dst src : list Z) : list Z :=
  firstn (length dst) src ++ skipn (length src) dst.
