(* Specification side: what the master writes as the common 19-byte header. *)
From GB Require Import Base.Prelude.
Open Scope Z_scope.

Record hdr := { h_ts : Z; h_type : Z; h_sid : Z; h_next : Z; h_flags : Z }.

Definition wf_hdr (h : hdr) : Prop :=
  0 <= h_ts h < 2 ^ 32 /\ 0 <= h_type h < 256 /\ 0 <= h_sid h < 2 ^ 32 /\
  0 <= h_next h < 2 ^ 32 /\ 0 <= h_flags h < 2 ^ 16.

(* header carrying an explicit total length field *)
Definition enc_header_len (h : hdr) (total : Z) : bytes :=
  le_enc 4 (h_ts h) ++ [h_type h] ++ le_enc 4 (h_sid h) ++ le_enc 4 total ++
  le_enc 4 (h_next h) ++ le_enc 2 (h_flags h).

(* a complete event: header (with the true total length) followed by its body *)
Definition enc_event (h : hdr) (body : bytes) : bytes :=
  enc_header_len h (19 + len body) ++ body.

(* the exact set of buffers the validity gate must accept *)
Definition spec_is_valid (ev : bytes) : bool :=
  (19 <=? len ev) && (le_dec (firstn 4 (skipn 9 ev)) =? len ev).
