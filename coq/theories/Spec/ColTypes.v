(* Column types of row images and the pieces of the cell specification that do not mention cell values:
   type codes and metadata (code_of, meta_of, wf_type), DECIMAL (decimal2bin: enc_decimal, text_decimal,
   wf_decimalb) and the temporal layouts / texts.  Shared by Spec/EncJson.v (opaque DECIMAL / TIME / DATETIME
   values inside JSON documents) and Spec/Values.v (which re-exports this file). *)
From Coq Require Import String.
From GB Require Import Base.Prelude Base.DecText Base.Calendar.
Open Scope Z_scope.

Inductive coltype :=
| TTiny | TShort | TInt24 | TLong | TLongLong
| TFloat | TDouble | TYear
| TBit (nbits : Z)
| TEnum (w : Z) (bare : bool)
| TSet (w : Z) (bare : bool)
| TNewDecimal (p s : Z)
| TDate (newdate : bool) | TTime | TDateTime | TTimestamp
| TTimestamp2 (f : Z) | TDateTime2 (f : Z) | TTime2 (f : Z)
| TVarchar (max : Z) (varstring : bool)
| TChar (max : Z)
| TBlob (lb : Z) (code : Z)
| TGeometry (lb : Z)
| TJson (lb : Z).

Definition code_of (ty : coltype) : Z :=
  match ty with
  | TTiny => 1 | TShort => 2 | TInt24 => 9 | TLong => 3 | TLongLong => 8
  | TFloat => 4 | TDouble => 5 | TYear => 13
  | TBit _ => 16
  | TEnum _ bare => if bare then 247 else 254
  | TSet _ bare => if bare then 248 else 254
  | TNewDecimal _ _ => 246
  | TDate nd => if nd then 14 else 10
  | TTime => 11 | TDateTime => 12 | TTimestamp => 7
  | TTimestamp2 _ => 17 | TDateTime2 _ => 18 | TTime2 _ => 19
  | TVarchar _ vs => if vs then 253 else 15
  | TChar _ => 254
  | TBlob _ c => c
  | TGeometry _ => 255
  | TJson _ => 245
  end.

(* metadata value as the consumer reconstructs it from the table map *)
Definition meta_of (ty : coltype) : Z :=
  match ty with
  | TBit n => (n / 8) * 256 + n mod 8
  | TEnum w _ => 247 * 256 + w
  | TSet w _ => 248 * 256 + w
  | TNewDecimal p s => p * 256 + s
  | TTimestamp2 f | TDateTime2 f | TTime2 f => f
  | TVarchar max _ => max
  | TChar max => (Z.lxor 254 (Z.land max 768 / 16)) * 256 + Z.land max 255
  | TBlob lb _ | TGeometry lb | TJson lb => lb
  | TFloat => 4 | TDouble => 8
  | _ => 0
  end.

Definition wf_type (ty : coltype) : bool :=
  match ty with
  | TBit n => (1 <=? n) && (n <=? 64)
  | TEnum w _ => (1 <=? w) && (w <=? 2)
  | TSet w _ => (1 <=? w) && (w <=? 8)
  | TNewDecimal p s => (1 <=? p) && (p <=? 65) && (0 <=? s) && (s <=? 30) && (s <=? p)
  | TTimestamp2 f | TDateTime2 f | TTime2 f => (0 <=? f) && (f <=? 6)
  | TVarchar max _ => (0 <=? max) && (max <=? 65535)
  | TChar max => (0 <=? max) && (max <=? 1023)
  | TBlob lb c => (1 <=? lb) && (lb <=? 4) && (249 <=? c) && (c <=? 252)
  | TGeometry lb | TJson lb => (1 <=? lb) && (lb <=? 4)
  | _ => true
  end.

Definition int_width (ty : coltype) : Z :=
  match ty with TTiny => 1 | TShort => 2 | TInt24 => 3 | TLong => 4 | TLongLong => 8 | _ => 0 end.

Definition frac_bytes (f : Z) : Z := (f + 1) / 2.
(* stored fractional value: odd precisions are stored with one more (zero) digit *)
Definition frac_store (f fr : Z) : Z := if Z.odd f then fr * 10 else fr.

Definition digitsb (l : list Z) : bool := forallb (fun c => (0 <=? c) && (c <=? 9)) l.

(* a DECIMAL(p,s) value: sign, p - s integer digits, s fraction digits; there is no negative zero *)
Definition wf_decimalb (p s : Z) (neg : bool) (ip fp : list Z) : bool :=
  digitsb ip && digitsb fp && (len ip =? p - s) && (len fp =? s) &&
  (negb neg || negb (forallb (Z.eqb 0) (ip ++ fp))).

(* ---- DECIMAL (decimal2bin) ---- *)
Definition dig2bytes_spec (k : Z) : Z :=           (* bytes needed for k leftover digits *)
  match k with 0 => 0 | 1 | 2 => 1 | 3 | 4 => 2 | 5 | 6 => 3 | _ => 4 end.

Definition digits_val (l : list Z) : Z :=          (* value of a list of digit values *)
  fold_left (fun a c => a * 10 + c) l 0.

Fixpoint groups9 (n : nat) (l : list Z) : bytes :=  (* n full groups of 9 digits, 4 bytes big endian each *)
  match n with
  | O => []
  | S k => be_enc 4 (digits_val (firstn 9 l)) ++ groups9 k (skipn 9 l)
  end.

Definition enc_decimal_raw (p s : Z) (ip fp : list Z) : bytes :=
  let intg := p - s in
  let i0 := intg / 9 in let ix := intg mod 9 in
  let f0 := s / 9 in let fx := s mod 9 in
  be_enc (Z.to_nat (dig2bytes_spec ix)) (digits_val (firstn (Z.to_nat ix) ip)) ++
  groups9 (Z.to_nat i0) (skipn (Z.to_nat ix) ip) ++
  groups9 (Z.to_nat f0) fp ++
  be_enc (Z.to_nat (dig2bytes_spec fx)) (digits_val (skipn (Z.to_nat (f0 * 9)) fp)).

Definition enc_decimal (p s : Z) (neg : bool) (ip fp : list Z) : bytes :=
  match enc_decimal_raw p s ip fp with
  | [] => []
  | b0 :: r =>
    let pos := Z.lxor b0 128 :: r in
    if neg then map (fun b => Z.lxor b 255) pos else pos
  end.

Fixpoint strip0 (l : list Z) : list Z :=
  match l with 0 :: r => strip0 r | _ => l end.
Definition digit_chars (l : list Z) : bytes := map (fun c => 48 + c) l.

Definition text_decimal (neg : bool) (ip fp : list Z) : bytes :=
  (if neg then [45] else []) ++
  (match strip0 ip with [] => [48] | l => digit_chars l end) ++
  (match fp with [] => [] | _ => 46 :: digit_chars fp end).

(* ---- temporal ---- *)
Definition enc_frac (f fr : Z) : bytes := be_enc (Z.to_nat (frac_bytes f)) (frac_store f fr).
Definition text_frac (f fr : Z) : bytes := if f =? 0 then [] else 46 :: pad0 (Z.to_nat f) fr.
Definition text_hour (h : Z) : bytes := if h <? 100 then pad0 2 h else digs h.
Definition text_date (y m d : Z) : bytes := pad0 4 y ++ [45] ++ pad0 2 m ++ [45] ++ pad0 2 d.
Definition text_clock (h mi s : Z) : bytes := pad0 2 h ++ [58] ++ pad0 2 mi ++ [58] ++ pad0 2 s.

Definition enc_time2 (f : Z) (neg : bool) (h mi s fr : Z) : bytes :=
  let hms := h * 4096 + mi * 64 + s in
  let fs := frac_store f fr in
  let nb := frac_bytes f in
  let '(ip, fb) := if neg then (- hms - (if fs =? 0 then 0 else 1), if fs =? 0 then 0 else 256 ^ nb - fs)
                   else (hms, fs) in
  be_enc 3 (8388608 + ip) ++ be_enc (Z.to_nat nb) fb.
