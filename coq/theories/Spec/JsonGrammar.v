(* The grammar of RFC 8259 as an inductive predicate on byte strings (the text
   is additionally required to be UTF-8, section 8.1).  Declarative: no
   function of the development is used except the UTF-8 validity predicate.
   Definitions only. *)
From GB Require Import Base.Prelude Base.Utf8.
Open Scope Z_scope.

(* section 2: ws = *( %x20 / %x09 / %x0A / %x0D ) *)
Definition g_wsc (c : Z) : Prop := c = 32 \/ c = 9 \/ c = 10 \/ c = 13.
Definition g_ws (s : bytes) : Prop := Forall g_wsc s.

Definition g_digit (c : Z) : Prop := 48 <= c <= 57.
Definition g_hexdig (c : Z) : Prop := 48 <= c <= 57 \/ 65 <= c <= 70 \/ 97 <= c <= 102.

(* section 6: number = [ minus ] int [ frac ] [ exp ] *)
Definition g_int (s : bytes) : Prop :=
  s = [48] \/ exists d r, s = d :: r /\ 49 <= d <= 57 /\ Forall g_digit r.
Definition g_frac (s : bytes) : Prop :=
  s = [] \/ exists ds, s = 46 :: ds /\ ds <> [] /\ Forall g_digit ds.
Definition g_exp (s : bytes) : Prop :=
  s = [] \/ exists e sg ds, s = e :: sg ++ ds /\ (e = 101 \/ e = 69) /\ (sg = [] \/ sg = [45] \/ sg = [43]) /\
                            ds <> [] /\ Forall g_digit ds.
Definition g_number (s : bytes) : Prop :=
  exists m i f e, s = m ++ i ++ f ++ e /\ (m = [] \/ m = [45]) /\ g_int i /\ g_frac f /\ g_exp e.

(* section 7: char = unescaped / escape ( quote / backslash / slash / b / f / n / r / t / uXXXX ).
   unescaped = %x20-21 / %x23-5B / %x5D-10FFFF; on UTF-8 bytes: any byte >= 0x20 other than the quote and the
   backslash (bytes >= 0x80 are the encodings of the code points above 0x7F, the text being valid UTF-8) *)
Inductive g_chars : bytes -> Prop :=
| gc_nil : g_chars []
| gc_plain c r : 32 <= c -> c <> 34 -> c <> 92 -> g_chars r -> g_chars (c :: r)
| gc_esc e r : (e = 34 \/ e = 92 \/ e = 47 \/ e = 98 \/ e = 102 \/ e = 110 \/ e = 114 \/ e = 116) ->
               g_chars r -> g_chars (92 :: e :: r)
| gc_u h1 h2 h3 h4 r : g_hexdig h1 -> g_hexdig h2 -> g_hexdig h3 -> g_hexdig h4 ->
               g_chars r -> g_chars (92 :: 117 :: h1 :: h2 :: h3 :: h4 :: r).

Definition g_string (s : bytes) : Prop := exists cs, s = 34 :: cs ++ [34] /\ g_chars cs.

(* sections 3-5: value, array = [ ws ] / [ elements ], object = { ws } / { members };
   element = ws value ws, member = ws string ws : ws value ws *)
Inductive g_value : bytes -> Prop :=
| gv_null : g_value [110; 117; 108; 108]
| gv_true : g_value [116; 114; 117; 101]
| gv_false : g_value [102; 97; 108; 115; 101]
| gv_number s : g_number s -> g_value s
| gv_string s : g_string s -> g_value s
| gv_array_empty w : g_ws w -> g_value (91 :: w ++ [93])
| gv_array s : g_elements s -> g_value (91 :: s ++ [93])
| gv_object_empty w : g_ws w -> g_value (123 :: w ++ [125])
| gv_object s : g_members s -> g_value (123 :: s ++ [125])
with g_elements : bytes -> Prop :=
| ge_one w1 v w2 : g_ws w1 -> g_value v -> g_ws w2 -> g_elements (w1 ++ v ++ w2)
| ge_more w1 v w2 r : g_ws w1 -> g_value v -> g_ws w2 -> g_elements r -> g_elements (w1 ++ v ++ w2 ++ 44 :: r)
with g_members : bytes -> Prop :=
| gm_one w1 k w2 w3 v w4 : g_ws w1 -> g_string k -> g_ws w2 -> g_ws w3 -> g_value v -> g_ws w4 ->
    g_members (w1 ++ k ++ w2 ++ 58 :: w3 ++ v ++ w4)
| gm_more w1 k w2 w3 v w4 r : g_ws w1 -> g_string k -> g_ws w2 -> g_ws w3 -> g_value v -> g_ws w4 -> g_members r ->
    g_members (w1 ++ k ++ w2 ++ 58 :: w3 ++ v ++ w4 ++ 44 :: r).

(* section 2 and 8.1: JSON-text = ws value ws, UTF-8 *)
Definition json_text (s : bytes) : Prop :=
  valid_utf8 s = true /\ exists w1 v w2, s = w1 ++ v ++ w2 /\ g_ws w1 /\ g_value v /\ g_ws w2.
