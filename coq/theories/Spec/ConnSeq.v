(* ConnSeq.v — the sequential view of one stream attempt, in the terms C04's `attempt` uses:
   "the parser consumed the first k events handed over and stopped with cause c".
   Given the consumed events and the stop cause, this is what the handler must have seen
   and what Stream must have returned.  Independent of the transition system. *)
From GB Require Import Base.Prelude Model.Conn.
Open Scope nat_scope.

Definition tx_events (l : list event) : list event := filter ev_tx l.
Definition oks (l : list event) : list (event * bool) := map (fun e => (e, true)) l.

(* every call accepted, except the last one *)
Fixpoint fail_last (l : list event) : list (event * bool) :=
  match l with
  | [] => []
  | e :: r => match r with [] => [(e, false)] | _ => (e, true) :: fail_last r end
  end.

(* handler log of a sequential parser that took `evs` and stopped with `cz` *)
Definition seq_log (evs : list event) (cz : stopcause) : list (event * bool) :=
  match cz with
  | CHandlerErr => fail_last (tx_events evs)            (* the last event completed a transaction, refused *)
  | CBad => oks (tx_events (removelast evs))            (* the last event taken was rejected before any delivery *)
  | _ => oks (tx_events evs)
  end.

Definition result_of (cz : stopcause) : sres :=
  match cz with CClosed | CCancel => RNil | _ => RErr end.
