(* Specification side of C20: what a consumer must be able to read back from
   the JSON of a transaction (the abstract view), the projection functions that
   read it from a JSON tree by key, and the UTF-8 sanitisation of a
   transaction.  Definitions only. *)
From GB Require Import Base.Prelude Base.Utf8 Spec.JsonTree Model.Marshal.
From GBGen Require Import Consts.
From Coq Require Import String.
Open Scope Z_scope.

(* ---- the abstract view ---- *)
Record col_view := {
  cv_name : bytes;                 (* column name *)
  cv_type : bytes;                 (* type name *)
  cv_absent : bool;                (* absent flag (IsEmpty) *)
  cv_data : option bytes           (* None = SQL NULL, Some [] = empty string *)
}.

Definition row_view := option (list (option col_view)).     (* Columns: nil slice / columns (nil pointers possible) *)

Inductive body_view :=
| BSql (sql : bytes)
| BRows (values ids : option (list (option row_view))).

Record ev_view := {
  ev_db : bytes; ev_table : bytes;
  ev_kind : bytes;                 (* statement type name *)
  ev_time : bytes;
  ev_body : body_view
}.

Record tx_view := {
  tv_now : bytes * Z;
  tv_next : bytes * Z;
  tv_time : bytes;
  tv_events : option (list (option ev_view))
}.

(* names by table, "unknown" for a code that is not in the table *)
Definition name_of (tbl : list (Z * bytes)) (k : Z) : bytes :=
  match find (fun kv => fst kv =? k) tbl with
  | Some kv => snd kv
  | None => str "unknown"
  end.

Definition omap {X Y} (f : X -> Y) (o : option X) : option Y :=
  match o with Some x => Some (f x) | None => None end.

Definition view_col (c : column) : col_view :=
  {| cv_name := c_filed c; cv_type := name_of columnTypeStrings (c_type c);
     cv_absent := c_isEmpty c; cv_data := c_data c |}.

Definition view_row (r : rowdata) : row_view := omap (map (omap view_col)) (r_columns r).

Definition view_rows (o : option (list (option rowdata))) : option (list (option row_view)) :=
  omap (map (omap view_row)) o.

Section WithTime.
Variable tsfmt : Z -> bytes.

Definition view_event (e : streamevent) : ev_view :=
  {| ev_db := t_db (e_table e); ev_table := t_table (e_table e);
     ev_kind := name_of statementStrings (e_type e);
     ev_time := tsfmt (e_timestamp e);
     ev_body := if bytes_eqb (e_sql e) [] then BRows (view_rows (e_rowValues e)) (view_rows (e_rowIdentifies e))
                else BSql (e_sql e) |}.

Definition abstract_view (t : transaction) : tx_view :=
  {| tv_now := (p_filename (x_now t), p_offset (x_now t));
     tv_next := (p_filename (x_next t), p_offset (x_next t));
     tv_time := tsfmt (x_timestamp t);
     tv_events := omap (map (omap view_event)) (x_events t) |}.
End WithTime.

(* ---- reading the view back from a JSON tree ---- *)
Fixpoint jget (k : bytes) (l : list (bytes * jvalue)) : option jvalue :=
  match l with
  | [] => None
  | (k', v) :: r => if bytes_eqb k k' then Some v else jget k r
  end.

Fixpoint all_some {X} (l : list (option X)) : option (list X) :=
  match l with
  | [] => Some []
  | Some x :: r => match all_some r with Some t => Some (x :: t) | None => None end
  | None :: _ => None
  end.

(* null -> nil pointer *)
Definition proj_ptr {X} (f : jvalue -> option X) (j : jvalue) : option (option X) :=
  match j with JNull => Some None | _ => omap Some (f j) end.

(* null -> nil slice, array -> slice *)
Definition proj_slice {X} (f : jvalue -> option X) (j : jvalue) : option (option (list X)) :=
  match j with
  | JNull => Some None
  | JArr l => omap Some (all_some (map f l))
  | _ => None
  end.

Definition project_col (j : jvalue) : option col_view :=
  match j with
  | JObj l =>
    match jget (str "filed") l, jget (str "type") l, jget (str "isEmpty") l, jget (str "data") l with
    | Some (JStr n), Some (JStr ty), Some (JBool e), Some JNull =>
      Some {| cv_name := n; cv_type := ty; cv_absent := e; cv_data := None |}
    | Some (JStr n), Some (JStr ty), Some (JBool e), Some (JStr d) =>
      Some {| cv_name := n; cv_type := ty; cv_absent := e; cv_data := Some d |}
    | _, _, _, _ => None
    end
  | _ => None
  end.

Definition project_row (j : jvalue) : option row_view :=
  match j with
  | JObj l => match jget (str "Columns") l with
              | Some c => proj_slice (proj_ptr project_col) c
              | None => None
              end
  | _ => None
  end.

Definition project_rows (j : jvalue) : option (option (list (option row_view))) :=
  proj_slice (proj_ptr project_row) j.

Definition project_event (j : jvalue) : option ev_view :=
  match j with
  | JObj l =>
    match jget (str "name") l, jget (str "type") l, jget (str "timestamp") l with
    | Some (JObj n), Some (JStr ty), Some (JStr ts) =>
      match jget (str "db") n, jget (str "table") n with
      | Some (JStr db), Some (JStr tb) =>
        let mk b := {| ev_db := db; ev_table := tb; ev_kind := ty; ev_time := ts; ev_body := b |} in
        match jget (str "sql") l with
        | Some (JStr q) => Some (mk (BSql q))
        | Some _ => None
        | None =>
          match jget (str "rowValues") l, jget (str "rowIdentifies") l with
          | Some v, Some i =>
            match project_rows v, project_rows i with
            | Some rv, Some ri => Some (mk (BRows rv ri))
            | _, _ => None
            end
          | _, _ => None
          end
        end
      | _, _ => None
      end
    | _, _, _ => None
    end
  | _ => None
  end.

Definition project_position (j : jvalue) : option (bytes * Z) :=
  match j with
  | JObj l => match jget (str "filename") l, jget (str "offset") l with
              | Some (JStr f), Some (JNum o) => Some (f, o)
              | _, _ => None
              end
  | _ => None
  end.

Definition project_tx (j : jvalue) : option tx_view :=
  match j with
  | JObj l =>
    match jget (str "nowPosition") l, jget (str "nextPosition") l, jget (str "timestamp") l, jget (str "events") l with
    | Some a, Some b, Some (JStr ts), Some ev =>
      match project_position a, project_position b, proj_slice (proj_ptr project_event) ev with
      | Some pa, Some pb, Some evs => Some {| tv_now := pa; tv_next := pb; tv_time := ts; tv_events := evs |}
      | _, _, _ => None
      end
    | _, _, _, _ => None
    end
  | _ => None
  end.

(* ---- sanitising a transaction: every string field through [sanitize] ---- *)
Definition san_position (p : position) : position :=
  {| p_filename := sanitize (p_filename p); p_offset := p_offset p |}.
Definition san_tablename (t : tablename) : tablename :=
  {| t_db := sanitize (t_db t); t_table := sanitize (t_table t) |}.
Definition san_column (c : column) : column :=
  {| c_filed := sanitize (c_filed c); c_type := c_type c; c_isEmpty := c_isEmpty c;
     c_data := omap sanitize (c_data c) |}.
Definition san_rowdata (r : rowdata) : rowdata :=
  {| r_columns := omap (map (omap san_column)) (r_columns r) |}.
Definition san_rows (o : option (list (option rowdata))) := omap (map (omap san_rowdata)) o.
Definition san_event (e : streamevent) : streamevent :=
  {| e_type := e_type e; e_table := san_tablename (e_table e); e_sql := sanitize (e_sql e);
     e_timestamp := e_timestamp e; e_rowValues := san_rows (e_rowValues e);
     e_rowIdentifies := san_rows (e_rowIdentifies e) |}.
Definition san_tx (t : transaction) : transaction :=
  {| x_now := san_position (x_now t); x_next := san_position (x_next t);
     x_timestamp := x_timestamp t; x_events := omap (map (omap san_event)) (x_events t) |}.

(* ---- predicates over every string of a transaction ---- *)
Definition oall {X} (p : X -> bool) (o : option X) : bool := match o with Some x => p x | None => true end.

Definition col_strings (p : bytes -> bool) (c : column) : bool := p (c_filed c) && oall p (c_data c).
Definition row_strings (p : bytes -> bool) (r : rowdata) : bool :=
  oall (forallb (oall (col_strings p))) (r_columns r).
Definition rows_strings (p : bytes -> bool) (o : option (list (option rowdata))) : bool :=
  oall (forallb (oall (row_strings p))) o.
Definition event_strings (p : bytes -> bool) (e : streamevent) : bool :=
  p (t_db (e_table e)) && p (t_table (e_table e)) && p (e_sql e) &&
  rows_strings p (e_rowValues e) && rows_strings p (e_rowIdentifies e).
Definition tx_strings (p : bytes -> bool) (t : transaction) : bool :=
  p (p_filename (x_now t)) && p (p_filename (x_next t)) && oall (forallb (oall (event_strings p))) (x_events t).

(* every string consists of bytes / is valid UTF-8 *)
Definition wf_tx : transaction -> bool := tx_strings wf_bytesb.
Definition valid_tx : transaction -> bool := tx_strings valid_utf8.
