(* Independent specification for C18 / C19.

   * A MySQL 5.6 GTID set denotes a set of (server UUID, sequence number) pairs: `den`.
   * `canon` is the canonical form MySQL emits: server UUIDs (16 bytes) strictly ascending
     in byte order, every UUID with a non-empty list of intervals [a,b], 1 <= a <= b < 2^63,
     ascending, disjoint and not adjacent (b_i + 1 < a_{i+1}).
   * Expected answers for small sets are computed by plain enumeration of members
     (`exp_*`), independently of the interval algorithms of the model.
   * "What the master writes": GTID event bodies, the SID block, MariaDB GTID event bodies.

   Nothing here refers to Model/Gtid.v. *)
From GB Require Import Base.Prelude.
Open Scope Z_scope.

Definition ssid := bytes.                        (* server UUID: 16 bytes *)
Definition siv := (Z * Z)%type.                  (* closed interval [a,b] *)
Definition sset := list (ssid * list siv).

(* ---------- denotation ---------- *)
Definition den_ivs (l : list siv) (n : Z) : Prop :=
  exists a b, In (a, b) l /\ a <= n <= b.
Definition den (s : sset) (u : ssid) (n : Z) : Prop :=
  exists l, In (u, l) s /\ den_ivs l n.

(* decidable version, computable for arbitrarily wide intervals *)
Definition den_ivsb (l : list siv) (n : Z) : bool :=
  existsb (fun i => (fst i <=? n) && (n <=? snd i)) l.
Definition denb (s : sset) (u : ssid) (n : Z) : bool :=
  existsb (fun e => bytes_eqb (fst e) u && den_ivsb (snd e) n) s.

(* ---------- canonical form ---------- *)
Definition wf_sid (u : ssid) : Prop := length u = 16%nat /\ wf_bytes u.
Definition wf_sidb (u : ssid) : bool := Nat.eqb (length u) 16 && wf_bytesb u.

(* byte-wise lexicographic order (memcmp) *)
Fixpoint lex_lt (a b : bytes) : Prop :=
  match a, b with
  | _, [] => False
  | [], _ :: _ => True
  | x :: a', y :: b' => x < y \/ (x = y /\ lex_lt a' b')
  end.
Fixpoint lex_ltb (a b : bytes) : bool :=
  match a, b with
  | _, [] => false
  | [], _ :: _ => true
  | x :: a', y :: b' => (x <? y) || ((x =? y) && lex_ltb a' b')
  end.

(* intervals above `lo`: lo < a <= b < 2^63, then the same above b + 1 *)
Fixpoint ivs_ok (lo : Z) (l : list siv) : Prop :=
  match l with
  | [] => True
  | (a, b) :: r => lo < a /\ a <= b /\ b < 2 ^ 63 /\ ivs_ok (b + 1) r
  end.
Fixpoint ivs_okb (lo : Z) (l : list siv) : bool :=
  match l with
  | [] => true
  | (a, b) :: r => (lo <? a) && (a <=? b) && (b <? 2 ^ 63) && ivs_okb (b + 1) r
  end.

Definition entry_ok (e : ssid * list siv) : Prop :=
  wf_sid (fst e) /\ snd e <> [] /\ ivs_ok 0 (snd e).
Definition entry_okb (e : ssid * list siv) : bool :=
  wf_sidb (fst e) && negb (Nat.eqb (length (snd e)) 0) && ivs_okb 0 (snd e).

Fixpoint keys_sorted (s : sset) : Prop :=
  match s with
  | [] => True
  | e :: r => match r with
              | [] => True
              | e' :: _ => lex_lt (fst e) (fst e')
              end /\ keys_sorted r
  end.
Fixpoint keys_sortedb (s : sset) : bool :=
  match s with
  | [] => true
  | e :: r => match r with
              | [] => true
              | e' :: _ => lex_ltb (fst e) (fst e')
              end && keys_sortedb r
  end.

Definition canon (s : sset) : Prop := keys_sorted s /\ Forall entry_ok s.
Definition canonb (s : sset) : bool := keys_sortedb s && forallb entry_okb s.

(* a GTID the property quantifies over *)
Definition valid_gtid (u : ssid) (n : Z) : Prop := wf_sid u /\ 1 <= n < 2 ^ 63.

(* ---------- expected answers by enumeration (small sets only) ---------- *)
Fixpoint range_from (a : Z) (k : nat) : list Z :=
  match k with O => [] | S k' => a :: range_from (a + 1) k' end.
Definition members_ivs (l : list siv) : list Z :=
  flat_map (fun i => range_from (fst i) (Z.to_nat (snd i - fst i + 1))) l.
Definition members (s : sset) : list (ssid * Z) :=
  flat_map (fun e => map (fun n => (fst e, n)) (members_ivs (snd e))) s.

Definition pair_eqb (p q : ssid * Z) : bool := bytes_eqb (fst p) (fst q) && (snd p =? snd q).
Definition mem (p : ssid * Z) (l : list (ssid * Z)) : bool := existsb (pair_eqb p) l.

Definition exp_contains_gtid (s : sset) (u : ssid) (n : Z) : bool := mem (u, n) (members s).
Definition exp_contains (s t : sset) : bool :=                       (* s is a superset of t *)
  let ms := members s in forallb (fun p => mem p ms) (members t).
Definition exp_equal (s t : sset) : bool := exp_contains s t && exp_contains t s.

(* the canonical set with exactly the given members: insert one member at a time into
   the right place of a sorted member table, then group runs of consecutive numbers *)
Fixpoint ins_sorted (n : Z) (l : list Z) : list Z :=
  match l with
  | [] => [n]
  | m :: r => if n <? m then n :: l else if n =? m then l else m :: ins_sorted n r
  end.
Fixpoint ins_member (u : ssid) (n : Z) (t : list (ssid * list Z)) : list (ssid * list Z) :=
  match t with
  | [] => [(u, [n])]
  | (k, ns) :: r =>
    if bytes_eqb u k then (k, ins_sorted n ns) :: r
    else if lex_ltb u k then (u, [n]) :: t
    else (k, ns) :: ins_member u n r
  end.
(* runs of a sorted duplicate-free list *)
Fixpoint runs (cur : siv) (l : list Z) : list siv :=
  match l with
  | [] => [cur]
  | n :: r => if n =? snd cur + 1 then runs (fst cur, n) r else cur :: runs (n, n) r
  end.
Definition runs_of (l : list Z) : list siv :=
  match l with [] => [] | n :: r => runs (n, n) r end.
Definition of_members (ps : list (ssid * Z)) : sset :=
  map (fun e => (fst e, runs_of (snd e)))
      (fold_left (fun t p => ins_member (fst p) (snd p) t) ps []).

(* expected result of adding (u,n): the canonical set of members(s) + (u,n) *)
Definition exp_add (s : sset) (u : ssid) (n : Z) : sset := of_members (members s ++ [(u, n)]).

(* expected result of a sequence of additions *)
Definition exp_adds (s : sset) (gs : list (ssid * Z)) : sset := of_members (members s ++ gs).

(* MariaDB: a set is a list of positions (domain, server, sequence).  It covers the
   transaction (d, q) when it holds a position of domain d with sequence >= q. *)
Definition mpos := (Z * Z * Z)%type.
Definition mp_dom (p : mpos) : Z := fst (fst p).
Definition mp_seq (p : mpos) : Z := snd p.
Definition maria_covers (s : list mpos) (d q : Z) : Prop :=
  exists h, In h s /\ mp_dom h = d /\ q <= mp_seq h.
Definition maria_coversb (s : list mpos) (d q : Z) : bool :=
  existsb (fun h => (mp_dom h =? d) && (q <=? mp_seq h)) s.

(* ---------- what the master writes ---------- *)

(* GTID_LOG_EVENT body: flags(1) SID(16) GNO(8, little endian); 5.7 appends more fields (`rest`) *)
Definition enc_gtid_event (flags : Z) (u : ssid) (gno : Z) (rest : bytes) : bytes :=
  [flags] ++ u ++ le_enc 8 gno ++ rest.

(* SID block (PREVIOUS_GTIDS_LOG_EVENT body, COM_BINLOG_DUMP_GTID data):
   n_sids(8) { SID(16) n_intervals(8) { start(8) end+1(8) } } *)
Definition enc_iv (i : siv) : bytes := le_enc 8 (fst i) ++ le_enc 8 (snd i + 1).
Definition enc_entry (e : ssid * list siv) : bytes :=
  fst e ++ le_enc 8 (len (snd e)) ++ concat (map enc_iv (snd e)).
Definition enc_sid_block (s : sset) : bytes := le_enc 8 (len s) ++ concat (map enc_entry s).

(* MariaDB GTID_EVENT body: seq_no(8) domain_id(4) flags2(1) [+ commit id etc.] *)
Definition enc_maria_gtid_event (seq dom flags2 : Z) (rest : bytes) : bytes :=
  le_enc 8 seq ++ le_enc 4 dom ++ [flags2] ++ rest.
