(* Specification side: the decoded objects a consumer must obtain from the
   encoded events (containers are the model's record types; contents are
   computed from the abstract definitions only). *)
From GB Require Import Base.Prelude Spec.EncHeader Spec.Values Spec.EncEvent Model.Events Model.Rbr.
Open Scope Z_scope.

Definition expect_format (c : cfg) (version : bytes) : format :=
  {| f_version := 4; f_server := version; f_hlen := c_hlen c; f_alg := alg_of c; f_sizes := sizes_table c |}.

(* a decoded bitmap keeps the bytes as they were on the wire, padding bits included (pad: the pattern the
   master used); only bits 0 .. bm_count-1 are ever meaningful *)
Definition expect_bitmap (pad : Z) (bits : list bool) : bitmap :=
  {| bm_data := pack_bits_pad pad bits; bm_count := length bits |}.

(* pad: padding pattern of the table map's nullable-columns bitmap (c_pad_tm of the configuration that wrote it) *)
Definition expect_table_map (pad : Z) (t : table_def) : table_map :=
  {| tm_flags := td_flags t; tm_db := td_db t; tm_name := td_name t;
     tm_types := map (fun p => code_of (fst p)) (td_cols t);
     tm_can_be_null := expect_bitmap pad (map snd (td_cols t));
     tm_meta := map (fun p => meta_of (fst p)) (td_cols t) |}.

(* pad: padding pattern of the rows' NULL bitmaps *)
Definition expect_row (pad : Z) (tys : list coltype) (kind : Z) (b a : option (list cellv)) : row :=
  {| r_null_ident := match b with Some img => expect_bitmap pad (null_bits img) | None => bitmap_zero end;
     r_null_data := match a with Some img => expect_bitmap pad (null_bits img) | None => bitmap_zero end;
     r_ident := option_map (image_cells tys) b;
     r_data := option_map (image_cells tys) a |}.

Fixpoint expect_row_list (pad : Z) (tys : list coltype) (kind : Z) (b a : list (list cellv)) {struct b} : list row :=
  match kind with
  | 0 => map (fun img => expect_row pad tys kind None (Some img)) a
  | 2 => map (fun img => expect_row pad tys kind (Some img) None) b
  | _ => match b, a with
         | x :: br, y :: ar => expect_row pad tys kind (Some x) (Some y) :: expect_row_list pad tys kind br ar
         | _, _ => []
         end
  end.

(* c: the configuration that wrote the event (its padding patterns c_pad_cols / c_pad_null are kept in the bitmaps) *)
Definition expect_rows (c : cfg) (tys : list coltype) (r : rows_def) : rows :=
  let n := length tys in
  {| rs_flags := rd_flags r;
     rs_ident_cols := if rd_kind r =? 0 then bitmap_zero else expect_bitmap (c_pad_cols c) (first_present (rd_before r) n);
     rs_data_cols := if rd_kind r =? 2 then bitmap_zero else expect_bitmap (c_pad_cols c) (first_present (rd_after r) n);
     rs_rows := expect_row_list (c_pad_null c) tys (rd_kind r) (rd_before r) (rd_after r) |}.

(* well-formed rows definition: images have one entry per column, share the presence pattern,
   every value is valid for its column type, and every image has at least one present column *)
Definition wf_image (tys : list (coltype * bool)) (pres : list bool) (img : list cellv) : bool :=
  Nat.eqb (length img) (length tys) &&
  forallb (fun x => x) (map (fun p => Bool.eqb (fst p) (snd p)) (combine (present_bits img) pres)) &&
  existsb (fun x => x) pres &&
  forallb (fun p => match snd p with
                    | CVal v => wf_value (fst (fst p)) (snd (fst p)) v
                    | _ => true end) (combine tys img).
