(* Specification side of row-image cells: abstract column types and values,
   what the master writes for them (enc_cell, meta_of, code_of — written from
   the MySQL sources: log_event.cc, field.cc, my_time.c, decimal.c) and the
   canonical text a consumer must receive (text).
   The column types and the value-independent pieces live in Spec/ColTypes.v (re-exported here);
   the JSON document type, its serialisation and its rendering in Spec/EncJson.v. *)
From Coq Require Import String.
From GB Require Import Base.Prelude Base.DecText Base.Calendar.
From GB Require Export Spec.ColTypes.
From GB Require Import Spec.EncJson.
Open Scope Z_scope.

Inductive value :=
| VInt (z : Z)
| VFloat (bits : Z)
| VYear (b : Z)
| VBits (bs : bytes)
| VEnum (idx : Z)
| VSet (mask : Z)
| VDecimal (neg : bool) (ip fp : list Z)            (* digit values 0..9, most significant first *)
| VDate (y m d : Z)
| VTime (neg : bool) (h mi s : Z) (fr : Z)          (* fr: fractional digits as a number < 10^f *)
| VDateTime (y m d h mi s : Z) (fr : Z)
| VTimestamp (secs : Z) (fr : Z)
| VBytes (s : bytes)
| VJson (d : jdoc).                                  (* the document of a JSON column (Spec/EncJson.v) *)

Definition wf_value (ty : coltype) (uns : bool) (v : value) : bool :=
  match ty, v with
  | (TTiny | TShort | TInt24 | TLong | TLongLong), VInt z =>
    let w := int_width ty in
    if uns then (0 <=? z) && (z <? 256 ^ w) else (- (256 ^ w / 2) <=? z) && (z <? 256 ^ w / 2)
  | TFloat, VFloat b => (0 <=? b) && (b <? 2 ^ 32)
  | TDouble, VFloat b => (0 <=? b) && (b <? 2 ^ 64)
  | TYear, VYear b => (0 <=? b) && (b <? 256)
  | TBit n, VBits bs => wf_bytesb bs && (len bs =? (n + 7) / 8)
  | TEnum w _, VEnum i => (0 <=? i) && (i <? 256 ^ w)
  | TSet w _, VSet m => (0 <=? m) && (m <? 256 ^ w)
  | TNewDecimal p s, VDecimal neg ip fp =>
    wf_decimalb p s neg ip fp
  | TDate _, VDate y m d => (0 <=? y) && (y <=? 9999) && (0 <=? m) && (m <=? 12) && (0 <=? d) && (d <=? 31)
  | TTime, VTime neg h mi s fr =>
    (0 <=? h) && (h <=? 838) && (0 <=? mi) && (mi <=? 59) && (0 <=? s) && (s <=? 59) && (fr =? 0) &&
    (negb neg || (0 <? h * 10000 + mi * 100 + s))
  | TTime2 f, VTime neg h mi s fr =>
    (0 <=? h) && (h <=? 838) && (0 <=? mi) && (mi <=? 59) && (0 <=? s) && (s <=? 59) &&
    (0 <=? fr) && (fr <? 10 ^ f) && (negb neg || (0 <? h + mi + s + fr))
  | TDateTime, VDateTime y m d h mi s fr =>
    (0 <=? y) && (y <=? 9999) && (0 <=? m) && (m <=? 12) && (0 <=? d) && (d <=? 31) &&
    (0 <=? h) && (h <=? 23) && (0 <=? mi) && (mi <=? 59) && (0 <=? s) && (s <=? 59) && (fr =? 0)
  | TDateTime2 f, VDateTime y m d h mi s fr =>
    (0 <=? y) && (y <=? 9999) && (0 <=? m) && (m <=? 12) && (0 <=? d) && (d <=? 31) &&
    (0 <=? h) && (h <=? 23) && (0 <=? mi) && (mi <=? 59) && (0 <=? s) && (s <=? 59) &&
    (0 <=? fr) && (fr <? 10 ^ f)
  | TTimestamp, VTimestamp secs fr => (0 <=? secs) && (secs <? 2 ^ 32) && (fr =? 0)
  | TTimestamp2 f, VTimestamp secs fr =>
    (0 <=? secs) && (secs <? 2 ^ 32) && (0 <=? fr) && (fr <? 10 ^ f) && ((0 <? secs) || (fr =? 0))
  | TVarchar max _, VBytes s => wf_bytesb s && (len s <=? max)
  | TChar max, VBytes s => wf_bytesb s && (len s <=? max)
  | (TBlob lb _ | TGeometry lb), VBytes s => wf_bytesb s && (len s <? 256 ^ lb)
  (* a storable document (wf_doc) whose serialisation fits the lb length bytes of the column *)
  | TJson lb, VJson d => wf_docb d && (len (ser d) <? 256 ^ lb)
  | _, _ => false
  end.

Section Oracles.
Variable ffmt : Z -> Z -> bytes.
Variable tz : Z -> Z.
Variable efmt : Z -> bytes.            (* strconv.AppendFloat(nil, Float64frombits(bits), 'E', -1, 64): doubles inside JSON *)

Definition text_timestamp (secs : Z) : bytes :=
  if secs =? 0 then str "0000-00-00 00:00:00"%string
  else
    let t := secs + tz secs in
    let '(y, m, d) := civil_of_days (t / 86400) in
    let sod := t mod 86400 in
    text_date y m d ++ [32] ++ text_clock (sod / 3600) (sod / 60 mod 60) (sod mod 60).

Definition enc_cell (ty : coltype) (v : value) : bytes :=
  match ty, v with
  | (TTiny | TShort | TInt24 | TLong | TLongLong), VInt z =>
    le_enc (Z.to_nat (int_width ty)) (z mod 256 ^ int_width ty)
  | TFloat, VFloat b => le_enc 4 b
  | TDouble, VFloat b => le_enc 8 b
  | TYear, VYear b => [b]
  | TBit _, VBits bs => bs
  | TEnum w _, VEnum i => le_enc (Z.to_nat w) i
  | TSet w _, VSet m => le_enc (Z.to_nat w) m
  | TNewDecimal p s, VDecimal neg ip fp => enc_decimal p s neg ip fp
  | TDate _, VDate y m d => le_enc 3 (d + 32 * m + 512 * y)
  | TTime, VTime neg h mi s _ =>
    let mag := h * 10000 + mi * 100 + s in
    le_enc 3 ((if neg then - mag else mag) mod 2 ^ 24)
  | TTime2 f, VTime neg h mi s fr => enc_time2 f neg h mi s fr
  | TDateTime, VDateTime y m d h mi s _ =>
    le_enc 8 (((y * 100 + m) * 100 + d) * 1000000 + (h * 100 + mi) * 100 + s)
  | TDateTime2 f, VDateTime y m d h mi s fr =>
    be_enc 5 (549755813888 + ((((y * 13 + m) * 32 + d) * 32 + h) * 64 + mi) * 64 + s) ++ enc_frac f fr
  | TTimestamp, VTimestamp secs _ => le_enc 4 secs
  | TTimestamp2 f, VTimestamp secs fr => be_enc 4 secs ++ enc_frac f fr
  | TVarchar max _, VBytes s => (if max >? 255 then le_enc 2 (len s) else [len s]) ++ s
  | TChar max, VBytes s => (if max >? 255 then le_enc 2 (len s) else [len s]) ++ s
  | (TBlob lb _ | TGeometry lb), VBytes s => le_enc (Z.to_nat lb) (len s) ++ s
  | TJson lb, VJson d => le_enc (Z.to_nat lb) (len (ser d)) ++ ser d       (* a blob holding the binary document *)
  | _, _ => []
  end.

(* canonical text delivered for a value; None never occurs for a non-NULL cell.  A JSON value is delivered as the
   rendering of its document (Spec/EncJson.v render_top), doubles through the oracle efmt. *)
Definition text (ty : coltype) (uns : bool) (v : value) : bytes :=
  match ty, v with
  | (TTiny | TShort | TInt24 | TLong | TLongLong), VInt z => digs_Z z
  | TFloat, VFloat b => ffmt 32 b
  | TDouble, VFloat b => ffmt 64 b
  | TYear, VYear b => if b =? 0 then str "0000"%string else digs (1900 + b)
  | TBit _, VBits bs => bs
  | TEnum _ _, VEnum i => digs i
  | TSet w bare, VSet m => if bare then le_enc (Z.to_nat w) m else digs m
  | TNewDecimal _ _, VDecimal neg ip fp => text_decimal neg ip fp
  | TDate _, VDate y m d => text_date y m d
  | TTime, VTime neg h mi s _ => (if neg then [45] else []) ++ text_hour h ++ [58] ++ pad0 2 mi ++ [58] ++ pad0 2 s
  | TTime2 f, VTime neg h mi s fr =>
    (if neg then [45] else []) ++ text_hour h ++ [58] ++ pad0 2 mi ++ [58] ++ pad0 2 s ++ text_frac f fr
  | TDateTime, VDateTime y m d h mi s _ => text_date y m d ++ [32] ++ text_clock h mi s
  | TDateTime2 f, VDateTime y m d h mi s fr => text_date y m d ++ [32] ++ text_clock h mi s ++ text_frac f fr
  | TTimestamp, VTimestamp secs _ => text_timestamp secs
  | TTimestamp2 f, VTimestamp secs fr => text_timestamp secs ++ text_frac f fr
  | (TVarchar _ _ | TChar _ | TBlob _ _ | TGeometry _), VBytes s => s
  | TJson _, VJson d => render_top efmt d
  | _, _ => []
  end.

End Oracles.
