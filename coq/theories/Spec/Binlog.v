(* Specification side of C01: what a MySQL master sends for a row-based binlog, at wire level, and the
   units (Spec/Units.v) the stream denotes.  Independent of the streamer model: events are described by
   their fields, encoded by the Spec encoders (EncHeader / EncEvent), and the denotation `abs` is computed
   from the abstract definitions only (keyword table, charset_in, expect_columns / Spec.Values.text).
   The model's record types (sevent, column, tinfo, ...) are used as containers only.

   The well-formedness side conditions wf_table_def / wf_rows_def are the ones of the
   per-event theorems C15 / C09 (they live in Proofs/TableMapProofs.v and RowsProofs.v; colspec / expect_columns in ImageProofs.v). *)
From Coq Require Import String.
From GB Require Import Base.Prelude Model.Events Model.Rbr Model.Streamer.
From GB Require Import Spec.EncHeader Spec.Values Spec.EncEvent Spec.Expect Spec.EventSpec Spec.Units.
From GB Require Import Proofs.ImageProofs Proofs.TableMapProofs Proofs.RowsProofs.
Open Scope Z_scope.

(* ------------------------------------------------------------------ *)
(* 1. wire events                                                      *)

(* the header fields a master chooses freely; the type byte is implied by the event kind *)
Record whdr := { w_ts : Z; w_sid : Z; w_next : Z; w_flags : Z }.

Definition hdr_of (t : Z) (w : whdr) : hdr :=
  {| h_ts := w_ts w; h_type := t; h_sid := w_sid w; h_next := w_next w; h_flags := w_flags w |}.

Definition wf_whdr (w : whdr) : Prop :=
  0 <= w_ts w < 2 ^ 32 /\ 0 <= w_sid w < 2 ^ 32 /\ 0 <= w_next w < 2 ^ 32 /\ 0 <= w_flags w < 2 ^ 16.

(* one constructor per kind of event the grammar needs; crc: the 4 checksum bytes (arbitrary: the
   streamer never verifies them), used only when the configuration has checksums on *)
Inductive wevent :=
| WFormat (h : whdr) (version crc : bytes)                                   (* FORMAT_DESCRIPTION_EVENT *)
| WRotate (h : whdr) (name : bytes) (pos : Z) (crc : bytes)                  (* ROTATE_EVENT, fake or real *)
| WQuery (h : whdr) (thread exec err : Z) (vars : list (Z * bytes)) (db sql crc : bytes)
| WXid (h : whdr) (xid : Z) (crc : bytes)
| WTableMap (h : whdr) (t : table_def) (crc : bytes)
| WRows (h : whdr) (tys : list coltype) (r : rows_def) (crc : bytes)         (* tys: the table's column types *)
| WGtid (h : whdr) (flags : Z) (sid : bytes) (gno : Z) (crc : bytes)         (* GTID_LOG_EVENT *)
| WAnonGtid (h : whdr) (flags : Z) (sid : bytes) (gno : Z) (crc : bytes)     (* ANONYMOUS_GTID_LOG_EVENT *)
| WPrevGtids (h : whdr) (body crc : bytes)                                   (* PREVIOUS_GTIDS_LOG_EVENT *)
| WHeartbeat (h : whdr) (logname crc : bytes)                                (* HEARTBEAT_LOG_EVENT *)
| WOther (h : whdr) (typ : Z) (body crc : bytes).                            (* any other ignorable type *)

(* Type codes handled by the streamer's dispatch: query, rotate, intvar, rand, format description, xid,
   table map, rows v1, rows-query, rows v2.  Every other type byte is ignored. *)
Definition handled_types : list Z := [2; 4; 5; 13; 15; 16; 19; 23; 24; 25; 29; 30; 31; 32].
Definition ignorable_type (t : Z) : bool :=
  (0 <=? t) && (t <=? 255) && negb (existsb (Z.eqb t) handled_types).

(* the named ones among them (log_event.h / MariaDB): unknown, start v3, stop, load, slave, create file,
   append block, exec load, delete file, new load, user var, begin load query, execute load query,
   rows v0 (pre-GA), incident, heartbeat, ignorable, GTID, anonymous GTID, previous GTIDs,
   transaction context, view change, XA prepare; MariaDB annotate rows, binlog checkpoint, GTID,
   GTID list, start encryption *)
Definition ignorable_types : list Z :=
  [0; 1; 3; 6; 7; 8; 9; 10; 11; 12; 14; 17; 18; 20; 21; 22; 26; 27; 28; 33; 34; 35; 36; 37; 38;
   160; 161; 162; 163; 164].

Definition wtype (c : cfg) (w : wevent) : Z :=
  match w with
  | WFormat _ _ _ => 15
  | WRotate _ _ _ _ => 4
  | WQuery _ _ _ _ _ _ _ _ => 2
  | WXid _ _ _ => 16
  | WTableMap _ _ _ => 19
  | WRows _ _ r _ => rows_type c (rd_kind r)
  | WGtid _ _ _ _ _ => 33
  | WAnonGtid _ _ _ _ _ => 34
  | WPrevGtids _ _ _ => 35
  | WHeartbeat _ _ _ => 27
  | WOther _ t _ _ => t
  end.

Definition whead (w : wevent) : whdr :=
  match w with
  | WFormat h _ _ | WRotate h _ _ _ | WQuery h _ _ _ _ _ _ _ | WXid h _ _ | WTableMap h _ _ | WRows h _ _ _
  | WGtid h _ _ _ _ | WAnonGtid h _ _ _ _ | WPrevGtids h _ _ | WHeartbeat h _ _ | WOther h _ _ _ => h
  end.

Definition wcrc (w : wevent) : bytes :=
  match w with
  | WFormat _ _ crc | WRotate _ _ _ crc | WQuery _ _ _ _ _ _ _ crc | WXid _ _ crc | WTableMap _ _ crc
  | WRows _ _ _ crc | WGtid _ _ _ _ crc | WAnonGtid _ _ _ _ crc | WPrevGtids _ _ crc | WHeartbeat _ _ crc
  | WOther _ _ _ crc => crc
  end.

(* the body after the common header (not used for the format description, which has its own layout) *)
Definition wbody (c : cfg) (w : wevent) : bytes :=
  match w with
  | WFormat _ _ _ => []
  | WRotate _ name pos _ => enc_rotate_body pos name
  | WQuery _ thread exec err vars db sql _ => enc_query_body thread exec err vars db sql
  | WXid _ xid _ => enc_xid_body xid
  | WTableMap _ t _ => enc_table_map_body c t
  | WRows _ tys r _ => enc_rows_body c tys r
  | WGtid _ flags sid gno _ | WAnonGtid _ flags sid gno _ => enc_gtid_body flags sid gno
  | WPrevGtids _ body _ => body
  | WHeartbeat _ logname _ => logname
  | WOther _ _ body _ => body
  end.

(* the bytes of one event *)
Definition wire (c : cfg) (w : wevent) : bytes :=
  match w with
  | WFormat h version crc => enc_format c (hdr_of 15 h) version crc
  | _ => enc_ev c (hdr_of (wtype c w) (whead w)) (wbody c w) (wcrc w)
  end.

(* ------------------------------------------------------------------ *)
(* 2. statements by keyword                                            *)

(* GetStatementCategory's table as the MySQL manual words it: first word of the statement, any letter case *)
Definition keywords : list (bytes * Z) :=
  [(str "alter", 8); (str "begin", 1); (str "commit", 2); (str "create", 7); (str "delete", 6); (str "drop", 9);
   (str "insert", 4); (str "rename", 11); (str "rollback", 3); (str "set", 12); (str "truncate", 10);
   (str "update", 5)]%string.

Definition fold_case (s : bytes) : bytes := map (fun c => if (65 <=? c) && (c <=? 90) then c + 32 else c) s.

Fixpoint assoc (w : bytes) (tbl : list (bytes * Z)) : Z :=
  match tbl with [] => 0 | (k, v) :: r => if bytes_eqb k w then v else assoc w r end.

(* statement kind of a keyword: 0 = none of the above *)
Definition kw_code (kw : bytes) : Z := assoc (fold_case kw) keywords.

(* the first word of a statement: everything before the first space *)
Fixpoint first_token (s : bytes) : bytes :=
  match s with [] => [] | x :: r => if x =? 32 then [] else x :: first_token r end.

Definition is_begin (code : Z) : bool := code =? 1.
Definition is_commit (code : Z) : bool := code =? 2.
Definition is_rollback (code : Z) : bool := code =? 3.
Definition is_dml (code : Z) : bool := (code =? 4) || (code =? 5) || (code =? 6).
Definition is_ddl (code : Z) : bool := (7 <=? code) && (code <=? 12).       (* create alter drop truncate rename set *)
Definition is_stmt (code : Z) : bool := is_dml code || is_ddl code.

(* a query event of the grammar: the statement text is a keyword followed by nothing or by a space and
   anything *)
Record wquery := {
  wq_h : whdr; wq_thread : Z; wq_exec : Z; wq_err : Z; wq_vars : list (Z * bytes); wq_db : bytes;
  wq_kw : bytes; wq_tail : bytes; wq_crc : bytes
}.
Definition wq_sql (q : wquery) : bytes := wq_kw q ++ wq_tail q.
Definition wq_event (q : wquery) : wevent :=
  WQuery (wq_h q) (wq_thread q) (wq_exec q) (wq_err q) (wq_vars q) (wq_db q) (wq_sql q) (wq_crc q).

(* ------------------------------------------------------------------ *)
(* 3. the grammar                                                      *)

(* `list wevent` positions ("gaps") hold events the consumer must ignore: GTID, anonymous GTID, previous GTIDs,
   heartbeat, other ignorable types, statements of unknown kind, and format descriptions of the same
   configuration (sent again after a rotation); see `ignorable` below *)

(* a change logged outside BEGIN ... COMMIT (it is delivered as a transaction of its own): a table map with its
   rows event, or a DDL / SET / DML query *)
Inductive wstmt :=
| SRows (hm : whdr) (t : table_def) (crcm : bytes)        (* table map ... *)
        (gap : list wevent)
        (hr : whdr) (r : rows_def) (crcr : bytes)         (* ... and the rows event for that table *)
| SQuery (q : wquery).                                    (* statement-format change / DDL / SET *)

Inductive wclose :=
| CXid (h : whdr) (xid : Z) (crc : bytes)
| CCommit (q : wquery).

(* what stands between BEGIN and the closing event, as MySQL logs it: table maps announce the tables of the
   following rows events - one statement may log several table maps first (multi-table statements) and several
   rows events per table (large statements) - and statement-format changes are query events.  The plain case
   "table map, rows event for that table" is [IMap t; IRows t r]. *)
Inductive witem :=
| IMap (h : whdr) (t : table_def) (crc : bytes)                    (* table map for t *)
| IRows (h : whdr) (t : table_def) (r : rows_def) (crc : bytes)    (* rows event for t, announced earlier in this transaction *)
| IQuery (q : wquery).                                             (* insert / update / delete ... as text *)

Definition wbody_list := list (list wevent * witem).      (* each event preceded by a gap *)

Inductive wunit :=
| WTx (b : wquery) (ss : wbody_list) (gap : list wevent) (cl : wclose)      (* BEGIN ... XID | COMMIT *)
| WRolled (b : wquery) (ss : wbody_list) (gap : list wevent) (rb : wquery)  (* BEGIN ... ROLLBACK *)
| WAuto (s : wstmt)                                                         (* outside BEGIN ... COMMIT *)
| WRot (h : whdr) (name : bytes) (pos : Z) (crc : bytes).                   (* rotation *)

(* what the master sends for a dump: a fake rotate naming the file (before any format description), the
   format description, then the units, each preceded by a gap, and a final gap *)
Record binlog := {
  b_fake_h : whdr; b_fake_name : bytes; b_fake_pos : Z; b_fake_crc : bytes;
  b_fmt_h : whdr; b_version : bytes; b_fmt_crc : bytes;
  b_units : list (list wevent * wunit);
  b_tail : list wevent
}.

Definition stmt_events (s : wstmt) : list wevent :=
  match s with
  | SRows hm t crcm gap hr r crcr => WTableMap hm t crcm :: gap ++ [WRows hr (map fst (td_cols t)) r crcr]
  | SQuery q => [wq_event q]
  end.

Definition item_event (it : witem) : wevent :=
  match it with
  | IMap h t crc => WTableMap h t crc
  | IRows h t r crc => WRows h (map fst (td_cols t)) r crc
  | IQuery q => wq_event q
  end.

Definition body_events (ss : wbody_list) : list wevent :=
  flat_map (fun gi => fst gi ++ [item_event (snd gi)]) ss.

Definition close_event (cl : wclose) : wevent :=
  match cl with CXid h xid crc => WXid h xid crc | CCommit q => wq_event q end.

Definition unit_events (u : wunit) : list wevent :=
  match u with
  | WTx b ss gap cl => wq_event b :: body_events ss ++ gap ++ [close_event cl]
  | WRolled b ss gap rb => wq_event b :: body_events ss ++ gap ++ [wq_event rb]
  | WAuto s => stmt_events s
  | WRot h name pos crc => [WRotate h name pos crc]
  end.

Definition units_events (us : list (list wevent * wunit)) : list wevent :=
  flat_map (fun gu => fst gu ++ unit_events (snd gu)) us.

Definition serve (b : binlog) : list wevent :=
  WRotate (b_fake_h b) (b_fake_name b) (b_fake_pos b) (b_fake_crc b) ::
  WFormat (b_fmt_h b) (b_version b) (b_fmt_crc b) ::
  units_events (b_units b) ++ b_tail b.

(* ------------------------------------------------------------------ *)
(* 4. the denotation: which units (Spec/Units.v) the stream stands for *)

Section Denote.
Variable ffmt : Z -> Z -> bytes.
Variable tz : Z -> Z.
Variable efmt : Z -> bytes.      (* 'E' formatting of the doubles inside JSON documents (Spec.Values.text) *)
Variable mp : mapper.

Definition tinfo_of (t : table_def) : tinfo :=
  match mp (td_db t) (td_name t) with Some ti => ti | None => {| ti_name := ([], []); ti_cols := [] |} end.

(* the columns as the consumer sees them: name and signedness from the mapper (by ordinal), type from the
   table map *)
Definition specs_of (t : table_def) (ti : tinfo) : list colspec :=
  map (fun p => (fst (snd p), (fst (fst p), snd (snd p)))) (combine (td_cols t) (ti_cols ti)).

(* an update event pairs the before and after images; the shorter list decides *)
Definition before_images (r : rows_def) : list (list cellv) :=
  if rd_kind r =? 1 then map fst (combine (rd_before r) (rd_after r)) else rd_before r.
Definition after_images (r : rows_def) : list (list cellv) :=
  if rd_kind r =? 1 then map snd (combine (rd_before r) (rd_after r)) else rd_after r.

Definition query_sevent (q : wquery) : sevent :=
  {| se_type := kw_code (wq_kw q); se_table := ([], []);
     se_query := {| q_db := wq_db q; q_sql := wq_sql q; q_charset := charset_in (wq_vars q) |};
     se_ts := w_ts (wq_h q); se_values := []; se_ids := [] |}.

Definition rows_sevent (t : table_def) (hr : whdr) (r : rows_def) : sevent :=
  let ti := tinfo_of t in
  let specs := specs_of t ti in
  {| se_type := 4 + rd_kind r;                            (* 4 insert, 5 update, 6 delete *)
     se_table := ti_name ti; se_query := zero_query; se_ts := w_ts hr;
     se_values := if rd_kind r =? 2 then [] else map (expect_columns ffmt tz efmt specs) (after_images r);
     se_ids := if rd_kind r =? 0 then [] else map (expect_columns ffmt tz efmt specs) (before_images r) |}.

Definition rows_stmt (t : table_def) (hr : whdr) (r : rows_def) : stmt :=
  {| st_ev := rows_sevent t hr r; st_next := w_next hr; st_ts := w_ts hr |}.
Definition query_stmt (q : wquery) : stmt :=
  {| st_ev := query_sevent q; st_next := w_next (wq_h q); st_ts := w_ts (wq_h q) |}.

Definition abs_stmt (s : wstmt) : stmt :=
  match s with
  | SRows _ t _ _ hr r _ => rows_stmt t hr r
  | SQuery q => query_stmt q
  end.

(* a table map is not a change; every rows event and every statement query is one *)
Definition item_stmts (it : witem) : list stmt :=
  match it with
  | IMap _ _ _ => []
  | IRows h t r _ => [rows_stmt t h r]
  | IQuery q => [query_stmt q]
  end.
Definition abs_body (ss : wbody_list) : list stmt := flat_map (fun gi => item_stmts (snd gi)) ss.

Definition close_hdr (cl : wclose) : whdr := match cl with CXid h _ _ => h | CCommit q => wq_h q end.

Definition abs (u : wunit) : unit :=
  match u with
  | WTx _ ss _ cl => UTx (abs_body ss) (w_next (close_hdr cl)) (w_ts (close_hdr cl))
  | WRolled _ ss _ rb => URolled (abs_body ss) (w_next (wq_h rb)) (w_ts (wq_h rb))
  | WAuto s => UAuto (abs_stmt s)
  | WRot _ name pos _ => URotate name (expect_rotate_pos pos)
  end.

Definition denote (b : binlog) : list unit := map (fun gu => abs (snd gu)) (b_units b).

End Denote.

(* ------------------------------------------------------------------ *)
(* 5. well-formedness                                                  *)

Section Wf.
Variable c : cfg.
Variable mp : mapper.

(* the event fits the 4-byte length field of its header *)
Definition fits (w : wevent) : Prop := len (wire c w) < 2 ^ 32.

Definition wf_version (v : bytes) : Prop := len v <= 50 /\ no_trailing_zero v = true.

(* events allowed in a gap; among them query events whose first word is none of the keywords (SAVEPOINT, GRANT,
   FLUSH, ANALYZE, ...): the consumer skips them *)
Definition ignorable (w : wevent) : Prop :=
  match w with
  | WFormat h v _ => wf_whdr h /\ wf_version v
  | WQuery h _ _ _ vars db sql _ =>
    wf_whdr h /\ fits w /\ legal_order vars = true /\ query_fits vars db = true /\ kw_code (first_token sql) = 0
  | WGtid h _ _ _ _ | WAnonGtid h _ _ _ _ | WPrevGtids h _ _ | WHeartbeat h _ _ => wf_whdr h /\ fits w
  | WOther h t _ _ => wf_whdr h /\ fits w /\ ignorable_type t = true
  | _ => False
  end.
Definition wf_gap (g : list wevent) : Prop := Forall ignorable g.

(* a query event whose keyword is of the given class *)
Definition wf_query (class : Z -> bool) (q : wquery) : Prop :=
  wf_whdr (wq_h q) /\ fits (wq_event q) /\
  legal_order (wq_vars q) = true /\ query_fits (wq_vars q) (wq_db q) = true /\
  (forall x, In x (wq_kw q) -> x <> 32) /\
  (wq_tail q = [] \/ exists r, wq_tail q = 32 :: r) /\
  class (kw_code (wq_kw q)) = true.

(* a table the consumer can decode: valid definition (every column type with valid parameters), and the mapper
   knows the table and agrees on the number of columns *)
Definition wf_table (t : table_def) : Prop :=
  wf_table_def c t /\
  (exists ti, mp (td_db t) (td_name t) = Some ti /\ length (ti_cols ti) = length (td_cols t)).

(* a rows event for table t: it carries t's id, and its images are valid for t's columns (type from the table
   map, signedness from the mapper) *)
Definition wf_rows (t : table_def) (h : whdr) (r : rows_def) (crc : bytes) : Prop :=
  wf_whdr h /\ fits (WRows h (map fst (td_cols t)) r crc) /\
  rd_id r = td_id t /\
  wf_rows_def (specs_cols (specs_of t (tinfo_of mp t))) r.

Definition wf_stmt (s : wstmt) : Prop :=
  match s with
  | SRows hm t crcm gap hr r crcr =>
    wf_whdr hm /\ fits (WTableMap hm t crcm) /\ wf_table t /\ wf_gap gap /\ wf_rows t hr r crcr
  | SQuery q => wf_query is_stmt q
  end.

(* the tables announced so far in the current transaction: a table map for an id replaces the earlier one *)
Definition announce (t : table_def) (known : list table_def) : list table_def :=
  t :: filter (fun u => negb (td_id u =? td_id t)) known.

Definition wf_item (known : list table_def) (it : witem) : Prop :=
  match it with
  | IMap h t crc => wf_whdr h /\ fits (WTableMap h t crc) /\ wf_table t
  | IRows h t r crc => In t known /\ wf_rows t h r crc       (* its table map precedes it within the transaction *)
  | IQuery q => wf_query is_stmt q
  end.
Definition known_after (known : list table_def) (it : witem) : list table_def :=
  match it with IMap _ t _ => announce t known | _ => known end.

Fixpoint wf_body (known : list table_def) (ss : wbody_list) : Prop :=
  match ss with
  | [] => True
  | (g, it) :: r => wf_gap g /\ wf_item known it /\ wf_body (known_after known it) r
  end.

Definition wf_close (cl : wclose) : Prop :=
  match cl with
  | CXid h xid crc => wf_whdr h /\ fits (WXid h xid crc)
  | CCommit q => wf_query is_commit q
  end.

Definition wf_unit (u : wunit) : Prop :=
  match u with
  | WTx b ss gap cl => wf_query is_begin b /\ wf_body [] ss /\ wf_gap gap /\ wf_close cl
  | WRolled b ss gap rb => wf_query is_begin b /\ wf_body [] ss /\ wf_gap gap /\ wf_query is_rollback rb
  | WAuto s => wf_stmt s
  | WRot h name pos crc => wf_whdr h /\ fits (WRotate h name pos crc) /\ 0 <= pos < 2 ^ 64
  end.

Definition wf_binlog (b : binlog) : Prop :=
  wf_cfg c = true /\
  wf_whdr (b_fake_h b) /\ fits (WRotate (b_fake_h b) (b_fake_name b) (b_fake_pos b) (b_fake_crc b)) /\
  wf_whdr (b_fmt_h b) /\ wf_version (b_version b) /\
  Forall (fun gu => wf_gap (fst gu) /\ wf_unit (snd gu)) (b_units b) /\
  wf_gap (b_tail b).

End Wf.
