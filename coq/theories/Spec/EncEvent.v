(* Specification side: what a MySQL master writes for each event
   (written from log_event.cc / rows_event.h; independent of the repository's
   own New*Event builders). *)
From GB Require Import Base.Prelude Spec.EncHeader Spec.Values.
Open Scope Z_scope.

(* configuration of a binlog stream *)
Record cfg := {
  c_crc : bool;          (* CRC32 checksums on *)
  c_v2 : bool;           (* rows events v2 (30..32) instead of v1 (23..25) *)
  c_tid4 : bool;         (* 4-byte table ids (post-header length 6) — only with v1 rows events *)
  c_hlen : Z;            (* common header length, >= 19; extra header bytes are zero *)
  c_nsizes : Z;          (* number of entries of the post-header-length table, >= 35 *)
  (* Every bitmap of a row-based event occupies ceil(n/8) bytes; the unused high bits of its last byte
     ("padding") are whatever the master's buffer held: 0 after bitmap_init / a copied write_set, 1 after
     bitmap_set_all, 1 in a row's NULL bitmap (pack_row starts every byte from 0xff).  Bit k of these three
     bytes is what the master leaves in an unused bit k, per kind of bitmap.  All are arbitrary bytes. *)
  c_pad_cols : Z;        (* columns-present bitmaps of a rows event *)
  c_pad_null : Z;        (* NULL bitmap of every row image *)
  c_pad_tm : Z           (* nullable-columns bitmap of a table map *)
}.

Definition is_pad (p : Z) : bool := (0 <=? p) && (p <? 256).

Definition wf_cfg (c : cfg) : bool :=
  (19 <=? c_hlen c) && (c_hlen c <=? 250) && (35 <=? c_nsizes c) && (c_nsizes c <=? 255) &&
  (negb (c_tid4 c) || negb (c_v2 c)) &&
  is_pad (c_pad_cols c) && is_pad (c_pad_null c) && is_pad (c_pad_tm c).

Definition alg_of (c : cfg) : Z := if c_crc c then 1 else 0.

(* post-header length of event type t *)
Definition post_header (c : cfg) (t : Z) : Z :=
  if t =? 19 then (if c_tid4 c then 6 else 8)
  else if (23 <=? t) && (t <=? 25) then (if c_tid4 c then 6 else 8)
  else if (30 <=? t) && (t <=? 32) then 10
  else if t =? 2 then 13 else if t =? 4 then 8 else if t =? 15 then (57 + c_nsizes c) mod 256
  else if t =? 16 then 0 else if t =? 5 then 0 else if t =? 13 then 0 else if t =? 33 then 25 else 0.

Fixpoint sizes_from (c : cfg) (t : Z) (n : nat) : bytes :=
  match n with O => [] | S k => post_header c t :: sizes_from c (t + 1) k end.
Definition sizes_table (c : cfg) : bytes := sizes_from c 1 (Z.to_nat (c_nsizes c)).

Fixpoint pad_right (n : nat) (l : bytes) : bytes :=
  match n with O => [] | S k => match l with [] => 0 :: pad_right k [] | x :: r => x :: pad_right k r end end.

Definition crc_bytes (c : cfg) (crc : bytes) : bytes := if c_crc c then firstn 4 (pad_right 4 crc) else [].

(* an event whose common header may be longer than 19 bytes (zero padded) *)
Definition enc_ev (c : cfg) (h : hdr) (body crc : bytes) : bytes :=
  let extra := repeat 0 (Z.to_nat (c_hlen c - 19)) in
  let tail := crc_bytes c crc in
  enc_header_len h (c_hlen c + len body + len tail) ++ extra ++ body ++ tail.

(* the format description event always has a 19-byte header, the algorithm byte and a 4-byte checksum *)
Definition enc_format (c : cfg) (h : hdr) (version : bytes) (crc : bytes) : bytes :=
  let body := le_enc 2 4 ++ pad_right 50 version ++ le_enc 4 (h_ts h) ++ [c_hlen c] ++ sizes_table c ++
              [alg_of c] ++ firstn 4 (pad_right 4 crc) in
  enc_header_len h (19 + len body) ++ body.

Definition enc_rotate_body (pos : Z) (name : bytes) : bytes := le_enc 8 pos ++ name.
Definition enc_xid_body (xid : Z) : bytes := le_enc 8 xid.
Definition enc_intvar_body (t v : Z) : bytes := [t] ++ le_enc 8 v.
Definition enc_rand_body (a b : Z) : bytes := le_enc 8 a ++ le_enc 8 b.

(* status variables: (code, payload) pairs as MySQL lays them out *)
Definition enc_status_var (v : Z * bytes) : bytes := fst v :: snd v.
Definition enc_query_body (thread exec err : Z) (vars : list (Z * bytes)) (db sql : bytes) : bytes :=
  let vs := flat_map enc_status_var vars in
  le_enc 4 thread ++ le_enc 4 exec ++ [len db] ++ le_enc 2 err ++ le_enc 2 (len vs) ++ vs ++ db ++ [0] ++ sql.

(* length-encoded integer as the master writes it *)
Definition enc_lenenc (n : Z) : bytes :=
  if n <? 251 then [n]
  else if n <? 65536 then 252 :: le_enc 2 n
  else if n <? 16777216 then 253 :: le_enc 3 n
  else 254 :: le_enc 8 n.

(* bit i (LSB first within each byte) set iff nth i bits *)
Fixpoint pack_bits_byte (bits : list bool) (n : nat) (w : Z) : Z * list bool :=
  match n with
  | O => (0, bits)
  | S k =>
    match bits with
    | [] => (0, [])
    | b :: r => let '(v, rest) := pack_bits_byte r k (w * 2) in ((if b then w else 0) + v, rest)
    end
  end.
Fixpoint pack_bits_fuel (fuel : nat) (bits : list bool) : bytes :=
  match fuel with
  | O => []
  | S k => match bits with [] => [] | _ => let '(v, rest) := pack_bits_byte bits 8 1 in v :: pack_bits_fuel k rest end
  end.
Definition pack_bits (bits : list bool) : bytes := pack_bits_fuel (length bits) bits.

(* The same with padding pattern `pad` (a byte): when the number of bits is not a multiple of 8, the unused
   high bits k = n mod 8 .. 7 of the last byte are bits k of pad.  The bytes before the last one, the length
   ceil(n/8) and the n meaningful bits are those of pack_bits; pad 0 gives pack_bits itself
   (Proofs/BitmapProofs.v pack_bits_pad_0, pack_bits_pad_length, bitmap_bit_ok). *)
Definition pad_tail (pad : Z) (n : nat) : list bool :=
  match (n mod 8)%nat with
  | O => []
  | k => map (fun i => Z.testbit pad (Z.of_nat i)) (seq k (8 - k))
  end.
Definition pack_bits_pad (pad : Z) (bits : list bool) : bytes := pack_bits (bits ++ pad_tail pad (length bits)).

(* metadata bytes of one column, in the byte order the table map uses *)
Definition meta_bytes (ty : coltype) : bytes :=
  let m := meta_of ty in
  match ty with
  | TFloat | TDouble | TTimestamp2 _ | TDateTime2 _ | TTime2 _ | TBlob _ _ | TGeometry _ | TJson _ => [m]
  | TNewDecimal _ _ | TEnum _ _ | TSet _ _ | TChar _ => [m / 256; m mod 256]       (* big endian *)
  | TVarchar _ _ | TBit _ => [m mod 256; m / 256]                                  (* little endian *)
  | _ => []
  end.

Record table_def := {
  td_id : Z; td_flags : Z; td_db : bytes; td_name : bytes;
  td_cols : list (coltype * bool);              (* type, nullable *)
  td_optional : bytes                           (* optional metadata appended by newer servers *)
}.

Definition enc_table_id (c : cfg) (id : Z) : bytes := if c_tid4 c then le_enc 4 id else le_enc 6 id.

Definition enc_table_map_body (c : cfg) (t : table_def) : bytes :=
  let metas := flat_map (fun p => meta_bytes (fst p)) (td_cols t) in
  enc_table_id c (td_id t) ++ le_enc 2 (td_flags t) ++
  [len (td_db t)] ++ td_db t ++ [0] ++ [len (td_name t)] ++ td_name t ++ [0] ++
  enc_lenenc (len (td_cols t)) ++ map (fun p => code_of (fst p)) (td_cols t) ++
  enc_lenenc (len metas) ++ metas ++ pack_bits_pad (c_pad_tm c) (map snd (td_cols t)) ++ td_optional t.

(* a row image: for every column  absent | NULL | value *)
Inductive cellv := CAbsent | CNull | CVal (v : value).

Section Oracles.
Variable ffmt : Z -> Z -> bytes.
Variable tz : Z -> Z.
Variable efmt : Z -> bytes.

Definition present_bits (img : list cellv) : list bool :=
  map (fun c => match c with CAbsent => false | _ => true end) img.
Definition null_bits (img : list cellv) : list bool :=
  flat_map (fun c => match c with CAbsent => [] | CNull => [true] | CVal _ => [false] end) img.
Fixpoint image_cells (tys : list coltype) (img : list cellv) : bytes :=
  match tys, img with
  | ty :: tr, CVal v :: ir => enc_cell ty v ++ image_cells tr ir
  | _ :: tr, _ :: ir => image_cells tr ir
  | _, _ => []
  end.
(* pad: the padding pattern of the NULL bitmap *)
Definition enc_image (pad : Z) (tys : list coltype) (img : list cellv) : bytes :=
  pack_bits_pad pad (null_bits img) ++ image_cells tys img.

(* kind: 0 write, 1 update, 2 delete.  All rows of one event share the presence bitmaps. *)
Record rows_def := {
  rd_kind : Z; rd_id : Z; rd_flags : Z; rd_extra : bytes;
  rd_before : list (list cellv);     (* identify images (update, delete) *)
  rd_after : list (list cellv)       (* data images (write, update) *)
}.

Definition rows_type (c : cfg) (kind : Z) : Z := (if c_v2 c then 30 else 23) + kind.

Definition first_present (l : list (list cellv)) (n : nat) : list bool :=
  match l with img :: _ => present_bits img | [] => repeat true n end.

Fixpoint zip_rows (pad : Z) (tys : list coltype) (kind : Z) (b a : list (list cellv)) {struct b} : bytes :=
  match kind with
  | 0 => flat_map (enc_image pad tys) a
  | 2 => flat_map (enc_image pad tys) b
  | _ => match b, a with
         | x :: br, y :: ar => enc_image pad tys x ++ enc_image pad tys y ++ zip_rows pad tys kind br ar
         | _, _ => []
         end
  end.

Definition enc_rows_body (c : cfg) (tys : list coltype) (r : rows_def) : bytes :=
  let n := length tys in
  enc_table_id c (rd_id r) ++ le_enc 2 (rd_flags r) ++
  (if c_v2 c then le_enc 2 (2 + len (rd_extra r)) ++ rd_extra r else []) ++
  enc_lenenc (Z.of_nat n) ++
  (if rd_kind r =? 0 then [] else pack_bits_pad (c_pad_cols c) (first_present (rd_before r) n)) ++
  (if rd_kind r =? 2 then [] else pack_bits_pad (c_pad_cols c) (first_present (rd_after r) n)) ++
  zip_rows (c_pad_null c) tys (rd_kind r) (rd_before r) (rd_after r).

(* expected delivery of one image: per column (type code, absent flag, data) *)
Definition expect_cell (ty : coltype) (uns : bool) (cv : cellv) : Z * bool * option bytes :=
  match cv with
  | CAbsent => (code_of ty, true, None)
  | CNull => (code_of ty, false, None)
  | CVal v => (code_of ty, false, Some (text ffmt tz efmt ty uns v))
  end.

End Oracles.

(* MySQL 5.6 GTID event body: flags, SID, GNO (+ later extensions ignored by the decoder) *)
Definition enc_gtid_body (flags : Z) (sid : bytes) (gno : Z) : bytes := [flags] ++ sid ++ le_enc 8 gno.
