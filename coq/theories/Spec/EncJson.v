(* Specification side of JSON columns: the abstract document, what the master
   stores for it (ser — written from MySQL's sql/json_binary.cc:
   serialize_json_value / serialize_json_array / serialize_json_object /
   attempt_inline_value / append_variable_length, and my_time.c
   TIME_to_longlong_*_packed for the opaque temporal payloads), when a
   document is storable as described (wf_doc), and the text a consumer must
   receive (render, render_top).  Nothing here mentions the model. *)
From GB Require Import Base.Prelude Base.DecText Spec.ColTypes.
From Coq Require Import String.
Open Scope Z_scope.

Inductive jdoc :=
| JObj (large : bool) (kvs : list (bytes * jdoc))     (* members in stored order *)
| JArr (large : bool) (vs : list jdoc)
| JNull | JTrue | JFalse
| JInt16 (z : Z) | JUint16 (z : Z) | JInt32 (z : Z) | JUint32 (z : Z) | JInt64 (z : Z) | JUint64 (z : Z)
| JDouble (bits : Z)                                  (* IEEE-754 bit pattern *)
| JStr (s : bytes)
| JDate (y m d : Z)
| JTime (neg : bool) (h mi s us : Z)
| JDateTime (y m d h mi s us : Z)
| JDecimal (p s : Z) (neg : bool) (ip fp : list Z).   (* digit values, as in Values.VDecimal *)

(* ------------------------------------------------------------------ *)
(* ser                                                                *)

(* JSONB_TYPE_* *)
Definition tag (d : jdoc) : Z :=
  match d with
  | JObj large _ => if large then 1 else 0
  | JArr large _ => if large then 3 else 2
  | JNull | JTrue | JFalse => 4
  | JInt16 _ => 5 | JUint16 _ => 6 | JInt32 _ => 7 | JUint32 _ => 8 | JInt64 _ => 9 | JUint64 _ => 10
  | JDouble _ => 11
  | JStr _ => 12
  | JDate _ _ _ | JTime _ _ _ _ _ | JDateTime _ _ _ _ _ _ _ | JDecimal _ _ _ _ _ => 15
  end.

(* attempt_inline_value: the number stored in the value entry itself *)
Definition inline_val (large : bool) (d : jdoc) : option Z :=
  match d with
  | JNull => Some 0 | JTrue => Some 1 | JFalse => Some 2
  | JInt16 z | JUint16 z => Some z
  | JInt32 z | JUint32 z => if large then Some z else None
  | _ => None
  end.

(* append_variable_length: 7 bits per byte, least significant group first,
   high bit set on every byte but the last *)
Fixpoint enc_varlen_fuel (fuel : nat) (n : Z) : bytes :=
  match fuel with
  | O => []
  | S f => if n <? 128 then [n] else (128 + n mod 128) :: enc_varlen_fuel f (n / 128)
  end.
Definition enc_varlen (n : Z) : bytes := enc_varlen_fuel 10 n.

(* width of offsets / sizes / counts *)
Definition wd (large : bool) : nat := if large then 4%nat else 2%nat.

(* TIME_to_longlong_time_packed / _datetime_packed / _date_packed *)
Definition pack_time (neg : bool) (h mi s us : Z) : Z :=
  let mag := (h * 4096 + mi * 64 + s) * 16777216 + us in
  if neg then - mag else mag.
Definition pack_datetime (y m d h mi s us : Z) : Z :=
  (((y * 13 + m) * 32 + d) * 131072 + (h * 4096 + mi * 64 + s)) * 16777216 + us.

Definition opaque (field_type : Z) (payload : bytes) : bytes :=
  field_type :: enc_varlen (len payload) ++ payload.

(* a child as its parent sees it: type byte, inlined number if any, serialised value *)
Definition child := (Z * option Z * bytes)%type.

(* key entries: offset (2|4 bytes) and length (2 bytes) of each key *)
Fixpoint key_entries (w : nat) (off : Z) (ks : list bytes) : bytes :=
  match ks with
  | [] => []
  | k :: r => le_enc w off ++ le_enc 2 (len k) ++ key_entries w (off + len k) r
  end.

(* value entries: type byte, then the inlined number or the offset of the value *)
Fixpoint val_entries (w : nat) (off : Z) (cs : list child) : bytes :=
  match cs with
  | [] => []
  | (t, Some v, _) :: r => t :: le_enc w (v mod 256 ^ Z.of_nat w) ++ val_entries w off r
  | (t, None, b) :: r => t :: le_enc w off ++ val_entries w (off + len b) r
  end.

(* the values that are not inlined, in order *)
Fixpoint out_of_line (cs : list child) : bytes :=
  match cs with
  | [] => []
  | (_, Some _, _) :: r => out_of_line r
  | (_, None, b) :: r => b ++ out_of_line r
  end.

(* element count, total size, key entries, value entries, keys, values;
   every offset is relative to the first byte of the count *)
Definition container (large : bool) (keys : list bytes) (cs : list child) : bytes :=
  let w := wd large in
  let n := len cs in
  let koff := 2 * Z.of_nat w + len keys * (Z.of_nat w + 2) + n * (1 + Z.of_nat w) in
  let voff := koff + len (List.concat keys) in
  le_enc w n ++ le_enc w (voff + len (out_of_line cs)) ++
  key_entries w koff keys ++ val_entries w voff cs ++ List.concat keys ++ out_of_line cs.

(* the value without its type byte *)
Fixpoint body (d : jdoc) : bytes :=
  match d with
  | JObj large kvs =>
    container large (map fst kvs) (map (fun kv => (tag (snd kv), inline_val large (snd kv), body (snd kv))) kvs)
  | JArr large vs =>
    container large [] (map (fun v => (tag v, inline_val large v, body v)) vs)
  | JNull => [0] | JTrue => [1] | JFalse => [2]
  | JInt16 z | JUint16 z => le_enc 2 (z mod 2 ^ 16)
  | JInt32 z | JUint32 z => le_enc 4 (z mod 2 ^ 32)
  | JInt64 z | JUint64 z => le_enc 8 (z mod 2 ^ 64)
  | JDouble bits => le_enc 8 bits
  | JStr s => enc_varlen (len s) ++ s
  | JDate y m d => opaque 10 (le_enc 8 (pack_datetime y m d 0 0 0 0))
  | JTime neg h mi s us => opaque 11 (le_enc 8 (pack_time neg h mi s us mod 2 ^ 64))
  | JDateTime y m d h mi s us => opaque 12 (le_enc 8 (pack_datetime y m d h mi s us))
  | JDecimal p s neg ip fp => opaque 246 (p :: s :: enc_decimal p s neg ip fp)
  end.

(* the stored document *)
Definition ser (d : jdoc) : bytes := tag d :: body d.

(* ------------------------------------------------------------------ *)
(* wf_doc                                                             *)

(* characters that may not occur in keys and strings (the printer does not
   escape): apostrophe 39, double quote 34, backslash 92 *)
Definition plain_char (c : Z) : bool :=
  is_byteb c && negb (c =? 39) && negb (c =? 34) && negb (c =? 92).
Definition plain (s : bytes) : bool := forallb plain_char s.

Definition in_range (lo hi z : Z) : bool := (lo <=? z) && (z <? hi).

Fixpoint wf_docb (d : jdoc) : bool :=
  match d with
  | JObj large kvs =>
    forallb (fun kv => plain (fst kv) && (len (fst kv) <? 2 ^ 16) && wf_docb (snd kv)) kvs &&
    (len (body d) <? 256 ^ Z.of_nat (wd large))
  | JArr large vs =>
    forallb wf_docb vs && (len (body d) <? 256 ^ Z.of_nat (wd large))
  | JNull | JTrue | JFalse => true
  | JInt16 z => in_range (- 2 ^ 15) (2 ^ 15) z
  | JUint16 z => in_range 0 (2 ^ 16) z
  | JInt32 z => in_range (- 2 ^ 31) (2 ^ 31) z
  | JUint32 z => in_range 0 (2 ^ 32) z
  | JInt64 z => in_range (- 2 ^ 63) (2 ^ 63) z
  | JUint64 z => in_range 0 (2 ^ 64) z
  | JDouble bits => in_range 0 (2 ^ 64) bits
  | JStr s => plain s && (len s <? 2 ^ 32)
  | JDate y m d => in_range 0 10000 y && in_range 0 13 m && in_range 0 32 d
  | JTime neg h mi s us =>
    in_range 0 839 h && in_range 0 60 mi && in_range 0 60 s && in_range 0 1000000 us &&
    (negb neg || (0 <? h + mi + s + us))                 (* there is no negative zero *)
  | JDateTime y m d h mi s us =>
    in_range 0 10000 y && in_range 0 13 m && in_range 0 32 d &&
    in_range 0 24 h && in_range 0 60 mi && in_range 0 60 s && in_range 0 1000000 us
  | JDecimal p s neg ip fp =>
    wf_type (TNewDecimal p s) && wf_decimalb p s neg ip fp
  end.
Definition wf_doc (d : jdoc) : Prop := wf_docb d = true.

(* nesting depth: scalars 0 *)
Fixpoint depth (d : jdoc) : nat :=
  match d with
  | JObj _ kvs => S (fold_right (fun kv a => Nat.max (depth (snd kv)) a) O kvs)
  | JArr _ vs => S (fold_right (fun v a => Nat.max (depth v) a) O vs)
  | _ => O
  end.

(* ------------------------------------------------------------------ *)
(* render                                                             *)

Fixpoint sep_by (sep : bytes) (l : list bytes) : bytes :=
  match l with
  | [] => []
  | [x] => x
  | x :: r => x ++ sep ++ sep_by sep r
  end.

Definition text_micro (us : Z) : bytes := if us =? 0 then [] else 46 :: pad0 6 us.

Section Render.
Variable efmt : Z -> bytes.

(* a value nested in JSON_ARRAY(...) / JSON_OBJECT(...) *)
Fixpoint render (d : jdoc) : bytes :=
  match d with
  | JObj _ kvs =>
    str "JSON_OBJECT(" ++ sep_by [44] (map (fun kv => 39 :: fst kv ++ [39; 44] ++ render (snd kv)) kvs) ++ [41]
  | JArr _ vs => str "JSON_ARRAY(" ++ sep_by [44] (map render vs) ++ [41]
  | JNull => str "null" | JTrue => str "true" | JFalse => str "false"
  | JInt16 z | JUint16 z | JInt32 z | JUint32 z | JInt64 z | JUint64 z => digs_Z z
  | JDouble bits => efmt bits
  | JStr s => 39 :: s ++ [39]
  | JDate y m d => str "CAST('" ++ text_date y m d ++ str "' AS DATE)"
  | JTime neg h mi s us =>
    str "CAST('" ++ (if neg then [45] else []) ++ text_hour h ++ [58] ++ pad0 2 mi ++ [58] ++ pad0 2 s ++
    text_micro us ++ str "' AS TIME(6))"
  | JDateTime y m d h mi s us =>
    str "CAST('" ++ text_date y m d ++ [32] ++ text_clock h mi s ++ text_micro us ++ str "' AS DATETIME(6))"
  | JDecimal p s neg ip fp =>
    str "CAST('" ++ text_decimal neg ip fp ++ str "' AS DECIMAL(" ++ digs p ++ [44] ++ digs s ++ str "))"
  end.

(* the whole column value: containers as above; a scalar is an SQL string
   holding the JSON text (so a string is '"..."'); opaque values are cast to JSON *)
Definition render_top (d : jdoc) : bytes :=
  match d with
  | JObj _ _ | JArr _ _ => render d
  | JStr s => str "'""" ++ s ++ str """'"
  | JDate _ _ _ | JTime _ _ _ _ _ | JDateTime _ _ _ _ _ _ _ | JDecimal _ _ _ _ _ =>
    str "CAST(" ++ render d ++ str " AS JSON)"
  | _ => 39 :: render d ++ [39]
  end.

End Render.

(* ------------------------------------------------------------------ *)
(* equality up to storage choices: integer width tags and small/large flags *)
Fixpoint norm (d : jdoc) : jdoc :=
  match d with
  | JObj _ kvs => JObj false (map (fun kv => (fst kv, norm (snd kv))) kvs)
  | JArr _ vs => JArr false (map norm vs)
  | JInt16 z | JUint16 z | JInt32 z | JUint32 z | JInt64 z | JUint64 z => JInt64 z
  | d => d
  end.
Definition jequiv (d1 d2 : jdoc) : Prop := norm d1 = norm d2.

(* ------------------------------------------------------------------ *)
(* what render_injective needs to know about the 'E' formatting oracle:
   its output is a token (no separator, closing parenthesis or apostrophe),
   starts like a number ("NaN", "+Inf" included), is never an integer
   literal, and distinct finite doubles print differently (shortest
   round-trip formatting).  JSON has no NaN / infinities. *)
Definition efmt_token (efmt : Z -> bytes) : Prop :=
  forall b,
    (forall c, In c (efmt b) -> c <> 44 /\ c <> 41 /\ c <> 39) /\
    (exists c t, efmt b = c :: t /\ (48 <= c <= 57 \/ c = 45 \/ c = 43 \/ c = 78)) /\
    (forall z, efmt b <> digs_Z z).

Definition finite_bits (b : Z) : bool := negb ((b / 2 ^ 52) mod 2 ^ 11 =? 2047).

Definition efmt_injective (efmt : Z -> bytes) : Prop :=
  forall a b, finite_bits a = true -> finite_bits b = true -> efmt a = efmt b -> a = b.

Fixpoint finite_doubles (d : jdoc) : bool :=
  match d with
  | JObj _ kvs => forallb (fun kv => finite_doubles (snd kv)) kvs
  | JArr _ vs => forallb finite_doubles vs
  | JDouble b => finite_bits b
  | _ => true
  end.
