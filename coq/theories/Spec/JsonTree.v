(* JSON trees with ordered objects, the text encoding/json writes for them
   (render_json: a model of the library's compact output with HTML escaping on,
   Go 1.23 encode.go appendString / tables.go htmlSafeSet), and an independent
   reader of RFC 8259 texts (parse_json).  Definitions only. *)
From GB Require Import Base.Prelude Base.DecText Base.Utf8.
From Coq Require Import String.
Open Scope Z_scope.

Inductive jvalue :=
| JNull
| JBool (b : bool)
| JNum (z : Z)
| JStr (s : bytes)
| JArr (l : list jvalue)
| JObj (l : list (bytes * jvalue)).

(* ------------------------------------------------------------------ *)
(* Writer: encoding/json *)

Definition hexlow (n : Z) : Z := if n <? 10 then 48 + n else 87 + n.     (* lower-case hex digit *)

Definition u00 (b : Z) : bytes := [92; 117; 48; 48; hexlow (b / 16); hexlow (b mod 16)].   (* \u00XX *)

(* what appendString(dst, s, escapeHTML=true) appends for one decoding step *)
Definition chunk_esc (ch : chunk) : bytes :=
  match ch with
  | Bad _ => [92; 117; 102; 102; 102; 100]                    (* \ufffd *)
  | Good bs c =>
    if c <? 128 then
      if (c =? 34) || (c =? 92) then [92; c]                   (* quote and backslash: backslash + the character *)
      else if c =? 8 then [92; 98]                             (* \b *)
      else if c =? 12 then [92; 102]                           (* \f *)
      else if c =? 10 then [92; 110]                           (* \n *)
      else if c =? 13 then [92; 114]                           (* \r *)
      else if c =? 9 then [92; 116]                            (* \t *)
      else if (c <? 32) || (c =? 60) || (c =? 62) || (c =? 38) then u00 c    (* controls, < > & *)
      else bs
    else if c =? 8232 then [92; 117; 50; 48; 50; 56]          (* \u2028 *)
    else if c =? 8233 then [92; 117; 50; 48; 50; 57]          (* \u2029 *)
    else bs
  end.

Definition escape (s : bytes) : bytes := flat_map chunk_esc (utf8_chunks s).

Definition quote (s : bytes) : bytes := 34 :: escape s ++ [34].

(* x1,x2,...,xn *)
Fixpoint sep_concat (ls : list bytes) : bytes :=
  match ls with
  | [] => []
  | x :: r => match r with [] => x | _ => x ++ 44 :: sep_concat r end
  end.

Fixpoint render_json (j : jvalue) : bytes :=
  match j with
  | JNull => str "null"
  | JBool b => if b then str "true" else str "false"
  | JNum z => digs_Z z                                         (* strconv.AppendInt(_, z, 10) *)
  | JStr s => quote s
  | JArr l => 91 :: sep_concat (map render_json l) ++ [93]
  | JObj l => 123 :: sep_concat (map (fun kv => quote (fst kv) ++ 58 :: render_json (snd kv)) l) ++ [125]
  end.

(* the tree a reader of the rendered text sees: every string sanitised *)
Fixpoint sanitize_j (j : jvalue) : jvalue :=
  match j with
  | JStr s => JStr (sanitize s)
  | JArr l => JArr (map sanitize_j l)
  | JObj l => JObj (map (fun kv => (sanitize (fst kv), sanitize_j (snd kv))) l)
  | _ => j
  end.

(* all strings (keys included) are valid UTF-8 / are byte strings *)
Fixpoint all_strings (p : bytes -> bool) (j : jvalue) : bool :=
  match j with
  | JStr s => p s
  | JArr l => forallb (all_strings p) l
  | JObj l => forallb (fun kv => p (fst kv) && all_strings p (snd kv)) l
  | _ => true
  end.

Definition valid_j : jvalue -> bool := all_strings valid_utf8.
Definition wf_jb : jvalue -> bool := all_strings wf_bytesb.

(* ------------------------------------------------------------------ *)
(* Reader: RFC 8259 *)

Definition is_ws (c : Z) : bool := (c =? 32) || (c =? 9) || (c =? 10) || (c =? 13).   (* ws, section 2 *)

Fixpoint skip_ws (s : bytes) : bytes :=
  match s with
  | c :: r => if is_ws c then skip_ws r else s
  | [] => []
  end.

Definition hexval (c : Z) : option Z :=
  if (48 <=? c) && (c <=? 57) then Some (c - 48)
  else if (97 <=? c) && (c <=? 102) then Some (c - 87)
  else if (65 <=? c) && (c <=? 70) then Some (c - 55)
  else None.

Definition hex4 (a b c d : Z) : option Z :=
  match hexval a, hexval b, hexval c, hexval d with
  | Some x, Some y, Some z, Some w => Some (((x * 16 + y) * 16 + z) * 16 + w)
  | _, _, _, _ => None
  end.

(* section 7: two-character escapes for quote, backslash, slash, b f n r t *)
Definition simple_escape (e : Z) : option Z :=
  if e =? 34 then Some 34 else if e =? 92 then Some 92 else if e =? 47 then Some 47
  else if e =? 98 then Some 8 else if e =? 102 then Some 12 else if e =? 110 then Some 10
  else if e =? 114 then Some 13 else if e =? 116 then Some 9 else None.

Definition is_surrogate (u : Z) : bool := (55296 <=? u) && (u <=? 57343).
Definition is_high (u : Z) : bool := (55296 <=? u) && (u <=? 56319).
Definition is_low (u : Z) : bool := (56320 <=? u) && (u <=? 57343).
Definition pair_cp (hi lo : Z) : Z := 65536 + (hi - 55296) * 1024 + (lo - 56320).

Definition prepend (p : bytes) (o : option (bytes * bytes)) : option (bytes * bytes) :=
  match o with Some (s, r) => Some (p ++ s, r) | None => None end.

(* the characters after an opening quote, up to and including the closing
   quote: (decoded string as UTF-8, rest).  \uXXXX escapes become UTF-8; a
   surrogate pair is one code point; an unpaired surrogate escape (allowed by
   the grammar, meaning left open by section 8.2) reads as U+FFFD. *)
Fixpoint parse_string (s : bytes) : option (bytes * bytes) :=
  match s with
  | [] => None
  | c :: r =>
    if c =? 34 then Some ([], r)
    else if c =? 92 then
      match r with
      | [] => None
      | e :: r1 =>
        if e =? 117 then
          match r1 with
          | h1 :: h2 :: h3 :: h4 :: r2 =>
            match hex4 h1 h2 h3 h4 with
            | None => None
            | Some u =>
              if is_surrogate u then
                match r2 with
                | b :: v :: l1 :: l2 :: l3 :: l4 :: r3 =>
                  match (if (b =? 92) && (v =? 117) then hex4 l1 l2 l3 l4 else None) with
                  | Some lo =>
                    if is_high u && is_low lo then prepend (utf8_enc (pair_cp u lo)) (parse_string r3)
                    else prepend fffd (parse_string r2)
                  | None => prepend fffd (parse_string r2)
                  end
                | _ => prepend fffd (parse_string r2)
                end
              else prepend (utf8_enc u) (parse_string r2)
            end
          | _ => None
          end
        else
          match simple_escape e with
          | Some x => prepend [x] (parse_string r1)
          | None => None
          end
      end
    else if c <? 32 then None                     (* control characters must be escaped *)
    else prepend [c] (parse_string r)
  end.

Fixpoint span_digits (s : bytes) : bytes * bytes :=
  match s with
  | c :: r => if is_digitb c then let (d, t) := span_digits r in (c :: d, t) else ([], s)
  | [] => ([], [])
  end.

(* section 6: [ minus ] int [ frac ] [ exp ], int = zero / ( digit1-9 *DIGIT ).
   The tree type only has integers: a number with a fraction or an exponent is
   refused (this reader accepts a subset of RFC 8259 texts). *)
Definition parse_number (s : bytes) : option (Z * bytes) :=
  let '(neg, s1) := match s with
                    | c :: r => if c =? 45 then (true, r) else (false, s)
                    | [] => (false, s)
                    end in
  let '(ds, rest) := span_digits s1 in
  match ds with
  | [] => None
  | d0 :: dr =>
    if (d0 =? 48) && negb (match dr with [] => true | _ => false end) then None       (* leading zero *)
    else
      let ok := match rest with
                | c :: _ => negb ((c =? 46) || (c =? 101) || (c =? 69))
                | [] => true
                end in
      if ok then Some (if neg then - dec_val ds else dec_val ds, rest) else None
  end.

Fixpoint strip_prefix (w s : bytes) : option bytes :=
  match w with
  | [] => Some s
  | a :: w' => match s with
               | b :: s' => if a =? b then strip_prefix w' s' else None
               | [] => None
               end
  end.

(* section 2-5: value, array elements, object members; (value, rest) *)
Fixpoint parse_value (fuel : nat) (s : bytes) : option (jvalue * bytes) :=
  match fuel with
  | O => None
  | S f =>
    match skip_ws s with
    | [] => None
    | c :: r =>
      if c =? 110 then match strip_prefix (str "ull") r with Some t => Some (JNull, t) | None => None end
      else if c =? 116 then match strip_prefix (str "rue") r with Some t => Some (JBool true, t) | None => None end
      else if c =? 102 then match strip_prefix (str "alse") r with Some t => Some (JBool false, t) | None => None end
      else if c =? 34 then match parse_string r with Some (x, t) => Some (JStr x, t) | None => None end
      else if c =? 91 then
        match skip_ws r with
        | [] => None
        | c1 :: t => if c1 =? 93 then Some (JArr [], t)
                     else match parse_elems f r with Some (l, u) => Some (JArr l, u) | None => None end
        end
      else if c =? 123 then
        match skip_ws r with
        | [] => None
        | c1 :: t => if c1 =? 125 then Some (JObj [], t)
                     else match parse_members f r with Some (l, u) => Some (JObj l, u) | None => None end
        end
      else match parse_number (c :: r) with Some (z, t) => Some (JNum z, t) | None => None end
    end
  end
with parse_elems (fuel : nat) (s : bytes) : option (list jvalue * bytes) :=
  match fuel with
  | O => None
  | S f =>
    match parse_value f s with
    | None => None
    | Some (v, r) =>
      match skip_ws r with
      | [] => None
      | c :: t =>
        if c =? 44 then match parse_elems f t with Some (l, u) => Some (v :: l, u) | None => None end
        else if c =? 93 then Some ([v], t)
        else None
      end
    end
  end
with parse_members (fuel : nat) (s : bytes) : option (list (bytes * jvalue) * bytes) :=
  match fuel with
  | O => None
  | S f =>
    match skip_ws s with
    | [] => None
    | q :: r =>
      if q =? 34 then
        match parse_string r with
        | None => None
        | Some (k, r1) =>
          match skip_ws r1 with
          | [] => None
          | c1 :: r2 =>
            if c1 =? 58 then
              match parse_value f r2 with
              | None => None
              | Some (v, r3) =>
                match skip_ws r3 with
                | [] => None
                | c3 :: r4 =>
                  if c3 =? 44 then match parse_members f r4 with Some (l, u) => Some ((k, v) :: l, u) | None => None end
                  else if c3 =? 125 then Some ([(k, v)], r4)
                  else None
                end
              end
            else None
          end
        end
      else None
    end
  end.

(* JSON-text = ws value ws, encoded in UTF-8 (section 8.1) *)
Definition parse_json_bytes (s : bytes) : option jvalue :=
  match parse_value (S (List.length s)) s with
  | Some (v, r) => match skip_ws r with [] => Some v | _ => None end
  | None => None
  end.

Definition parse_json (s : bytes) : option jvalue :=
  if valid_utf8 s then parse_json_bytes s else None.
