(* Specification side of C16: side conditions, expected results and the
   generalised format-description encoder.  Definitions only. *)
From GB Require Import Base.Prelude Spec.EncHeader Spec.EncEvent Model.Header Model.Events.
Open Scope Z_scope.

(* ---- format description with an arbitrary post-header-length table ---- *)
(* the same layout as enc_format, but header length, size table and algorithm byte are free *)
Definition enc_format_gen (h : hdr) (version : bytes) (hlen : Z) (sizes : bytes) (alg : Z) (crc : bytes) : bytes :=
  let body := le_enc 2 4 ++ pad_right 50 version ++ le_enc 4 (h_ts h) ++ [hlen] ++ sizes ++
              [alg] ++ firstn 4 (pad_right 4 crc) in
  enc_header_len h (19 + len body) ++ body.

(* the server version field is a NUL padded 50-byte field: a version text ending in a zero byte
   cannot be told from the shorter text *)
Definition no_trailing_zero (version : bytes) : bool :=
  match rev version with 0 :: _ => false | _ => true end.

(* the text the field denotes: trailing zero bytes removed *)
Fixpoint strip_zeros_rev (l : bytes) : bytes := match l with 0 :: r => strip_zeros_rev r | _ => l end.
Definition denoted_version (version : bytes) : bytes := rev (strip_zeros_rev (rev version)).

(* ---- configurations ---- *)
Definition set_crc (c : cfg) (b : bool) : cfg :=
  {| c_crc := b; c_v2 := c_v2 c; c_tid4 := c_tid4 c; c_hlen := c_hlen c; c_nsizes := c_nsizes c;
     c_pad_cols := c_pad_cols c; c_pad_null := c_pad_null c; c_pad_tm := c_pad_tm c |}.

(* an event after its checksum was cut off: the length field still counts the checksum *)
Definition enc_ev_stripped (c : cfg) (h : hdr) (body : bytes) : bytes :=
  enc_header_len h (c_hlen c + len body + (if c_crc c then 4 else 0)) ++
  repeat 0 (Z.to_nat (c_hlen c - 19)) ++ body.

(* "drop the last four bytes" (a Go slice expression: panics on shorter buffers) *)
Definition cut4 (ev : bytes) : res bytes :=
  if (length ev <? 4)%nat then Panic else Ok (firstn (length ev - 4) ev).

(* event types that start with a table id, for the configuration *)
Definition is_tid_type (c : cfg) (t : Z) : bool :=
  (t =? 19) || ((rows_type c 0 <=? t) && (t <=? rows_type c 2)).

Definition tid_fits (c : cfg) (id : Z) : bool :=
  (0 <=? id) && (id <? (if c_tid4 c then 2 ^ 32 else 2 ^ 48)).

(* ---- rotate ---- *)
(* the position is written as 8 bytes and read through an int64 cast *)
Definition expect_rotate_pos (p : Z) : Z := if p <? 2 ^ 63 then p else p - 2 ^ 64.

(* ---- query status variables ---- *)
(* codes whose payload the scanner knows how to skip *)
Definition sized_code (c : Z) : bool :=
  (c =? 0) || (c =? 1) || (c =? 2) || (c =? 3) || (c =? 4) || (c =? 6).

(* payload layout MySQL writes for those codes; any payload for the others.
   code 2: length byte, that many bytes, one terminator byte; code 6: length byte, that many bytes *)
Definition var_shape_ok (v : Z * bytes) : bool :=
  let c := fst v in let p := snd v in
  if (c =? 0) || (c =? 3) then (length p =? 4)%nat
  else if c =? 1 then (length p =? 8)%nat
  else if c =? 4 then (length p =? 6)%nat
  else if c =? 2 then match p with l :: r => (0 <=? l) && (len r =? l + 1) | [] => false end
  else if c =? 6 then match p with l :: r => (0 <=? l) && (len r =? l) | [] => false end
  else true.

(* Q_CATALOG_NZ_CODE (6) is written where Q_CATALOG_CODE (2) used to be *)
Definition var_rank (c : Z) : Z := if c =? 6 then 2 else c.
Fixpoint ranks_increasing (lo : Z) (codes : list Z) : bool :=
  match codes with
  | [] => true
  | c :: r => (lo <? var_rank c) && ranks_increasing (var_rank c) r
  end.

(* status variables as a master can emit them: codes are bytes, in emission order
   0,1,(2|6),3,4,5,7,8,... each at most once, sized codes with their layout *)
Definition legal_order (vars : list (Z * bytes)) : bool :=
  forallb (fun v => (0 <=? fst v) && (fst v <=? 255)) vars &&
  ranks_increasing (-1) (map fst vars) &&
  forallb var_shape_ok vars.

Definition charset_of (p : bytes) : Z * Z * Z :=
  (le_dec (firstn 2 p), le_dec (firstn 2 (skipn 2 p)), le_dec (firstn 2 (skipn 4 p))).

(* the session charset written by the master: payload of code 4, when present *)
Definition charset_in (vars : list (Z * bytes)) : option (Z * Z * Z) :=
  match find (fun v => fst v =? 4) vars with
  | Some v => Some (charset_of (snd v))
  | None => None
  end.

(* what a scanner that stops at the first code it cannot size sees, for variables in ANY order *)
Fixpoint charset_scan (vars : list (Z * bytes)) (cs : option (Z * Z * Z)) : option (Z * Z * Z) :=
  match vars with
  | [] => cs
  | v :: r => if sized_code (fst v) then charset_scan r (if fst v =? 4 then Some (charset_of (snd v)) else cs) else cs
  end.

Definition vars_bytes (vars : list (Z * bytes)) : bytes := flat_map enc_status_var vars.

(* the query event fits its own length fields *)
Definition query_fits (vars : list (Z * bytes)) (db : bytes) : bool :=
  (len (vars_bytes vars) <? 65536) && (len db <=? 255).

(* ---- the observable results of all decoders that C16 compares with and without checksum ---- *)
Definition decode_all (f : format) (ev : bytes) :=
  (ev_rotate f ev, ev_query f ev, ev_intvar f ev, ev_rand f ev, ev_table_id f ev,
   (ev_type ev, ev_flags ev, ev_timestamp ev, ev_server_id ev, ev_next_position ev)).
