(* Specification of the streamer at the level of binlog units: what a
   consumer must receive for a sequence of units, with position labels.
   Independent of the loop in Model/Streamer.v: a plain fold over units. *)
From GB Require Import Base.Prelude Model.Events Model.Streamer.
Open Scope Z_scope.

(* one logged statement / row change, with the header fields of its event *)
Record stmt := { st_ev : sevent; st_next : Z; st_ts : Z }.

Inductive unit :=
| UTx (stmts : list stmt) (nx ts : Z)        (* BEGIN ... XID / COMMIT; nx, ts: the commit event's header *)
| URolled (stmts : list stmt) (nx ts : Z)    (* BEGIN ... ROLLBACK *)
| UAuto (s : stmt)                           (* statement outside BEGIN...COMMIT: DDL, autocommitted change *)
| URotate (name : bytes) (off : Z).          (* log rotation *)

Definition stmt_event (s : stmt) : aevent := AStmt (st_ev s) (st_next s) (st_ts s).

(* the decoded events of a unit, in the order the master logs them *)
Definition events_of (u : unit) : list aevent :=
  match u with
  | UTx ss nx ts => ABegin :: map stmt_event ss ++ [ACommit nx ts]
  | URolled ss nx ts => ABegin :: map stmt_event ss ++ [ARollback nx ts]
  | UAuto s => [stmt_event s]
  | URotate name off => [ARotate name off]
  end.
Definition events (us : list unit) : list aevent := flat_map events_of us.

Definition at_off (p : position) (off : Z) : position := {| p_file := p_file p; p_off := off |}.

(* what must be delivered for one unit starting at position p, and the position afterwards *)
Definition spec_unit (p : position) (u : unit) : list tx * position :=
  match u with
  | UTx ss nx ts =>
    ([{| t_now := p; t_next := at_off p nx; t_ts := ts; t_events := Some (map st_ev ss) |}], at_off p nx)
  | URolled ss nx ts =>
    ([{| t_now := p; t_next := at_off p nx; t_ts := ts; t_events := None |}], at_off p nx)
  | UAuto s =>
    ([{| t_now := p; t_next := at_off p (st_next s); t_ts := st_ts s; t_events := Some [st_ev s] |}], at_off p (st_next s))
  | URotate name off => ([], {| p_file := name; p_off := off |})
  end.

Fixpoint spec_run (p : position) (us : list unit) : list tx * position :=
  match us with
  | [] => ([], p)
  | u :: r =>
    let '(t1, p1) := spec_unit p u in
    let '(t2, p2) := spec_run p1 r in
    (t1 ++ t2, p2)
  end.

(* the units that lie wholly within the first k events *)
Fixpoint units_within (k : nat) (us : list unit) : list unit :=
  match us with
  | [] => []
  | u :: r =>
    let n := length (events_of u) in
    if (n <=? k)%nat then u :: units_within (k - n) r else []
  end.

(* events that never change what is delivered: format descriptions, table maps, GTID and unknown events, ... *)
Definition quiet (a : aevent) : bool :=
  match a with ANop | AFormat _ | ATable _ _ _ => true | _ => false end.
