(* Where the bytes of a delivered value live (C08).  CellBytes returns, for some types, a sub-slice of the row
   image (itself a sub-slice of the event's private copy of the packet, slave_connection.go readBinlogEvent);
   for all other types it builds a new buffer.  cell_view mirrors exactly the sub-slicing cases. *)
From GB Require Import Base.Prelude Model.Cell.
From GBGen Require Import Consts.
Open Scope Z_scope.

Definition lenpfx_view (d : bytes) (pos : nat) (two : bool) : res (nat * nat) :=
  if two then do l <- le_at d pos 2; do _ <- take d (pos + 2) l; Ok ((pos + 2)%nat, Z.to_nat l)
  else do l <- at_ d pos; do _ <- take d (pos + 1) l; Ok ((pos + 1)%nat, Z.to_nat l).

(* Some (start, length): the value is d[start : start+length] itself; None: a freshly built buffer (or an error) *)
Definition cell_view (d : bytes) (pos : nat) (typ meta : Z) : option (nat * nat) :=
  let ok (r : res (nat * nat)) := match r with Ok v => Some v | _ => None end in
  if (typ =? K_TypeVarchar) || (typ =? K_TypeVarString) then ok (lenpfx_view d pos (meta >? 255))
  else if typ =? K_TypeBit then
    let nbits := u16 (u16 (shr meta 8 * 8) + band meta 255) in
    let l := (nbits + 7) / 8 in
    ok (do _ <- take d pos l; Ok (pos, Z.to_nat l))
  else if typ =? K_TypeSet then
    let l := band meta 255 in ok (do _ <- take d pos l; Ok (pos, Z.to_nat l))
  else if (typ =? K_TypeTinyBlob) || (typ =? K_TypeMediumBlob) || (typ =? K_TypeLongBlob) || (typ =? K_TypeBlob) ||
          (typ =? K_TypeGeometry) then
    ok (do l <- blob_len d pos meta; do _ <- take d (pos + Z.to_nat meta) l; Ok ((pos + Z.to_nat meta)%nat, Z.to_nat l))
  else if typ =? K_TypeString then
    let t := shr meta 8 in
    if (t =? K_TypeEnum) || (t =? K_TypeSet) then None
    else ok (lenpfx_view d pos (string_max meta >? 255))
  else None.
