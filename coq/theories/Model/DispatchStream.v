(* Dispatcher entries for events, table maps, rows and the streamer (glue). *)
From Coq Require Import String.
From GB Require Import Base.Prelude Base.DecText Base.Sexp.
From GB Require Import Model.Header Model.Events Model.Cell Model.Rbr Model.Streamer Model.Handshake Model.DispatchCell.
Open Scope string_scope.
Open Scope list_scope.
Open Scope Z_scope.

Definition v_format (f : format) : list val :=
  [vint (f_version f); vhex (f_server f); vint (f_hlen f); vint (f_alg f); vhex (f_sizes f)].

Definition parse_format (v : val) : option format :=
  match v with
  | L [a; b; c; d; e] =>
    match as_int a, as_hex b, as_int c, as_int d, as_hex e with
    | Some a, Some b, Some c, Some d, Some e =>
      Some {| f_version := a; f_server := b; f_hlen := c; f_alg := d; f_sizes := e |}
    | _, _, _, _, _ => None
    end
  | _ => None
  end.

(* canonical form: count and the bit values for i < count (P = index out of range) *)
Fixpoint bits_from (b : bitmap) (i n : nat) : bytes :=
  match n with
  | O => []
  | S k => (match bit b i with Ok true => 49 | Ok false => 48 | _ => 80 end) :: bits_from b (S i) k
  end.
Definition v_bitmap (b : bitmap) : val := L [vnat (bm_count b); A (98 :: bits_from b 0 (bm_count b))].
Definition v_charset (c : option (Z * Z * Z)) : val :=
  match c with None => vsym "nil" | Some (a, b, c) => L [vint a; vint b; vint c] end.
Definition v_query (q : query) : val := L [vhex (q_db q); vhex (q_sql q); v_charset (q_charset q)].
Definition v_table_map (t : table_map) : list val :=
  [vint (tm_flags t); vhex (tm_db t); vhex (tm_name t); vhex (tm_types t); v_bitmap (tm_can_be_null t);
   L (map vint (tm_meta t))].
Definition parse_table_map (v : val) : option table_map :=
  match v with
  | L [a; b; c; d; L [e2; e1]; L ms] =>
    match as_int a, as_hex b, as_hex c, as_hex d, as_nat e2, map_opt as_int ms with
    | Some a, Some b, Some c, Some d, Some e2, Some ms =>
      (* the nullability bits are not needed to decode rows: rebuilt as all-zero *)
      Some {| tm_flags := a; tm_db := b; tm_name := c; tm_types := d;
              tm_can_be_null := {| bm_data := repeat 0 ((e2 + 7) / 8)%nat; bm_count := e2 |}; tm_meta := ms |}
    | _, _, _, _, _, _ => None
    end
  | _ => None
  end.
Definition v_row (r : row) : val :=
  L [v_bitmap (r_null_ident r); v_bitmap (r_null_data r); vopt_hex (r_ident r); vopt_hex (r_data r)].
Definition v_rows (r : rows) : list val :=
  [vint (rs_flags r); v_bitmap (rs_ident_cols r); v_bitmap (rs_data_cols r); L (map v_row (rs_rows r))].

Definition v_pos (p : position) : val := L [vhex (p_file p); vint (p_off p)].
Definition v_column (c : column) : val := L [vhex (c_field c); vint (c_type c); vbool (c_empty c); vopt_hex (c_data c)].
Definition v_rowdata (r : rowdata) : val := L (map v_column r).
Definition v_sevent (e : sevent) : val :=
  L [vint (se_type e); L [vhex (fst (se_table e)); vhex (snd (se_table e))]; v_query (se_query e); vint (se_ts e);
     L (map v_rowdata (se_values e)); L (map v_rowdata (se_ids e))].
Definition v_tx (t : tx) : val :=
  L [v_pos (t_now t); v_pos (t_next t); vint (t_ts t);
     match t_events t with None => vsym "nil" | Some l => L (map v_sevent l) end].
Definition cause_name (c : cause) : string :=
  match c with
  | CInvalid => "invalid" | CFormat => "format" | CNoFormat => "noformat" | CChecksum => "checksum"
  | CHandler => "handler" | CRotate => "rotate" | CQuery => "query" | CTableMap => "tablemap"
  | CMapper => "mapper" | CMismatch => "mismatch" | CUnknownTable => "unknowntable" | CRows => "rows"
  | CCell => "cell" | CRand => "rand" | CIntVar => "intvar" | CRowsQuery => "rowsquery"
  end.
Definition v_outcome (o : outcome) : val :=
  match o with OEnd => L [vsym "end"] | OErr c => L [vsym "err"; vsym (cause_name c)] | OPanic => L [vsym "panic"] end.

(* mapper given as a list of (db table namedb nametable ((field unsigned) ...)) *)
Definition parse_mapper_entry (v : val) : option (bytes * bytes * tinfo) :=
  match v with
  | L [a; b; c; d; L cols] =>
    match as_hex a, as_hex b, as_hex c, as_hex d,
          map_opt (fun x => match x with L [f; u] => match as_hex f, as_bool u with Some f, Some u => Some (f, u) | _, _ => None end | _ => None end) cols with
    | Some a, Some b, Some c, Some d, Some cols => Some (a, b, {| ti_name := (c, d); ti_cols := cols |})
    | _, _, _, _, _ => None
    end
  | _ => None
  end.
Fixpoint mapper_of (l : list (bytes * bytes * tinfo)) (db tbl : bytes) : option tinfo :=
  match l with
  | [] => None
  | (a, b, ti) :: r => if bytes_eqb a db && bytes_eqb b tbl then Some ti else mapper_of r db tbl
  end.

Definition verdict_of (l : list bool) (k : nat) : bool := nth k l true.

Definition dispatch_stream (jsonp : bytes -> res bytes) (op : bytes) (args : list val) : option val :=
  let bad s := Some (L [vsym "bad"; vsym s]) in
  if op_is op "format" then
    match args with
    | [a] => match as_hex a with Some ev => Some (vres v_format (ev_format ev)) | None => bad "arg" end
    | _ => bad "arity"
    end
  else if op_is op "control" then
    (* (control fmt ev flavor) -> rotate, query, intvar, rand, table_id, strip *)
    match args with
    | [f; a; fl] =>
      match parse_format f, as_hex a, as_int fl with
      | Some f, Some ev, Some fl =>
        Some (L [vres (fun p => [vhex (fst p); vint (snd p)]) (ev_rotate f ev);
                 vres (fun q => [v_query q]) (ev_query f ev);
                 vres (fun p => [vint (fst p); vint (snd p)]) (ev_intvar f ev);
                 vres (fun p => [vint (fst p); vint (snd p)]) (ev_rand f ev);
                 vres (fun z => [vint z]) (ev_table_id f ev);
                 vres (fun b => [vhex b]) (if fl =? 0 then strip_checksum56 f ev else strip_checksum_maria f ev)])
      | _, _, _ => bad "args"
      end
    | _ => bad "arity"
    end
  else if op_is op "table_map" then
    match args with
    | [f; a] =>
      match parse_format f, as_hex a with
      | Some f, Some ev => Some (vres v_table_map (ev_table_map f ev))
      | _, _ => bad "args"
      end
    | _ => bad "arity"
    end
  else if op_is op "rows" then
    match args with
    | [f; t; a] =>
      match parse_format f, parse_table_map t, as_hex a with
      | Some f, Some tm, Some ev => Some (vres v_rows (ev_rows f tm ev))
      | _, _, _ => bad "args"
      end
    | _ => bad "arity"
    end
  else if op_is op "lenenc" then
    match args with
    | [d; p] =>
      match as_hex d, as_nat p with
      | Some d, Some p =>
        Some (vres (fun o => match o with None => [vsym "notok"] | Some (v, n) => [vint v; vnat n] end) (read_lenenc d p))
      | _, _ => bad "args"
      end
    | _ => bad "arity"
    end
  else if op_is op "metadata_read" then
    match args with
    | [d; p; t] =>
      match as_hex d, as_nat p, as_int t with
      | Some d, Some p, Some t => Some (vres (fun r => [vint (fst r); vnat (snd r)]) (metadata_read d p t))
      | _, _, _ => bad "args"
      end
    | _ => bad "arity"
    end
  else if op_is op "handshake" then
    (* (handshake sid (file off) ok|rejected|lost) -> ((request ...) failed position_kept) *)
    match args with
    | [sid; L [pf; po]; r] =>
      match as_int sid, as_hex pf, as_int po,
            (if is_sym "ok" r then Some SetOk else if is_sym "rejected" r then Some SetRejected
             else if is_sym "lost" r then Some SetLost else None) with
      | Some sid, Some pf, Some po, Some r =>
        let h := stream_handshake sid {| p_file := pf; p_off := po |} r in
        Some (L [L (map (fun q => match q with
                                  | RQuery s => L [vsym "query"; vhex s]
                                  | RDump o f sd fl => L [vsym "dump"; vint o; vint f; vint sd; vhex fl]
                                  end) (hs_requests h));
                 vbool (hs_failed h); vbool (hs_position_kept h)])
      | _, _, _, _ => bad "args"
      end
    | _ => bad "arity"
    end
  else if op_is op "category" then
    match args with
    | [a] => match as_hex a with Some s => Some (vint (category s)) | None => bad "arg" end
    | _ => bad "arity"
    end
  else if op_is op "parse" then
    (* (parse (file off) (ev ...) (mapper-entry ...) (verdict ...) tzoff) *)
    match args with
    | [L [pf; po]; L evs; L mes; L vs; tzo] =>
      match as_hex pf, as_int po, map_opt as_hex evs, map_opt parse_mapper_entry mes, map_opt as_bool vs, as_int tzo with
      | Some pf, Some po, Some evs, Some mes, Some vs, Some tzo =>
        let '(p, out, o) := parse_events ffmt_marker (fun _ => tzo) jsonp (verdict_of vs) (mapper_of mes)
                                         {| p_file := pf; p_off := po |} evs in
        Some (L [v_pos p; L (map (fun x => L [v_tx (fst x); vbool (snd x)]) out); v_outcome o])
      | _, _, _, _, _, _ => bad "args"
      end
    | _ => bad "arity"
    end
  else None.

(* ---- specification-side encoders exposed to the harness ---- *)
From GB Require Import Spec.EncHeader Spec.Values Spec.EncEvent Spec.Expect.

(* padding patterns after the five classic elements: none = 0 everywhere (older requests), one = the same
   byte for all three kinds of bitmap, three = presence bitmaps, rows' NULL bitmaps, table-map NULL bitmap *)
Definition parse_pads (l : list val) : option (Z * Z * Z) :=
  match map_opt as_int l with
  | Some [] => Some (0, 0, 0)
  | Some [p] => if is_pad p then Some (p, p, p) else None
  | Some [pc; pn; pt] => if is_pad pc && is_pad pn && is_pad pt then Some (pc, pn, pt) else None
  | _ => None
  end.

Definition parse_cfg (v : val) : option cfg :=
  match v with
  | L (a :: b :: c :: d :: e :: pads) =>
    match as_bool a, as_bool b, as_bool c, as_int d, as_int e, parse_pads pads with
    | Some a, Some b, Some c, Some d, Some e, Some (pc, pn, pt) =>
      Some {| c_crc := a; c_v2 := b; c_tid4 := c; c_hlen := d; c_nsizes := e;
              c_pad_cols := pc; c_pad_null := pn; c_pad_tm := pt |}
    | _, _, _, _, _, _ => None
    end
  | _ => None
  end.

Definition parse_cellv (v : val) : option cellv :=
  if is_sym "absent" v then Some CAbsent
  else if is_sym "null" v then Some CNull
  else option_map CVal (parse_value v).

Definition parse_images (v : val) : option (list (list cellv)) :=
  match v with
  | L imgs => map_opt (fun i => match i with L cs => map_opt parse_cellv cs | _ => None end) imgs
  | _ => None
  end.

Definition parse_cols (v : val) : option (list (coltype * bool)) :=
  match v with
  | L cs => map_opt (fun c => match c with
                              | L [t; n] => match parse_ty t, as_bool n with Some t, Some n => Some (t, n) | _, _ => None end
                              | _ => None end) cs
  | _ => None
  end.

Definition parse_vars (v : val) : option (list (Z * bytes)) :=
  match v with
  | L vs => map_opt (fun x => match x with
                              | L [c; p] => match as_int c, as_hex p with Some c, Some p => Some (c, p) | _, _ => None end
                              | _ => None end) vs
  | _ => None
  end.

(* (mkevent cfg (ts sid next flags) body crc) -> (event-bytes expected...)
   cfg = (crc v2 tid4 hlen nsizes [pad | pad_cols pad_null pad_tm]); the expected values are printed through
   v_bitmap (width and meaningful bits only), so they do not depend on the padding patterns *)
Definition dispatch_enc (op : bytes) (args : list val) : option val :=
  let bad s := Some (L [vsym "bad"; vsym s]) in
  if op_is op "mkevent" then
    match args with
    | [c; L [ts; sid; nx; fl]; L (A kind :: bargs); crc] =>
      match parse_cfg c, as_int ts, as_int sid, as_int nx, as_int fl, as_hex crc with
      | Some c, Some ts, Some sid, Some nx, Some fl, Some crc =>
        let h t := {| h_ts := ts; h_type := t; h_sid := sid; h_next := nx; h_flags := fl |} in
        let is s := bytes_eqb kind (str s) in
        if is "format" then
          match bargs with
          | [v] => match as_hex v with
                   | Some v => Some (L (vhex (enc_format c (h 15) v crc) :: v_format (expect_format c v)))
                   | None => bad "format" end
          | _ => bad "format"
          end
        else if is "rotate" then
          match bargs with
          | [p; n] => match as_int p, as_hex n with
                      | Some p, Some n => Some (L [vhex (enc_ev c (h 4) (enc_rotate_body p n) crc)])
                      | _, _ => bad "rotate" end
          | _ => bad "rotate"
          end
        else if is "query" then
          match bargs with
          | [t; e; er; vs; db; sql] =>
            match as_int t, as_int e, as_int er, parse_vars vs, as_hex db, as_hex sql with
            | Some t, Some e, Some er, Some vs, Some db, Some sql =>
              Some (L [vhex (enc_ev c (h 2) (enc_query_body t e er vs db sql) crc)])
            | _, _, _, _, _, _ => bad "query" end
          | _ => bad "query"
          end
        else if is "xid" then
          match bargs with
          | [x] => match as_int x with Some x => Some (L [vhex (enc_ev c (h 16) (enc_xid_body x) crc)]) | None => bad "xid" end
          | _ => bad "xid"
          end
        else if is "intvar" then
          match map_opt as_int bargs with
          | Some [t; v] => Some (L [vhex (enc_ev c (h 5) (enc_intvar_body t v) crc)])
          | _ => bad "intvar"
          end
        else if is "rand" then
          match map_opt as_int bargs with
          | Some [a; b] => Some (L [vhex (enc_ev c (h 13) (enc_rand_body a b) crc)])
          | _ => bad "rand"
          end
        else if is "gtid" then
          match bargs with
          | [f; s; g] => match as_int f, as_hex s, as_int g with
                         | Some f, Some s, Some g => Some (L [vhex (enc_ev c (h 33) (enc_gtid_body f s g) crc)])
                         | _, _, _ => bad "gtid" end
          | _ => bad "gtid"
          end
        else if is "raw" then
          match bargs with
          | [t; b] => match as_int t, as_hex b with
                      | Some t, Some b => Some (L [vhex (enc_ev c (h t) b crc)])
                      | _, _ => bad "raw" end
          | _ => bad "raw"
          end
        else if is "tablemap" then
          match bargs with
          | [id; f; db; nm; cols; opt] =>
            match as_int id, as_int f, as_hex db, as_hex nm, parse_cols cols, as_hex opt with
            | Some id, Some f, Some db, Some nm, Some cols, Some opt =>
              let t := {| td_id := id; td_flags := f; td_db := db; td_name := nm; td_cols := cols; td_optional := opt |} in
              Some (L (vhex (enc_ev c (h 19) (enc_table_map_body c t) crc) :: v_table_map (expect_table_map (c_pad_tm c) t)))
            | _, _, _, _, _, _ => bad "tablemap" end
          | _ => bad "tablemap"
          end
        else if is "rows" then
          (* (rows kind id flags extra (ty...) before after) *)
          match bargs with
          | [k; id; f; ex; L tys; b; a] =>
            match as_int k, as_int id, as_int f, as_hex ex, map_opt parse_ty tys, parse_images b, parse_images a with
            | Some k, Some id, Some f, Some ex, Some tys, Some b, Some a =>
              let r := {| rd_kind := k; rd_id := id; rd_flags := f; rd_extra := ex; rd_before := b; rd_after := a |} in
              Some (L (vhex (enc_ev c (h (rows_type c k)) (enc_rows_body c tys r) crc) :: v_rows (expect_rows c tys r)))
            | _, _, _, _, _, _, _ => bad "rows" end
          | _ => bad "rows"
          end
        else bad "kind"
      | _, _, _, _, _, _ => bad "mkevent-args"
      end
    | _ => bad "mkevent-arity"
    end
  else if op_is op "expect_image" then
    (* (expect_image tzoff ((ty uns) ...) (cellv ...)) -> ((code absent data) ...)
       cellv = absent | null | value (Model/DispatchCell.v parse_value; a JSON value is (json <doc>));
       data carries the oracle markers (ffmt_marker for FLOAT / DOUBLE, efmt_marker inside JSON texts) *)
    match args with
    | [tzo; L tys; L cs] =>
      match as_int tzo,
            map_opt (fun x => match x with L [t; u] => match parse_ty t, as_bool u with Some t, Some u => Some (t, u) | _, _ => None end | _ => None end) tys,
            map_opt parse_cellv cs with
      | Some tzo, Some tys, Some cs =>
        Some (L (map (fun p => let '(code, ab, d) := expect_cell ffmt_marker (fun _ => tzo) efmt_marker (fst (fst p)) (snd (fst p)) (snd p) in
                               L [vint code; vbool ab; vopt_hex d]) (combine tys cs)))
      | _, _, _ => bad "expect_image"
      end
    | _ => bad "expect_image"
    end
  else None.
