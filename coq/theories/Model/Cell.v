(* Model of replication/binlog_event_rbr.go: cellLength and CellBytes.
   Oracles (Section variables, instantiated by the dispatcher and quantified
   in the theorems):
     ffmt  bits pattern : strconv.AppendFloat(nil, f, 'f', -1, bits)
     tz    instant      : offset in seconds of the process's local zone at that instant
     jsonp blob         : printJSONData (modelled in Model/Json.v: print_json efmt, efmt the 'E' float formatting;
                          the theorems about JSON values instantiate jsonp with it) *)
From GB Require Import Base.Prelude Base.DecText Base.GoFmt Base.Calendar.
From GBGen Require Import Consts.
Open Scope Z_scope.

Definition shr (x n : Z) : Z := x / 2 ^ n.
Definition band (x m : Z) : Z := Z.land x m.

Definition dig2 (i : Z) : res Z :=
  if (0 <=? i) then match nth_error dig2bytes (Z.to_nat i) with Some v => Ok v | None => Panic end else Panic.

(* decoded maximum length of a CHAR/BINARY column from its packed metadata *)
Definition string_max (meta : Z) : Z :=
  Z.lxor (band (shr meta 4) 768) 768 + band meta 255.

Definition blob_len (d : bytes) (pos : nat) (meta : Z) : res Z :=
  if (1 <=? meta) && (meta <=? 4) then le_at d pos (Z.to_nat meta) else Err EBlobMeta.

(* take l bytes (l from the data, checked before conversion to nat) *)
Definition take (d : bytes) (pos : nat) (l : Z) : res bytes :=
  if (0 <=? l) && (Z.of_nat pos + l <=? len d) then slice d pos (Z.to_nat l) else Panic.

Definition decimal_size (meta : Z) : res (Z * Z * Z * Z * Z * Z) :=
  let precision := shr meta 8 in
  let scale := band meta 255 in
  let intg := precision - scale in
  let intg0 := Z.quot intg 9 in
  let frac0 := Z.quot scale 9 in
  let intg0x := intg - intg0 * 9 in
  let frac0x := scale - frac0 * 9 in
  do a <- dig2 intg0x;
  do b <- dig2 frac0x;
  Ok (intg0, intg0x, frac0, frac0x, scale, intg0 * 4 + a + frac0 * 4 + b).

Definition cell_length (d : bytes) (pos : nat) (typ meta : Z) : res Z :=
  if typ =? K_TypeNull then Ok 0
  else if (typ =? K_TypeTiny) || (typ =? K_TypeYear) then Ok 1
  else if typ =? K_TypeShort then Ok 2
  else if typ =? K_TypeInt24 then Ok 3
  else if (typ =? K_TypeLong) || (typ =? K_TypeFloat) || (typ =? K_TypeTimestamp) then Ok 4
  else if (typ =? K_TypeLongLong) || (typ =? K_TypeDouble) then Ok 8
  else if (typ =? K_TypeDate) || (typ =? K_TypeTime) || (typ =? K_TypeNewDate) then Ok 3
  else if typ =? K_TypeDateTime then Ok 8
  else if (typ =? K_TypeVarchar) || (typ =? K_TypeVarString) then
    if meta >? 255 then do l <- le_at d pos 2; Ok (l + 2)
    else do l <- at_ d pos; Ok (l + 1)
  else if typ =? K_TypeBit then
    let nbits := u16 (u16 (shr meta 8 * 8) + band meta 255) in
    Ok ((nbits + 7) / 8)
  else if typ =? K_TypeTimestamp2 then Ok (4 + (meta + 1) / 2)
  else if typ =? K_TypeDateTime2 then Ok (5 + (meta + 1) / 2)
  else if typ =? K_TypeTime2 then Ok (3 + (meta + 1) / 2)
  else if typ =? K_TypeNewDecimal then
    do (_, _, _, _, _, l) <- decimal_size meta; Ok l
  else if (typ =? K_TypeEnum) || (typ =? K_TypeSet) then Ok (band meta 255)
  else if (typ =? K_TypeJSON) || (typ =? K_TypeTinyBlob) || (typ =? K_TypeMediumBlob) ||
          (typ =? K_TypeLongBlob) || (typ =? K_TypeBlob) || (typ =? K_TypeGeometry) then
    do l <- blob_len d pos meta; Ok (meta + l)
  else if typ =? K_TypeString then
    let t := shr meta 8 in
    if (t =? K_TypeEnum) || (t =? K_TypeSet) then Ok (band meta 255)
    else if string_max meta >? 255 then do l <- le_at d pos 2; Ok (l + 2)
    else do l <- at_ d pos; Ok (l + 1)
  else Err EUnsupportedType.

Section Oracles.
Variable ffmt : Z -> Z -> bytes.
Variable tz : Z -> Z.
Variable jsonp : bytes -> res bytes.

Definition fmt_date (y m d : Z) : bytes :=
  fmt_0d 4 y ++ [45] ++ fmt_0d 2 m ++ [45] ++ fmt_0d 2 d.
Definition fmt_clock (h m s : Z) : bytes :=
  fmt_0d 2 h ++ [58] ++ fmt_0d 2 m ++ [58] ++ fmt_0d 2 s.

Definition print_timestamp (v : Z) : bytes :=
  if v =? 0 then ZeroTimestamp
  else
    let t := v + tz v in
    let days := t / 86400 in
    let sod := t mod 86400 in
    let '(y, m, d) := civil_of_days days in
    fmt_date y m d ++ [32] ++ fmt_clock (sod / 3600) (sod / 60 mod 60) (sod mod 60).

(* fractional part appended by TIMESTAMP2 / DATETIME2 for metadata 1..6; returns (text, extra bytes) *)
Definition frac_suffix (d : bytes) (pos : nat) (meta : Z) : res (bytes * Z) :=
  if (meta =? 1) || (meta =? 2) then
    do v <- be_at d pos 1; Ok (46 :: (if meta =? 1 then fmt_0d 1 (v / 10) else fmt_0d 2 v), 1)
  else if (meta =? 3) || (meta =? 4) then
    do v <- be_at d pos 2; Ok (46 :: (if meta =? 3 then fmt_0d 3 (v / 10) else fmt_0d 4 v), 2)
  else if (meta =? 5) || (meta =? 6) then
    do v <- be_at d pos 3; Ok (46 :: (if meta =? 5 then fmt_0d 5 (v / 10) else fmt_0d 6 v), 3)
  else Ok ([], 0).

(* TIME2 fractional part with borrow for negative values; returns (hms', text) *)
Definition time2_frac (d : bytes) (pos : nat) (meta : Z) (neg : bool) (hms : Z) : res (Z * bytes) :=
  let go (nb : nat) (modulus : Z) (digits : nat) (div10 : bool) :=
    do f <- be_at d pos nb;
    let '(hms', f') := if neg && negb (f =? 0) then (hms - 1, modulus - f) else (hms, f) in
    Ok (hms', 46 :: fmt_pd digits (if div10 then Z.quot f' 10 else f')) in
  if meta =? 1 then go 1%nat 256 1%nat true
  else if meta =? 2 then go 1%nat 256 2%nat false
  else if meta =? 3 then go 2%nat 65536 3%nat true
  else if meta =? 4 then go 2%nat 65536 4%nat false
  else if meta =? 5 then go 3%nat 16777216 5%nat true
  else if meta =? 6 then go 3%nat 16777216 6%nat false
  else Ok (hms, []).

(* DECIMAL: the 9-digit integer groups; state = (text so far, any digit written yet) *)
Fixpoint dec_int_groups (n : nat) (d : bytes) (pos : nat) (txt : bytes) (flag : bool) : res (bytes * bool * nat) :=
  match n with
  | O => Ok (txt, flag, pos)
  | S k =>
    do v <- be_at d pos 4;
    if flag then dec_int_groups k d (pos + 4) (txt ++ fmt_0d 9 v) true
    else if 0 <? v then dec_int_groups k d (pos + 4) (txt ++ fmt_d v) true
    else dec_int_groups k d (pos + 4) txt false
  end.

Fixpoint dec_frac_groups (n : nat) (d : bytes) (pos : nat) (txt : bytes) : res (bytes * nat) :=
  match n with
  | O => Ok (txt, pos)
  | S k => do v <- be_at d pos 4; dec_frac_groups k d (pos + 4) (txt ++ fmt_0d 9 v)
  end.

Definition decode_decimal (data : bytes) (pos : nat) (meta : Z) : res (option bytes * Z) :=
  do (intg0, intg0x, frac0, frac0x, scale, l) <- decimal_size meta;
  do raw <- take data pos l;
  (* d[0] is read unconditionally *)
  match raw with
  | [] => Panic
  | b0 :: rest =>
    let isneg := band b0 128 =? 0 in
    let d1 := Z.lxor b0 128 :: rest in
    let d := if isneg then map (fun b => Z.lxor b 255) d1 else d1 in
    let txt0 := if isneg then [45] else [] in
    do nb <- dig2 intg0x;
    do v0 <- be_at d 0 (Z.to_nat nb);
    let '(txt1, flag1) := if 0 <? v0 then (txt0 ++ fmt_d v0, true) else (txt0, false) in
    do (txt2, flag2, p2) <- dec_int_groups (Z.to_nat intg0) d (Z.to_nat nb) txt1 flag1;
    (* a value without integer digits prints a single 0 *)
    let txt3 := if flag2 then txt2 else txt2 ++ [48] in
    if scale =? 0 then Ok (Some txt3, l)
    else
      let txt4 := txt3 ++ [46] in
      do (txt5, p5) <- dec_frac_groups (Z.to_nat frac0) d p2 txt4;
      do fb <- dig2 frac0x;
      if fb =? 0 then Ok (Some txt5, l)
      else
        do v <- be_at d p5 (Z.to_nat fb);
        Ok (Some (txt5 ++ fmt_0d (Z.to_nat frac0x) v), l)
  end.

Definition decode_enum (d : bytes) (pos : nat) (meta : Z) : res (option bytes * Z) :=
  let w := band meta 255 in
  if w =? 1 then do v <- at_ d pos; Ok (Some (fmt_d v), 1)
  else if w =? 2 then do v <- le_at d pos 2; Ok (Some (fmt_d v), 2)
  else Err EEnumSize.

Definition decode_lenpfx (d : bytes) (pos : nat) (two : bool) : res (option bytes * Z) :=
  if two then
    do l <- le_at d pos 2; do s <- take d (pos + 2) l; Ok (Some s, l + 2)
  else
    do l <- at_ d pos; do s <- take d (pos + 1) l; Ok (Some s, l + 1).

Definition cell_bytes (d : bytes) (pos : nat) (typ meta : Z) (uns : bool) : res (option bytes * Z) :=
  if typ =? K_TypeTiny then
    do b <- at_ d pos; Ok (Some (fmt_d (if uns then b else i8 b)), 1)
  else if typ =? K_TypeYear then
    do b <- at_ d pos; Ok (Some (if b =? 0 then [48; 48; 48; 48] else fmt_d (b + 1900)), 1)
  else if typ =? K_TypeShort then
    do v <- le_at d pos 2; Ok (Some (fmt_d (if uns then v else i16 v)), 2)
  else if typ =? K_TypeInt24 then
    do v <- le_at d pos 3;
    if negb uns && (0 <? band (shr v 16) 128) then Ok (Some (fmt_d (i32 (v + 255 * 2 ^ 24))), 3)
    else Ok (Some (fmt_d v), 3)
  else if typ =? K_TypeLong then
    do v <- le_at d pos 4; Ok (Some (fmt_d (if uns then v else i32 v)), 4)
  else if typ =? K_TypeFloat then
    do v <- le_at d pos 4; Ok (Some (ffmt 32 v), 4)
  else if typ =? K_TypeDouble then
    do v <- le_at d pos 8; Ok (Some (ffmt 64 v), 8)
  else if typ =? K_TypeTimestamp then
    do v <- le_at d pos 4; Ok (Some (print_timestamp v), 4)
  else if typ =? K_TypeLongLong then
    do v <- le_at d pos 8; Ok (Some (fmt_d (if uns then v else i64 v)), 8)
  else if (typ =? K_TypeDate) || (typ =? K_TypeNewDate) then
    do v <- le_at d pos 3;
    Ok (Some (fmt_date (shr v 9) (band (shr v 5) 15) (band v 31)), 3)
  else if typ =? K_TypeTime then
    do v <- le_at d pos 3;
    let val := if 0 <? band (shr v 16) 128 then i32 (v + 255 * 2 ^ 24) else v in
    (* sign, then the magnitude's fields *)
    let a := Z.abs val in
    let txt := fmt_clock (Z.quot a 10000) (Z.quot (Z.rem a 10000) 100) (Z.rem a 100) in
    Ok (Some (if val <? 0 then 45 :: txt else txt), 3)
  else if typ =? K_TypeDateTime then
    do v <- le_at d pos 8;
    let dd := v / 1000000 in
    let t := v mod 1000000 in
    Ok (Some (fmt_date (dd / 10000) (dd mod 10000 / 100) (dd mod 100) ++ [32] ++
              fmt_clock (t / 10000) (t mod 10000 / 100) (t mod 100)), 8)
  else if (typ =? K_TypeVarchar) || (typ =? K_TypeVarString) then
    decode_lenpfx d pos (meta >? 255)
  else if typ =? K_TypeBit then
    let nbits := u16 (u16 (shr meta 8 * 8) + band meta 255) in
    let l := (nbits + 7) / 8 in
    do s <- take d pos l; Ok (Some s, l)
  else if typ =? K_TypeTimestamp2 then
    do sec <- be_at d pos 4;
    do (fr, n) <- frac_suffix d (pos + 4) meta;
    Ok (Some (print_timestamp sec ++ fr), 4 + n)
  else if typ =? K_TypeDateTime2 then
    do raw <- be_at d pos 5;
    let ymdhms := u64 (raw - 549755813888) in
    let ymd := shr ymdhms 17 in
    let ym := shr ymd 5 in
    let hms := ymdhms mod 131072 in
    do (fr, n) <- frac_suffix d (pos + 5) meta;
    Ok (Some (fmt_date (ym / 13) (ym mod 13) (ymd mod 32) ++ [32] ++
              fmt_clock (shr hms 12) (shr hms 6 mod 64) (hms mod 64) ++ fr), 5 + n)
  else if typ =? K_TypeTime2 then
    do raw <- be_at d pos 3;
    let hms0 := raw - 8388608 in
    let neg := hms0 <? 0 in
    let hms1 := Z.abs hms0 in
    do (hms, fr) <- time2_frac d (pos + 3) meta neg hms1;
    let txt := fmt_clock (shr hms 12 mod 1024) (shr hms 6 mod 64) (hms mod 64) ++ fr in
    Ok (Some (if neg then 45 :: txt else txt), 3 + (meta + 1) / 2)
  else if typ =? K_TypeNewDecimal then decode_decimal d pos meta
  else if typ =? K_TypeEnum then decode_enum d pos meta
  else if typ =? K_TypeSet then
    let l := band meta 255 in
    do s <- take d pos l; Ok (Some s, l)
  else if (typ =? K_TypeJSON) || (typ =? K_TypeTinyBlob) || (typ =? K_TypeMediumBlob) ||
          (typ =? K_TypeLongBlob) || (typ =? K_TypeBlob) then
    do l <- blob_len d pos meta;
    do s <- take d (pos + Z.to_nat meta) l;
    if typ =? K_TypeJSON then
      match jsonp s with
      | Ok t => Ok (Some t, l + meta)
      | Err _ => Err EJson
      | Panic => Panic
      end
    else Ok (Some s, l + meta)
  else if typ =? K_TypeString then
    let t := shr meta 8 in
    if t =? K_TypeEnum then decode_enum d pos meta
    else if t =? K_TypeSet then
      let l := band meta 255 in
      do s <- take d pos l; Ok (Some (fmt_d (u64 (le_dec s))), l)
    else decode_lenpfx d pos (string_max meta >? 255)
  else if typ =? K_TypeGeometry then
    do l <- blob_len d pos meta;
    do s <- take d (pos + Z.to_nat meta) l;
    Ok (Some s, l + meta)
  else Err EUnsupportedType.

End Oracles.
