(* Dispatcher entries for binary JSON (glue; no theorem depends on it).
     (json_doc <doc>)  -> (wf ser render_top model-outcome depth)
     (json_raw x<hex>) -> model-outcome of print_json on arbitrary bytes
   <doc> ::= null | true | false
           | (obj L (x<key> <doc>) ...) | (arr L <doc> ...)          L = 0 | 1 (large format)
           | (i16 z) (u16 z) (i32 z) (u32 z) (i64 z) (u64 z) (dbl bits) (str x<hex>)
           | (date y m d) | (time neg h mi s us) | (datetime y m d h mi s us)
           | (dec p s neg (ip ...) (fp ...)) *)
From GB Require Import Base.Prelude Base.DecText Base.Sexp Model.Json Spec.EncJson Model.DispatchCell.
From Coq Require Import String.
Open Scope string_scope.
Open Scope list_scope.
Open Scope Z_scope.

(* oracle marker: the harness substitutes strconv.AppendFloat(nil, f, 'E', -1, 64) *)
(* the backslash cannot occur in the rendering of a wf document, so the marker is unambiguous *)
Definition efmt_marker (bits : Z) : bytes := str "\E64:" ++ digs bits ++ str ";".

Fixpoint parse_doc (v : val) : option jdoc :=
  match v with
  | A a =>
    if bytes_eqb a (str "null") then Some JNull
    else if bytes_eqb a (str "true") then Some JTrue
    else if bytes_eqb a (str "false") then Some JFalse
    else None
  | L (A n :: args) =>
    let is s := bytes_eqb n (str s) in
    if is "obj" then
      match args with
      | lg :: members =>
        match as_bool lg,
              (fix go (l : list val) : option (list (bytes * jdoc)) :=
                 match l with
                 | [] => Some []
                 | L [k; x] :: r =>
                   match as_hex k, parse_doc x, go r with
                   | Some k', Some x', Some r' => Some ((k', x') :: r')
                   | _, _, _ => None
                   end
                 | _ => None
                 end) members with
        | Some lg', Some kvs => Some (JObj lg' kvs)
        | _, _ => None
        end
      | _ => None
      end
    else if is "arr" then
      match args with
      | lg :: elems =>
        match as_bool lg,
              (fix go (l : list val) : option (list jdoc) :=
                 match l with
                 | [] => Some []
                 | x :: r =>
                   match parse_doc x, go r with
                   | Some x', Some r' => Some (x' :: r')
                   | _, _ => None
                   end
                 end) elems with
        | Some lg', Some vs => Some (JArr lg' vs)
        | _, _ => None
        end
      | _ => None
      end
    else if is "str" then
      match args with [s] => option_map JStr (as_hex s) | _ => None end
    else if is "dec" then
      match args with
      | [p; s; ng; L ip; L fp] =>
        match as_int p, as_int s, as_bool ng, map_opt as_int ip, map_opt as_int fp with
        | Some p', Some s', Some g, Some i, Some f => Some (JDecimal p' s' g i f)
        | _, _, _, _, _ => None
        end
      | _ => None
      end
    else
      match map_opt as_int args with
      | Some [z] =>
        if is "i16" then Some (JInt16 z) else if is "u16" then Some (JUint16 z)
        else if is "i32" then Some (JInt32 z) else if is "u32" then Some (JUint32 z)
        else if is "i64" then Some (JInt64 z) else if is "u64" then Some (JUint64 z)
        else if is "dbl" then Some (JDouble z) else None
      | Some [y; m; d] => if is "date" then Some (JDate y m d) else None
      | Some [ng; h; mi; s; us] => if is "time" then Some (JTime (negb (ng =? 0)) h mi s us) else None
      | Some [y; m; d; h; mi; s; us] => if is "datetime" then Some (JDateTime y m d h mi s us) else None
      | _ => None
      end
  | _ => None
  end.

Definition v_json (r : res bytes) : val := vres (fun t => [vhex t]) r.

Definition dispatch_json (op : bytes) (args : list val) : option val :=
  if op_is op "json_doc" then
    match args with
    | [dv] =>
      match parse_doc dv with
      | Some d =>
        let s := ser d in
        Some (L [vbool (wf_docb d); vhex s; vhex (render_top efmt_marker d);
                 v_json (print_json efmt_marker s); vnat (depth d)])
      | None => Some (L [vsym "bad"; vsym "json_doc-arg"])
      end
    | _ => Some (L [vsym "bad"; vsym "json_doc-arity"])
    end
  else if op_is op "json_raw" then
    match args with
    | [x] =>
      match as_hex x with
      | Some data => Some (v_json (print_json efmt_marker data))
      | None => Some (L [vsym "bad"; vsym "json_raw-arg"])
      end
    | _ => Some (L [vsym "bad"; vsym "json_raw-arity"])
    end
  else None.
