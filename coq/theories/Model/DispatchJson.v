(* Dispatcher entries for binary JSON (glue; no theorem depends on it).
     (json_doc <doc>)  -> (wf ser render_top model-outcome depth)
     (json_raw x<hex>) -> model-outcome of print_json on arbitrary bytes
   <doc> ::= null | true | false
           | (obj L (x<key> <doc>) ...) | (arr L <doc> ...)          L = 0 | 1 (large format)
           | (i16 z) (u16 z) (i32 z) (u32 z) (i64 z) (u64 z) (dbl bits) (str x<hex>)
           | (date y m d) | (time neg h mi s us) | (datetime y m d h mi s us)
           | (dec p s neg (ip ...) (fp ...)) *)
From GB Require Import Base.Prelude Base.DecText Base.Sexp Model.Json Spec.EncJson Model.DispatchCell.
From Coq Require Import String.
Open Scope string_scope.
Open Scope list_scope.
Open Scope Z_scope.

(* efmt_marker and parse_doc (the <doc> syntax above) live in Model/DispatchCell.v: a JSON cell value of a row
   image, (json <doc>), uses the same syntax. *)

Definition v_json (r : res bytes) : val := vres (fun t => [vhex t]) r.

Definition dispatch_json (op : bytes) (args : list val) : option val :=
  if op_is op "json_doc" then
    match args with
    | [dv] =>
      match parse_doc dv with
      | Some d =>
        let s := ser d in
        Some (L [vbool (wf_docb d); vhex s; vhex (render_top efmt_marker d);
                 v_json (print_json efmt_marker s); vnat (depth d)])
      | None => Some (L [vsym "bad"; vsym "json_doc-arg"])
      end
    | _ => Some (L [vsym "bad"; vsym "json_doc-arity"])
    end
  else if op_is op "json_raw" then
    match args with
    | [x] =>
      match as_hex x with
      | Some data => Some (v_json (print_json efmt_marker data))
      | None => Some (L [vsym "bad"; vsym "json_raw-arg"])
      end
    | _ => Some (L [vsym "bad"; vsym "json_raw-arity"])
    end
  else None.
