(* Model of replication/binlog_event_common.go: IsValid and the fixed-offset
   header accessors.  Offsets come from the generated Consts (gosync). *)
From GB Require Import Base.Prelude.
From GBGen Require Import Consts.
Open Scope Z_scope.

Definition lit (l : list Z) (i : nat) : nat := Z.to_nat (nth i l 0).

Definition hdr_min : Z := nth 0 lits_IsValid 0.        (* 19 *)
Definition hdr_min2 : Z := nth 1 lits_IsValid 0.       (* 19 *)

Definition ev_type (ev : bytes) : res Z := at_ ev (lit lits_Type 0).
Definition ev_flags (ev : bytes) : res Z :=
  le_at ev (lit lits_Flags 0) (lit lits_Flags 1 - lit lits_Flags 0).
Definition ev_timestamp (ev : bytes) : res Z := le_at ev 0 (lit lits_Timestamp 1).
Definition ev_server_id (ev : bytes) : res Z :=
  le_at ev (lit lits_ServerID 0) (lit lits_ServerID 1 - lit lits_ServerID 0).
Definition ev_length (ev : bytes) : res Z :=
  le_at ev (lit lits_Length 0) (lit lits_Length 1 - lit lits_Length 0).
Definition ev_next_position (ev : bytes) : res Z :=
  le_at ev (lit lits_NextPosition 0) (lit lits_NextPosition 1 - lit lits_NextPosition 0).

(* IsValid: bufLen < 19 -> false; evLen < 19 || evLen != uint32(bufLen) -> false *)
Definition is_valid (ev : bytes) : res bool :=
  let bufLen := len ev in
  if bufLen <? hdr_min then Ok false
  else
    do evLen <- ev_length ev;
    if (evLen <? hdr_min2) || negb (evLen =? u32 bufLen) then Ok false else Ok true.

Definition is_type (t : Z) (ev : bytes) : res bool :=
  do ty <- ev_type ev; Ok (ty =? t).
