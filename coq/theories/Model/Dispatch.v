(* Request dispatcher of the extracted model runner (glue for the
   correspondence check; no theorem depends on this file). *)
From GB Require Import Base.Prelude Base.DecText Base.Sexp.
From GB Require Import Model.Header Spec.EncHeader Model.DispatchCell Model.Json Model.DispatchJson.
From GB Require Import Model.DispatchGtid Model.DispatchMarshal Model.DispatchStream Model.DispatchConn.
From Coq Require Import String.
Open Scope Z_scope.

Definition bad (why : string) : val := L [vsym "bad"%string; vsym why].


Definition r_bool (r : res bool) : val := vres (fun b => [vbool b]) r.
Definition r_int (r : res Z) : val := vres (fun z => [vint z]) r.

(* sub-dispatchers return None for operations they do not know *)
Definition dispatch_core (op : bytes) (args : list val) : val :=
  if op_is op "ping" then vsym "pong"%string
  else if op_is op "header" then
    match args with
    | [a] =>
      match as_hex a with
      | Some ev =>
        L [L [r_bool (is_valid ev); r_int (ev_type ev); r_int (ev_flags ev); r_int (ev_timestamp ev);
              r_int (ev_server_id ev); r_int (ev_length ev); r_int (ev_next_position ev)];
           vbool (spec_is_valid ev)]
      | None => bad "arg"
      end
    | _ => bad "arity"
    end
  else if op_is op "enc_event" then
    match map_opt as_int (firstn 5 args), skipn 5 args with
    | Some [ts; ty; sid; nx; fl], [b] =>
      match as_hex b with
      | Some body => vhex (enc_event {| h_ts := ts; h_type := ty; h_sid := sid; h_next := nx; h_flags := fl |} body)
      | None => bad "arg"
      end
    | _, _ => bad "arity"
    end
  else bad "op".

Fixpoint first_some (fs : list (bytes -> list val -> option val)) (op : bytes) (args : list val) : option val :=
  match fs with
  | [] => None
  | f :: r => match f op args with Some v => Some v | None => first_some r op args end
  end.

(* registered sub-dispatchers (one per model family) *)
(* JSON printer used by cells of type JSON: Model/Json.v with the E64 oracle marker *)
Definition jsonp (b : bytes) : res bytes := print_json efmt_marker b.

Definition subs : list (bytes -> list val -> option val) := [dispatch_cell jsonp; dispatch_json; dispatch_stream jsonp; dispatch_enc; dispatch_conn; dispatch_gtid; dispatch_marshal].

Definition dispatch (op : bytes) (args : list val) : val :=
  match first_some subs op args with
  | Some v => v
  | None => dispatch_core op args
  end.

Definition run_line (inp : bytes) : bytes :=
  match parse_line inp with
  | Some [L (A op :: args)] => print_val (dispatch op args)
  | _ => print_val (bad "parse")
  end.
