(* Conn.v — labelled transition system of the connection protocol
   (slave_connection.go reader goroutine  <->  streamer.go Stream/parseEvents/Error).
   Definitions only; proofs are in Proofs/ConnProofs*.v, statements in Props/C05.v, Props/C06.v.

   Processes
     reader  : the goroutine started by startDumpFromBinlogPosition (the only `go` statement)
     parser  : the goroutine that called Stream (connect, startDump, parseEvents, handler, deferred close)
     caller  : whoever calls Error() after Stream returned
     environment : master (packets, close, reset), the caller's context (cancel), the handler's verdicts
   Abstractions
     * an event packet is (id, completes_a_transaction); decoding / table lookup / unsupported / invalid
       events are one nondeterministic choice LProcBad at PProcess;
     * the driver is environment: ReadPacket returns the next buffered packet, or fails once the socket
       is closed by either side (with data still buffered both are possible after a client close / reset);
       Close() and ReadPacket() touch the same unsynchronised fields (K1) — recorded in dc_r / dc_p;
     * connect = dumpConn() ; start = prepareForReplication + NoticeDump + go reader + s.errChan = conn.errChan
       (no other goroutine exists during start, Error() is only called after Stream returned);
     * cfg selects the pinned behaviour (all false) or the planned repairs:
         fix_d9   Stream cancels, on return, a context DERIVED from the caller's; the reader selects on it
         fix_d10  Error() returns nil at once when s.errChan is nil
         d9_wrong the trap of DESIGN section 7: the derived context is ALSO stored in s.ctx, so that
                  Error()'s filter reads it (kept only to prove that this variant breaks C06).
         fix_k2   the repair of K2: Stream records in s.endedUncancelled whether its context was still live
                  when parseEvents returned; Error()'s first filter case is
                  `s.ctx.Err() == context.Canceled && !s.endedUncancelled`.
     * s.endedUncancelled is the state component ended_uncancelled.  Stream is called once in the model, so
       "reset to false when Stream starts" is its value in init.  It is assigned by the step LStreamDefer
       (PReturning -> PDeferClose): that step stands for "parseEvents has returned, the context is sampled,
       the deferred close is entered"; a Cancel may fall between the parser's decision to return
       (LParserSeeClosed, ...) and the sample, as in the Go code.  The paths that return before parseEvents
       (connect failure, start failure) leave it false: they are the ones on which s.errChan was not
       assigned (s_chan s = false; `s.errChan = conn.errChan` immediately precedes the parseEvents call).
       The assignment is made for every cfg (the field exists in the repaired tree only; with
       fix_k2 = false nothing reads it).
     * ghost fields (never read by a step): canc_pre_pe = the caller cancelled before parseEvents returned
       (before the LStreamDefer step, the point where the context is sampled); canc_pre_ret = before Stream
       returned; canc_pre_call = before Error() was called; canc_at_err = the context as the first Error()
       call saw it. *)
From GB Require Import Base.Prelude.
From GBGen Require Consts.
Open Scope nat_scope.

Record cfg := Cfg { fix_d9 : bool; fix_d10 : bool; d9_wrong : bool; fix_k2 : bool }.
Definition cfg_pinned : cfg := Cfg false false false false.
Definition cfg_fixed  : cfg := Cfg true true false false.     (* D9 and D10 repaired, K2 not *)
Definition cfg_trap   : cfg := Cfg true true true false.
Definition cfg_fixed2 : cfg := Cfg true true false true.      (* D9, D10 and K2 repaired: the current tree *)

Definition event := (nat * bool)%type.            (* id, completes a transaction *)
Definition ev_tx (e : event) : bool := snd e.

Inductive packet := PkEvent (e : event) | PkEOF | PkERR (code : Z) | PkGarbage.

(* why the reader goroutine left its loop (the value it sends on errChan) *)
Inductive reason := REof | RMaster (code : Z) | RTransport | RCancel.

Inductive sres := RNil | RErr.                     (* what Stream returns *)
Inductive eres := ENil | EErr (r : reason).        (* what Error() returns *)

Inductive rpc := RNotStarted | RRead | RHold (e : event) | RPutErr (r : reason) | RCloseErr | RCloseEv | RDone.
Inductive ppc := PConnect | PStart | PSelect | PProcess (e : event) | PInHandler (e : event)
               | PReturning (r : sres) | PDeferClose (r : sres) | PReturned (r : sres).
Inductive cpc := CIdle | CInError | CReturned (r : eres).
Inductive socket := SNone | SOpen | SClosedClient | SClosedMaster | SReset.
Inductive dcall := DStart | DReadPacket | DClose.  (* driver calls: Exec/NoticeDump, ReadPacket, Close *)
Inductive stopcause := CConnect | CStart | CClosed | CCancel | CBad | CHandlerErr.

Record state := St {
  rd : rpc;
  ps : ppc;
  cl : cpc;
  cancelled : bool;
  dcancelled : bool;
  sock : socket;
  inbox : list packet;
  evclosed : bool;
  s_chan : bool;
  ec_buf : list reason;
  ec_closed : bool;
  dc_r : option dcall;
  dc_p : option dcall;
  rreason : option reason;
  ec_sent : list reason;
  consumed : list event;
  hlog : list (event * bool);
  hrun : nat;
  cause : option stopcause;
  canc_pre_ret : bool;
  canc_pre_call : bool;
  canc_at_err : bool;
  first_res : option eres;
  ended_uncancelled : bool;
  canc_pre_pe : bool }.

Definition set_rd (v : rpc) (s : state) : state := {| rd := v; ps := ps s; cl := cl s; cancelled := cancelled s; dcancelled := dcancelled s; sock := sock s; inbox := inbox s; evclosed := evclosed s; s_chan := s_chan s; ec_buf := ec_buf s; ec_closed := ec_closed s; dc_r := dc_r s; dc_p := dc_p s; rreason := rreason s; ec_sent := ec_sent s; consumed := consumed s; hlog := hlog s; hrun := hrun s; cause := cause s; canc_pre_ret := canc_pre_ret s; canc_pre_call := canc_pre_call s; canc_at_err := canc_at_err s; first_res := first_res s; ended_uncancelled := ended_uncancelled s; canc_pre_pe := canc_pre_pe s |}.
Definition set_ps (v : ppc) (s : state) : state := {| rd := rd s; ps := v; cl := cl s; cancelled := cancelled s; dcancelled := dcancelled s; sock := sock s; inbox := inbox s; evclosed := evclosed s; s_chan := s_chan s; ec_buf := ec_buf s; ec_closed := ec_closed s; dc_r := dc_r s; dc_p := dc_p s; rreason := rreason s; ec_sent := ec_sent s; consumed := consumed s; hlog := hlog s; hrun := hrun s; cause := cause s; canc_pre_ret := canc_pre_ret s; canc_pre_call := canc_pre_call s; canc_at_err := canc_at_err s; first_res := first_res s; ended_uncancelled := ended_uncancelled s; canc_pre_pe := canc_pre_pe s |}.
Definition set_cl (v : cpc) (s : state) : state := {| rd := rd s; ps := ps s; cl := v; cancelled := cancelled s; dcancelled := dcancelled s; sock := sock s; inbox := inbox s; evclosed := evclosed s; s_chan := s_chan s; ec_buf := ec_buf s; ec_closed := ec_closed s; dc_r := dc_r s; dc_p := dc_p s; rreason := rreason s; ec_sent := ec_sent s; consumed := consumed s; hlog := hlog s; hrun := hrun s; cause := cause s; canc_pre_ret := canc_pre_ret s; canc_pre_call := canc_pre_call s; canc_at_err := canc_at_err s; first_res := first_res s; ended_uncancelled := ended_uncancelled s; canc_pre_pe := canc_pre_pe s |}.
Definition set_cancelled (v : bool) (s : state) : state := {| rd := rd s; ps := ps s; cl := cl s; cancelled := v; dcancelled := dcancelled s; sock := sock s; inbox := inbox s; evclosed := evclosed s; s_chan := s_chan s; ec_buf := ec_buf s; ec_closed := ec_closed s; dc_r := dc_r s; dc_p := dc_p s; rreason := rreason s; ec_sent := ec_sent s; consumed := consumed s; hlog := hlog s; hrun := hrun s; cause := cause s; canc_pre_ret := canc_pre_ret s; canc_pre_call := canc_pre_call s; canc_at_err := canc_at_err s; first_res := first_res s; ended_uncancelled := ended_uncancelled s; canc_pre_pe := canc_pre_pe s |}.
Definition set_dcancelled (v : bool) (s : state) : state := {| rd := rd s; ps := ps s; cl := cl s; cancelled := cancelled s; dcancelled := v; sock := sock s; inbox := inbox s; evclosed := evclosed s; s_chan := s_chan s; ec_buf := ec_buf s; ec_closed := ec_closed s; dc_r := dc_r s; dc_p := dc_p s; rreason := rreason s; ec_sent := ec_sent s; consumed := consumed s; hlog := hlog s; hrun := hrun s; cause := cause s; canc_pre_ret := canc_pre_ret s; canc_pre_call := canc_pre_call s; canc_at_err := canc_at_err s; first_res := first_res s; ended_uncancelled := ended_uncancelled s; canc_pre_pe := canc_pre_pe s |}.
Definition set_sock (v : socket) (s : state) : state := {| rd := rd s; ps := ps s; cl := cl s; cancelled := cancelled s; dcancelled := dcancelled s; sock := v; inbox := inbox s; evclosed := evclosed s; s_chan := s_chan s; ec_buf := ec_buf s; ec_closed := ec_closed s; dc_r := dc_r s; dc_p := dc_p s; rreason := rreason s; ec_sent := ec_sent s; consumed := consumed s; hlog := hlog s; hrun := hrun s; cause := cause s; canc_pre_ret := canc_pre_ret s; canc_pre_call := canc_pre_call s; canc_at_err := canc_at_err s; first_res := first_res s; ended_uncancelled := ended_uncancelled s; canc_pre_pe := canc_pre_pe s |}.
Definition set_inbox (v : list packet) (s : state) : state := {| rd := rd s; ps := ps s; cl := cl s; cancelled := cancelled s; dcancelled := dcancelled s; sock := sock s; inbox := v; evclosed := evclosed s; s_chan := s_chan s; ec_buf := ec_buf s; ec_closed := ec_closed s; dc_r := dc_r s; dc_p := dc_p s; rreason := rreason s; ec_sent := ec_sent s; consumed := consumed s; hlog := hlog s; hrun := hrun s; cause := cause s; canc_pre_ret := canc_pre_ret s; canc_pre_call := canc_pre_call s; canc_at_err := canc_at_err s; first_res := first_res s; ended_uncancelled := ended_uncancelled s; canc_pre_pe := canc_pre_pe s |}.
Definition set_evclosed (v : bool) (s : state) : state := {| rd := rd s; ps := ps s; cl := cl s; cancelled := cancelled s; dcancelled := dcancelled s; sock := sock s; inbox := inbox s; evclosed := v; s_chan := s_chan s; ec_buf := ec_buf s; ec_closed := ec_closed s; dc_r := dc_r s; dc_p := dc_p s; rreason := rreason s; ec_sent := ec_sent s; consumed := consumed s; hlog := hlog s; hrun := hrun s; cause := cause s; canc_pre_ret := canc_pre_ret s; canc_pre_call := canc_pre_call s; canc_at_err := canc_at_err s; first_res := first_res s; ended_uncancelled := ended_uncancelled s; canc_pre_pe := canc_pre_pe s |}.
Definition set_s_chan (v : bool) (s : state) : state := {| rd := rd s; ps := ps s; cl := cl s; cancelled := cancelled s; dcancelled := dcancelled s; sock := sock s; inbox := inbox s; evclosed := evclosed s; s_chan := v; ec_buf := ec_buf s; ec_closed := ec_closed s; dc_r := dc_r s; dc_p := dc_p s; rreason := rreason s; ec_sent := ec_sent s; consumed := consumed s; hlog := hlog s; hrun := hrun s; cause := cause s; canc_pre_ret := canc_pre_ret s; canc_pre_call := canc_pre_call s; canc_at_err := canc_at_err s; first_res := first_res s; ended_uncancelled := ended_uncancelled s; canc_pre_pe := canc_pre_pe s |}.
Definition set_ec_buf (v : list reason) (s : state) : state := {| rd := rd s; ps := ps s; cl := cl s; cancelled := cancelled s; dcancelled := dcancelled s; sock := sock s; inbox := inbox s; evclosed := evclosed s; s_chan := s_chan s; ec_buf := v; ec_closed := ec_closed s; dc_r := dc_r s; dc_p := dc_p s; rreason := rreason s; ec_sent := ec_sent s; consumed := consumed s; hlog := hlog s; hrun := hrun s; cause := cause s; canc_pre_ret := canc_pre_ret s; canc_pre_call := canc_pre_call s; canc_at_err := canc_at_err s; first_res := first_res s; ended_uncancelled := ended_uncancelled s; canc_pre_pe := canc_pre_pe s |}.
Definition set_ec_closed (v : bool) (s : state) : state := {| rd := rd s; ps := ps s; cl := cl s; cancelled := cancelled s; dcancelled := dcancelled s; sock := sock s; inbox := inbox s; evclosed := evclosed s; s_chan := s_chan s; ec_buf := ec_buf s; ec_closed := v; dc_r := dc_r s; dc_p := dc_p s; rreason := rreason s; ec_sent := ec_sent s; consumed := consumed s; hlog := hlog s; hrun := hrun s; cause := cause s; canc_pre_ret := canc_pre_ret s; canc_pre_call := canc_pre_call s; canc_at_err := canc_at_err s; first_res := first_res s; ended_uncancelled := ended_uncancelled s; canc_pre_pe := canc_pre_pe s |}.
Definition set_dc_r (v : option dcall) (s : state) : state := {| rd := rd s; ps := ps s; cl := cl s; cancelled := cancelled s; dcancelled := dcancelled s; sock := sock s; inbox := inbox s; evclosed := evclosed s; s_chan := s_chan s; ec_buf := ec_buf s; ec_closed := ec_closed s; dc_r := v; dc_p := dc_p s; rreason := rreason s; ec_sent := ec_sent s; consumed := consumed s; hlog := hlog s; hrun := hrun s; cause := cause s; canc_pre_ret := canc_pre_ret s; canc_pre_call := canc_pre_call s; canc_at_err := canc_at_err s; first_res := first_res s; ended_uncancelled := ended_uncancelled s; canc_pre_pe := canc_pre_pe s |}.
Definition set_dc_p (v : option dcall) (s : state) : state := {| rd := rd s; ps := ps s; cl := cl s; cancelled := cancelled s; dcancelled := dcancelled s; sock := sock s; inbox := inbox s; evclosed := evclosed s; s_chan := s_chan s; ec_buf := ec_buf s; ec_closed := ec_closed s; dc_r := dc_r s; dc_p := v; rreason := rreason s; ec_sent := ec_sent s; consumed := consumed s; hlog := hlog s; hrun := hrun s; cause := cause s; canc_pre_ret := canc_pre_ret s; canc_pre_call := canc_pre_call s; canc_at_err := canc_at_err s; first_res := first_res s; ended_uncancelled := ended_uncancelled s; canc_pre_pe := canc_pre_pe s |}.
Definition set_rreason (v : option reason) (s : state) : state := {| rd := rd s; ps := ps s; cl := cl s; cancelled := cancelled s; dcancelled := dcancelled s; sock := sock s; inbox := inbox s; evclosed := evclosed s; s_chan := s_chan s; ec_buf := ec_buf s; ec_closed := ec_closed s; dc_r := dc_r s; dc_p := dc_p s; rreason := v; ec_sent := ec_sent s; consumed := consumed s; hlog := hlog s; hrun := hrun s; cause := cause s; canc_pre_ret := canc_pre_ret s; canc_pre_call := canc_pre_call s; canc_at_err := canc_at_err s; first_res := first_res s; ended_uncancelled := ended_uncancelled s; canc_pre_pe := canc_pre_pe s |}.
Definition set_ec_sent (v : list reason) (s : state) : state := {| rd := rd s; ps := ps s; cl := cl s; cancelled := cancelled s; dcancelled := dcancelled s; sock := sock s; inbox := inbox s; evclosed := evclosed s; s_chan := s_chan s; ec_buf := ec_buf s; ec_closed := ec_closed s; dc_r := dc_r s; dc_p := dc_p s; rreason := rreason s; ec_sent := v; consumed := consumed s; hlog := hlog s; hrun := hrun s; cause := cause s; canc_pre_ret := canc_pre_ret s; canc_pre_call := canc_pre_call s; canc_at_err := canc_at_err s; first_res := first_res s; ended_uncancelled := ended_uncancelled s; canc_pre_pe := canc_pre_pe s |}.
Definition set_consumed (v : list event) (s : state) : state := {| rd := rd s; ps := ps s; cl := cl s; cancelled := cancelled s; dcancelled := dcancelled s; sock := sock s; inbox := inbox s; evclosed := evclosed s; s_chan := s_chan s; ec_buf := ec_buf s; ec_closed := ec_closed s; dc_r := dc_r s; dc_p := dc_p s; rreason := rreason s; ec_sent := ec_sent s; consumed := v; hlog := hlog s; hrun := hrun s; cause := cause s; canc_pre_ret := canc_pre_ret s; canc_pre_call := canc_pre_call s; canc_at_err := canc_at_err s; first_res := first_res s; ended_uncancelled := ended_uncancelled s; canc_pre_pe := canc_pre_pe s |}.
Definition set_hlog (v : list (event * bool)) (s : state) : state := {| rd := rd s; ps := ps s; cl := cl s; cancelled := cancelled s; dcancelled := dcancelled s; sock := sock s; inbox := inbox s; evclosed := evclosed s; s_chan := s_chan s; ec_buf := ec_buf s; ec_closed := ec_closed s; dc_r := dc_r s; dc_p := dc_p s; rreason := rreason s; ec_sent := ec_sent s; consumed := consumed s; hlog := v; hrun := hrun s; cause := cause s; canc_pre_ret := canc_pre_ret s; canc_pre_call := canc_pre_call s; canc_at_err := canc_at_err s; first_res := first_res s; ended_uncancelled := ended_uncancelled s; canc_pre_pe := canc_pre_pe s |}.
Definition set_hrun (v : nat) (s : state) : state := {| rd := rd s; ps := ps s; cl := cl s; cancelled := cancelled s; dcancelled := dcancelled s; sock := sock s; inbox := inbox s; evclosed := evclosed s; s_chan := s_chan s; ec_buf := ec_buf s; ec_closed := ec_closed s; dc_r := dc_r s; dc_p := dc_p s; rreason := rreason s; ec_sent := ec_sent s; consumed := consumed s; hlog := hlog s; hrun := v; cause := cause s; canc_pre_ret := canc_pre_ret s; canc_pre_call := canc_pre_call s; canc_at_err := canc_at_err s; first_res := first_res s; ended_uncancelled := ended_uncancelled s; canc_pre_pe := canc_pre_pe s |}.
Definition set_cause (v : option stopcause) (s : state) : state := {| rd := rd s; ps := ps s; cl := cl s; cancelled := cancelled s; dcancelled := dcancelled s; sock := sock s; inbox := inbox s; evclosed := evclosed s; s_chan := s_chan s; ec_buf := ec_buf s; ec_closed := ec_closed s; dc_r := dc_r s; dc_p := dc_p s; rreason := rreason s; ec_sent := ec_sent s; consumed := consumed s; hlog := hlog s; hrun := hrun s; cause := v; canc_pre_ret := canc_pre_ret s; canc_pre_call := canc_pre_call s; canc_at_err := canc_at_err s; first_res := first_res s; ended_uncancelled := ended_uncancelled s; canc_pre_pe := canc_pre_pe s |}.
Definition set_canc_pre_ret (v : bool) (s : state) : state := {| rd := rd s; ps := ps s; cl := cl s; cancelled := cancelled s; dcancelled := dcancelled s; sock := sock s; inbox := inbox s; evclosed := evclosed s; s_chan := s_chan s; ec_buf := ec_buf s; ec_closed := ec_closed s; dc_r := dc_r s; dc_p := dc_p s; rreason := rreason s; ec_sent := ec_sent s; consumed := consumed s; hlog := hlog s; hrun := hrun s; cause := cause s; canc_pre_ret := v; canc_pre_call := canc_pre_call s; canc_at_err := canc_at_err s; first_res := first_res s; ended_uncancelled := ended_uncancelled s; canc_pre_pe := canc_pre_pe s |}.
Definition set_canc_pre_call (v : bool) (s : state) : state := {| rd := rd s; ps := ps s; cl := cl s; cancelled := cancelled s; dcancelled := dcancelled s; sock := sock s; inbox := inbox s; evclosed := evclosed s; s_chan := s_chan s; ec_buf := ec_buf s; ec_closed := ec_closed s; dc_r := dc_r s; dc_p := dc_p s; rreason := rreason s; ec_sent := ec_sent s; consumed := consumed s; hlog := hlog s; hrun := hrun s; cause := cause s; canc_pre_ret := canc_pre_ret s; canc_pre_call := v; canc_at_err := canc_at_err s; first_res := first_res s; ended_uncancelled := ended_uncancelled s; canc_pre_pe := canc_pre_pe s |}.
Definition set_canc_at_err (v : bool) (s : state) : state := {| rd := rd s; ps := ps s; cl := cl s; cancelled := cancelled s; dcancelled := dcancelled s; sock := sock s; inbox := inbox s; evclosed := evclosed s; s_chan := s_chan s; ec_buf := ec_buf s; ec_closed := ec_closed s; dc_r := dc_r s; dc_p := dc_p s; rreason := rreason s; ec_sent := ec_sent s; consumed := consumed s; hlog := hlog s; hrun := hrun s; cause := cause s; canc_pre_ret := canc_pre_ret s; canc_pre_call := canc_pre_call s; canc_at_err := v; first_res := first_res s; ended_uncancelled := ended_uncancelled s; canc_pre_pe := canc_pre_pe s |}.
Definition set_first_res (v : option eres) (s : state) : state := {| rd := rd s; ps := ps s; cl := cl s; cancelled := cancelled s; dcancelled := dcancelled s; sock := sock s; inbox := inbox s; evclosed := evclosed s; s_chan := s_chan s; ec_buf := ec_buf s; ec_closed := ec_closed s; dc_r := dc_r s; dc_p := dc_p s; rreason := rreason s; ec_sent := ec_sent s; consumed := consumed s; hlog := hlog s; hrun := hrun s; cause := cause s; canc_pre_ret := canc_pre_ret s; canc_pre_call := canc_pre_call s; canc_at_err := canc_at_err s; first_res := v; ended_uncancelled := ended_uncancelled s; canc_pre_pe := canc_pre_pe s |}.
Definition set_ended_uncancelled (v : bool) (s : state) : state := {| rd := rd s; ps := ps s; cl := cl s; cancelled := cancelled s; dcancelled := dcancelled s; sock := sock s; inbox := inbox s; evclosed := evclosed s; s_chan := s_chan s; ec_buf := ec_buf s; ec_closed := ec_closed s; dc_r := dc_r s; dc_p := dc_p s; rreason := rreason s; ec_sent := ec_sent s; consumed := consumed s; hlog := hlog s; hrun := hrun s; cause := cause s; canc_pre_ret := canc_pre_ret s; canc_pre_call := canc_pre_call s; canc_at_err := canc_at_err s; first_res := first_res s; ended_uncancelled := v; canc_pre_pe := canc_pre_pe s |}.
Definition set_canc_pre_pe (v : bool) (s : state) : state := {| rd := rd s; ps := ps s; cl := cl s; cancelled := cancelled s; dcancelled := dcancelled s; sock := sock s; inbox := inbox s; evclosed := evclosed s; s_chan := s_chan s; ec_buf := ec_buf s; ec_closed := ec_closed s; dc_r := dc_r s; dc_p := dc_p s; rreason := rreason s; ec_sent := ec_sent s; consumed := consumed s; hlog := hlog s; hrun := hrun s; cause := cause s; canc_pre_ret := canc_pre_ret s; canc_pre_call := canc_pre_call s; canc_at_err := canc_at_err s; first_res := first_res s; ended_uncancelled := ended_uncancelled s; canc_pre_pe := v |}.

Definition init : state :=
  St RNotStarted PConnect CIdle false false SNone [] false false [] false None None None [] [] [] 0 None
     false false false None false false.

Inductive label :=
(* parser (library) *)
| LConnectOk | LConnectFail | LStartOk | LStartFail
| LParserSeeClosed | LParserSeeCancel | LProcOk | LProcBad
| LStreamDefer | LStreamReturn
(* reader (library) *)
| LReaderRecv | LReaderReadFail | LReaderSeeCancel | LReaderPutErr | LReaderCloseErr | LReaderCloseEv
(* joint step on the unbuffered eventChan *)
| LHandoff
(* Error() body (library) *)
| LErrorStep
(* environment *)
| LArrive (p : packet) | LMasterClose | LMasterReset | LCancel | LHandlerOk | LHandlerErr | LCallError.

Definition is_lib (l : label) : bool :=
  match l with
  | LArrive _ | LMasterClose | LMasterReset | LCancel | LHandlerOk | LHandlerErr | LCallError => false
  | _ => true
  end.
Definition is_reader_lib (l : label) : bool :=
  match l with
  | LReaderRecv | LReaderReadFail | LReaderSeeCancel | LReaderPutErr | LReaderCloseErr | LReaderCloseEv => true
  | _ => false
  end.

Definition ecap : nat := Z.to_nat GBGen.Consts.errChanCap.
Arguments ecap : simpl never.

(* ctx.Done() as the reader sees it / ctx.Err()==Canceled as Error() sees it *)
Definition rctx_done (s : state) : bool := cancelled s || dcancelled s.
Definition ectx_err (c : cfg) (s : state) : bool := cancelled s || (d9_wrong c && dcancelled s).
(* the first case of Error()'s filter: `s.ctx.Err() == context.Canceled` on the pinned tree,
   `s.ctx.Err() == context.Canceled && !s.endedUncancelled` after the K2 repair *)
Definition efirst_case (c : cfg) (s : state) : bool := ectx_err c s && negb (fix_k2 c && ended_uncancelled s).
Definition past_sample (p : ppc) : bool := match p with PDeferClose _ | PReturned _ => true | _ => false end.

(* Error()'s filter, literally: first s.ctx.Err(), then the two sentinel originals *)
Definition efilter (ctxerr : bool) (r : reason) : eres :=
  if ctxerr then ENil else match r with RCancel | REof => ENil | _ => EErr r end.

(* a blocked ReadPacket returns an error *)
Definition read_fails (s : state) : bool :=
  match sock s with
  | SClosedClient | SReset => true
  | SClosedMaster => match inbox s with [] => true | _ => false end
  | _ => false
  end.

Definition is_returned (p : ppc) : bool := match p with PReturned _ => true | _ => false end.
Definition reason_of_packet (p : packet) : option reason :=
  match p with PkEvent _ => None | PkEOF => Some REof | PkERR c => Some (RMaster c) | PkGarbage => Some RTransport end.

Definition step (c : cfg) (s : state) (l : label) : option state :=
  match l with
  | LConnectFail =>
    match ps s with
    | PConnect => Some (set_cause (Some CConnect) (set_ps (PReturning RErr) s))
    | _ => None
    end
  | LConnectOk =>
    match ps s with
    | PConnect => if cancelled s then None
                  else Some (set_dc_p (Some DStart) (set_sock SOpen (set_ps PStart s)))
    | _ => None
    end
  | LStartFail =>
    match ps s with
    | PStart => Some (set_cause (Some CStart) (set_dc_p None (set_ps (PReturning RErr) s)))
    | _ => None
    end
  | LStartOk =>
    match ps s with
    | PStart => Some (set_s_chan true (set_dc_r (Some DReadPacket) (set_rd RRead (set_dc_p None (set_ps PSelect s)))))
    | _ => None
    end
  | LParserSeeClosed =>
    match ps s with
    | PSelect => if evclosed s then Some (set_cause (Some CClosed) (set_ps (PReturning RNil) s)) else None
    | _ => None
    end
  | LParserSeeCancel =>
    match ps s with
    | PSelect => if cancelled s then Some (set_cause (Some CCancel) (set_ps (PReturning RNil) s)) else None
    | _ => None
    end
  | LProcOk =>
    match ps s with
    | PProcess e => if ev_tx e then Some (set_hrun (S (hrun s)) (set_ps (PInHandler e) s))
                    else Some (set_ps PSelect s)
    | _ => None
    end
  | LProcBad =>
    match ps s with
    | PProcess e => Some (set_cause (Some CBad) (set_ps (PReturning RErr) s))
    | _ => None
    end
  | LHandlerOk =>
    match ps s with
    | PInHandler e => Some (set_hlog (hlog s ++ [(e, true)]) (set_hrun (pred (hrun s)) (set_ps PSelect s)))
    | _ => None
    end
  | LHandlerErr =>
    match ps s with
    | PInHandler e => Some (set_cause (Some CHandlerErr)
                             (set_hlog (hlog s ++ [(e, false)]) (set_hrun (pred (hrun s)) (set_ps (PReturning RErr) s))))
    | _ => None
    end
  | LStreamDefer =>
    match ps s with
    | PReturning r =>
      match sock s with
      | SNone => Some (set_dcancelled (fix_d9 c) (set_ps (PReturned r) s))     (* no connection: nothing deferred *)
      | _ =>                                (* parseEvents (if it ran) has returned: sample the context, then *)
        Some (set_ended_uncancelled (s_chan s && negb (cancelled s))
               (set_dc_p (Some DClose) (set_ps (PDeferClose r) s)))            (* inside conn.close() -> dc.Close() *)
      end
    | _ => None
    end
  | LStreamReturn =>
    match ps s with
    | PDeferClose r =>
      Some (set_dcancelled (fix_d9 c) (set_dc_p None
             (set_sock (match sock s with SOpen => SClosedClient | x => x end) (set_ps (PReturned r) s))))
    | _ => None
    end
  | LReaderRecv =>
    match rd s, inbox s with
    | RRead, p :: t =>
      match p with
      | PkEvent e => Some (set_dc_r None (set_rd (RHold e) (set_inbox t s)))
      | _ => match reason_of_packet p with
             | Some r => Some (set_rreason (Some r) (set_dc_r None (set_rd (RPutErr r) (set_inbox t s))))
             | None => None
             end
      end
    | _, _ => None
    end
  | LReaderReadFail =>
    match rd s with
    | RRead => if read_fails s
               then Some (set_rreason (Some RTransport) (set_dc_r None (set_rd (RPutErr RTransport) s)))
               else None
    | _ => None
    end
  | LHandoff =>
    match rd s, ps s with
    | RHold e, PSelect =>
      Some (set_consumed (consumed s ++ [e]) (set_ps (PProcess e) (set_dc_r (Some DReadPacket) (set_rd RRead s))))
    | _, _ => None
    end
  | LReaderSeeCancel =>
    match rd s with
    | RHold e => if rctx_done s then Some (set_rreason (Some RCancel) (set_rd (RPutErr RCancel) s)) else None
    | _ => None
    end
  | LReaderPutErr =>
    match rd s with
    | RPutErr r => if (length (ec_buf s) <? ecap) && negb (ec_closed s)
                   then Some (set_ec_sent (ec_sent s ++ [r]) (set_ec_buf (ec_buf s ++ [r]) (set_rd RCloseErr s)))
                   else None
    | _ => None
    end
  | LReaderCloseErr =>
    match rd s with
    | RCloseErr => Some (set_ec_closed true (set_rd RCloseEv s))
    | _ => None
    end
  | LReaderCloseEv =>
    match rd s with
    | RCloseEv => Some (set_evclosed true (set_rd RDone s))
    | _ => None
    end
  | LCallError =>
    match ps s, cl s with
    | PReturned _, CInError => None
    | PReturned _, _ => Some (set_cl CInError s)
    | _, _ => None
    end
  | LErrorStep =>
    match cl s with
    | CInError =>
      let fin (r : eres) (s0 : state) :=
          set_cl (CReturned r)
            (match first_res s0 with
             | None => set_first_res (Some r) (set_canc_at_err (cancelled s0) s0)
             | Some _ => s0
             end) in
      if s_chan s then
        match ec_buf s with
        | r :: t => Some (set_ec_buf t (fin (efilter (efirst_case c s) r) s))
        | [] => if ec_closed s then Some (fin ENil s) else None        (* blocked until the reader publishes *)
        end
      else if fix_d10 c then Some (fin ENil s) else None               (* nil channel: blocks for ever *)
    | _ => None
    end
  | LArrive p =>
    match sock s with SOpen => Some (set_inbox (inbox s ++ [p]) s) | _ => None end
  | LMasterClose =>
    match sock s with SOpen => Some (set_sock SClosedMaster s) | _ => None end
  | LMasterReset =>
    match sock s with SOpen => Some (set_sock SReset s) | _ => None end
  | LCancel =>
    if cancelled s then None
    else Some (set_canc_pre_pe (negb (past_sample (ps s)))
                (set_canc_pre_call (match cl s with CIdle => true | _ => false end)
                  (set_canc_pre_ret (negb (is_returned (ps s))) (set_cancelled true s))))
  end.

(* executable runs, for witnesses *)
Fixpoint run (c : cfg) (s : state) (ls : list label) : option state :=
  match ls with
  | [] => Some s
  | l :: r => match step c s l with Some s1 => run c s1 r | None => None end
  end.

Definition enabledb (c : cfg) (s : state) (l : label) : bool :=
  match step c s l with Some _ => true | None => false end.

(* labels that can possibly be enabled in a state, up to the choice of the arriving packet *)
Definition lib_labels : list label :=
  [LConnectOk; LConnectFail; LStartOk; LStartFail; LParserSeeClosed; LParserSeeCancel; LProcOk; LProcBad;
   LStreamDefer; LStreamReturn; LReaderRecv; LReaderReadFail; LReaderSeeCancel; LReaderPutErr; LReaderCloseErr;
   LReaderCloseEv; LHandoff; LErrorStep].
Definition reader_labels : list label :=
  [LReaderRecv; LReaderReadFail; LReaderSeeCancel; LReaderPutErr; LReaderCloseErr; LReaderCloseEv].

(* ---- observations used by the statements ---- *)
Definition stream_returned (s : state) : bool := is_returned (ps s).
Definition stream_result (s : state) : option sres := match ps s with PReturned r => Some r | _ => None end.
Definition in_handler (s : state) : bool := match ps s with PInHandler _ => true | _ => false end.
Definition reader_gone (s : state) : bool := match rd s with RNotStarted | RDone => true | _ => false end.
Definition sock_lost (s : state) : bool :=
  match sock s with SClosedClient | SClosedMaster | SReset => true | _ => false end.
Definition is_terminal (p : packet) : bool := match p with PkEvent _ => false | _ => true end.
Definition reader_stopped (s : state) : bool :=
  match rd s with RPutErr _ | RCloseErr | RCloseEv | RDone => true | _ => false end.
(* "cancellation, end of stream, connection loss or any error" has happened *)
Definition stop_cause_present (s : state) : bool :=
  cancelled s || sock_lost s || existsb is_terminal (inbox s) || reader_stopped s
  || match ps s with PReturning _ | PDeferClose _ | PReturned _ => true | _ => false end.

(* progress measure: every library step strictly decreases it (4 per buffered packet, plus pc ranks) *)
Definition rrank (r : rpc) : nat :=
  match r with RDone => 0 | RCloseEv => 1 | RCloseErr => 2 | RPutErr _ => 3 | RRead | RNotStarted => 4 | RHold _ => 6 end.
Definition prank (p : ppc) : nat :=
  match p with PReturned _ => 0 | PDeferClose _ => 1 | PReturning _ => 2 | PSelect | PInHandler _ => 3
             | PProcess _ => 4 | PStart => 8 | PConnect => 9 end.
Definition crank (k : cpc) : nat := match k with CInError => 1 | _ => 0 end.
Definition mu (s : state) : nat := 4 * length (inbox s) + rrank (rd s) + prank (ps s) + crank (cl s).

Definition events_of (l : list packet) : list event :=
  flat_map (fun p => match p with PkEvent e => [e] | _ => [] end) l.
Definition held (s : state) : list event := match rd s with RHold e => [e] | _ => [] end.

(* ---- all schedules: any label sequence from init (no bound on packets or steps) ---- *)
Inductive reach (c : cfg) : list label -> state -> Prop :=
| reach_init : reach c [] init
| reach_step tr s l s' : reach c tr s -> step c s l = Some s' -> reach c (tr ++ [l]) s'.
Definition reachable (c : cfg) (s : state) : Prop := exists tr, reach c tr s.

(* runs of library steps only (the environment is silent) *)
Inductive lib_run (c : cfg) : state -> list label -> state -> Prop :=
| lr_nil s : lib_run c s [] s
| lr_cons s l s1 ls s2 : is_lib l = true -> step c s l = Some s1 -> lib_run c s1 ls s2 -> lib_run c s (l :: ls) s2.
(* no library process can move *)
Definition quiescent (c : cfg) (s : state) : Prop := forall l, is_lib l = true -> step c s l = None.
Definition enabled (c : cfg) (s : state) (l : label) : Prop := exists s', step c s l = Some s'.

(* trace observations (independent of the ghost fields of the state) *)
Definition sent_events (tr : list label) : list event :=
  flat_map (fun l => match l with LArrive (PkEvent e) => [e] | _ => [] end) tr.
(* a Cancel label occurs, and no StreamDefer label (parseEvents returned, context sampled) before it *)
Fixpoint cancel_before_sample (tr : list label) : bool :=
  match tr with
  | [] => false
  | LCancel :: _ => true
  | LStreamDefer :: _ => false
  | _ :: r => cancel_before_sample r
  end.
(* a Cancel label occurs, and no StreamReturn label before it *)
Fixpoint cancel_before_return (tr : list label) : bool :=
  match tr with
  | [] => false
  | LCancel :: _ => true
  | LStreamReturn :: _ => false
  | _ :: r => cancel_before_return r
  end.
Definition trace_has_failure (tr : list label) : bool :=
  existsb (fun l => match l with LHandlerErr | LProcBad | LConnectFail | LStartFail => true | _ => false end) tr.
