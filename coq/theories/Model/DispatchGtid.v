(* Sub-dispatcher for the GTID family (C18, C19): exposes every operation of
   Model/Gtid.v, the GoText models and the specification side of Spec/GtidSpec.v to
   the harness.  Glue only; no theorem depends on this file.

   Wire forms:  sid = x<32 hex>;  set56 = ((sid (a b) (a b) ...) ...);  gtid56 = (sid seq);
   mgtid = (domain server seq);  mset = (mgtid ...);
   any gtid = (m56 sid seq) | (maria d s q) | nil;  text = x<hex of the bytes>. *)
From GB Require Import Base.Prelude Base.DecText Base.Sexp Base.GoText.
From GB Require Import Model.Gtid Spec.GtidSpec.
From Coq Require Import String.
Open Scope Z_scope.

Definition gbad : val := L [vsym "bad"%string; vsym "gtid-args"%string].
Definition gis (op : bytes) (s : string) : bool := bytes_eqb op (str s).

(* ---- decoding arguments ---- *)
Definition as_iv (v : val) : option iv :=
  match v with
  | L [a; b] => match as_int a, as_int b with Some x, Some y => Some (x, y) | _, _ => None end
  | _ => None
  end.
Definition as_entry (v : val) : option (sid * list iv) :=
  match v with
  | L (k :: ivs) => match as_hex k, map_opt as_iv ivs with Some x, Some l => Some (x, l) | _, _ => None end
  | _ => None
  end.
Definition as_set (v : val) : option gset :=
  match v with L l => map_opt as_entry l | _ => None end.
Definition as_g56 (v : val) : option g56 :=
  match v with
  | L [k; n] => match as_hex k, as_int n with Some x, Some z => Some {| g_sid := x; g_seq := z |} | _, _ => None end
  | _ => None
  end.
Definition as_mgtid (v : val) : option mgtid :=
  match v with
  | L [d; s; q] =>
    match as_int d, as_int s, as_int q with
    | Some x, Some y, Some z => Some {| m_dom := x; m_srv := y; m_seq := z |}
    | _, _, _ => None
    end
  | _ => None
  end.
Definition as_mset (v : val) : option mset :=
  match v with L l => map_opt as_mgtid l | _ => None end.
Definition as_gtid (v : val) : option gtid :=
  match v with
  | L (t :: r) =>
    if is_sym "m56" t then match as_g56 (L r) with Some g => Some (G56 g) | None => None end
    else if is_sym "maria" t then match as_mgtid (L r) with Some m => Some (GMaria m) | None => None end
    else None
  | _ => None
  end.
Definition as_ogtid (v : val) : option (option gtid) :=
  if is_sym "nil" v then Some None
  else match as_gtid v with Some g => Some (Some g) | None => None end.
Definition as_sets (v : val) : option (list gset) :=
  match v with L l => map_opt as_set l | _ => None end.
Definition as_g56s (v : val) : option (list g56) :=
  match v with L l => map_opt as_g56 l | _ => None end.

(* ---- printing results ---- *)
Definition v_iv (i : iv) : val := L [vint (fst i); vint (snd i)].
Definition v_entry (e : sid * list iv) : val := L (vhex (fst e) :: map v_iv (snd e)).
Definition v_set (s : gset) : val := L (map v_entry s).
Definition v_g56 (g : g56) : val := L [vhex (g_sid g); vint (g_seq g)].
Definition v_mgtid (m : mgtid) : val := L [vint (m_dom m); vint (m_srv m); vint (m_seq m)].
Definition v_mset (s : mset) : val := L (map v_mgtid s).
Definition v_gtid (g : gtid) : val :=
  match g with
  | G56 x => L [vsym "m56"%string; vhex (g_sid x); vint (g_seq x)]
  | GMaria m => L [vsym "maria"%string; vint (m_dom m); vint (m_srv m); vint (m_seq m)]
  end.
Definition v_ogtid (g : option gtid) : val :=
  match g with None => vsym "nil"%string | Some x => v_gtid x end.
Definition v_pair (p : mset * mset) : val := L [v_mset (fst p); v_mset (snd p)].
Definition v_bits (l : list bool) : val := A (98 :: map (fun b : bool => if b then 49 else 48) l).   (* b0110... *)

(* ---- arity helpers ---- *)
Definition a1 {X} (p : val -> option X) (f : X -> val) (args : list val) : val :=
  match args with
  | [a] => match p a with Some x => f x | None => gbad end
  | _ => gbad
  end.
Definition a2 {X Y} (p : val -> option X) (q : val -> option Y) (f : X -> Y -> val) (args : list val) : val :=
  match args with
  | [a; b] => match p a, q b with Some x, Some y => f x y | _, _ => gbad end
  | _ => gbad
  end.
Definition a3 {X Y W} (p : val -> option X) (q : val -> option Y) (r : val -> option W)
           (f : X -> Y -> W -> val) (args : list val) : val :=
  match args with
  | [a; b; c] => match p a, q b, r c with Some x, Some y, Some w => f x y w | _, _, _ => gbad end
  | _ => gbad
  end.
Definition a4 {X Y W V} (p : val -> option X) (q : val -> option Y) (r : val -> option W) (t : val -> option V)
           (f : X -> Y -> W -> V -> val) (args : list val) : val :=
  match args with
  | [a; b; c; d] =>
    match p a, q b, r c, t d with Some x, Some y, Some w, Some v => f x y w v | _, _, _, _ => gbad end
  | _ => gbad
  end.

Definition r_hex (r : res bytes) : val := vres (fun b => [vhex b]) r.
Definition r_set (r : res gset) : val := vres (fun s => [v_set s]) r.
Definition r_z (r : res Z) : val := vres (fun z => [vint z]) r.

(* everything observable about one 5.6 set: text, SID block, canonical? *)
Definition set_obs (s : gset) : val := L [vhex (set56_string s); vhex (sid_block s); vbool (canonb s)].

(* one AddGTID / ContainsGTID: model part, and (when `enum`) the expected part by enumeration *)
Definition add_obs (enum : bool) (s : gset) (g : g56) : val :=
  let r := add_gtid s g in
  L [vbool (contains_gtid s g); vhex (set56_string r); vhex (sid_block r);
     vbool (denb s (g_sid g) (g_seq g));
     if enum then L [vbool (exp_contains_gtid s (g_sid g) (g_seq g)); v_set (exp_add s (g_sid g) (g_seq g))]
     else L []].

(* a sequence of AddGTID: the text of every intermediate set *)
Fixpoint add_seq (s : gset) (gs : list g56) : list val :=
  match gs with
  | [] => []
  | g :: r => let s' := add_gtid s g in set_obs s' :: add_seq s' r
  end.

Definition pair_bits (f : gset -> gset -> bool) (xs ys : list gset) : val :=
  v_bits (flat_map (fun x => map (fun y => f x y) ys) xs).

Definition dispatch_gtid (op : bytes) (args : list val) : option val :=
  match op with
  | 103 :: 46 :: _ =>          (* "g." *)
    Some (
    (* --- MySQL 5.6 text / binary forms --- *)
    if gis op "g.sid_string" then a1 as_hex (fun x => vhex (sid_string x)) args
    else if gis op "g.parse_sid" then a1 as_hex (fun t => r_hex (parse_sid t)) args
    else if gis op "g.g56_string" then a1 as_g56 (fun g => vhex (g56_string g)) args
    else if gis op "g.parse_g56" then a1 as_hex (fun t => vres (fun g => [v_g56 g]) (parse_g56 t)) args
    else if gis op "g.parse_interval" then a1 as_hex (fun t => vres (fun i => [v_iv i]) (parse_interval t)) args
    else if gis op "g.set_obs" then a1 as_set set_obs args
    else if gis op "g.parse_set" then a1 as_hex (fun t => vres (fun s => [v_set s; set_obs s]) (parse_set56 t)) args
    else if gis op "g.from_sid_block" then a1 as_hex (fun d => vres (fun s => [v_set s; set_obs s]) (from_sid_block d)) args
    (* --- set operations --- *)
    else if gis op "g.contains_gtid" then a2 as_set as_g56 (fun s g => vbool (contains_gtid s g)) args
    else if gis op "g.contains" then a2 as_set as_set (fun s t => vbool (contains s t)) args
    else if gis op "g.equal" then a2 as_set as_set (fun s t => vbool (equal s t)) args
    else if gis op "g.add" then a2 as_set as_g56 (add_obs false) args
    else if gis op "g.addx" then a2 as_set as_g56 (add_obs true) args
    else if gis op "g.adds" then a2 as_set as_g56s (fun s gs => L (map (add_obs false s) gs)) args
    else if gis op "g.addsx" then a2 as_set as_g56s (fun s gs => L (map (add_obs true s) gs)) args
    else if gis op "g.all" then a2 as_set as_g56s (fun s gs => L [set_obs s; L (map (add_obs false s) gs)]) args
    else if gis op "g.allx" then a2 as_set as_g56s (fun s gs => L [set_obs s; L (map (add_obs true s) gs)]) args
    else if gis op "g.add_seq" then a2 as_set as_g56s (fun s gs => L (add_seq s gs)) args
    else if gis op "g.g56_set" then a1 as_g56 (fun g => set_obs (g56_set g)) args
    else if gis op "g.pairs" then
      a2 as_sets as_sets (fun xs ys => L [pair_bits contains xs ys; pair_bits equal xs ys]) args
    else if gis op "g.pairsx" then
      a2 as_sets as_sets (fun xs ys => L [pair_bits contains xs ys; pair_bits equal xs ys;
                                          pair_bits exp_contains xs ys; pair_bits exp_equal xs ys]) args
    else if gis op "g.contains_gtid_any" then a2 as_set as_gtid (fun s g => vbool (contains_gtid_any s g)) args
    else if gis op "g.add_any" then a2 as_set as_gtid (fun s g => set_obs (add_gtid_any s g)) args
    (* --- specification side --- *)
    else if gis op "g.canonb" then a1 as_set (fun s => vbool (canonb s)) args
    else if gis op "g.denb" then a2 as_set as_g56s (fun s gs => v_bits (map (fun g => denb s (g_sid g) (g_seq g)) gs)) args
    else if gis op "g.exp_add" then a2 as_set as_g56 (fun s g => v_set (exp_add s (g_sid g) (g_seq g))) args
    else if gis op "g.exp_adds" then
      a2 as_set as_g56s (fun s gs => v_set (exp_adds s (map (fun g => (g_sid g, g_seq g)) gs))) args
    else if gis op "g.maria_coversb" then
      a2 as_mset as_mgtid (fun s g => vbool (maria_coversb (map (fun h => (m_dom h, m_srv h, m_seq h)) s) (m_dom g) (m_seq g))) args
    else if gis op "g.enc_sid_block" then a1 as_set (fun s => vhex (enc_sid_block s)) args
    else if gis op "g.enc_gtid_event" then
      a4 as_int as_hex as_int as_hex (fun f u n rest => vhex (enc_gtid_event f u n rest)) args
    else if gis op "g.enc_maria_gtid_event" then
      a4 as_int as_int as_int as_hex (fun q d f rest => vhex (enc_maria_gtid_event q d f rest)) args
    (* --- events --- *)
    else if gis op "g.gtid_event56" then a1 as_hex (fun b => vres (fun g => [v_g56 g]) (gtid_event56 b)) args
    else if gis op "g.prev_gtids56" then a1 as_hex (fun b => vres (fun s => [v_set s; set_obs s]) (prev_gtids_event56 b)) args
    else if gis op "g.gtid_event_maria" then
      a2 as_hex as_int (fun b sv => vres (fun p => [v_mgtid (fst p); vbool (snd p)]) (gtid_event_maria b sv)) args
    (* --- MariaDB --- *)
    else if gis op "g.mgtid_string" then a1 as_mgtid (fun m => vhex (mgtid_string m)) args
    else if gis op "g.parse_mgtid" then a1 as_hex (fun t => vres (fun m => [v_mgtid m]) (parse_mgtid t)) args
    else if gis op "g.mset_string" then a1 as_mset (fun s => vhex (mset_string s)) args
    else if gis op "g.parse_mset" then a1 as_hex (fun t => vres (fun s => [v_mset s]) (parse_mset t)) args
    else if gis op "g.maria_contains_gtid" then a2 as_mset as_mgtid (fun s g => vbool (maria_contains_gtid s g)) args
    else if gis op "g.maria_contains" then a2 as_mset as_mset (fun s t => vbool (maria_contains s t)) args
    else if gis op "g.maria_equal" then a2 as_mset as_mset (fun s t => vbool (maria_equal s t)) args
    else if gis op "g.maria_add" then a2 as_mset as_mgtid (fun s g => v_pair (maria_add s g)) args
    else if gis op "g.maria_add_pinned" then a2 as_mset as_mgtid (fun s g => v_pair (maria_add_pinned s g)) args
    else if gis op "g.maria_add_fixed" then a2 as_mset as_mgtid (fun s g => v_pair (maria_add_fixed s g)) args
    else if gis op "g.maria_contains_gtid_any" then a2 as_mset as_gtid (fun s g => vbool (maria_contains_gtid_any s g)) args
    else if gis op "g.maria_add_any" then a2 as_mset as_gtid (fun s g => v_pair (maria_add_any s g)) args
    (* --- flavor-tagged encoding --- *)
    else if gis op "g.encode_gtid" then a1 as_ogtid (fun g => vhex (encode_gtid g)) args
    else if gis op "g.decode_gtid" then a1 as_hex (fun t => vres (fun g => [v_ogtid g]) (decode_gtid t)) args
    else gbad)
  | 116 :: 46 :: _ =>          (* "t." : the Go library models *)
    Some (
    if gis op "t.split" then a2 as_int as_hex (fun c s => L (map vhex (split_on c s))) args
    else if gis op "t.splitn2" then a2 as_int as_hex (fun c s => L (map vhex (splitn2 c s))) args
    else if gis op "t.trim" then a1 as_hex (fun s => vhex (trim_space s)) args
    else if gis op "t.parse_int" then a2 as_int as_hex (fun b s => r_z (parse_int b s)) args
    else if gis op "t.parse_uint" then a2 as_int as_hex (fun b s => r_z (parse_uint b s)) args
    else if gis op "t.format_int" then a1 as_int (fun z => vhex (format_int z)) args
    else if gis op "t.hex_encode" then a1 as_hex (fun b => vhex (hex_encode b)) args
    else if gis op "t.hex_decode" then a1 as_hex (fun b => r_hex (hex_decode b)) args
    else if gis op "t.join" then a2 as_hex (fun v => match v with L l => map_opt as_hex l | _ => None end)
                                   (fun sep l => vhex (join sep l)) args
    else gbad)
  | _ => None
  end.
