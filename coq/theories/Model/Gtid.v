(* Executable model of the GTID code of /repo/replication:
     mysql56_gtid.go, mysql56_gtid_set.go, mariadb_gtid.go, gtid.go and the
     GTID / PreviousGTIDs methods of binlog_event_mysql56.go / binlog_event_mariadb.go.
   Definitions only.

   Representation choices
   * SID ([16]byte) is a byte list; every operation is total on lists of any length.
   * Mysql56GTIDSet (map[SID][]interval) is an association list kept sorted by
     bytes.Compare of the key: Go map iteration order is not observable (String and
     SIDBlock sort the keys; Contains / Equal / AddGTID are order independent).
     `lookup` returns [] for an absent key like Go's nil slice.
   * int64 arithmetic that can wrap (iv.end+1, iv.start-1, end-1 on uint64) goes through i64 / u64.
   * MariadbGTIDSet.AddGTID of the pinned tree writes into the receiver's backing array;
     `maria_add_pinned` returns (result, receiver as seen after the call). *)
From GB Require Import Base.Prelude Base.DecText Base.GoText.
From GBGen Require Import Consts.
Open Scope Z_scope.

Definition sid := bytes.
Definition iv := (Z * Z)%type.                 (* interval{start, end} *)
Definition gset := list (sid * list iv).        (* Mysql56GTIDSet *)
Record g56 := { g_sid : sid; g_seq : Z }.       (* Mysql56GTID *)

(* bytes.Compare *)
Fixpoint bytes_compare (a b : bytes) : comparison :=
  match a, b with
  | [], [] => Eq
  | [], _ :: _ => Lt
  | _ :: _, [] => Gt
  | x :: a', y :: b' =>
    match x ?= y with
    | Eq => bytes_compare a' b'
    | c => c
    end
  end.

(* set[sid] *)
Fixpoint lookup (k : sid) (s : gset) : list iv :=
  match s with
  | [] => []
  | (k', v) :: r => if bytes_eqb k k' then v else lookup k r
  end.

(* set[sid] = v *)
Fixpoint map_set (k : sid) (v : list iv) (s : gset) : gset :=
  match s with
  | [] => [(k, v)]
  | (k', v') :: r =>
    match bytes_compare k k' with
    | Lt => (k, v) :: s
    | Eq => (k, v) :: r
    | Gt => (k', v') :: map_set k v r
    end
  end.

(* ---------------- SID text ---------------- *)

(* SID.String: "xxxxxxxx-xxxx-xxxx-xxxx-xxxxxxxxxxxx" *)
Definition sub (d : bytes) (a n : nat) : bytes := firstn n (skipn a d).
Definition sid_string (x : sid) : bytes :=
  hex_encode (sub x 0 4) ++ [45] ++ hex_encode (sub x 4 2) ++ [45] ++ hex_encode (sub x 6 2) ++ [45] ++
  hex_encode (sub x 8 2) ++ [45] ++ hex_encode (sub x 10 6).

Definition is_dash_at (s : bytes) (p : nat) : bool :=
  match nth_error s p with Some c => c =? 45 | None => false end.

(* ParseSID *)
Definition parse_sid (s : bytes) : res sid :=
  if negb (Nat.eqb (length s) 36) || negb (is_dash_at s 8) || negb (is_dash_at s 13)
     || negb (is_dash_at s 18) || negb (is_dash_at s 23)
  then Err EOther
  else hex_decode (sub s 0 8 ++ sub s 9 4 ++ sub s 14 4 ++ sub s 19 4 ++ skipn 24 s).

(* ---------------- Mysql56GTID ---------------- *)

Definition g56_string (g : g56) : bytes := sid_string (g_sid g) ++ [58] ++ format_int (g_seq g).

(* parseMysql56GTID *)
Definition parse_g56 (s : bytes) : res g56 :=
  match split_on 58 s with
  | [a; b] =>
    do x <- parse_sid a;
    do n <- parse_int 64 b;
    Ok {| g_sid := x; g_seq := n |}
  | _ => Err EOther
  end.

(* ---------------- Mysql56GTIDSet ---------------- *)

(* interval.contains *)
Definition iv_contains (i o : iv) : bool := (fst i <=? fst o) && (snd o <=? snd i).

(* parseInterval *)
Definition parse_interval (s : bytes) : res iv :=
  let parts := split_on 45 s in
  do start <- parse_int 64 (hd [] parts);
  if start <? 1 then Err EOther
  else match parts with
       | [_] => Ok (start, start)
       | [_; e] => do en <- parse_int 64 e; Ok (start, en)
       | _ => Err EOther
       end.

(* sort.Sort(intervalList): by start.  Go's sort is insertion sort (stable) up to 12
   elements and pdqsort (not stable) beyond; the model is the stable insertion sort,
   exact whenever the starts are distinct or there are at most 12 intervals. *)
Fixpoint insert_iv (x : iv) (l : list iv) : list iv :=
  match l with
  | [] => [x]
  | y :: r => if fst x <? fst y then x :: l else y :: insert_iv x r
  end.
Definition sort_ivs (l : list iv) : list iv := fold_left (fun acc x => insert_iv x acc) l [].

(* the `for _, part := range parts[1:]` loop: discards intervals with end < start *)
Fixpoint parse_ivs (parts : list bytes) : res (list iv) :=
  match parts with
  | [] => Ok []
  | p :: r =>
    do i <- parse_interval p;
    do rest <- parse_ivs r;
    Ok (if snd i <? fst i then rest else i :: rest)
  end.

(* the `for _, uuidSet := range strings.Split(s, ",")` loop *)
Fixpoint parse_set_loop (items : list bytes) (set : gset) : res gset :=
  match items with
  | [] => Ok set
  | it :: r =>
    match trim_space it with
    | [] => parse_set_loop r set
    | u =>
      let parts := split_on 58 u in
      if (length parts <? 2)%nat then Err EOther
      else
        do x <- parse_sid (hd [] parts);
        do ivs <- parse_ivs (tl parts);
        match ivs with
        | [] => parse_set_loop r set
        | _ => parse_set_loop r (map_set x (sort_ivs ivs) set)
        end
    end
  end.

(* parseMysql56GTIDSet *)
Definition parse_set56 (s : bytes) : res gset := parse_set_loop (split_on 44 s) [].

(* Mysql56GTIDSet.String *)
Definition iv_string (i : iv) : bytes :=
  58 :: format_int (fst i) ++ (if snd i =? fst i then [] else 45 :: format_int (snd i)).
Definition entry_string (e : sid * list iv) : bytes :=
  sid_string (fst e) ++ concat (map iv_string (snd e)).
Definition set56_string (s : gset) : bytes := join [44] (map entry_string s).

(* ContainsGTID *)
Fixpoint ivs_contain (ivs : list iv) (n : Z) : bool :=
  match ivs with
  | [] => false
  | (a, b) :: r => if a >? n then false else if n <=? b then true else ivs_contain r n
  end.
Definition contains_gtid (s : gset) (g : g56) : bool := ivs_contain (lookup (g_sid g) s) (g_seq g).

(* Contains: the index i of the Go loop is the suffix of `intervals` still to be looked at *)
Fixpoint cover_one (ivs : list iv) (o : iv) : option (list iv) :=
  match ivs with
  | [] => None                                              (* i >= count: return false *)
  | i :: r => if iv_contains i o then Some ivs              (* break, i unchanged *)
              else cover_one r o                            (* i++ *)
  end.
Fixpoint cover_all (ivs : list iv) (others : list iv) : bool :=
  match others with
  | [] => true
  | o :: r => match cover_one ivs o with
              | None => false
              | Some ivs' => cover_all ivs' r
              end
  end.
Definition contains (s t : gset) : bool :=
  forallb (fun e => cover_all (lookup (fst e) s) (snd e)) t.

(* Equal *)
Definition iv_eqb (a b : iv) : bool := (fst a =? fst b) && (snd a =? snd b).
Fixpoint ivs_eq_loop (a b : list iv) : bool :=        (* `for i, iv := range intervals { if iv != other[i] ...` with equal lengths *)
  match a, b with
  | [], _ => true
  | x :: a', y :: b' => iv_eqb x y && ivs_eq_loop a' b'
  | _ :: _, [] => false
  end.
Definition equal (s t : gset) : bool :=
  if negb (Nat.eqb (length s) (length t)) then false
  else forallb (fun e => let o := lookup (fst e) t in
                         Nat.eqb (length (snd e)) (length o) && ivs_eq_loop (snd e) o) s.

(* AddGTID: the loop over the intervals of the GTID's own server.
   `racc` is newIntervals reversed (its head is newIntervals[count-1]). *)
Fixpoint add_loop (n : Z) (ivs : list iv) (added : bool) (racc : list iv) : bool * list iv :=
  match ivs with
  | [] => (added, rev racc)
  | (st, en) :: r =>
    let '(st1, en1, added1, racc1) :=
      if added then (st, en, true, racc)
      else if n =? i64 (st - 1) then (n, en, true, racc)                 (* expand at the beginning *)
      else if n =? i64 (en + 1) then (st, n, true, racc)                 (* expand at the end *)
      else if n <? i64 (st - 1) then (st, en, true, (n, n) :: racc)      (* insert a new interval before *)
      else (st, en, false, racc) in
    match racc1 with
    | (ls, le) :: racc' =>
      if st1 =? i64 (le + 1) then add_loop n r added1 ((ls, en1) :: racc')   (* merge with the previous one *)
      else add_loop n r added1 ((st1, en1) :: racc1)
    | [] => add_loop n r added1 ((st1, en1) :: racc1)
    end
  end.

(* the `for sid, intervals := range set` loop, returning the new map and `added` *)
Fixpoint add_sids (g : g56) (s : gset) : bool * gset :=
  match s with
  | [] => (false, [])
  | (k, ivs) :: r =>
    let '(added_r, new_r) := add_sids g r in
    if bytes_eqb k (g_sid g)
    then let '(added, nivs) := add_loop (g_seq g) ivs false [] in (added || added_r, (k, nivs) :: new_r)
    else (added_r, (k, ivs) :: new_r)
  end.

Definition add_gtid (s : gset) (g : g56) : gset :=
  if contains_gtid s g then s
  else
    let '(added, new) := add_sids g s in
    if added then new
    else map_set (g_sid g) (lookup (g_sid g) new ++ [(g_seq g, g_seq g)]) new.

(* Mysql56GTID.GTIDSet *)
Definition g56_set (g : g56) : gset := add_gtid [] g.

(* SIDBlock *)
Definition w64 (v : Z) : bytes := le_enc 8 (u64 v).          (* binary.Write of a (u)int64 *)
Definition iv_block (i : iv) : bytes := w64 (fst i) ++ w64 (i64 (snd i + 1)).
Definition entry_block (e : sid * list iv) : bytes :=
  fst e ++ w64 (len (snd e)) ++ concat (map iv_block (snd e)).
Definition sid_block (s : gset) : bytes := w64 (len s) ++ concat (map entry_block s).

(* NewMysql56GTIDSetFromSIDBlock; fuel bounds the two counted loops by the bytes left
   (every iteration consumes at least 16 bytes or fails) *)
Definition read_u64 (d : bytes) : res (Z * bytes) :=
  if (8 <=? length d)%nat then Ok (le_dec (firstn 8 d), skipn 8 d) else Err EOther.

Fixpoint read_ivs (fuel : nat) (n : Z) (x : sid) (d : bytes) (set : gset) : res (bytes * gset) :=
  if n <=? 0 then Ok (d, set)
  else match fuel with
       | O => Err EOutOfFuel
       | S f =>
         do sd <- read_u64 d;
         do ed <- read_u64 (snd sd);
         read_ivs f (n - 1) x (snd ed)
                  (map_set x (lookup x set ++ [(i64 (fst sd), i64 (u64 (fst ed - 1)))]) set)
       end.

Fixpoint read_sids (fuel : nat) (n : Z) (d : bytes) (set : gset) : res gset :=
  if n <=? 0 then Ok set
  else match fuel with
       | O => Err EOutOfFuel
       | S f =>
         if (16 <=? length d)%nat then
           let x := firstn 16 d in
           do nd <- read_u64 (skipn 16 d);
           do ds <- read_ivs (S (length (snd nd))) (fst nd) x (snd nd) set;
           read_sids f (n - 1) (fst ds) (snd ds)
         else Err EOther
       end.

Definition from_sid_block (d : bytes) : res gset :=
  do nd <- read_u64 d;
  read_sids (S (length (snd nd))) (fst nd) (snd nd) [].

(* ---------------- MariaDB ---------------- *)

Record mgtid := { m_dom : Z; m_srv : Z; m_seq : Z }.    (* MariadbGTID *)
Definition mset := list mgtid.                           (* MariadbGTIDSet *)

Definition mgtid_string (g : mgtid) : bytes :=
  format_uint (m_dom g) ++ [45] ++ format_uint (m_srv g) ++ [45] ++ format_uint (m_seq g).

(* parseMariadbGTID *)
Definition parse_mgtid (s : bytes) : res mgtid :=
  match split_on 45 s with
  | [a; b; c] =>
    do d <- parse_uint 32 a;
    do sv <- parse_uint 32 b;
    do q <- parse_uint 64 c;
    Ok {| m_dom := d; m_srv := sv; m_seq := q |}
  | _ => Err EOther
  end.

Fixpoint parse_mgtids (l : list bytes) : res mset :=
  match l with
  | [] => Ok []
  | x :: r => do g <- parse_mgtid x; do t <- parse_mgtids r; Ok (g :: t)
  end.
(* parseMariadbGTIDSet *)
Definition parse_mset (s : bytes) : res mset := parse_mgtids (split_on 44 s).

Definition mset_string (s : mset) : bytes := join [44] (map mgtid_string s).

Definition mgtid_eqb (a b : mgtid) : bool :=
  (m_dom a =? m_dom b) && (m_srv a =? m_srv b) && (m_seq a =? m_seq b).

(* ContainsGTID: the first member of the same domain decides *)
Fixpoint maria_contains_gtid (s : mset) (g : mgtid) : bool :=
  match s with
  | [] => false
  | h :: r => if m_dom h =? m_dom g then m_seq h >=? m_seq g else maria_contains_gtid r g
  end.
Definition maria_contains (s t : mset) : bool := forallb (maria_contains_gtid s) t.
Fixpoint maria_equal (s t : mset) : bool :=
  match s, t with
  | [], [] => true
  | a :: s', b :: t' => mgtid_eqb a b && maria_equal s' t'
  | _, _ => false
  end.

(* AddGTID as on the pinned tree: `gtidSet[i] = mdbOther` writes into the array shared
   with the receiver, so the receiver observes the replacement too.
   Result = (returned set, receiver after the call).  (Aliasing through spare capacity
   of `append` is not representable here; the harness watches for it.) *)
Fixpoint maria_add_pinned (s : mset) (g : mgtid) : mset * mset :=
  match s with
  | [] => ([g], [])
  | h :: r =>
    if m_dom g =? m_dom h then
      if m_seq g >? m_seq h then (g :: r, g :: r) else (h :: r, h :: r)
    else let '(res, rcv) := maria_add_pinned r g in (h :: res, h :: rcv)
  end.

(* AddGTID after the repair "copy before replace": the receiver is left alone *)
Fixpoint maria_add_result (s : mset) (g : mgtid) : mset :=
  match s with
  | [] => [g]
  | h :: r =>
    if m_dom g =? m_dom h then (if m_seq g >? m_seq h then g :: r else h :: r)
    else h :: maria_add_result r g
  end.
Definition maria_add_fixed (s : mset) (g : mgtid) : mset * mset := (maria_add_result s g, s).

(* THE SWITCH: the behaviour of the tree the checks run against.
   Pinned tree (defect D6): maria_add_pinned.   After "fix: MariadbGTIDSet.AddGTID copies": maria_add_fixed. *)
Definition maria_add : mset -> mgtid -> mset * mset := maria_add_fixed.

(* ---------------- flavor-tagged encoding (gtid.go) ---------------- *)

Inductive gtid := G56 (g : g56) | GMaria (m : mgtid).

Definition gtid_flavor (g : gtid) : bytes :=
  match g with G56 _ => K_mysql56FlavorID | GMaria _ => K_mariadbFlavorID end.
Definition gtid_string (g : gtid) : bytes :=
  match g with G56 x => g56_string x | GMaria m => mgtid_string m end.

(* EncodeGTID; None is the nil interface *)
Definition encode_gtid (g : option gtid) : bytes :=
  match g with
  | None => []
  | Some g => gtid_flavor g ++ [47] ++ gtid_string g
  end.

(* ParseGTID: the registry gtidParsers has exactly the two flavors *)
Definition parse_gtid (flavor value : bytes) : res gtid :=
  if bytes_eqb flavor K_mysql56FlavorID then (do g <- parse_g56 value; Ok (G56 g))
  else if bytes_eqb flavor K_mariadbFlavorID then (do m <- parse_mgtid value; Ok (GMaria m))
  else Err EOther.

(* DecodeGTID *)
Definition decode_gtid (s : bytes) : res (option gtid) :=
  match s with
  | [] => Ok None
  | _ =>
    match splitn2 47 s with
    | [f; v] => do g <- parse_gtid f v; Ok (Some g)
    | _ => do g <- parse_gtid [] s; Ok (Some g)
    end
  end.

(* methods called with a GTID of the other flavor (the type assertion fails) *)
Definition contains_gtid_any (s : gset) (g : gtid) : bool :=
  match g with G56 x => contains_gtid s x | GMaria _ => false end.
Definition add_gtid_any (s : gset) (g : gtid) : gset :=
  match g with G56 x => add_gtid s x | GMaria _ => s end.
Definition maria_contains_gtid_any (s : mset) (g : gtid) : bool :=
  match g with GMaria m => maria_contains_gtid s m | G56 _ => false end.
Definition maria_add_any (s : mset) (g : gtid) : mset * mset :=
  match g with GMaria m => maria_add s m | G56 _ => (s, s) end.

(* ---------------- events (functions of the event body = bytes after the header,
   checksum already stripped) ---------------- *)

(* mysql56BinlogEvent.GTID: 1 flags, 16 SID, 8 GNO (little endian, signed) *)
Definition gtid_event56 (body : bytes) : res g56 :=
  do x <- slice body 1 16;
  do n <- le_at body 17 8;
  Ok {| g_sid := x; g_seq := i64 n |}.

(* mysql56BinlogEvent.PreviousGTIDs *)
Definition prev_gtids_event56 (body : bytes) : res gset := from_sid_block body.

(* mariadbBinlogEvent.GTID: 8 sequence, 4 domain, 1 flags2; server id from the header.
   Second component: hasBegin = (flags2 & FL_STANDALONE == 0) *)
Definition gtid_event_maria (body : bytes) (server : Z) : res (mgtid * bool) :=
  do fl <- at_ body 12;
  do q <- le_at body 0 8;
  do d <- le_at body 8 4;
  Ok ({| m_dom := d; m_srv := server; m_seq := q |}, Z.land fl 1 =? 0).
