(* Sub-dispatcher of the model runner for the JSON family (C20).  Glue for the
   correspondence check; no theorem depends on this file.

   Encodings (S-expressions, `nil` = Go nil slice / nil pointer):
     TX    = (POS POS ts EVENTS)          POS  = (xFILE off)
     EVENTS= nil | (EV ...)               EV   = nil | (type xDB xTABLE xSQL ts ROWS ROWS)
     ROWS  = nil | (ROW ...)              ROW  = nil | (COLS)
     COLS  = nil | (COL ...)              COL  = nil | (xFILED type isEmpty DATA)     DATA = nil | xBYTES
     TSMAP = ((ts xTEXT) ...)             text of time.Unix(ts,0).Local().String() per timestamp
     TREE  = null | (b 0|1) | (n int) | (s xBYTES) | (a TREE ...) | (o (xKEY TREE) ...)
   Operations:
     (marshal TSMAP TX)   -> (xRENDER TREE PARSED VIEW PROJ)   PARSED = none | (some TREE), VIEW/PROJ see below
     (json_render TREE)   -> xBYTES
     (json_parse xBYTES)  -> none | (some TREE)
     (json_escape xBYTES) -> xBYTES        the quoted string encoding/json writes
     (utf8 xBYTES)        -> (xSANITIZED valid)                                          *)
From GB Require Import Base.Prelude Base.DecText Base.Sexp Base.Utf8.
From GB Require Import Spec.JsonTree Model.Marshal Spec.MarshalSpec.
From Coq Require Import String.
Open Scope Z_scope.

Definition op_is (op : bytes) (s : string) : bool := bytes_eqb op (str s).
Definition bad (why : string) : val := L [vsym "bad"%string; vsym why].

Definition is_nil (v : val) : bool := is_sym "nil" v.

Definition as_opt {X} (f : val -> option X) (v : val) : option (option X) :=
  if is_nil v then Some None else match f v with Some x => Some (Some x) | None => None end.

Fixpoint all_of {X} (f : val -> option X) (l : list val) : option (list X) :=
  match l with
  | [] => Some []
  | x :: r => match f x, all_of f r with Some y, Some t => Some (y :: t) | _, _ => None end
  end.

Definition as_listof {X} (f : val -> option X) (v : val) : option (list X) :=
  match v with L l => all_of f l | A _ => None end.

Definition as_pos (v : val) : option position :=
  match v with
  | L [f; o] => match as_hex f, as_int o with
                | Some fb, Some oz => Some {| p_filename := fb; p_offset := oz |}
                | _, _ => None
                end
  | _ => None
  end.

Definition as_col (v : val) : option column :=
  match v with
  | L [f; t; e; d] =>
    match as_hex f, as_int t, as_bool e, as_opt as_hex d with
    | Some fb, Some tz, Some eb, Some dd => Some {| c_filed := fb; c_type := tz; c_isEmpty := eb; c_data := dd |}
    | _, _, _, _ => None
    end
  | _ => None
  end.

Definition as_row (v : val) : option rowdata :=
  match v with
  | L [c] => match as_opt (as_listof (as_opt as_col)) c with
             | Some cs => Some {| r_columns := cs |}
             | None => None
             end
  | _ => None
  end.

Definition as_rows (v : val) : option (option (list (option rowdata))) :=
  as_opt (as_listof (as_opt as_row)) v.

Definition as_event (v : val) : option streamevent :=
  match v with
  | L [ty; db; tb; sql; ts; rv; ri] =>
    match as_int ty, as_hex db, as_hex tb, as_hex sql, as_int ts, as_rows rv, as_rows ri with
    | Some tyz, Some dbb, Some tbb, Some sqlb, Some tsz, Some rvv, Some rii =>
      Some {| e_type := tyz; e_table := {| t_db := dbb; t_table := tbb |}; e_sql := sqlb;
              e_timestamp := tsz; e_rowValues := rvv; e_rowIdentifies := rii |}
    | _, _, _, _, _, _, _ => None
    end
  | _ => None
  end.

Definition as_tx (v : val) : option transaction :=
  match v with
  | L [a; b; ts; evs] =>
    match as_pos a, as_pos b, as_int ts, as_opt (as_listof (as_opt as_event)) evs with
    | Some pa, Some pb, Some tsz, Some e => Some {| x_now := pa; x_next := pb; x_timestamp := tsz; x_events := e |}
    | _, _, _, _ => None
    end
  | _ => None
  end.

Definition as_tsent (v : val) : option (Z * bytes) :=
  match v with
  | L [t; s] => match as_int t, as_hex s with Some tz, Some sb => Some (tz, sb) | _, _ => None end
  | _ => None
  end.

Fixpoint ts_lookup (m : list (Z * bytes)) (t : Z) : bytes :=
  match m with
  | [] => []
  | (k, v) :: r => if k =? t then v else ts_lookup r t
  end.

(* trees *)
Fixpoint val_of_j (j : jvalue) : val :=
  match j with
  | JNull => vsym "null"
  | JBool b => L [vsym "b"; vbool b]
  | JNum z => L [vsym "n"; vint z]
  | JStr s => L [vsym "s"; vhex s]
  | JArr l => L (vsym "a" :: map val_of_j l)
  | JObj l => L (vsym "o" :: map (fun kv => L [vhex (fst kv); val_of_j (snd kv)]) l)
  end.

Fixpoint j_of_val (v : val) : option jvalue :=
  match v with
  | A a => if bytes_eqb a (str "null") then Some JNull else None
  | L (A tag :: args) =>
    if bytes_eqb tag (str "b") then match args with [x] => omap JBool (as_bool x) | _ => None end
    else if bytes_eqb tag (str "n") then match args with [x] => omap JNum (as_int x) | _ => None end
    else if bytes_eqb tag (str "s") then match args with [x] => omap JStr (as_hex x) | _ => None end
    else if bytes_eqb tag (str "a") then
      omap JArr ((fix go (l : list val) : option (list jvalue) :=
                    match l with
                    | [] => Some []
                    | x :: r => match j_of_val x, go r with Some y, Some t => Some (y :: t) | _, _ => None end
                    end) args)
    else if bytes_eqb tag (str "o") then
      omap JObj ((fix go (l : list val) : option (list (bytes * jvalue)) :=
                    match l with
                    | [] => Some []
                    | L [k; x] :: r =>
                      match as_hex k, j_of_val x, go r with
                      | Some kb, Some y, Some t => Some ((kb, y) :: t)
                      | _, _, _ => None
                      end
                    | _ :: _ => None
                    end) args)
    else None
  | L _ => None
  end.

Definition vopt {X} (f : X -> val) (o : option X) : val :=
  match o with Some x => f x | None => vsym "nil" end.
Definition vlist {X} (f : X -> val) (l : list X) : val := L (map f l).

(* VIEW = ((xFILE off) (xFILE off) xTIME EVS)   EVS = nil | (EVV ...)
   EVV  = nil | (xDB xTABLE xKIND xTIME (sql xSQL)) | (... (rows RV RI))
   RV   = nil | (ROWV ...)   ROWV = nil | (COLSV)   COLSV = nil | (COLV ...)   COLV = nil | (xNAME xTYPE absent DATA) *)
Definition val_of_colv (c : col_view) : val :=
  L [vhex (cv_name c); vhex (cv_type c); vbool (cv_absent c); vopt_hex (cv_data c)].
Definition val_of_rowv (r : row_view) : val := L [vopt (vlist (vopt val_of_colv)) r].
Definition val_of_rowsv (o : option (list (option row_view))) : val := vopt (vlist (vopt val_of_rowv)) o.
Definition val_of_evv (e : ev_view) : val :=
  L [vhex (ev_db e); vhex (ev_table e); vhex (ev_kind e); vhex (ev_time e);
     match ev_body e with
     | BSql q => L [vsym "sql"; vhex q]
     | BRows v i => L [vsym "rows"; val_of_rowsv v; val_of_rowsv i]
     end].
Definition val_of_posv (p : bytes * Z) : val := L [vhex (fst p); vint (snd p)].
Definition val_of_txv (t : tx_view) : val :=
  L [val_of_posv (tv_now t); val_of_posv (tv_next t); vhex (tv_time t); vopt (vlist (vopt val_of_evv)) (tv_events t)].

Definition vsome {X} (f : X -> val) (o : option X) : val :=
  match o with Some x => L [vsym "some"; f x] | None => vsym "none" end.

Definition dispatch_marshal (op : bytes) (args : list val) : option val :=
  if op_is op "marshal" then
    Some match args with
         | [m; t] =>
           match as_listof as_tsent m, as_tx t with
           | Some tm, Some tx =>
             let tsfmt := ts_lookup tm in
             let tree := marshal_tx tsfmt tx in
             let text := render_json tree in
             let parsed := parse_json text in
             L [vhex text; val_of_j tree; vsome val_of_j parsed;
                val_of_txv (abstract_view tsfmt (san_tx tx));
                vsome val_of_txv (match parsed with Some p => project_tx p | None => None end)]
           | _, _ => bad "arg"
           end
         | _ => bad "arity"
         end
  else if op_is op "json_render" then
    Some match args with
         | [t] => match j_of_val t with Some j => vhex (render_json j) | None => bad "arg" end
         | _ => bad "arity"
         end
  else if op_is op "json_parse" then
    Some match args with
         | [b] => match as_hex b with Some s => vsome val_of_j (parse_json s) | None => bad "arg" end
         | _ => bad "arity"
         end
  else if op_is op "json_escape" then
    Some match args with
         | [b] => match as_hex b with Some s => vhex (quote s) | None => bad "arg" end
         | _ => bad "arity"
         end
  else if op_is op "utf8" then
    Some match args with
         | [b] => match as_hex b with Some s => L [vhex (sanitize s); vbool (valid_utf8 s)] | None => bad "arg" end
         | _ => bad "arity"
         end
  else None.
