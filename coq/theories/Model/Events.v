(* Model of replication/binlog_event_common.go (Format, Rotate, Query, IntVar,
   Rand, TableID), binlog_event.go (BinlogFormat) and the two StripChecksum
   implementations. *)
From GB Require Import Base.Prelude Model.Header.
From GBGen Require Import Consts.
Open Scope Z_scope.

Record format := { f_version : Z; f_server : bytes; f_hlen : Z; f_alg : Z; f_sizes : bytes }.
Definition format_zero : format := {| f_version := 0; f_server := []; f_hlen := 0; f_alg := 0; f_sizes := [] |}.
Definition format_is_zero (f : format) : bool := (f_version f =? 0) && (f_hlen f =? 0).

(* f.HeaderSizes[typ-1]; typ is a byte, so typ-1 wraps for typ = 0 *)
Definition header_size (f : format) (typ : Z) : res Z := at_ (f_sizes f) (Z.to_nat (u8 (typ - 1))).

Fixpoint trim_right0_rev (l : bytes) : bytes :=       (* drop leading zeros of a reversed list *)
  match l with 0 :: r => trim_right0_rev r | _ => l end.
Definition trim_right0 (l : bytes) : bytes := rev_append (trim_right0_rev (rev_append l [])) [].

Definition body (f : format) (ev : bytes) : res bytes := slice_from ev (Z.to_nat (f_hlen f)).

Definition ev_format (ev : bytes) : res format :=
  do data <- slice_from ev 19;
  do ver <- le_at data 0 2;
  if negb (ver =? 4) then Err EFormatVersion
  else
    do sv <- slice data 2 50;
    do hl <- at_ data 56;
    if hl <? 19 then Err EHeaderLength
    else
      let n := length data in
      if (n <? 5)%nat then Panic
      else
        do alg <- at_ data (n - 5);
        if (n - 5 <? 57)%nat then Panic
        else
          do sizes <- slice data 57 (n - 5 - 57);
          Ok {| f_version := ver; f_server := trim_right0 sv; f_hlen := hl; f_alg := alg; f_sizes := sizes |}.

Definition ev_rotate (f : format) (ev : bytes) : res (bytes * Z) :=
  do data <- body f ev;
  if (length data <? 8)%nat then Err ERotateShort
  else
    do off <- le_at data 0 8;
    do name <- slice_from data 8;
    Ok (name, i64 off).

Record query := { q_db : bytes; q_sql : bytes; q_charset : option (Z * Z * Z) }.

(* the status-variable scan; fuel = number of bytes *)
Fixpoint scan_vars (fuel : nat) (vars : bytes) (pos : nat) (cs : option (Z * Z * Z)) : res (option (Z * Z * Z)) :=
  match fuel with
  | O => Ok cs
  | S k =>
    if (length vars <=? pos)%nat then Ok cs
    else
      do code <- at_ vars pos;
      let pos := S pos in
      if (code =? K_QFlags2Code) || (code =? K_QAutoIncrement) then scan_vars k vars (pos + 4) cs
      else if code =? K_QSQLModeCode then scan_vars k vars (pos + 8) cs
      else if code =? K_QCatalog then
        if (length vars <? pos + 1)%nat then Err EQueryVar
        else do l <- at_ vars pos; scan_vars k vars (pos + 1 + Z.to_nat l + 1) cs
      else if code =? K_QCatalogNZCode then
        if (length vars <? pos + 1)%nat then Err EQueryVar
        else do l <- at_ vars pos; scan_vars k vars (pos + 1 + Z.to_nat l) cs
      else if code =? K_QCharsetCode then
        if (length vars <? pos + 6)%nat then Err EQueryVar
        else
          do a <- le_at vars pos 2; do b <- le_at vars (pos + 2) 2; do c <- le_at vars (pos + 4) 2;
          scan_vars k vars (pos + 6) (Some (a, b, c))
      else Ok cs
  end.

Definition ev_query (f : format) (ev : bytes) : res query :=
  do data <- body f ev;
  do dbLen <- at_ data 8;
  do varsLen <- le_at data 11 2;
  let dbPos := (13 + Z.to_nat varsLen)%nat in
  let sqlPos := (dbPos + Z.to_nat dbLen + 1)%nat in
  if (length data <? sqlPos)%nat then Err EQueryOverflow
  else
    do db <- slice data dbPos (Z.to_nat dbLen);
    do sql <- slice_from data sqlPos;
    do vars <- slice data 13 (Z.to_nat varsLen);
    match scan_vars (S (length vars)) vars 0 None with
    | Ok cs => Ok {| q_db := db; q_sql := sql; q_charset := cs |}
    | Err c => Err c
    | Panic => Panic
    end.

Definition ev_intvar (f : format) (ev : bytes) : res (Z * Z) :=
  do data <- body f ev;
  do t <- at_ data 0;
  if negb (t =? K_IntVarLastInsertID) && negb (t =? K_IntVarInsertID) then Err EIntVarId
  else do v <- le_at data 1 8; Ok (t, v).

Definition ev_rand (f : format) (ev : bytes) : res (Z * Z) :=
  do data <- body f ev;
  do a <- le_at data 0 8; do b <- le_at data 8 8; Ok (a, b).

(* TableID: `pos := f.HeaderLength` is a byte in the Go code, and so are pos+1 .. pos+5 and the slice bound
   pos+4: they wrap modulo 256 (header lengths above 250 never occur in practice, MySQL's is 19) *)
Definition ev_table_id (f : format) (ev : bytes) : res Z :=
  do typ <- ev_type ev;
  do hs <- header_size f typ;
  let pos := f_hlen f in
  let at_k (k : Z) := at_ ev (Z.to_nat (u8 (pos + k))) in
  if hs =? 6 then
    if 256 <=? pos + 4 then Panic else le_at ev (Z.to_nat pos) 4
  else
    do b0 <- at_k 0; do b1 <- at_k 1; do b2 <- at_k 2; do b3 <- at_k 3; do b4 <- at_k 4; do b5 <- at_k 5;
    Ok (b0 + 256 * (b1 + 256 * (b2 + 256 * (b3 + 256 * (b4 + 256 * (b5 + 256 * 0)))))).

(* the same without the wrap: what it computes for header lengths up to 250 (Proofs/TableIdProofs.v) *)
Definition ev_table_id_lin (f : format) (ev : bytes) : res Z :=
  do typ <- ev_type ev;
  do hs <- header_size f typ;
  let pos := Z.to_nat (f_hlen f) in
  if hs =? 6 then le_at ev pos 4 else le_at ev pos 6.

(* StripChecksum: returns the event without its checksum *)
Definition strip_checksum56 (f : format) (ev : bytes) : res bytes :=
  let a := f_alg f in
  if (a =? K_BinlogChecksumAlgOff) || (a =? K_BinlogChecksumAlgUndef) then Ok ev
  else if a =? K_BinlogChecksumAlgCRC32 then
    if (length ev <? 4)%nat then Panic else Ok (firstn (length ev - 4) ev)
  else Err EChecksumAlg.

Definition strip_checksum_maria (f : format) (ev : bytes) : res bytes :=
  let a := f_alg f in
  if (a =? K_BinlogChecksumAlgOff) || (a =? K_BinlogChecksumAlgUndef) then Ok ev
  else if (length ev <? 4)%nat then Panic else Ok (firstn (length ev - 4) ev).
