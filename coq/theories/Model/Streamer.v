(* Model of streamer.go: parseEvents (event loop, begin/commit closures, table
   cache) and the row-image -> RowData conversion; mysql_types.go
   GetStatementCategory.  Sequential and deterministic given its inputs:
   the events handed over by the reader, the table mapper and the handler's
   verdicts (accepted / failed, by call index). *)
From GB Require Import Base.Prelude Model.Header Model.Events Model.Cell Model.Rbr.
From GBGen Require Import Consts.
Open Scope Z_scope.

Record position := { p_file : bytes; p_off : Z }.

Record column := { c_field : bytes; c_type : Z; c_empty : bool; c_data : option bytes }.
Definition rowdata := list column.

Record sevent := {
  se_type : Z; se_table : bytes * bytes; se_query : query; se_ts : Z;
  se_values : list rowdata; se_ids : list rowdata
}.

Record tx := { t_now : position; t_next : position; t_ts : Z; t_events : option (list sevent) }.

(* what the table mapper returns: its own name for the table and (field, unsigned) per column *)
Record tinfo := { ti_name : bytes * bytes; ti_cols : list (bytes * bool) }.
Definition mapper := bytes -> bytes -> option tinfo.

Inductive cause :=
| CInvalid | CFormat | CNoFormat | CChecksum | CHandler | CRotate | CQuery
| CTableMap | CMapper | CMismatch | CUnknownTable | CRows | CCell | CRand | CIntVar | CRowsQuery.

Inductive outcome := OEnd | OErr (c : cause) | OPanic.

(* ---- GetStatementCategory ---- *)
Definition lower (c : Z) : Z := if (65 <=? c) && (c <=? 90) then c + 32 else c.
Fixpoint first_word (s : bytes) : bytes :=
  match s with [] => [] | c :: r => if c =? 32 then [] else c :: first_word r end.
Fixpoint lookup_prefix (w : bytes) (tbl : list (bytes * Z)) : Z :=
  match tbl with
  | [] => K_StatementUnknown
  | (k, v) :: r => if bytes_eqb k w then v else lookup_prefix w r
  end.
Definition category (sql : bytes) : Z := lookup_prefix (map lower (first_word sql)) statementPrefixes.

Definition zero_query : query := {| q_db := []; q_sql := []; q_charset := None |}.

Section Oracles.
Variable ffmt : Z -> Z -> bytes.
Variable tz : Z -> Z.
Variable jsonp : bytes -> res bytes.

(* get{Values,Identifies}FromRow: one image -> RowData *)
Fixpoint image_columns (n : nat) (tm : table_map) (cols : list (bytes * bool)) (present nulls : bitmap)
         (d : bytes) (c vi pos : nat) (acc : list column) : res (option rowdata) :=
  match n with
  | O => Ok (Some (rev_append acc []))
  | S k =>
    match nth_error cols c with
    | None => Panic
    | Some (fld, uns) =>
      do ty <- at_ (tm_types tm) c;
      do p <- bit present c;
      if negb p then
        image_columns k tm cols present nulls d (S c) vi pos ({| c_field := fld; c_type := ty; c_empty := true; c_data := None |} :: acc)
      else
        do isnull <- bit nulls vi;
        if isnull then
          image_columns k tm cols present nulls d (S c) (S vi) pos ({| c_field := fld; c_type := ty; c_empty := false; c_data := None |} :: acc)
        else
          match nth_error (tm_meta tm) c with
          | None => Panic
          | Some me =>
            match cell_bytes ffmt tz jsonp d pos ty me uns with
            | Ok (v, l) =>
              if l <? 0 then Panic
              else image_columns k tm cols present nulls d (S c) (S vi) (pos + Z.to_nat (Z.min l (len d + 1)))
                                 ({| c_field := fld; c_type := ty; c_empty := false; c_data := v |} :: acc)
            | Err _ => Ok None            (* CellBytes error: the conversion fails *)
            | Panic => Panic
            end
          end
    end
  end.

(* one image; None = error return *)
Definition image_of (tm : table_map) (ti : tinfo) (present nulls : bitmap) (d : option bytes) : res (option rowdata) :=
  if negb (Nat.eqb (bm_count present) (length (ti_cols ti))) then Ok None
  else image_columns (bm_count present) tm (ti_cols ti) present nulls
                     (match d with Some b => b | None => [] end) 0 0 0 [].

Fixpoint rows_images (tm : table_map) (ti : tinfo) (rs : rows) (want_ids want_vals : bool) (l : list row)
         (ids vals : list rowdata) : res (option (list rowdata * list rowdata)) :=
  match l with
  | [] => Ok (Some (rev_append ids [], rev_append vals []))
  | r :: rest =>
    do oi <- (if want_ids then image_of tm ti (rs_ident_cols rs) (r_null_ident r) (r_ident r) else Ok (Some []));
    match oi with
    | None => Ok None
    | Some i =>
      do ov <- (if want_vals then image_of tm ti (rs_data_cols rs) (r_null_data r) (r_data r) else Ok (Some []));
      match ov with
      | None => Ok None
      | Some v =>
        rows_images tm ti rs want_ids want_vals rest (if want_ids then i :: ids else ids) (if want_vals then v :: vals else vals)
      end
    end
  end.

Record sst := {
  s_pos : position; s_fmt : format; s_tables : list (Z * (table_map * tinfo));
  s_tran : option (list sevent);      (* tranEvents; newest first *)
  s_auto : bool;
  s_calls : nat;                       (* handler calls made so far *)
  s_out : list (tx * bool)             (* transactions handed to the handler, newest first, with the verdict *)
}.

Definition init_state (p : position) : sst :=
  {| s_pos := p; s_fmt := format_zero; s_tables := []; s_tran := None; s_auto := true; s_calls := 0; s_out := [] |}.

Fixpoint lookup_table (id : Z) (l : list (Z * (table_map * tinfo))) : option (table_map * tinfo) :=
  match l with [] => None | (k, v) :: r => if k =? id then Some v else lookup_table id r end.
Fixpoint update_table (id : Z) (v : table_map * tinfo) (l : list (Z * (table_map * tinfo))) :=
  match l with
  | [] => [(id, v)]
  | (k, w) :: r => if k =? id then (k, v) :: r else (k, w) :: update_table id v r
  end.

Definition tran_list (t : option (list sevent)) : option (list sevent) :=
  match t with None => None | Some l => Some (rev_append l []) end.

Definition append_tran (t : option (list sevent)) (e : sevent) : option (list sevent) :=
  match t with None => Some [e] | Some l => Some (e :: l) end.

Variable verdict : nat -> bool.

Definition with_tran (st : sst) (t : option (list sevent)) : sst :=
  {| s_pos := s_pos st; s_fmt := s_fmt st; s_tables := s_tables st; s_tran := t; s_auto := s_auto st;
     s_calls := s_calls st; s_out := s_out st |}.

Variable mp : mapper.

Definition in_stmt_case (i : nat) (c : Z) : bool := existsb (Z.eqb c) (nth i parseEvents_stmt_cases []).

Definition rows_kind (typ : Z) : option Z :=
  if (typ =? K_eWriteRowsEventV1) || (typ =? K_eWriteRowsEventV2) then Some K_StatementInsert
  else if (typ =? K_eUpdateRowsEventV1) || (typ =? K_eUpdateRowsEventV2) then Some K_StatementUpdate
  else if (typ =? K_eDeleteRowsEventV1) || (typ =? K_eDeleteRowsEventV2) then Some K_StatementDelete
  else None.

(* What one received event means for the loop: the decoding half of the loop body.  It reads the
   format and the table cache, never the transaction state. *)
Inductive aevent :=
| AStop (c : cause)                    (* return with an error *)
| APanic
| AFormat (f : format)                 (* FORMAT_DESCRIPTION_EVENT *)
| ANop                                 (* nothing happens: pre-format rotate, GTID, unknown types and statements *)
| ABegin
| AStmt (e : sevent) (nx ts : Z)       (* statement or row change: buffered; commits at once when autocommit *)
| ACommit (nx ts : Z)                  (* XID or COMMIT *)
| ARollback (nx ts : Z)
| ARotate (name : bytes) (off : Z)
| ATable (id : Z) (tm : table_map) (ti : tinfo).   (* table cache entry (re)placed *)

Definition lift {A} (r : res A) (k : A -> aevent) : aevent :=
  match r with Ok a => k a | Err _ => APanic | Panic => APanic end.

Definition decode (f : format) (tables : list (Z * (table_map * tinfo))) (ev0 : bytes) : aevent :=
  lift (is_valid ev0) (fun valid =>
  if negb valid then AStop CInvalid
  else
  lift (ev_type ev0) (fun typ0 =>
  if typ0 =? K_eFormatDescriptionEvent then
    match ev_format ev0 with
    | Ok f' => AFormat f'
    | Err _ => AStop CFormat
    | Panic => APanic
    end
  else if format_is_zero f then
    if typ0 =? K_eRotateEvent then ANop else AStop CNoFormat
  else
  match strip_checksum56 f ev0 with
  | Err _ => AStop CChecksum
  | Panic => APanic
  | Ok ev =>
    lift (ev_type ev) (fun typ =>
    if typ =? K_eXIDEvent then
      lift (ev_next_position ev) (fun nx => lift (ev_timestamp ev) (fun ts => ACommit nx ts))
    else if typ =? K_eRotateEvent then
      match ev_rotate f ev with
      | Ok (name, off) => ARotate name off
      | Err _ => AStop CRotate
      | Panic => APanic
      end
    else if typ =? K_eQueryEvent then
      match ev_query f ev with
      | Err _ => AStop CQuery
      | Panic => APanic
      | Ok q =>
        let cat := category (q_sql q) in
        lift (ev_timestamp ev) (fun ts =>
        let sev := {| se_type := cat; se_table := ([], []); se_query := q; se_ts := ts; se_values := []; se_ids := [] |} in
        if in_stmt_case 0 cat then ABegin
        else if in_stmt_case 1 cat || in_stmt_case 2 cat then
          lift (ev_next_position ev) (fun nx => AStmt sev nx ts)
        else if in_stmt_case 3 cat then lift (ev_next_position ev) (fun nx => ARollback nx ts)
        else if in_stmt_case 4 cat then lift (ev_next_position ev) (fun nx => ACommit nx ts)
        else ANop)
      end
    else if typ =? K_eTableMapEvent then
      lift (ev_table_id f ev) (fun id =>
      match ev_table_map f ev with
      | Err _ => AStop CTableMap
      | Panic => APanic
      | Ok tm =>
        let keep :=
          match lookup_table id tables with
          | Some (old, ti) =>
            (* a re-announcement for the same table keeps the mapper entry *)
            if bytes_eqb (tm_db old) (tm_db tm) && bytes_eqb (tm_name old) (tm_name tm) then Some ti else None
          | None => None
          end in
        match keep with
        | Some ti => ATable id tm ti
        | None =>
          match mp (tm_db tm) (tm_name tm) with
          | None => AStop CMapper
          | Some ti =>
            if negb (Nat.eqb (length (ti_cols ti)) (bm_count (tm_can_be_null tm))) then AStop CMismatch
            else ATable id tm ti
          end
        end
      end)
    else
    match rows_kind typ with
    | Some kind =>
      lift (ev_table_id f ev) (fun id =>
      match lookup_table id tables with
      | None => AStop CUnknownTable
      | Some (tm, ti) =>
        match ev_rows f tm ev with
        | Err _ => AStop CRows
        | Panic => APanic
        | Ok rs =>
          lift (ev_timestamp ev) (fun ts =>
          let want_ids := negb (kind =? K_StatementInsert) in
          let want_vals := negb (kind =? K_StatementDelete) in
          lift (rows_images tm ti rs want_ids want_vals (rs_rows rs) [] []) (fun oi =>
          match oi with
          | None => AStop CCell
          | Some (ids, vals) =>
            let sev := {| se_type := kind; se_table := ti_name ti; se_query := zero_query; se_ts := ts;
                          se_values := vals; se_ids := ids |} in
            lift (ev_next_position ev) (fun nx => AStmt sev nx ts)
          end))
        end
      end)
    | None =>
      if typ =? K_ePreviousGTIDsEvent then ANop
      else if typ =? K_eGTIDEvent then ANop
      else if typ =? K_eRandEvent then AStop CRand
      else if typ =? K_eIntVarEvent then AStop CIntVar
      else if typ =? K_eRowsQueryEvent then AStop CRowsQuery
      else ANop
    end)
  end)).

(* the commit closure: the position advances only once the handler has accepted the
   transaction; a failed call is still recorded in s_out *)
Definition commit_at (st : sst) (nx ts : Z) : sst * option cause :=
  let now := s_pos st in
  let next := {| p_file := p_file now; p_off := nx |} in
  let t := {| t_now := now; t_next := next; t_ts := ts; t_events := tran_list (s_tran st) |} in
  let ok := verdict (s_calls st) in
  if ok then
    ({| s_pos := next; s_fmt := s_fmt st; s_tables := s_tables st; s_tran := None; s_auto := true;
        s_calls := S (s_calls st); s_out := (t, true) :: s_out st |}, None)
  else
    ({| s_pos := s_pos st; s_fmt := s_fmt st; s_tables := s_tables st; s_tran := s_tran st; s_auto := s_auto st;
        s_calls := S (s_calls st); s_out := (t, false) :: s_out st |}, Some CHandler).

(* the state-machine half of the loop body *)
Definition astep (st : sst) (a : aevent) : sst * option cause :=
  match a with
  | AStop c => (st, Some c)
  | APanic => (st, None)                (* never reached: step maps APanic to Panic *)
  | AFormat f =>
    ({| s_pos := s_pos st; s_fmt := f; s_tables := s_tables st; s_tran := s_tran st; s_auto := s_auto st;
        s_calls := s_calls st; s_out := s_out st |}, None)
  | ANop => (st, None)
  | ABegin =>
    ({| s_pos := s_pos st; s_fmt := s_fmt st; s_tables := s_tables st; s_tran := Some []; s_auto := false;
        s_calls := s_calls st; s_out := s_out st |}, None)
  | AStmt e nx ts =>
    let st1 := with_tran st (append_tran (s_tran st) e) in
    if s_auto st then commit_at st1 nx ts else (st1, None)
  | ACommit nx ts => commit_at st nx ts
  | ARollback nx ts => commit_at (with_tran st None) nx ts
  | ARotate name off =>
    ({| s_pos := {| p_file := name; p_off := off |}; s_fmt := s_fmt st; s_tables := s_tables st; s_tran := s_tran st;
        s_auto := s_auto st; s_calls := s_calls st; s_out := s_out st |}, None)
  | ATable id tm ti =>
    ({| s_pos := s_pos st; s_fmt := s_fmt st; s_tables := update_table id (tm, ti) (s_tables st); s_tran := s_tran st;
        s_auto := s_auto st; s_calls := s_calls st; s_out := s_out st |}, None)
  end.

(* one iteration of the loop body; (state, None) = continue, (state, Some c) = return with an error *)
Definition step (st : sst) (ev0 : bytes) : res (sst * option cause) :=
  match decode (s_fmt st) (s_tables st) ev0 with
  | APanic => Panic
  | a => Ok (astep st a)
  end.

Fixpoint run_from (st : sst) (evs : list bytes) : sst * outcome :=
  match evs with
  | [] => (st, OEnd)
  | ev :: r =>
    match step st ev with
    | Ok (st', None) => run_from st' r
    | Ok (st', Some c) => (st', OErr c)
    | Err _ => (st, OPanic)
    | Panic => (st, OPanic)
    end
  end.

(* parseEvents from position p on the events handed over: returned position, handler calls, outcome *)
Definition parse_events (p : position) (evs : list bytes) : position * list (tx * bool) * outcome :=
  let '(st, o) := run_from (init_state p) evs in
  (s_pos st, rev_append (s_out st) [], o).

End Oracles.
