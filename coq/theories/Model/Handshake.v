(* Model of the requests one Stream() call sends to the master
   (streamer.go Stream -> newSlaveConnection -> prepareForReplication;
    startDumpFromBinlogPosition -> NoticeDump), and of the position write-back. *)
From GB Require Import Base.Prelude Model.Streamer.
From GBGen Require Import Consts.
Open Scope Z_scope.

Inductive request :=
| RQuery (sql : bytes)
| RDump (off flags sid : Z) (file : bytes).

(* Exec(checksum SQL) happens in newSlaveConnection, before NoticeDump(serverID, uint32(pos.Offset), pos.Filename, 0) *)
Definition stream_requests (sid : Z) (p : position) : list request :=
  [RQuery checksumSQL; RDump (u32 (p_off p)) dumpFlags (u32 sid) (p_file p)].

(* a sequence of Stream() calls on one streamer: attempt j starts at the position stored by attempt j-1 *)
Fixpoint attempts_requests (sid : Z) (p : position) (stored : list position) : list request :=
  match stored with
  | [] => stream_requests sid p
  | q :: r => stream_requests sid p ++ attempts_requests sid q r
  end.
