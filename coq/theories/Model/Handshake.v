(* Model of the requests one Stream() call sends to the master
   (streamer.go Stream -> newSlaveConnection -> prepareForReplication;
    startDumpFromBinlogPosition -> NoticeDump), and of the position write-back. *)
From GB Require Import Base.Prelude Model.Streamer.
From GBGen Require Import Consts.
Open Scope Z_scope.

Inductive request :=
| RQuery (sql : bytes)
| RDump (off flags sid : Z) (file : bytes).

(* Exec(checksum SQL) happens in newSlaveConnection, before NoticeDump(serverID, uint32(pos.Offset), pos.Filename, 0) *)
Definition stream_requests (sid : Z) (p : position) : list request :=
  [RQuery checksumSQL; RDump (u32 (p_off p)) dumpFlags (u32 sid) (p_file p)].

(* a sequence of Stream() calls on one streamer: attempt j starts at the position stored by attempt j-1 *)
Fixpoint attempts_requests (sid : Z) (p : position) (stored : list position) : list request :=
  match stored with
  | [] => stream_requests sid p
  | q :: r => stream_requests sid p ++ attempts_requests sid q r
  end.

(* ---- the master's answer to the checksum announcement ----
   prepareForReplication returns an error for every failure of Exec (an ERR packet of the master as well as a lost
   connection); newSlaveConnection then closes the connection and Stream returns that error without ever calling
   startDumpFromBinlogPosition: no dump is requested on a connection on which the announcement did not take effect,
   and the stored position is left alone. *)
Inductive set_reply := SetOk | SetRejected | SetLost.

Record handshake_result := {
  hs_requests : list request;        (* what the master receives, in order *)
  hs_failed : bool;                  (* Stream returns an error before any event is read *)
  hs_position_kept : bool            (* the attempt leaves the stored position untouched *)
}.

Definition stream_handshake (sid : Z) (p : position) (r : set_reply) : handshake_result :=
  match r with
  | SetOk => {| hs_requests := stream_requests sid p; hs_failed := false; hs_position_kept := false |}
  | SetRejected | SetLost => {| hs_requests := [RQuery checksumSQL]; hs_failed := true; hs_position_kept := true |}
  end.

Definition is_dump (q : request) : bool := match q with RDump _ _ _ _ => true | RQuery _ => false end.

(* ---- the packet reader (slave_connection.go readBinlogEvent and the loop of the reader goroutine) ----
   A packet whose first byte is the EOF or ERR marker ends the stream; every other packet becomes one event: the
   packet without its first byte, copied.  The reader loop hands each event to the parser in the order read and
   stops at the first packet that is not an event; it neither drops nor alters nor reorders anything. *)
Inductive packet_class := PktEvent (ev : bytes) | PktEOF | PktERR | PktEmpty.

Definition read_binlog_event (pkt : bytes) : packet_class :=
  match pkt with
  | [] => PktEmpty                       (* buf[0] panics: the driver never returns an empty packet *)
  | b :: rest => if b =? 254 then PktEOF else if b =? 255 then PktERR else PktEvent rest
  end.

(* the events the parser is offered, in order, for a sequence of packets *)
Fixpoint reader_events (pkts : list bytes) : list bytes :=
  match pkts with
  | [] => []
  | p :: r => match read_binlog_event p with PktEvent ev => ev :: reader_events r | _ => [] end
  end.
