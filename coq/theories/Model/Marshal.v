(* Model of the JSON marshalers of transaction.go (Transaction, StreamEvent,
   ColumnData MarshalJSON; RowData, Position, MysqlTableName by reflection)
   as trees with ordered objects.  Go slices are `option (list _)` (None = nil),
   Go pointers are `option _` (None = nil pointer).  Definitions only. *)
From GB Require Import Base.Prelude Spec.JsonTree.
From GBGen Require Import Consts.
From Coq Require Import String.
Open Scope Z_scope.

(* position.go: Position{Filename string `json:"filename"`; Offset int64 `json:"offset"`} *)
Record position := { p_filename : bytes; p_offset : Z }.

(* mysql_table.go: MysqlTableName{DbName `json:"db"`; TableName `json:"table"`} *)
Record tablename := { t_db : bytes; t_table : bytes }.

(* transaction.go: ColumnData{Filed string; Type ColumnType; IsEmpty bool; Data []byte} *)
Record column := { c_filed : bytes; c_type : Z; c_isEmpty : bool; c_data : option bytes }.

(* RowData{Columns []*ColumnData} *)
Record rowdata := { r_columns : option (list (option column)) }.

(* StreamEvent{Type; Table; Query (only Query.SQL is serialised); Timestamp; RowValues, RowIdentifies []*RowData} *)
Record streamevent := {
  e_type : Z;
  e_table : tablename;
  e_sql : bytes;
  e_timestamp : Z;
  e_rowValues : option (list (option rowdata));
  e_rowIdentifies : option (list (option rowdata))
}.

(* Transaction{NowPosition, NextPosition Position; Timestamp int64; Events []*StreamEvent} *)
Record transaction := {
  x_now : position;
  x_next : position;
  x_timestamp : Z;
  x_events : option (list (option streamevent))
}.

(* map lookup with the "unknown" default of StatementType.String / ColumnType.String *)
Fixpoint lookup_name (tbl : list (Z * bytes)) (k : Z) : bytes :=
  match tbl with
  | [] => str "unknown"
  | (k', v) :: r => if k =? k' then v else lookup_name r k
  end.

Definition statement_string (ty : Z) : bytes := lookup_name statementStrings ty.
Definition column_type_string (ty : Z) : bytes := lookup_name columnTypeStrings ty.

(* encoding/json on a slice: nil -> null, otherwise an array; on a pointer: nil -> null *)
Definition jslice {X} (f : X -> jvalue) (o : option (list X)) : jvalue :=
  match o with None => JNull | Some l => JArr (map f l) end.
Definition jptr {X} (f : X -> jvalue) (o : option X) : jvalue :=
  match o with None => JNull | Some x => f x end.

Definition marshal_position (p : position) : jvalue :=
  JObj [(str "filename", JStr (p_filename p)); (str "offset", JNum (p_offset p))].

Definition marshal_tablename (t : tablename) : jvalue :=
  JObj [(str "db", JStr (t_db t)); (str "table", JStr (t_table t))].

(* (c *ColumnData) MarshalJSON: the embedded baseColumnJSON is flattened, then `data`:
   var i interface{} = string(c.Data); if c.Data == nil { i = nil } *)
Definition marshal_column (c : column) : jvalue :=
  JObj [(str "filed", JStr (c_filed c));
        (str "type", JStr (column_type_string (c_type c)));
        (str "isEmpty", JBool (c_isEmpty c));
        (str "data", match c_data c with None => JNull | Some d => JStr d end)].

(* RowData has no marshaler and no tags *)
Definition marshal_rowdata (r : rowdata) : jvalue :=
  JObj [(str "Columns", jslice (jptr marshal_column) (r_columns r))].

Definition marshal_rows (o : option (list (option rowdata))) : jvalue :=
  jslice (jptr marshal_rowdata) o.

Section WithTime.
(* time.Unix(t, 0).Local().String() *)
Variable tsfmt : Z -> bytes.

(* (s *StreamEvent) MarshalJSON: embedded baseStreamEventJSON flattened (name, type, timestamp),
   then `sql` iff Query.SQL != "", otherwise rowValues and rowIdentifies *)
Definition marshal_event (e : streamevent) : jvalue :=
  let base := [(str "name", marshal_tablename (e_table e));
               (str "type", JStr (statement_string (e_type e)));
               (str "timestamp", JStr (tsfmt (e_timestamp e)))] in
  match e_sql e with
  | _ :: _ => JObj (base ++ [(str "sql", JStr (e_sql e))])
  | [] => JObj (base ++ [(str "rowValues", marshal_rows (e_rowValues e));
                         (str "rowIdentifies", marshal_rows (e_rowIdentifies e))])
  end.

(* (t *Transaction) MarshalJSON *)
Definition marshal_tx (t : transaction) : jvalue :=
  JObj [(str "nowPosition", marshal_position (x_now t));
        (str "nextPosition", marshal_position (x_next t));
        (str "timestamp", JStr (tsfmt (x_timestamp t)));
        (str "events", jslice (jptr marshal_event) (x_events t))].

End WithTime.
