(* Dispatcher entries for row-image cells (glue; no theorem depends on it). *)
From GB Require Import Base.Prelude Base.DecText Base.Sexp Model.Cell Model.Alias Spec.Values Spec.EncJson.
From Coq Require Import String.
Open Scope string_scope.
Open Scope list_scope.
Open Scope Z_scope.

Definition op_is (op : bytes) (s : string) : bool := bytes_eqb op (str s).

(* oracle markers: the harness substitutes Go's own formatting *)
Definition ffmt_marker (bits v : Z) : bytes :=
  (if bits =? 32 then str "F32:" else str "F64:") ++ digs v.

Definition parse_ty (v : val) : option coltype :=
  match v with
  | L (A n :: args) =>
    match map_opt as_int args with
    | None => None
    | Some zs =>
      let is s := bytes_eqb n (str s) in
      let b z := negb (z =? 0) in
      match zs with
      | [] =>
        if is "tiny" then Some TTiny else if is "short" then Some TShort else if is "int24" then Some TInt24
        else if is "long" then Some TLong else if is "longlong" then Some TLongLong
        else if is "float" then Some TFloat else if is "double" then Some TDouble else if is "year" then Some TYear
        else if is "time" then Some TTime else if is "datetime" then Some TDateTime
        else if is "timestamp" then Some TTimestamp else None
      | [a] =>
        if is "bit" then Some (TBit a) else if is "date" then Some (TDate (b a))
        else if is "ts2" then Some (TTimestamp2 a) else if is "dt2" then Some (TDateTime2 a)
        else if is "time2" then Some (TTime2 a) else if is "char" then Some (TChar a)
        else if is "geo" then Some (TGeometry a) else if is "json" then Some (TJson a) else None
      | [a; c] =>
        if is "enum" then Some (TEnum a (b c)) else if is "set" then Some (TSet a (b c))
        else if is "dec" then Some (TNewDecimal a c) else if is "varchar" then Some (TVarchar a (b c))
        else if is "blob" then Some (TBlob a c) else None
      | _ => None
      end
    end
  | _ => None
  end.

(* ---- JSON documents (Spec/EncJson.v), shared with Model/DispatchJson.v ----
   <doc> ::= null | true | false
           | (obj L (x<key> <doc>) ...) | (arr L <doc> ...)          L = 0 | 1 (large format)
           | (i16 z) (u16 z) (i32 z) (u32 z) (i64 z) (u64 z) (dbl bits) (str x<hex>)
           | (date y m d) | (time neg h mi s us) | (datetime y m d h mi s us)
           | (dec p s neg (ip ...) (fp ...)) *)
(* oracle marker: the harness substitutes strconv.AppendFloat(nil, f, 'E', -1, 64) *)
(* the backslash cannot occur in the rendering of a wf document, so the marker is unambiguous *)
Definition efmt_marker (bits : Z) : bytes := str "\E64:" ++ digs bits ++ str ";".

Fixpoint parse_doc (v : val) : option jdoc :=
  match v with
  | A a =>
    if bytes_eqb a (str "null") then Some JNull
    else if bytes_eqb a (str "true") then Some JTrue
    else if bytes_eqb a (str "false") then Some JFalse
    else None
  | L (A n :: args) =>
    let is s := bytes_eqb n (str s) in
    if is "obj" then
      match args with
      | lg :: members =>
        match as_bool lg,
              (fix go (l : list val) : option (list (bytes * jdoc)) :=
                 match l with
                 | [] => Some []
                 | L [k; x] :: r =>
                   match as_hex k, parse_doc x, go r with
                   | Some k', Some x', Some r' => Some ((k', x') :: r')
                   | _, _, _ => None
                   end
                 | _ => None
                 end) members with
        | Some lg', Some kvs => Some (JObj lg' kvs)
        | _, _ => None
        end
      | _ => None
      end
    else if is "arr" then
      match args with
      | lg :: elems =>
        match as_bool lg,
              (fix go (l : list val) : option (list jdoc) :=
                 match l with
                 | [] => Some []
                 | x :: r =>
                   match parse_doc x, go r with
                   | Some x', Some r' => Some (x' :: r')
                   | _, _ => None
                   end
                 end) elems with
        | Some lg', Some vs => Some (JArr lg' vs)
        | _, _ => None
        end
      | _ => None
      end
    else if is "str" then
      match args with [s] => option_map JStr (as_hex s) | _ => None end
    else if is "dec" then
      match args with
      | [p; s; ng; L ip; L fp] =>
        match as_int p, as_int s, as_bool ng, map_opt as_int ip, map_opt as_int fp with
        | Some p', Some s', Some g, Some i, Some f => Some (JDecimal p' s' g i f)
        | _, _, _, _, _ => None
        end
      | _ => None
      end
    else
      match map_opt as_int args with
      | Some [z] =>
        if is "i16" then Some (JInt16 z) else if is "u16" then Some (JUint16 z)
        else if is "i32" then Some (JInt32 z) else if is "u32" then Some (JUint32 z)
        else if is "i64" then Some (JInt64 z) else if is "u64" then Some (JUint64 z)
        else if is "dbl" then Some (JDouble z) else None
      | Some [y; m; d] => if is "date" then Some (JDate y m d) else None
      | Some [ng; h; mi; s; us] => if is "time" then Some (JTime (negb (ng =? 0)) h mi s us) else None
      | Some [y; m; d; h; mi; s; us] => if is "datetime" then Some (JDateTime y m d h mi s us) else None
      | _ => None
      end
  | _ => None
  end.

Definition parse_value (v : val) : option value :=
  match v with
  | L [A n; x] =>
    let is s := bytes_eqb n (str s) in
    if is "int" then option_map VInt (as_int x)
    else if is "float" then option_map VFloat (as_int x)
    else if is "year" then option_map VYear (as_int x)
    else if is "bits" then option_map VBits (as_hex x)
    else if is "enum" then option_map VEnum (as_int x)
    else if is "set" then option_map VSet (as_int x)
    else if is "bytes" then option_map VBytes (as_hex x)
    else if is "json" then option_map VJson (parse_doc x)          (* (json <doc>) *)
    else None
  | L [A n; ng; L ip; L fp] =>
    if bytes_eqb n (str "dec") then
      match as_bool ng, map_opt as_int ip, map_opt as_int fp with
      | Some g, Some i, Some f => Some (VDecimal g i f)
      | _, _, _ => None
      end
    else None
  | L (A n :: args) =>
    let is s := bytes_eqb n (str s) in
    match map_opt as_int args with
    | Some [y; m; d] => if is "date" then Some (VDate y m d) else None
    | Some [ng; h; mi; s; fr] => if is "time" then Some (VTime (negb (ng =? 0)) h mi s fr) else None
    | Some [y; m; d; h; mi; s; fr] => if is "datetime" then Some (VDateTime y m d h mi s fr) else None
    | Some [secs; fr] => if is "ts" then Some (VTimestamp secs fr) else None
    | _ => None
    end
  | _ => None
  end.

Definition v_cellres (r : res (option bytes * Z)) : val :=
  vres (fun p => [vopt_hex (fst p); vint (snd p)]) r.

Definition dispatch_cell (jsonp : bytes -> res bytes) (op : bytes) (args : list val) : option val :=
  if op_is op "cell" then
    (* (cell ty uns value tzoff pre rest) *)
    match args with
    | [ty; u; v; tzo; pre; rest] =>
      match parse_ty ty, as_bool u, parse_value v, as_int tzo, as_hex pre, as_hex rest with
      | Some ty, Some u, Some v, Some tzo, Some pre, Some rest =>
        let tz := fun _ : Z => tzo in
        let enc := enc_cell ty v in
        let d := pre ++ enc ++ rest in
        Some (L [vbool (wf_type ty && wf_value ty u v); vint (code_of ty); vint (meta_of ty); vhex enc;
                 vhex (text ffmt_marker tz efmt_marker ty u v);
                 v_cellres (cell_bytes ffmt_marker tz jsonp d (List.length pre) (code_of ty) (meta_of ty) u);
                 vres (fun z => [vint z]) (cell_length d (List.length pre) (code_of ty) (meta_of ty))])
      | _, _, _, _, _, _ => Some (L [vsym "bad"%string; vsym "cell-args"%string])
      end
    | _ => Some (L [vsym "bad"%string; vsym "cell-arity"%string])
    end
  else if op_is op "cell_raw" then
    (* (cell_raw data pos typ meta uns tzoff) *)
    match args with
    | [d; p; t; m; u; tzo] =>
      match as_hex d, as_nat p, as_int t, as_int m, as_bool u, as_int tzo with
      | Some d, Some p, Some t, Some m, Some u, Some tzo =>
        Some (L [v_cellres (cell_bytes ffmt_marker (fun _ => tzo) jsonp d p t m u);
                 vres (fun z => [vint z]) (cell_length d p t m)])
      | _, _, _, _, _, _ => Some (L [vsym "bad"%string; vsym "cell_raw-args"%string])
      end
    | _ => Some (L [vsym "bad"%string; vsym "cell_raw-arity"%string])
    end
  else if op_is op "cell_view" then
    (* (cell_view data pos typ meta) -> (view start len) | (fresh) *)
    match args with
    | [d; p; t; m] =>
      match as_hex d, as_nat p, as_int t, as_int m with
      | Some d, Some p, Some t, Some m =>
        Some (match cell_view d p t m with
              | Some (a, n) => L [vsym "view"; vnat a; vnat n]
              | None => L [vsym "fresh"]
              end)
      | _, _, _, _ => Some (L [vsym "bad"%string; vsym "cell_view-args"%string])
      end
    | _ => Some (L [vsym "bad"%string; vsym "cell_view-arity"%string])
    end
  else None.
