(* DispatchConn.v — request dispatcher of the connection-protocol model (C05/C06 harness glue;
   no theorem depends on this file).

   REQUEST (one line):
     (conn_outcomes CFG EVENTS TERM VERDICTS CANCEL CONNECT_FAILS START_FAILS BAD_AT [FUEL])
       CFG           (d9 d10 wrong) | (d9 d10 wrong k2)
                                      0/1 flags: fix_d9, fix_d10, d9_wrong, fix_k2; three flags mean fix_k2 = 0
                                      (0 0 0) = pinned code, (1 1 0) = (1 1 0 0) = D9 and D10 repaired,
                                      (1 1 0 1) = D9, D10 and K2 repaired (the current tree: Stream records
                                      s.endedUncancelled, Error() filters on `ctx cancelled && !endedUncancelled`),
                                      (1 1 1) = the trap variant
       EVENTS        (b ...)          event packets the master sends, in order; 1 = the event completes a
                                      transaction (the handler is called), 0 = it does not; () = none
       TERM          eof | (err CODE) | close | reset | garbage | hang
                                      what the master does after the events: EOF packet, ERR packet with CODE,
                                      closes the socket, resets it, sends an out-of-sequence packet, nothing
       VERDICTS      (b ...)          verdict of the k-th handler call, 1 = accepted, 0 = error; missing = 1
       CANCEL        never | before_stream | (while_handler K) | (after_deliveries K) | after_return
                                      when the caller's context is cancelled: before Stream is called; during the
                                      K-th handler call (0-based; the handler returns only after the cancel);
                                      at any moment after K handler calls have returned; after Stream returned
                                      and before Error() is called
       CONNECT_FAILS 0|1              dumpConn() fails (no connection ever exists)
       START_FAILS   0|1              prepareForReplication / NoticeDump fails (connection exists, no reader)
       BAD_AT        none | K         the parser rejects the K-th event it takes (0-based): invalid / decode /
                                      mapper / unsupported
       FUEL          optional nat     exploration budget (default 300000 visited-or-revisited nodes)
     Error() is called exactly once, after Stream returned (never if Stream does not return).

   RESPONSE:
     (ok N (STREAM ERROR READER_LEFT SOCKET RACE) ...)      N = number of distinct states explored
       the set of final observations over ALL interleavings, sorted, without duplicates:
       STREAM       nil | err | blocked          result of Stream (blocked = it never returns in that execution)
       ERROR        nil | master | transport | blocked | notcalled
       READER_LEFT  0|1                          the reader goroutine still exists at the end
       SOCKET       closed | open | noconn       state of the connection at the end
       RACE         0|1                          Close() ran while the reader was inside ReadPacket (K1)
       sort order: lexicographic on (STREAM, ERROR, READER_LEFT, SOCKET, RACE) with the value orders above.
     (bad fuel)   budget exhausted          (bad arg) / (bad arity)   malformed request

   The harness checks: observation of the real run  ∈  the returned set.

   Examples (produced by coq/extract/modelrun):
     (conn_outcomes (0 0 0) (1 1 0) hang (1 0) never 0 0 none)
       -> (ok 67 (err transport 0 closed 1) (err blocked 1 closed 0) (err blocked 1 closed 1))       D9 on the pinned code
     (conn_outcomes (1 1 0) (1 1 0) hang (1 0) never 0 0 none)
       -> (ok 89 (err nil 0 closed 0) (err nil 0 closed 1) (err transport 0 closed 1))               D9 repaired
     (conn_outcomes (0 0 0) () hang () never 1 0 none)     -> (ok 4 (err blocked 0 noconn 0))           D10
     (conn_outcomes (1 1 0) () hang () never 1 0 none)     -> (ok 5 (err nil 0 noconn 0))               D10 repaired
     (conn_outcomes (0 0 0) (0 1 1) (err 1236) () after_return 0 0 none) -> (ok 64 (nil nil 0 closed 0))   K2
     (conn_outcomes (0 0 0) (0 1 1) (err 1236) () never 0 0 none)        -> (ok 63 (nil master 0 closed 0))
     (conn_outcomes (1 1 1) (1) (err 1236) () never 0 0 none)            -> (ok 30 (nil nil 0 closed 0))     the trap
   with the K2 repair:
     (conn_outcomes (1 1 0 1) (1 1 0) hang (1 0) never 0 0 none)
       -> (ok 89 (err nil 0 closed 0) (err nil 0 closed 1) (err transport 0 closed 1))               as (1 1 0)
     (conn_outcomes (1 1 0 1) () hang () never 1 0 none)   -> (ok 5 (err nil 0 noconn 0))               as (1 1 0)
     (conn_outcomes (1 1 0)   (0 1 1) (err 1236) () after_return 0 0 none) -> (ok 64 (nil nil 0 closed 0))     K2
     (conn_outcomes (1 1 0 0) (0 1 1) (err 1236) () after_return 0 0 none) -> (ok 64 (nil nil 0 closed 0))     K2
     (conn_outcomes (1 1 0 1) (0 1 1) (err 1236) () after_return 0 0 none) -> (ok 64 (nil master 0 closed 0))  K2 repaired
     (conn_outcomes (1 1 0 1) (0 1 1) close () after_return 0 0 none)      -> (ok 64 (nil transport 0 closed 0))
     (conn_outcomes (1 1 0 1) (0 1 1) eof () after_return 0 0 none)        -> (ok 64 (nil nil 0 closed 0))
     (conn_outcomes (1 1 0 1) (0 1 1) (err 1236) () never 0 0 none)        -> (ok 63 (nil master 0 closed 0))
     (conn_outcomes (1 1 0 1) (0 1 1) (err 1236) () (after_deliveries 2) 0 0 none)
       -> (ok 148 (nil nil 0 closed 0) (nil nil 0 closed 1) (nil master 0 closed 0))    a cancellation that may fall
                                      before parseEvents returns still hides the reason (the stream may have ended by it) *)
From GB Require Import Base.Prelude Base.DecText Base.Sexp.
From GB Require Import Model.Conn Model.ConnExplore.
From Coq Require Import String.
Open Scope nat_scope.

Definition cbad (why : string) : val := L [vsym "bad"%string; vsym why].
Definition cop_is (op : bytes) (s : string) : bool := bytes_eqb op (str s).

Definition as_bools (v : val) : option (list bool) :=
  match as_list v with Some l => map_opt as_bool l | None => None end.

Definition as_cfg (v : val) : option cfg :=
  match as_bools v with
  | Some [a; b; c] => Some (Cfg a b c false)
  | Some [a; b; c; d] => Some (Cfg a b c d)
  | _ => None
  end.

Definition as_term (v : val) : option terminal :=
  if is_sym "eof" v then Some TEof
  else if is_sym "close" v then Some TClose
  else if is_sym "reset" v then Some TReset
  else if is_sym "garbage" v then Some TGarbage
  else if is_sym "hang" v then Some THang
  else match v with
       | L [t; c] => if is_sym "err" t then match as_int c with Some z => Some (TErr z) | None => None end else None
       | _ => None
       end.

Definition as_cancel (v : val) : option cancelpt :=
  if is_sym "never" v then Some KNever
  else if is_sym "before_stream" v then Some KBeforeStream
  else if is_sym "after_return" v then Some KAfterReturn
  else match v with
       | L [t; k] =>
         match as_nat k with
         | Some n => if is_sym "while_handler" t then Some (KWhileHandler n)
                     else if is_sym "after_deliveries" t then Some (KAfterDeliveries n) else None
         | None => None
         end
       | _ => None
       end.

Definition as_bad_at (v : val) : option (option nat) :=
  if is_sym "none" v then Some None
  else match as_nat v with Some n => Some (Some n) | None => None end.

Definition v_outcome (o : outcome) : val :=
  L [vsym (match o_s o with OSNil => "nil" | OSErr => "err" | OSBlocked => "blocked" end)%string;
     vsym (match o_e o with OENil => "nil" | OEMaster => "master" | OETransport => "transport"
                          | OEBlocked => "blocked" | OENotCalled => "notcalled" end)%string;
     vbool (o_left o);
     vsym (match o_k o with OKClosed => "closed" | OKOpen => "open" | OKNoConn => "noconn" end)%string;
     vbool (o_race o)].

Definition default_fuel : nat := 300 * 1000.

Definition conn_outcomes (args : list val) : val :=
  match args with
  | c :: e :: t :: vd :: k :: cf :: sf :: b :: rest =>
    match as_cfg c, as_bools e, as_term t, as_bools vd, as_cancel k, as_bool cf, as_bool sf, as_bad_at b with
    | Some c', Some e', Some t', Some vd', Some k', Some cf', Some sf', Some b' =>
      let fuel := match rest with
                  | [] => Some default_fuel
                  | [f] => as_nat f
                  | _ => None
                  end in
      match fuel with
      | Some fu =>
        match outcomes (Sc c' e' t' vd' k' cf' sf' b') fu with
        | Some (outs, n) => L (vsym "ok"%string :: vnat n :: map v_outcome outs)
        | None => cbad "fuel"
        end
      | None => cbad "arg"
      end
    | _, _, _, _, _, _, _, _ => cbad "arg"
    end
  | _ => cbad "arity"
  end.

Definition dispatch_conn (op : bytes) (args : list val) : option val :=
  if cop_is op "conn_outcomes" then Some (conn_outcomes args) else None.
