(* ConnExplore.v — exhaustive exploration of the LTS of Model/Conn.v under a scripted environment
   (validation glue for the end-to-end harness; no theorem of C05/C06 depends on this file,
   Props only use it for cross-check Examples).

   A scenario fixes what the environment does (what the master sends and how it ends, the handler's
   verdicts, where the caller cancels, whether connect / start fail, which event the parser rejects);
   the exploration enumerates ALL interleavings of the library steps with these environment steps and
   collects what is observable in the final (no step enabled) states. *)
From GB Require Import Base.Prelude Model.Conn.
Open Scope nat_scope.

Inductive terminal := TEof | TErr (code : Z) | TClose | THang | TReset | TGarbage.
Inductive cancelpt :=
| KNever
| KBeforeStream                 (* the context is already cancelled when Stream is called *)
| KWhileHandler (k : nat)       (* during the k-th handler call (0-based); the handler returns only afterwards *)
| KAfterDeliveries (k : nat)    (* at any moment after k handler calls have returned *)
| KAfterReturn.                 (* after Stream returned and before Error() is called *)

Record scenario := Sc {
  sc_cfg : cfg;
  sc_events : list bool;         (* event packets in order; true = completes a transaction *)
  sc_term : terminal;
  sc_verdicts : list bool;       (* verdict of the k-th handler call; missing = ok *)
  sc_cancel : cancelpt;
  sc_connect_fails : bool;
  sc_start_fails : bool;
  sc_bad_at : option nat }.      (* the parser rejects the k-th event it takes (0-based) *)

Fixpoint number_events (i : nat) (l : list bool) : list packet :=
  match l with [] => [] | b :: r => PkEvent (i, b) :: number_events (S i) r end.
Definition script (sc : scenario) : list packet :=
  number_events 0 (sc_events sc) ++
  match sc_term sc with TEof => [PkEOF] | TErr c => [PkERR c] | TGarbage => [PkGarbage] | _ => [] end.

Record xstate := X { xs : state; xrem : list packet; xraced : bool }.

(* injective flat encoding of a state (tags fix the length of every piece; lists carry their length),
   used only to recognise already visited states *)
Definition b2z (b : bool) : Z := if b then 1%Z else 0%Z.
Definition n2z (n : nat) : Z := Z.of_nat n.
Definition enc_event (e : event) : list Z := [n2z (fst e); b2z (snd e)].
Definition enc_reason (r : reason) : list Z :=
  match r with REof => [0%Z] | RMaster c => [1%Z; c] | RTransport => [2%Z] | RCancel => [3%Z] end.
Definition enc_packet (p : packet) : list Z :=
  match p with PkEvent e => 0%Z :: enc_event e | PkEOF => [1%Z] | PkERR c => [2%Z; c] | PkGarbage => [3%Z] end.
Definition enc_list {A} (f : A -> list Z) (l : list A) : list Z := n2z (length l) :: flat_map f l.
Definition enc_opt {A} (f : A -> list Z) (o : option A) : list Z :=
  match o with None => [0%Z] | Some a => 1%Z :: f a end.
Definition enc_sres (r : sres) : list Z := match r with RNil => [0%Z] | RErr => [1%Z] end.
Definition enc_eres (r : eres) : list Z := match r with ENil => [0%Z] | EErr x => 1%Z :: enc_reason x end.
Definition enc_rpc (r : rpc) : list Z :=
  match r with
  | RNotStarted => [0%Z] | RRead => [1%Z] | RHold e => 2%Z :: enc_event e | RPutErr x => 3%Z :: enc_reason x
  | RCloseErr => [4%Z] | RCloseEv => [5%Z] | RDone => [6%Z]
  end.
Definition enc_ppc (p : ppc) : list Z :=
  match p with
  | PConnect => [0%Z] | PStart => [1%Z] | PSelect => [2%Z] | PProcess e => 3%Z :: enc_event e
  | PInHandler e => 4%Z :: enc_event e | PReturning r => 5%Z :: enc_sres r | PDeferClose r => 6%Z :: enc_sres r
  | PReturned r => 7%Z :: enc_sres r
  end.
Definition enc_cpc (k : cpc) : list Z :=
  match k with CIdle => [0%Z] | CInError => [1%Z] | CReturned r => 2%Z :: enc_eres r end.
Definition enc_sock (k : socket) : list Z :=
  [match k with SNone => 0%Z | SOpen => 1%Z | SClosedClient => 2%Z | SClosedMaster => 3%Z | SReset => 4%Z end].
Definition enc_dcall (d : dcall) : list Z := [match d with DStart => 0%Z | DReadPacket => 1%Z | DClose => 2%Z end].
Definition enc_cause (k : stopcause) : list Z :=
  [match k with CConnect => 0%Z | CStart => 1%Z | CClosed => 2%Z | CCancel => 3%Z | CBad => 4%Z | CHandlerErr => 5%Z end].
Definition enc_state (s : state) : list Z :=
  enc_rpc (rd s) ++ enc_ppc (ps s) ++ enc_cpc (cl s) ++ [b2z (cancelled s); b2z (dcancelled s)] ++ enc_sock (sock s)
  ++ enc_list enc_packet (inbox s) ++ [b2z (evclosed s); b2z (s_chan s)] ++ enc_list enc_reason (ec_buf s)
  ++ [b2z (ec_closed s)] ++ enc_opt enc_dcall (dc_r s) ++ enc_opt enc_dcall (dc_p s) ++ enc_opt enc_reason (rreason s)
  ++ enc_list enc_reason (ec_sent s) ++ enc_list enc_event (consumed s)
  ++ enc_list (fun p => enc_event (fst p) ++ [b2z (snd p)]) (hlog s) ++ [n2z (hrun s)] ++ enc_opt enc_cause (cause s)
  ++ [b2z (canc_pre_ret s); b2z (canc_pre_call s); b2z (canc_at_err s)] ++ enc_opt enc_eres (first_res s)
  ++ [b2z (ended_uncancelled s); b2z (canc_pre_pe s)].
Definition enc_x (x : xstate) : list Z := b2z (xraced x) :: n2z (length (xrem x)) :: enc_state (xs x).

Definition racing (s : state) : bool :=
  match dc_r s, dc_p s with Some DReadPacket, Some DClose => true | _, _ => false end.

Definition xinit (sc : scenario) : xstate := X init (script sc) false.

Definition mk (x : xstate) (rem : list packet) (o : option state) : list xstate :=
  match o with Some s => [X s rem (xraced x || racing s)] | None => [] end.

Definition lib_allowed (sc : scenario) (s : state) (l : label) : bool :=
  match sc_cancel sc, cancelled s with
  | KBeforeStream, false => false
  | _, _ =>
    match l with
    | LConnectOk => negb (sc_connect_fails sc)
    | LConnectFail => sc_connect_fails sc || cancelled s
    | LStartOk => negb (sc_start_fails sc)
    | LStartFail => sc_start_fails sc
    | LProcBad => match sc_bad_at sc with Some k => S k =? length (consumed s) | None => false end
    | LProcOk => match sc_bad_at sc with Some k => negb (S k =? length (consumed s)) | None => true end
    | _ => true
    end
  end.

Definition cancel_allowed (sc : scenario) (s : state) : bool :=
  match sc_cancel sc with
  | KNever => false
  | KBeforeStream => match ps s with PConnect => true | _ => false end
  | KWhileHandler k => in_handler s && (length (hlog s) =? k)
  | KAfterDeliveries k => k <=? length (hlog s)
  | KAfterReturn => stream_returned s && match cl s with CIdle => true | _ => false end
  end.

Definition successors (sc : scenario) (x : xstate) : list xstate :=
  let c := sc_cfg sc in
  let s := xs x in
  flat_map (fun l => if lib_allowed sc s l then mk x (xrem x) (step c s l) else []) lib_labels
  ++ (* master *)
  match xrem x with
  | p :: r => if s_chan s then mk x r (step c s (LArrive p)) else []
  | [] => if s_chan s then
            match sc_term sc with
            | TClose => mk x [] (step c s LMasterClose)
            | TReset => mk x [] (step c s LMasterReset)
            | _ => []
            end
          else []
  end
  ++ (* caller's context *)
  (if cancel_allowed sc s then mk x (xrem x) (step c s LCancel) else [])
  ++ (* handler *)
  match ps s with
  | PInHandler _ =>
    let k := length (hlog s) in
    let held_back := match sc_cancel sc with KWhileHandler j => (j =? k) && negb (cancelled s) | _ => false end in
    if held_back then []
    else if nth k (sc_verdicts sc) true then mk x (xrem x) (step c s LHandlerOk)
         else mk x (xrem x) (step c s LHandlerErr)
  | _ => []
  end
  ++ (* one Error() call after Stream returned *)
  match cl s with
  | CIdle =>
    let wait := match sc_cancel sc with KAfterReturn => negb (cancelled s) | _ => false end in
    if wait then [] else mk x (xrem x) (step c s LCallError)
  | _ => []
  end.

(* observation of a final state *)
Inductive o_stream := OSNil | OSErr | OSBlocked.
Inductive o_error := OENil | OEMaster | OETransport | OEBlocked | OENotCalled.
Inductive o_sock := OKClosed | OKOpen | OKNoConn.
Record outcome := Out { o_s : o_stream; o_e : o_error; o_left : bool; o_k : o_sock; o_race : bool }.

Definition observe (x : xstate) : outcome :=
  let s := xs x in
  Out (match ps s with PReturned RNil => OSNil | PReturned RErr => OSErr | _ => OSBlocked end)
      (match cl s with
       | CIdle => OENotCalled
       | CInError => OEBlocked
       | CReturned ENil => OENil
       | CReturned (EErr (RMaster _)) => OEMaster
       | CReturned (EErr _) => OETransport
       end)
      (negb (reader_gone s))
      (match sock s with SNone => OKNoConn | SOpen => OKOpen | _ => OKClosed end)
      (xraced x).

Definition code (o : outcome) : list nat :=
  [match o_s o with OSNil => 0 | OSErr => 1 | OSBlocked => 2 end;
   match o_e o with OENil => 0 | OEMaster => 1 | OETransport => 2 | OEBlocked => 3 | OENotCalled => 4 end;
   if o_left o then 1 else 0;
   match o_k o with OKClosed => 0 | OKOpen => 1 | OKNoConn => 2 end;
   if o_race o then 1 else 0].

Fixpoint lex_cmp (a b : list nat) : comparison :=
  match a, b with
  | [], [] => Eq
  | [], _ => Lt
  | _, [] => Gt
  | x :: a', y :: b' => match Nat.compare x y with Eq => lex_cmp a' b' | r => r end
  end.

Fixpoint insert (o : outcome) (l : list outcome) : list outcome :=
  match l with
  | [] => [o]
  | h :: t => match lex_cmp (code o) (code h) with
              | Lt => o :: l
              | Eq => l
              | Gt => h :: insert o t
              end
  end.

Fixpoint memx (k : list Z) (l : list (list Z)) : bool :=
  match l with [] => false | h :: t => if bytes_eqb k h then true else memx k t end.

(* depth-first exploration with a visited list; None = fuel exhausted *)
Fixpoint explore (sc : scenario) (fuel : nat) (todo : list xstate) (seen : list (list Z)) (outs : list outcome)
  : option (list outcome * nat) :=
  match todo with
  | [] => Some (outs, length seen)
  | x :: rest =>
    match fuel with
    | 0 => None
    | S f =>
      let k := enc_x x in
      if memx k seen then explore sc f rest seen outs
      else match successors sc x with
           | [] => explore sc f rest (k :: seen) (insert (observe x) outs)
           | succ => explore sc f (succ ++ rest) (k :: seen) outs
           end
    end
  end.

Definition outcomes (sc : scenario) (fuel : nat) : option (list outcome * nat) :=
  explore sc fuel [xinit sc] [] [].
