(* Model of replication/binlog_event_rbr.go: readLenEncInt, metadataRead,
   TableMap, Rows; and of binlog_event.go: Bitmap. *)
From GB Require Import Base.Prelude Model.Header Model.Events Model.Cell.
From GBGen Require Import Consts.
Open Scope Z_scope.

(* Bitmap{data,count} *)
Record bitmap := { bm_data : bytes; bm_count : nat }.
Definition bitmap_zero : bitmap := {| bm_data := []; bm_count := 0 |}.

Definition new_bitmap (d : bytes) (pos count : nat) : res (bitmap * nat) :=
  let bs := ((count + 7) / 8)%nat in
  do s <- slice d pos bs; Ok ({| bm_data := s; bm_count := count |}, (pos + bs)%nat).

Definition bit (b : bitmap) (i : nat) : res bool :=
  do x <- at_ (bm_data b) (i / 8);
  Ok (0 <? Z.land x (2 ^ Z.of_nat (i mod 8))).

Fixpoint bit_count_from (b : bitmap) (i n : nat) (acc : nat) : res nat :=
  match n with
  | O => Ok acc
  | S k => do v <- bit b i; bit_count_from b (S i) k (if v then S acc else acc)
  end.
Definition bit_count (b : bitmap) : res nat := bit_count_from b 0 (bm_count b) 0.

(* readLenEncInt: (value, new position) or None for "!ok" *)
Definition read_lenenc (d : bytes) (pos : nat) : res (option (Z * nat)) :=
  if (length d <=? pos)%nat then Ok None
  else
    do b <- at_ d pos;
    if b =? 252 then
      if (length d <=? pos + 2)%nat then Ok None else do v <- le_at d (pos + 1) 2; Ok (Some (v, (pos + 3)%nat))
    else if b =? 253 then
      if (length d <=? pos + 3)%nat then Ok None else do v <- le_at d (pos + 1) 3; Ok (Some (v, (pos + 4)%nat))
    else if b =? 254 then
      if (length d <=? pos + 8)%nat then Ok None else do v <- le_at d (pos + 1) 8; Ok (Some (v, (pos + 9)%nat))
    else Ok (Some (b, S pos)).

Definition in_case (i : nat) (typ : Z) : bool :=
  existsb (Z.eqb typ) (nth i metadataRead_cases []).

(* metadataRead: classes come from the generated switch case lists (0, 1, 2-BE, 2-LE bytes) *)
Definition metadata_read (d : bytes) (pos : nat) (typ : Z) : res (Z * nat) :=
  if in_case 0 typ then Ok (0, pos)
  else if in_case 1 typ then do v <- at_ d pos; Ok (v, S pos)
  else if in_case 2 typ then do a <- at_ d pos; do b <- at_ d (S pos); Ok (u16 (a * 256 + b), (pos + 2)%nat)
  else if in_case 3 typ then do a <- at_ d pos; do b <- at_ d (S pos); Ok (u16 (a + b * 256), (pos + 2)%nat)
  else Err EMetaType.

Record table_map := {
  tm_flags : Z; tm_db : bytes; tm_name : bytes; tm_types : bytes;
  tm_can_be_null : bitmap; tm_meta : list Z
}.

Fixpoint read_metas (types : bytes) (d : bytes) (pos : nat) (acc : list Z) : res (list Z * nat) :=
  match types with
  | [] => Ok (rev_append acc [], pos)
  | t :: r => do (m, p) <- metadata_read d pos t; read_metas r d p (m :: acc)
  end.

Definition max_int32 : Z := 2147483647.

Definition ev_table_map (f : format) (ev : bytes) : res table_map :=
  do data <- body f ev;
  do hs <- header_size f K_eTableMapEvent;
  let pos := if hs =? 6 then 4%nat else 6%nat in
  do flags <- le_at data pos 2;
  let pos := (pos + 2)%nat in
  do l <- at_ data pos;
  do db <- slice data (pos + 1) (Z.to_nat l);
  let pos := (pos + 1 + Z.to_nat l + 1)%nat in
  do l <- at_ data pos;
  do name <- slice data (pos + 1) (Z.to_nat l);
  let pos := (pos + 1 + Z.to_nat l + 1)%nat in
  do r <- read_lenenc data pos;
  match r with
  | None => Err ETooSmall
  | Some (cnt, npos) =>
    if cnt >? max_int32 then Err ETooLarge
    else
      do types <- take data npos cnt;
      let pos := (npos + Z.to_nat cnt)%nat in
      do r2 <- read_lenenc data pos;
      match r2 with
      | None => Err ETooSmall
      | Some (ml, npos2) =>
        if ml >? max_int32 then Err ETooLarge
        else
          do (metas, pend) <- read_metas types data npos2 [];
          if negb (Z.of_nat pend =? Z.of_nat npos2 + ml) then Err EMetaEnd
          else
            do (cbn, _) <- new_bitmap data pend (Z.to_nat cnt);
            Ok {| tm_flags := flags; tm_db := db; tm_name := name; tm_types := types;
                  tm_can_be_null := cbn; tm_meta := metas |}
      end
  end.

(* ---- Rows ---- *)
Record row := { r_null_ident : bitmap; r_null_data : bitmap; r_ident : option bytes; r_data : option bytes }.
Record rows := { rs_flags : Z; rs_ident_cols : bitmap; rs_data_cols : bitmap; rs_rows : list row }.

Definition is_v2 (typ : Z) : bool :=
  (typ =? K_eWriteRowsEventV2) || (typ =? K_eUpdateRowsEventV2) || (typ =? K_eDeleteRowsEventV2).
Definition has_identify (typ : Z) : bool :=
  (typ =? K_eUpdateRowsEventV1) || (typ =? K_eUpdateRowsEventV2) || (typ =? K_eDeleteRowsEventV1) || (typ =? K_eDeleteRowsEventV2).
Definition has_data (typ : Z) : bool :=
  (typ =? K_eWriteRowsEventV1) || (typ =? K_eWriteRowsEventV2) || (typ =? K_eUpdateRowsEventV1) || (typ =? K_eUpdateRowsEventV2).

(* skip the cells of one image: columns c = ci .. cc-1 *)
Fixpoint skip_image (n : nat) (tm : table_map) (cols nulls : bitmap) (d : bytes) (c vi pos : nat) : res nat :=
  match n with
  | O => Ok pos
  | S k =>
    do present <- bit cols c;
    if negb present then skip_image k tm cols nulls d (S c) vi pos
    else
      do isnull <- bit nulls vi;
      if isnull then skip_image k tm cols nulls d (S c) (S vi) pos
      else
        do ty <- at_ (tm_types tm) c;
        match nth_error (tm_meta tm) c with
        | None => Panic
        | Some me =>
          do l <- cell_length d pos ty me;
          (* pos += l with l possibly huge: the slice taken afterwards decides *)
          if l <? 0 then Panic else skip_image k tm cols nulls d (S c) (S vi) (pos + Z.to_nat (Z.min l (len d + 1)))
        end
  end.

Definition read_image (tm : table_map) (cols : bitmap) (ncols npresent : nat) (d : bytes) (pos : nat)
  : res (bitmap * bytes * nat) :=
  do (nulls, p) <- new_bitmap d pos npresent;
  do p2 <- skip_image ncols tm cols nulls d 0 0 p;
  if (p2 <? p)%nat then Panic
  else do s <- slice d p (p2 - p); Ok (nulls, s, p2).

Fixpoint read_rows (fuel : nat) (tm : table_map) (hi hd : bool) (icols dcols : bitmap) (ncols ni nd : nat)
         (d : bytes) (pos : nat) (acc : list row) : res (list row) :=
  match fuel with
  | O => Err EOutOfFuel
  | S k =>
    if (length d <=? pos)%nat then Ok (rev_append acc [])
    else
      do (r1, p1) <-
        (if hi then do (nb, s, p) <- read_image tm icols ncols ni d pos; Ok ((nb, Some s), p)
         else Ok ((bitmap_zero, None), pos));
      do (r2, p2) <-
        (if hd then do (nb, s, p) <- read_image tm dcols ncols nd d p1; Ok ((nb, Some s), p)
         else Ok ((bitmap_zero, None), p1));
      read_rows k tm hi hd icols dcols ncols ni nd d p2
                ({| r_null_ident := fst r1; r_null_data := fst r2; r_ident := snd r1; r_data := snd r2 |} :: acc)
  end.

Definition ev_rows (f : format) (tm : table_map) (ev : bytes) : res rows :=
  do typ <- ev_type ev;
  do data <- body f ev;
  do hs <- header_size f typ;
  let pos := if hs =? 6 then 4%nat else 6%nat in
  do flags <- le_at data pos 2;
  let pos := (pos + 2)%nat in
  do pos <- (if is_v2 typ then do e <- le_at data pos 2; Ok (pos + Z.to_nat e)%nat else Ok pos);
  do r <- read_lenenc data pos;
  match r with
  | None => Err ETooSmall
  | Some (cnt, npos) =>
    if cnt >? max_int32 then Err ETooLarge
    else
      (* column count bounded by the data before it is used as a nat *)
      if cnt >? 8 * (len data + 1) then Panic
      else
      let cc := Z.to_nat cnt in
      do (ic, ni, p1) <-
        (if has_identify typ then do (b, p) <- new_bitmap data npos cc; do n <- bit_count b; Ok (b, n, p)
         else Ok (bitmap_zero, 0%nat, npos));
      do (dc, nd, p2) <-
        (if has_data typ then do (b, p) <- new_bitmap data p1 cc; do n <- bit_count b; Ok (b, n, p)
         else Ok (bitmap_zero, 0%nat, p1));
      do rs <- read_rows (S (length data)) tm (has_identify typ) (has_data typ) ic dc cc ni nd data p2 [];
      Ok {| rs_flags := flags; rs_ident_cols := ic; rs_data_cols := dc; rs_rows := rs |}
  end.
