(* Model of replication/binlog_event_json.go (printJSONData and everything it
   calls).  Definitions only.

   Oracle (Section variable, instantiated by the dispatcher, universally
   quantified in the theorems):
     efmt bits : strconv.AppendFloat(nil, math.Float64frombits(bits), 'E', -1, 64)

   Conventions specific to this file
   * The Go functions append to a bytes.Buffer and discard it on error; the
     model returns the appended text.
   * The printer follows offsets found in the data, so there is no structural
     measure: print_value recurses on fuel (Err EOutOfFuel when exhausted).
     The two loops over container entries are separate functions; the entry
     loop takes the recursive call as a parameter `rec`.
   * Loop counters that come from the data stay in Z; a loop over them carries
     its own fuel (the data length + 1 always suffices: every iteration reads
     at a position that advances by at least 3 and panics past the end).
   * Slice expressions whose operands come from the data are guarded in Z
     before conversion to nat (sliceZ, slice_fromZ).
   * Capacity: the input buffer is assumed to have capacity = length (the
     harness passes such buffers).  Under that assumption the only place
     where Go reads beyond a slice's length is an opaque payload
     `data[pos:pos+size]` that is re-sliced `data[:8]` (date/time/datetime) or
     re-sliced inside CellBytes (decimal): the re-slice is bounded by the
     remaining length of the buffer, which is what the model checks.
   * printJSONTime is modelled as REPAIRED (defect D5): the packed value is a
     signed int64, negated as a whole for negative times. *)
From GB Require Import Base.Prelude Base.DecText Base.GoFmt Model.Cell.
From GBGen Require Import Consts.
From Coq Require Import String.
Open Scope Z_scope.

(* d[a:a+n], operands are Go ints *)
Definition sliceZ (d : bytes) (a n : Z) : res bytes :=
  if (0 <=? a) && (0 <=? n) && (a + n <=? len d) then slice d (Z.to_nat a) (Z.to_nat n) else Panic.

(* d[a:] *)
Definition slice_fromZ (d : bytes) (a : Z) : res bytes :=
  if (0 <=? a) && (a <=? len d) then slice_from d (Z.to_nat a) else Panic.

(* readOffsetOrSize: 2 or 4 bytes little endian; Go ints are 64 bit, no wrap *)
Definition read_off (d : bytes) (pos : nat) (large : bool) : res (Z * nat) :=
  if large then do v <- le_at d pos 4; Ok (v, (pos + 4)%nat)
  else do v <- le_at d pos 2; Ok (v, (pos + 2)%nat).

(* readVariableLength.  `idx` is a byte, so the shift count `7*idx` is computed
   modulo 256; a shift count >= 64 yields 0; `res` is a (signed, 64 bit) int;
   the loop ends at the first byte whose int8 value is >= 0 and panics when it
   runs off the data. *)
Fixpoint read_varlen_go (l : bytes) (acc : Z) (idx : Z) (pos : nat) : res (Z * nat) :=
  match l with
  | [] => Panic
  | bb :: r =>
    let sh := u8 (7 * idx) in
    let term := if sh <? 64 then i64 (Z.shiftl (Z.land bb 127) sh) else 0 in
    let acc' := Z.lor acc term in
    if 0 <=? i8 bb then Ok (acc', S pos)
    else read_varlen_go r acc' (u8 (idx + 1)) (S pos)
  end.
Definition read_varlen (d : bytes) (pos : nat) : res (Z * nat) :=
  read_varlen_go (skipn pos d) 0 0 pos.

(* size of one value entry: type byte + 2 or 4 bytes *)
Definition esz (large : bool) : nat := if large then 5%nat else 3%nat.

Section Printer.
Variable efmt : Z -> bytes.

(* if toplevel { result.WriteByte('\'') } ... if toplevel { result.WriteByte('\'') } *)
Definition q (top : bool) (s : bytes) : bytes := if top then 39 :: s ++ [39] else s.
(* if toplevel { "CAST(" } ... if toplevel { " AS JSON)" } *)
Definition cast_json (top : bool) (s : bytes) : bytes :=
  if top then str "CAST(" ++ s ++ str " AS JSON)" else s.

Definition print_literal (b : Z) (top : bool) : res bytes :=
  if b =? K_jsonNullLiteral then Ok (q top (str "null"))
  else if b =? K_jsonTrueLiteral then Ok (q top (str "true"))
  else if b =? K_jsonFalseLiteral then Ok (q top (str "false"))
  else Err EJson.

(* the integer printers receive a slice of exactly 2/4/8 bytes *)
Definition print_int16 (s : bytes) (top : bool) : bytes := q top (fmt_d (i16 (le_dec s))).
Definition print_uint16 (s : bytes) (top : bool) : bytes := q top (fmt_d (u16 (le_dec s))).
Definition print_int32 (s : bytes) (top : bool) : bytes := q top (fmt_d (i32 (le_dec s))).
Definition print_uint32 (s : bytes) (top : bool) : bytes := q top (fmt_d (u32 (le_dec s))).
Definition print_int64 (s : bytes) (top : bool) : bytes := q top (fmt_d (i64 (le_dec s))).
Definition print_uint64 (s : bytes) (top : bool) : bytes := q top (fmt_d (u64 (le_dec s))).
Definition print_double (s : bytes) (top : bool) : bytes := q top (efmt (u64 (le_dec s))).

Definition print_string (d : bytes) (top : bool) : res bytes :=
  do (size, pos) <- read_varlen d 0;
  do s <- sliceZ d (Z.of_nat pos) size;
  Ok (if top then str "'""" ++ s ++ str """'" else 39 :: s ++ [39]).

(* printJSONDate: all arithmetic on uint64 *)
Definition print_date (b8 : bytes) (top : bool) : bytes :=
  let raw := u64 (le_dec b8) in
  let value := shr raw 24 in
  let ym := band (shr value 22) 131071 in
  let year := ym / 13 in
  let month := ym mod 13 in
  let day := band (shr value 17) 31 in
  cast_json top (str "CAST('" ++ fmt_date year month day ++ str "' AS DATE)").

(* printJSONTime, repaired: signed packed value, sign taken off first *)
Definition print_time (b8 : bytes) (top : bool) : bytes :=
  let raw0 := i64 (le_dec b8) in
  let neg := raw0 <? 0 in
  let raw := if neg then i64 (- raw0) else raw0 in
  let value := shr raw 24 in
  let hour := band (shr value 12) 1023 in
  let minute := band (shr value 6) 63 in
  let second := band value 63 in
  let micro := band raw 16777215 in
  cast_json top (str "CAST('" ++ (if neg then [45] else []) ++ fmt_clock hour minute second ++
                 (if micro =? 0 then [] else 46 :: fmt_0d 6 micro) ++ str "' AS TIME(6))").

Definition print_datetime (b8 : bytes) (top : bool) : bytes :=
  let raw := u64 (le_dec b8) in
  let value := shr raw 24 in
  let ym := band (shr value 22) 131071 in
  let year := ym / 13 in
  let month := ym mod 13 in
  let day := band (shr value 17) 31 in
  let hour := band (shr value 12) 31 in
  let minute := band (shr value 6) 63 in
  let second := band value 63 in
  let micro := band raw 16777215 in
  cast_json top (str "CAST('" ++ fmt_date year month day ++ [32] ++ fmt_clock hour minute second ++
                 (if micro =? 0 then [] else 46 :: fmt_0d 6 micro) ++ str "' AS DATETIME(6))").

(* printJSONDecimal on data[pos:pos+size]: data[0], data[1] are index
   expressions (checked against the length `size`); CellBytes re-slices
   data[2:2+l] (checked against the capacity = rest of the buffer `sfx`). *)
Definition print_decimal (payload sfx : bytes) (top : bool) : res bytes :=
  do precision <- at_ payload 0;
  do scale <- at_ payload 1;
  let metadata := u16 (u16 (precision * 256) + scale) in
  match decode_decimal sfx 2 metadata with
  | Ok (v, _) =>
    Ok (cast_json top (str "CAST('" ++ (match v with Some t => t | None => [] end) ++
                       str "' AS DECIMAL(" ++ fmt_d precision ++ [44] ++ fmt_d scale ++ str "))"))
  | Err _ => Err EJson
  | Panic => Panic
  end.

Definition print_opaque (d : bytes) (top : bool) : res bytes :=
  do typ <- at_ d 0;
  do (size, pos) <- read_varlen d 1;
  if (typ =? K_TypeDate) || (typ =? K_TypeTime) || (typ =? K_TypeDateTime) then
    do _ <- sliceZ d (Z.of_nat pos) size;
    do b8 <- slice d pos 8;
    Ok (if typ =? K_TypeDate then print_date b8 top
        else if typ =? K_TypeTime then print_time b8 top
        else print_datetime b8 top)
  else if typ =? K_TypeNewDecimal then
    do payload <- sliceZ d (Z.of_nat pos) size;
    do sfx <- slice_from d pos;
    print_decimal payload sfx top
  else Err EJson.

(* the switch of printJSONValueEntry after `typ := data[pos]; pos++` *)
Definition entry_dispatch (rec : Z -> bytes -> res bytes) (d : bytes) (pos : nat) (large : bool) (typ : Z)
  : res bytes :=
  if typ =? K_jsonTypeLiteral then do b <- at_ d pos; print_literal b false
  else if typ =? K_jsonTypeInt16 then do s <- slice d pos 2; Ok (print_int16 s false)
  else if typ =? K_jsonTypeUint16 then do s <- slice d pos 2; Ok (print_uint16 s false)
  else if (typ =? K_jsonTypeInt32) && large then do s <- slice d pos 4; Ok (print_int32 s false)
  else if (typ =? K_jsonTypeUint32) && large then do s <- slice d pos 4; Ok (print_uint32 s false)
  else
    do (offset, _) <- read_off d pos large;
    do sub <- slice_fromZ d offset;
    rec typ sub.

Definition print_entry (rec : Z -> bytes -> res bytes) (d : bytes) (pos : nat) (large : bool) : res bytes :=
  do typ <- at_ d pos;
  entry_dispatch rec d (S pos) large typ.

(* for i := 0; i < elementCount; i++ { if i > 0 {','}; entry; pos += 3|5 }   (arrays) *)
Fixpoint print_entries (rec : Z -> bytes -> res bytes) (d : bytes) (large : bool)
         (fuel : nat) (remaining : Z) (pos : nat) (first : bool) : res bytes :=
  if remaining <=? 0 then Ok []
  else match fuel with
       | O => Err EOutOfFuel
       | S f =>
         do t <- print_entry rec d pos large;
         do r <- print_entries rec d large f (remaining - 1) (pos + esz large) false;
         Ok ((if first then [] else [44]) ++ t ++ r)
       end.

(* the key table of an object: keys[i] = data[keyOffset : keyOffset+keyLength] *)
Fixpoint read_keys (d : bytes) (large : bool) (fuel : nat) (remaining : Z) (pos : nat)
  : res (list bytes * nat) :=
  if remaining <=? 0 then Ok ([], pos)
  else match fuel with
       | O => Err EOutOfFuel
       | S f =>
         do (koff, p1) <- read_off d pos large;
         do (klen, p2) <- read_off d p1 false;
         do k <- sliceZ d koff klen;
         do (ks, p) <- read_keys d large f (remaining - 1) p2;
         Ok (k :: ks, p)
       end.

(* the second loop of printJSONObject runs over exactly the keys read by the first *)
Fixpoint print_members (rec : Z -> bytes -> res bytes) (d : bytes) (large : bool)
         (keys : list bytes) (pos : nat) (first : bool) : res bytes :=
  match keys with
  | [] => Ok []
  | k :: ks =>
    do t <- print_entry rec d pos large;
    do r <- print_members rec d large ks (pos + esz large) false;
    Ok ((if first then [] else [44]) ++ [39] ++ k ++ [39; 44] ++ t ++ r)
  end.

Definition print_array (rec : Z -> bytes -> res bytes) (d : bytes) (large : bool) : res bytes :=
  do (cnt, p1) <- read_off d 0 large;
  do (size, p2) <- read_off d p1 large;
  if size >? len d then Err EJson
  else
    do t <- print_entries rec d large (S (List.length d)) cnt p2 true;
    Ok (str "JSON_ARRAY(" ++ t ++ [41]).

Definition print_object (rec : Z -> bytes -> res bytes) (d : bytes) (large : bool) : res bytes :=
  do (cnt, p1) <- read_off d 0 large;
  do (size, p2) <- read_off d p1 large;
  if size >? len d then Err EJson
  else
    do (keys, p3) <- read_keys d large (S (List.length d)) cnt p2;
    do t <- print_members rec d large keys p3 true;
    Ok (str "JSON_OBJECT(" ++ t ++ [41]).

(* the switch of printJSONValue, given the nested-value printer *)
Definition value_dispatch (rec : Z -> bytes -> res bytes) (typ : Z) (d : bytes) (top : bool) : res bytes :=
  if typ =? K_jsonTypeSmallObject then print_object rec d false
  else if typ =? K_jsonTypeLargeObject then print_object rec d true
  else if typ =? K_jsonTypeSmallArray then print_array rec d false
  else if typ =? K_jsonTypeLargeArray then print_array rec d true
  else if typ =? K_jsonTypeLiteral then do b <- at_ d 0; print_literal b top
  else if typ =? K_jsonTypeInt16 then do s <- slice d 0 2; Ok (print_int16 s top)
  else if typ =? K_jsonTypeUint16 then do s <- slice d 0 2; Ok (print_uint16 s top)
  else if typ =? K_jsonTypeInt32 then do s <- slice d 0 4; Ok (print_int32 s top)
  else if typ =? K_jsonTypeUint32 then do s <- slice d 0 4; Ok (print_uint32 s top)
  else if typ =? K_jsonTypeInt64 then do s <- slice d 0 8; Ok (print_int64 s top)
  else if typ =? K_jsonTypeUint64 then do s <- slice d 0 8; Ok (print_uint64 s top)
  else if typ =? K_jsonTypeDouble then do s <- slice d 0 8; Ok (print_double s top)
  else if typ =? K_jsonTypeString then print_string d top
  else if typ =? K_jsonTypeOpaque then print_opaque d top
  else Err EJson.

(* printJSONValue *)
Fixpoint print_value (fuel : nat) (typ : Z) (d : bytes) (top : bool) : res bytes :=
  match fuel with
  | O => Err EOutOfFuel
  | S f => value_dispatch (fun t sub => print_value f t sub false) typ d top
  end.

(* printJSONData *)
Definition print_json_fuel (fuel : nat) (data : bytes) : res bytes :=
  match data with
  | [] => Ok (str "'null'")
  | typ :: rest => print_value fuel typ rest true
  end.

Definition print_json (data : bytes) : res bytes := print_json_fuel (S (List.length data)) data.

End Printer.
