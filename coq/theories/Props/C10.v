(* C10 — Integer, floating-point, YEAR, BIT, ENUM and SET values decode exactly.
   Only statements closed by `exact`, Examples and Print Assumptions.
   `cell_ok ffmt tz efmt jsonp ty uns v` (Proofs/CellCommon.v) says: for every
   surrounding context pre/rest, CellBytes on pre ++ enc_cell ty v ++ rest at
   offset |pre| returns (text ffmt tz efmt ty uns v, |enc_cell ty v|) and cellLength returns
   |enc_cell ty v|.  The oracles ffmt (strconv.AppendFloat 'f' -1), tz, efmt (strconv.AppendFloat 'E' -1,
   used by JSON values only) and jsonp are universally quantified. *)
From GB Require Import Base.Prelude Base.DecText Model.Cell Spec.Values.
From GB Require Import Proofs.CellCommon Proofs.CellInt Proofs.CellSimple.
Open Scope Z_scope.

(* integers of every width: decimal text of the exact value, two's complement unless unsigned *)
Theorem C10_int_text : forall ffmt tz jsonp ty uns z pre rest,
  is_int_type ty = true -> wf_value ty uns (VInt z) = true ->
  cell_bytes ffmt tz jsonp (pre ++ enc_cell ty (VInt z) ++ rest) (length pre) (code_of ty) (meta_of ty) uns
    = Ok (Some (digs_Z z), int_width ty)
  /\ cell_length (pre ++ enc_cell ty (VInt z) ++ rest) (length pre) (code_of ty) (meta_of ty) = Ok (int_width ty).
Proof. exact int_text. Qed.
Print Assumptions C10_int_text.

(* digs_Z is the canonical decimal text: it denotes the value, has only digits and no leading zero *)
Theorem C10_decimal_text_denotes : forall n, 0 <= n ->
  dec_val (digs n) = n /\ Forall is_digit (digs n) /\ digs n <> [] /\
  (0 < n -> exists c r, digs n = c :: r /\ 49 <= c <= 57).
Proof.
  exact (fun n H => conj (digs_val n H) (conj (digs_digits n H) (conj (digs_nonempty n) (digs_head n)))).
Qed.
Print Assumptions C10_decimal_text_denotes.

Theorem C10_year : forall ffmt tz efmt jsonp uns b,
  wf_value TYear uns (VYear b) = true -> cell_ok ffmt tz efmt jsonp TYear uns (VYear b).
Proof. exact year_ok. Qed.
Print Assumptions C10_year.

Theorem C10_float : forall ffmt tz efmt jsonp uns b,
  wf_value TFloat uns (VFloat b) = true -> cell_ok ffmt tz efmt jsonp TFloat uns (VFloat b).
Proof. exact float_ok. Qed.
Print Assumptions C10_float.

Theorem C10_double : forall ffmt tz efmt jsonp uns b,
  wf_value TDouble uns (VFloat b) = true -> cell_ok ffmt tz efmt jsonp TDouble uns (VFloat b).
Proof. exact double_ok. Qed.
Print Assumptions C10_double.

Theorem C10_bit : forall ffmt tz efmt jsonp n uns bs,
  wf_type (TBit n) = true -> wf_value (TBit n) uns (VBits bs) = true -> cell_ok ffmt tz efmt jsonp (TBit n) uns (VBits bs).
Proof. exact bit_ok. Qed.
Print Assumptions C10_bit.

Theorem C10_enum : forall ffmt tz efmt jsonp w bare uns i,
  wf_type (TEnum w bare) = true -> wf_value (TEnum w bare) uns (VEnum i) = true ->
  cell_ok ffmt tz efmt jsonp (TEnum w bare) uns (VEnum i).
Proof. exact enum_ok. Qed.
Print Assumptions C10_enum.

Theorem C10_set : forall ffmt tz efmt jsonp w bare uns m,
  wf_type (TSet w bare) = true -> wf_value (TSet w bare) uns (VSet m) = true ->
  cell_ok ffmt tz efmt jsonp (TSet w bare) uns (VSet m).
Proof. exact set_ok. Qed.
Print Assumptions C10_set.

Example C10_nonvacuous :
  wf_value TInt24 false (VInt (-8388608)) = true /\ wf_value TLongLong true (VInt 18446744073709551615) = true /\
  wf_type (TBit 12) = true /\ wf_value (TBit 12) false (VBits [15; 255]) = true /\
  wf_value (TSet 8 false) false (VSet 9223372036854775808) = true /\
  text (fun _ _ => []) (fun _ => 0) (fun _ => []) TInt24 false (VInt (-8388608)) = [45; 56; 51; 56; 56; 54; 48; 56] /\
  text (fun _ _ => []) (fun _ => 0) (fun _ => []) TYear false (VYear 0) = [48; 48; 48; 48].
Proof. repeat split; vm_compute; reflexivity. Qed.


(* ---------------------------------------------------------------------------------------------------------------
   Tie by proof to the Go source.  gen/TransCellBytes.v is CellBytes of /repo/replication/binlog_event_rbr.go, translated
   on every run by harness/cmd/gotrans (one definition per case of its switch and the dispatcher CellBytes_g); for the
   type codes below the translated function returns, for EVERY row data, position, metadata and signedness, the value
   text and consumed length that Model.Cell.cell_bytes returns - the model function the theorems above are about (same
   outcome class on errors and panics).  Oracles shared by both sides: ffmt (strconv.AppendFloat 'f'), print_timestamp tz
   (printTimestamp, pinned below / in C12), jsonp (printJSONData, C14).  flat forgets the difference between a nil and an
   empty result slice (the model never answers NULL: that is decided by the NULL bitmap before CellBytes is called).
   A change to one of these cases of CellBytes either keeps this provable or breaks the build before any test runs. *)
From GB Require Import Base.GoSem Proofs.TransEquivCellBytesDefs Proofs.TransEquivCellBytesTies.
From GBGen Require Import TransCellBytes.
Theorem C10_tie_CellBytes : forall ffmt tz jsonp fuel d pos typ meta uns,
  In typ [1; 2; 9; 3; 8; 13; 4; 5; 16; 247; 248; 254] -> (1000 <= fuel)%nat -> wf_bytes d -> 0 <= meta < 65536 -> Z.of_nat pos < 2 ^ 62 -> (pos <= length d)%nat ->
  res_sim (CellBytes_g ffmt (print_timestamp tz) jsonp fuel d (Z.of_nat pos) typ meta uns)
          (flat (cell_bytes ffmt tz jsonp d pos typ meta uns)).
Proof. exact CellBytes_tie_numeric. Qed.
Print Assumptions C10_tie_CellBytes.

(* From the Go source to the specification.  The translated Go function itself, applied to any row buffer that holds
   the encoding of a well-formed value of a well-formed column type of this property (anything before and after it),
   returns the canonical text of the value and the number of bytes the encoding occupies: C10_tie_CellBytes (generated
   code = model, all inputs) composed with the cell theorems above (model on the encoder's output = specification text).
   The hand-written model no longer occurs in the statement: it is about the translation of /repo's CellBytes, the
   specification encoder enc_cell and the specification text only.  Premises: the buffer holds bytes, |tz| <= 86400,
   the JSON oracle is the proved printer for JSON columns (jsonp_for), fuel >= 1000. *)
From GB Require Import Spec.ColTypes Proofs.CellAll Proofs.SourceCells.
Theorem C10_source_decodes : forall ffmt tz efmt jsonp fuel ty uns v pre rest,
  In (code_of ty) [1; 2; 9; 3; 8; 13; 4; 5; 16; 247; 248; 254] -> (forall i : Z, -86400 <= tz i <= 86400) ->
  jsonp_for efmt jsonp ty -> wf_type ty = true -> wf_value ty uns v = true -> (1000 <= fuel)%nat ->
  wf_bytes (pre ++ enc_cell ty v ++ rest) -> Z.of_nat (length pre) < 2 ^ 62 ->
  CellBytes_g ffmt (print_timestamp tz) jsonp fuel (pre ++ enc_cell ty v ++ rest) (Z.of_nat (length pre)) (code_of ty) (meta_of ty) uns
    = Ok (text ffmt tz efmt ty uns v, len (enc_cell ty v)).
Proof.
  exact (fun ffmt tz efmt jsonp fuel ty uns v pre rest H =>
           CellBytes_decodes_encoded_on ffmt tz efmt jsonp _ fuel ty uns v pre rest (CellBytes_tie_numeric ffmt tz jsonp) H).
Qed.
Print Assumptions C10_source_decodes.
Example C10_source_nonvacuous :
  CellBytes_g (fun _ _ => []) (fun _ => []) (fun _ => Err EJson) 1000 [7; 0; 0; 128; 9] 1 9 0 false = Ok ([45; 56; 51; 56; 56; 54; 48; 56], 3) /\
  CellBytes_g (fun _ _ => []) (fun _ => []) (fun _ => Err EJson) 1000 [255; 255; 255; 255; 255; 255; 255; 255] 0 8 0 true
    = Ok ([49; 56; 52; 52; 54; 55; 52; 52; 48; 55; 51; 55; 48; 57; 53; 53; 49; 54; 49; 53], 8).
Proof. split; vm_compute; reflexivity. Qed.


(* ---------------------------------------------------------------------------------------------------------------
   Source pins.  The model functions used above are a hand-written reading of these Go functions (they have closures,
   channels, interfaces or maps, which the translator gotrans does not accept).  gosync regenerates their normalised
   text (logging calls and comments removed) into gen/Source.v on every run; it must equal the committed snapshot
   Spec/SourceSnapshot.v the models were written and validated against.  When one of them is edited the Example
   naming it fails, the check runs the thorough harness in search of a failing input, and reports the property as no
   longer shown to hold (with the input, or no-failing-input-found). *)
From GB Require Proofs.SourcePins Spec.SourceSnapshot.
From GBGen Require Source.
Example C10_pin_getValuesFromRow : Source.src_getValuesFromRow = SourceSnapshot.src_getValuesFromRow.
Proof. exact SourcePins.pin_getValuesFromRow. Qed.
Example C10_pin_getIdentifiesFromRow : Source.src_getIdentifiesFromRow = SourceSnapshot.src_getIdentifiesFromRow.
Proof. exact SourcePins.pin_getIdentifiesFromRow. Qed.
