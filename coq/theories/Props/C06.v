(* C06 — The reason a stream ended is always reported, never swallowed.
   Same protocol model (Model/Conn.v), all schedules.  `first_res s` is what the FIRST Error() call after
   Stream returned, `rreason s` the reader goroutine's exit reason (its local `err`), `canc_at_err s` the
   value of `s.ctx.Err() == context.Canceled` when that Error() call evaluated its filter.
   Theorems hold for every cfg with d9_wrong = false, i.e. for the pinned code AND for the planned repairs.
   Only statements closed by `exact`, non-vacuity Examples and Print Assumptions. *)
From GB Require Import Base.Prelude Model.Conn Model.ConnExplore.
From GB Require Import Proofs.ConnInv Proofs.ConnInv2 Proofs.ConnStructure Proofs.ConnProofs2.
Open Scope nat_scope.

(* stream_errs: a handler failure, a rejected event (invalid / decode / table lookup / column mismatch /
   unsupported), a connect or start failure anywhere in the schedule makes Stream return non-nil *)
Theorem C06_stream_errs : forall c tr s r, reach c tr s -> trace_has_failure tr = true ->
  stream_result s = Some r -> r = RErr.
Proof. exact stream_errs. Qed.
Print Assumptions C06_stream_errs.

(* ordering: when eventChan is closed the reader's reason has been sent on errChan and errChan is closed *)
Theorem C06_ordering : forall c s, reachable c s -> evclosed s = true ->
  exists r, rreason s = Some r /\ ec_sent s = [r] /\ ec_closed s = true.
Proof. exact ordering. Qed.
Print Assumptions C06_ordering.

(* so the parser's "channel closed => return nil" never outruns the reason *)
Theorem C06_closed_after_reason : forall c s, reachable c s -> cause s = Some CClosed ->
  exists r, rreason s = Some r /\ ec_sent s = [r] /\ ec_closed s = true.
Proof. exact closed_after_reason. Qed.
Print Assumptions C06_closed_after_reason.

(* error_reports (the form that is true): Stream nil and Error() nil  =>  the caller had cancelled by the
   time Error() evaluated its filter, or the master sent EOF *)
Theorem C06_error_reports : forall c s, d9_wrong c = false -> reachable c s ->
  stream_result s = Some RNil -> first_res s = Some ENil ->
  canc_at_err s = true \/ rreason s = Some REof.
Proof. exact error_reports. Qed.
Print Assumptions C06_error_reports.

Theorem C06_canc_at_err_sound : forall c s, reachable c s -> canc_at_err s = true -> cancelled s = true.
Proof. exact canc_at_err_sound. Qed.
Print Assumptions C06_canc_at_err_sound.

(* K2 (known finding, pinned by TestStreamer_Error): the DESIGN form with "cancelled before Stream
   returned" is false — on the pinned code and after the repairs.  Schedule: ConnectOk, StartOk,
   Arrive ERR 1236, ReaderRecv, ReaderPutErr, ReaderCloseErr, ReaderCloseEv, ParserSeeClosed, StreamDefer,
   StreamReturn, Cancel, CallError, ErrorStep: Stream nil, Error() nil, the master's error is lost *)
Theorem C06_error_reports_refuted : forall c, d9_wrong c = false -> exists ls s,
  run c init ls = Some s /\ stream_result s = Some RNil /\ first_res s = Some ENil /\
  rreason s = Some (RMaster 1236%Z) /\ canc_pre_ret s = false.
Proof. exact error_reports_refuted. Qed.
Print Assumptions C06_error_reports_refuted.

(* even "cancelled before Error() was called" is too strong: the filter reads the context after the
   receive (same schedule with CallError before Cancel) *)
Theorem C06_error_reports_call_time_refuted : forall c, d9_wrong c = false -> exists ls s,
  run c init ls = Some s /\ stream_result s = Some RNil /\ first_res s = Some ENil /\
  rreason s = Some (RMaster 1236%Z) /\ canc_pre_call s = false.
Proof. exact error_reports_call_time_refuted. Qed.
Print Assumptions C06_error_reports_call_time_refuted.

(* error_carries: Stream nil, the reader ended on a master ERR packet or a transport failure, the caller
   had not cancelled when Error() evaluated its filter  =>  Error() returns exactly that error *)
Theorem C06_error_carries : forall c s r e, d9_wrong c = false -> reachable c s ->
  stream_result s = Some RNil -> rreason s = Some r -> (r = RTransport \/ exists code, r = RMaster code) ->
  canc_at_err s = false -> first_res s = Some e -> e = EErr r.
Proof. exact error_carries. Qed.
Print Assumptions C06_error_carries.

(* the same two facts without ghost state: as long as the caller has not cancelled, a nil/nil end means EOF,
   and a master / transport error is what Error() returned *)
Theorem C06_error_reports_not_cancelled : forall c s, d9_wrong c = false -> reachable c s ->
  stream_result s = Some RNil -> first_res s = Some ENil -> cancelled s = false -> rreason s = Some REof.
Proof. exact error_reports_not_cancelled. Qed.
Print Assumptions C06_error_reports_not_cancelled.

Theorem C06_error_carries_not_cancelled : forall c s r e, d9_wrong c = false -> reachable c s ->
  stream_result s = Some RNil -> rreason s = Some r -> (r = RTransport \/ exists code, r = RMaster code) ->
  cancelled s = false -> first_res s = Some e -> e = EErr r.
Proof. exact error_carries_not_cancelled. Qed.
Print Assumptions C06_error_carries_not_cancelled.

(* the D9 repair must keep s.ctx the caller's context.  If Stream stored the derived context (cfg_trap),
   Error() would swallow every error: ... *)
Theorem C06_trap_swallows_every_error : forall c s e, fix_d9 c = true -> d9_wrong c = true -> reachable c s ->
  first_res s = Some e -> e = ENil.
Proof. exact trap_swallows_every_error. Qed.
Print Assumptions C06_trap_swallows_every_error.

(* ... in particular error_carries fails there although the caller never cancels *)
Theorem C06_error_carries_trap_refuted : exists ls s,
  run cfg_trap init ls = Some s /\ stream_result s = Some RNil /\ rreason s = Some (RMaster 1236%Z) /\
  cancelled s = false /\ first_res s = Some ENil.
Proof. exact error_carries_trap_refuted. Qed.
Print Assumptions C06_error_carries_trap_refuted.

(* non-vacuity: the same schedule on the correct repair and on the pinned code delivers the master's error *)
Example C06_nonvacuous_master_error :
  (exists s, run cfg_fixed init sched_trap = Some s /\ stream_result s = Some RNil /\
             first_res s = Some (EErr (RMaster 1236%Z))) /\
  (exists s, run cfg_pinned init sched_trap = Some s /\ stream_result s = Some RNil /\
             first_res s = Some (EErr (RMaster 1236%Z))).
Proof. split; eexists; (split; [vm_compute; reflexivity | split; reflexivity]). Qed.

(* transport failure: the master closes the socket *)
Example C06_nonvacuous_transport :
  match run cfg_fixed init
    [LConnectOk; LStartOk; LMasterClose; LReaderReadFail; LReaderPutErr; LReaderCloseErr; LReaderCloseEv;
     LParserSeeClosed; LStreamDefer; LStreamReturn; LCallError; LErrorStep] with
  | Some s => stream_result s = Some RNil /\ first_res s = Some (EErr RTransport) /\ sock s = SClosedMaster
  | None => False
  end.
Proof. vm_compute. repeat split. Qed.

(* exploration of all interleavings: ERR 1236 after three events *)
Example C06_explore_master_error :
  option_map (fun p => map code (fst p))
    (outcomes (Sc cfg_pinned [false; true; true] (TErr 1236%Z) [] KNever false false None) 5000) = Some [[0; 1; 0; 0; 0]]
  /\ option_map (fun p => map code (fst p))
    (outcomes (Sc cfg_pinned [false; true; true] (TErr 1236%Z) [] KAfterReturn false false None) 5000) = Some [[0; 0; 0; 0; 0]]
  /\ option_map (fun p => map code (fst p))
    (outcomes (Sc cfg_trap [true] (TErr 1236%Z) [] KNever false false None) 5000) = Some [[0; 0; 0; 0; 0]].
Proof. repeat split; vm_compute; reflexivity. Qed.

Definition C06_structure := error_filter_shape.
