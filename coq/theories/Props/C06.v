(* C06 — The reason a stream ended is always reported, never swallowed.
   Same protocol model (Model/Conn.v), all schedules.  `first_res s` is what the FIRST Error() call after
   Stream returned, `rreason s` the reader goroutine's exit reason (its local `err`), `canc_at_err s` the
   value of `s.ctx.Err() == context.Canceled` when that Error() call evaluated its filter.
   cfg has four flags: fix_d9, fix_d10 (repairs of D9/D10), d9_wrong (the trap variant) and fix_k2 (the repair
   of K2: Stream records in s.endedUncancelled whether its context was live when parseEvents returned, and
   Error()'s first filter case is `s.ctx.Err() == context.Canceled && !s.endedUncancelled`).
   cfg_pinned = no repair, cfg_fixed = D9+D10, cfg_fixed2 = D9+D10+K2 (the current tree), cfg_trap = the trap.
   The first group of theorems holds for every cfg with d9_wrong = false — pinned, partly and fully repaired.
   The K2 refutations need fix_k2 c = false; the strong forms (`_strong`) need fix_k2 c = true.
   `canc_pre_pe s` (ghost) = the caller cancelled before parseEvents returned, i.e. before the step at which
   Stream samples its context; C06_canc_pre_pe_sound ties it to the schedule.
   Only statements closed by `exact`, non-vacuity Examples and Print Assumptions. *)
From GB Require Import Base.Prelude Model.Conn Model.ConnExplore.
From GB Require Import Proofs.ConnInv Proofs.ConnInv2 Proofs.ConnInv3 Proofs.ConnTrace Proofs.ConnStructure Proofs.ConnProofs2.
Open Scope nat_scope.

(* stream_errs: a handler failure, a rejected event (invalid / decode / table lookup / column mismatch /
   unsupported), a connect or start failure anywhere in the schedule makes Stream return non-nil *)
Theorem C06_stream_errs : forall c tr s r, reach c tr s -> trace_has_failure tr = true ->
  stream_result s = Some r -> r = RErr.
Proof. exact stream_errs. Qed.
Print Assumptions C06_stream_errs.

(* ordering: when eventChan is closed the reader's reason has been sent on errChan and errChan is closed *)
Theorem C06_ordering : forall c s, reachable c s -> evclosed s = true ->
  exists r, rreason s = Some r /\ ec_sent s = [r] /\ ec_closed s = true.
Proof. exact ordering. Qed.
Print Assumptions C06_ordering.

(* so the parser's "channel closed => return nil" never outruns the reason *)
Theorem C06_closed_after_reason : forall c s, reachable c s -> cause s = Some CClosed ->
  exists r, rreason s = Some r /\ ec_sent s = [r] /\ ec_closed s = true.
Proof. exact closed_after_reason. Qed.
Print Assumptions C06_closed_after_reason.

(* error_reports (the form that is true): Stream nil and Error() nil  =>  the caller had cancelled by the
   time Error() evaluated its filter, or the master sent EOF *)
Theorem C06_error_reports : forall c s, d9_wrong c = false -> reachable c s ->
  stream_result s = Some RNil -> first_res s = Some ENil ->
  canc_at_err s = true \/ rreason s = Some REof.
Proof. exact error_reports. Qed.
Print Assumptions C06_error_reports.

Theorem C06_canc_at_err_sound : forall c s, reachable c s -> canc_at_err s = true -> cancelled s = true.
Proof. exact canc_at_err_sound. Qed.
Print Assumptions C06_canc_at_err_sound.

(* K2 (pinned by TestStreamer_Error before its repair): the DESIGN form with "cancelled before Stream
   returned" is false on every tree without the K2 repair — the pinned code and the one with only D9/D10
   repaired.  Schedule: ConnectOk, StartOk,
   Arrive ERR 1236, ReaderRecv, ReaderPutErr, ReaderCloseErr, ReaderCloseEv, ParserSeeClosed, StreamDefer,
   StreamReturn, Cancel, CallError, ErrorStep: Stream nil, Error() nil, the master's error is lost *)
Theorem C06_error_reports_refuted : forall c, d9_wrong c = false -> fix_k2 c = false -> exists ls s,
  run c init ls = Some s /\ stream_result s = Some RNil /\ first_res s = Some ENil /\
  rreason s = Some (RMaster 1236%Z) /\ canc_pre_ret s = false.
Proof. exact error_reports_refuted. Qed.
Print Assumptions C06_error_reports_refuted.

(* even "cancelled before Error() was called" is too strong: the filter reads the context after the
   receive (same schedule with CallError before Cancel) *)
Theorem C06_error_reports_call_time_refuted : forall c, d9_wrong c = false -> fix_k2 c = false -> exists ls s,
  run c init ls = Some s /\ stream_result s = Some RNil /\ first_res s = Some ENil /\
  rreason s = Some (RMaster 1236%Z) /\ canc_pre_call s = false.
Proof. exact error_reports_call_time_refuted. Qed.
Print Assumptions C06_error_reports_call_time_refuted.

(* error_carries: Stream nil, the reader ended on a master ERR packet or a transport failure, the caller
   had not cancelled when Error() evaluated its filter  =>  Error() returns exactly that error *)
Theorem C06_error_carries : forall c s r e, d9_wrong c = false -> reachable c s ->
  stream_result s = Some RNil -> rreason s = Some r -> (r = RTransport \/ exists code, r = RMaster code) ->
  canc_at_err s = false -> first_res s = Some e -> e = EErr r.
Proof. exact error_carries. Qed.
Print Assumptions C06_error_carries.

(* the same two facts without ghost state: as long as the caller has not cancelled, a nil/nil end means EOF,
   and a master / transport error is what Error() returned *)
Theorem C06_error_reports_not_cancelled : forall c s, d9_wrong c = false -> reachable c s ->
  stream_result s = Some RNil -> first_res s = Some ENil -> cancelled s = false -> rreason s = Some REof.
Proof. exact error_reports_not_cancelled. Qed.
Print Assumptions C06_error_reports_not_cancelled.

Theorem C06_error_carries_not_cancelled : forall c s r e, d9_wrong c = false -> reachable c s ->
  stream_result s = Some RNil -> rreason s = Some r -> (r = RTransport \/ exists code, r = RMaster code) ->
  cancelled s = false -> first_res s = Some e -> e = EErr r.
Proof. exact error_carries_not_cancelled. Qed.
Print Assumptions C06_error_carries_not_cancelled.

(* ---------- K2 repaired: fix_k2 c = true ---------- *)

(* error_reports, the strong (DESIGN) form: Stream nil and Error() nil  =>  the caller had cancelled before
   parseEvents returned (the point where Stream samples its context; a fortiori before Stream returned),
   or the master sent EOF.  No cancellation after that point can produce a nil/nil end. *)
Theorem C06_error_reports_strong : forall c s, fix_k2 c = true -> d9_wrong c = false -> reachable c s ->
  stream_result s = Some RNil -> first_res s = Some ENil ->
  canc_pre_pe s = true \/ rreason s = Some REof.
Proof. exact error_reports_strong. Qed.
Print Assumptions C06_error_reports_strong.

(* error_carries, the strong form: Stream nil, the reader ended on a master ERR packet or a transport
   failure, the caller had not cancelled before parseEvents returned  =>  Error() returns exactly that error,
   whatever cancellations happen afterwards (during the deferred close, after Stream returned, before or
   during the Error() call: s ranges over all reachable states) *)
Theorem C06_error_carries_strong : forall c s r e, fix_k2 c = true -> d9_wrong c = false -> reachable c s ->
  stream_result s = Some RNil -> rreason s = Some r -> (r = RTransport \/ exists code, r = RMaster code) ->
  canc_pre_pe s = false -> first_res s = Some e -> e = EErr r.
Proof. exact error_carries_strong. Qed.
Print Assumptions C06_error_carries_strong.

(* the ghost field is the schedule's: canc_pre_pe s holds exactly when a Cancel label occurs in the schedule
   with no StreamDefer label (parseEvents returned, context sampled, deferred close entered) before it *)
Theorem C06_canc_pre_pe_sound : forall c tr s, reach c tr s -> canc_pre_pe s = cancel_before_sample tr.
Proof. exact canc_pre_pe_sound. Qed.
Print Assumptions C06_canc_pre_pe_sound.

Theorem C06_cancel_before_sample_spec : forall tr,
  cancel_before_sample tr = true <-> exists tr1 tr2, tr = tr1 ++ LCancel :: tr2 /\ ~ In LStreamDefer tr1.
Proof. exact cancel_before_sample_spec. Qed.
Print Assumptions C06_cancel_before_sample_spec.

(* hence both strong statements without ghost state *)
Theorem C06_error_reports_strong_trace : forall c tr s, fix_k2 c = true -> d9_wrong c = false -> reach c tr s ->
  stream_result s = Some RNil -> first_res s = Some ENil ->
  cancel_before_sample tr = true \/ rreason s = Some REof.
Proof. exact error_reports_strong_trace. Qed.
Print Assumptions C06_error_reports_strong_trace.

Theorem C06_error_carries_strong_trace : forall c tr s r e, fix_k2 c = true -> d9_wrong c = false -> reach c tr s ->
  stream_result s = Some RNil -> rreason s = Some r -> (r = RTransport \/ exists code, r = RMaster code) ->
  cancel_before_sample tr = false -> first_res s = Some e -> e = EErr r.
Proof. exact error_carries_strong_trace. Qed.
Print Assumptions C06_error_carries_strong_trace.

(* the same with "before Stream returned" (canc_pre_ret, the ghost of the K2 refutations above) *)
Theorem C06_error_reports_strong_ret : forall c s, fix_k2 c = true -> d9_wrong c = false -> reachable c s ->
  stream_result s = Some RNil -> first_res s = Some ENil ->
  canc_pre_ret s = true \/ rreason s = Some REof.
Proof. exact error_reports_strong_ret. Qed.
Print Assumptions C06_error_reports_strong_ret.

Theorem C06_error_carries_strong_ret : forall c s r e, fix_k2 c = true -> d9_wrong c = false -> reachable c s ->
  stream_result s = Some RNil -> rreason s = Some r -> (r = RTransport \/ exists code, r = RMaster code) ->
  canc_pre_ret s = false -> first_res s = Some e -> e = EErr r.
Proof. exact error_carries_strong_ret. Qed.
Print Assumptions C06_error_carries_strong_ret.

Theorem C06_canc_pre_ret_sound : forall c tr s, reach c tr s -> canc_pre_ret s = true -> cancel_before_return tr = true.
Proof. exact canc_pre_ret_sound. Qed.
Print Assumptions C06_canc_pre_ret_sound.

Theorem C06_cancel_before_return_spec : forall tr,
  cancel_before_return tr = true <-> exists tr1 tr2, tr = tr1 ++ LCancel :: tr2 /\ ~ In LStreamReturn tr1.
Proof. exact cancel_before_return_spec. Qed.
Print Assumptions C06_cancel_before_return_spec.

(* s.endedUncancelled is true only after parseEvents ran and returned with no cancellation before that *)
Theorem C06_ended_uncancelled_sound : forall c tr s, reach c tr s -> ended_uncancelled s = true ->
  past_sample (ps s) = true /\ cancel_before_sample tr = false /\ s_chan s = true.
Proof. exact ended_uncancelled_sound. Qed.
Print Assumptions C06_ended_uncancelled_sound.

(* non-vacuity: the K2 schedule (ERR arrives, the stream ends, Stream returns nil, Cancel, CallError,
   ErrorStep) reports the master's error on the repaired tree and loses it without the K2 repair *)
Example C06_k2_schedule_repaired :
  (exists s, run cfg_fixed2 init sched_k2 = Some s /\ stream_result s = Some RNil /\ cancelled s = true /\
             canc_pre_ret s = false /\ first_res s = Some (EErr (RMaster 1236%Z))) /\
  (exists s, run cfg_fixed init sched_k2 = Some s /\ stream_result s = Some RNil /\ cancelled s = true /\
             canc_pre_ret s = false /\ first_res s = Some ENil).
Proof. split; eexists; (split; [vm_compute; reflexivity | repeat split]). Qed.

(* a cancellation DURING the Error() call (after the call, before the filter) does not hide it either;
   a cancellation before parseEvents returned still does (the stream then ended because of it) *)
Example C06_k2_late_schedule_repaired :
  match run cfg_fixed2 init sched_k2_late with
  | Some s => stream_result s = Some RNil /\ canc_at_err s = true /\ first_res s = Some (EErr (RMaster 1236%Z))
  | None => False
  end.
Proof. vm_compute. repeat split. Qed.
Example C06_cancel_before_sample_still_filters :
  match run cfg_fixed2 init
    [LConnectOk; LStartOk; LArrive (PkERR 1236%Z); LReaderRecv; LReaderPutErr; LReaderCloseErr; LReaderCloseEv;
     LParserSeeClosed; LCancel; LStreamDefer; LStreamReturn; LCallError; LErrorStep] with
  | Some s => stream_result s = Some RNil /\ canc_pre_pe s = true /\ ended_uncancelled s = false /\
              first_res s = Some ENil
  | None => False
  end.
Proof. vm_compute. repeat split. Qed.
(* cancelled while Stream is inside its deferred close: after the sample, before Stream returned — reported *)
Example C06_cancel_during_close_reported :
  match run cfg_fixed2 init
    [LConnectOk; LStartOk; LArrive (PkERR 1236%Z); LReaderRecv; LReaderPutErr; LReaderCloseErr; LReaderCloseEv;
     LParserSeeClosed; LStreamDefer; LCancel; LStreamReturn; LCallError; LErrorStep] with
  | Some s => stream_result s = Some RNil /\ canc_pre_pe s = false /\ canc_pre_ret s = true /\
              first_res s = Some (EErr (RMaster 1236%Z))
  | None => False
  end.
Proof. vm_compute. repeat split. Qed.

(* ---------- the trap variant ---------- *)

(* the D9 repair must keep s.ctx the caller's context.  If Stream stored the derived context (cfg_trap),
   Error() would swallow every error: ... *)
Theorem C06_trap_swallows_every_error : forall c s e, fix_d9 c = true -> d9_wrong c = true -> fix_k2 c = false ->
  reachable c s -> first_res s = Some e -> e = ENil.
Proof. exact trap_swallows_every_error. Qed.
Print Assumptions C06_trap_swallows_every_error.

(* ... in particular error_carries fails there although the caller never cancels *)
Theorem C06_error_carries_trap_refuted : exists ls s,
  run cfg_trap init ls = Some s /\ stream_result s = Some RNil /\ rreason s = Some (RMaster 1236%Z) /\
  cancelled s = false /\ first_res s = Some ENil.
Proof. exact error_carries_trap_refuted. Qed.
Print Assumptions C06_error_carries_trap_refuted.

(* non-vacuity: the same schedule on the correct repair and on the pinned code delivers the master's error *)
Example C06_nonvacuous_master_error :
  (exists s, run cfg_fixed init sched_trap = Some s /\ stream_result s = Some RNil /\
             first_res s = Some (EErr (RMaster 1236%Z))) /\
  (exists s, run cfg_pinned init sched_trap = Some s /\ stream_result s = Some RNil /\
             first_res s = Some (EErr (RMaster 1236%Z))).
Proof. split; eexists; (split; [vm_compute; reflexivity | split; reflexivity]). Qed.

(* transport failure: the master closes the socket *)
Example C06_nonvacuous_transport :
  match run cfg_fixed init
    [LConnectOk; LStartOk; LMasterClose; LReaderReadFail; LReaderPutErr; LReaderCloseErr; LReaderCloseEv;
     LParserSeeClosed; LStreamDefer; LStreamReturn; LCallError; LErrorStep] with
  | Some s => stream_result s = Some RNil /\ first_res s = Some (EErr RTransport) /\ sock s = SClosedMaster
  | None => False
  end.
Proof. vm_compute. repeat split. Qed.

(* exploration of all interleavings: ERR 1236 after three events *)
Example C06_explore_master_error :
  option_map (fun p => map code (fst p))
    (outcomes (Sc cfg_pinned [false; true; true] (TErr 1236%Z) [] KNever false false None) 5000) = Some [[0; 1; 0; 0; 0]]
  /\ option_map (fun p => map code (fst p))
    (outcomes (Sc cfg_pinned [false; true; true] (TErr 1236%Z) [] KAfterReturn false false None) 5000) = Some [[0; 0; 0; 0; 0]]
  /\ option_map (fun p => map code (fst p))
    (outcomes (Sc cfg_trap [true] (TErr 1236%Z) [] KNever false false None) 5000) = Some [[0; 0; 0; 0; 0]].
Proof. repeat split; vm_compute; reflexivity. Qed.

(* the same K2 scenario over all interleavings: lost with D9/D10 repaired only, reported with K2 repaired;
   a cancellation that may fall anywhere after the last delivery gives both ends *)
Example C06_explore_k2_repaired :
  option_map (fun p => map code (fst p))
    (outcomes (Sc cfg_fixed [false; true; true] (TErr 1236%Z) [] KAfterReturn false false None) 5000) = Some [[0; 0; 0; 0; 0]]
  /\ option_map (fun p => map code (fst p))
    (outcomes (Sc cfg_fixed2 [false; true; true] (TErr 1236%Z) [] KAfterReturn false false None) 5000) = Some [[0; 1; 0; 0; 0]]
  /\ option_map (fun p => map code (fst p))
    (outcomes (Sc cfg_fixed2 [false; true; true] (TErr 1236%Z) [] KNever false false None) 5000) = Some [[0; 1; 0; 0; 0]].
Proof. repeat split; vm_compute; reflexivity. Qed.

Definition C06_structure := (error_filter_shape, stream_samples_context_after_parseEvents).

(* ---------------------------------------------------------------------------------------------------------------
   Source pins.  The model functions used above are a hand-written reading of these Go functions (they have closures,
   channels, interfaces or maps, which the translator gotrans does not accept).  gosync regenerates their normalised
   text (logging calls and comments removed) into gen/Source.v on every run; it must equal the committed snapshot
   Spec/SourceSnapshot.v the models were written and validated against.  When one of them is edited the Example
   naming it fails, the check runs the thorough harness in search of a failing input, and reports the property as no
   longer shown to hold (with the input, or no-failing-input-found). *)
From GB Require Proofs.SourcePins Spec.SourceSnapshot.
From GBGen Require Source.
Example C06_pin_Stream : Source.src_Stream = SourceSnapshot.src_Stream.
Proof. exact SourcePins.pin_Stream. Qed.
Example C06_pin_Error : Source.src_Error = SourceSnapshot.src_Error.
Proof. exact SourcePins.pin_Error. Qed.
Example C06_pin_startDumpFromBinlogPosition : Source.src_startDumpFromBinlogPosition = SourceSnapshot.src_startDumpFromBinlogPosition.
Proof. exact SourcePins.pin_startDumpFromBinlogPosition. Qed.
Example C06_pin_readBinlogEvent : Source.src_readBinlogEvent = SourceSnapshot.src_readBinlogEvent.
Proof. exact SourcePins.pin_readBinlogEvent. Qed.
