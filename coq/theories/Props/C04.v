(* C04 — Across failures and restarts every transaction is accepted exactly once. *)
From GB Require Import Base.Prelude Model.Streamer Spec.Units Proofs.StreamProofs.
Open Scope Z_scope.

(* Whatever ends an attempt - the stream cut after any event (connection loss, EOF or ERR packet, cancellation),
   a handler refusal (any verdict function), or an event that makes the loop return an error (table-lookup
   failure, unsupported, undecodable or invalid event: `AStop c`, injected after any event) - exactly the
   transactions of the first m units were accepted and the position kept is the boundary after them. *)
Theorem C04_attempt_boundary : forall verdict us st k tail,
  boundary st -> (tail = [] \/ exists c, tail = [AStop c]) ->
  exists m st' c, arun verdict st (firstn k (events us) ++ tail) = (st', c) /\ (m <= length us)%nat /\
    acc_of (s_out st') = acc_of (s_out st) ++ fst (spec_run (s_pos st) (firstn m us)) /\
    s_pos st' = snd (spec_run (s_pos st) (firstn m us)).
Proof. exact attempt_boundary. Qed.
Print Assumptions C04_attempt_boundary.

(* any sequence of failed attempts followed by a successful one on the stored positions: every committed
   transaction accepted exactly once and in order *)
Theorem C04_exactly_once : forall q rem accs, attempts q rem accs -> concat accs = fst (spec_run q rem).
Proof. exact exactly_once. Qed.
Print Assumptions C04_exactly_once.

(* a refused transaction is recorded as a handler call but never counted as accepted *)
Theorem C04_refused_not_accepted : forall t o, acc_of ((t, false) :: o) = acc_of o.
Proof. exact acc_of_false. Qed.
Print Assumptions C04_refused_not_accepted.

Example C04_nonvacuous :
  let e := {| se_type := 4; se_table := ([100], [116]); se_query := zero_query; se_ts := 7; se_values := []; se_ids := [] |} in
  let us := [UAuto {| st_ev := e; st_next := 150; st_ts := 10 |}; UTx [{| st_ev := e; st_next := 200; st_ts := 7 |}] 230 8] in
  let r := arun (fun k => Nat.eqb k 0) (init_state {| p_file := [97]; p_off := 120 |}) (events us) in
  snd r = Some CHandler /\ p_off (s_pos (fst r)) = 150 /\ length (acc_of (s_out (fst r))) = 1%nat /\
  attempts {| p_file := [97]; p_off := 120 |} us
           [fst (spec_run {| p_file := [97]; p_off := 120 |} (firstn 1 us));
            fst (spec_run {| p_file := [97]; p_off := 150 |} (skipn 1 us))].
Proof.
  repeat split; try (vm_compute; reflexivity).
  apply (attempts_fail _ _ 1%nat); [cbn; lia|]. apply attempts_last.
Qed.

(* ---------------------------------------------------------------------------------------------------------------
   Source pins.  The model functions used above are a hand-written reading of these Go functions (they have closures,
   channels, interfaces or maps, which the translator gotrans does not accept).  gosync regenerates their normalised
   text (logging calls and comments removed) into gen/Source.v on every run; it must equal the committed snapshot
   Spec/SourceSnapshot.v the models were written and validated against.  When one of them is edited the Example
   naming it fails, the check runs the thorough harness in search of a failing input, and reports the property as no
   longer shown to hold (with the input, or no-failing-input-found). *)
From GB Require Proofs.SourcePins Spec.SourceSnapshot.
From GBGen Require Source.
Example C04_pin_parseEvents : Source.src_parseEvents = SourceSnapshot.src_parseEvents.
Proof. exact SourcePins.pin_parseEvents. Qed.
Example C04_pin_Stream : Source.src_Stream = SourceSnapshot.src_Stream.
Proof. exact SourcePins.pin_Stream. Qed.
