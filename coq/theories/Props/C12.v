(* C12 — Temporal values decode to MySQL's canonical text. *)
From GB Require Import Base.Prelude Base.Calendar Model.Cell Spec.Values.
From GB Require Import Proofs.CellCommon Proofs.CellTemporal.
Open Scope Z_scope.

Theorem C12_date : forall ffmt tz efmt jsonp nd uns y m d,
  wf_value (TDate nd) uns (VDate y m d) = true -> cell_ok ffmt tz efmt jsonp (TDate nd) uns (VDate y m d).
Proof. exact date_ok. Qed.
Print Assumptions C12_date.

(* pre-5.6.4 TIME, both signs, hours up to 838 *)
Theorem C12_time : forall ffmt tz efmt jsonp uns neg h mi s fr,
  wf_value TTime uns (VTime neg h mi s fr) = true -> cell_ok ffmt tz efmt jsonp TTime uns (VTime neg h mi s fr).
Proof. exact time_ok. Qed.
Print Assumptions C12_time.

Theorem C12_datetime : forall ffmt tz efmt jsonp uns y m d h mi s fr,
  wf_value TDateTime uns (VDateTime y m d h mi s fr) = true ->
  cell_ok ffmt tz efmt jsonp TDateTime uns (VDateTime y m d h mi s fr).
Proof. exact datetime_ok. Qed.
Print Assumptions C12_datetime.

Theorem C12_datetime2 : forall ffmt tz efmt jsonp f uns y m d h mi s fr,
  wf_type (TDateTime2 f) = true -> wf_value (TDateTime2 f) uns (VDateTime y m d h mi s fr) = true ->
  cell_ok ffmt tz efmt jsonp (TDateTime2 f) uns (VDateTime y m d h mi s fr).
Proof. exact datetime2_ok. Qed.
Print Assumptions C12_datetime2.

(* fractional TIME, 0..6 digits, both signs (borrow from the fraction for negative values) *)
Theorem C12_time2 : forall ffmt tz efmt jsonp f uns neg h mi s fr,
  wf_type (TTime2 f) = true -> wf_value (TTime2 f) uns (VTime neg h mi s fr) = true ->
  cell_ok ffmt tz efmt jsonp (TTime2 f) uns (VTime neg h mi s fr).
Proof. exact time2_ok. Qed.
Print Assumptions C12_time2.

(* TIMESTAMP: the stored instant rendered in the process's zone (tz = offset of that zone at an instant,
   at most one day in magnitude); the zero timestamp prints as 0000-00-00 00:00:00 *)
Theorem C12_timestamp : forall ffmt tz efmt jsonp, (forall v, -86400 <= tz v <= 86400) ->
  forall uns secs fr, wf_value TTimestamp uns (VTimestamp secs fr) = true ->
  cell_ok ffmt tz efmt jsonp TTimestamp uns (VTimestamp secs fr).
Proof. exact timestamp_ok. Qed.
Print Assumptions C12_timestamp.

Theorem C12_timestamp2 : forall ffmt tz efmt jsonp, (forall v, -86400 <= tz v <= 86400) ->
  forall f uns secs fr, wf_type (TTimestamp2 f) = true -> wf_value (TTimestamp2 f) uns (VTimestamp secs fr) = true ->
  cell_ok ffmt tz efmt jsonp (TTimestamp2 f) uns (VTimestamp secs fr).
Proof. exact timestamp2_ok. Qed.
Print Assumptions C12_timestamp2.

(* the calendar conversion behind the timestamp text is exact on every day reachable from a 32-bit epoch +- one day *)
Theorem C12_civil_roundtrip : forall dz, -2 <= dz <= 49713 ->
  let '(y, m, d) := civil_of_days dz in days_of_civil y m d = dz /\ valid_civil y m d = true.
Proof. exact (civil_roundtrip (fun _ _ => []) (fun _ => 0) (fun _ => []) (fun _ => Err EJson)). Qed.
Print Assumptions C12_civil_roundtrip.

Example C12_nonvacuous :
  wf_value TTime false (VTime true 838 59 59 0) = true /\
  wf_value (TTime2 3) false (VTime true 0 0 0 500) = true /\
  text (fun _ _ => []) (fun _ => 0) (fun _ => []) (TTime2 3) false (VTime true 0 0 0 500) = [45; 48; 48; 58; 48; 48; 58; 48; 48; 46; 53; 48; 48] /\
  text (fun _ _ => []) (fun _ => 3600) (fun _ => []) TTimestamp false (VTimestamp 86400 0)
    = [49; 57; 55; 48; 45; 48; 49; 45; 48; 50; 32; 48; 49; 58; 48; 48; 58; 48; 48] /\
  wf_value (TTimestamp2 6) false (VTimestamp 0 0) = true.
Proof. repeat split; vm_compute; reflexivity. Qed.
