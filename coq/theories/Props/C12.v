(* C12 — Temporal values decode to MySQL's canonical text. *)
From GB Require Import Base.Prelude Base.Calendar Model.Cell Spec.Values.
From GB Require Import Proofs.CellCommon Proofs.CellTemporal.
Open Scope Z_scope.

Theorem C12_date : forall ffmt tz efmt jsonp nd uns y m d,
  wf_value (TDate nd) uns (VDate y m d) = true -> cell_ok ffmt tz efmt jsonp (TDate nd) uns (VDate y m d).
Proof. exact date_ok. Qed.
Print Assumptions C12_date.

(* pre-5.6.4 TIME, both signs, hours up to 838 *)
Theorem C12_time : forall ffmt tz efmt jsonp uns neg h mi s fr,
  wf_value TTime uns (VTime neg h mi s fr) = true -> cell_ok ffmt tz efmt jsonp TTime uns (VTime neg h mi s fr).
Proof. exact time_ok. Qed.
Print Assumptions C12_time.

Theorem C12_datetime : forall ffmt tz efmt jsonp uns y m d h mi s fr,
  wf_value TDateTime uns (VDateTime y m d h mi s fr) = true ->
  cell_ok ffmt tz efmt jsonp TDateTime uns (VDateTime y m d h mi s fr).
Proof. exact datetime_ok. Qed.
Print Assumptions C12_datetime.

Theorem C12_datetime2 : forall ffmt tz efmt jsonp f uns y m d h mi s fr,
  wf_type (TDateTime2 f) = true -> wf_value (TDateTime2 f) uns (VDateTime y m d h mi s fr) = true ->
  cell_ok ffmt tz efmt jsonp (TDateTime2 f) uns (VDateTime y m d h mi s fr).
Proof. exact datetime2_ok. Qed.
Print Assumptions C12_datetime2.

(* fractional TIME, 0..6 digits, both signs (borrow from the fraction for negative values) *)
Theorem C12_time2 : forall ffmt tz efmt jsonp f uns neg h mi s fr,
  wf_type (TTime2 f) = true -> wf_value (TTime2 f) uns (VTime neg h mi s fr) = true ->
  cell_ok ffmt tz efmt jsonp (TTime2 f) uns (VTime neg h mi s fr).
Proof. exact time2_ok. Qed.
Print Assumptions C12_time2.

(* TIMESTAMP: the stored instant rendered in the process's zone (tz = offset of that zone at an instant,
   at most one day in magnitude); the zero timestamp prints as 0000-00-00 00:00:00 *)
Theorem C12_timestamp : forall ffmt tz efmt jsonp, (forall v, -86400 <= tz v <= 86400) ->
  forall uns secs fr, wf_value TTimestamp uns (VTimestamp secs fr) = true ->
  cell_ok ffmt tz efmt jsonp TTimestamp uns (VTimestamp secs fr).
Proof. exact timestamp_ok. Qed.
Print Assumptions C12_timestamp.

Theorem C12_timestamp2 : forall ffmt tz efmt jsonp, (forall v, -86400 <= tz v <= 86400) ->
  forall f uns secs fr, wf_type (TTimestamp2 f) = true -> wf_value (TTimestamp2 f) uns (VTimestamp secs fr) = true ->
  cell_ok ffmt tz efmt jsonp (TTimestamp2 f) uns (VTimestamp secs fr).
Proof. exact timestamp2_ok. Qed.
Print Assumptions C12_timestamp2.

(* the calendar conversion behind the timestamp text is exact on every day reachable from a 32-bit epoch +- one day *)
Theorem C12_civil_roundtrip : forall dz, -2 <= dz <= 49713 ->
  let '(y, m, d) := civil_of_days dz in days_of_civil y m d = dz /\ valid_civil y m d = true.
Proof. exact (civil_roundtrip (fun _ _ => []) (fun _ => 0) (fun _ => []) (fun _ => Err EJson)). Qed.
Print Assumptions C12_civil_roundtrip.

Example C12_nonvacuous :
  wf_value TTime false (VTime true 838 59 59 0) = true /\
  wf_value (TTime2 3) false (VTime true 0 0 0 500) = true /\
  text (fun _ _ => []) (fun _ => 0) (fun _ => []) (TTime2 3) false (VTime true 0 0 0 500) = [45; 48; 48; 58; 48; 48; 58; 48; 48; 46; 53; 48; 48] /\
  text (fun _ _ => []) (fun _ => 3600) (fun _ => []) TTimestamp false (VTimestamp 86400 0)
    = [49; 57; 55; 48; 45; 48; 49; 45; 48; 50; 32; 48; 49; 58; 48; 48; 58; 48; 48] /\
  wf_value (TTimestamp2 6) false (VTimestamp 0 0) = true.
Proof. repeat split; vm_compute; reflexivity. Qed.


(* ---------------------------------------------------------------------------------------------------------------
   Tie by proof to the Go source.  gen/TransCellBytes.v is CellBytes of /repo/replication/binlog_event_rbr.go, translated
   on every run by harness/cmd/gotrans (one definition per case of its switch and the dispatcher CellBytes_g); for the
   type codes below the translated function returns, for EVERY row data, position, metadata and signedness, the value
   text and consumed length that Model.Cell.cell_bytes returns - the model function the theorems above are about (same
   outcome class on errors and panics).  Oracles shared by both sides: ffmt (strconv.AppendFloat 'f'), print_timestamp tz
   (printTimestamp, pinned below / in C12), jsonp (printJSONData, C14).  flat forgets the difference between a nil and an
   empty result slice (the model never answers NULL: that is decided by the NULL bitmap before CellBytes is called).
   A change to one of these cases of CellBytes either keeps this provable or breaks the build before any test runs. *)
From GB Require Import Base.GoSem Proofs.TransEquivCellBytesDefs Proofs.TransEquivCellBytesTies.
From GBGen Require Import TransCellBytes.
Theorem C12_tie_CellBytes : forall ffmt tz jsonp fuel d pos typ meta uns,
  In typ [7; 10; 14; 11; 12; 17; 18; 19] -> (1000 <= fuel)%nat -> wf_bytes d -> 0 <= meta < 65536 -> Z.of_nat pos < 2 ^ 62 -> (pos <= length d)%nat ->
  res_sim (CellBytes_g ffmt (print_timestamp tz) jsonp fuel d (Z.of_nat pos) typ meta uns)
          (flat (cell_bytes ffmt tz jsonp d pos typ meta uns)).
Proof. exact CellBytes_tie_temporal. Qed.
Print Assumptions C12_tie_CellBytes.

(* From the Go source to the specification.  The translated Go function itself, applied to any row buffer that holds
   the encoding of a well-formed value of a well-formed column type of this property (anything before and after it),
   returns the canonical text of the value and the number of bytes the encoding occupies: C12_tie_CellBytes (generated
   code = model, all inputs) composed with the cell theorems above (model on the encoder's output = specification text).
   The hand-written model no longer occurs in the statement: it is about the translation of /repo's CellBytes, the
   specification encoder enc_cell and the specification text only.  Premises: the buffer holds bytes, |tz| <= 86400,
   the JSON oracle is the proved printer for JSON columns (jsonp_for), fuel >= 1000. *)
From GB Require Import Spec.ColTypes Proofs.CellAll Proofs.SourceCells.
Theorem C12_source_decodes : forall ffmt tz efmt jsonp fuel ty uns v pre rest,
  In (code_of ty) [7; 10; 14; 11; 12; 17; 18; 19] -> (forall i : Z, -86400 <= tz i <= 86400) ->
  jsonp_for efmt jsonp ty -> wf_type ty = true -> wf_value ty uns v = true -> (1000 <= fuel)%nat ->
  wf_bytes (pre ++ enc_cell ty v ++ rest) -> Z.of_nat (length pre) < 2 ^ 62 ->
  CellBytes_g ffmt (print_timestamp tz) jsonp fuel (pre ++ enc_cell ty v ++ rest) (Z.of_nat (length pre)) (code_of ty) (meta_of ty) uns
    = Ok (text ffmt tz efmt ty uns v, len (enc_cell ty v)).
Proof.
  exact (fun ffmt tz efmt jsonp fuel ty uns v pre rest H =>
           CellBytes_decodes_encoded_on ffmt tz efmt jsonp _ fuel ty uns v pre rest (CellBytes_tie_temporal ffmt tz jsonp) H).
Qed.
Print Assumptions C12_source_decodes.
Example C12_source_nonvacuous :
  CellBytes_g (fun _ _ => []) (fun _ => []) (fun _ => Err EJson) 1000 (enc_cell (TTime2 3) (VTime true 1 2 3 500)) 0 19 3 false
    = Ok ([45; 48; 49; 58; 48; 50; 58; 48; 51; 46; 53; 48; 48], 5).
Proof. vm_compute. reflexivity. Qed.


(* printTimestamp (time.Unix(v,0).Local() formatted) is the oracle ext_printTimestamp of the translated CellBytes, modelled
   by Model.Cell.print_timestamp tz (tz = the zone offset oracle): a hand-written reading, tied to the code by the
   differential harness under 8 time zones and pinned to the text the model was validated against. *)
From GB Require Proofs.SourcePins Spec.SourceSnapshot.
From GBGen Require Source.
Example C12_pin_printTimestamp : Source.src_printTimestamp = SourceSnapshot.src_printTimestamp.
Proof. exact SourcePins.pin_printTimestamp. Qed.
