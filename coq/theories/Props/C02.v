(* C02 — Transaction boundaries: delivery only at commit, atomically, never twice.
   Theorems about the state-machine half (astep) of the streamer model, over ALL sequences of units
   (Spec/Units.v: tx closed by XID/COMMIT, rolled-back tx, statement outside a tx, rotation), with quiet events
   (format descriptions, table maps, GTID / previous-GTIDs / heartbeat / unknown events, unknown statements)
   interleaved anywhere.  `events us` is the decoded event sequence of the units, `spec_run p us` the
   transactions that must be delivered from position p (an independent fold). *)
From GB Require Import Base.Prelude Model.Streamer Spec.Units Proofs.StreamProofs Proofs.StreamProofs2.
From GBGen Require Import Consts.
Open Scope Z_scope.

(* one transaction per committing unit, in order, with exactly its changes; a rolled-back unit delivers an empty
   transaction (events = nil) that only advances the position *)
Theorem C02_grouping : forall verdict, (forall k, verdict k = true) -> forall us st,
  boundary st ->
  exists st', arun verdict st (events us) = (st', None) /\ boundary st' /\
              s_pos st' = snd (spec_run (s_pos st) us) /\
              s_out st' = rev (map (fun t => (t, true)) (fst (spec_run (s_pos st) us))) ++ s_out st.
Proof. exact grouping. Qed.
Print Assumptions C02_grouping.

(* cut the stream after ANY event: what has been delivered is exactly the transactions of the units wholly
   read - nothing before its commit event, nothing twice, nothing moved across a commit *)
Theorem C02_only_at_commit : forall verdict, (forall k, verdict k = true) -> forall us st k,
  boundary st ->
  exists st', arun verdict st (firstn k (events us)) = (st', None) /\
              s_out st' = rev (map (fun t => (t, true)) (fst (spec_run (s_pos st) (units_within k us)))) ++ s_out st.
Proof. exact only_at_commit. Qed.
Print Assumptions C02_only_at_commit.

(* quiet events never alter positions, buffered changes, handler calls or deliveries, wherever they are inserted *)
Theorem C02_ignorables_invisible : forall verdict l st st',
  view st = view st' ->
  view (fst (arun verdict st l)) = view (fst (arun verdict st' (filter (fun a => negb (quiet a)) l))) /\
  snd (arun verdict st l) = snd (arun verdict st' (filter (fun a => negb (quiet a)) l)).
Proof. exact ignorables_invisible. Qed.
Print Assumptions C02_ignorables_invisible.

(* boundary statements are recognised whatever their letter case, with or without a tail *)
Theorem C02_casing : forall w code s tail,
  In (w, code) statementPrefixes -> map lower s = w -> (forall c, In c s -> c <> 32) ->
  category (s ++ 32 :: tail) = code /\ category s = code.
Proof. exact casing. Qed.
Print Assumptions C02_casing.

Example C02_nonvacuous :
  let e := {| se_type := 4; se_table := ([100], [116]); se_query := zero_query; se_ts := 7; se_values := []; se_ids := [] |} in
  let us := [UTx [{| st_ev := e; st_next := 200; st_ts := 7 |}] 230 8; URolled [] 300 9; URotate [98] 4; UAuto {| st_ev := e; st_next := 150; st_ts := 10 |}] in
  length (fst (spec_run {| p_file := [97]; p_off := 120 |} us)) = 3%nat /\
  map (fun t => p_off (t_now t)) (fst (spec_run {| p_file := [97]; p_off := 120 |} us)) = [120; 230; 4] /\
  length (units_within 4 us) = 1%nat /\
  category [66; 101; 71; 105; 78] = 1 /\ category [114; 111; 108; 108; 66; 65; 67; 75; 32; 116; 111] = 3.
Proof. repeat split; vm_compute; reflexivity. Qed.

(* ---------------------------------------------------------------------------------------------------------------
   Tie to the source of the event classifiers.  parseEvents picks the branch of an event with IsXID, IsRotate,
   IsQuery, IsTableMap, Is{Write,Update,Delete}Rows, IsFormatDescription ...; Model.Streamer.decode compares the type
   byte with the same constants.  The theorem below is about the Gallina text gotrans generates from those Go methods
   on every run (gen/TransHeader.v): each of them is the comparison of the type byte with exactly its constant(s) -
   so an event of any other type (XA prepare, a GTID, an unknown code) takes none of the committing branches. *)
From GB Require Base.GoSem Model.Header Proofs.TransEquivHeader.
From GBGen Require TransHeader.
Theorem C02_tie_classifiers : forall ev,
  GoSem.res_sim (TransHeader.binlogEvent_IsXID_g ev) (Header.is_type K_eXIDEvent ev) /\
  GoSem.res_sim (TransHeader.binlogEvent_IsQuery_g ev) (Header.is_type K_eQueryEvent ev) /\
  GoSem.res_sim (TransHeader.binlogEvent_IsRotate_g ev) (Header.is_type K_eRotateEvent ev) /\
  GoSem.res_sim (TransHeader.binlogEvent_IsFormatDescription_g ev) (Header.is_type K_eFormatDescriptionEvent ev) /\
  GoSem.res_sim (TransHeader.binlogEvent_IsTableMap_g ev) (Header.is_type K_eTableMapEvent ev) /\
  GoSem.res_sim (TransHeader.binlogEvent_IsWriteRows_g ev)
    (TransEquivHeader.is_type2 K_eWriteRowsEventV1 K_eWriteRowsEventV2 ev) /\
  GoSem.res_sim (TransHeader.binlogEvent_IsUpdateRows_g ev)
    (TransEquivHeader.is_type2 K_eUpdateRowsEventV1 K_eUpdateRowsEventV2 ev) /\
  GoSem.res_sim (TransHeader.binlogEvent_IsDeleteRows_g ev)
    (TransEquivHeader.is_type2 K_eDeleteRowsEventV1 K_eDeleteRowsEventV2 ev).
Proof.
  intro ev. repeat split.
  - exact (TransEquivHeader.binlogEvent_IsXID_equiv ev).
  - exact (TransEquivHeader.binlogEvent_IsQuery_equiv ev).
  - exact (TransEquivHeader.binlogEvent_IsRotate_equiv ev).
  - exact (TransEquivHeader.binlogEvent_IsFormatDescription_equiv ev).
  - exact (TransEquivHeader.binlogEvent_IsTableMap_equiv ev).
  - exact (TransEquivHeader.binlogEvent_IsWriteRows_equiv ev).
  - exact (TransEquivHeader.binlogEvent_IsUpdateRows_equiv ev).
  - exact (TransEquivHeader.binlogEvent_IsDeleteRows_equiv ev).
Qed.
Print Assumptions C02_tie_classifiers.

(* ---------------------------------------------------------------------------------------------------------------
   Source pins.  The model functions used above are a hand-written reading of these Go functions (they have closures,
   channels, interfaces or maps, which the translator gotrans does not accept).  gosync regenerates their normalised
   text (logging calls and comments removed) into gen/Source.v on every run; it must equal the committed snapshot
   Spec/SourceSnapshot.v the models were written and validated against.  When one of them is edited the Example
   naming it fails, the check runs the thorough harness in search of a failing input, and reports the property as no
   longer shown to hold (with the input, or no-failing-input-found). *)
From GB Require Proofs.SourcePins Spec.SourceSnapshot.
From GBGen Require Source.
Example C02_pin_parseEvents : Source.src_parseEvents = SourceSnapshot.src_parseEvents.
Proof. exact SourcePins.pin_parseEvents. Qed.
Example C02_pin_GetStatementCategory : Source.src_GetStatementCategory = SourceSnapshot.src_GetStatementCategory.
Proof. exact SourcePins.pin_GetStatementCategory. Qed.
