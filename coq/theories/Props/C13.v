(* C13 — String and binary values are verbatim; NULL, empty and absent differ.
   Cell level (this file): the value bytes are delivered exactly, for every
   declared maximum length (prefix width) and every actual length including 0.
   The three-way NULL / empty / absent distinction at row-image level is
   C13_three_way (Proofs/RowProofs.v) once the row model is in scope (now: Props/C09.v, C09_three_way). *)
From Coq Require Import String.
From GB Require Import Base.Prelude Model.Cell Spec.Values.
From GB Require Import Proofs.CellCommon Proofs.CellSimple.
From GB Require Import Model.Header Model.Events Model.Rbr Model.Streamer Spec.EncHeader Spec.EncEvent Spec.Expect.
From GB Require Import Proofs.ImageProofs Proofs.RowsProofs.
Open Scope Z_scope.

Theorem C13_varchar : forall ffmt tz efmt jsonp max vs uns s,
  wf_type (TVarchar max vs) = true -> wf_value (TVarchar max vs) uns (VBytes s) = true ->
  cell_ok ffmt tz efmt jsonp (TVarchar max vs) uns (VBytes s).
Proof. exact varchar_ok. Qed.
Print Assumptions C13_varchar.

Theorem C13_char : forall ffmt tz efmt jsonp max uns s,
  wf_type (TChar max) = true -> wf_value (TChar max) uns (VBytes s) = true ->
  cell_ok ffmt tz efmt jsonp (TChar max) uns (VBytes s).
Proof. exact char_ok. Qed.
Print Assumptions C13_char.

(* MySQL's packing of (real type, length) for CHAR/BINARY decodes back to the declared length, never to ENUM/SET *)
Theorem C13_char_metadata : forall max, 0 <= max <= 1023 ->
  string_max (char_meta max) = max /\ shr (char_meta max) 8 <> 247 /\ shr (char_meta max) 8 <> 248.
Proof. exact (char_meta_ok (fun _ _ => []) (fun _ => 0) (fun _ => []) (fun _ => Err EJson)). Qed.
Print Assumptions C13_char_metadata.

Theorem C13_blob : forall ffmt tz efmt jsonp lb code uns s,
  wf_type (TBlob lb code) = true -> wf_value (TBlob lb code) uns (VBytes s) = true ->
  cell_ok ffmt tz efmt jsonp (TBlob lb code) uns (VBytes s).
Proof. exact blob_ok. Qed.
Print Assumptions C13_blob.

Theorem C13_geometry : forall ffmt tz efmt jsonp lb uns s,
  wf_type (TGeometry lb) = true -> wf_value (TGeometry lb) uns (VBytes s) = true ->
  cell_ok ffmt tz efmt jsonp (TGeometry lb) uns (VBytes s).
Proof. exact geometry_ok. Qed.
Print Assumptions C13_geometry.

(* the empty value is delivered as present-but-empty data, never as "no data" *)
Example C13_empty_is_not_null :
  text (fun _ _ => []) (fun _ => 0) (fun _ => []) (TVarchar 300 false) false (VBytes []) = [] /\
  cell_bytes (fun _ _ => []) (fun _ => 0) (fun _ => Err EJson) [0; 0] 0 15 300 false = Ok (Some [], 2) /\
  wf_type (TChar 1023) = true /\ wf_value (TChar 1023) false (VBytes [0; 39; 255]) = true.
Proof. repeat split; vm_compute; reflexivity. Qed.

(* ---- row level, with the padding bits of the bitmaps set: a write event with partial images (binlog_row_image =
        MINIMAL) on an 11-column table of string / binary columns; 7 columns are present, so neither the presence
        bitmap (11 bits) nor the rows' NULL bitmaps (7 bits) fill their last byte.  The event is decoded from its
        bytes by the model (checksum strip, Rows, then every image column by column).  Whatever the master left
        in the unused bits (0, all ones as MySQL's pack_row does, or a mixed pattern), NULL, the empty value and an
        absent column stay three different things and every value is delivered verbatim. ---- *)
Definition p_cfg (pc pn : Z) : cfg :=
  {| c_crc := true; c_v2 := false; c_tid4 := true; c_hlen := 19; c_nsizes := 35; c_pad_cols := pc; c_pad_null := pn; c_pad_tm := pn |}.
Definition p_specs : list colspec :=
  [(str "a", (TVarchar 300 false, false)); (str "b", (TVarchar 20 false, false)); (str "c", (TChar 10, false));
   (str "d", (TBlob 2 252, false)); (str "e", (TBlob 1 249, false)); (str "f", (TGeometry 4, false));
   (str "g", (TVarchar 1000 true, false)); (str "h", (TChar 255, false)); (str "i", (TBlob 3 250, false));
   (str "j", (TBlob 4 251, false)); (str "k", (TVarchar 5 false, false))]%string.
Definition p_cols : list (coltype * bool) := specs_cols p_specs.
Definition p_row1 : list cellv :=
  [CVal (VBytes (str "hi")); CVal (VBytes []); CNull; CAbsent; CVal (VBytes []); CNull; CAbsent;
   CVal (VBytes (str "x")); CAbsent; CVal (VBytes [0; 255; 39]); CAbsent]%string.
Definition p_row2 : list cellv :=
  [CNull; CVal (VBytes (str "abc")); CVal (VBytes []); CAbsent; CNull; CVal (VBytes [1]); CAbsent;
   CNull; CAbsent; CVal (VBytes []); CAbsent]%string.
Definition p_rows : rows_def :=
  {| rd_kind := 0; rd_id := 9; rd_flags := 1; rd_extra := []; rd_before := []; rd_after := [p_row1; p_row2] |}.
Definition p_t : table_def :=
  {| td_id := 9; td_flags := 1; td_db := str "d"; td_name := str "t";
     td_cols := map (fun p => (fst p, true)) p_cols; td_optional := [] |}%string.
Definition p_ti : tinfo := {| ti_name := (str "d", str "t"); ti_cols := map (fun s => (cs_name s, cs_uns s)) p_specs |}%string.
Definition p_hdr (t : Z) : hdr := {| h_ts := 1600000000; h_type := t; h_sid := 1; h_next := 4096; h_flags := 0 |}.
Definition p_ffmt (b x : Z) : bytes := [].
Definition p_tz (x : Z) : Z := 0.
Definition p_jsonp (b : bytes) : res bytes := Err EJson.
Definition p_wire (c : cfg) : bytes := enc_ev c (p_hdr (rows_type c 0)) (enc_rows_body c (map fst p_cols) p_rows) [9; 9; 9; 9].
(* what the consumer gets: per row, per column (absent flag, data) *)
Definition p_delivered (c : cfg) : res (option (list (list (bool * option bytes)))) :=
  do ev <- strip_checksum56 (expect_format c []) (p_wire c);
  do rs <- ev_rows (expect_format c []) (expect_table_map (c_pad_tm c) p_t) ev;
  do o <- rows_images p_ffmt p_tz p_jsonp (expect_table_map (c_pad_tm c) p_t) p_ti rs false true (rs_rows rs) [] [];
  Ok (option_map (fun iv => map (map (fun col => (c_empty col, c_data col))) (snd iv)) o).
Definition p_expected : list (list (bool * option bytes)) :=
  [[(false, Some (str "hi")); (false, Some []); (false, None); (true, None); (false, Some []); (false, None); (true, None);
    (false, Some (str "x")); (true, None); (false, Some [0; 255; 39]); (true, None)];
   [(false, None); (false, Some (str "abc")); (false, Some []); (true, None); (false, None); (false, Some [1]); (true, None);
    (false, None); (true, None); (false, Some []); (true, None)]]%string.

Example C13_three_way_with_padding :
  length p_cols = 11%nat /\ length (null_bits p_row1) = 7%nat /\
  forallb (fun p => wf_cfg (p_cfg (fst p) (snd p))) [(0, 0); (255, 255); (0, 255); (172, 83)] = true /\
  forallb (wf_image p_cols (first_present (rd_after p_rows) 11)) (rd_after p_rows) = true /\
  (* the padding is on the wire (presence bitmap: bits 3..7 of the second byte; NULL bitmaps: bit 7) *)
  pack_bits_pad 0 (present_bits p_row1) = [183; 2] /\ pack_bits_pad 255 (present_bits p_row1) = [183; 250] /\
  pack_bits_pad 0 (null_bits p_row1) = [20] /\ pack_bits_pad 255 (null_bits p_row1) = [148] /\
  pack_bits_pad 255 (null_bits p_row2) = [169] /\
  p_wire (p_cfg 255 255) <> p_wire (p_cfg 0 0) /\ length (p_wire (p_cfg 255 255)) = length (p_wire (p_cfg 0 0)) /\
  (* and changes nothing in what is delivered *)
  p_delivered (p_cfg 0 0) = Ok (Some p_expected) /\
  p_delivered (p_cfg 255 255) = Ok (Some p_expected) /\
  p_delivered (p_cfg 0 255) = Ok (Some p_expected) /\
  p_delivered (p_cfg 172 83) = Ok (Some p_expected) /\
  (* which is what the specification says each cell must be *)
  map (fun img => map (fun col => (c_empty col, c_data col)) (expect_columns p_ffmt p_tz (fun _ => []) p_specs img)) [p_row1; p_row2] = p_expected.
Proof.
  repeat match goal with |- _ /\ _ => split end;
    try (vm_compute; reflexivity); try (vm_compute; discriminate).
Qed.

(* ---------------------------------------------------------------------------------------------------------------
   Tie to the source.  The functions *_g below are generated from /repo on every run by harness/cmd/gotrans
   (gen/Trans*.v); the theorems say that, for ALL inputs, they compute what the hand-written model functions used in
   the statements above compute (res_sim: the same value, or both an error, or both a panic), under the premises Go's
   types provide.  A change to one of these Go functions that alters its behaviour makes the proof below fail. *)
From GB Require Import Model.Header Model.Events Model.Rbr Model.Cell Base.GoSem Proofs.TransTactics Proofs.TransEquivCell Proofs.TransEquivMeta Proofs.TransEquivBitmap Proofs.TransEquivHeader Proofs.TransEquivEvents Proofs.TransEquivRbr.
From GBGen Require Import TransCell TransMeta TransBitmap TransHeader TransEvents TransRbr.
Open Scope Z_scope.

Theorem C13_tie_cellLength : forall d pos typ meta,
  wf_bytes d -> 0 <= typ < 256 -> 0 <= meta < 65536 -> Z.of_nat pos < 2 ^ 62 ->
  res_sim (cellLength_g d (Z.of_nat pos) typ meta) (cell_length d pos typ meta).
Proof. exact cellLength_equiv. Qed.
Print Assumptions C13_tie_cellLength.


(* ---------------------------------------------------------------------------------------------------------------
   Tie by proof to the Go source.  gen/TransCellBytes.v is CellBytes of /repo/replication/binlog_event_rbr.go, translated
   on every run by harness/cmd/gotrans (one definition per case of its switch and the dispatcher CellBytes_g); for the
   type codes below the translated function returns, for EVERY row data, position, metadata and signedness, the value
   text and consumed length that Model.Cell.cell_bytes returns - the model function the theorems above are about (same
   outcome class on errors and panics).  Oracles shared by both sides: ffmt (strconv.AppendFloat 'f'), print_timestamp tz
   (printTimestamp, pinned below / in C12), jsonp (printJSONData, C14).  flat forgets the difference between a nil and an
   empty result slice (the model never answers NULL: that is decided by the NULL bitmap before CellBytes is called).
   A change to one of these cases of CellBytes either keeps this provable or breaks the build before any test runs. *)
From GB Require Import Base.GoSem Proofs.TransEquivCellBytesDefs Proofs.TransEquivCellBytesTies.
From GBGen Require Import TransCellBytes.
Theorem C13_tie_CellBytes : forall ffmt tz jsonp fuel d pos typ meta uns,
  In typ [15; 253; 254; 245; 249; 250; 251; 252; 255] -> (1000 <= fuel)%nat -> wf_bytes d -> 0 <= meta < 65536 -> Z.of_nat pos < 2 ^ 62 -> (pos <= length d)%nat ->
  res_sim (CellBytes_g ffmt (print_timestamp tz) jsonp fuel d (Z.of_nat pos) typ meta uns)
          (flat (cell_bytes ffmt tz jsonp d pos typ meta uns)).
Proof. exact CellBytes_tie_strings. Qed.
Print Assumptions C13_tie_CellBytes.

(* From the Go source to the specification.  The translated Go function itself, applied to any row buffer that holds
   the encoding of a well-formed value of a well-formed column type of this property (anything before and after it),
   returns the canonical text of the value and the number of bytes the encoding occupies: C13_tie_CellBytes (generated
   code = model, all inputs) composed with the cell theorems above (model on the encoder's output = specification text).
   The hand-written model no longer occurs in the statement: it is about the translation of /repo's CellBytes, the
   specification encoder enc_cell and the specification text only.  Premises: the buffer holds bytes, |tz| <= 86400,
   the JSON oracle is the proved printer for JSON columns (jsonp_for), fuel >= 1000. *)
From GB Require Import Spec.ColTypes Proofs.CellAll Proofs.SourceCells.
Theorem C13_source_decodes : forall ffmt tz efmt jsonp fuel ty uns v pre rest,
  In (code_of ty) [15; 253; 254; 245; 249; 250; 251; 252; 255] -> (forall i : Z, -86400 <= tz i <= 86400) ->
  jsonp_for efmt jsonp ty -> wf_type ty = true -> wf_value ty uns v = true -> (1000 <= fuel)%nat ->
  wf_bytes (pre ++ enc_cell ty v ++ rest) -> Z.of_nat (length pre) < 2 ^ 62 ->
  CellBytes_g ffmt (print_timestamp tz) jsonp fuel (pre ++ enc_cell ty v ++ rest) (Z.of_nat (length pre)) (code_of ty) (meta_of ty) uns
    = Ok (text ffmt tz efmt ty uns v, len (enc_cell ty v)).
Proof.
  exact (fun ffmt tz efmt jsonp fuel ty uns v pre rest H =>
           CellBytes_decodes_encoded_on ffmt tz efmt jsonp _ fuel ty uns v pre rest (CellBytes_tie_strings ffmt tz jsonp) H).
Qed.
Print Assumptions C13_source_decodes.
Example C13_source_nonvacuous :
  CellBytes_g (fun _ _ => []) (fun _ => []) (fun _ => Err EJson) 1000 [9; 0; 9; 2; 104; 105; 7] 3 15 20 false = Ok ([104; 105], 3) /\
  CellBytes_g (fun _ _ => []) (fun _ => []) (fun _ => Err EJson) 1000 [0; 7] 0 15 20 false = Ok ([], 1).
Proof. split; vm_compute; reflexivity. Qed.


(* ---------------------------------------------------------------------------------------------------------------
   Source pins.  The model functions used above are a hand-written reading of these Go functions (they have closures,
   channels, interfaces or maps, which the translator gotrans does not accept).  gosync regenerates their normalised
   text (logging calls and comments removed) into gen/Source.v on every run; it must equal the committed snapshot
   Spec/SourceSnapshot.v the models were written and validated against.  When one of them is edited the Example
   naming it fails, the check runs the thorough harness in search of a failing input, and reports the property as no
   longer shown to hold (with the input, or no-failing-input-found). *)
From GB Require Proofs.SourcePins Spec.SourceSnapshot.
From GBGen Require Source.
Example C13_pin_getValuesFromRow : Source.src_getValuesFromRow = SourceSnapshot.src_getValuesFromRow.
Proof. exact SourcePins.pin_getValuesFromRow. Qed.
Example C13_pin_getIdentifiesFromRow : Source.src_getIdentifiesFromRow = SourceSnapshot.src_getIdentifiesFromRow.
Proof. exact SourcePins.pin_getIdentifiesFromRow. Qed.
