(* C13 — String and binary values are verbatim; NULL, empty and absent differ.
   Cell level (this file): the value bytes are delivered exactly, for every
   declared maximum length (prefix width) and every actual length including 0.
   The three-way NULL / empty / absent distinction at row-image level is
   C13_three_way (Proofs/RowProofs.v) once the row model is in scope (now: Props/C09.v, C09_three_way). *)
From GB Require Import Base.Prelude Model.Cell Spec.Values.
From GB Require Import Proofs.CellCommon Proofs.CellSimple.
Open Scope Z_scope.

Theorem C13_varchar : forall ffmt tz jsonp max vs uns s,
  wf_type (TVarchar max vs) = true -> wf_value (TVarchar max vs) uns (VBytes s) = true ->
  cell_ok ffmt tz jsonp (TVarchar max vs) uns (VBytes s).
Proof. exact varchar_ok. Qed.
Print Assumptions C13_varchar.

Theorem C13_char : forall ffmt tz jsonp max uns s,
  wf_type (TChar max) = true -> wf_value (TChar max) uns (VBytes s) = true ->
  cell_ok ffmt tz jsonp (TChar max) uns (VBytes s).
Proof. exact char_ok. Qed.
Print Assumptions C13_char.

(* MySQL's packing of (real type, length) for CHAR/BINARY decodes back to the declared length, never to ENUM/SET *)
Theorem C13_char_metadata : forall max, 0 <= max <= 1023 ->
  string_max (char_meta max) = max /\ shr (char_meta max) 8 <> 247 /\ shr (char_meta max) 8 <> 248.
Proof. exact (char_meta_ok (fun _ _ => []) (fun _ => 0) (fun _ => Err EJson)). Qed.
Print Assumptions C13_char_metadata.

Theorem C13_blob : forall ffmt tz jsonp lb code uns s,
  wf_type (TBlob lb code) = true -> wf_value (TBlob lb code) uns (VBytes s) = true ->
  cell_ok ffmt tz jsonp (TBlob lb code) uns (VBytes s).
Proof. exact blob_ok. Qed.
Print Assumptions C13_blob.

Theorem C13_geometry : forall ffmt tz jsonp lb uns s,
  wf_type (TGeometry lb) = true -> wf_value (TGeometry lb) uns (VBytes s) = true ->
  cell_ok ffmt tz jsonp (TGeometry lb) uns (VBytes s).
Proof. exact geometry_ok. Qed.
Print Assumptions C13_geometry.

(* the empty value is delivered as present-but-empty data, never as "no data" *)
Example C13_empty_is_not_null :
  text (fun _ _ => []) (fun _ => 0) (TVarchar 300 false) false (VBytes []) = [] /\
  cell_bytes (fun _ _ => []) (fun _ => 0) (fun _ => Err EJson) [0; 0] 0 15 300 false = Ok (Some [], 2) /\
  wf_type (TChar 1023) = true /\ wf_value (TChar 1023) false (VBytes [0; 39; 255]) = true.
Proof. repeat split; vm_compute; reflexivity. Qed.
