(* C18 — MySQL 5.6 GTID sets behave as mathematical sets of (server UUID, sequence number) pairs.
   Only statements closed by `exact`, Print Assumptions and non-vacuity Examples.
   Model: Model/Gtid.v (mirror of replication/mysql56_gtid_set.go).  Specification: Spec/GtidSpec.v
   (`den` = the set of pairs a set stands for, `canon` = the canonical form MySQL emits).
   "Never alters the set it was added to" holds by construction in the functional model; on the Go
   side it is the purity observation of the harness (String() of every input re-read after every call). *)
From GB Require Import Base.Prelude Model.Gtid Spec.GtidSpec.
From GB Require Import Proofs.GtidBase Proofs.GtidSetProofs Proofs.GtidAddProofs.
Open Scope Z_scope.

(* membership test = membership in the denotation *)
Theorem C18_contains_gtid : forall (s : gset) (g : g56),
  canon s -> (contains_gtid s g = true <-> den s (g_sid g) (g_seq g)).
Proof. exact contains_gtid_spec. Qed.
Print Assumptions C18_contains_gtid.

(* superset test = inclusion of the denotations *)
Theorem C18_contains : forall (s t : gset),
  canon s -> canon t -> (contains s t = true <-> forall u n, den t u n -> den s u n).
Proof. exact contains_spec. Qed.
Print Assumptions C18_contains.

(* equality test = equality of the denotations *)
Theorem C18_equal : forall (s t : gset),
  canon s -> canon t -> (equal s t = true <-> forall u n, den s u n <-> den t u n).
Proof. exact equal_spec. Qed.
Print Assumptions C18_equal.

(* the canonical form is unique: two canonical sets with the same members are the same value *)
Theorem C18_canonical_unique : forall (s t : gset),
  canon s -> canon t -> (forall u n, den s u n <-> den t u n) -> s = t.
Proof. exact canon_unique. Qed.
Print Assumptions C18_canonical_unique.

(* AddGTID: the result is canonical and denotes exactly the union with the GTID;
   every 16-byte server id, every sequence number 1 .. 2^63-1 (int64 wrap of end+1 included) *)
Theorem C18_add : forall (s : gset) (g : g56),
  canon s -> valid_gtid (g_sid g) (g_seq g) ->
  canon (add_gtid s g) /\
  forall u n, den (add_gtid s g) u n <-> den s u n \/ (u = g_sid g /\ n = g_seq g).
Proof. exact add_spec. Qed.
Print Assumptions C18_add.

(* histories: any sequence of additions to a canonical set stays canonical and denotes the union *)
Theorem C18_add_many : forall (gs : list g56) (s : gset),
  canon s -> Forall (fun g => valid_gtid (g_sid g) (g_seq g)) gs ->
  canon (fold_left add_gtid gs s) /\
  forall u n, den (fold_left add_gtid gs s) u n <->
              den s u n \/ exists g, In g gs /\ u = g_sid g /\ n = g_seq g.
Proof. exact add_many_spec. Qed.
Print Assumptions C18_add_many.

(* closure: every set derived from canonical ones by the set-producing operation is canonical,
   so the four theorems above apply to it *)
Theorem C18_closure : forall s, derived s -> canon s.
Proof. exact derived_canon. Qed.
Print Assumptions C18_closure.

(* the set of a single GTID (Mysql56GTID.GTIDSet) *)
Theorem C18_singleton : forall g, valid_gtid (g_sid g) (g_seq g) ->
  canon (g56_set g) /\ forall u n, den (g56_set g) u n <-> (u = g_sid g /\ n = g_seq g).
Proof. exact g56_set_spec. Qed.
Print Assumptions C18_singleton.

(* the executable predicates used by the harness decide the specification predicates *)
Theorem C18_canonb_reflects : forall s, canonb s = true <-> canon s.
Proof. exact canonb_ok. Qed.
Print Assumptions C18_canonb_reflects.

Theorem C18_denb_reflects : forall s u n, denb s u n = true <-> den s u n.
Proof. exact denb_ok. Qed.
Print Assumptions C18_denb_reflects.

(* ---- non-vacuity: a 4-UUID canonical set, additions of every kind, the top of the range ---- *)
Definition ex_u (b : Z) : sid := [b; 1; 2; 3; 4; 5; 6; 7; 8; 9; 10; 11; 12; 13; 14; 15].
Definition ex_set : gset :=
  [(ex_u 0, [(1, 5); (7, 9); (20, 20)]); (ex_u 1, [(3, 3)]); (ex_u 128, [(1, 2 ^ 63 - 2)]); (ex_u 255, [(2 ^ 63 - 1, 2 ^ 63 - 1)])].

Example C18_nonvacuous_canon : canonb ex_set = true.
Proof. vm_compute. reflexivity. Qed.

Example C18_nonvacuous_add :
  (* bridge 1-5 and 7-9; extend to 2^63-1; new UUID in the middle; new interval between *)
  add_gtid ex_set {| g_sid := ex_u 0; g_seq := 6 |}
    = [(ex_u 0, [(1, 9); (20, 20)]); (ex_u 1, [(3, 3)]); (ex_u 128, [(1, 2 ^ 63 - 2)]); (ex_u 255, [(2 ^ 63 - 1, 2 ^ 63 - 1)])] /\
  add_gtid ex_set {| g_sid := ex_u 128; g_seq := 2 ^ 63 - 1 |}
    = [(ex_u 0, [(1, 5); (7, 9); (20, 20)]); (ex_u 1, [(3, 3)]); (ex_u 128, [(1, 2 ^ 63 - 1)]); (ex_u 255, [(2 ^ 63 - 1, 2 ^ 63 - 1)])] /\
  add_gtid ex_set {| g_sid := ex_u 7; g_seq := 4 |}
    = [(ex_u 0, [(1, 5); (7, 9); (20, 20)]); (ex_u 1, [(3, 3)]); (ex_u 7, [(4, 4)]); (ex_u 128, [(1, 2 ^ 63 - 2)]); (ex_u 255, [(2 ^ 63 - 1, 2 ^ 63 - 1)])] /\
  add_gtid ex_set {| g_sid := ex_u 0; g_seq := 15 |}
    = [(ex_u 0, [(1, 5); (7, 9); (15, 15); (20, 20)]); (ex_u 1, [(3, 3)]); (ex_u 128, [(1, 2 ^ 63 - 2)]); (ex_u 255, [(2 ^ 63 - 1, 2 ^ 63 - 1)])] /\
  canonb (add_gtid ex_set {| g_sid := ex_u 128; g_seq := 2 ^ 63 - 1 |}) = true.
Proof. repeat split; vm_compute; reflexivity. Qed.

Example C18_nonvacuous_tests :
  contains ex_set [(ex_u 0, [(2, 4); (8, 8)]); (ex_u 128, [(5, 1000)])] = true /\
  contains ex_set [(ex_u 0, [(5, 7)])] = false /\
  equal ex_set ex_set = true /\ equal ex_set (add_gtid ex_set {| g_sid := ex_u 0; g_seq := 6 |}) = false /\
  contains_gtid ex_set {| g_sid := ex_u 255; g_seq := 2 ^ 63 - 1 |} = true /\
  contains_gtid ex_set {| g_sid := ex_u 0; g_seq := 6 |} = false.
Proof. repeat split; vm_compute; reflexivity. Qed.

(* ---------------------------------------------------------------------------------------------------------------
   Tie to the source of the interval test.  Contains walks both interval lists and asks, for each interval of the
   argument, whether one interval of the receiver contains it (interval.contains); gotrans translates that method
   on every run (gen/TransGtid.v) and the translation is iv_contains, the test the model's walk uses. *)
From GB Require Base.GoSem Proofs.TransEquivGtid.
From GBGen Require TransGtid.
Theorem C18_tie_interval_contains : forall i o,
  GoSem.res_sim (TransGtid.interval_contains_g (TransEquivGtid.interval_of i) (TransEquivGtid.interval_of o))
                (Ok (iv_contains i o)).
Proof. exact TransEquivGtid.interval_contains_equiv. Qed.
Print Assumptions C18_tie_interval_contains.
