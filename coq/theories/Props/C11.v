(* C11 — DECIMAL values decode to canonical decimal text. *)
From GB Require Import Base.Prelude Base.DecText Model.Cell Spec.Values.
From GB Require Import Proofs.CellCommon Proofs.DecimalText Proofs.CellDecimal Proofs.CellAll.
Open Scope Z_scope.

(* every precision 1..65, scale 0..min(30,p), every representable value (digit lists of length p-s and s, sign;
   no negative zero): CellBytes returns the canonical text and consumes exactly the encoded bytes *)
Theorem C11_decimal_canonical : forall p s neg ip fp pre rest,
  wf_type (TNewDecimal p s) = true ->
  wf_value (TNewDecimal p s) false (VDecimal neg ip fp) = true ->
  decode_decimal (pre ++ enc_decimal p s neg ip fp ++ rest) (length pre) (p * 256 + s)
  = Ok (Some (text_decimal neg ip fp), len (enc_decimal p s neg ip fp)).
Proof. exact decimal_decode_ok. Qed.
Print Assumptions C11_decimal_canonical.

(* the same as the cell lemma (value half and length-rule half), for any signedness flag and surrounding bytes *)
Theorem C11_decimal_cell : forall ffmt tz efmt jsonp p s uns neg ip fp,
  wf_type (TNewDecimal p s) = true -> wf_value (TNewDecimal p s) uns (VDecimal neg ip fp) = true ->
  cell_ok ffmt tz efmt jsonp (TNewDecimal p s) uns (VDecimal neg ip fp).
Proof. exact decimal_ok. Qed.
Print Assumptions C11_decimal_cell.

Theorem C11_decimal_length : forall p s neg ip fp pre rest,
  wf_type (TNewDecimal p s) = true ->
  cell_length (pre ++ enc_decimal p s neg ip fp ++ rest) (length pre) 246 (p * 256 + s)
  = Ok (len (enc_decimal p s neg ip fp)) /\ 0 < len (enc_decimal p s neg ip fp).
Proof. exact decimal_length_ok. Qed.
Print Assumptions C11_decimal_length.

(* what "canonical" means: optional '-', integer digits without leading zeros or padding (a single 0 when there
   are none), exactly the s fraction digits; same digit values as logged *)
Theorem C11_text_canonical : forall neg ip fp,
  digit_vals ip -> digit_vals fp ->
  text_decimal neg ip fp = (if neg then [45] else []) ++ int_text ip ++ frac_text fp /\
  Forall is_digit (int_text ip) /\ int_text ip <> [] /\
  (strip0 ip = [] /\ int_text ip = [48] \/
   exists c t, strip0 ip = c :: t /\ c <> 0 /\ int_text ip = digit_chars (c :: t)) /\
  digits_val (strip0 ip) = digits_val ip /\
  (fp = [] /\ frac_text fp = [] \/ fp <> [] /\ frac_text fp = 46 :: digit_chars fp /\ length (digit_chars fp) = length fp).
Proof. exact decimal_text_canonical. Qed.
Print Assumptions C11_text_canonical.

(* zero (or anything else) never decodes to an empty or NULL-looking value *)
Theorem C11_never_empty : forall neg ip fp, digit_vals ip -> text_decimal neg ip fp <> [].
Proof. exact decimal_text_nonempty. Qed.
Print Assumptions C11_never_empty.

Example C11_nonvacuous :
  wf_type (TNewDecimal 65 30) = true /\
  wf_value (TNewDecimal 10 0) false (VDecimal false [0;0;0;0;0;0;0;0;0;0] []) = true /\
  text_decimal false [0;0;0;0;0;0;0;0;0;0] [] = [48] /\
  decode_decimal (enc_decimal 18 0 false [0;0;0;0;0;0;0;0;0;0;0;0;0;0;0;0;0;5] []) 0 (18 * 256) = Ok (Some [53], 8) /\
  decode_decimal (enc_decimal 20 2 true [0;0;0;0;0;0;0;0;0;0;0;0;0;0;0;0;0;5] [0;0]) 0 (20 * 256 + 2) = Ok (Some [45; 53; 46; 48; 48], 9).
Proof. repeat split; vm_compute; reflexivity. Qed.


(* ---------------------------------------------------------------------------------------------------------------
   Tie by proof to the Go source.  gen/TransCellBytes.v is CellBytes of /repo/replication/binlog_event_rbr.go, translated
   on every run by harness/cmd/gotrans (one definition per case of its switch and the dispatcher CellBytes_g); for the
   type codes below the translated function returns, for EVERY row data, position, metadata and signedness, the value
   text and consumed length that Model.Cell.cell_bytes returns - the model function the theorems above are about (same
   outcome class on errors and panics).  Oracles shared by both sides: ffmt (strconv.AppendFloat 'f'), print_timestamp tz
   (printTimestamp, pinned below / in C12), jsonp (printJSONData, C14).  flat forgets the difference between a nil and an
   empty result slice (the model never answers NULL: that is decided by the NULL bitmap before CellBytes is called).
   A change to one of these cases of CellBytes either keeps this provable or breaks the build before any test runs. *)
From GB Require Import Base.GoSem Proofs.TransEquivCellBytesDefs Proofs.TransEquivCellBytesTies.
From GBGen Require Import TransCellBytes.
Theorem C11_tie_CellBytes : forall ffmt tz jsonp fuel d pos typ meta uns,
  In typ [246] -> (1000 <= fuel)%nat -> wf_bytes d -> 0 <= meta < 65536 -> Z.of_nat pos < 2 ^ 62 -> (pos <= length d)%nat ->
  res_sim (CellBytes_g ffmt (print_timestamp tz) jsonp fuel d (Z.of_nat pos) typ meta uns)
          (flat (cell_bytes ffmt tz jsonp d pos typ meta uns)).
Proof. exact CellBytes_tie_decimal. Qed.
Print Assumptions C11_tie_CellBytes.

(* From the Go source to the specification.  The translated Go function itself, applied to any row buffer that holds
   the encoding of a well-formed value of a well-formed column type of this property (anything before and after it),
   returns the canonical text of the value and the number of bytes the encoding occupies: C11_tie_CellBytes (generated
   code = model, all inputs) composed with the cell theorems above (model on the encoder's output = specification text).
   The hand-written model no longer occurs in the statement: it is about the translation of /repo's CellBytes, the
   specification encoder enc_cell and the specification text only.  Premises: the buffer holds bytes, |tz| <= 86400,
   the JSON oracle is the proved printer for JSON columns (jsonp_for), fuel >= 1000. *)
From GB Require Import Spec.ColTypes Proofs.CellAll Proofs.SourceCells.
Theorem C11_source_decodes : forall ffmt tz efmt jsonp fuel ty uns v pre rest,
  In (code_of ty) [246] -> (forall i : Z, -86400 <= tz i <= 86400) ->
  jsonp_for efmt jsonp ty -> wf_type ty = true -> wf_value ty uns v = true -> (1000 <= fuel)%nat ->
  wf_bytes (pre ++ enc_cell ty v ++ rest) -> Z.of_nat (length pre) < 2 ^ 62 ->
  CellBytes_g ffmt (print_timestamp tz) jsonp fuel (pre ++ enc_cell ty v ++ rest) (Z.of_nat (length pre)) (code_of ty) (meta_of ty) uns
    = Ok (text ffmt tz efmt ty uns v, len (enc_cell ty v)).
Proof.
  exact (fun ffmt tz efmt jsonp fuel ty uns v pre rest H =>
           CellBytes_decodes_encoded_on ffmt tz efmt jsonp _ fuel ty uns v pre rest (CellBytes_tie_decimal ffmt tz jsonp) H).
Qed.
Print Assumptions C11_source_decodes.
(* DECIMAL(10,2) -12345.60: bytes 7f cf c6 c3 (inverted), text "-12345.60" *)
Example C11_source_nonvacuous :
  CellBytes_g (fun _ _ => []) (fun _ => []) (fun _ => Err EJson) 1000 (enc_cell (TNewDecimal 10 2) (VDecimal true [0;0;0;1;2;3;4;5] [6;0])) 0 246 (10 * 256 + 2) false
    = Ok ([45; 49; 50; 51; 52; 53; 46; 54; 48], 5).
Proof. vm_compute. reflexivity. Qed.

