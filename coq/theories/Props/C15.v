(* C15 (a) — a table-map event decodes to exactly the schema the master logged.
   Part (b) (attribution through the streamer's table cache) is not in this file:
   it is checked end to end by the harness (bin/check C15, C01) and the mapper
   column-count rejection at image level is C09_image_mismatch.

   Vocabulary (all from Spec/, independent of the code):
     enc_table_map_body c t   what the master writes for table definition t (Spec/EncEvent.v)
     enc_ev c h body crc      the event with its header (any length >= 19) and optional CRC32
     expect_format c v        the format description the stream announced
     expect_table_map p t     the schema a consumer must obtain (Spec/Expect.v); p names the padding pattern of
                              the nullable-columns bitmap (the decoded bitmap keeps the wire bytes; its
                              meaningful bits and its width do not depend on p: C09_bitmap_bit)
     c_pad_tm c               that pattern on the wire: an arbitrary byte (the unused high bits of the bitmap's
                              last byte are whatever the master left there)
   wf_table_def (Proofs/TableMapProofs.v): id fits the 4/6-byte field, flags fit 2 bytes, names
   <= 255 bytes, column count and metadata length <= MaxInt32 (the decoder's own ErrTooLarge
   limits), every column type has valid parameters (wf_type).  td_optional is unconstrained. *)
From GB Require Import Base.Prelude Model.Header Model.Events Model.Cell Model.Rbr.
From GB Require Import Spec.EncHeader Spec.Values Spec.EncEvent Spec.Expect.
From GB Require Import Proofs.BitmapProofs Proofs.EventFrame Proofs.TableMapProofs.
From GB Require Import Model.Streamer Proofs.StreamProofs Proofs.StreamProofs2.
From GBGen Require Import Consts.
Open Scope Z_scope.

Theorem C15_tablemap_roundtrip : forall c v h t crc,
  wf_cfg c = true -> wf_table_def c t ->
  (do ev <- strip_checksum56 (expect_format c v) (enc_ev c h (enc_table_map_body c t) crc);
   ev_table_map (expect_format c v) ev) = Ok (expect_table_map (c_pad_tm c) t).
Proof. exact tablemap_roundtrip. Qed.
Print Assumptions C15_tablemap_roundtrip.

Theorem C15_tablemap_table_id : forall c v h t crc,
  wf_cfg c = true -> wf_table_def c t -> h_type h = 19 ->
  (do ev <- strip_checksum56 (expect_format c v) (enc_ev c h (enc_table_map_body c t) crc);
   ev_table_id (expect_format c v) ev) = Ok (td_id t).
Proof. exact tablemap_table_id. Qed.
Print Assumptions C15_tablemap_table_id.

(* the metadata-length bound of wf_table_def follows from the column-count bound below 2^30 *)
Theorem C15_metadata_length : forall cols : list (coltype * bool),
  (length (col_metas cols) <= 2 * length cols)%nat.
Proof. exact col_metas_length_le. Qed.
Print Assumptions C15_metadata_length.

(* length-encoded integers: all four forms, no condition on what follows *)
Theorem C15_lenenc : forall pre n rest, 0 <= n < 2 ^ 64 ->
  read_lenenc (pre ++ enc_lenenc n ++ rest) (length pre)
    = Ok (Some (n, (length pre + length (enc_lenenc n))%nat)).
Proof. exact read_lenenc_ok. Qed.
Print Assumptions C15_lenenc.

(* per-type metadata, in the byte order of each class *)
Theorem C15_metadata : forall ty pre rest, wf_type ty = true ->
  metadata_read (pre ++ meta_bytes ty ++ rest) (length pre) (code_of ty)
    = Ok (meta_of ty, (length pre + length (meta_bytes ty))%nat).
Proof. exact metadata_read_ok. Qed.
Print Assumptions C15_metadata.

(* ---- non-vacuity: a 300-column table (3-byte column count; 300 is not a multiple of 8 and the four unused
        bits of the NULL bitmap's last byte are set), 6-byte id, CRC on, 27-byte header, optional metadata appended ---- *)
Definition ex_cfg : cfg := {| c_crc := true; c_v2 := true; c_tid4 := false; c_hlen := 27; c_nsizes := 40;
                              c_pad_cols := 0; c_pad_null := 255; c_pad_tm := 255 |}.
Definition ex_types : list (coltype * bool) :=
  [(TLong, false); (TVarchar 300 false, true); (TNewDecimal 20 5, true); (TChar 1000, false); (TBit 12, true);
   (TEnum 2 false, false); (TBlob 3 250, true); (TDateTime2 6, false); (TJson 4, true); (TDouble, false)].
Definition ex_cols300 : list (coltype * bool) := concat (repeat ex_types 30).
Definition ex_t300 : table_def :=
  {| td_id := 2 ^ 40 + 7; td_flags := 1; td_db := [115; 104; 111; 112]; td_name := [111; 114; 100; 101; 114; 115];
     td_cols := ex_cols300; td_optional := [1; 2; 3; 255] |}.
Definition ex_hdr (t : Z) : hdr := {| h_ts := 1600000000; h_type := t; h_sid := 1; h_next := 4096; h_flags := 0 |}.

Example C15_300_columns :
  wf_cfg ex_cfg = true /\ length ex_cols300 = 300%nat /\
  forallb (fun p => wf_type (fst p)) ex_cols300 = true /\
  firstn 3 (enc_lenenc (len ex_cols300)) = [252; 44; 1] /\
  (do ev <- strip_checksum56 (expect_format ex_cfg []) (enc_ev ex_cfg (ex_hdr 19) (enc_table_map_body ex_cfg ex_t300) [9; 9; 9; 9]);
   ev_table_map (expect_format ex_cfg []) ev) = Ok (expect_table_map 255 ex_t300) /\
  Z.shiftr (last (bm_data (tm_can_be_null (expect_table_map 255 ex_t300))) 0) 4 = 15 /\
  Z.shiftr (last (bm_data (tm_can_be_null (expect_table_map 0 ex_t300))) 0) 4 = 0 /\
  map (bit (tm_can_be_null (expect_table_map 255 ex_t300))) (seq 0 300) =
    map (fun p => Ok (snd p)) ex_cols300 /\
  (do ev <- strip_checksum56 (expect_format ex_cfg []) (enc_ev ex_cfg (ex_hdr 19) (enc_table_map_body ex_cfg ex_t300) [9; 9; 9; 9]);
   ev_table_id (expect_format ex_cfg []) ev) = Ok (2 ^ 40 + 7).
Proof. repeat match goal with |- _ /\ _ => split end; vm_compute; reflexivity. Qed.

(* the hypotheses of the theorem hold for it *)
Example C15_300_columns_wf : wf_table_def ex_cfg ex_t300.
Proof.
  unfold wf_table_def. repeat split; try (vm_compute; congruence).
  apply Forall_forall. intros p Hp.
  assert (F : forallb (fun p => wf_type (fst p)) (td_cols ex_t300) = true) by (vm_compute; reflexivity).
  rewrite forallb_forall in F. apply F. exact Hp.
Qed.

(* ---- part (b): attribution through the streamer's table cache ---- *)

(* after a table map for id, rows for id are decoded with that table map and its table info (the decoder looks the
   id up in the cache: Model/Streamer.v decode, rows case); other ids and the transaction state are untouched *)
Theorem C15_attribution_latest : forall verdict st id tm ti,
  let st' := fst (astep verdict st (ATable id tm ti)) in
  lookup_table id (s_tables st') = Some (tm, ti) /\
  (forall id', id <> id' -> lookup_table id' (s_tables st') = lookup_table id' (s_tables st)) /\
  view st' = view st.
Proof. exact attribution_latest. Qed.
Print Assumptions C15_attribution_latest.

(* which table info a decoded table map gets: the cached one only when the announced database and table names
   are the cached ones; otherwise the mapper is asked for the announced name *)
Theorem C15_decode_table_map : forall ffmt tz jsonp mp f tables ev0 ev id tm,
  is_valid ev0 = Ok true -> ev_type ev0 = Ok K_eTableMapEvent -> format_is_zero f = false ->
  strip_checksum56 f ev0 = Ok ev -> ev_type ev = Ok K_eTableMapEvent ->
  ev_table_id f ev = Ok id -> ev_table_map f ev = Ok tm ->
  decode ffmt tz jsonp mp f tables ev0 = table_info_for mp tables id tm.
Proof. exact decode_table_map. Qed.
Print Assumptions C15_decode_table_map.

(* a mapper table whose column count disagrees with the table map is rejected with an error *)
Theorem C15_mismatch_rejected : forall mp tables id tm ti,
  (forall old ti0, lookup_table id tables = Some (old, ti0) ->
     bytes_eqb (tm_db old) (tm_db tm) && bytes_eqb (tm_name old) (tm_name tm) = false) ->
  mp (tm_db tm) (tm_name tm) = Some ti -> length (ti_cols ti) <> bm_count (tm_can_be_null tm) ->
  table_info_for mp tables id tm = AStop CMismatch.
Proof. exact mismatch_rejected. Qed.
Print Assumptions C15_mismatch_rejected.

(* ---------------------------------------------------------------------------------------------------------------
   Tie to the source.  The functions *_g below are generated from /repo on every run by harness/cmd/gotrans
   (gen/Trans*.v); the theorems say that, for ALL inputs, they compute what the hand-written model functions used in
   the statements above compute (res_sim: the same value, or both an error, or both a panic), under the premises Go's
   types provide.  A change to one of these Go functions that alters its behaviour makes the proof below fail. *)
From GB Require Import Model.Header Model.Events Model.Rbr Model.Cell Base.GoSem Proofs.TransTactics Proofs.TransEquivCell Proofs.TransEquivMeta Proofs.TransEquivBitmap Proofs.TransEquivHeader Proofs.TransEquivEvents Proofs.TransEquivRbr.
From GBGen Require Import TransCell TransMeta TransBitmap TransHeader TransEvents TransRbr.
Open Scope Z_scope.

Theorem C15_tie_TableMap : forall fuel ev f,
  wf_bytes ev -> hlen_byte f -> len ev < 2 ^ 62 -> (length ev < fuel)%nat ->
  res_sim (binlogEvent_TableMap_g fuel ev (Format_of f)) (res_map TableMap_of (ev_table_map f ev)).
Proof. exact binlogEvent_TableMap_equiv. Qed.
Print Assumptions C15_tie_TableMap.

Theorem C15_tie_metadataRead : forall d pos typ,
  Z.of_nat pos < 2 ^ 62 -> res_sim (metadataRead_g d (Z.of_nat pos) typ) (res_map pos_of (metadata_read d pos typ)).
Proof. exact metadataRead_equiv. Qed.
Print Assumptions C15_tie_metadataRead.

Theorem C15_tie_readLenEncInt : forall d pos,
  wf_bytes d -> Z.of_nat pos < 2 ^ 62 -> res_sim (readLenEncInt_g d (Z.of_nat pos)) (res_map lenenc_of (read_lenenc d pos)).
Proof. exact readLenEncInt_equiv. Qed.
Print Assumptions C15_tie_readLenEncInt.

Theorem C15_tie_TableID : forall ev f,
  wf_bytes ev -> hlen_byte f -> res_sim (binlogEvent_TableID_g ev (Format_of f)) (ev_table_id f ev).
Proof. exact binlogEvent_TableID_equiv. Qed.
Print Assumptions C15_tie_TableID.

(* ---------------------------------------------------------------------------------------------------------------
   Source pins.  The model functions used above are a hand-written reading of these Go functions (they have closures,
   channels, interfaces or maps, which the translator gotrans does not accept).  gosync regenerates their normalised
   text (logging calls and comments removed) into gen/Source.v on every run; it must equal the committed snapshot
   Spec/SourceSnapshot.v the models were written and validated against.  When one of them is edited the Example
   naming it fails, the check runs the thorough harness in search of a failing input, and reports the property as no
   longer shown to hold (with the input, or no-failing-input-found). *)
From GB Require Proofs.SourcePins Spec.SourceSnapshot.
From GBGen Require Source.
Example C15_pin_parseEvents : Source.src_parseEvents = SourceSnapshot.src_parseEvents.
Proof. exact SourcePins.pin_parseEvents. Qed.
Example C15_pin_getValuesFromRow : Source.src_getValuesFromRow = SourceSnapshot.src_getValuesFromRow.
Proof. exact SourcePins.pin_getValuesFromRow. Qed.
Example C15_pin_getIdentifiesFromRow : Source.src_getIdentifiesFromRow = SourceSnapshot.src_getIdentifiesFromRow.
Proof. exact SourcePins.pin_getIdentifiesFromRow. Qed.
