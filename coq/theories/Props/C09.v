(* C09 — rows events are split into exactly the encoded rows and images; decoding an image
   column by column consumes it exactly; the length rule and the value decoder agree.

   Vocabulary (Spec/, independent of the code):
     enc_rows_body c tys r     what the master writes for rows definition r of a table with column
                               types tys (presence bitmaps, per row: NULL bitmap + cells)
     image_cells tys img       the cells of one image (present, non-NULL columns only)
     expect_rows tys r         what a consumer must obtain: flags, presence bitmaps, per row the
                               NULL bitmaps and the image bytes
     expect_cell / text        the delivered cell of one column
   Proof-side definitions used in the statements:
     wf_rows_def cols r (Proofs/RowsProofs.v)  kind in {0 write, 1 update, 2 delete}; flags fit 2 bytes;
         extra data < 65534 bytes; column count <= MaxInt32 (the decoder's ErrTooLarge limit); every
         image the kind uses satisfies Spec.Expect.wf_image (one entry per column, the presence
         pattern of the event, >= 1 present column, every present non-NULL value valid for its
         column type and signedness).  Unused images (rd_before of a write, ...) are unconstrained;
         for an update the shorter of the two lists decides the row count (as in the encoder).
     family_cols ffmt tz jsonp cols            every column type has valid parameters and its cell
         lemma (Proofs/CellFamilies.v cell_family_ok).  C09_proved_families discharges the cell lemma
         for every family except DECIMAL and JSON; the theorems become unconditional for those two
         the moment their cell lemma lands (C11, C14).  The *_proved forms are unconditional now.
     colspec = (name, (type, unsigned))        a column as the streamer sees it: name and signedness
         from the table mapper (by ordinal), type from the table map. *)
From GB Require Import Base.Prelude Model.Header Model.Events Model.Cell Model.Rbr Model.Streamer.
From GB Require Import Spec.EncHeader Spec.Values Spec.EncEvent Spec.Expect.
From GB Require Import Proofs.CellCommon Proofs.CellFamilies Proofs.BitmapProofs Proofs.EventFrame Proofs.LengthAgree
                       Proofs.ImageProofs Proofs.TableMapProofs Proofs.RowsProofs Proofs.RowsAll Proofs.CellAll.
From GB Require Import Proofs.CellAll Proofs.RowsAll.
From GBGen Require Import Consts.
Open Scope Z_scope.

(* ---- the event ---- *)
Theorem C09_rows_roundtrip : forall ffmt tz jsonp c v h cols tm r crc,
  wf_cfg c = true -> family_cols ffmt tz jsonp cols -> wf_rows_def cols r ->
  tm_types tm = col_codes cols -> tm_meta tm = map (fun p => meta_of (fst p)) cols ->
  h_type h = rows_type c (rd_kind r) ->
  (do ev <- strip_checksum56 (expect_format c v) (enc_ev c h (enc_rows_body c (map fst cols) r) crc);
   ev_rows (expect_format c v) tm ev) = Ok (expect_rows (map fst cols) r).
Proof. exact rows_roundtrip. Qed.
Print Assumptions C09_rows_roundtrip.

(* with the table map of C15 (nullability irrelevant), for tables without DECIMAL / JSON columns: unconditional *)
Theorem C09_rows_roundtrip_proved : forall c v h cols t r crc,
  wf_cfg c = true -> proved_cols cols -> wf_rows_def cols r ->
  map fst (td_cols t) = map fst cols ->
  h_type h = rows_type c (rd_kind r) ->
  (do ev <- strip_checksum56 (expect_format c v) (enc_ev c h (enc_rows_body c (map fst cols) r) crc);
   ev_rows (expect_format c v) (expect_table_map t) ev) = Ok (expect_rows (map fst cols) r).
Proof. exact rows_roundtrip_proved. Qed.
Print Assumptions C09_rows_roundtrip_proved.

Theorem C09_rows_table_id : forall c v h tys r crc,
  wf_cfg c = true -> rd_kind r = 0 \/ rd_kind r = 1 \/ rd_kind r = 2 ->
  0 <= rd_id r < (if c_tid4 c then 2 ^ 32 else 2 ^ 48) ->
  h_type h = rows_type c (rd_kind r) ->
  (do ev <- strip_checksum56 (expect_format c v) (enc_ev c h (enc_rows_body c tys r) crc);
   ev_table_id (expect_format c v) ev) = Ok (rd_id r).
Proof. exact rows_table_id. Qed.
Print Assumptions C09_rows_table_id.

(* ---- one image inside the row loop: NULL bitmap, then exactly the cells ---- *)
Theorem C09_read_image : forall tm tys img,
  tm_types tm = map code_of tys -> tm_meta tm = map meta_of tys -> Forall2 len_fine tys img ->
  forall pre rest,
  read_image tm (expect_bitmap (present_bits img)) (length tys) (count_true (present_bits img))
             (pre ++ enc_image tys img ++ rest) (length pre)
  = Ok (expect_bitmap (null_bits img), image_cells tys img, (length pre + length (enc_image tys img))%nat).
Proof. exact read_image_ok. Qed.
Print Assumptions C09_read_image.

(* ---- one image, column by column (get{Values,Identifies}FromRow) ---- *)
Theorem C09_image_consumed : forall ffmt tz jsonp tm ti specs img rest,
  family_cols ffmt tz jsonp (specs_cols specs) ->
  tm_types tm = map (fun s => code_of (cs_type s)) specs ->
  tm_meta tm = map (fun s => meta_of (cs_type s)) specs ->
  ti_cols ti = map (fun s => (cs_name s, cs_uns s)) specs ->
  wf_image (specs_cols specs) (present_bits img) img = true ->
  image_of ffmt tz jsonp tm ti (expect_bitmap (present_bits img)) (expect_bitmap (null_bits img))
           (Some (image_cells (map cs_type specs) img ++ rest))
  = Ok (Some (expect_columns ffmt tz specs img)).
Proof. exact image_consumed. Qed.
Print Assumptions C09_image_consumed.

Theorem C09_image_consumed_proved : forall ffmt tz jsonp tm ti specs img rest,
  (forall v, -86400 <= tz v <= 86400) -> proved_cols (specs_cols specs) ->
  tm_types tm = map (fun s => code_of (cs_type s)) specs ->
  tm_meta tm = map (fun s => meta_of (cs_type s)) specs ->
  ti_cols ti = map (fun s => (cs_name s, cs_uns s)) specs ->
  wf_image (specs_cols specs) (present_bits img) img = true ->
  image_of ffmt tz jsonp tm ti (expect_bitmap (present_bits img)) (expect_bitmap (null_bits img))
           (Some (image_cells (map cs_type specs) img ++ rest))
  = Ok (Some (expect_columns ffmt tz specs img)).
Proof. exact image_consumed_proved. Qed.
Print Assumptions C09_image_consumed_proved.

(* a mapper whose column count disagrees with the bitmap's is rejected, never mis-attributed *)
Theorem C09_image_mismatch : forall ffmt tz jsonp tm ti present nulls d,
  bm_count present <> length (ti_cols ti) ->
  image_of ffmt tz jsonp tm ti present nulls d = Ok None.
Proof. exact image_of_mismatch. Qed.
Print Assumptions C09_image_mismatch.

(* absent / NULL / value (including the empty value, Some []) are distinguishable and exclusive *)
Theorem C09_three_way : forall ffmt tz jsonp tm ti specs img rest,
  family_cols ffmt tz jsonp (specs_cols specs) ->
  tm_types tm = map (fun s => code_of (cs_type s)) specs ->
  tm_meta tm = map (fun s => meta_of (cs_type s)) specs ->
  ti_cols ti = map (fun s => (cs_name s, cs_uns s)) specs ->
  wf_image (specs_cols specs) (present_bits img) img = true ->
  exists cs,
    image_of ffmt tz jsonp tm ti (expect_bitmap (present_bits img)) (expect_bitmap (null_bits img))
             (Some (image_cells (map cs_type specs) img ++ rest)) = Ok (Some cs) /\
    Forall2 (fun cv col =>
               (cv = CAbsent <-> c_empty col = true) /\
               (cv = CNull <-> (c_empty col = false /\ c_data col = None)) /\
               ((exists v, cv = CVal v) <-> (exists s, c_data col = Some s)) /\
               (c_empty col = true -> c_data col = None)) img cs.
Proof. exact three_way_image. Qed.
Print Assumptions C09_three_way.

(* ---- the length rule and the value decoder agree, for ALL data and metadata ---- *)
Theorem C09_length_value_agree : forall ffmt tz jsonp d p typ meta uns v l,
  cell_bytes ffmt tz jsonp d p typ meta uns = Ok (v, l) ->
  (typ = K_TypeTimestamp2 \/ typ = K_TypeDateTime2 -> 0 <= meta <= 6) ->
  cell_length d p typ meta = Ok l.
Proof. exact length_value_agree. Qed.
Print Assumptions C09_length_value_agree.

(* the side condition is needed: fractional-seconds metadata 7 (never written by MySQL) *)
Theorem C09_length_value_differ_fsp7 : forall ffmt tz jsonp,
  exists d v l l', cell_bytes ffmt tz jsonp d 0 K_TypeTimestamp2 7 false = Ok (v, l) /\
    cell_length d 0 K_TypeTimestamp2 7 = Ok l' /\ l <> l'.
Proof. exact length_value_differ_fsp7. Qed.
Print Assumptions C09_length_value_differ_fsp7.

(* ---- the cell lemma for every family except DECIMAL and JSON ---- *)
Theorem C09_proved_families : forall ffmt tz jsonp, (forall v, -86400 <= tz v <= 86400) ->
  forall ty, not_decimal_or_json ty = true ->
  forall uns v, wf_type ty = true -> wf_value ty uns v = true -> cell_ok ffmt tz jsonp ty uns v.
Proof. exact proved_families. Qed.
Print Assumptions C09_proved_families.

(* ---- bitmaps of any width ---- *)
Theorem C09_bitmap_bit : forall bits i, (i < length bits)%nat ->
  bit (expect_bitmap bits) i = Ok (nth i bits false).
Proof. exact bitmap_bit_ok. Qed.
Print Assumptions C09_bitmap_bit.

Theorem C09_bitmap_count : forall bits,
  bit_count (expect_bitmap bits) = Ok (length (filter (fun b => b) bits)).
Proof. exact bitmap_count_ok. Qed.
Print Assumptions C09_bitmap_count.

Theorem C09_new_bitmap : forall pre bits rest,
  new_bitmap (pre ++ pack_bits bits ++ rest) (length pre) (length bits)
    = Ok (expect_bitmap bits, (length pre + (length bits + 7) / 8)%nat).
Proof. exact new_bitmap_ok. Qed.
Print Assumptions C09_new_bitmap.

Theorem C09_pack_bits_length : forall bits, length (pack_bits bits) = ((length bits + 7) / 8)%nat.
Proof. exact pack_bits_length. Qed.
Print Assumptions C09_pack_bits_length.

(* ---- non-vacuity: a 10-column update, 2 rows, NULLs and absent columns in both images
        (different presence patterns for the before and the after image), v2 with extra data ---- *)
Definition ex_cfg : cfg := {| c_crc := true; c_v2 := true; c_tid4 := false; c_hlen := 19; c_nsizes := 40 |}.
Definition ex_specs : list colspec :=
  [([105; 100], (TLong, false)); ([110; 97; 109; 101], (TVarchar 300 false, false)); ([113], (TTiny, true));
   ([98], (TBlob 2 252, false)); ([116; 115], (TDateTime2 3, false)); ([101], (TEnum 1 false, false));
   ([100], (TDouble, false)); ([99], (TChar 10, false)); ([102], (TBit 12, false)); ([117], (TTimestamp2 0, false))].
Definition ex_cols : list (coltype * bool) := specs_cols ex_specs.
Definition ex_b1 : list cellv :=
  [CVal (VInt (-5)); CNull; CVal (VInt 200); CAbsent; CVal (VDateTime 2020 1 2 3 4 5 123);
   CAbsent; CAbsent; CAbsent; CVal (VBits [15; 255]); CAbsent].
Definition ex_b2 : list cellv :=
  [CNull; CVal (VBytes []); CVal (VInt 0); CAbsent; CNull; CAbsent; CAbsent; CAbsent; CNull; CAbsent].
Definition ex_a1 : list cellv :=
  [CVal (VInt 7); CVal (VBytes [104; 105]); CAbsent; CVal (VBytes []); CNull; CVal (VEnum 3);
   CVal (VFloat 4607182418800017408); CNull; CAbsent; CVal (VTimestamp 1600000000 0)].
Definition ex_a2 : list cellv :=
  [CNull; CNull; CAbsent; CNull; CVal (VDateTime 1999 12 31 23 59 59 0); CNull; CNull; CVal (VBytes [65]);
   CAbsent; CNull].
Definition ex_rows : rows_def :=
  {| rd_kind := 1; rd_id := 77; rd_flags := 1; rd_extra := [1; 2; 3];
     rd_before := [ex_b1; ex_b2]; rd_after := [ex_a1; ex_a2] |}.
Definition ex_t : table_def :=
  {| td_id := 77; td_flags := 1; td_db := [100]; td_name := [116];
     td_cols := map (fun p => (fst p, true)) ex_cols; td_optional := [] |}.
Definition ex_hdr (t : Z) : hdr := {| h_ts := 1600000000; h_type := t; h_sid := 1; h_next := 4096; h_flags := 0 |}.
Definition ex_ffmt (b x : Z) : bytes := [49].
Definition ex_tz (x : Z) : Z := 0.
Definition ex_jsonp (b : bytes) : res bytes := Err EJson.
Definition ex_ti : tinfo := {| ti_name := ([100], [116]); ti_cols := map (fun s => (cs_name s, cs_uns s)) ex_specs |}.

(* all column types except JSON (whose cells are C14): DECIMAL included *)
Theorem C09_rows_roundtrip_all : forall c v h cols t r crc,
  wf_cfg c = true -> nonjson_cols cols -> wf_rows_def cols r ->
  map fst (td_cols t) = map fst cols ->
  h_type h = rows_type c (rd_kind r) ->
  (do ev <- strip_checksum56 (expect_format c v) (enc_ev c h (enc_rows_body c (map fst cols) r) crc);
   ev_rows (expect_format c v) (expect_table_map t) ev) = Ok (expect_rows (map fst cols) r).
Proof. exact rows_roundtrip_all. Qed.
Print Assumptions C09_rows_roundtrip_all.

Theorem C09_image_consumed_all : forall ffmt tz jsonp tm ti specs img rest,
  (forall v, -86400 <= tz v <= 86400) -> nonjson_cols (specs_cols specs) ->
  tm_types tm = map (fun s => code_of (cs_type s)) specs ->
  tm_meta tm = map (fun s => meta_of (cs_type s)) specs ->
  ti_cols ti = map (fun s => (cs_name s, cs_uns s)) specs ->
  wf_image (specs_cols specs) (present_bits img) img = true ->
  image_of ffmt tz jsonp tm ti (expect_bitmap (present_bits img)) (expect_bitmap (null_bits img))
           (Some (image_cells (map cs_type specs) img ++ rest))
  = Ok (Some (expect_columns ffmt tz specs img)).
Proof. exact image_consumed_all. Qed.
Print Assumptions C09_image_consumed_all.

Example C09_update_10_columns :
  wf_cfg ex_cfg = true /\
  forallb (fun p => wf_type (fst p) && not_decimal_or_json (fst p)) ex_cols = true /\
  forallb (wf_image ex_cols (first_present (rd_before ex_rows) 10)) (rd_before ex_rows) = true /\
  forallb (wf_image ex_cols (first_present (rd_after ex_rows) 10)) (rd_after ex_rows) = true /\
  (do ev <- strip_checksum56 (expect_format ex_cfg [])
              (enc_ev ex_cfg (ex_hdr (rows_type ex_cfg 1)) (enc_rows_body ex_cfg (map fst ex_cols) ex_rows) [9; 9; 9; 9]);
   ev_rows (expect_format ex_cfg []) (expect_table_map ex_t) ev) = Ok (expect_rows (map fst ex_cols) ex_rows) /\
  length (rs_rows (expect_rows (map fst ex_cols) ex_rows)) = 2%nat /\
  image_of ex_ffmt ex_tz ex_jsonp (expect_table_map ex_t) ex_ti
           (expect_bitmap (present_bits ex_a1)) (expect_bitmap (null_bits ex_a1))
           (Some (image_cells (map cs_type ex_specs) ex_a1))
    = Ok (Some (expect_columns ex_ffmt ex_tz ex_specs ex_a1)) /\
  map (fun col => (c_empty col, c_data col)) (firstn 5 (expect_columns ex_ffmt ex_tz ex_specs ex_a1))
    = [(false, Some [55]); (false, Some [104; 105]); (true, None); (false, Some []); (false, None)].
Proof. repeat match goal with |- _ /\ _ => split end; vm_compute; reflexivity. Qed.

(* the hypotheses of the theorems hold for it *)
Example C09_update_10_columns_wf : proved_cols ex_cols /\ wf_rows_def ex_cols ex_rows.
Proof.
  split.
  - apply Forall_forall. intros p Hp.
    assert (F : forallb (fun p => wf_type (fst p) && not_decimal_or_json (fst p)) ex_cols = true) by (vm_compute; reflexivity).
    rewrite forallb_forall in F. specialize (F p Hp). apply andb_true_iff in F. exact F.
  - unfold wf_rows_def.
    split; [right; left; reflexivity|].
    split; [vm_compute; split; congruence|].
    split; [vm_compute; reflexivity|].
    split; [vm_compute; congruence|].
    split; intros _; unfold wf_images; apply Forall_forall; intros img Hi.
    + assert (F : forallb (wf_image ex_cols (first_present (rd_before ex_rows) (length ex_cols))) (rd_before ex_rows) = true)
        by (vm_compute; reflexivity).
      rewrite forallb_forall in F. exact (F img Hi).
    + assert (F : forallb (wf_image ex_cols (first_present (rd_after ex_rows) (length ex_cols))) (rd_after ex_rows) = true)
        by (vm_compute; reflexivity).
      rewrite forallb_forall in F. exact (F img Hi).
Qed.
