(* C09 — rows events are split into exactly the encoded rows and images; decoding an image
   column by column consumes it exactly; the length rule and the value decoder agree.

   Vocabulary (Spec/, independent of the code):
     enc_rows_body c tys r     what the master writes for rows definition r of a table with column
                               types tys (presence bitmaps, per row: NULL bitmap + cells)
     padding                   every bitmap occupies ceil(n/8) bytes; the unused high bits of its last byte are
                               whatever the master left there (MySQL: 1 in a row's NULL bitmap, 0 or 1 in a
                               presence bitmap).  pack_bits_pad pad bits writes bit k of the byte `pad` into an
                               unused bit k; the configuration carries one arbitrary byte per kind of bitmap
                               (c_pad_cols, c_pad_null, c_pad_tm; wf_cfg only says they are bytes), and the
                               image-level theorems quantify over the patterns pc (presence) and pn (NULL)
                               directly.  expect_bitmap pad bits is the decoded bitmap: it keeps the wire bytes,
                               so it names the pattern, but Bit i (i < n) and BitCount do not depend on it.
     image_cells tys img       the cells of one image (present, non-NULL columns only)
     expect_rows tys r         what a consumer must obtain: flags, presence bitmaps, per row the
                               NULL bitmaps and the image bytes
     expect_cell / text        the delivered cell of one column
   Proof-side definitions used in the statements:
     wf_rows_def cols r (Proofs/RowsProofs.v)  kind in {0 write, 1 update, 2 delete}; flags fit 2 bytes;
         extra data < 65534 bytes; column count <= MaxInt32 (the decoder's ErrTooLarge limit); every
         image the kind uses satisfies Spec.Expect.wf_image (one entry per column, the presence
         pattern of the event, >= 1 present column, every present non-NULL value valid for its
         column type and signedness).  Unused images (rd_before of a write, ...) are unconstrained;
         for an update the shorter of the two lists decides the row count (as in the encoder).
     family_cols ffmt tz efmt jsonp cols       every column type has valid parameters and its cell
         lemma (Proofs/CellFamilies.v cell_family_ok; efmt is the 'E' formatting oracle of the doubles
         inside JSON documents, used by Spec.Values.text).  C09_proved_families discharges the cell lemma
         for every family except DECIMAL and JSON, C09_cell_ok_all for every family (DECIMAL from C11,
         JSON from C14: there the printer jsonp must be the model of printJSONData over efmt).  The
         *_proved forms are unconditional for tables without DECIMAL / JSON columns, the *_all forms
         for all tables (wf_cols: valid type parameters; jsonp_for_cols: no JSON column, or jsonp is
         Model.Json.print_json efmt).
     colspec = (name, (type, unsigned))        a column as the streamer sees it: name and signedness
         from the table mapper (by ordinal), type from the table map. *)
From GB Require Import Base.Prelude Model.Header Model.Events Model.Cell Model.Rbr Model.Streamer.
From GB Require Import Spec.EncHeader Spec.Values Spec.EncEvent Spec.Expect.
From GB Require Import Proofs.CellCommon Proofs.CellFamilies Proofs.BitmapProofs Proofs.EventFrame Proofs.LengthAgree
                       Proofs.ImageProofs Proofs.TableMapProofs Proofs.RowsProofs Proofs.RowsAll Proofs.CellAll.
From GB Require Import Proofs.CellAll Proofs.RowsAll.
From GBGen Require Import Consts.
Open Scope Z_scope.

(* ---- the event ---- *)
Theorem C09_rows_roundtrip : forall ffmt tz efmt jsonp c v h cols tm r crc,
  wf_cfg c = true -> family_cols ffmt tz efmt jsonp cols -> wf_rows_def cols r ->
  tm_types tm = col_codes cols -> tm_meta tm = map (fun p => meta_of (fst p)) cols ->
  h_type h = rows_type c (rd_kind r) ->
  (do ev <- strip_checksum56 (expect_format c v) (enc_ev c h (enc_rows_body c (map fst cols) r) crc);
   ev_rows (expect_format c v) tm ev) = Ok (expect_rows c (map fst cols) r).
Proof. exact rows_roundtrip. Qed.
Print Assumptions C09_rows_roundtrip.

(* with the table map of C15 (nullability and the padding pt of its NULL bitmap irrelevant), for tables without
   DECIMAL / JSON columns: unconditional *)
Theorem C09_rows_roundtrip_proved : forall c v h cols pt t r crc,
  wf_cfg c = true -> proved_cols cols -> wf_rows_def cols r ->
  map fst (td_cols t) = map fst cols ->
  h_type h = rows_type c (rd_kind r) ->
  (do ev <- strip_checksum56 (expect_format c v) (enc_ev c h (enc_rows_body c (map fst cols) r) crc);
   ev_rows (expect_format c v) (expect_table_map pt t) ev) = Ok (expect_rows c (map fst cols) r).
Proof. exact rows_roundtrip_proved. Qed.
Print Assumptions C09_rows_roundtrip_proved.

Theorem C09_rows_table_id : forall c v h tys r crc,
  wf_cfg c = true -> rd_kind r = 0 \/ rd_kind r = 1 \/ rd_kind r = 2 ->
  0 <= rd_id r < (if c_tid4 c then 2 ^ 32 else 2 ^ 48) ->
  h_type h = rows_type c (rd_kind r) ->
  (do ev <- strip_checksum56 (expect_format c v) (enc_ev c h (enc_rows_body c tys r) crc);
   ev_table_id (expect_format c v) ev) = Ok (rd_id r).
Proof. exact rows_table_id. Qed.
Print Assumptions C09_rows_table_id.

(* ---- one image inside the row loop: NULL bitmap, then exactly the cells ---- *)
Theorem C09_read_image : forall pc pn tm tys img,
  tm_types tm = map code_of tys -> tm_meta tm = map meta_of tys -> Forall2 len_fine tys img ->
  forall pre rest,
  read_image tm (expect_bitmap pc (present_bits img)) (length tys) (count_true (present_bits img))
             (pre ++ enc_image pn tys img ++ rest) (length pre)
  = Ok (expect_bitmap pn (null_bits img), image_cells tys img, (length pre + length (enc_image pn tys img))%nat).
Proof. exact read_image_ok. Qed.
Print Assumptions C09_read_image.

(* ---- one image, column by column (get{Values,Identifies}FromRow) ---- *)
Theorem C09_image_consumed : forall pc pn ffmt tz efmt jsonp tm ti specs img rest,
  family_cols ffmt tz efmt jsonp (specs_cols specs) ->
  tm_types tm = map (fun s => code_of (cs_type s)) specs ->
  tm_meta tm = map (fun s => meta_of (cs_type s)) specs ->
  ti_cols ti = map (fun s => (cs_name s, cs_uns s)) specs ->
  wf_image (specs_cols specs) (present_bits img) img = true ->
  image_of ffmt tz jsonp tm ti (expect_bitmap pc (present_bits img)) (expect_bitmap pn (null_bits img))
           (Some (image_cells (map cs_type specs) img ++ rest))
  = Ok (Some (expect_columns ffmt tz efmt specs img)).
Proof. exact image_consumed. Qed.
Print Assumptions C09_image_consumed.

Theorem C09_image_consumed_proved : forall pc pn ffmt tz efmt jsonp tm ti specs img rest,
  (forall v, -86400 <= tz v <= 86400) -> proved_cols (specs_cols specs) ->
  tm_types tm = map (fun s => code_of (cs_type s)) specs ->
  tm_meta tm = map (fun s => meta_of (cs_type s)) specs ->
  ti_cols ti = map (fun s => (cs_name s, cs_uns s)) specs ->
  wf_image (specs_cols specs) (present_bits img) img = true ->
  image_of ffmt tz jsonp tm ti (expect_bitmap pc (present_bits img)) (expect_bitmap pn (null_bits img))
           (Some (image_cells (map cs_type specs) img ++ rest))
  = Ok (Some (expect_columns ffmt tz efmt specs img)).
Proof. exact image_consumed_proved. Qed.
Print Assumptions C09_image_consumed_proved.

(* a mapper whose column count disagrees with the bitmap's is rejected, never mis-attributed *)
Theorem C09_image_mismatch : forall ffmt tz jsonp tm ti present nulls d,
  bm_count present <> length (ti_cols ti) ->
  image_of ffmt tz jsonp tm ti present nulls d = Ok None.
Proof. exact image_of_mismatch. Qed.
Print Assumptions C09_image_mismatch.

(* absent / NULL / value (including the empty value, Some []) are distinguishable and exclusive *)
Theorem C09_three_way : forall pc pn ffmt tz efmt jsonp tm ti specs img rest,
  family_cols ffmt tz efmt jsonp (specs_cols specs) ->
  tm_types tm = map (fun s => code_of (cs_type s)) specs ->
  tm_meta tm = map (fun s => meta_of (cs_type s)) specs ->
  ti_cols ti = map (fun s => (cs_name s, cs_uns s)) specs ->
  wf_image (specs_cols specs) (present_bits img) img = true ->
  exists cs,
    image_of ffmt tz jsonp tm ti (expect_bitmap pc (present_bits img)) (expect_bitmap pn (null_bits img))
             (Some (image_cells (map cs_type specs) img ++ rest)) = Ok (Some cs) /\
    Forall2 (fun cv col =>
               (cv = CAbsent <-> c_empty col = true) /\
               (cv = CNull <-> (c_empty col = false /\ c_data col = None)) /\
               ((exists v, cv = CVal v) <-> (exists s, c_data col = Some s)) /\
               (c_empty col = true -> c_data col = None)) img cs.
Proof. exact three_way_image. Qed.
Print Assumptions C09_three_way.

(* ---- the length rule and the value decoder agree, for ALL data and metadata ---- *)
Theorem C09_length_value_agree : forall ffmt tz jsonp d p typ meta uns v l,
  cell_bytes ffmt tz jsonp d p typ meta uns = Ok (v, l) ->
  (typ = K_TypeTimestamp2 \/ typ = K_TypeDateTime2 -> 0 <= meta <= 6) ->
  cell_length d p typ meta = Ok l.
Proof. exact length_value_agree. Qed.
Print Assumptions C09_length_value_agree.

(* the side condition is needed: fractional-seconds metadata 7 (never written by MySQL) *)
Theorem C09_length_value_differ_fsp7 : forall ffmt tz jsonp,
  exists d v l l', cell_bytes ffmt tz jsonp d 0 K_TypeTimestamp2 7 false = Ok (v, l) /\
    cell_length d 0 K_TypeTimestamp2 7 = Ok l' /\ l <> l'.
Proof. exact length_value_differ_fsp7. Qed.
Print Assumptions C09_length_value_differ_fsp7.

(* ---- the cell lemma for every family except DECIMAL and JSON ---- *)
Theorem C09_proved_families : forall ffmt tz efmt jsonp, (forall v, -86400 <= tz v <= 86400) ->
  forall ty, not_decimal_or_json ty = true ->
  forall uns v, wf_type ty = true -> wf_value ty uns v = true -> cell_ok ffmt tz efmt jsonp ty uns v.
Proof. exact proved_families. Qed.
Print Assumptions C09_proved_families.

(* ---- the cell lemma for EVERY column type, DECIMAL (C11) and JSON (C14) included.  jsonp_for efmt jsonp ty:
        ty is not a JSON column, or jsonp is Model.Json.print_json efmt, the model of printJSONData with the same
        'E' formatting oracle efmt that Spec.Values.text uses to render the doubles inside a document ---- *)
Theorem C09_cell_ok_all : forall ffmt tz efmt, (forall v, -86400 <= tz v <= 86400) ->
  forall jsonp ty uns v, jsonp_for efmt jsonp ty ->
  wf_type ty = true -> wf_value ty uns v = true -> cell_ok ffmt tz efmt jsonp ty uns v.
Proof. exact cell_ok_all. Qed.
Print Assumptions C09_cell_ok_all.

(* ---- bitmaps of any width, with any padding pattern in the unused bits of the last byte ---- *)
Theorem C09_bitmap_bit : forall pad bits i, (i < length bits)%nat ->
  bit (expect_bitmap pad bits) i = Ok (nth i bits false).
Proof. exact bitmap_bit_ok. Qed.
Print Assumptions C09_bitmap_bit.

(* BitCount counts the true bits among the n meaningful ones only: whatever the padding bits are, they
   are not counted (a population count over the bytes would count them) *)
Theorem C09_bitmap_count : forall pad bits,
  bit_count (expect_bitmap pad bits) = Ok (length (filter (fun b => b) bits)).
Proof. exact bitmap_count_ok. Qed.
Print Assumptions C09_bitmap_count.

Theorem C09_new_bitmap : forall pad pre bits rest,
  new_bitmap (pre ++ pack_bits_pad pad bits ++ rest) (length pre) (length bits)
    = Ok (expect_bitmap pad bits, (length pre + (length bits + 7) / 8)%nat).
Proof. exact new_bitmap_ok. Qed.
Print Assumptions C09_new_bitmap.

Theorem C09_pack_bits_length : forall bits, length (pack_bits bits) = ((length bits + 7) / 8)%nat.
Proof. exact pack_bits_length. Qed.
Print Assumptions C09_pack_bits_length.

(* what pack_bits_pad is: the same number of bytes; pattern 0 is the plain packing; the n meaningful bits are
   C09_bitmap_bit; and the unused bits of the last byte really are the pattern's (so the quantification over
   the pattern is not vacuous: the decoded bitmap does hold them, and Bit would return them if asked) *)
Theorem C09_pack_bits_pad_length : forall pad bits, length (pack_bits_pad pad bits) = ((length bits + 7) / 8)%nat.
Proof. exact pack_bits_pad_length. Qed.
Print Assumptions C09_pack_bits_pad_length.

Theorem C09_pack_bits_pad_0 : forall bits, pack_bits_pad 0 bits = pack_bits bits.
Proof. exact pack_bits_pad_0. Qed.
Print Assumptions C09_pack_bits_pad_0.

Theorem C09_bitmap_bit_padding : forall pad bits i, (length bits <= i < 8 * ((length bits + 7) / 8))%nat ->
  bit (expect_bitmap pad bits) i = Ok (Z.testbit pad (Z.of_nat (i mod 8))).
Proof. exact bitmap_bit_padding. Qed.
Print Assumptions C09_bitmap_bit_padding.

(* ---- non-vacuity: a 10-column update, 2 rows, NULLs and absent columns in both images
        (different presence patterns for the before and the after image), v2 with extra data ---- *)
(* padding as a MySQL master leaves it: 1s in the rows' NULL bitmaps and (after bitmap_set_all) in the presence bitmaps *)
Definition ex_cfg : cfg := {| c_crc := true; c_v2 := true; c_tid4 := false; c_hlen := 19; c_nsizes := 40;
                              c_pad_cols := 255; c_pad_null := 255; c_pad_tm := 0 |}.
Definition ex_specs : list colspec :=
  [([105; 100], (TLong, false)); ([110; 97; 109; 101], (TVarchar 300 false, false)); ([113], (TTiny, true));
   ([98], (TBlob 2 252, false)); ([116; 115], (TDateTime2 3, false)); ([101], (TEnum 1 false, false));
   ([100], (TDouble, false)); ([99], (TChar 10, false)); ([102], (TBit 12, false)); ([117], (TTimestamp2 0, false))].
Definition ex_cols : list (coltype * bool) := specs_cols ex_specs.
Definition ex_b1 : list cellv :=
  [CVal (VInt (-5)); CNull; CVal (VInt 200); CAbsent; CVal (VDateTime 2020 1 2 3 4 5 123);
   CAbsent; CAbsent; CAbsent; CVal (VBits [15; 255]); CAbsent].
Definition ex_b2 : list cellv :=
  [CNull; CVal (VBytes []); CVal (VInt 0); CAbsent; CNull; CAbsent; CAbsent; CAbsent; CNull; CAbsent].
Definition ex_a1 : list cellv :=
  [CVal (VInt 7); CVal (VBytes [104; 105]); CAbsent; CVal (VBytes []); CNull; CVal (VEnum 3);
   CVal (VFloat 4607182418800017408); CNull; CAbsent; CVal (VTimestamp 1600000000 0)].
Definition ex_a2 : list cellv :=
  [CNull; CNull; CAbsent; CNull; CVal (VDateTime 1999 12 31 23 59 59 0); CNull; CNull; CVal (VBytes [65]);
   CAbsent; CNull].
Definition ex_rows : rows_def :=
  {| rd_kind := 1; rd_id := 77; rd_flags := 1; rd_extra := [1; 2; 3];
     rd_before := [ex_b1; ex_b2]; rd_after := [ex_a1; ex_a2] |}.
Definition ex_t : table_def :=
  {| td_id := 77; td_flags := 1; td_db := [100]; td_name := [116];
     td_cols := map (fun p => (fst p, true)) ex_cols; td_optional := [] |}.
Definition ex_hdr (t : Z) : hdr := {| h_ts := 1600000000; h_type := t; h_sid := 1; h_next := 4096; h_flags := 0 |}.
Definition ex_ffmt (b x : Z) : bytes := [49].
Definition ex_tz (x : Z) : Z := 0.
Definition ex_jsonp (b : bytes) : res bytes := Err EJson.
Definition ex_efmt (bits : Z) : bytes := [].
Definition ex_ti : tinfo := {| ti_name := ([100], [116]); ti_cols := map (fun s => (cs_name s, cs_uns s)) ex_specs |}.

(* all column types, DECIMAL and JSON (C14) included: wf_cols only asks for valid type parameters (wf_type).
   Rows does not decode cells, so no oracle occurs. *)
Theorem C09_rows_roundtrip_all : forall c v h cols pt t r crc,
  wf_cfg c = true -> wf_cols cols -> wf_rows_def cols r ->
  map fst (td_cols t) = map fst cols ->
  h_type h = rows_type c (rd_kind r) ->
  (do ev <- strip_checksum56 (expect_format c v) (enc_ev c h (enc_rows_body c (map fst cols) r) crc);
   ev_rows (expect_format c v) (expect_table_map pt t) ev) = Ok (expect_rows c (map fst cols) r).
Proof. exact rows_roundtrip_all. Qed.
Print Assumptions C09_rows_roundtrip_all.

(* jsonp_for_cols efmt jsonp cols: no column is a JSON column, or jsonp is the model of printJSONData with the
   'E' formatting oracle efmt that the expected text (Spec.Values.text) uses for the doubles inside documents *)
Theorem C09_image_consumed_all : forall pc pn ffmt tz efmt jsonp tm ti specs img rest,
  (forall v, -86400 <= tz v <= 86400) -> wf_cols (specs_cols specs) -> jsonp_for_cols efmt jsonp (specs_cols specs) ->
  tm_types tm = map (fun s => code_of (cs_type s)) specs ->
  tm_meta tm = map (fun s => meta_of (cs_type s)) specs ->
  ti_cols ti = map (fun s => (cs_name s, cs_uns s)) specs ->
  wf_image (specs_cols specs) (present_bits img) img = true ->
  image_of ffmt tz jsonp tm ti (expect_bitmap pc (present_bits img)) (expect_bitmap pn (null_bits img))
           (Some (image_cells (map cs_type specs) img ++ rest))
  = Ok (Some (expect_columns ffmt tz efmt specs img)).
Proof. exact image_consumed_all. Qed.
Print Assumptions C09_image_consumed_all.

Example C09_update_10_columns :
  wf_cfg ex_cfg = true /\
  forallb (fun p => wf_type (fst p) && not_decimal_or_json (fst p)) ex_cols = true /\
  forallb (wf_image ex_cols (first_present (rd_before ex_rows) 10)) (rd_before ex_rows) = true /\
  forallb (wf_image ex_cols (first_present (rd_after ex_rows) 10)) (rd_after ex_rows) = true /\
  (do ev <- strip_checksum56 (expect_format ex_cfg [])
              (enc_ev ex_cfg (ex_hdr (rows_type ex_cfg 1)) (enc_rows_body ex_cfg (map fst ex_cols) ex_rows) [9; 9; 9; 9]);
   ev_rows (expect_format ex_cfg []) (expect_table_map 0 ex_t) ev) = Ok (expect_rows ex_cfg (map fst ex_cols) ex_rows) /\
  length (rs_rows (expect_rows ex_cfg (map fst ex_cols) ex_rows)) = 2%nat /\
  image_of ex_ffmt ex_tz ex_jsonp (expect_table_map 0 ex_t) ex_ti
           (expect_bitmap 255 (present_bits ex_a1)) (expect_bitmap 255 (null_bits ex_a1))
           (Some (image_cells (map cs_type ex_specs) ex_a1))
    = Ok (Some (expect_columns ex_ffmt ex_tz ex_efmt ex_specs ex_a1)) /\
  map (fun col => (c_empty col, c_data col)) (firstn 5 (expect_columns ex_ffmt ex_tz ex_efmt ex_specs ex_a1))
    = [(false, Some [55]); (false, Some [104; 105]); (true, None); (false, Some []); (false, None)].
Proof. repeat match goal with |- _ /\ _ => split end; vm_compute; reflexivity. Qed.

(* ---- non-vacuity of the padding: the same 10-column update (10 and the per-image counts of present columns,
        5 / 3 / 8 / 8, of the before images are not multiples of 8; partial images) written with padding bits set.  The padding is on the
        wire and in the decoded bitmaps; a population count over the bytes would see 14 present columns
        instead of 8; the decoded rows and the delivered cells are the same for every pattern tried. ---- *)
Definition ex_cfg_pad (pc pn : Z) : cfg :=
  {| c_crc := true; c_v2 := true; c_tid4 := false; c_hlen := 19; c_nsizes := 40; c_pad_cols := pc; c_pad_null := pn; c_pad_tm := 0 |}.
Definition ex_decode (c : cfg) : res rows :=
  do ev <- strip_checksum56 (expect_format c [])
             (enc_ev c (ex_hdr (rows_type c 1)) (enc_rows_body c (map fst ex_cols) ex_rows) [9; 9; 9; 9]);
  ev_rows (expect_format c []) (expect_table_map 0 ex_t) ev.
(* the observable content of a decoded bitmap: its width and its meaningful bits *)
Definition ex_bits (b : bitmap) : nat * list (res bool) := (bm_count b, map (bit b) (seq 0 (bm_count b))).
Definition ex_row_view (r : row) := (ex_bits (r_null_ident r), r_ident r, ex_bits (r_null_data r), r_data r).
Definition ex_view (x : res rows) :=
  match x with
  | Ok rs => Some (rs_flags rs, ex_bits (rs_ident_cols rs), ex_bits (rs_data_cols rs), map ex_row_view (rs_rows rs))
  | _ => None
  end.

Example C09_padding_bits_set :
  (* on the wire *)
  pack_bits_pad 0 (present_bits ex_a1) = [251; 2] /\ pack_bits_pad 255 (present_bits ex_a1) = [251; 254] /\
  pack_bits_pad 165 (present_bits ex_a1) = [251; 166] /\
  pack_bits_pad 0 (null_bits ex_b2) = [25] /\ pack_bits_pad 255 (null_bits ex_b2) = [249] /\
  pack_bits_pad 255 (null_bits ex_b1) = [226] /\ pack_bits_pad 255 (null_bits ex_a1) = [72] /\
  length (null_bits ex_b1) = 5%nat /\ length (null_bits ex_b2) = 5%nat /\
  (* in the decoded bitmaps; BitCount ignores it *)
  bit (expect_bitmap 255 (present_bits ex_a1)) 12 = Ok true /\ bit (expect_bitmap 0 (present_bits ex_a1)) 12 = Ok false /\
  bit_count (expect_bitmap 255 (present_bits ex_a1)) = Ok 8%nat /\
  fold_right (fun b acc => (length (filter (Z.testbit b) (map Z.of_nat (seq 0 8))) + acc)%nat) 0%nat
             (pack_bits_pad 255 (present_bits ex_a1)) = 14%nat /\
  (* the event decodes to the expected rows for each pattern (the theorem's conclusion, computed) *)
  forallb (fun p => wf_cfg (ex_cfg_pad (fst p) (snd p))) [(0, 0); (255, 255); (0, 255); (255, 0); (165, 90)] = true /\
  ex_decode (ex_cfg_pad 255 255) = Ok (expect_rows (ex_cfg_pad 255 255) (map fst ex_cols) ex_rows) /\
  ex_decode (ex_cfg_pad 0 255) = Ok (expect_rows (ex_cfg_pad 0 255) (map fst ex_cols) ex_rows) /\
  ex_decode (ex_cfg_pad 165 90) = Ok (expect_rows (ex_cfg_pad 165 90) (map fst ex_cols) ex_rows) /\
  (* the wire bytes differ, the decoded content does not *)
  enc_rows_body (ex_cfg_pad 255 255) (map fst ex_cols) ex_rows <> enc_rows_body (ex_cfg_pad 0 0) (map fst ex_cols) ex_rows /\
  ex_view (ex_decode (ex_cfg_pad 255 255)) = ex_view (ex_decode (ex_cfg_pad 0 0)) /\
  ex_view (ex_decode (ex_cfg_pad 165 90)) = ex_view (ex_decode (ex_cfg_pad 0 0)) /\
  ex_view (ex_decode (ex_cfg_pad 0 0)) <> None /\
  (* and the cells delivered from an image are the same whatever the patterns *)
  image_of ex_ffmt ex_tz ex_jsonp (expect_table_map 255 ex_t) ex_ti
           (expect_bitmap 255 (present_bits ex_b1)) (expect_bitmap 255 (null_bits ex_b1))
           (Some (image_cells (map cs_type ex_specs) ex_b1))
    = Ok (Some (expect_columns ex_ffmt ex_tz ex_efmt ex_specs ex_b1)) /\
  image_of ex_ffmt ex_tz ex_jsonp (expect_table_map 0 ex_t) ex_ti
           (expect_bitmap 165 (present_bits ex_b1)) (expect_bitmap 90 (null_bits ex_b1))
           (Some (image_cells (map cs_type ex_specs) ex_b1))
    = Ok (Some (expect_columns ex_ffmt ex_tz ex_efmt ex_specs ex_b1)).
Proof.
  repeat match goal with |- _ /\ _ => split end;
    try (vm_compute; reflexivity); try (vm_compute; discriminate).
Qed.

(* the hypotheses of the theorems hold for it *)
Example C09_update_10_columns_wf : proved_cols ex_cols /\ wf_rows_def ex_cols ex_rows.
Proof.
  split.
  - apply Forall_forall. intros p Hp.
    assert (F : forallb (fun p => wf_type (fst p) && not_decimal_or_json (fst p)) ex_cols = true) by (vm_compute; reflexivity).
    rewrite forallb_forall in F. specialize (F p Hp). apply andb_true_iff in F. exact F.
  - unfold wf_rows_def.
    split; [right; left; reflexivity|].
    split; [vm_compute; split; congruence|].
    split; [vm_compute; reflexivity|].
    split; [vm_compute; congruence|].
    split; intros _; unfold wf_images; apply Forall_forall; intros img Hi.
    + assert (F : forallb (wf_image ex_cols (first_present (rd_before ex_rows) (length ex_cols))) (rd_before ex_rows) = true)
        by (vm_compute; reflexivity).
      rewrite forallb_forall in F. exact (F img Hi).
    + assert (F : forallb (wf_image ex_cols (first_present (rd_after ex_rows) (length ex_cols))) (rd_after ex_rows) = true)
        by (vm_compute; reflexivity).
      rewrite forallb_forall in F. exact (F img Hi).
Qed.

(* ---------------------------------------------------------------------------------------------------------------
   Tie to the source.  The functions *_g below are generated from /repo on every run by harness/cmd/gotrans
   (gen/Trans*.v); the theorems say that, for ALL inputs, they compute what the hand-written model functions used in
   the statements above compute (res_sim: the same value, or both an error, or both a panic), under the premises Go's
   types provide.  A change to one of these Go functions that alters its behaviour makes the proof below fail. *)
From GB Require Import Model.Header Model.Events Model.Rbr Model.Cell Base.GoSem Proofs.TransTactics Proofs.TransEquivCell Proofs.TransEquivMeta Proofs.TransEquivBitmap Proofs.TransEquivHeader Proofs.TransEquivEvents Proofs.TransEquivRbr.
From GBGen Require Import TransCell TransMeta TransBitmap TransHeader TransEvents TransRbr.
Open Scope Z_scope.

Theorem C09_tie_cellLength : forall d pos typ meta,
  wf_bytes d -> 0 <= typ < 256 -> 0 <= meta < 65536 -> Z.of_nat pos < 2 ^ 62 ->
  res_sim (cellLength_g d (Z.of_nat pos) typ meta) (cell_length d pos typ meta).
Proof. exact cellLength_equiv. Qed.
Print Assumptions C09_tie_cellLength.

Theorem C09_tie_newBitmap : forall d pos count,
  Z.of_nat pos < 2 ^ 62 -> Z.of_nat count < 2 ^ 62 ->
  res_sim (newBitmap_g d (Z.of_nat pos) (Z.of_nat count)) (res_map Bitmap_pos_of (new_bitmap d pos count)).
Proof. exact newBitmap_equiv. Qed.
Print Assumptions C09_tie_newBitmap.

Theorem C09_tie_Bit : forall b i,
  Z.of_nat i < 2 ^ 62 -> res_sim (Bitmap_Bit_g (Bitmap_of b) (Z.of_nat i)) (bit b i).
Proof. exact Bitmap_Bit_equiv. Qed.
Print Assumptions C09_tie_Bit.

Theorem C09_tie_BitCount : forall fuel b,
  Z.of_nat (bm_count b) < 2 ^ 62 -> (bm_count b < fuel)%nat ->
  res_sim (Bitmap_BitCount_g fuel (Bitmap_of b)) (res_map Z.of_nat (bit_count b)).
Proof. exact Bitmap_BitCount_equiv. Qed.
Print Assumptions C09_tie_BitCount.

Theorem C09_tie_Rows : forall fuel ev f tm,
  wf_bytes ev -> hlen_byte f -> len ev < 2 ^ 61 -> wf_bytes (tm_types tm) -> meta_ok tm ->
  rows_event ev -> (17 * length ev + 2 < fuel)%nat ->
  res_sim (binlogEvent_Rows_g fuel ev (Format_of f) (TableMap_of tm)) (res_map Rows_of (ev_rows f tm ev)).
Proof. exact binlogEvent_Rows_equiv. Qed.
Print Assumptions C09_tie_Rows.


(* ---------------------------------------------------------------------------------------------------------------
   Non-vacuity with a JSON column (C14 at row level): a 3-column table (INT, JSON with a 4-byte length prefix,
   VARCHAR), a write event of two rows.  The first document is an object holding a nested array (inlined int16, a
   double, a string), an opaque negative TIME and an inlined literal; the second a large-format array with an
   opaque DECIMAL.  Everything is evaluated by vm_compute through the model (ev_rows, image_of with the model of
   printJSONData as JSON printer): the theorems' conclusions hold on it, and the delivered JSON text is shown. *)
From Coq Require Import String.
From GB Require Import Base.DecText Model.Json Spec.EncJson.
Open Scope Z_scope.

Definition exj_efmt (bits : Z) : bytes := str "1E+" ++ digs bits.
Definition exj_doc1 : jdoc :=
  JObj false [(str "a", JArr false [JInt16 1; JDouble 99; JStr (str "x")]); (str "t", JTime true 1 0 0 0); (str "n", JNull)].
Definition exj_doc2 : jdoc := JArr true [JDecimal 5 2 true [0; 1; 2] [3; 4]; JUint32 70000; JObj false []].
Definition exj_specs : list colspec :=
  [([105; 100], (TLong, false)); ([100; 111; 99], (TJson 4, false)); ([115], (TVarchar 10 false, false))].
Definition exj_cols : list (coltype * bool) := specs_cols exj_specs.
Definition exj_r1 : list cellv := [CVal (VInt 7); CVal (VJson exj_doc1); CVal (VBytes [104])].
Definition exj_r2 : list cellv := [CNull; CVal (VJson exj_doc2); CVal (VBytes [])].
Definition exj_rows : rows_def :=
  {| rd_kind := 0; rd_id := 78; rd_flags := 1; rd_extra := []; rd_before := []; rd_after := [exj_r1; exj_r2] |}.
Definition exj_t : table_def :=
  {| td_id := 78; td_flags := 1; td_db := [100]; td_name := [106];
     td_cols := map (fun p => (fst p, true)) exj_cols; td_optional := [] |}.
Definition exj_ti : tinfo := {| ti_name := ([100], [106]); ti_cols := map (fun s => (cs_name s, cs_uns s)) exj_specs |}.

Example C09_json_column :
  forallb (fun p => wf_type (fst p)) exj_cols = true /\
  map (fun p => not_json (fst p)) exj_cols = [true; false; true] /\
  forallb (wf_image exj_cols (first_present (rd_after exj_rows) 3)) (rd_after exj_rows) = true /\
  (* the rows event *)
  (do ev <- strip_checksum56 (expect_format ex_cfg [])
              (enc_ev ex_cfg (ex_hdr (rows_type ex_cfg 0)) (enc_rows_body ex_cfg (map fst exj_cols) exj_rows) [9; 9; 9; 9]);
   ev_rows (expect_format ex_cfg []) (expect_table_map 0 exj_t) ev) = Ok (expect_rows ex_cfg (map fst exj_cols) exj_rows) /\
  List.length (rs_rows (expect_rows ex_cfg (map fst exj_cols) exj_rows)) = 2%nat /\
  (* the images, column by column, with the model of printJSONData *)
  Streamer.image_of ex_ffmt ex_tz (print_json exj_efmt) (expect_table_map 0 exj_t) exj_ti
           (expect_bitmap 255 (present_bits exj_r1)) (expect_bitmap 255 (null_bits exj_r1))
           (Some (image_cells (map cs_type exj_specs) exj_r1 ++ [1; 2; 3]))
    = Ok (Some (expect_columns ex_ffmt ex_tz exj_efmt exj_specs exj_r1)) /\
  Streamer.image_of ex_ffmt ex_tz (print_json exj_efmt) (expect_table_map 0 exj_t) exj_ti
           (expect_bitmap 255 (present_bits exj_r2)) (expect_bitmap 255 (null_bits exj_r2))
           (Some (image_cells (map cs_type exj_specs) exj_r2))
    = Ok (Some (expect_columns ex_ffmt ex_tz exj_efmt exj_specs exj_r2)) /\
  (* what is delivered *)
  map (fun col => (c_type col, c_empty col, c_data col)) (expect_columns ex_ffmt ex_tz exj_efmt exj_specs exj_r1)
    = [(3, false, Some [55]);
       (245, false, Some (str "JSON_OBJECT('a',JSON_ARRAY(1,1E+99,'x'),'t',CAST('-01:00:00' AS TIME(6)),'n',null)"));
       (15, false, Some [104])] /\
  map (fun col => c_data col) (expect_columns ex_ffmt ex_tz exj_efmt exj_specs exj_r2)
    = [None; Some (str "JSON_ARRAY(CAST('-12.34' AS DECIMAL(5,2)),70000,JSON_OBJECT())"); Some []] /\
  (* with a JSON printer that fails, the conversion of the image fails (None = error return): the premise on the
     printer is used *)
  Streamer.image_of ex_ffmt ex_tz ex_jsonp (expect_table_map 0 exj_t) exj_ti
           (expect_bitmap 255 (present_bits exj_r1)) (expect_bitmap 255 (null_bits exj_r1))
           (Some (image_cells (map cs_type exj_specs) exj_r1)) = Ok None.
Proof. repeat match goal with |- _ /\ _ => split end; vm_compute; reflexivity. Qed.

(* the hypotheses of C09_rows_roundtrip_all / C09_image_consumed_all hold for it *)
Example C09_json_column_wf :
  wf_cols exj_cols /\ jsonp_for_cols exj_efmt (print_json exj_efmt) exj_cols /\ wf_rows_def exj_cols exj_rows.
Proof.
  split; [|split].
  - apply Forall_forall. intros p Hp.
    assert (F : forallb (fun p => wf_type (fst p)) exj_cols = true) by (vm_compute; reflexivity).
    rewrite forallb_forall in F. exact (F p Hp).
  - right. reflexivity.
  - unfold wf_rows_def.
    split; [left; reflexivity|].
    split; [vm_compute; split; congruence|].
    split; [vm_compute; reflexivity|].
    split; [vm_compute; congruence|].
    split; intros H; [exfalso; apply H; reflexivity|].
    unfold wf_images; apply Forall_forall; intros img Hi.
    assert (F : forallb (wf_image exj_cols (first_present (rd_after exj_rows) (List.length exj_cols))) (rd_after exj_rows) = true)
      by (vm_compute; reflexivity).
    rewrite forallb_forall in F. exact (F img Hi).
Qed.

(* ---------------------------------------------------------------------------------------------------------------
   The value decoder tied to the source, and the agreement clause at source level.  CellBytes (all 23 cases of its
   switch) is translated from /repo on every run (gen/TransCellBytes.v) and proved equal to the model function
   cell_bytes for every input (C09_tie_CellBytes; flat forgets nil vs empty, premises: bytes, uint16 metadata, the
   position is an index into the row data, fuel).  Composed with C09_tie_cellLength and C09_length_value_agree this gives
   the clause "the per-type length rule and the per-type value decoder always agree on the size of a cell" about the
   translations of BOTH Go functions, for all row data, positions, type codes and metadata
   (C09_source_length_value_agree); the hand-written model occurs only in the proof. *)
From GB Require Proofs.TransEquivCellBytesDefs Proofs.TransEquivCellBytes Proofs.SourceCells.
From GBGen Require TransCellBytes.
Theorem C09_tie_CellBytes : forall ffmt tz jsonp fuel d pos typ meta uns,
  (1000 <= fuel)%nat -> wf_bytes d -> 0 <= meta < 65536 -> Z.of_nat pos < 2 ^ 62 -> (pos <= List.length d)%nat ->
  res_sim (TransCellBytes.CellBytes_g ffmt (print_timestamp tz) jsonp fuel d (Z.of_nat pos) typ meta uns)
          (TransEquivCellBytesDefs.flat (cell_bytes ffmt tz jsonp d pos typ meta uns)).
Proof. exact TransEquivCellBytes.CellBytes_equiv. Qed.
Print Assumptions C09_tie_CellBytes.

Theorem C09_source_length_value_agree : forall ffmt tz jsonp fuel d pos typ meta uns t l,
  (1000 <= fuel)%nat -> wf_bytes d -> 0 <= typ < 256 -> 0 <= meta < 65536 -> Z.of_nat pos < 2 ^ 62 -> (pos <= List.length d)%nat ->
  (typ = K_TypeTimestamp2 \/ typ = K_TypeDateTime2 -> 0 <= meta <= 6) ->
  TransCellBytes.CellBytes_g ffmt (print_timestamp tz) jsonp fuel d (Z.of_nat pos) typ meta uns = Ok (t, l) ->
  cellLength_g d (Z.of_nat pos) typ meta = Ok l.
Proof. exact SourceCells.source_length_value_agree. Qed.
Print Assumptions C09_source_length_value_agree.

(* ---------------------------------------------------------------------------------------------------------------
   Source pins.  The offset bookkeeping over an image (getValuesFromRow / getIdentifiesFromRow) and the place where a
   re-announced table id gets its new table map (parseEvents) are modelled by hand (Model/Streamer.v: closures, maps,
   interfaces - outside what gotrans translates); gosync regenerates their normalised text on every run and it must equal
   the snapshot the model was validated against.  An edit makes the Example fail; the check then looks for a failing
   input with the harness (runRetyped: table maps of another shape under the same id between two rows events). *)
From GB Require Proofs.SourcePins Spec.SourceSnapshot.
From GBGen Require Source.
Example C09_pin_getValuesFromRow : Source.src_getValuesFromRow = SourceSnapshot.src_getValuesFromRow.
Proof. exact SourcePins.pin_getValuesFromRow. Qed.
Example C09_pin_getIdentifiesFromRow : Source.src_getIdentifiesFromRow = SourceSnapshot.src_getIdentifiesFromRow.
Proof. exact SourcePins.pin_getIdentifiesFromRow. Qed.
Example C09_pin_parseEvents : Source.src_parseEvents = SourceSnapshot.src_parseEvents.
Proof. exact SourcePins.pin_parseEvents. Qed.
