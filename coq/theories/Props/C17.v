(* C17 — Malformed packets are rejected by the validity gate, without panic.
   This file contains only statements closed by `exact`, non-vacuity
   Examples and Print Assumptions. *)
From GB Require Import Base.Prelude Model.Header Model.Streamer Spec.EncHeader Proofs.HeaderProofs Proofs.StreamProofs Proofs.StreamProofs2.
Open Scope Z_scope.

(* (a1) the gate accepts exactly the buffers with a full header whose length field equals the buffer length *)
Theorem C17_is_valid_exact : forall ev,
  wf_bytes ev -> len ev < 2 ^ 32 ->
  (is_valid ev = Ok true <-> 19 <= len ev /\ le_dec (firstn 4 (skipn 9 ev)) = len ev).
Proof. exact is_valid_exact. Qed.
Print Assumptions C17_is_valid_exact.

(* (a2) the test itself never fails, whatever the bytes *)
Theorem C17_is_valid_total : forall ev, exists b, is_valid ev = Ok b.
Proof. exact is_valid_total. Qed.
Print Assumptions C17_is_valid_total.

(* (a3) header accessors never fail on accepted buffers *)
Theorem C17_accessors_total : forall ev,
  is_valid ev = Ok true ->
  (exists a, ev_type ev = Ok a) /\ (exists a, ev_flags ev = Ok a) /\
  (exists a, ev_timestamp ev = Ok a) /\ (exists a, ev_server_id ev = Ok a) /\
  (exists a, ev_length ev = Ok a) /\ (exists a, ev_next_position ev = Ok a).
Proof. exact accessors_total. Qed.
Print Assumptions C17_accessors_total.

(* (b) the streamer applies the test to every event before touching it: a rejected packet ends the loop with an
   error; the state (position, buffered transaction, handler calls, deliveries) is untouched - so no partial
   transaction is delivered and the resume position stays the last accepted commit boundary (C04) *)
Theorem C17_gate : forall ffmt tz jsonp verdict mp st ev,
  is_valid ev = Ok false -> step ffmt tz jsonp verdict mp st ev = Ok (st, Some CInvalid).
Proof. exact gate_step. Qed.
Print Assumptions C17_gate.

Theorem C17_gate_decode : forall ffmt tz jsonp mp f tbls ev,
  is_valid ev = Ok false -> decode ffmt tz jsonp mp f tbls ev = AStop CInvalid.
Proof. exact gate_decode. Qed.
Print Assumptions C17_gate_decode.

Example C17_nonvacuous :
  let ev := enc_event {| h_ts := 7; h_type := 16; h_sid := 1; h_next := 120; h_flags := 0 |} [1;2;3;4;5;6;7;8] in
  wf_bytesb ev = true /\ (len ev <? 2 ^ 32) = true /\ is_valid ev = Ok true /\ is_valid (firstn 20 ev) = Ok false.
Proof. repeat split; vm_compute; reflexivity. Qed.

(* ---------------------------------------------------------------------------------------------------------------
   Tie to the source.  The functions *_g below are generated from /repo on every run by harness/cmd/gotrans
   (gen/Trans*.v); the theorems say that, for ALL inputs, they compute what the hand-written model functions used in
   the statements above compute (res_sim: the same value, or both an error, or both a panic), under the premises Go's
   types provide.  A change to one of these Go functions that alters its behaviour makes the proof below fail. *)
From GB Require Import Model.Header Model.Events Model.Rbr Model.Cell Base.GoSem Proofs.TransTactics Proofs.TransEquivCell Proofs.TransEquivMeta Proofs.TransEquivBitmap Proofs.TransEquivHeader Proofs.TransEquivEvents Proofs.TransEquivRbr.
From GBGen Require Import TransCell TransMeta TransBitmap TransHeader TransEvents TransRbr.
Open Scope Z_scope.

Theorem C17_tie_IsValid : forall ev, res_sim (binlogEvent_IsValid_g ev) (is_valid ev).
Proof. exact binlogEvent_IsValid_equiv. Qed.
Print Assumptions C17_tie_IsValid.

Theorem C17_tie_Length : forall ev, res_sim (binlogEvent_Length_g ev) (ev_length ev).
Proof. exact binlogEvent_Length_equiv. Qed.
Print Assumptions C17_tie_Length.

