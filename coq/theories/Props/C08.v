(* C08 — Delivered transactions are stable: no aliasing of transport buffers.
   In the functional model values are immutable, so stability is about WHERE the delivered bytes live:
   cell_view (Model/Alias.v) says for which column types CellBytes hands out a sub-slice of the row image
   (which is part of the event's private copy of the packet: readBinlogEvent makes and copies, see
   C08_private_copy) and for which it builds a new buffer.  The harness checks the same facts on the
   implementation by pointer identity (views) and non-overlap (fresh values, the ZeroTimestamp constant). *)
From GB Require Import Base.Prelude Model.Cell Model.Alias Proofs.AliasProofs.
From GBGen Require Import Structure.
Open Scope Z_scope.

(* a view is exactly the delivered value and lies inside the bytes its cell consumed *)
Theorem C08_view_sound : forall ffmt tz jsonp d pos typ meta uns a n,
  0 <= meta -> cell_view d pos typ meta = Some (a, n) ->
  exists l, cell_bytes ffmt tz jsonp d pos typ meta uns = Ok (Some (firstn n (skipn a d)), l) /\
            (pos <= a)%nat /\ Z.of_nat a + Z.of_nat n <= Z.of_nat pos + l.
Proof. exact view_sound. Qed.
Print Assumptions C08_view_sound.

(* values of cells decoded one after the other never overlap: overwriting the bytes of one delivered value
   cannot change another value of the same image; different events have different private buffers *)
Theorem C08_views_disjoint : forall ffmt tz jsonp d p1 t1 m1 u1 a1 n1 l1 v1 p2 t2 m2 a2 n2,
  0 <= m1 -> cell_view d p1 t1 m1 = Some (a1, n1) ->
  cell_bytes ffmt tz jsonp d p1 t1 m1 u1 = Ok (v1, l1) ->
  Z.of_nat p1 + l1 <= Z.of_nat p2 ->
  0 <= m2 -> cell_view d p2 t2 m2 = Some (a2, n2) ->
  (a1 + n1 <= a2)%nat.
Proof. exact views_disjoint. Qed.
Print Assumptions C08_views_disjoint.

(* source shape (gosync): readBinlogEvent contains exactly one make and one copy of the packet payload *)
Example C08_private_copy : readBinlogEvent_make_copy = (1, 1).
Proof. reflexivity. Qed.

Example C08_nonvacuous :
  cell_view [3; 97; 98; 99; 7] 0 15 300 = None /\          (* 2-byte prefix 3+97*256 exceeds the data *)
  cell_view [3; 0; 97; 98; 99; 7] 0 15 300 = Some (2%nat, 3%nat) /\
  cell_view [0; 0; 0; 0] 0 7 0 = None /\                    (* zero TIMESTAMP: a fresh copy, not a view *)
  cell_view [5; 0] 0 254 (247 * 256 + 1) = None.            (* ENUM: decimal text in a new buffer *)
Proof. repeat split; vm_compute; reflexivity. Qed.

(* ---------------------------------------------------------------------------------------------------------------
   Source pins.  The model functions used above are a hand-written reading of these Go functions (they have closures,
   channels, interfaces or maps, which the translator gotrans does not accept).  gosync regenerates their normalised
   text (logging calls and comments removed) into gen/Source.v on every run; it must equal the committed snapshot
   Spec/SourceSnapshot.v the models were written and validated against.  When one of them is edited the Example
   naming it fails, the check runs the thorough harness in search of a failing input, and reports the property as no
   longer shown to hold (with the input, or no-failing-input-found). *)
From GB Require Proofs.SourcePins Spec.SourceSnapshot.
From GBGen Require Source.
Example C08_pin_readBinlogEvent : Source.src_readBinlogEvent = SourceSnapshot.src_readBinlogEvent.
Proof. exact SourcePins.pin_readBinlogEvent. Qed.
Example C08_pin_parseEvents : Source.src_parseEvents = SourceSnapshot.src_parseEvents.
Proof. exact SourcePins.pin_parseEvents. Qed.
Example C08_pin_getValuesFromRow : Source.src_getValuesFromRow = SourceSnapshot.src_getValuesFromRow.
Proof. exact SourcePins.pin_getValuesFromRow. Qed.
Example C08_pin_getIdentifiesFromRow : Source.src_getIdentifiesFromRow = SourceSnapshot.src_getIdentifiesFromRow.
Proof. exact SourcePins.pin_getIdentifiesFromRow. Qed.
Example C08_pin_newColumnData : Source.src_newColumnData = SourceSnapshot.src_newColumnData.
Proof. exact SourcePins.pin_newColumnData. Qed.
Example C08_pin_printTimestamp : Source.src_printTimestamp = SourceSnapshot.src_printTimestamp.
Proof. exact SourcePins.pin_printTimestamp. Qed.
