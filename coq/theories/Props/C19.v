(* C19 — GTIDs survive every encoding; MariaDB sets keep one position per domain.
   Only statements closed by `exact`, Print Assumptions and non-vacuity Examples.
   Model: Model/Gtid.v + Base/GoText.v (strings.Split/SplitN/TrimSpace, strconv.ParseInt/ParseUint,
   encoding/hex).  Specification: Spec/GtidSpec.v (canon, encoders of what the master writes).

   DEFECT D6 (pinned tree): MariadbGTIDSet.AddGTID writes into the receiver's backing array.
   `maria_add_pinned` models it with an explicit "receiver after the call" component and
   C19_maria_add_pure_pinned_refuted exhibits the witness; C19_maria_add_pure is stated for the
   behaviour selected by the switch `Model.Gtid.maria_add` and is provable only for the repaired code. *)
From GB Require Import Base.Prelude Base.GoText Model.Gtid Spec.GtidSpec.
From GB Require Import Proofs.GtidBase Proofs.GtidTextProofs Proofs.GtidSetTextProofs.
From Coq Require Import String.
Open Scope Z_scope.

(* ---- SID ---- *)
Theorem C19_sid_text : forall x, wf_sid x -> parse_sid (sid_string x) = Ok x.
Proof. exact sid_text. Qed.
Print Assumptions C19_sid_text.

(* ---- single GTIDs, flavor parser ---- *)
Theorem C19_gtid56_text : forall g : g56,
  wf_sid (g_sid g) /\ - 2 ^ 63 <= g_seq g < 2 ^ 63 -> parse_g56 (g56_string g) = Ok g.
Proof. exact g56_text. Qed.
Print Assumptions C19_gtid56_text.

Theorem C19_mgtid_text : forall g : mgtid,
  0 <= m_dom g < 2 ^ 32 /\ 0 <= m_srv g < 2 ^ 32 /\ 0 <= m_seq g < 2 ^ 64 ->
  parse_mgtid (mgtid_string g) = Ok g.
Proof. exact mgtid_text. Qed.
Print Assumptions C19_mgtid_text.

(* ---- flavor-tagged encoding (EncodeGTID / DecodeGTID), both flavors and nil ---- *)
Theorem C19_encode_decode : forall g : gtid, wf_gtid g -> decode_gtid (encode_gtid (Some g)) = Ok (Some g).
Proof. exact gtid_encode_decode. Qed.
Print Assumptions C19_encode_decode.

Theorem C19_encode_decode_nil : decode_gtid (encode_gtid None) = Ok None.
Proof. exact gtid_encode_decode_nil. Qed.
Print Assumptions C19_encode_decode_nil.

(* ---- MySQL 5.6 sets: text (0 members included: "" parses to the empty set) ---- *)
Theorem C19_set56_text : forall s : gset, canon s -> parse_set56 (set56_string s) = Ok s.
Proof. exact set56_text. Qed.
Print Assumptions C19_set56_text.

(* ---- MySQL 5.6 sets: SID block; trailing bytes are ignored ---- *)
Theorem C19_sid_block : forall (s : gset) rest,
  canon s -> len s < 2 ^ 64 -> from_sid_block (sid_block s ++ rest) = Ok s.
Proof. exact sid_block_roundtrip. Qed.
Print Assumptions C19_sid_block.

(* SIDBlock writes exactly what the specification says the master writes *)
Theorem C19_sid_block_is_spec : forall s : gset, canon s -> len s < 2 ^ 64 -> sid_block s = enc_sid_block s.
Proof. exact sid_block_is_spec. Qed.
Print Assumptions C19_sid_block_is_spec.

(* the explicit fuel of the SID-block reader is never the reason of a failure *)
Theorem C19_sid_block_fuel : forall d, from_sid_block d <> Err EOutOfFuel.
Proof. exact from_sid_block_fuel. Qed.
Print Assumptions C19_sid_block_fuel.

(* ---- events: decoders return the identifiers the master wrote ---- *)
Theorem C19_gtid_event : forall flags (u : sid) gno rest,
  wf_sid u -> 0 <= gno < 2 ^ 63 ->
  gtid_event56 (enc_gtid_event flags u gno rest) = Ok {| g_sid := u; g_seq := gno |}.
Proof. exact gtid_event. Qed.
Print Assumptions C19_gtid_event.

Theorem C19_prev_gtids_event : forall (s : gset) rest,
  canon s -> len s < 2 ^ 64 -> prev_gtids_event56 (enc_sid_block s ++ rest) = Ok s.
Proof. exact prev_gtids_event. Qed.
Print Assumptions C19_prev_gtids_event.

Theorem C19_maria_gtid_event : forall seq dom flags2 server rest,
  0 <= seq < 2 ^ 64 -> 0 <= dom < 2 ^ 32 ->
  gtid_event_maria (enc_maria_gtid_event seq dom flags2 rest) server =
  Ok ({| m_dom := dom; m_srv := server; m_seq := seq |}, Z.land flags2 1 =? 0).
Proof. exact maria_gtid_event. Qed.
Print Assumptions C19_maria_gtid_event.

(* ---- MariaDB sets ---- *)
Theorem C19_mset_text : forall s : mset, s <> [] -> Forall wf_mgtid s -> parse_mset (mset_string s) = Ok s.
Proof. exact mset_text. Qed.
Print Assumptions C19_mset_text.

(* at most one position per domain is preserved by AddGTID *)
Theorem C19_maria_one_per_domain : forall s g,
  NoDup (map m_dom s) -> NoDup (map m_dom (fst (maria_add s g))).
Proof. exact maria_one_per_domain. Qed.
Print Assumptions C19_maria_one_per_domain.

(* containment compares sequence numbers within the domain *)
Theorem C19_maria_contains : forall s g,
  NoDup (map m_dom s) ->
  (maria_contains_gtid s g = true <-> exists h, In h s /\ m_dom h = m_dom g /\ m_seq g <= m_seq h).
Proof. exact maria_contains_spec. Qed.
Print Assumptions C19_maria_contains.

(* AddGTID: the result covers the added GTID and leaves the other domains alone *)
Theorem C19_maria_add_covers : forall s g, maria_contains_gtid (fst (maria_add s g)) g = true.
Proof. exact maria_add_covers_switch. Qed.
Print Assumptions C19_maria_add_covers.

Theorem C19_maria_add_other_domains : forall s g h,
  m_dom h <> m_dom g -> (In h (fst (maria_add s g)) <-> In h s).
Proof. exact maria_add_other_domains_switch. Qed.
Print Assumptions C19_maria_add_other_domains.

(* adding to a set never alters the original: the receiver after the call is the receiver *)
Theorem C19_maria_add_pure : forall s g, snd (maria_add s g) = s.
Proof. exact maria_add_pure. Qed.
Print Assumptions C19_maria_add_pure.

(* ... which the pinned code violates (defect D6) *)
Theorem C19_maria_add_pure_pinned_refuted : ~ (forall s g, snd (maria_add_pinned s g) = s).
Proof. exact maria_add_pure_pinned_refuted. Qed.
Print Assumptions C19_maria_add_pure_pinned_refuted.

(* the executable covering test used by the harness decides the specification relation *)
Theorem C19_maria_coversb_reflects : forall l d q, maria_coversb l d q = true <-> maria_covers l d q.
Proof. exact maria_coversb_ok. Qed.
Print Assumptions C19_maria_coversb_reflects.

(* ---- non-vacuity and golden anchors ---- *)
Definition ex_u (b : Z) : sid := [b; 1; 2; 3; 4; 5; 6; 7; 8; 9; 10; 11; 12; 13; 14; 255].
Definition ex_set : gset :=
  [(ex_u 0, [(1, 5); (7, 9); (20, 20)]); (ex_u 1, [(3, 3)]); (ex_u 128, [(1, 2 ^ 63 - 2)]); (ex_u 255, [(2 ^ 63 - 1, 2 ^ 63 - 1)])].

Example C19_nonvacuous_text :
  set56_string ex_set = str "00010203-0405-0607-0809-0a0b0c0d0eff:1-5:7-9:20,01010203-0405-0607-0809-0a0b0c0d0eff:3,80010203-0405-0607-0809-0a0b0c0d0eff:1-9223372036854775806,ff010203-0405-0607-0809-0a0b0c0d0eff:9223372036854775807"%string /\
  parse_set56 (set56_string ex_set) = Ok ex_set /\
  from_sid_block (sid_block ex_set) = Ok ex_set /\
  (* the parser normalises order, drops empty intervals and whole members, accepts '+', upper-case hex and spaces *)
  parse_set56 (str " 00010203-0405-0607-0809-0A0B0C0D0EFF:7-9:+1-5:4-2 ,, 01010203-0405-0607-0809-0a0b0c0d0eff:5-1"%string) = Ok [(ex_u 0, [(1, 5); (7, 9)])] /\
  parse_set56 (str "00010203-0405-0607-0809-0a0b0c0d0eff:0-5"%string) = Err EOther /\
  parse_set56 [] = Ok [].
Proof. repeat split; vm_compute; reflexivity. Qed.

Example C19_nonvacuous_gtids :
  let g := {| g_sid := ex_u 67; g_seq := 2 ^ 63 - 1 |} in
  let m := {| m_dom := 2 ^ 32 - 1; m_srv := 0; m_seq := 2 ^ 64 - 1 |} in
  encode_gtid (Some (G56 g)) = str "MySQL56/43010203-0405-0607-0809-0a0b0c0d0eff:9223372036854775807"%string /\
  encode_gtid (Some (GMaria m)) = str "MariaDB/4294967295-0-18446744073709551615"%string /\
  decode_gtid (encode_gtid (Some (G56 g))) = Ok (Some (G56 g)) /\
  decode_gtid (encode_gtid (Some (GMaria m))) = Ok (Some (GMaria m)) /\
  decode_gtid (str "MySQL56/43010203-0405-0607-0809-0a0b0c0d0eff:+7"%string) = Ok (Some (G56 {| g_sid := ex_u 67; g_seq := 7 |})) /\
  decode_gtid (str "MariaDB/+1-2-3"%string) = Err EOther /\
  decode_gtid (str "1-2-3"%string) = Err EOther.
Proof. repeat split; vm_compute; reflexivity. Qed.

(* golden anchors: event bodies captured from real servers (replication/binlog_event_mysql56_test.go,
   binlog_event_mariadb_test.go) are what the specification's encoders produce for the identifiers
   recorded in those tests, and the model decodes them to these identifiers *)
Example C19_golden_mysql56_gtid_event :
  let body := [1; 67; 145; 146; 189; 243; 124; 17; 228; 187; 235; 2; 66; 172; 17; 3; 90; 4; 0; 0; 0; 0; 0; 0; 0] in
  let u := [67; 145; 146; 189; 243; 124; 17; 228; 187; 235; 2; 66; 172; 17; 3; 90] in
  enc_gtid_event 1 u 4 [] = body /\ gtid_event56 body = Ok {| g_sid := u; g_seq := 4 |} /\
  g56_string {| g_sid := u; g_seq := 4 |} = str "439192bd-f37c-11e4-bbeb-0242ac11035a:4"%string.
Proof. repeat split; vm_compute; reflexivity. Qed.

Example C19_golden_mariadb_gtid_events :
  let standalone := [9; 0; 0; 0; 0; 0; 0; 0; 0; 0; 0; 0; 1; 0; 0; 0; 0; 0; 0] in
  let begin_ := [10; 0; 0; 0; 0; 0; 0; 0; 0; 0; 0; 0; 0; 0; 0; 0; 0; 0; 0] in
  enc_maria_gtid_event 9 0 1 [0; 0; 0; 0; 0; 0] = standalone /\
  enc_maria_gtid_event 10 0 0 [0; 0; 0; 0; 0; 0] = begin_ /\
  gtid_event_maria standalone 62344 = Ok ({| m_dom := 0; m_srv := 62344; m_seq := 9 |}, false) /\
  gtid_event_maria begin_ 62344 = Ok ({| m_dom := 0; m_srv := 62344; m_seq := 10 |}, true).
Proof. repeat split; vm_compute; reflexivity. Qed.

Example C19_nonvacuous_maria :
  let s := [{| m_dom := 0; m_srv := 7; m_seq := 10 |}; {| m_dom := 3; m_srv := 1; m_seq := 2 ^ 64 - 1 |}] in
  parse_mset (mset_string s) = Ok s /\
  maria_add_fixed s {| m_dom := 3; m_srv := 9; m_seq := 5 |} = (s, s) /\
  maria_add_fixed s {| m_dom := 0; m_srv := 9; m_seq := 11 |}
    = ([{| m_dom := 0; m_srv := 9; m_seq := 11 |}; {| m_dom := 3; m_srv := 1; m_seq := 2 ^ 64 - 1 |}], s) /\
  maria_add_pinned s {| m_dom := 0; m_srv := 9; m_seq := 11 |}
    = ([{| m_dom := 0; m_srv := 9; m_seq := 11 |}; {| m_dom := 3; m_srv := 1; m_seq := 2 ^ 64 - 1 |}],
       [{| m_dom := 0; m_srv := 9; m_seq := 11 |}; {| m_dom := 3; m_srv := 1; m_seq := 2 ^ 64 - 1 |}]) /\
  fst (maria_add_fixed s {| m_dom := 5; m_srv := 9; m_seq := 1 |}) = s ++ [{| m_dom := 5; m_srv := 9; m_seq := 1 |}] /\
  maria_contains_gtid s {| m_dom := 0; m_srv := 1; m_seq := 10 |} = true /\
  maria_contains_gtid s {| m_dom := 0; m_srv := 1; m_seq := 11 |} = false /\
  maria_contains_gtid s {| m_dom := 1; m_srv := 1; m_seq := 0 |} = false.
Proof. repeat split; vm_compute; reflexivity. Qed.
