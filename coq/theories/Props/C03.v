(* C03 — Position labels chain and are exact resume points. *)
From GB Require Import Base.Prelude Model.Events Model.Streamer Spec.Units Proofs.StreamProofs.
Open Scope Z_scope.

(* the transaction of a unit starts at the position reached by the units before it (the previous end label, the
   target of an intervening rotation, or the initial position) and ends at its commit event's label in the
   then-current file; by C02_grouping these are the labels of the delivered transactions *)
Theorem C03_labels_chain : forall p us1 u us2 t,
  In t (fst (spec_unit (snd (spec_run p us1)) u)) ->
  In t (fst (spec_run p (us1 ++ u :: us2))) /\
  t_now t = snd (spec_run p us1) /\
  t_next t = snd (spec_run p (us1 ++ [u])).
Proof. exact labels_chain. Qed.
Print Assumptions C03_labels_chain.

Theorem C03_label_fields : forall p u t, In t (fst (spec_unit p u)) ->
  t_now t = p /\ t_next t = snd (spec_unit p u) /\ p_file (t_next t) = p_file p.
Proof. exact spec_unit_labels. Qed.
Print Assumptions C03_label_fields.

(* starting a new stream at the position reached after us1 yields exactly the remaining transactions, with
   identical contents and labels: nothing skipped, nothing repeated *)
Theorem C03_resume_exact : forall verdict, (forall k, verdict k = true) -> forall p us1 us2 f,
  let q := snd (spec_run p us1) in
  exists st', arun verdict (init_state q) (ANop :: AFormat f :: events us2) = (st', None) /\
              delivered st' = fst (spec_run q us2) /\
              fst (spec_run p (us1 ++ us2)) = fst (spec_run p us1) ++ fst (spec_run q us2).
Proof. exact resume_exact. Qed.
Print Assumptions C03_resume_exact.

Example C03_nonvacuous :
  let e := {| se_type := 4; se_table := ([100], [116]); se_query := zero_query; se_ts := 7; se_values := []; se_ids := [] |} in
  let us1 := [UTx [{| st_ev := e; st_next := 200; st_ts := 7 |}] 4294967295 8; URotate [98] 4] in
  let us2 := [UAuto {| st_ev := e; st_next := 150; st_ts := 10 |}] in
  snd (spec_run {| p_file := [97]; p_off := 120 |} us1) = {| p_file := [98]; p_off := 4 |} /\
  map t_next (fst (spec_run {| p_file := [97]; p_off := 120 |} (us1 ++ us2))) =
    [{| p_file := [97]; p_off := 4294967295 |}; {| p_file := [98]; p_off := 150 |}].
Proof. split; vm_compute; reflexivity. Qed.

(* ---------------------------------------------------------------------------------------------------------------
   Source pins.  The model functions used above are a hand-written reading of these Go functions (they have closures,
   channels, interfaces or maps, which the translator gotrans does not accept).  gosync regenerates their normalised
   text (logging calls and comments removed) into gen/Source.v on every run; it must equal the committed snapshot
   Spec/SourceSnapshot.v the models were written and validated against.  When one of them is edited the Example
   naming it fails, the check runs the thorough harness in search of a failing input, and reports the property as no
   longer shown to hold (with the input, or no-failing-input-found). *)
From GB Require Proofs.SourcePins Spec.SourceSnapshot.
From GBGen Require Source.
Example C03_pin_parseEvents : Source.src_parseEvents = SourceSnapshot.src_parseEvents.
Proof. exact SourcePins.pin_parseEvents. Qed.
Example C03_pin_Stream : Source.src_Stream = SourceSnapshot.src_Stream.
Proof. exact SourcePins.pin_Stream. Qed.
Example C03_pin_startDumpFromBinlogPosition : Source.src_startDumpFromBinlogPosition = SourceSnapshot.src_startDumpFromBinlogPosition.
Proof. exact SourcePins.pin_startDumpFromBinlogPosition. Qed.
