(* C05 — Stream always terminates and leaves nothing behind; Error() never blocks.
   Statements about the protocol model Model/Conn.v, over ALL schedules (`reachable c s` = any label
   sequence from init; no bound on packets or steps).  c : cfg selects the pinned code (cfg_pinned) or the
   repairs (fix_d9, fix_d10, and fix_k2 of C06 — cfg_fixed2 is the current tree).  Theorems without a premise
   on c hold for every cfg, the pinned code included; none of them depends on fix_k2 (the K2 repair changes
   what Error() returns, not whether anything terminates).  Only statements closed by `exact`, non-vacuity Examples and Print Assumptions. *)
From GB Require Import Base.Prelude Model.Conn Model.ConnExplore Spec.ConnSeq.
From GB Require Import Proofs.ConnInv Proofs.ConnStructure Proofs.ConnProofs Proofs.ConnProofs3.
Open Scope nat_scope.

(* ---------- every cfg (pinned code included) ---------- *)

(* no_deadlock: once a stop cause is present and the handler is not running, some library process can move
   until Stream has returned *)
Theorem C05_no_deadlock : forall c s, reachable c s ->
  stop_cause_present s = true -> in_handler s = false -> stream_returned s = false ->
  exists l, is_lib l = true /\ enabled c s l.
Proof. exact no_deadlock. Qed.
Print Assumptions C05_no_deadlock.

(* progress measure: every library step strictly decreases mu = 4*|inbox| + pc ranks *)
Theorem C05_progress_measure : forall c s l s',
  step c s l = Some s' -> is_lib l = true -> mu s' < mu s.
Proof. exact lib_step_decreases. Qed.
Print Assumptions C05_progress_measure.

Theorem C05_lib_runs_bounded : forall c s ls s', lib_run c s ls s' -> length ls + mu s' <= mu s.
Proof. exact lib_run_bounded. Qed.
Print Assumptions C05_lib_runs_bounded.

(* bounded termination: from any reachable state, once the environment is silent, a run of library steps
   has at most mu s steps, and where it stops with a stop cause present and no handler running, Stream has
   returned.  (Weak fairness of the library processes = the run is continued while a step is enabled.) *)
Theorem C05_stream_returns : forall c s ls s', reachable c s -> lib_run c s ls s' -> quiescent c s' ->
  stop_cause_present s' = true -> in_handler s' = false ->
  stream_returned s' = true /\ length ls <= mu s.
Proof. exact stream_returns. Qed.
Print Assumptions C05_stream_returns.

(* no fairness and no silent environment needed for this one: over ANY schedule, the number of library
   steps taken plus the measure left is bounded by what the environment supplied
   (4 per packet that arrived, 1 per Error() call; mu init = 13) *)
Theorem C05_lib_steps_bounded_by_inputs : forall c tr s, reach c tr s ->
  count_lib tr + mu s <= mu init + supplied tr.
Proof. exact lib_steps_bounded_by_inputs. Qed.
Print Assumptions C05_lib_steps_bounded_by_inputs.

(* conn_closed: when Stream has returned the connection is not open (SNone = no connection was ever made) *)
Theorem C05_conn_closed : forall c s, reachable c s -> stream_returned s = true -> sock s <> SOpen.
Proof. exact conn_closed. Qed.
Print Assumptions C05_conn_closed.

(* handler_scope: at most one handler call at a time, exactly while the parser is inside the commit
   closure, never after Stream returned; handler verdicts are consumed only there *)
Theorem C05_handler_scope : forall c s, reachable c s ->
  hrun s <= 1 /\ (hrun s = 1 <-> in_handler s = true) /\ (stream_returned s = true -> hrun s = 0).
Proof. exact handler_scope. Qed.
Print Assumptions C05_handler_scope.

Theorem C05_handler_labels_scope : forall c s l s',
  step c s l = Some s' -> (l = LHandlerOk \/ l = LHandlerErr) -> in_handler s = true /\ stream_returned s = false.
Proof. exact handler_labels_scope. Qed.
Print Assumptions C05_handler_labels_scope.

(* exclusive_conn, with the K1 exception spelled out: two goroutines are inside driver calls at the same
   time only as Close() (Stream's deferred close) against ReadPacket() (the reader) *)
Theorem C05_exclusive_conn_except_close_vs_read : forall c s, reachable c s ->
  dc_r s <> None -> dc_p s <> None ->
  dc_r s = Some DReadPacket /\ dc_p s = Some DClose /\ rd s = RRead /\ exists r, ps s = PDeferClose r.
Proof. exact exclusive_conn_except_close_vs_read. Qed.
Print Assumptions C05_exclusive_conn_except_close_vs_read.

(* K1 (known finding, needs a driver change): the unqualified exclusive_conn is false for every cfg;
   schedule  ConnectOk, StartOk, Cancel, ParserSeeCancel, StreamDefer *)
Theorem C05_exclusive_conn_refuted : forall c, exists ls s,
  run c init ls = Some s /\ dc_r s = Some DReadPacket /\ dc_p s = Some DClose.
Proof. exact exclusive_conn_refuted. Qed.
Print Assumptions C05_exclusive_conn_refuted.

(* data_plane (for C04): every complete execution is "the parser consumed the first k events the master
   handed over and stopped with cause cz"; handler log and Stream result are those of the sequential view *)
Theorem C05_data_plane : forall c tr s r, reach c tr s -> stream_result s = Some r ->
  exists k cz,
    consumed s = firstn k (sent_events tr) /\ cause s = Some cz /\
    hlog s = seq_log (consumed s) cz /\ r = result_of cz.
Proof. exact data_plane. Qed.
Print Assumptions C05_data_plane.

(* ---------- needs the D9 repair ---------- *)

(* no_leftover: after Stream returned, a reader goroutine that still exists has an enabled step ... *)
Theorem C05_no_leftover : forall c s, fix_d9 c = true -> reachable c s ->
  stream_returned s = true -> reader_gone s = false ->
  exists l, is_reader_lib l = true /\ enabled c s l.
Proof. exact no_leftover. Qed.
Print Assumptions C05_no_leftover.

(* ... and by the measure it is gone after at most mu s library steps, without help from the environment *)
Theorem C05_no_leftover_final : forall c s ls s', fix_d9 c = true -> reachable c s -> stream_returned s = true ->
  lib_run c s ls s' -> quiescent c s' -> reader_gone s' = true /\ length ls <= mu s.
Proof. exact no_leftover_final. Qed.
Print Assumptions C05_no_leftover_final.

(* ---------- needs the D9 and the D10 repair ---------- *)

(* error_nonblocking: a pending Error() call can complete, or the reader can move towards publishing *)
Theorem C05_error_nonblocking : forall c s, fix_d9 c = true -> fix_d10 c = true -> reachable c s ->
  stream_returned s = true -> cl s = CInError ->
  enabled c s LErrorStep \/ exists l, is_reader_lib l = true /\ enabled c s l.
Proof. exact error_nonblocking. Qed.
Print Assumptions C05_error_nonblocking.

(* ... hence every Error() call after Stream returns, within mu s library steps — including when no
   connection was ever made *)
Theorem C05_error_returns : forall c s ls s', fix_d9 c = true -> fix_d10 c = true -> reachable c s ->
  stream_returned s = true -> cl s = CInError ->
  lib_run c s ls s' -> quiescent c s' -> (exists r, cl s' = CReturned r) /\ length ls <= mu s.
Proof. exact error_returns. Qed.
Print Assumptions C05_error_returns.

(* ---------- the pinned code ---------- *)

(* D9: schedule ConnectOk, StartOk, Arrive e0(tx), Arrive e1, ReaderRecv, Handoff, ReaderRecv, ProcOk,
   HandlerErr, StreamDefer, StreamReturn, CallError — Stream has returned, the reader is parked on
   `eventChan <- ev`, Error() is blocked, and no library process can move *)
Theorem C05_no_leftover_refuted : forall c, fix_d9 c = false -> exists ls s,
  run c init ls = Some s /\ stream_returned s = true /\ (exists e, rd s = RHold e) /\
  reader_gone s = false /\ cl s = CInError /\ cancelled s = false /\ quiescent c s.
Proof. exact no_leftover_refuted. Qed.
Print Assumptions C05_no_leftover_refuted.

(* D10: schedule ConnectFail, StreamDefer, CallError — s.errChan is nil and, whatever happens afterwards,
   Error() never returns *)
Theorem C05_error_nonblocking_refuted : forall c, fix_d10 c = false -> exists ls s,
  run c init ls = Some s /\ stream_returned s = true /\ s_chan s = false /\ cl s = CInError /\
  forall ls' s', run c s ls' = Some s' -> cl s' = CInError.
Proof. exact error_nonblocking_refuted. Qed.
Print Assumptions C05_error_nonblocking_refuted.

(* ---------- non-vacuity and cross-checks with the exhaustive exploration ---------- *)

(* a long run: three events, two deliveries, EOF, clean end; reader gone, socket closed, Error() = nil *)
Example C05_nonvacuous_clean_end :
  match run cfg_fixed init
    [LConnectOk; LStartOk; LArrive (PkEvent (0, false)); LArrive (PkEvent (1, true)); LReaderRecv; LHandoff; LProcOk;
     LReaderRecv; LArrive (PkEvent (2, true)); LHandoff; LProcOk; LHandlerOk; LReaderRecv; LHandoff; LArrive PkEOF;
     LProcOk; LReaderRecv; LHandlerOk; LReaderPutErr; LReaderCloseErr; LReaderCloseEv; LParserSeeClosed;
     LStreamDefer; LStreamReturn; LCallError; LErrorStep] with
  | Some s => stream_result s = Some RNil /\ reader_gone s = true /\ sock s = SClosedClient /\
              cl s = CReturned ENil /\ hlog s = [((1, true), true); ((2, true), true)] /\ cause s = Some CClosed
  | None => False
  end.
Proof. vm_compute. repeat split. Qed.

(* the D9 schedule on the repaired cfg: the reader leaves, Error() returns *)
Example C05_d9_schedule_repaired :
  match run cfg_fixed init (sched_d9 ++ [LReaderSeeCancel; LReaderPutErr; LErrorStep; LReaderCloseErr; LReaderCloseEv]) with
  | Some s => reader_gone s = true /\ cl s = CReturned ENil /\ stream_result s = Some RErr
  | None => False
  end.
Proof. vm_compute. repeat split. Qed.

(* exploration of all interleavings agrees with the theorems on the defect scenarios *)
Example C05_explore_d9_pinned :
  option_map (fun p => map code (fst p))
    (outcomes (Sc cfg_pinned [true; true; false] THang [true; false] KNever false false None) 5000)
  = Some [[1; 2; 0; 0; 1]; [1; 3; 1; 0; 0]; [1; 3; 1; 0; 1]].
Proof. vm_compute. reflexivity. Qed.
Example C05_explore_d9_fixed :
  option_map (fun p => map code (fst p))
    (outcomes (Sc cfg_fixed [true; true; false] THang [true; false] KNever false false None) 5000)
  = Some [[1; 0; 0; 0; 0]; [1; 0; 0; 0; 1]; [1; 2; 0; 0; 1]].
Proof. vm_compute. reflexivity. Qed.
Example C05_explore_d9_fixed2 :
  option_map (fun p => map code (fst p))
    (outcomes (Sc cfg_fixed2 [true; true; false] THang [true; false] KNever false false None) 5000)
  = Some [[1; 0; 0; 0; 0]; [1; 0; 0; 0; 1]; [1; 2; 0; 0; 1]].
Proof. vm_compute. reflexivity. Qed.
Example C05_explore_d10 :
  option_map (fun p => map code (fst p)) (outcomes (Sc cfg_pinned [] THang [] KNever true false None) 100) = Some [[1; 3; 0; 2; 0]]
  /\ option_map (fun p => map code (fst p)) (outcomes (Sc cfg_fixed [] THang [] KNever true false None) 100) = Some [[1; 0; 0; 2; 0]].
Proof. split; vm_compute; reflexivity. Qed.

(* the structural facts of the source the model rests on *)
Definition C05_structure :=
  (only_go_statement, handler_call_site, stream_defers_close, error_filter_shape, err_chan_capacity).

(* ---------------------------------------------------------------------------------------------------------------
   Source pins.  The model functions used above are a hand-written reading of these Go functions (they have closures,
   channels, interfaces or maps, which the translator gotrans does not accept).  gosync regenerates their normalised
   text (logging calls and comments removed) into gen/Source.v on every run; it must equal the committed snapshot
   Spec/SourceSnapshot.v the models were written and validated against.  When one of them is edited the Example
   naming it fails, the check runs the thorough harness in search of a failing input, and reports the property as no
   longer shown to hold (with the input, or no-failing-input-found). *)
From GB Require Proofs.SourcePins Spec.SourceSnapshot.
From GBGen Require Source.
Example C05_pin_Stream : Source.src_Stream = SourceSnapshot.src_Stream.
Proof. exact SourcePins.pin_Stream. Qed.
Example C05_pin_Error : Source.src_Error = SourceSnapshot.src_Error.
Proof. exact SourcePins.pin_Error. Qed.
Example C05_pin_newSlaveConnection : Source.src_newSlaveConnection = SourceSnapshot.src_newSlaveConnection.
Proof. exact SourcePins.pin_newSlaveConnection. Qed.
Example C05_pin_slaveConnection_close : Source.src_slaveConnection_close = SourceSnapshot.src_slaveConnection_close.
Proof. exact SourcePins.pin_slaveConnection_close. Qed.
Example C05_pin_startDumpFromBinlogPosition : Source.src_startDumpFromBinlogPosition = SourceSnapshot.src_startDumpFromBinlogPosition.
Proof. exact SourcePins.pin_startDumpFromBinlogPosition. Qed.
Example C05_pin_readBinlogEvent : Source.src_readBinlogEvent = SourceSnapshot.src_readBinlogEvent.
Proof. exact SourcePins.pin_readBinlogEvent. Qed.
